#!/usr/bin/env python3
"""rs2lean: regenerate Pdb/Gen/Consts.lean and Pdb/Gen/Bits.lean from /repo/src.

Translates (a) integer / byte-array constants, (b) one-expression integer functions
(and selected `let` bindings inside larger functions), (c) the throttle / wake-up comparisons
(CONDS), the two `if sync_data { A } else { B }` bindings (IFLETS) and (d) the UPDATES of the two
queue counters (`queue.bytes += bytes`, `queue.bytes -= commit.bytes`, `*logged_bytes += bytes as i64`,
`*queue -= bytes as i64`: the COMPLETE right-hand side up to the `;`, every compound assignment to
the counter inside the function) through a small Rust expression grammar, plus (e) the list of
functions of src/db.rs that write `queue.bytes` / take the mutex of the log-queue counter (WRITERS).  Machine arithmetic is emitted through the width-explicit primitives of
Pdb/Gen/Prim.lean (wadd, wsub, wmul, wshl, wshr, wcast ...), i.e. release-mode
wrapping semantics with masked shift amounts.

Any tracked item that cannot be found or translated is a hard error (exit 2): the
check driver treats that as a broken obligation.
"""
import re, sys, os, json

sys.path.insert(0, os.path.dirname(os.path.abspath(__file__)))
import rustlex  # noqa: E402

REPO = os.environ.get("PDB_REPO", "/repo")
OUT = os.path.join(os.path.dirname(os.path.abspath(__file__)), "..", "lean", "Pdb", "Gen")


class TranslateError(Exception):
    pass


def read(rel):
    with open(os.path.join(REPO, rel)) as f:
        return f.read()


def strip_comments(src):
    """comments blanked and the contents of string / char literals masked (tools/rustlex.py), so that a
    `'}'`, a `"{"` or a `//` inside a literal cannot confuse the brace matching below"""
    try:
        toks = rustlex.lex(src)
        rustlex.check_balanced(toks, "source")
        return rustlex.mask(src)
    except rustlex.LexError as e:
        raise TranslateError("cannot lex the source: %s" % e)


# ---------------------------------------------------------------- tokenizer / parser

TOK = re.compile(r"""
    (?P<num>0x[0-9a-fA-F_]+|\d[\d_]*)(?P<suf>(?:u|i)(?:8|16|32|64|128|size))?
  | (?P<id>[A-Za-z_][A-Za-z0-9_]*)
  | (?P<op><<|>>|::|[-+*/%&|^()\[\],.;<>!=])
  | (?P<ws>\s+)
""", re.X)

WIDTH = {"u8": 8, "u16": 16, "u32": 32, "u64": 64, "usize": 64, "i32": 32, "i64": 64, "u128": 128,
         "ColId": 8}
# Signed values are only tracked inside CONDS with `signed=True` (the i64 log-queue counter): there a
# NEGATIVE width -w stands for i<w>, values are Lean `Int`s and arithmetic goes through iadd / isub / icast.
SIGNED = {"i8": -8, "i16": -16, "i32": -32, "i64": -64, "isize": -64}


def tokenize(s):
    pos, out = 0, []
    while pos < len(s):
        m = TOK.match(s, pos)
        if not m:
            raise TranslateError("cannot tokenize at: %r" % s[pos:pos + 30])
        pos = m.end()
        if m.group("ws"):
            continue
        if m.group("num"):
            v = int(m.group("num").replace("_", ""), 0)
            out.append(("num", v, WIDTH.get(m.group("suf")) if m.group("suf") else None))
        elif m.group("id"):
            out.append(("id", m.group("id"), None))
        else:
            out.append(("op", m.group("op"), None))
    return out


class Parser:
    """Produces (lean_text, width|None, pyvalue|None)."""

    # Rust precedence, loosest first
    LEVELS = [["|"], ["^"], ["&"], ["<<", ">>"], ["+", "-"], ["*", "/", "%"]]

    def __init__(self, toks, env, consts, calls, signed=False):
        self.t, self.i = toks, 0
        self.signed = signed
        self.env = env          # identifier -> (lean, width)
        self.consts = consts    # NAME -> (leanname, width, value)
        self.calls = calls      # rust call path -> (leanname, [param widths], ret width)

    def peek(self):
        return self.t[self.i] if self.i < len(self.t) else ("eof", None, None)

    def eat(self, kind=None, val=None):
        tok = self.peek()
        if (kind and tok[0] != kind) or (val is not None and tok[1] != val):
            raise TranslateError("expected %s %s, got %s" % (kind, val, tok))
        self.i += 1
        return tok

    def parse(self):
        r = self.binary(0)
        if self.peek()[0] != "eof":
            raise TranslateError("trailing tokens: %s" % (self.t[self.i:],))
        return r

    def binary(self, lvl):
        if lvl == len(self.LEVELS):
            return self.cast()
        lhs = self.binary(lvl + 1)
        while self.peek()[0] == "op" and self.peek()[1] in self.LEVELS[lvl]:
            op = self.eat()[1]
            rhs = self.binary(lvl + 1)
            lhs = self.mk(op, lhs, rhs)
        return lhs

    def mk(self, op, a, b):
        (la, wa), (lb, wb) = a, b
        if op in ("<<", ">>"):
            w = wa
            if w is None:
                w = 64  # untyped literal shifted: default i32 in Rust, but only used as `1 << C` cast later
            f = "wshl" if op == "<<" else "wshr"
            return ("(%s %d %s %s)" % (f, w, la, lb), w)
        w = wa if wa is not None else wb
        if wa is not None and wb is not None and wa != wb:
            raise TranslateError("width mismatch %s(%s) %s %s(%s)" % (la, wa, op, lb, wb))
        if w is None:
            w = 64
        if w < 0:
            if op in ("*", "/", "%"):
                # wrapping signed product / truncating division and remainder (Rust `/`, `%` on integers)
                f = {"*": "(%s * %s)", "/": "(Int.tdiv %s %s)", "%": "(Int.tmod %s %s)"}[op] % (la, lb)
                return ("(iwrap %d %s)" % (-w, f), w)
            if op not in ("+", "-"):
                raise TranslateError("unsupported signed operator %s" % op)
            return ("(%s %d %s %s)" % ({"+": "iadd", "-": "isub"}[op], -w, la, lb), w)
        f = {"+": "wadd", "-": "wsub", "*": "wmul", "&": "wand", "|": "wor", "^": "wxor",
             "/": "wdiv", "%": "wmod"}[op]
        return ("(%s %d %s %s)" % (f, w, la, lb), w)

    def cast(self):
        e = self.unary()
        while self.peek() == ("id", "as", None):
            self.eat()
            ty = self.eat("id")[1]
            if ty not in WIDTH:
                raise TranslateError("cast to unknown type " + ty)
            if self.signed and ty in SIGNED:
                if e[1] is not None and e[1] < 0:
                    e = ("(iwrap %d %s)" % (-SIGNED[ty], e[0]), SIGNED[ty])
                else:
                    e = ("(icast %d %s)" % (-SIGNED[ty], e[0]), SIGNED[ty])
                continue
            if e[1] is not None and e[1] < 0:
                raise TranslateError("unsupported cast of a signed value to " + ty)
            e = ("(wcast %d %s)" % (WIDTH[ty], e[0]), WIDTH[ty])
        return e

    def unary(self):
        return self.postfix(self.primary())

    def args(self):
        self.eat("op", "(")
        out = []
        while self.peek() != ("op", ")", None):
            out.append(self.binary(0))
            if self.peek() == ("op", ",", None):
                self.eat()
        self.eat("op", ")")
        return out

    def call(self, path, args):
        if path in ("std::cmp::max", "cmp::max", "max"):
            (a, wa), (b, wb) = args
            w = wa if wa is not None else wb
            return ("(Nat.max %s %s)" % (a, b), w)
        if path in ("Address::from_u64", "Entry::from_u64", "TableId::from_u16", "Entry", "Address", "TableId"):
            return args[0]
        if path not in self.calls:
            raise TranslateError("unknown call " + path)
        name, pws, rw = self.calls[path]
        if len(pws) != len(args):
            raise TranslateError("arity mismatch calling " + path)
        return ("(%s %s)" % (name, " ".join(a[0] for a in args)), rw)

    def primary(self):
        tok = self.peek()
        if tok[0] == "num":
            self.eat()
            return (str(tok[1]), tok[2])
        if tok == ("op", "("):
            pass
        if tok[0] == "op" and tok[1] == "(":
            self.eat()
            e = self.binary(0)
            self.eat("op", ")")
            return e
        if tok[0] == "id":
            # path  a::b::c
            path = [self.eat("id")[1]]
            while self.peek() == ("op", "::", None):
                self.eat()
                path.append(self.eat("id")[1])
            p = "::".join(path)
            if self.peek() == ("op", "(", None):
                return self.call(p, self.args())
            if p in self.env:
                return self.env[p]
            if p in ("u32::MAX",):
                return ("4294967295", 32)
            if p in ("u64::MAX",):
                return ("18446744073709551615", 64)
            if p in ("u16::MAX",):
                return ("65535", 16)
            last = path[-1]
            if last in self.consts:
                n, w, _ = self.consts[last]
                if self.signed and w < 0:
                    return ("((%s : Nat) : Int)" % n, w)
                return (n, abs(w))
            raise TranslateError("unknown identifier " + p)
        raise TranslateError("unexpected token %s" % (tok,))

    def postfix(self, e):
        while self.peek() == ("op", ".", None):
            self.eat()
            tok = self.eat()
            if tok[0] == "num":      # self.0
                continue
            name = tok[1]
            if self.peek() == ("op", "(", None):
                a = self.args()
                key = "self." + name if e[0] == "self" else "." + name
                if name in ("into", "as_u64", "as_u16"):
                    continue
                if name == "len":
                    continue   # x.len() -> x (callers pass the length)
                if key in self.calls:
                    fn, pws, rw = self.calls[key]
                    e = ("(%s %s)" % (fn, " ".join([e[0]] + [x[0] for x in a])), rw)
                    continue
                if ("self." + name) in self.calls and e[0] != "self":
                    # method on a field that is itself a tracked newtype, e.g. self.id.index_bits()
                    fn, pws, rw = self.calls["self." + name]
                    e = ("(%s %s)" % (fn, " ".join([e[0]] + [x[0] for x in a])), rw)
                    continue
                raise TranslateError("unknown method ." + name)
            else:
                fld = e[0] + "." + name
                if fld in self.env:
                    e = self.env[fld]
                else:
                    raise TranslateError("unknown field " + fld)
        return e


# ---------------------------------------------------------------- extraction helpers

def find_const(src, name):
    m = re.search(r"\bconst\s+%s\s*:\s*([^=]+?)=\s*(.*?);" % re.escape(name), src, re.S)
    if not m:
        raise TranslateError("constant %s not found" % name)
    return m.group(1).strip(), m.group(2).strip()


def find_fn_body(src, impl, name):
    """Return (params, ret, body) of fn `name` (inside `impl <impl>` block when given)."""
    scope = src
    if impl:
        m = re.search(r"\bimpl(?:<[^>]*>)?\s+%s\b[^{]*\{" % re.escape(impl), src)
        if not m:
            raise TranslateError("impl %s not found" % impl)
        found = None
        for m in re.finditer(r"\bimpl(?:<[^>]*>)?\s+%s\b[^{]*\{" % re.escape(impl), src):
            blk = block_from(src, m.end() - 1)
            if re.search(r"\bfn\s+%s\s*[(<]" % re.escape(name), blk):
                found = blk
                break
        if found is None:
            raise TranslateError("fn %s::%s not found" % (impl, name))
        scope = found
    m = re.search(r"\bfn\s+%s\s*(?:<[^>]*>)?\s*\(([^)]*)\)\s*(?:->\s*([^{]+?))?\s*\{" % re.escape(name), scope, re.S)
    if not m:
        raise TranslateError("fn %s not found" % name)
    body = block_from(scope, m.end() - 1)
    return m.group(1), (m.group(2) or "").strip(), body[1:-1]


def find_fn_body_alt(src, impl, names):
    """body of the first of `names` that exists in `impl` (fix-c08 moves the body of `commit_raw` to
    `commit_raw_checked` and leaves a one-line wrapper); returns (name, params, ret, body)"""
    if isinstance(names, str):
        names = [names]
    err = None
    for n in names:
        try:
            return (n,) + find_fn_body(src, impl, n)
        except TranslateError as e:
            err = e
    raise err


def block_from(src, i):
    assert src[i] == "{"
    depth, j = 0, i
    while j < len(src):
        if src[j] == "{":
            depth += 1
        elif src[j] == "}":
            depth -= 1
            if depth == 0:
                return src[i:j + 1]
        j += 1
    raise TranslateError("unbalanced braces")


# ---------------------------------------------------------------- tracked items

CONSTS = [
    # (file, rust name, lean name)
    ("src/table.rs", "SIZE_TIERS_BITS", None), ("src/table.rs", "SIZE_TIERS", None),
    ("src/table.rs", "COMPRESSED_MASK", None), ("src/table.rs", "MAX_ENTRY_SIZE", None),
    ("src/table.rs", "MIN_ENTRY_SIZE", None), ("src/table.rs", "REFS_SIZE", None),
    ("src/table.rs", "SIZE_SIZE", None), ("src/table.rs", "INDEX_SIZE", None),
    ("src/table.rs", "MAX_ENTRY_BUF_SIZE", None), ("src/table.rs", "LOCKED_REF", None),
    ("src/table.rs", "MULTIPART_ENTRY_SIZE", None), ("src/table.rs", "PARTIAL_SIZE", None),
    ("src/table.rs", "TOMBSTONE", None), ("src/table.rs", "MULTIPART", None),
    ("src/table.rs", "MULTIHEAD", None), ("src/table.rs", "MULTIHEAD_COMPRESSED", None),
    ("src/column.rs", "MIN_INDEX_BITS", None), ("src/column.rs", "MIN_REF_COUNT_BITS", None),
    ("src/column.rs", "MAX_REINDEX_BATCH", None), ("src/column.rs", "SIZES", None),
    ("src/index.rs", "CHUNK_ENTRIES_BITS", "INDEX_CHUNK_ENTRIES_BITS"),
    ("src/index.rs", "CHUNK_ENTRIES", "INDEX_CHUNK_ENTRIES"),
    ("src/index.rs", "ENTRY_BITS", "INDEX_ENTRY_BITS"),
    ("src/index.rs", "ENTRY_BYTES", "INDEX_ENTRY_BYTES"),
    ("src/index.rs", "CHUNK_LEN", "INDEX_CHUNK_LEN"),
    ("src/index.rs", "HEADER_SIZE", "INDEX_HEADER_SIZE"), ("src/index.rs", "META_SIZE", "INDEX_META_SIZE"),
    ("src/ref_count.rs", "CHUNK_ENTRIES_BITS", "RC_CHUNK_ENTRIES_BITS"),
    ("src/ref_count.rs", "CHUNK_ENTRIES", "RC_CHUNK_ENTRIES"),
    ("src/ref_count.rs", "ENTRY_BITS", "RC_ENTRY_BITS"),
    ("src/ref_count.rs", "ENTRY_BYTES", "RC_ENTRY_BYTES"),
    ("src/ref_count.rs", "META_SIZE", "RC_META_SIZE"),
    ("src/lib.rs", "KEY_SIZE", None),
    ("src/log.rs", "MAX_LOG_POOL_SIZE", None), ("src/log.rs", "BEGIN_RECORD", None),
    ("src/log.rs", "INSERT_INDEX", None), ("src/log.rs", "INSERT_VALUE", None),
    ("src/log.rs", "END_RECORD", None), ("src/log.rs", "DROP_TABLE", None),
    ("src/log.rs", "INSERT_REF_COUNT", None), ("src/log.rs", "DROP_REF_COUNT_TABLE", None),
    ("src/db.rs", "MAX_COMMIT_QUEUE_BYTES", None), ("src/db.rs", "MAX_LOG_QUEUE_BYTES", None),
    ("src/db.rs", "MIN_LOG_SIZE_BYTES", None), ("src/db.rs", "KEEP_LOGS", None),
    ("src/db.rs", "MAX_LOG_FILES", None),
    ("src/migration.rs", "COMMIT_SIZE", None),
    ("src/options.rs", "CURRENT_VERSION", None), ("src/options.rs", "LAST_SUPPORTED_VERSION", None),
    ("src/options.rs", "DEFAULT_COMPRESSION_THRESHOLD", None),
    ("src/btree/mod.rs", "ORDER", "BTREE_ORDER"), ("src/btree/mod.rs", "ORDER_CHILD", "BTREE_ORDER_CHILD"),
    ("src/btree/mod.rs", "HEADER_SIZE", "BTREE_HEADER_SIZE"),
    ("src/btree/mod.rs", "MAX_KEYSIZE_ENCODED_SIZE", "BTREE_MAX_KEYSIZE_ENCODED_SIZE"),
]

# (file, impl, fn, lean name, [(param, rust-name-in-body, width)], ret width, self-binding)
# self-binding: what `self.0` / `self` mean, as (lean param name, width) or None
FUNCS = [
    ("src/index.rs", "Entry", "address_bits", "Entry.address_bits", [("index_bits", 8)], 8, None),
    ("src/index.rs", "Entry", "last_address", "Entry.last_address", [("index_bits", 8)], 64, None),
    ("src/index.rs", "Entry", "new", "Entry.new", [("address", 64), ("partial_key", 64), ("index_bits", 8)], 64, None),
    ("src/index.rs", "Entry", "address", "Entry.address", [("index_bits", 8)], 64, ("e", 64)),
    ("src/index.rs", "Entry", "partial_key", "Entry.partial_key", [("index_bits", 8)], 64, ("e", 64)),
    ("src/index.rs", "Entry", "extract_key", "Entry.extract_key", [("key_prefix", 64), ("index_bits", 8)], 64, None),
    ("src/index.rs", "Address", "new", "Address.new", [("offset", 64), ("size_tier", 8)], 64, None),
    ("src/index.rs", "Address", "offset", "Address.offset", [], 64, ("a", 64)),
    ("src/index.rs", "Address", "size_tier", "Address.size_tier", [], 8, ("a", 64)),
    ("src/index.rs", None, "total_chunks", "total_chunks", [("index_bits", 8)], 64, None),
    ("src/index.rs", None, "total_entries", "total_entries", [("index_bits", 8)], 64, None),
    ("src/index.rs", None, "file_size", "index_file_size", [("index_bits", 8)], 64, None),
    ("src/index.rs", "TableId", "new", "TableId.new", [("col", 8), ("index_bits", 8)], 16, None),
    ("src/index.rs", "TableId", "col", "TableId.col", [], 8, ("t", 16)),
    ("src/index.rs", "TableId", "index_bits", "TableId.index_bits", [], 8, ("t", 16)),
    ("src/index.rs", "TableId", "log_index", "TableId.log_index", [], 64, ("t", 16)),
    ("src/column.rs", None, "packed_node_size", "packed_node_size", [("data", 64), ("num_children", 8)], 64, None),
]

# `let` bindings inside larger functions: (file, impl, fn, [let names in order], lean prefix,
#   params [(name,width)], extra env {rust expr -> (lean, width)})
LETS = [
    ("src/index.rs", "IndexTable", "find_entry_sse2", ["shift", "pk"], "sse2",
     [("index_bits", 8), ("key_prefix", 64)], {"self.id.index_bits()": ("index_bits", 8)}),
    ("src/index.rs", "IndexTable", "recover_key_prefix", ["partial_key", "k", "index_key"], "recover",
     [("index_bits", 8), ("chunk", 64), ("entry", 64)],
     {"self.id.index_bits()": ("index_bits", 8)}),
    ("src/index.rs", "IndexTable", "chunk_index", None, "chunk_index",
     [("index_bits", 8), ("key_prefix", 64)], {"self.id.index_bits()": ("index_bits", 8)}),
]


# Boolean conditions extracted from larger functions: (file, impl, fn, regex with one group = the
# condition text, lean name, params [(name,width)], textual substitutions applied before parsing, signed).
# A negative width -w is the signed type i<w> (Lean `Int`); `signed=True` switches the expression
# translation to iadd / isub / icast (two's complement wrapping, see Pdb/Gen/Prim.lean).
# The COMPLETE `if` headers these comparisons sit in (all conjuncts) are pinned separately by
# tools/skeleton.py (`<fn>_conds` in Pdb/Gen/Order.lean, obligations in Pdb/Proofs/Order.lean).
CONDS = [
    ("src/db.rs", "DbInner", ["commit_raw_checked", "commit_raw"], r"(queue\.bytes\s*[<>=!]+\s*MAX_COMMIT_QUEUE_BYTES)", "commit_throttle",
     [("q", 64)], [("queue.bytes", "q")], False),
    ("src/db.rs", "DbInner", "process_commits",
     r"if\s+(queue\.bytes\s*[<>=!]+\s*MAX_COMMIT_QUEUE_BYTES\s*&&\s*\(queue\.bytes\s*\+\s*commit\.bytes\)\s*[<>=!]+\s*MAX_COMMIT_QUEUE_BYTES)",
     "commit_wake", [("q", 64), ("c", 64)], [("queue.bytes", "q"), ("commit.bytes", "c")], False),
    ("src/db.rs", "DbInner", "process_commits", r"(\*queue\s*[<>=!]+\s*MAX_LOG_QUEUE_BYTES)", "log_throttle",
     [("q", -64)], [("*queue", "q")], True),
    ("src/db.rs", "DbInner", "enact_logs",
     r"if\s+(\*queue\s*[<>=!]+\s*MAX_LOG_QUEUE_BYTES\s*&&\s*\(\*queue\s*\+\s*bytes\s+as\s+i64\)\s*[<>=!]+\s*MAX_LOG_QUEUE_BYTES)",
     "log_wake", [("q", -64), ("b", 64)], [("*queue", "q"), ("bytes as", "b as")], True),
]

# `let <name> = if self.options.sync_data { A } else { B };` inside larger functions:
# (file, impl, fn, let name, lean name)  ->  def <lean> (sync_data : Bool) : Nat := if sync_data then A else B
IFLETS = [
    ("src/db.rs", "DbInner", "enact_logs", "max_logs", "enact_max_logs"),
    ("src/db.rs", "DbInner", "clean_logs", "keep_logs", "clean_keep_logs"),
]

# Counter updates `<target> <op>= <rhs>;`: (file, impl, fn (or alternatives), regex of the target, expected number of
# such statements in the function, lean name(s), params, substitutions, signed).  EVERY compound assignment to the
# target inside the function is translated (the complete right-hand side, up to the `;`) into
#   def <lean> (q ..) := q <op> (<rhs>)
# A plain assignment to the target, or a different number of updates, is an error.
UPDATES = [
    ("src/db.rs", "DbInner", ["commit_raw_checked", "commit_raw"], r"queue\.bytes", ["commit_queue_add"],
     [("q", 64), ("b", 64)], [("bytes", "b")], False),
    ("src/db.rs", "DbInner", "defer_commit", r"queue\.bytes", ["defer_queue_add"],
     [("q", 64), ("b", 64)], [("bytes", "b")], False),
    ("src/db.rs", "DbInner", "process_commits", r"queue\.bytes", ["commit_queue_sub"],
     [("q", 64), ("c", 64)], [("commit.bytes", "c")], False),
    ("src/db.rs", "DbInner", "process_commits", r"\*logged_bytes", ["log_queue_add"],
     [("q", -64), ("b", 64)], [("bytes as", "b as")], True),
    ("src/db.rs", "DbInner", "process_reindex", r"\*logged_bytes", ["reindex_log_queue_add", "reindex_rc_log_queue_add"],
     [("q", -64), ("b", 64)], [("bytes as", "b as")], True),
    ("src/db.rs", "DbInner", "enact_logs", r"\*queue", ["log_queue_sub"],
     [("q", -64), ("b", 64)], [("bytes as", "b as")], True),
]

# Who writes the two counters at all: every compound / plain assignment to `queue.bytes` (any receiver named `queue`)
# and every place that takes the mutex of the log-queue counter, per function, over the WHOLE of src/db.rs.
WRITERS = [
    ("src/db.rs", r"\bqueue\.bytes\s*(?:[-+*/%|&^]|<<|>>)?=(?!=)", "commit_queue_writers"),
    ("src/db.rs", r"\blog_queue_wait\s*\.\s*work\s*\.\s*lock\s*\(\s*\)", "log_queue_lockers"),
]

CMP = {"<=": "≤", ">=": "≥", "<": "<", ">": ">", "==": "=", "!=": "≠"}


def translate_cond(text, env, consts, calls, signed=False):
    """conjunction of comparisons between integer expressions -> Lean Bool"""
    parts = [p.strip() for p in text.split("&&")]
    out = []
    for part in parts:
        m = re.match(r"^(.*?)(<=|>=|==|!=|<|>)(.*)$", part, re.S)
        if not m:
            raise TranslateError("unsupported condition %r" % part)
        lhs, op, rhs = m.group(1).strip(), m.group(2), m.group(3).strip()
        l, wl = Parser(tokenize(lhs), env, consts, calls, signed).parse()
        r, wr = Parser(tokenize(rhs), env, consts, calls, signed).parse()
        if wl is not None and wr is not None and (wl < 0) != (wr < 0):
            raise TranslateError("comparison of a signed with an unsigned value in %r" % part)
        out.append("decide (%s %s %s)" % (l, CMP[op], r))
    return " && ".join(out)


def eval_const_expr(expr, consts):
    """Constant expressions are evaluated by translating to Python."""
    e = expr
    e = re.sub(r"(\d)_(?=\d)", r"\1", e)
    e = re.sub(r"\b(0x[0-9a-fA-F]+|\d+)(?:u|i)(?:8|16|32|64|128|size)\b", r"\1", e)
    e = re.sub(r"\s+as\s+(?:u|i)(?:8|16|32|64|size)\b", "", e)
    e = e.replace("u32::MAX", "4294967295").replace("u64::MAX", str(2 ** 64 - 1))
    e = re.sub(r"\bcrate::[a-z_]+::", "", e)

    def sub(m):
        n = m.group(0)
        if n in consts:
            return str(consts[n][2])
        raise TranslateError("unknown name %s in constant expression %r" % (n, expr))
    e = re.sub(r"\b[A-Z][A-Z0-9_]*\b", sub, e)
    e = e.replace("/", "//")
    if not re.fullmatch(r"[0-9a-fx\s()+\-*/<>|&]+", e):
        raise TranslateError("unsupported constant expression %r" % expr)
    return int(eval(e, {"__builtins__": {}}))


def main():
    out_consts, out_bits = [], []
    consts = {}   # rust name (per file) resolution is by (file,name); global map by lean name
    per_file = {}
    report = {"consts": {}, "funcs": {}}
    srcs = {}
    for f, name, lean in CONSTS:
        if f not in srcs:
            srcs[f] = strip_comments(read(f))
        ty, expr = find_const(srcs[f], name)
        scope = per_file.setdefault(f, {})
        lname = lean or name
        lookup = dict(consts)
        lookup.update(scope)
        if ty.startswith("&[u8]") or ty.startswith("["):
            body = expr.strip()
            if body.startswith("&"):
                body = body[1:].strip()
            if not (body.startswith("[") and body.endswith("]")):
                raise TranslateError("unsupported array constant %s" % name)
            items = [x.strip() for x in body[1:-1].replace("\n", " ").split(",") if x.strip()]
            vals = [eval_const_expr(x, lookup) for x in items]
            out_consts.append("/-- %s: `%s` -/\ndef %s : List Nat := %s" % (f, name, lname, "[" + ", ".join(map(str, vals)) + "]"))
            report["consts"][lname] = vals
            continue
        w = SIGNED.get(ty.strip(), WIDTH.get(ty.strip(), 64))      # negative = signed (see SIGNED)
        val = eval_const_expr(expr, lookup)
        scope[name] = (lname, w, val)
        consts[lname] = (lname, w, val)
        if lean is None:
            consts[name] = (lname, w, val)
        out_consts.append("/-- %s: `const %s: %s = %s` -/\ndef %s : Nat := %d" % (f, name, ty.strip(), " ".join(expr.split()), lname, val))
        report["consts"][lname] = val

    calls = {}
    # first pass: register signatures
    for f, impl, fn, lean, params, rw, selfb in FUNCS:
        pws = [w for _, w in params]
        if selfb:
            calls["self." + fn] = (lean, pws, rw)            # self.fn(args) -> lean self args
            calls[(impl + "::" + fn) if impl else fn] = (lean, [selfb[1]] + pws, rw)
        else:
            calls[("Self::" + fn)] = (lean, pws, rw) if impl else None
            calls[(impl + "::" + fn) if impl else fn] = (lean, pws, rw)
    calls = {k: v for k, v in calls.items() if v}

    for f, impl, fn, lean, params, rw, selfb in FUNCS:
        if f not in srcs:
            srcs[f] = strip_comments(read(f))
        psrc, ret, body = find_fn_body(srcs[f], impl, fn)
        body = body.strip()
        if ";" in body:
            raise TranslateError("%s::%s is no longer a single expression: %r" % (impl, fn, body))
        env = {p: (p, w) for p, w in params}
        fconsts = dict(consts)
        fconsts.update(per_file.get(f, {}))
        lparams = list(params)
        fcalls = dict(calls)
        if selfb:
            env["self"] = (selfb[0], selfb[1])
            lparams = [selfb] + lparams
        # `Self::g` resolves inside the impl
        for k, v in list(calls.items()):
            if impl and k.startswith(impl + "::"):
                fcalls["Self::" + k.split("::", 1)[1]] = v
        p = Parser(tokenize(body), env, fconsts, fcalls)
        text, w = p.parse()
        if w is not None and w != rw:
            text = "(wcast %d %s)" % (rw, text) if w > rw else text
        sig = " ".join("(%s : Nat)" % n for n, _ in lparams)
        out_bits.append("/-- %s: `%s%s` = `%s` -/\ndef %s %s : Nat := %s" % (
            f, (impl + "::") if impl else "", fn, " ".join(body.split()), lean, sig, text))
        report["funcs"][lean] = " ".join(body.split())

    for f, impl, fn, lets, prefix, params, extra in LETS:
        psrc, ret, body = find_fn_body(srcs[f], impl, fn)
        env = {p: (p, w) for p, w in params}
        fconsts = dict(consts)
        fconsts.update(per_file.get(f, {}))
        fcalls = dict(calls)
        for k, v in list(calls.items()):
            if impl and k.startswith("Entry::"):
                pass
        sig = " ".join("(%s : Nat)" % n for n, _ in params)
        argnames = " ".join(n for n, _ in params)

        def subst_extra(e):
            for k, (ln, w) in extra.items():
                e = e.replace(k, "__x_%s" % ln)
                env["__x_%s" % ln] = (ln, w)
            return e
        if lets is None:
            expr = body.strip()
            if ";" in expr:
                raise TranslateError("%s is no longer a single expression" % fn)
            text, w = Parser(tokenize(subst_extra(expr)), env, fconsts, fcalls).parse()
            out_bits.append("/-- %s: `%s::%s` = `%s` -/\ndef %s %s : Nat := %s" % (
                f, impl, fn, " ".join(expr.split()), prefix, sig, text))
            report["funcs"][prefix] = " ".join(expr.split())
            continue
        for ln in lets:
            m = re.search(r"\blet\s+%s\s*(?::\s*\w+)?\s*=\s*(.*?);" % re.escape(ln), body, re.S)
            if not m:
                raise TranslateError("let %s not found in %s" % (ln, fn))
            expr = m.group(1)
            e2 = subst_extra(expr)
            # entry.partial_key(..) where entry is a u64 param
            e2 = re.sub(r"\bentry\.partial_key\(", "Entry::partial_key(entry, ", e2)
            text, w = Parser(tokenize(e2), env, fconsts, fcalls).parse()
            lname = "%s_%s" % (prefix, ln)
            out_bits.append("/-- %s: in `%s::%s`: `let %s = %s` -/\ndef %s %s : Nat := %s" % (
                f, impl, fn, ln, " ".join(expr.split()), lname, sig, text))
            env[ln] = ("(%s %s)" % (lname, argnames), w if w else 64)
            report["funcs"][lname] = " ".join(expr.split())

    for f, impl, fn, rx, lname, params, subs, signed in CONDS:
        if f not in srcs:
            srcs[f] = strip_comments(read(f))
        fn, psrc, ret, body = find_fn_body_alt(srcs[f], impl, fn)
        ms = re.findall(rx, body, re.S)
        if len(ms) != 1:
            raise TranslateError("condition %s: expected exactly one match in %s::%s, found %d" % (lname, impl, fn, len(ms)))
        text = " ".join(ms[0].split())
        orig = text
        for a, b in subs:
            text = text.replace(a, b)
        env = {n: (n, w) for n, w in params}
        fconsts = dict(consts)
        fconsts.update(per_file.get(f, {}))
        lean = translate_cond(text, env, fconsts, calls, signed)
        sig = " ".join("(%s : %s)" % (n, "Int" if w < 0 else "Nat") for n, w in params)
        out_bits.append("/-- %s: in `%s::%s`: condition `%s` -/\ndef %s %s : Bool := %s" % (f, impl, fn, orig, lname, sig, lean))
        report["funcs"][lname] = orig

    for f, impl, fn, let, lname in IFLETS:
        if f not in srcs:
            srcs[f] = strip_comments(read(f))
        psrc, ret, body = find_fn_body(srcs[f], impl, fn)
        ms = re.findall(r"\blet\s+%s\s*(?::\s*\w+\s*)?=\s*(.*?);" % re.escape(let), body, re.S)
        if len(ms) != 1:
            raise TranslateError("let %s: expected exactly one binding in %s::%s, found %d" % (let, impl, fn, len(ms)))
        orig = " ".join(ms[0].split())
        m = re.fullmatch(r"if\s+self\.options\.sync_data\s*\{([^{}]*)\}\s*else\s*\{([^{}]*)\}", ms[0].strip(), re.S)
        if not m:
            raise TranslateError("let %s in %s::%s is no longer `if self.options.sync_data { A } else { B }`: %r"
                                 % (let, impl, fn, orig))
        fconsts = dict(consts)
        fconsts.update(per_file.get(f, {}))
        a, _ = Parser(tokenize(m.group(1).strip()), {}, fconsts, calls).parse()
        b, _ = Parser(tokenize(m.group(2).strip()), {}, fconsts, calls).parse()
        out_bits.append("/-- %s: in `%s::%s`: `let %s = %s` -/\ndef %s (sync_data : Bool) : Nat := if sync_data then %s else %s"
                        % (f, impl, fn, let, orig, lname, a, b))
        report["funcs"][lname] = orig

    for f, impl, fn, target, lnames, params, subs, signed in UPDATES:
        if f not in srcs:
            srcs[f] = strip_comments(read(f))
        fn, psrc, ret, body = find_fn_body_alt(srcs[f], impl, fn)
        ms = re.findall(r"(?<![\w.])%s\s*((?:[-+*/%%|&^]|<<|>>)?)=(?!=)\s*([^;]*);" % target, body, re.S)
        if len(ms) != len(lnames):
            raise TranslateError("updates of %s in %s::%s: expected %d, found %d" % (target, impl, fn, len(lnames), len(ms)))
        for (op, rhs), lname in zip(ms, lnames):
            if not op:
                raise TranslateError("%s is assigned, not updated, in %s::%s" % (target, impl, fn))
            orig = "%s %s= %s" % (target.replace("\\", ""), op, " ".join(rhs.split()))
            text = "q %s (%s)" % (op, " ".join(rhs.split()))
            for a, b in subs:
                text = re.sub(r"(?<![\w.])%s(?![\w])" % re.escape(a), b, text)
            env = {n: (n, w) for n, w in params}
            fconsts = dict(consts)
            fconsts.update(per_file.get(f, {}))
            lean, w = Parser(tokenize(text), env, fconsts, calls, signed).parse()
            if w != params[0][1]:
                raise TranslateError("update %s in %s::%s: the result has width %s, the counter %s" % (orig, impl, fn, w, params[0][1]))
            sig = " ".join("(%s : %s)" % (n, "Int" if pw < 0 else "Nat") for n, pw in params)
            out_bits.append("/-- %s: in `%s::%s`: counter update `%s` (complete right-hand side) -/\ndef %s %s : %s := %s"
                            % (f, impl, fn, orig, lname, sig, "Int" if params[0][1] < 0 else "Nat", lean))
            report["funcs"][lname] = orig

    for f, rx, lname in WRITERS:
        if f not in srcs:
            srcs[f] = strip_comments(read(f))
        fns = [(m.start(), m.group(1)) for m in re.finditer(r"\bfn\s+([A-Za-z_][A-Za-z0-9_]*)", srcs[f])]
        who = []
        for m in re.finditer(rx, srcs[f]):
            before = [n for off, n in fns if off < m.start()]
            who.append(before[-1] if before else "?")
        out_bits.append("/-- %s: the functions that contain a match of `%s`, one entry per match, in source order -/\n"
                        "def %s : List String := [%s]" % (f, rx, lname, ", ".join('"%s"' % x for x in who)))
        report["funcs"][lname] = who

    os.makedirs(OUT, exist_ok=True)
    hdr = "-- GENERATED by tools/rs2lean.py from /repo/src on every check run. Do not edit.\n"
    write_if_changed(os.path.join(OUT, "Consts.lean"),
                     hdr + "namespace Pdb.Gen\n\n" + "\n\n".join(out_consts) + "\n\nend Pdb.Gen\n")
    write_if_changed(os.path.join(OUT, "Bits.lean"),
                     hdr + "import Pdb.Gen.Prim\nimport Pdb.Gen.Consts\nset_option linter.unusedVariables false\nnamespace Pdb.Gen\n\n" + "\n\n".join(out_bits) + "\n\nend Pdb.Gen\n")
    json.dump(report, open(os.path.join(OUT, "report.json"), "w"), indent=1, sort_keys=True)
    print("rs2lean: %d constants, %d functions" % (len(report["consts"]), len(report["funcs"])))


def write_if_changed(path, text):
    try:
        if open(path).read() == text:
            return
    except FileNotFoundError:
        pass
    tmp = path + ".tmp%d" % os.getpid()
    with open(tmp, "w") as f:
        f.write(text)
    os.replace(tmp, path)


if __name__ == "__main__":
    try:
        main()
    except TranslateError as e:
        print("rs2lean: TRANSLATE-ERROR: %s" % e)
        sys.exit(2)
    except (OSError, IndexError, KeyError, ValueError, AttributeError, re.error) as e:
        print("rs2lean: TRANSLATE-ERROR: %s: %s" % (type(e).__name__, e))
        sys.exit(2)
