#!/usr/bin/env python3
"""Mutation validation of the T0 translators (skeleton.py, rs2lean.py): apply one edit to a scratch copy of
the crate's src/, run the three translators and `lake build` of the obligation modules, and report which
obligation breaks / which translator fails.  Never touches /repo or the tree this file lives in.

  T0_MUT_ROOT=/dev/shm/t0-mut python3 tools/t0_mutate.py            all edits (about 70 minutes; give disjoint lists of
                                                                     names to several T0_MUT_ROOTs to run them in parallel)
  ... t0_mutate.py H1 C05a R3                                        selected edits
  FAST=1 ...                                                         skip the Props.C15 / Props.C18 build of passing edits

Kinds: harmful (must break an obligation or a translator), harmless (any outcome is acceptable except a WRONG
extraction that the obligations accept: the diff of a changed generated file is printed for inspection),
unreadable (must be a translator error or a broken obligation, never a silently unchanged file + exit 0).
The work area (T0_MUT_ROOT, default /dev/shm/t0-mut) is created on first use from this tree (lean/ with its
.lake, tools/) and from $PDB_REPO/src (default /repo/src); delete it to start afresh.
Reverts of fix commits read the commit with `git -C $T0_GIT show` (default /repo, read only); seeded defects
(`SD-*`) apply /verif/seeded/<name>/patch.diff (`$T0_SEEDED`, default <this tree>/seeded) with `patch -p1`.
Groups: H* X* C05* C18* C08* K* L* C17 S1 (first round), E* (the 17 edits of the second audit), R* N* (harmless
rewrites), T* (unreadable input), SD-* (seeded defects)."""
import os, re, shutil, subprocess, sys, json

VERIF = os.path.dirname(os.path.dirname(os.path.abspath(__file__)))
GIT = os.environ.get("T0_GIT", "/repo")
SEEDED = os.environ.get("T0_SEEDED", os.path.join(VERIF, "seeded"))
ROOT = os.environ.get("T0_MUT_ROOT", "/dev/shm/t0-mut")
PRISTINE = ROOT + "/src.pristine"
REPO = ROOT + "/repo"
LEAN = ROOT + "/lean"
TOOLS = ROOT + "/tools"


def setup():
    os.makedirs(ROOT, exist_ok=True)
    if not os.path.exists(LEAN):
        shutil.copytree(os.path.join(VERIF, "lean"), LEAN, symlinks=True)
    if not os.path.exists(TOOLS):
        shutil.copytree(os.path.join(VERIF, "tools"), TOOLS)
    if not os.path.exists(PRISTINE):
        shutil.copytree(os.path.join(os.environ.get("PDB_REPO", "/repo"), "src"), PRISTINE)

GEN = ["Order.lean", "Bits.lean", "Consts.lean", "Text.lean"]
MODULES = ["Pdb.Proofs.Order", "Pdb.Proofs.Throttle"]
MODULES2 = ["Pdb.Props.C15", "Pdb.Props.C18"]      # only when the obligations pass although the generated files changed


def rep(path, old, new, count=1, nth=0):
    p = os.path.join(REPO, path)
    s = open(p).read()
    n = s.count(old)
    assert n >= 1, "pattern not found in %s: %r" % (path, old[:60])
    if count == 1:
        idx = -1
        for _ in range(nth + 1):
            idx = s.index(old, idx + 1)
        s = s[:idx] + new + s[idx + len(old):]
    else:
        s = s.replace(old, new)
    open(p, "w").write(s)


def revert(commit, path):
    d = subprocess.run(["git", "-C", GIT, "show", commit, "--", path], stdout=subprocess.PIPE, check=True).stdout
    r = subprocess.run(["patch", "-R", "-p1", "-s"], cwd=REPO, input=d, stdout=subprocess.PIPE, stderr=subprocess.STDOUT)
    assert r.returncode == 0, r.stdout.decode()


DB = "src/db.rs"
LOG = "src/log.rs"

MUTS = {}


def mut(name, kind, desc):
    def deco(f):
        MUTS[name] = (kind, desc, f)
        return f
    return deco


# ------------------------------------------------------------------ harmful edits

@mut("H1", "harmful", "shutdown(): notify_one moved out of the block that holds the log-queue mutex (F12 back)")
def _():
    rep(DB, "\t\t\tlet _log_queue = self.log_queue_wait.work.lock();\n\t\t\tself.log_queue_wait.cv.notify_one();\n\t\t}\n",
        "\t\t\tlet _log_queue = self.log_queue_wait.work.lock();\n\t\t}\n\t\tself.log_queue_wait.cv.notify_one();\n")


@mut("H2", "harmful", "store_err: `let _ = self.commit_queue.lock();` (guard dropped at once, F13 race back)")
def _():
    rep(DB, "let _queue = self.commit_queue.lock();", "let _ = self.commit_queue.lock();")


@mut("H3", "harmful", "commit_raw: `bg_err.lock().is_none()` -> `is_some()` in the queue-full `if`")
def _():
    rep(DB, "self.bg_err.lock().is_none()\n\t\t{", "self.bg_err.lock().is_some()\n\t\t{")


@mut("H4", "harmful", "commit_worker: `if !db.log.has_log_files_to_read()` without the `!`")
def _():
    rep(DB, "if !db.log.has_log_files_to_read() {", "if db.log.has_log_files_to_read() {")


@mut("H5", "harmful", "kill_logs: `while self.process_commits(db)? {}` -> a single call")
def _():
    rep(DB, "while self.process_commits(db)? {}", "self.process_commits(db)?;")


@mut("H5b", "harmful", "kill_logs: first `while self.enact_logs(false)? {}` -> a single call")
def _():
    rep(DB, "\t\twhile self.enact_logs(false)? {}\n\t\tself.flush_logs(0)?;\n\t\twhile self.process",
        "\t\tself.enact_logs(false)?;\n\t\tself.flush_logs(0)?;\n\t\twhile self.process")


@mut("H6a", "harmful", "enact_logs: MAX_LOG_FILES / KEEP_LOGS swapped in `let max_logs = if sync_data ..`")
def _():
    rep(DB, "let max_logs = if self.options.sync_data { MAX_LOG_FILES } else { KEEP_LOGS };",
        "let max_logs = if self.options.sync_data { KEEP_LOGS } else { MAX_LOG_FILES };")


@mut("H6b", "harmful", "clean_logs: branches of `let keep_logs = if sync_data {0} else {KEEP_LOGS}` swapped")
def _():
    rep(DB, "let keep_logs = if self.options.sync_data { 0 } else { KEEP_LOGS };",
        "let keep_logs = if self.options.sync_data { KEEP_LOGS } else { 0 };")


@mut("X1", "harmful", "commit_worker: `|| more_work` dropped from the loop condition")
def _():
    rep(DB, "while !db.shutdown.load(Ordering::SeqCst) || more_work {", "while !db.shutdown.load(Ordering::SeqCst) {")


@mut("X2", "harmful", "log_worker: second conjunct of the idle test dropped")
def _():
    rep(DB, "if !more_commits && !more_reindex {", "if !more_commits {")


@mut("X3", "harmful", "enact_logs: `!self.shutdown.load(..)` dropped from the cleanup wait loop (F7 back)")
def _():
    rep(DB, "while has_cleanup_worker &&\n\t\t\t\t\t\t!self.shutdown.load(Ordering::SeqCst) &&\n", "while has_cleanup_worker &&\n")


@mut("X4", "harmful", "enact_logs: wake-up comparison `<=` -> `<` (log queue)")
def _():
    rep(DB, "if *queue <= MAX_LOG_QUEUE_BYTES &&", "if *queue < MAX_LOG_QUEUE_BYTES &&")


@mut("X5", "harmful", "process_commits: `!self.shutdown.load(..) &&` dropped from the log-queue throttle")
def _():
    rep(DB, "if !self.shutdown.load(Ordering::Relaxed) && *queue > MAX_LOG_QUEUE_BYTES {", "if *queue > MAX_LOG_QUEUE_BYTES {")


@mut("C05a", "harmful", "get: `drop(overlay)` before the column lookup (hash arm)")
def _():
    rep(DB, "\t\t\t\t// Go into tables and log overlay.\n\t\t\t\tlet log = self.log.overlays();\n\t\t\t\tOk(column.get(&key, log)?",
        "\t\t\t\tdrop(overlay);\n\t\t\t\tlet log = self.log.overlays();\n\t\t\t\tOk(column.get(&key, log)?")


@mut("C05b", "harmful", "get_size: overlay guard confined to an inner block around the overlay lookup")
def _():
    rep(DB, "\t\t\t\tlet overlay = self.commit_overlay.read();\n\t\t\t\t// Check commit overlay first\n"
            "\t\t\t\tif let Some(l) = overlay.get(col as usize).and_then(|o| o.get_size(&key)) {\n\t\t\t\t\treturn Ok(l)\n\t\t\t\t}\n",
        "\t\t\t\t{\n\t\t\t\tlet overlay = self.commit_overlay.read();\n"
        "\t\t\t\tif let Some(l) = overlay.get(col as usize).and_then(|o| o.get_size(&key)) {\n\t\t\t\t\treturn Ok(l)\n\t\t\t\t}\n\t\t\t\t}\n")


@mut("C05c", "harmful", "get (btree arm): guard taken as a temporary of the `if let` only")
def _():
    rep(DB, "\t\t\t\tlet overlay = self.commit_overlay.read();\n\t\t\t\tif let Some(l) = overlay.get(col as usize).and_then(|o| o.btree_get(key)) {\n"
            "\t\t\t\t\treturn Ok(l.map(|i| i.value().clone()))",
        "\t\t\t\tif let Some(l) = self.commit_overlay.read().get(col as usize).and_then(|o| o.btree_get(key)) {\n"
        "\t\t\t\t\treturn Ok(l.map(|i| i.value().clone()))")


@mut("C05d", "harmful", "get_node: `let _ = self.commit_overlay.read();` + lookup through a second temporary guard")
def _():
    rep(DB, "\t\t\t\tlet overlay = self.commit_overlay.read();\n\t\t\t\t// Check commit overlay first\n"
            "\t\t\t\tif let Some(v) = overlay.get(col as usize).and_then(|o| o.get_address(node_address))\n\t\t\t\t{\n"
            "\t\t\t\t\treturn Ok(Some(unpack_node_data(",
        "\t\t\t\tlet _ = self.commit_overlay.read();\n\t\t\t\tlet overlay = self.commit_overlay.read().clone();\n"
        "\t\t\t\tif let Some(v) = overlay.get(col as usize).and_then(|o| o.get_address(node_address))\n\t\t\t\t{\n"
        "\t\t\t\t\treturn Ok(Some(unpack_node_data(")


@mut("C18a", "harmful", "DbInner::open: new file write before try_lock_exclusive (call outside the vocabulary)")
def _():
    rep(DB, '\t\tlock_path.push("lock");\n', '\t\tlock_path.push("lock");\n\t\tstd::fs::write(options.path.join("opened"), b"1").ok();\n')


@mut("C18b", "harmful", "Db::open_inner: file removal before DbInner::open")
def _():
    rep(DB, "\t\tassert!(options.is_valid());\n\t\tlet mut db = DbInner::open(",
        "\t\tassert!(options.is_valid());\n\t\tlet _ = std::fs::remove_file(options.path.join(\"stats.txt\"));\n\t\tlet mut db = DbInner::open(")


@mut("C18c", "harmful", "DbInner::open: metadata loaded before the lock is taken")
def _():
    rep(DB, "\t\tlock_file.try_lock_exclusive().map_err(Error::Locked)?;\n\n\t\tlet metadata = options.load_and_validate_metadata(opening_mode == OpeningMode::Create)?;\n",
        "\t\tlet metadata = options.load_and_validate_metadata(opening_mode == OpeningMode::Create)?;\n\t\tlock_file.try_lock_exclusive().map_err(Error::Locked)?;\n")


@mut("C18d", "harmful", "DbInner::open: truncating helper closure called before the lock (method call on a local)")
def _():
    rep(DB, '\t\tlock_path.push("lock");\n', '\t\tlock_path.push("lock");\n\t\toptions.write_metadata(&options.path, &[0u8; 32]).ok();\n')


@mut("C08a", "harmful", "commit_changes: validation moved into the apply loop (per change, not whole tx first)")
def _():
    rep(DB, "\t\tfor (col, change) in tx.iter() {\n\t\t\tself.validate_change(*col, change)?;\n\t\t}\n", "")
    rep(DB, "\t\tfor (col, change) in tx.into_iter() {\n", "\t\tfor (col, change) in tx.into_iter() {\n\t\t\tself.validate_change(col, &change)?;\n")


@mut("C08b", "harmful", "commit_changes: stored background error no longer tested (f67544a undone by hand)")
def _():
    rep(DB, "\t\t{\n\t\t\tlet bg_err = self.bg_err.lock();\n\t\t\tif let Some(err) = &*bg_err {\n"
            "\t\t\t\treturn Err(Error::Background(err.clone()))\n\t\t\t}\n\t\t}\n\n\t\tlet mut commit: CommitChangeSet",
        "\n\t\tlet mut commit: CommitChangeSet")


@mut("C08c", "harmful", "commit_changes: background error tested after the apply loop")
def _():
    blk = ("\t\t{\n\t\t\tlet bg_err = self.bg_err.lock();\n\t\t\tif let Some(err) = &*bg_err {\n"
           "\t\t\t\treturn Err(Error::Background(err.clone()))\n\t\t\t}\n\t\t}\n")
    rep(DB, blk + "\n\t\tlet mut commit: CommitChangeSet", "\n\t\tlet mut commit: CommitChangeSet")
    rep(DB, "\n\t\tself.commit_raw_checked(commit, false)\n", "\n" + blk + "\t\tself.commit_raw_checked(commit, false)\n")


@mut("C08d", "harmful", "commit_changes: only the first change is validated (`tx.iter().take(1)`)")
def _():
    rep(DB, "for (col, change) in tx.iter() {\n\t\t\tself.validate_change", "for (col, change) in tx.iter().take(1) {\n\t\t\tself.validate_change")


@mut("C08e", "harmful", "commit_changes: validation result ignored (`let _ = self.validate_change(..)`)")
def _():
    rep(DB, "\t\t\tself.validate_change(*col, change)?;\n", "\t\t\tlet _ = self.validate_change(*col, change);\n")


@mut("K1", "harmful", "kill_logs: error branch no longer flushes the columns (revert 671d30b)")
def _():
    revert("671d30b", DB)


@mut("K2", "harmful", "kill_logs: error branch flushes AFTER Log::clean_logs")
def _():
    fl = "\t\t\t\tif self.options.sync_data {\n\t\t\t\t\tfor c in self.columns.iter() {\n\t\t\t\t\t\tc.flush()?;\n\t\t\t\t\t}\n\t\t\t\t}\n"
    cl = "\t\t\t\tself.log.clean_logs(self.log.num_dirty_logs())?;\n"
    rep(DB, fl + cl, cl + fl)


@mut("K3", "harmful", "kill_logs: error branch flush made unconditional on the wrong flag (`if self.options.stats`)")
def _():
    rep(DB, "\t\t\t\tif self.options.sync_data {\n\t\t\t\t\tfor c in self.columns.iter() {\n\t\t\t\t\t\tc.flush()?;",
        "\t\t\t\tif self.options.stats {\n\t\t\t\t\tfor c in self.columns.iter() {\n\t\t\t\t\t\tc.flush()?;")


@mut("L1", "harmful", "Log::clean_logs: failed files no longer re-queued (revert 5e84721)")
def _():
    revert("5e84721", LOG)


@mut("L1b", "harmful", "Log::clean_logs: the failed file itself is dropped (`pending.push_front` removed)")
def _():
    rep(LOG, "\t\t\t\t\tpending.push_front((id, file));\n", "")


@mut("L1c", "harmful", "Log::clean_logs: pending files pushed to the BACK of the cleanup queue")
def _():
    rep(LOG, "queue.push_front(entry);", "queue.push_back(entry);")


@mut("L2", "harmful", "Log::end_record: appending file not retired after a failed write (revert 5899f3f)")
def _():
    revert("5899f3f", LOG)


@mut("C17", "harmful", "load_and_validate_metadata: comparison loop starts at column 1")
def _():
    rep("src/options.rs", "for c in 0..meta.columns.len() {", "for c in 1..meta.columns.len() {")


@mut("S1", "harmful", "WaitCondvar::signal: notify after the guard is dropped")
def _():
    rep(DB, "\t\tlet mut work = self.work.lock();\n\t\t*work = true;\n\t\tself.cv.notify_one();\n",
        "\t\tlet mut work = self.work.lock();\n\t\t*work = true;\n\t\tdrop(work);\n\t\tself.cv.notify_one();\n")


# ------------------------------------------------------------------ the 17 edits of the second audit (all compile)

FLUSH_CLEAN = "\t\t\tif self.options.sync_data {\n\t\t\t\tfor c in self.columns.iter() {\n\t\t\t\t\tc.flush()?;"
FLUSH_KILL = "\t\t\t\tif self.options.sync_data {\n\t\t\t\t\tfor c in self.columns.iter() {\n\t\t\t\t\t\tc.flush()?;"


@mut("E1", "harmful", "clean_logs: `for c in self.columns.iter().skip(1) { c.flush()? }` (first column never flushed)")
def _():
    rep(DB, FLUSH_CLEAN, FLUSH_CLEAN.replace("self.columns.iter()", "self.columns.iter().skip(1)"))


@mut("E13", "harmful", "kill_logs error branch: `for c in self.columns.iter().skip(1)`")
def _():
    rep(DB, FLUSH_KILL, FLUSH_KILL.replace("self.columns.iter()", "self.columns.iter().skip(1)"))


@mut("E2", "harmful", "Log::open: `sync: false` (the WAL is never synced)")
def _():
    rep(LOG, "\t\t\tsync: options.sync_wal,\n", "\t\t\tsync: false,\n")


@mut("E3", "harmful", "process_commits: `queue.bytes -= commit.bytes` deleted (committers throttle for ever)")
def _():
    rep(DB, "\t\t\t\tqueue.bytes -= commit.bytes;\n", "")


@mut("E10", "harmful", "enact_logs: `*queue -= bytes as i64 / 2` (the log worker throttles for ever after ~256 MiB)")
def _():
    rep(DB, "*queue -= bytes as i64;", "*queue -= bytes as i64 / 2;")


@mut("E4", "harmful", "log_worker: result of `process_commits` dropped")
def _():
    rep(DB, "\t\t\tmore_commits = db.process_commits(&db)?;\n", "\t\t\tdb.process_commits(&db)?;\n")


@mut("E6", "harmful", "open_inner: commit worker not wrapped in `store_err`")
def _():
    rep(DB, "commit_worker_db.store_err(Self::commit_worker(commit_worker_db.clone()))",
        "let _ = Self::commit_worker(commit_worker_db.clone());")


@mut("E9", "harmful", "get: a commit-overlay hit is ignored (hash arm)")
def _():
    rep(DB, "\t\t\t\tif let Some(v) = overlay.get(col as usize).and_then(|o| o.get(&key)) {\n\t\t\t\t\treturn Ok(v.map(|i| i.value().clone()))\n",
        "\t\t\t\tif let Some(v) = overlay.get(col as usize).and_then(|o| o.get(&key)) {\n\t\t\t\t\tlet _ = v;\n")


@mut("E5", "harmful", "DbInner::open: `let _ = lock_file.unlock();` right after try_lock_exclusive")
def _():
    rep(DB, "\t\tlock_file.try_lock_exclusive().map_err(Error::Locked)?;\n",
        "\t\tlock_file.try_lock_exclusive().map_err(Error::Locked)?;\n\t\tlet _ = lock_file.unlock();\n")


@mut("E7", "harmful", "column.rs: revert of 49b959b (reindex lock not held across the index lookups of a read)")
def _():
    revert("49b959b", "src/column.rs")


@mut("E8", "harmful", "Log::clean_logs: `queue.drain(0..count)` -> `queue.drain(..)` (max_count not honoured)")
def _():
    rep(LOG, "queue.drain(0..count).collect()", "queue.drain(..).collect()")


@mut("E14", "harmful", "commit_raw: the log worker is signalled only `if !was_empty`")
def _():
    rep(DB, "\t\tqueue.commits.push_back(commit);\n\t\tqueue.bytes += bytes;\n\t\tself.log_worker_wait.signal();\n",
        "\t\tlet was_empty = queue.commits.is_empty();\n\t\tqueue.commits.push_back(commit);\n\t\tqueue.bytes += bytes;\n"
        "\t\tif !was_empty {\n\t\t\tself.log_worker_wait.signal();\n\t\t}\n")


@mut("E15", "harmful", "WaitCondvar::signal: `if false { self.cv.notify_one(); }`")
def _():
    rep(DB, "\t\t*work = true;\n\t\tself.cv.notify_one();\n", "\t\t*work = true;\n\t\tif false {\n\t\t\tself.cv.notify_one();\n\t\t}\n")


@mut("E16", "harmful", "drop_inner: `if self.inner.options.stats { kill_logs .. }`")
def _():
    rep(DB, "\t\tif let Err(e) = self.inner.kill_logs(&self.inner) {\n\t\t\tlog::warn!(target: \"parity-db\", \"Shutdown error: {:?}\", e);\n\t\t}\n",
        "\t\tif self.inner.options.stats {\n\t\t\tif let Err(e) = self.inner.kill_logs(&self.inner) {\n"
        "\t\t\t\tlog::warn!(target: \"parity-db\", \"Shutdown error: {:?}\", e);\n\t\t\t}\n\t\t}\n")


@mut("E11", "harmful", "control: store_err `notify_all` -> `notify_one`")
def _():
    rep(DB, "\t\t\tlet _queue = self.commit_queue.lock();\n\t\t\tself.commit_queue_full_cv.notify_all();\n",
        "\t\t\tlet _queue = self.commit_queue.lock();\n\t\t\tself.commit_queue_full_cv.notify_one();\n")


@mut("E17", "harmful", "control: commit_raw `queue.bytes > MAX_COMMIT_QUEUE_BYTES` -> `>=`")
def _():
    rep(DB, "\t\t\tqueue.bytes > MAX_COMMIT_QUEUE_BYTES &&\n", "\t\t\tqueue.bytes >= MAX_COMMIT_QUEUE_BYTES &&\n")


@mut("E18", "harmful", "control: flush_one publishes the file to the read queue BEFORE the sync")
def _():
    rep(LOG, "\t\t\t\tif self.sync {\n", "\t\t\t\tself.read_queue.write().push_back((to_flush.id, try_io!(file.try_clone())));\n\t\t\t\tif self.sync {\n")
    rep(LOG, "\t\t\t\tself.read_queue.write().push_back((to_flush.id, file));\n", "")


# further edits of the same classes (this round)

@mut("C08f", "harmful", "commit_changes calls `commit_raw_checked(commit, true)` (F44 back: refusal after the claims)")
def _():
    rep(DB, "\t\tself.commit_raw_checked(commit, false)\n", "\t\tself.commit_raw_checked(commit, true)\n")


@mut("C08g", "harmful", "the wrapper `commit_raw` passes `false` (no caller re-checks the error after the queue-full wait)")
def _():
    rep(DB, "\t\tself.commit_raw_checked(commit, true)\n", "\t\tself.commit_raw_checked(commit, false)\n")


@mut("C08h", "harmful", "commit_raw_checked: the second error test under `if !check_bg_err`")
def _():
    rep(DB, "\t\tif check_bg_err {\n", "\t\tif !check_bg_err {\n")


@mut("W1", "harmful", "IndexedChangeSet::write_plan: first pass plans ALL root changes (F41 back, postponed ones planned twice)")
def _():
    rep(DB, "for change in self.changes.iter().filter(|change| !postponed(change)) {", "for change in self.changes.iter() {")


@mut("W2", "harmful", "IndexedChangeSet::write_plan: the late pass moved in front of the node changes")
def _():
    late = ("\t\tfor change in self.changes.iter().filter(|change| postponed(change)) {\n"
            "\t\t\tif let PlanOutcome::NeedReindex = column.write_plan(change, writer)? {\n\t\t\t\t*reindex = true;\n\t\t\t}\n"
            "\t\t\t*ops += 1;\n\t\t}\n")
    rep(DB, late, "")
    rep(DB, "\t\tfor change in self.node_changes.iter() {\n\t\t\tmatch change {\n\t\t\t\tNodeChange::NewValue(address, val) => {",
        late + "\t\tfor change in self.node_changes.iter() {\n\t\t\tmatch change {\n\t\t\t\tNodeChange::NewValue(address, val) => {")


@mut("E1b", "harmful", "clean_all_logs: `for c in self.columns.iter().rev().skip(1)`")
def _():
    rep(DB, "\tfn clean_all_logs(&self) -> Result<()> {\n\t\tfor c in self.columns.iter() {",
        "\tfn clean_all_logs(&self) -> Result<()> {\n\t\tfor c in self.columns.iter().rev().skip(1) {")


@mut("E3b", "harmful", "process_reindex: second `*logged_bytes += bytes as i64` deleted (ref-count reindex records never counted)")
def _():
    rep(DB, "\t\t\t\t*logged_bytes += bytes as i64;\n", "", nth=1)


@mut("E3c", "harmful", "commit_raw: `queue.bytes += bytes` moved under `if bytes > 1024`")
def _():
    rep(DB, "\t\tqueue.commits.push_back(commit);\n\t\tqueue.bytes += bytes;\n",
        "\t\tqueue.commits.push_back(commit);\n\t\tif bytes > 1024 {\n\t\t\tqueue.bytes += bytes;\n\t\t}\n")


@mut("E3d", "harmful", "a new writer of the counter: `queue.bytes = 0;` in store_err")
def _():
    rep(DB, "\t\t\tlet _queue = self.commit_queue.lock();\n\t\t\tself.commit_queue_full_cv.notify_all();\n",
        "\t\t\tlet mut queue = self.commit_queue.lock();\n\t\t\tqueue.bytes = 0;\n\t\t\tself.commit_queue_full_cv.notify_all();\n")


@mut("E5b", "harmful", "Db::open_inner: `db.lock_file.unlock().ok();` after the replay")
def _():
    rep(DB, "\t\tdb.init_table_data()?;\n\t\tlet db = Arc::new(db);\n", "\t\tdb.init_table_data()?;\n\t\tdb.lock_file.unlock().ok();\n\t\tlet db = Arc::new(db);\n")


@mut("E5c", "harmful", "DbInner::open: the handle keeps a CLONE of the lock file (`lock_file: try_io!(lock_file.try_clone())`)")
def _():
    rep(DB, "\t\t\tdb_version: metadata.version,\n\t\t\tlock_file,\n", "\t\t\tdb_version: metadata.version,\n\t\t\tlock_file: try_io!(lock_file.try_clone()),\n")


@mut("E6b", "harmful", "open_inner: the log worker's error is swallowed before it reaches store_err (`.or(Ok(()))`)")
def _():
    rep(DB, "log_worker_db.store_err(Self::log_worker(log_worker_db.clone()))",
        "log_worker_db.store_err(Self::log_worker(log_worker_db.clone()).or(Ok(())))")


@mut("E8b", "harmful", "Log::clean_logs: `let count = max(max_count, queue.len())`")
def _():
    rep(LOG, "let count = min(max_count, queue.len());", "let count = std::cmp::max(max_count, queue.len());")


@mut("E14b", "harmful", "flush_logs: the commit worker is signalled in an `else` branch (`if !has_flushed {} else {..}` kept, condition negated)")
def _():
    rep(DB, "\t\tif has_flushed {\n\t\t\tself.commit_worker_wait.signal();\n\t\t}\n", "\t\tif !has_flushed {\n\t\t\tself.commit_worker_wait.signal();\n\t\t}\n")


@mut("E14c", "harmful", "shutdown: the cleanup-queue signal only `if self.options.sync_data`")
def _():
    rep(DB, "\t\tself.cleanup_queue_wait.signal();\n\t}\n\n\tfn kill_logs", "\t\tif self.options.sync_data {\n\t\t\tself.cleanup_queue_wait.signal();\n\t\t}\n\t}\n\n\tfn kill_logs")


@mut("E14d", "harmful", "process_commits: `end_record` .. signal moved into a closure that is never called")
def _():
    rep(DB, "\t\t\tlet bytes = {\n\t\t\t\tlet bytes = self.log.end_record(l)?;", "\t\t\tlet _never = || -> Result<u64> {\n\t\t\t\tlet bytes = self.log.end_record(l)?;")
    rep(DB, "\t\t\t\tself.flush_worker_wait.signal();\n\t\t\t\tbytes\n\t\t\t};\n", "\t\t\t\tself.flush_worker_wait.signal();\n\t\t\t\tOk(bytes)\n\t\t\t};\n\t\t\tlet bytes = 0u64;\n")


# ------------------------------------------------------------------ harmless rewrites

@mut("R1", "harmless", "rename guard variables (`_log_queue` -> `_guard` in shutdown, `_queue` -> `_q_guard` in store_err)")
def _():
    rep(DB, "let _log_queue = self.log_queue_wait.work.lock();", "let _guard = self.log_queue_wait.work.lock();")
    rep(DB, "let _queue = self.commit_queue.lock();", "let _q_guard = self.commit_queue.lock();")


@mut("R2", "harmless", "reorder two independent statements (two signals in shutdown)")
def _():
    rep(DB, "\t\tself.flush_worker_wait.signal();\n\t\tself.log_worker_wait.signal();\n",
        "\t\tself.log_worker_wait.signal();\n\t\tself.flush_worker_wait.signal();\n")


@mut("R3", "harmless", "reformat conditions over several lines (log throttle, max_logs, worker loop)")
def _():
    rep(DB, "if !self.shutdown.load(Ordering::Relaxed) && *queue > MAX_LOG_QUEUE_BYTES {",
        "if !self.shutdown.load(\n\t\t\t\tOrdering::Relaxed,\n\t\t\t) &&\n\t\t\t\t*queue >\n\t\t\t\t\tMAX_LOG_QUEUE_BYTES\n\t\t\t{")
    rep(DB, "let max_logs = if self.options.sync_data { MAX_LOG_FILES } else { KEEP_LOGS };",
        "let max_logs = if self.options.sync_data {\n\t\t\t\t\tMAX_LOG_FILES\n\t\t\t\t} else {\n\t\t\t\t\tKEEP_LOGS\n\t\t\t\t};")
    rep(DB, "while !db.shutdown.load(Ordering::SeqCst) || more_work {", "while !db.shutdown.load(Ordering::SeqCst)\n\t\t\t|| more_work\n\t\t{")


@mut("R4", "harmless", "comments containing braces, a `'}'` char literal and a `\"{\"` string literal")
def _():
    rep(DB, "\t\t\tlet _log_queue = self.log_queue_wait.work.lock();\n",
        "\t\t\t// unbalanced } } { in a comment\n\t\t\t/* } and /* nested { */ } */\n"
        "\t\t\tlet _log_queue = self.log_queue_wait.work.lock();\n\t\t\tlet _c = ('}', \"{ // }\", b'{', r#\"}\"#);\n")
    rep(DB, "\t\tlet mut queue = self.commit_queue.lock();\n\n\t\t#[cfg(any(test", "\t\tlet mut queue = self.commit_queue.lock(); // }\n\n\t\t#[cfg(any(test")


@mut("R5", "harmless", "debug log lines (store_err before the notify, DbInner::open before the lock, kill_logs error branch)")
def _():
    rep(DB, "\t\t\tself.commit_queue_full_cv.notify_all();\n\t\t}\n\t}\n",
        "\t\t\tlog::debug!(target: \"parity-db\", \"notify {{ all\");\n\t\t\tself.commit_queue_full_cv.notify_all();\n\t\t}\n\t}\n")
    rep(DB, '\t\tlock_path.push("lock");\n', '\t\tlock_path.push("lock");\n\t\tlog::debug!(target: "parity-db", "Opening {:?}", lock_path);\n')
    rep(DB, "\t\t\t\tself.log.clean_logs(self.log.num_dirty_logs())?;\n", "\t\t\t\tlog::debug!(target: \"parity-db\", \"reclaim\");\n\t\t\t\tself.log.clean_logs(self.log.num_dirty_logs())?;\n")


@mut("R6", "harmless", "extract a helper `fn is_shutdown()` and use it in the commit worker loop")
def _():
    rep(DB, "\tfn shutdown(&self) {\n", "\tfn is_shutdown(&self) -> bool {\n\t\tself.shutdown.load(Ordering::SeqCst)\n\t}\n\n\tfn shutdown(&self) {\n")
    rep(DB, "while !db.shutdown.load(Ordering::SeqCst) || more_work {", "while !db.is_shutdown() || more_work {")


@mut("R7", "harmless", "`let _ = t.join();` instead of logging the join error (log thread)")
def _():
    rep(DB, "\t\t\tif let Err(e) = t.join() {\n\t\t\t\tlog::warn!(target: \"parity-db\", \"Log thread shutdown error: {:?}\", e);\n\t\t\t}\n",
        "\t\t\tlet _ = t.join();\n")


@mut("R8", "harmless", "name a condition: `let full = queue.bytes > MAX_COMMIT_QUEUE_BYTES;` in commit_raw")
def _():
    rep(DB, "\t\tif might_wait_because_the_queue_is_full &&\n\t\t\tqueue.bytes > MAX_COMMIT_QUEUE_BYTES &&\n",
        "\t\tlet full = queue.bytes > MAX_COMMIT_QUEUE_BYTES;\n\t\tif might_wait_because_the_queue_is_full &&\n\t\t\tfull &&\n")


@mut("R9", "harmless", "get_size: guard bound to another name plus an alias (`let guard = ..read(); let overlay = &*guard;`)")
def _():
    rep(DB, "\t\t\t\tlet overlay = self.commit_overlay.read();\n\t\t\t\t// Check commit overlay first\n\t\t\t\tif let Some(l) = overlay.get(col as usize).and_then(|o| o.get_size(&key)) {",
        "\t\t\t\tlet guard = self.commit_overlay.read();\n\t\t\t\tlet overlay = &*guard;\n\t\t\t\tif let Some(l) = overlay.get(col as usize).and_then(|o| o.get_size(&key)) {")


@mut("R10", "harmless", "shutdown: explicit `drop(guard)` after the notify instead of the block")
def _():
    rep(DB, "\t\t\tlet _log_queue = self.log_queue_wait.work.lock();\n\t\t\tself.log_queue_wait.cv.notify_one();\n\t\t}\n",
        "\t\t\tlet log_queue = self.log_queue_wait.work.lock();\n\t\t\tself.log_queue_wait.cv.notify_one();\n\t\t\tdrop(log_queue);\n\t\t}\n")



@mut("N1", "harmless", "clean_all_logs: an extra plain block around the flush loop")
def _():
    rep(DB, "\tfn clean_all_logs(&self) -> Result<()> {\n\t\tfor c in self.columns.iter() {\n\t\t\tc.flush()?;\n\t\t}\n",
        "\tfn clean_all_logs(&self) -> Result<()> {\n\t\t{\n\t\t\tfor c in self.columns.iter() {\n\t\t\t\tc.flush()?;\n\t\t\t}\n\t\t}\n")


@mut("N2", "harmless", "clean_logs: loop header reformatted over several lines with a comment inside")
def _():
    rep(DB, FLUSH_CLEAN, "\t\t\tif self.options.sync_data {\n\t\t\t\tfor c in self\n\t\t\t\t\t.columns // every column\n\t\t\t\t\t.iter()\n\t\t\t\t{\n\t\t\t\t\tc.flush()?;")


@mut("N3", "harmless", "commit_raw: a guarded trace line (`if log::log_enabled!(..) { log::trace!(..) }`) between the push and the counter update")
def _():
    rep(DB, "\t\tqueue.commits.push_back(commit);\n\t\tqueue.bytes += bytes;\n",
        "\t\tqueue.commits.push_back(commit);\n\t\tif log::log_enabled!(log::Level::Trace) {\n\t\t\tlog::trace!(target: \"parity-db\", \"queued {{ {} }}\", bytes);\n\t\t}\n\t\tqueue.bytes += bytes;\n")


@mut("N4", "harmless", "process_commits: local `ops` renamed to `n_ops` (not part of any header or pinned statement)")
def _():
    for a, b in (("let mut ops: u64 = 0;", "let mut n_ops: u64 = 0;"), ("\t\t\t\t\t&mut ops,\n", "\t\t\t\t\t&mut n_ops,\n"),
                 ("btree.write_plan(column, &mut writer, &mut ops)?;", "btree.write_plan(column, &mut writer, &mut n_ops)?;"),
                 ("\t\t\t\trecord_id,\n\t\t\t\tops,\n\t\t\t\tbytes,\n", "\t\t\t\trecord_id,\n\t\t\t\tn_ops,\n\t\t\t\tbytes,\n")):
        rep(DB, a, b)


@mut("N5", "harmless", "Log::clean_logs: `let count = min(..)` over several lines, comments, rustfmt trailing comma")
def _():
    rep(LOG, "let count = min(max_count, queue.len());", "let count = min(\n\t\t\t\tmax_count, // at most this many\n\t\t\t\tqueue.len(),\n\t\t\t);")


@mut("N6", "harmless", "commit_raw: `#[allow(unused_mut)]` on the `let mut overlay = ..write();` guard binding")
def _():
    rep(DB, "\t\tlet mut overlay = self.commit_overlay.write();\n\n\t\tqueue.record_id += 1;", "\t\t#[allow(unused_mut)]\n\t\tlet mut overlay = self.commit_overlay.write();\n\n\t\tqueue.record_id += 1;")


@mut("N7", "harmless", "Log::open: `sync: options.sync_wal` moved to the first field of the struct literal")
def _():
    rep(LOG, "\t\t\tsync: options.sync_wal,\n", "")
    rep(LOG, "\t\tOk(Log {\n\t\t\toverlays:", "\t\tOk(Log {\n\t\t\tsync: options.sync_wal,\n\t\t\toverlays:")


@mut("N8", "harmless", "DbInner::open: `lock_file: lock_file` spelled out, field moved up")
def _():
    rep(DB, "\t\t\tdb_version: metadata.version,\n\t\t\tlock_file,\n", "\t\t\tlock_file: lock_file,\n\t\t\tdb_version: metadata.version,\n")


@mut("N9", "harmless", "drop_inner: the error variable of `if let Err(e) = self.inner.kill_logs(..)` renamed (a header that encloses no marker)")
def _():
    rep(DB, "\t\tif let Err(e) = self.inner.kill_logs(&self.inner) {\n\t\t\tlog::warn!(target: \"parity-db\", \"Shutdown error: {:?}\", e);",
        "\t\tif let Err(err) = self.inner.kill_logs(&self.inner) {\n\t\t\tlog::warn!(target: \"parity-db\", \"Shutdown error: {:?}\", err);")


@mut("N10", "harmless", "clean_all_logs: `for c in &self.columns` (same range, other spelling: a pinned header, flagged by design)")
def _():
    rep(DB, "\tfn clean_all_logs(&self) -> Result<()> {\n\t\tfor c in self.columns.iter() {", "\tfn clean_all_logs(&self) -> Result<()> {\n\t\tfor c in &self.columns {")


@mut("N11", "harmless", "open_inner: worker handle variables renamed (`commit_worker_db` -> `cw`)")
def _():
    rep(DB, "commit_worker_db", "cw", count=0)


@mut("N12", "harmless", "flush_logs: local `has_flushed` renamed (it IS the header the signal sits under: flagged by design)")
def _():
    rep(DB, "has_flushed", "flushed", count=0)


# ------------------------------------------------------------------ seeded defects (/verif/seeded/<name>/patch.diff)

def seeded(name):
    d = open(os.path.join(SEEDED, name, "patch.diff"), "rb").read()
    r = subprocess.run(["patch", "-p1", "-s", "--no-backup-if-mismatch"], cwd=REPO, input=d, stdout=subprocess.PIPE, stderr=subprocess.STDOUT)
    assert r.returncode == 0, r.stdout.decode()


for _sd in ("C12-c12a", "C15-c15a", "C15-c15b", "C18-c18a", "C18-c18b"):
    MUTS["SD-" + _sd] = ("seeded", "seeded defect " + _sd, (lambda n: (lambda: seeded(n)))(_sd))


# ------------------------------------------------------------------ input the translators cannot read

@mut("T1", "unreadable", "src/db.rs: a closing brace deleted (unbalanced braces)")
def _():
    rep(DB, "\t\tself.cleanup_queue_wait.signal();\n\t}\n\n\tfn kill_logs", "\t\tself.cleanup_queue_wait.signal();\n\n\tfn kill_logs")


@mut("T2", "unreadable", "src/db.rs: unterminated string literal")
def _():
    rep(DB, 'lock_path.push("lock");', 'lock_path.push("lock);')


@mut("T3", "unreadable", "src/db.rs: tracked function renamed (`fn shutdown` -> `fn shut_down`)")
def _():
    rep(DB, "\tfn shutdown(&self) {", "\tfn shut_down(&self) {")


@mut("T4", "unreadable", "src/db.rs: a second `fn store_err` under #[cfg(test)] in impl DbInner")
def _():
    rep(DB, "\tfn store_err(&self, result: Result<()>) {", "\t#[cfg(test)]\n\tfn store_err(&self, _result: Result<()>) {}\n\n\t#[cfg(not(test))]\n\tfn store_err(&self, result: Result<()>) {")


@mut("T5", "unreadable", "src/log.rs missing")
def _():
    os.remove(os.path.join(REPO, LOG))


@mut("T6", "unreadable", "shutdown(): guard bound by a tuple pattern `let (_g, _) = (self.log_queue_wait.work.lock(), 0);`")
def _():
    rep(DB, "let _log_queue = self.log_queue_wait.work.lock();", "let (_g, _n) = (self.log_queue_wait.work.lock(), 0);")


@mut("T7", "unreadable", "src/db.rs: unterminated block comment")
def _():
    rep(DB, "\tfn shutdown(&self) {", "\t/* fn shutdown(&self) {")

# ------------------------------------------------------------------ driver

def theorem_at(path, line):
    name = "?"
    for i, l in enumerate(open(path).read().splitlines(), 1):
        m = re.match(r"(?:theorem|example|def)\s+([A-Za-z0-9_.']+)?", l)
        if m:
            name = m.group(1) or "example"
        if i >= line:
            break
    return name


def run_one(name, baseline):
    kind, desc, f = MUTS[name]
    if os.path.exists(REPO):
        shutil.rmtree(REPO)
    os.makedirs(REPO)
    shutil.copytree(PRISTINE, REPO + "/src")
    if name != "BASE":
        try:
            f()
        except AssertionError as e:
            return {"name": name, "kind": kind, "desc": desc, "translator_errors": [], "gen_changed": [], "broken": [],
                    "edit_failed": str(e)[:200]}
    env = dict(os.environ, PDB_REPO=REPO)
    errs = []
    for tool in ("rs2lean.py", "rs2lean_text.py", "skeleton.py"):
        r = subprocess.run([sys.executable, os.path.join(TOOLS, tool)], env=env, stdout=subprocess.PIPE, stderr=subprocess.STDOUT)
        if r.returncode != 0:
            errs.append("%s rc=%d: %s" % (tool, r.returncode, r.stdout.decode().strip()[-300:]))
    changed = []
    for g in GEN:
        cur = open(os.path.join(LEAN, "Pdb/Gen", g)).read()
        if baseline is not None and cur != baseline[g]:
            changed.append(g)
    res = {"name": name, "kind": kind, "desc": desc, "translator_errors": errs, "gen_changed": changed, "broken": []}
    if not errs:
        r = subprocess.run(["lake", "build"] + MODULES, cwd=LEAN, stdout=subprocess.PIPE, stderr=subprocess.STDOUT, timeout=1500)
        out = r.stdout.decode()
        if r.returncode == 0 and (changed or name == "BASE") and not os.environ.get("FAST"):
            r = subprocess.run(["lake", "build"] + MODULES2, cwd=LEAN, stdout=subprocess.PIPE, stderr=subprocess.STDOUT, timeout=2500)
            out = r.stdout.decode()
            res["built_props"] = True
        res["lake_rc"] = r.returncode
        seen = []
        for m in re.finditer(r"^error: (Pdb/[\w/]+\.lean):(\d+):(\d+)", out, re.M):
            th = "%s:%s" % (m.group(1).replace("Pdb/", "").replace(".lean", ""), theorem_at(os.path.join(LEAN, m.group(1)), int(m.group(2))))
            if th not in seen:
                seen.append(th)
        res["broken"] = seen
        if r.returncode != 0 and not seen:
            res["broken"] = ["(build failed) " + out[-400:]]
    return res


def snapshot():
    return {g: open(os.path.join(LEAN, "Pdb/Gen", g)).read() for g in GEN}


def main():
    setup()
    MUTS["BASE"] = ("base", "unchanged tree", lambda: None)
    base = run_one("BASE", None)
    assert not base["translator_errors"] and base.get("lake_rc") == 0, base
    baseline = snapshot()
    names = sys.argv[1:] or [n for n in MUTS if n != "BASE"]
    results = []
    for n in names:
        r = run_one(n, baseline)
        results.append(r)
        verdict = ("EDIT-DOES-NOT-APPLY " + r["edit_failed"]) if r.get("edit_failed") else \
            ("TRANSLATOR-ERROR " + "; ".join(r["translator_errors"])) if r["translator_errors"] else \
            ("BROKEN " + ", ".join(r["broken"])) if r["broken"] else "pass"
        print("%-5s %-8s gen-changed=%-22s %s" % (n, r["kind"], ",".join(r["gen_changed"]) or "-", verdict), flush=True)
        if r["kind"] == "harmless" and r["gen_changed"] and not r["translator_errors"]:
            for g in r["gen_changed"]:
                open("/tmp/f-t0-cur.lean", "w").write(open(os.path.join(LEAN, "Pdb/Gen", g)).read())
                open("/tmp/f-t0-base.lean", "w").write(baseline[g])
                d = subprocess.run(["diff", "/tmp/f-t0-base.lean", "/tmp/f-t0-cur.lean"], stdout=subprocess.PIPE).stdout.decode()
                print("      diff %s:\n%s" % (g, "\n".join("        " + x for x in d.splitlines()[:30])))
    run_one("BASE", None)        # leave the generated files in the baseline state
    json.dump(results, open(ROOT + "/results.json", "w"), indent=1)


if __name__ == "__main__":
    main()
