/-
The throttle / wake-up conditions of the commit queue and of the log queue, as generated
from src/db.rs: whenever a pop brings a queue from "throttled" to "not throttled", the
popping side's wake-up condition holds, so a waiting committer / log worker is notified.
(The waiters test the throttle condition once and wait once, so a missed crossing is a hang.)

The log-queue counter is an `i64` in the Rust (`log_queue_wait.work`, "may underflow occasionally"):
`log_throttle` / `log_wake` are generated over `Int` with two's complement wrapping (`iadd`, `icast`
of Pdb/Gen/Prim.lean) and the lemmas hold for every counter value in the `i64` range, negative ones
included.  The comparisons are only ONE conjunct of the `if` headers they sit in: the complete
headers are pinned by tools/skeleton.py (`<fn>_conds`, obligations `Ord.commitRaw_wait_condition`,
`Ord.processCommits_conditions`, `Ord.enactLogs_conditions` in Pdb/Proofs/Order.lean).

The counter UPDATES are generated too (complete right-hand sides: `commit_queue_add`, `defer_queue_add`,
`commit_queue_sub`, `log_queue_add`, `reindex_log_queue_add`, `reindex_rc_log_queue_add`, `log_queue_sub`), with the
list of all functions of src/db.rs that write `queue.bytes` resp. take the mutex of the log-queue counter
(`commit_queue_writers`, `log_queue_lockers`): within the machine range each counter IS the sum of what was
added minus what was removed, which is what the crossing lemmas and the C15 transition system assume
(`sum q` for the commit queue, `logq` for the log queue).  Where the statements sit (under which lock, under
which conditions) is pinned in Pdb/Proofs/Order.lean (`commitRaw_counter`, `processCommits_counters`,
`enactLogs_counter`).

Second part: the generated definitions are the ones the C15 model (Pdb/Model/Conc.lean) runs on:
`max_logs` / `keep_logs` (the two `if self.options.sync_data { A } else { B }` of `enact_logs` /
`clean_logs`) equal `Cfg.maxLogs` / `Cfg.keepLogs`, and the notification conditions of `tickL` /
`tickC` equal `commit_wake` / `log_wake`.
-/
import Pdb.Gen.Bits
import Pdb.Model.Conc

namespace Pdb.Gen

theorem commit_throttle_iff (q : Nat) : commit_throttle q = true ↔ q > MAX_COMMIT_QUEUE_BYTES := by
  unfold commit_throttle; exact decide_eq_true_iff

theorem commit_wake_iff (q c : Nat) (h64 : q + c < 2 ^ 64) :
    commit_wake q c = true ↔ (q ≤ MAX_COMMIT_QUEUE_BYTES ∧ q + c > MAX_COMMIT_QUEUE_BYTES) := by
  have hm : wadd 64 q c = q + c := by unfold wadd; exact Nat.mod_eq_of_lt h64
  unfold commit_wake
  rw [hm, Bool.and_eq_true, decide_eq_true_iff, decide_eq_true_iff]

/-- Commit queue: `commit_raw` waits while `commit_throttle bytes`; `process_commits` pops a
    commit of `c` bytes leaving `q` and notifies iff `commit_wake q c`. -/
theorem commit_wake_on_crossing (q c : Nat) (h64 : q + c < 2 ^ 64)
    (hbefore : commit_throttle (q + c) = true) (hafter : commit_throttle q = false) :
    commit_wake q c = true := by
  rw [commit_wake_iff q c h64]
  have h1 := (commit_throttle_iff (q + c)).mp hbefore
  have h2 : ¬ q > MAX_COMMIT_QUEUE_BYTES := fun h => by
    rw [(commit_throttle_iff q).mpr h] at hafter; cases hafter
  omega

/-- A wake-up never happens while the queue stays throttled. -/
theorem commit_wake_implies_unthrottled (q c : Nat) (h64 : q + c < 2 ^ 64)
    (h : commit_wake q c = true) : commit_throttle q = false := by
  have := (commit_wake_iff q c h64).mp h
  cases ht : commit_throttle q with
  | false => rfl
  | true => have := (commit_throttle_iff q).mp ht; omega

/-! ### the log queue: an `i64` counter -/

theorem two_pow_63 : (2 : Int) ^ (64 - 1) = 9223372036854775808 := by decide
theorem two_pow_64 : (2 : Int) ^ 64 = 18446744073709551616 := by decide

/-- no wrap-around inside the `i64` range -/
theorem iwrap64_of_range (x : Int) (h1 : -(2 ^ 63) ≤ x) (h2 : x < 2 ^ 63) : iwrap 64 x = x := by
  unfold iwrap
  rw [two_pow_63, two_pow_64]
  have e : (2 : Int) ^ 63 = 9223372036854775808 := two_pow_63
  rw [e] at h1 h2
  omega

theorem log_throttle_iff (q : Int) : log_throttle q = true ↔ q > (MAX_LOG_QUEUE_BYTES : Int) := by
  unfold log_throttle; exact decide_eq_true_iff

/-- `q` = counter after the subtraction (any `i64`, possibly negative), `b` = bytes of the enacted record -/
theorem log_wake_iff (q : Int) (b : Nat) (hq : -(2 ^ 63) ≤ q) (hb : (b : Int) < 2 ^ 63) (hs : q + b < 2 ^ 63) :
    log_wake q b = true ↔ (q ≤ (MAX_LOG_QUEUE_BYTES : Int) ∧ q + b > (MAX_LOG_QUEUE_BYTES : Int)) := by
  have hc : icast 64 b = (b : Int) := by
    unfold icast; exact iwrap64_of_range _ (by have : (0 : Int) ≤ (b : Int) := Int.natCast_nonneg b; omega) hb
  have hm : iadd 64 q (icast 64 b) = q + b := by
    unfold iadd; rw [hc]; exact iwrap64_of_range _ (by have : (0 : Int) ≤ (b : Int) := Int.natCast_nonneg b; omega) hs
  unfold log_wake
  rw [hm, Bool.and_eq_true, decide_eq_true_iff, decide_eq_true_iff]

/-- Log queue: `process_commits` waits while `log_throttle counter`; `enact_logs` subtracts the
    `b` bytes of the enacted record leaving `q` and notifies iff `log_wake q b`. -/
theorem log_wake_on_crossing (q : Int) (b : Nat) (hq : -(2 ^ 63) ≤ q) (hb : (b : Int) < 2 ^ 63)
    (hs : q + b < 2 ^ 63)
    (hbefore : log_throttle (q + b) = true) (hafter : log_throttle q = false) :
    log_wake q b = true := by
  rw [log_wake_iff q b hq hb hs]
  have h1 := (log_throttle_iff (q + b)).mp hbefore
  have h2 : ¬ q > (MAX_LOG_QUEUE_BYTES : Int) := fun h => by
    rw [(log_throttle_iff q).mpr h] at hafter; cases hafter
  omega

/-- no notification unless the counter was above the limit before the subtraction: in particular
    none while the counter is negative (the underflow the Rust comment mentions) -/
theorem log_no_wake_below (q : Int) (b : Nat) (hq : -(2 ^ 63) ≤ q) (hb : (b : Int) < 2 ^ 63)
    (hs : q + b < 2 ^ 63) (h : q + b ≤ (MAX_LOG_QUEUE_BYTES : Int)) : log_wake q b = false := by
  cases hw : log_wake q b with
  | false => rfl
  | true => have := (log_wake_iff q b hq hb hs).mp hw; omega

theorem log_wake_implies_unthrottled (q : Int) (b : Nat) (hq : -(2 ^ 63) ≤ q) (hb : (b : Int) < 2 ^ 63)
    (hs : q + b < 2 ^ 63) (h : log_wake q b = true) : log_throttle q = false := by
  have := (log_wake_iff q b hq hb hs).mp h
  cases ht : log_throttle q with
  | false => rfl
  | true => have := (log_throttle_iff q).mp ht; omega

/-! ### the counter updates: plain sums within the machine range -/

theorem commit_queue_add_eq (q b : Nat) (h : q + b < 2 ^ 64) : commit_queue_add q b = q + b := by
  unfold commit_queue_add wadd; exact Nat.mod_eq_of_lt h

/-- a deferred commit re-enters the queue with the same rule -/
theorem defer_queue_add_eq (q b : Nat) (h : q + b < 2 ^ 64) : defer_queue_add q b = q + b := by
  unfold defer_queue_add wadd; exact Nat.mod_eq_of_lt h

theorem commit_queue_sub_eq (q c : Nat) (hq : q < 2 ^ 64) (hc : c ≤ q) : commit_queue_sub q c = q - c := by
  unfold commit_queue_sub wsub
  have hcm : c % 2 ^ 64 = c := Nat.mod_eq_of_lt (by omega)
  have e : q + 2 ^ 64 - c = (q - c) + 2 ^ 64 := by omega
  rw [hcm, e, Nat.add_mod_right]
  exact Nat.mod_eq_of_lt (by omega)

/-- pushing a commit of `b` bytes and popping it again restores the counter: the queue's byte counter
    is the sum of the bytes of the queued commits -/
theorem commit_queue_sub_add (q b : Nat) (h : q + b < 2 ^ 64) : commit_queue_sub (commit_queue_add q b) b = q := by
  rw [commit_queue_add_eq q b h, commit_queue_sub_eq (q + b) b h (by omega)]; omega

theorem log_queue_add_eq (q : Int) (b : Nat) (hq : -(2 ^ 63) ≤ q) (hb : (b : Int) < 2 ^ 63) (hs : q + b < 2 ^ 63) :
    log_queue_add q b = q + b := by
  have hc : icast 64 b = (b : Int) := by
    unfold icast; exact iwrap64_of_range _ (by have : (0 : Int) ≤ (b : Int) := Int.natCast_nonneg b; omega) hb
  unfold log_queue_add iadd; rw [hc]
  exact iwrap64_of_range _ (by have : (0 : Int) ≤ (b : Int) := Int.natCast_nonneg b; omega) hs

/-- both kinds of reindex record are counted with the same rule as a commit record -/
theorem reindex_log_queue_add_eq : reindex_log_queue_add = log_queue_add ∧ reindex_rc_log_queue_add = log_queue_add :=
  ⟨rfl, rfl⟩

/-- `q` = counter before the subtraction; it may go negative ("may underflow occasionally"), not below `i64::MIN` -/
theorem log_queue_sub_eq (q : Int) (b : Nat) (hq : q < 2 ^ 63) (hb : (b : Int) < 2 ^ 63) (hs : -(2 ^ 63) ≤ q - b) :
    log_queue_sub q b = q - b := by
  have hc : icast 64 b = (b : Int) := by
    unfold icast; exact iwrap64_of_range _ (by have : (0 : Int) ≤ (b : Int) := Int.natCast_nonneg b; omega) hb
  unfold log_queue_sub isub; rw [hc]
  exact iwrap64_of_range _ hs (by have : (0 : Int) ≤ (b : Int) := Int.natCast_nonneg b; omega)

/-- logging a record of `b` bytes and enacting it restores the counter -/
theorem log_queue_sub_add (q : Int) (b : Nat) (hq : -(2 ^ 63) ≤ q) (hb : (b : Int) < 2 ^ 63) (hs : q + b < 2 ^ 63) :
    log_queue_sub (log_queue_add q b) b = q := by
  rw [log_queue_add_eq q b hq hb hs, log_queue_sub_eq (q + b) b hs hb (by omega)]; omega

/-- the wake-up test of `enact_logs` re-adds exactly what the update subtracted: `log_wake` is evaluated on the
    counter AFTER `log_queue_sub`, and its second conjunct looks at the counter BEFORE it -/
theorem log_wake_after_sub (q : Int) (b : Nat) (hq : q < 2 ^ 63) (hb : (b : Int) < 2 ^ 63) (hs : -(2 ^ 63) ≤ q - b) :
    log_wake (log_queue_sub q b) b = true ↔ (q - b ≤ (MAX_LOG_QUEUE_BYTES : Int) ∧ q > (MAX_LOG_QUEUE_BYTES : Int)) := by
  rw [log_queue_sub_eq q b hq hb hs, log_wake_iff (q - b) b hs hb (by omega)]
  have e : q - (b : Int) + (b : Int) = q := by omega
  rw [e]

/-- likewise for the commit queue: `commit_wake` is evaluated on the counter after `commit_queue_sub` -/
theorem commit_wake_after_sub (q c : Nat) (hq : q < 2 ^ 64) (hc : c ≤ q) :
    commit_wake (commit_queue_sub q c) c = true ↔ (q - c ≤ MAX_COMMIT_QUEUE_BYTES ∧ q > MAX_COMMIT_QUEUE_BYTES) := by
  rw [commit_queue_sub_eq q c hq hc, commit_wake_iff (q - c) c (by omega)]
  have e : q - c + c = q := by omega
  rw [e]

/-- nobody else writes the counters: `queue.bytes` is assigned in `commit_raw_checked` (the body of `commit_raw`),
    `defer_commit` and `process_commits` only,
    and the mutex that guards the log-queue counter is taken in `process_commits` (throttle test, update),
    `process_reindex` (two updates), `enact_logs` (update) and `shutdown` (notify only, `Ord.shutdown_notify_under_mutex`) -/
theorem counter_writers :
    commit_queue_writers = ["commit_raw_checked", "defer_commit", "process_commits"] ∧
    log_queue_lockers = ["process_commits", "process_commits", "process_reindex", "process_reindex", "enact_logs",
                         "shutdown"] := by decide

example : commit_queue_sub (commit_queue_add 7 5) 5 = 7 ∧ log_queue_sub (log_queue_add (-3) 10) 10 = -3 ∧
    log_queue_sub 4 10 = -6 ∧ log_queue_add (-6) 10 = 4 := by decide

theorem queue_limits_positive : 0 < MAX_COMMIT_QUEUE_BYTES ∧ 0 < MAX_LOG_QUEUE_BYTES ∧
    0 < MAX_LOG_FILES ∧ MAX_LOG_FILES ≤ KEEP_LOGS := by decide

/-! ### `max_logs` / `keep_logs` as generated from `enact_logs` / `clean_logs` -/

/-- what the cleanup worker leaves behind never keeps `enact_logs` waiting -/
theorem keep_logs_le_max_logs (sync_data : Bool) : clean_keep_logs sync_data ≤ enact_max_logs sync_data := by
  cases sync_data <;> decide

theorem max_logs_values : enact_max_logs true = MAX_LOG_FILES ∧ enact_max_logs false = KEEP_LOGS ∧
    clean_keep_logs true = 0 ∧ clean_keep_logs false = KEEP_LOGS := by decide

example : commit_throttle (MAX_COMMIT_QUEUE_BYTES + 5) = true ∧ commit_throttle MAX_COMMIT_QUEUE_BYTES = false ∧
    commit_wake MAX_COMMIT_QUEUE_BYTES 5 = true := by decide

example : log_throttle ((MAX_LOG_QUEUE_BYTES : Int) + 5) = true ∧ log_throttle (MAX_LOG_QUEUE_BYTES : Int) = false ∧
    log_wake (MAX_LOG_QUEUE_BYTES : Int) 5 = true ∧ log_throttle (-7) = false ∧ log_wake (-7) 3 = false ∧
    log_wake (-7) 134217740 = true := by decide

/-! ### the C15 model runs on the generated definitions
(kept in namespace `Pdb.Gen`: the check derives theorem names from the first `namespace` of a file) -/
section Model
open Pdb.Conc.Pipe

/-- H6-type edits (swapping the two branches, another constant) break these -/
theorem cfg_maxLogs_gen (c : Cfg) : c.maxLogs = enact_max_logs c.syncData := rfl
theorem cfg_keepLogs_gen (c : Cfg) : c.keepLogs = clean_keep_logs c.syncData := rfl

theorem cfg_keep_le_max (c : Cfg) : c.keepLogs ≤ c.maxLogs := by
  rw [cfg_maxLogs_gen, cfg_keepLogs_gen]; exact keep_logs_le_max_logs _

/-- the queue-full test of `Act.commit` -/
theorem model_commit_throttle (q : Nat) : decide (q > MAXQ) = commit_throttle q := rfl

/-- the notification condition of `tickL` at `.pop` -/
theorem model_commit_wake (q b : Nat) (h64 : q + b < 2 ^ 64) :
    (decide (q ≤ MAXQ) && decide (q + b > MAXQ)) = commit_wake q b := by
  have hm : wadd 64 q b = q + b := by unfold wadd; exact Nat.mod_eq_of_lt h64
  unfold commit_wake MAXQ
  rw [hm]

private theorem sum_foldl (l : List Nat) (a : Nat) : l.foldl (· + ·) a = a + sum l := by
  unfold sum
  induction l generalizing a with
  | nil => simp
  | cons x xs ih => simp only [List.foldl_cons]; rw [ih (a + x), ih (0 + x)]; omega

private theorem sum_cons' (b : Nat) (l : List Nat) : sum (b :: l) = b + sum l := by
  show (b :: l).foldl (· + ·) 0 = b + sum l
  rw [List.foldl_cons, sum_foldl]; omega

private theorem sum_snoc' (l : List Nat) (b : Nat) : sum (l ++ [b]) = sum l + b := by
  show (l ++ [b]).foldl (· + ·) 0 = sum l + b
  rw [List.foldl_append]
  show [b].foldl (· + ·) (sum l) = sum l + b
  rfl

/-- `Act.commit` appends the commit to `q`: `sum q` moves as `queue.bytes += bytes` does -/
theorem model_commit_push (q : List Nat) (b : Nat) (h64 : sum q + b < 2 ^ 64) :
    sum (q ++ [b]) = commit_queue_add (sum q) b := by
  rw [commit_queue_add_eq _ _ h64, sum_snoc']

/-- `tickL` at `.pop` removes the head of `q`: `sum q` moves as `queue.bytes -= commit.bytes` does -/
theorem model_commit_pop (b : Nat) (q' : List Nat) (h64 : sum (b :: q') < 2 ^ 64) :
    sum q' = commit_queue_sub (sum (b :: q')) b := by
  rw [commit_queue_sub_eq _ _ h64 (by rw [sum_cons']; omega), sum_cons']; omega

/-- `tickL` at `.write2` / `seqProcessOnce`: `logq + recSz b` is `*logged_bytes += bytes as i64` -/
theorem model_log_add (lq : Int) (r : Nat) (h1 : -(2 ^ 63) ≤ lq) (hr : (r : Int) < 2 ^ 63) (h2 : lq + r < 2 ^ 63) :
    lq + (r : Int) = log_queue_add lq r := (log_queue_add_eq lq r h1 hr h2).symm

/-- `tickC` at `.enRead` / `seqEnactOnce`: `logq - r` is `*queue -= bytes as i64` -/
theorem model_log_sub (lq : Int) (r : Nat) (h1 : -(2 ^ 63) ≤ lq - r) (hr : (r : Int) < 2 ^ 63) (h2 : lq < 2 ^ 63) :
    lq - (r : Int) = log_queue_sub lq r := (log_queue_sub_eq lq r h2 hr h1).symm

/-- the throttle test of `tickL` at `.thr` -/
theorem model_log_throttle (lq : Int) : decide (lq > (MAXL : Int)) = log_throttle lq := rfl

/-- the notification condition of `tickC` at `.enRead` (`lq` = counter before the subtraction of `r`) -/
theorem model_log_wake (lq : Int) (r : Nat) (h1 : -(2 ^ 63) ≤ lq - r) (hr : (r : Int) < 2 ^ 63) (h2 : lq < 2 ^ 63) :
    (decide (lq - (r : Int) ≤ (MAXL : Int)) && decide (lq > (MAXL : Int))) = log_wake (lq - r) r := by
  have e : lq - (r : Int) + (r : Int) = lq := by omega
  have hc : icast 64 r = (r : Int) := by
    unfold icast; exact iwrap64_of_range _ (by have : (0 : Int) ≤ (r : Int) := Int.natCast_nonneg r; omega) hr
  have hm : iadd 64 (lq - r) (icast 64 r) = lq := by
    unfold iadd; rw [hc, e]
    exact iwrap64_of_range _ (by have : (0 : Int) ≤ (r : Int) := Int.natCast_nonneg r; omega) h2
  unfold log_wake MAXL
  rw [hm]

end Model

end Pdb.Gen

#print axioms Pdb.Gen.commit_wake_on_crossing
#print axioms Pdb.Gen.log_wake_on_crossing
#print axioms Pdb.Gen.log_no_wake_below
#print axioms Pdb.Gen.keep_logs_le_max_logs
#print axioms Pdb.Gen.cfg_maxLogs_gen
#print axioms Pdb.Gen.cfg_keepLogs_gen
#print axioms Pdb.Gen.model_commit_wake
#print axioms Pdb.Gen.model_log_wake
#print axioms Pdb.Gen.commit_queue_sub_add
#print axioms Pdb.Gen.log_queue_sub_add
#print axioms Pdb.Gen.log_wake_after_sub
#print axioms Pdb.Gen.commit_wake_after_sub
#print axioms Pdb.Gen.reindex_log_queue_add_eq
#print axioms Pdb.Gen.counter_writers
#print axioms Pdb.Gen.model_commit_push
#print axioms Pdb.Gen.model_commit_pop
#print axioms Pdb.Gen.model_log_add
#print axioms Pdb.Gen.model_log_sub
