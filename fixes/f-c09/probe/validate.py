#!/usr/bin/env python3
# private replica of /verif/check's `correspondence` step for the c09 sub-command
import sys, os, subprocess, time, json
BIN="/verif/.cache/harness-target/release/pdbverif"
DRIVER="/verif/lean/.lake/build/bin/pdbdriver"
prop, seed, cases = sys.argv[1], sys.argv[2], sys.argv[3]
extra = sys.argv[4:]
trace="/dev/shm/f-c09-trace_%s_%s.txt"%(prop,seed)
t0=time.time()
cmd=[BIN,"c09","--prop",prop,"--seed",seed,"--cases",cases,"--out",trace]+extra
p=subprocess.run(cmd,stdout=subprocess.PIPE,stderr=subprocess.STDOUT,timeout=3000)
t1=time.time()
cs=[];cur=None;stats={}
for line in open(trace,errors="replace"):
    line=line.rstrip("\n")
    if line.startswith("#CASE "):
        cur={"desc":line[6:],"ops":[],"oracle":[],"known":[]};cs.append(cur)
    elif line.startswith("#STAT "):
        _,k,v=line.split(" ",2);stats[k]=v
    elif line.startswith("!ORACLE "): cur["oracle"].append(line[8:])
    elif line.startswith("!KNOWN "): cur["known"].append(line[7:])
    elif line.startswith("#"): continue
    elif "\t" in line:
        if cur is None:
            cur={"desc":"preamble","ops":[],"oracle":[],"known":[]};cs.append(cur)
        op,obs=line.split("\t",1);cur["ops"].append((op,obs))
allops=[o for c in cs for o,_ in c["ops"]]
d=subprocess.run([DRIVER],input=("\n".join(allops)+"\n").encode(),stdout=subprocess.PIPE,timeout=1800)
outs=d.stdout.decode().split("\n")
t2=time.time()
i=0;dis=0;orc=0;kn=0
for c in cs:
    first=None
    for op,obs in c["ops"]:
        got=outs[i] if i<len(outs) else "<eof>";i+=1
        if got.strip()!=obs.strip() and first is None: first=(op[:150],obs[:150],got[:150])
    if first: dis+=1;print("DISAGREE",c["desc"][:100],first)
    for o in c["oracle"]: orc+=1;print("ORACLE",c["desc"][:80],o[:300])
    for k in c["known"]: kn+=1;print("KNOWN",c["desc"][:80],k[:300])
print("rc=%d cases=%d ops=%d disagreements=%d oracle=%d known=%d harness=%.1fs driver=%.1fs"%(p.returncode,len(cs),len(allops),dis,orc,kn,t1-t0,t2-t1))
if "--stats" in os.environ.get("VSTATS",""):
    print(json.dumps(stats,indent=0,sort_keys=True))
os.remove(trace)
