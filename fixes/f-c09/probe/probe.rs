// scratch probe (not delivered): experiments on the real crate for the C09 follow-up
use parity_db::{ColumnOptions, Db, Options};
use std::path::{Path, PathBuf};
use std::time::Instant;

type Key = [u8; 32];

fn options(path: &Path, bg: bool) -> Options {
	let mut o = Options::with_columns(path, 1);
	o.columns[0] = ColumnOptions { uniform: true, ..Default::default() };
	o.salt = Some([0u8; 32]);
	o.with_background_thread = bg;
	o.always_flush = true;
	o.stats = false;
	o.sync_wal = true;
	o.sync_data = true;
	o
}

fn mk_key(prefix: u64, id: u32) -> Key {
	let mut k = [0u8; 32];
	k[0..8].copy_from_slice(&prefix.to_be_bytes());
	k[8..12].copy_from_slice(&id.to_be_bytes());
	k[12] = 0xAA;
	k
}

fn hex(b: &[u8]) -> String {
	b.iter().map(|x| format!("{:02x}", x)).collect()
}

fn step(db: &Db) {
	db.process_commits().unwrap();
	db.flush_logs().unwrap();
	db.enact_logs().unwrap();
	db.clean_logs().unwrap();
}

fn files(dir: &Path) -> String {
	use std::os::unix::fs::MetadataExt;
	let mut v = vec![];
	for e in std::fs::read_dir(dir).unwrap() {
		let e = e.unwrap();
		let n = e.file_name().to_string_lossy().to_string();
		if n.starts_with("index") {
			let m = e.metadata().unwrap();
			v.push(format!("{}:{}B/{}KiB", n, m.len(), m.blocks() / 2));
		}
	}
	v.sort();
	v.join(" ")
}

fn alloc_kib(dir: &Path) -> u64 {
	use std::os::unix::fs::MetadataExt;
	let mut s = 0;
	for e in std::fs::read_dir(dir).unwrap() {
		let e = e.unwrap();
		s += e.metadata().unwrap().blocks() / 2;
	}
	s
}

fn fresh(name: &str) -> PathBuf {
	let p = PathBuf::from(format!("/dev/shm/f-c09/probe-{}", name));
	let _ = std::fs::remove_dir_all(&p);
	p
}

fn tables(db: &Db) -> String {
	let (c, o) = db.verif_index_tables(0).unwrap();
	format!("cur={} older={:?}", c, o)
}

/// 65 keys sharing all 50 index-visible bits
fn f24(max_bits: u8, stale_variant: bool) {
	let dir = fresh(if stale_variant { "f24s" } else { "f24" });
	let db = Db::open_or_create(&options(&dir, false)).unwrap();
	let p: u64 = 0x1234_5678_9abc_c000; // low 14 bits free
	let small = vec![7u8; 4];
	let big = vec![9u8; 100];
	let keys: Vec<Key> = (0..65u32).map(|i| mk_key(p | (i as u64 & 0x3fff), 1 + i)).collect();
	let t0 = Instant::now();
	if !stale_variant {
		db.commit(keys[0..64].iter().map(|k| (0u8, k.to_vec(), Some(small.clone()))).collect::<Vec<_>>()).unwrap();
		step(&db);
		println!("64 keys in: {} {}", tables(&db), files(&dir));
		db.commit(vec![(0u8, keys[64].to_vec(), Some(small.clone()))]).unwrap();
		step(&db);
		println!("65th key in: {} {}", tables(&db), files(&dir));
	} else {
		// 64 keys of ONE class + one key of another class in the same 16-bit page
		db.commit(keys[0..64].iter().map(|k| (0u8, k.to_vec(), Some(small.clone()))).collect::<Vec<_>>()).unwrap();
		step(&db);
		let other = mk_key((p & 0xffff_0000_0000_0000) | 0x0000_1111_0000_0000, 1000);
		db.commit(vec![(0u8, other.to_vec(), Some(small.clone()))]).unwrap();
		// second commit queued before any reindex batch: all 64 change size tier
		db.commit(keys[0..64].iter().map(|k| (0u8, k.to_vec(), Some(big.clone()))).collect::<Vec<_>>()).unwrap();
		step(&db);
		println!("after growth commit: {} {}", tables(&db), files(&dir));
		step(&db);
		println!("after tier moves: {} {}", tables(&db), files(&dir));
	}
	let mut batch = 0;
	loop {
		let (cur, older) = db.verif_index_tables(0).unwrap();
		if cur >= max_bits {
			println!("stop: reached {} bits", cur);
			break
		}
		if older.is_empty() {
			println!("reindex finished: cur={} (no divergence)", cur);
			break
		}
		let tb = Instant::now();
		let r = std::panic::catch_unwind(std::panic::AssertUnwindSafe(|| db.process_reindex()));
		match r {
			Ok(Ok(())) => {},
			Ok(Err(e)) => {
				println!("process_reindex error: {:?}", e);
				break
			},
			Err(_) => {
				println!("process_reindex PANIC");
				std::mem::forget(db);
				return
			},
		}
		let r = std::panic::catch_unwind(std::panic::AssertUnwindSafe(|| -> parity_db::Result<()> {
			db.flush_logs()?;
			db.enact_logs()?;
			db.clean_logs()?;
			Ok(())
		}));
		match r {
			Ok(Ok(())) => {},
			Ok(Err(e)) => {
				println!("enact error: {:?}", e);
				break
			},
			Err(_) => {
				println!("enact PANIC");
				std::mem::forget(db);
				return
			},
		}
		batch += 1;
		println!(
			"batch {} ({:.2}s, total {:.1}s): {} state={:?} alloc={}KiB {}",
			batch,
			tb.elapsed().as_secs_f64(),
			t0.elapsed().as_secs_f64(),
			tables(&db),
			db.verif_reindex_state(),
			alloc_kib(&dir),
			files(&dir)
		);
		if alloc_kib(&dir) > 3 * 1024 * 1024 {
			println!("stop: more than 3 GiB allocated");
			break
		}
	}
	let mut bad = 0;
	for k in &keys {
		if db.get(0, k).unwrap().is_none() {
			bad += 1;
		}
	}
	println!("unreadable keys: {}", bad);
	let r = db.verif_store_err(Err(parity_db::Error::Corruption("probe abandon".into())));
	let _ = r;
	drop(db);
	let _ = std::fs::remove_dir_all(&dir);
}

/// twin keys: equal in bytes 6..32, different in bytes 0..5
fn twin() {
	let dir = fresh("twin");
	let db = Db::open_or_create(&options(&dir, false)).unwrap();
	let small = vec![7u8; 4];
	let small2 = vec![8u8; 4];
	let big = vec![9u8; 100];
	let page: u64 = 0x1234 << 48;
	// k1 and k2: same low 16 bits of the prefix (bytes 6,7) and same bytes 8..32
	let k1 = mk_key(page | (0x0000_5555_0000_0000) | 0x1abc, 1);
	let mut k2 = k1;
	k2[0] = 0x99; // another page
	k2[3] = 0x77;
	assert_eq!(k1[6..32], k2[6..32]);
	println!("k1={} k2={}", hex(&k1), hex(&k2));
	// 63 fillers in k1's 16-bit page, then a 65th key: growth
	let mut tx = vec![(0u8, k1.to_vec(), Some(small.clone()))];
	for i in 0..63u64 {
		tx.push((0, mk_key(page | ((i + 1) << 40), 100 + i as u32).to_vec(), Some(small.clone())));
	}
	db.commit(tx).unwrap();
	step(&db);
	db.commit(vec![(0u8, mk_key(page | (1 << 47) | (1 << 30), 999).to_vec(), Some(small.clone()))]).unwrap();
	step(&db);
	println!("after growth: {}", tables(&db));
	// k1 changes size tier while it lives in the old table: stale entry stays there
	db.commit(vec![(0u8, k1.to_vec(), Some(big.clone()))]).unwrap();
	step(&db);
	// k2 takes the freed slot
	db.commit(vec![(0u8, k2.to_vec(), Some(small2.clone()))]).unwrap();
	step(&db);
	println!("get k1 = {:?}", db.get(0, &k1).unwrap().map(|v| v.len()));
	println!("get k2 = {:?}", db.get(0, &k2).unwrap());
	// remove k1
	db.commit(vec![(0u8, k1.to_vec(), None)]).unwrap();
	step(&db);
	println!("after del k1: get k1 = {:?} (expected None)", db.get(0, &k1).unwrap());
	println!("after del k1: get k2 = {:?}", db.get(0, &k2).unwrap());
	println!("entries: {:?}", db.get_num_column_value_entries(0));
	// remove k1 again: frees k2's slot?
	db.commit(vec![(0u8, k1.to_vec(), None)]).unwrap();
	step(&db);
	println!("after 2nd del k1: get k1 = {:?}", db.get(0, &k1).unwrap());
	println!("after 2nd del k1: get k2 = {:?} (expected Some([8,8,8,8]))", db.get(0, &k2).unwrap());
	drop(db);
	let _ = std::fs::remove_dir_all(&dir);
}

/// two queued old tables, workers on, no further client activity
fn gate() {
	let dir = fresh("gate");
	let db = Db::open_or_create(&options(&dir, true)).unwrap();
	let small = vec![7u8; 4];
	let page: u64 = 0x1234 << 48;
	// 130 keys sharing 17 bits: two growths inside one commit (64 fill T16, 65th -> T17, .. )
	let mut tx = vec![];
	for i in 0..65u64 {
		tx.push((0u8, mk_key(page | (i << 40), 1 + i as u32).to_vec(), Some(small.clone())));
	}
	db.commit(tx).unwrap();
	let mut tx = vec![];
	for i in 0..64u64 {
		tx.push((0u8, mk_key(page | (i << 40) | (1 << 30), 101 + i as u32).to_vec(), Some(small.clone())));
	}
	db.commit(tx).unwrap();
	let t0 = Instant::now();
	let mut last = String::new();
	while t0.elapsed().as_secs() < 20 {
		let s = format!("{} state={:?} {}", tables(&db), db.verif_reindex_state(), files(&dir));
		if s != last {
			println!("{:6.2}s {}", t0.elapsed().as_secs_f64(), s);
			last = s;
		}
		std::thread::sleep(std::time::Duration::from_millis(20));
	}
	println!("-- one more (empty) commit");
	db.commit(Vec::<(u8, Vec<u8>, Option<Vec<u8>>)>::new()).unwrap();
	let t0 = Instant::now();
	while t0.elapsed().as_secs() < 10 {
		let s = format!("{} state={:?} {}", tables(&db), db.verif_reindex_state(), files(&dir));
		if s != last {
			println!("{:6.2}s {}", t0.elapsed().as_secs_f64(), s);
			last = s;
		}
		std::thread::sleep(std::time::Duration::from_millis(20));
	}
	drop(db);
	println!("after drop: {}", files(&dir));
	let _ = std::fs::remove_dir_all(&dir);
}

/// what happens when the growth reaches sizes the OS refuses: start from a (sparse) index file
/// with `start` bits and overflow the page of one class again and again (no reindex batches)
fn huge(start: u8) {
	let dir = fresh("huge");
	{
		let db = Db::open_or_create(&options(&dir, false)).unwrap();
		drop(db);
	}
	let f = std::fs::OpenOptions::new().write(true).create_new(true).open(dir.join(format!("index_00_{}", start))).unwrap();
	let size = (1u64 << start) * 512 + 16 * 1024;
	println!("creating sparse index_00_{} of {} bytes: {:?}", start, size, f.set_len(size));
	drop(f);
	let db = match Db::open(&options(&dir, false)) {
		Ok(db) => db,
		Err(e) => {
			println!("open failed: {:?}", e);
			let _ = std::fs::remove_dir_all(&dir);
			return
		},
	};
	println!("opened: {}", tables(&db));
	let p: u64 = 0x1234_5678_9abc_c000;
	let small = vec![7u8; 4];
	let mut id = 1u32;
	for round in 0..6 {
		let keys: Vec<Key> = (0..65u32).map(|i| { id += 1; mk_key(p | (i as u64 & 0x3fff), id) }).collect();
		let r = std::panic::catch_unwind(std::panic::AssertUnwindSafe(|| -> parity_db::Result<()> {
			db.commit(keys.iter().map(|k| (0u8, k.to_vec(), Some(small.clone()))).collect::<Vec<_>>())?;
			db.process_commits()?;
			db.flush_logs()?;
			db.enact_logs()?;
			db.clean_logs()?;
			Ok(())
		}));
		match r {
			Ok(Ok(())) => println!("round {}: ok {} {}", round, tables(&db), files(&dir)),
			Ok(Err(e)) => {
				println!("round {}: ERROR {:?}; {} {}", round, e, tables(&db), files(&dir));
				let r2 = db.commit(vec![(0u8, mk_key(1, 999999).to_vec(), Some(small.clone()))]);
				println!("next commit: {:?}", r2);
				let g = db.get(0, &keys[0]);
				println!("get of a key of the failed commit: {:?}", g);
				break
			},
			Err(_) => {
				println!("round {}: PANIC; {}", round, files(&dir));
				std::mem::forget(db);
				let _ = std::fs::remove_dir_all(&dir);
				return
			},
		}
	}
	db.verif_store_err(Err(parity_db::Error::Corruption("probe abandon".into())));
	drop(db);
	match Db::open(&options(&dir, false)) {
		Ok(db) => {
			println!("reopen ok: {}", tables(&db));
			db.verif_store_err(Err(parity_db::Error::Corruption("probe abandon".into())));
			drop(db);
		},
		Err(e) => println!("reopen failed: {:?}", e),
	}
	let _ = std::fs::remove_dir_all(&dir);
}

/// F24 with background workers: does the growth proceed without client activity?
fn f24bg() {
	let dir = fresh("f24bg");
	let db = Db::open_or_create(&options(&dir, true)).unwrap();
	let p: u64 = 0x1234_5678_9abc_c000;
	let small = vec![7u8; 4];
	let keys: Vec<Key> = (0..65u32).map(|i| mk_key(p | (i as u64 & 0x3fff), 1 + i)).collect();
	db.commit(keys.iter().map(|k| (0u8, k.to_vec(), Some(small.clone()))).collect::<Vec<_>>()).unwrap();
	for round in 0..6 {
		let t0 = Instant::now();
		let mut last = String::new();
		while t0.elapsed().as_millis() < 3000 {
			let s = format!("{} state={:?}", tables(&db), db.verif_reindex_state());
			if s != last {
				println!("round {} {:5.2}s {}", round, t0.elapsed().as_secs_f64(), s);
				last = s;
			}
			std::thread::sleep(std::time::Duration::from_millis(10));
		}
		println!("-- empty commit");
		db.commit(Vec::<(u8, Vec<u8>, Option<Vec<u8>>)>::new()).unwrap();
	}
	drop(db);
	println!("after drop: {}", files(&dir));
	let _ = std::fs::remove_dir_all(&dir);
}

fn main() {
	let a: Vec<String> = std::env::args().collect();
	match a.get(1).map(|s| s.as_str()) {
		Some("f24") => f24(a.get(2).and_then(|x| x.parse().ok()).unwrap_or(21), false),
		Some("f24s") => f24(a.get(2).and_then(|x| x.parse().ok()).unwrap_or(21), true),
		Some("twin") => twin(),
		Some("gate") => gate(),
		Some("f24bg") => f24bg(),
		Some("huge") => huge(a.get(2).and_then(|x| x.parse().ok()).unwrap_or(36)),
		_ => println!("probe f24|f24s|twin|gate"),
	}
}
