#!/usr/bin/env python3
# feed the op lines of a pdbverif trace to pdbdriver and diff (only lines of the given command word, default all)
import sys, subprocess, collections
trace, driver = sys.argv[1], sys.argv[2]
word = sys.argv[3] if len(sys.argv) > 3 else None
ops, obs, cases = [], [], []
case = None
for ln in open(trace, encoding="utf-8", errors="replace"):
    ln = ln.rstrip("\n")
    if ln.startswith("#CASE") or ln.startswith("# CASE") or ln.startswith("#BEGIN"):
        case = ln
    if not ln or ln[0] in "#!":
        if ln.startswith("!"): print(ln[:300])
        if "seed=" in ln and ("case" in ln.lower()): case = ln
        continue
    if "\t" not in ln: continue
    op, o = ln.split("\t", 1)
    if word and not op.startswith(word + " "): continue
    ops.append(op); obs.append(o); cases.append(case)
p = subprocess.run([driver], input=("\n".join(ops) + "\n").encode(), stdout=subprocess.PIPE)
out = p.stdout.decode("utf-8", "replace").split("\n")
bad = 0; kinds = collections.Counter()
badcases = set()
for i, (op, o) in enumerate(zip(ops, obs)):
    m = out[i] if i < len(out) else "<none>"
    kinds[op.split()[1] if len(op.split()) > 1 else op] += 1
    if m != o:
        bad += 1
        if cases[i] not in badcases and len(badcases) < 8:
            print("DISAGREE", cases[i]); print("  op   :", op[:400]); print("  model:", m[:300]); print("  real :", o[:300])
        badcases.add(cases[i])
print("ops", len(ops), "disagreements", bad, "cases-with-disagreement", len(badcases), dict(kinds))
