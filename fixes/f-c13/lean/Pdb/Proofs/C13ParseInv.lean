/-
C13 helper lemmas, part 3: inversion.  Whatever the bytes are, a record accepted by
`parseRecord` is a whole encoded record: the consumed bytes are exactly `encodeRecord crc r`
(in particular the stored checksum is the CRC of the body), its id continues the sequence
and it is well formed.
-/
import Pdb.Proofs.C13Parse
import Pdb.Proofs.C13NextInv

namespace Pdb.Wal
open Pdb.Gen

/-! ### validators, inverted -/

theorem validateIndex_inv {cfg cfg' : Cfg} {t i : Nat} {rd rd2 : Reader} {a : Action}
    (h : validateIndex cfg t i rd = .ok a rd2 cfg') :
    ∃ m es, a = .insertIndex t i m es ∧ m < U64 ∧ es.length = popcount m * INDEX_ENTRY_BYTES ∧
      checkIndex cfg t i = .ok cfg' ∧ rd.rest = leBytes 8 m ++ (es ++ rd2.rest) ∧
      rd2.consumed = rd.consumed ++ (leBytes 8 m ++ es) := by
  unfold validateIndex at h
  split at h
  · cases h
  · cases h
  · rename_i cfg1 hck
    split at h
    · cases h
    · rename_i mb rd1 h1
      split at h
      · cases h
      · rename_i es rd2' h2
        cases h
        obtain ⟨l1, r1, c1⟩ := read_some h1
        obtain ⟨l2, r2, c2⟩ := read_some h2
        have e1 := eq_leBytes_of_length l1
        refine ⟨leVal mb, es, rfl, ?_, l2, hck, ?_, ?_⟩
        · have := leVal_lt mb; rw [l1] at this; simpa [U64] using this
        · rw [r1, r2, ← e1]
        · rw [c2, c1, ← e1, List.append_assoc]

theorem validateRefCount_inv {cfg cfg' : Cfg} {t i : Nat} {rd rd2 : Reader} {a : Action}
    (h : validateRefCount cfg t i rd = .ok a rd2 cfg') :
    ∃ m es, a = .insertRefCount t i m es ∧ m < U64 ∧ m >>> RC_CHUNK_ENTRIES = 0 ∧
      es.length = popcount m * RC_ENTRY_BYTES ∧
      checkRefCount cfg t i = .ok cfg' ∧ rd.rest = leBytes 8 m ++ (es ++ rd2.rest) ∧
      rd2.consumed = rd.consumed ++ (leBytes 8 m ++ es) := by
  unfold validateRefCount at h
  split at h
  · cases h
  · cases h
  · rename_i cfg1 hck
    split at h
    · cases h
    · rename_i mb rd1 h1
      split at h
      · cases h
      · rename_i hmask
        split at h
        · cases h
        · rename_i es rd2' h2
          cases h
          obtain ⟨l1, r1, c1⟩ := read_some h1
          obtain ⟨l2, r2, c2⟩ := read_some h2
          have e1 := eq_leBytes_of_length l1
          refine ⟨leVal mb, es, rfl, ?_, ?_, l2, hck, ?_, ?_⟩
          · have := leVal_lt mb; rw [l1] at this; simpa [U64] using this
          · simpa using hmask
          · rw [r1, r2, ← e1]
          · rw [c2, c1, ← e1, List.append_assoc]

theorem two_le_valueLen {v4 : Bool} {tier i n : Nat} {bs : Bytes}
    (h : valueLen v4 tier i bs = .ok n) (hi : i ≠ 0) : 2 ≤ n := by
  unfold valueLen at h
  simp only [hi, if_false] at h
  split at h
  · rename_i b0 b1 tl
    split at h
    · cases h; simp [SIZE_SIZE]
    · split at h
      · split at h
        · cases h
        · rename_i hns
          cases h
          simp only [SIZE_SIZE] at hns
          omega
      · split at h
        · cases h
        · split at h
          · cases h
          · cases h; simp [SIZE_SIZE]
  · cases h

theorem valueLen_take {v4 : Bool} {tier i n : Nat} {bs : Bytes}
    (h : valueLen v4 tier i bs = .ok n) (hn : n ≤ bs.length) :
    valueLen v4 tier i (bs.take n) = .ok n := by
  by_cases hi : i = 0
  · unfold valueLen at h ⊢; simpa [hi] using h
  · have h2 := two_le_valueLen h hi
    match bs, hn, h with
    | b0 :: b1 :: tl, hn, h =>
      obtain ⟨k, rfl⟩ : ∃ k, n = k + 2 := ⟨n - 2, by omega⟩
      unfold valueLen at h ⊢
      simpa [hi, List.take_succ_cons] using h
    | [_], hn, _ => simp at hn; omega
    | [], hn, _ => simp at hn; omega

theorem validateValue_inv {cfg cfg' : Cfg} {t i : Nat} {rd rd2 : Reader} {a : Action}
    (h : validateValue cfg t i rd = .ok a rd2 cfg') :
    ∃ p, a = .insertValue t i p ∧ (cfg.cols[TableId.col t]?).isSome ∧
      valueLen cfg.v4 (sizeTier t) i p = .ok p.length ∧ cfg' = cfg ∧
      rd.rest = p ++ rd2.rest ∧ rd2.consumed = rd.consumed ++ p := by
  unfold validateValue at h
  split at h
  · cases h
  · rename_i cc hcc
    split at h
    · cases h
    · split at h
      · cases h
      · cases h
      · rename_i n hvl
        split at h
        · cases h
        · rename_i p rd' h1
          cases h
          obtain ⟨l1, r1, c1⟩ := read_some h1
          refine ⟨p, rfl, by simp [hcc], ?_, rfl, r1, c1⟩
          have hn : n ≤ rd.rest.length := by rw [r1]; simp; omega
          have := valueLen_take hvl hn
          rw [r1, List.take_left' l1] at this
          rw [l1]; exact this

/-! ### the validation loop, inverted -/

theorem loop_inv (crc : Bytes → Nat) :
    ∀ (fuel : Nat) {cfg cfgV : Cfg} {rd : Reader} {acc as : List Action} {rest : Bytes},
    validateLoop crc fuel cfg rd acc = .ok as rest cfgV →
    ∃ as', as = acc ++ as' ∧ validActions cfg as' = some cfgV ∧
      rd.rest = encodeActions as' ++ (leBytes 1 END_RECORD ++
        (leBytes 4 (crc (rd.consumed ++ (encodeActions as' ++ leBytes 1 END_RECORD))) ++ rest)) := by
  intro fuel
  induction fuel with
  | zero => intro cfg cfgV rd acc as rest h; simp [validateLoop] at h
  | succ fuel ih =>
    intro cfg cfgV rd acc as rest h
    unfold validateLoop at h
    split at h
    · cases h
    · cases h
    · cases h
    · cases h
    · -- END_RECORD
      rename_i rd' hn
      cases h
      refine ⟨[], by simp, rfl, ?_⟩
      simpa [encodeActions] using next_inv_end hn
    · -- INSERT_INDEX
      rename_i t i rd' hn
      split at h
      · rename_i a rd'' cfg' hv
        obtain ⟨ht, hi, r0, c0⟩ := next_inv_insertIndex hn
        obtain ⟨m, es, rfl, hm, hl, hck, r1, c1⟩ := validateIndex_inv hv
        obtain ⟨as', rfl, hva, r2⟩ := ih h
        refine ⟨.insertIndex t i m es :: as', by simp, ?_, ?_⟩
        · simp [validActions, validAction, ht, hi, hm, hl, hck, hva]
        · rw [r0, r1, r2, c1, c0]; simp [encodeActions, encodeAction]
      · cases h
      · cases h
    · -- INSERT_VALUE
      rename_i t i rd' hn
      split at h
      · rename_i a rd'' cfg' hv
        obtain ⟨ht, hi, r0, c0⟩ := next_inv_insertValue hn
        obtain ⟨p, rfl, hcol, hvl, rfl, r1, c1⟩ := validateValue_inv hv
        obtain ⟨as', rfl, hva, r2⟩ := ih h
        refine ⟨.insertValue t i p :: as', by simp, ?_, ?_⟩
        · simp [validActions, validAction, ht, hi, hcol, hvl, hva]
        · rw [r0, r1, r2, c1, c0]; simp [encodeActions, encodeAction]
      · cases h
      · cases h
    · -- INSERT_REF_COUNT
      rename_i t i rd' hn
      split at h
      · rename_i a rd'' cfg' hv
        obtain ⟨ht, hi, r0, c0⟩ := next_inv_insertRefCount hn
        obtain ⟨m, es, rfl, hm, hm', hl, hck, r1, c1⟩ := validateRefCount_inv hv
        obtain ⟨as', rfl, hva, r2⟩ := ih h
        refine ⟨.insertRefCount t i m es :: as', by simp, ?_, ?_⟩
        · simp [validActions, validAction, ht, hi, hm, hm', hl, hck, hva]
        · rw [r0, r1, r2, c1, c0]; simp [encodeActions, encodeAction]
      · cases h
      · cases h
    · -- DROP_TABLE
      rename_i t rd' hn
      split at h
      · rename_i hcol
        obtain ⟨ht, r0, c0⟩ := next_inv_dropTable hn
        obtain ⟨as', rfl, hva, r2⟩ := ih h
        refine ⟨.dropTable t :: as', by simp, ?_, ?_⟩
        · simp [validActions, validAction, ht, hcol, hva]
        · rw [r0, r2, c0]; simp [encodeActions, encodeAction]
      · cases h
    · -- DROP_REF_COUNT_TABLE
      rename_i t rd' hn
      split at h
      · rename_i hcol
        obtain ⟨ht, r0, c0⟩ := next_inv_dropRefCountTable hn
        obtain ⟨as', rfl, hva, r2⟩ := ih h
        refine ⟨.dropRefCountTable t :: as', by simp, ?_, ?_⟩
        · simp [validActions, validAction, ht, hcol, hva]
        · rw [r0, r2, c0]; simp [encodeActions, encodeAction]
      · cases h


/-! ### one record, inverted -/

theorem validatePass_inv {crc : Bytes → Nat} {cfg cfgV : Cfg} {last : Nat} {bytes rest : Bytes}
    {r : Record} (h : validatePass crc cfg last bytes = .ok r rest cfgV) :
    bytes = encodeRecord crc r ++ rest ∧ r.id = last + 1 ∧ r.id < U64 - 1 ∧
      validActions cfg r.actions = some cfgV := by
  unfold validatePass at h
  split at h
  · cases h
  · rename_i id rd hn
    obtain ⟨hid, r0, c0⟩ := next_inv_begin hn
    split at h
    · cases h
    · rename_i hseq
      split at h
      · rename_i actions rest' cfgV' hl
        cases h
        obtain ⟨as', has, hva, r1⟩ := loop_inv crc _ hl
        simp only [List.nil_append] at has
        subst has
        refine ⟨?_, (by show id = last + 1; omega), (by show id < U64 - 1; omega), hva⟩
        simp only at r0
        rw [r0, r1, c0]
        simp [encodeRecord, encodeBody, encodeHeader]
      · cases h
      · cases h
      · cases h
  · cases h

theorem parseRecordSpec_inv {crc : Bytes → Nat} {cfg cfg' : Cfg} {last : Nat} {bytes rest : Bytes}
    {r : Record} {effs : List EAct} (h : parseRecordSpec crc cfg last bytes = .ok r effs rest cfg') :
    bytes = encodeRecord crc r ++ rest ∧ r.id = last + 1 ∧ WellFormed cfg r ∧
      cfg' = cfgAfter cfg r ∧ effs = recEffects cfg r := by
  unfold parseRecordSpec at h
  split at h
  · rename_i r' rest' cfgV hv
    cases h
    obtain ⟨hb, hid, hlt, hva⟩ := validatePass_inv hv
    exact ⟨hb, hid, ⟨hlt, by simp [hva]⟩, by simp [cfgAfter, hva], by simp [recEffects, hva]⟩
  · cases h
  · cases h
  · cases h
  · cases h

theorem parseRecord_inv {crc : Bytes → Nat} {cfg cfg' : Cfg} {last : Nat} {bytes rest : Bytes}
    {r : Record} {effs : List EAct} (hs : cfg.Sane)
    (h : parseRecord crc cfg last bytes = .ok r effs rest cfg') :
    bytes = encodeRecord crc r ++ rest ∧ r.id = last + 1 ∧ WellFormed cfg r ∧
      cfg' = cfgAfter cfg r ∧ effs = recEffects cfg r := by
  rw [parseRecord_eq_spec crc cfg last bytes hs] at h
  exact parseRecordSpec_inv h

/-- Exact characterisation of acceptance. -/
theorem parseRecord_ok_iff {crc : Bytes → Nat} {cfg cfg' : Cfg} {last : Nat} {bytes rest : Bytes}
    {r : Record} {effs : List EAct} (hs : cfg.Sane) :
    parseRecord crc cfg last bytes = .ok r effs rest cfg' ↔
      bytes = encodeRecord crc r ++ rest ∧ r.id = last + 1 ∧ WellFormed cfg r ∧
        cfg' = cfgAfter cfg r ∧ effs = recEffects cfg r := by
  constructor
  · exact parseRecord_inv hs
  · rintro ⟨rfl, hid, hwf, rfl, rfl⟩
    exact parseRecord_encode crc hs hwf hid rest

theorem parseRecord_ok_shorter {crc : Bytes → Nat} {cfg cfg' : Cfg} {last : Nat}
    {bytes rest : Bytes} {r : Record} {effs : List EAct} (hs : cfg.Sane)
    (h : parseRecord crc cfg last bytes = .ok r effs rest cfg') :
    rest.length + 14 ≤ bytes.length := by
  obtain ⟨hb, _⟩ := parseRecord_inv hs h
  rw [hb, List.length_append, length_encodeRecord]; omega

/-- The effects of a record are its actions, one by one. -/
theorem effectsOf_actions (cfg : Cfg) (as : List Action) :
    (effectsOf cfg as).map (·.action) = as := by
  induction as generalizing cfg with
  | nil => rfl
  | cons a as ih => simp [effectsOf, ih]

theorem recEffects_actions {cfg : Cfg} {r : Record} (h : WellFormed cfg r) :
    (recEffects cfg r).map (·.action) = r.actions := by
  obtain ⟨_, hs⟩ := h
  obtain ⟨cfgV, hv⟩ := isSome_validActions hs
  simp [recEffects, hv, effectsOf_actions]

/-! ### fuel adequacy: `bytes.length + 1` units of fuel are never used up -/

theorem validateIndex_rest {cfg cfg' : Cfg} {t i : Nat} {rd rd2 : Reader} {a : Action}
    (h : validateIndex cfg t i rd = .ok a rd2 cfg') : rd2.rest.length ≤ rd.rest.length := by
  obtain ⟨m, es, _, _, _, _, r, _⟩ := validateIndex_inv h
  rw [r]; simp; omega

theorem validateRefCount_rest {cfg cfg' : Cfg} {t i : Nat} {rd rd2 : Reader} {a : Action}
    (h : validateRefCount cfg t i rd = .ok a rd2 cfg') : rd2.rest.length ≤ rd.rest.length := by
  obtain ⟨m, es, _, _, _, _, _, r, _⟩ := validateRefCount_inv h
  rw [r]; simp; omega

theorem validateValue_rest {cfg cfg' : Cfg} {t i : Nat} {rd rd2 : Reader} {a : Action}
    (h : validateValue cfg t i rd = .ok a rd2 cfg') : rd2.rest.length ≤ rd.rest.length := by
  obtain ⟨p, _, _, _, _, r, _⟩ := validateValue_inv h
  rw [r]; simp

theorem validateLoop_fuel (crc : Bytes → Nat) :
    ∀ (fuel : Nat) (cfg : Cfg) (rd : Reader) (acc : List Action),
    rd.rest.length < fuel → validateLoop crc fuel cfg rd acc ≠ .outOfFuel := by
  intro fuel
  induction fuel with
  | zero => intro cfg rd acc h; omega
  | succ fuel ih =>
    intro cfg rd acc hf
    unfold validateLoop
    split
    · simp
    · simp
    · simp
    · simp
    · simp
    · rename_i t i rd' hn
      obtain ⟨_, _, r0, _⟩ := next_inv_insertIndex hn
      split
      · rename_i a rd'' cfg' hv
        have := validateIndex_rest hv
        apply ih
        rw [r0] at hf; simp at hf; omega
      · simp
      · simp
    · rename_i t i rd' hn
      obtain ⟨_, _, r0, _⟩ := next_inv_insertValue hn
      split
      · rename_i a rd'' cfg' hv
        have := validateValue_rest hv
        apply ih
        rw [r0] at hf; simp at hf; omega
      · simp
      · simp
    · rename_i t i rd' hn
      obtain ⟨_, _, r0, _⟩ := next_inv_insertRefCount hn
      split
      · rename_i a rd'' cfg' hv
        have := validateRefCount_rest hv
        apply ih
        rw [r0] at hf; simp at hf; omega
      · simp
      · simp
    · rename_i t rd' hn
      obtain ⟨_, r0, _⟩ := next_inv_dropTable hn
      split
      · apply ih
        rw [r0] at hf; simp at hf; omega
      · simp
    · rename_i t rd' hn
      obtain ⟨_, r0, _⟩ := next_inv_dropRefCountTable hn
      split
      · apply ih
        rw [r0] at hf; simp at hf; omega
      · simp

theorem validatePass_fuel (crc : Bytes → Nat) (cfg : Cfg) (last : Nat) (bytes : Bytes) :
    validatePass crc cfg last bytes ≠ .outOfFuel := by
  unfold validatePass
  split
  · simp
  · rename_i id rd hn
    obtain ⟨_, r0, _⟩ := next_inv_begin hn
    split
    · simp
    · split
      · simp
      · simp
      · simp
      · rename_i hs
        exfalso
        refine validateLoop_fuel crc _ cfg rd [] ?_ hs
        simp only at r0
        rw [r0]; simp; omega
  · simp

/-- The reader `reader.next()` leaves behind has a suffix of the bytes in front of it. -/
theorem next_reader_rest {crc : Bytes → Nat} {rd rd' : Reader}
    (h : (next crc rd).reader? = some rd') : rd'.rest.length ≤ rd.rest.length := by
  cases hn : next crc rd with
  | ioErr => rw [hn] at h; cases h
  | badOpcode => rw [hn] at h; cases h
  | crcMismatch => rw [hn] at h; cases h
  | begin id rd1 =>
    rw [hn] at h; cases h
    obtain ⟨_, r0, _⟩ := next_inv_begin hn
    rw [r0]; simp; omega
  | insertIndex t i rd1 =>
    rw [hn] at h; cases h
    obtain ⟨_, _, r0, _⟩ := next_inv_insertIndex hn
    rw [r0]; simp; omega
  | insertValue t i rd1 =>
    rw [hn] at h; cases h
    obtain ⟨_, _, r0, _⟩ := next_inv_insertValue hn
    rw [r0]; simp; omega
  | insertRefCount t i rd1 =>
    rw [hn] at h; cases h
    obtain ⟨_, _, r0, _⟩ := next_inv_insertRefCount hn
    rw [r0]; simp; omega
  | dropTable t rd1 =>
    rw [hn] at h; cases h
    obtain ⟨_, r0, _⟩ := next_inv_dropTable hn
    rw [r0]; simp; omega
  | dropRefCountTable t rd1 =>
    rw [hn] at h; cases h
    obtain ⟨_, r0, _⟩ := next_inv_dropRefCountTable hn
    rw [r0]; simp; omega
  | endRecord rd1 =>
    rw [hn] at h; cases h
    have r0 := next_inv_end hn
    rw [r0]; simp; omega

theorem enactPass_fuel (crc : Bytes → Nat) (cfg : Cfg) (bytes : Bytes) :
    enactPass crc cfg bytes ≠ .outOfFuel := by
  unfold enactPass
  split
  · simp
  · rename_i rd hrd
    have := next_reader_rest hrd
    exact enactLoop_fuel crc _ cfg rd [] (by simp at this; omega)

/-- Fuel adequacy for one `enact_logs` call, for ALL bytes and configurations. -/
theorem parseRecord_fuel (crc : Bytes → Nat) (cfg : Cfg) (last : Nat) (bytes : Bytes) :
    parseRecord crc cfg last bytes ≠ .outOfFuel := by
  unfold parseRecord
  have hv := validatePass_fuel crc cfg last bytes
  split
  · rename_i r rest cfgV _
    have he := enactPass_fuel crc cfgV bytes
    split
    · split <;> simp
    · simp
    · simp
    · rename_i h; exact absurd h he
  · simp
  · simp
  · simp
  · rename_i h; exact absurd h hv

/-- No panic site is reached, for ALL bytes, in a sane configuration. -/
theorem parseRecord_ne_panic (crc : Bytes → Nat) (cfg : Cfg) (last : Nat) (bytes : Bytes)
    (hs : cfg.Sane) : parseRecord crc cfg last bytes ≠ .panic := by
  rw [parseRecord_eq_spec crc cfg last bytes hs]
  unfold parseRecordSpec
  have := validatePass_ne_panic crc cfg last bytes hs
  split
  · simp
  · simp
  · simp
  · rename_i h; exact absurd h this
  · simp

/-- The apply pass never returns `Err`, for ALL bytes, in a sane configuration: a record that
    passed the validation pass is applied whole. -/
theorem parseRecord_ne_applyFailed (crc : Bytes → Nat) (cfg : Cfg) (last : Nat) (bytes : Bytes)
    (hs : cfg.Sane) : parseRecord crc cfg last bytes ≠ .applyFailed := by
  rw [parseRecord_eq_spec crc cfg last bytes hs]
  unfold parseRecordSpec
  split <;> simp

/-- `Cfg.Sane` is kept by whatever one `enact_logs` call does to the configuration. -/
theorem parseRecord_sane {crc : Bytes → Nat} {cfg : Cfg} {last : Nat} {bytes : Bytes}
    (hs : cfg.Sane) :
    (∀ r effs rest cfg', parseRecord crc cfg last bytes = .ok r effs rest cfg' → cfg'.Sane) ∧
    (∀ why cfg', parseRecord crc cfg last bytes = .invalid why cfg' → cfg'.Sane) := by
  rw [parseRecord_eq_spec crc cfg last bytes hs]
  unfold parseRecordSpec
  constructor
  · intro r effs rest cfg' h
    split at h
    · rename_i r' rest' cfgV hv
      cases h
      exact applyPass_sane (validatePass_sane_ok hs hv) _
    all_goals cases h
  · intro why cfg' h
    split at h
    · cases h
    · cases h
    · rename_i why' cfg'' hv
      cases h
      exact validatePass_sane_invalid hs hv
    · cases h
    · cases h

end Pdb.Wal
