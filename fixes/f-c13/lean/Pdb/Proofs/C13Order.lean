/-
C13 helper lemmas: `Log::open` orders the log files by the id found in their first record;
files without a complete header are dropped.
-/
import Pdb.Model.Wal

namespace Pdb.Wal

theorem insertFile_perm (k : Nat) (f : Bytes) (l : List (Nat × Bytes)) :
    (insertFile k f l).Perm ((k, f) :: l) := by
  induction l with
  | nil => exact List.Perm.refl _
  | cons x l ih =>
    obtain ⟨k', f'⟩ := x
    simp only [insertFile]
    split
    · exact List.Perm.refl _
    · exact (List.Perm.cons _ ih).trans (List.Perm.swap _ _ _)

/-- Files with a complete first header, keyed by the id in it, in directory order. -/
def keyedFiles (files : List Bytes) : List (Nat × Bytes) :=
  files.filterMap (fun f => (firstId f).map (fun k => (k, f)))

theorem orderFilesKeyed_perm (files : List Bytes) :
    (orderFilesKeyed files).Perm (keyedFiles files) := by
  induction files with
  | nil => exact List.Perm.refl _
  | cons f fs ih =>
    simp only [orderFilesKeyed, keyedFiles, List.filterMap_cons]
    cases h : firstId f with
    | none => simpa [keyedFiles] using ih
    | some k =>
      simp only [Option.map_some]
      exact (insertFile_perm k f _).trans (List.Perm.cons _ ih)

theorem insertFile_sorted (k : Nat) (f : Bytes) (l : List (Nat × Bytes))
    (h : l.Pairwise (fun a b => a.1 ≤ b.1)) :
    (insertFile k f l).Pairwise (fun a b => a.1 ≤ b.1) := by
  induction l with
  | nil => simp [insertFile]
  | cons x l ih =>
    obtain ⟨k', f'⟩ := x
    obtain ⟨hx, hl⟩ := List.pairwise_cons.mp h
    simp only [insertFile]
    split
    · rename_i hk
      refine List.pairwise_cons.mpr ⟨?_, h⟩
      intro y hy
      rcases List.mem_cons.mp hy with rfl | hy
      · exact hk
      · exact Nat.le_trans hk (hx y hy)
    · rename_i hk
      refine List.pairwise_cons.mpr ⟨?_, ih hl⟩
      intro y hy
      rcases List.mem_cons.mp ((insertFile_perm k f l).subset hy) with rfl | hy
      · show k' ≤ k; omega
      · exact hx y hy

theorem orderFilesKeyed_sorted (files : List Bytes) :
    (orderFilesKeyed files).Pairwise (fun a b => a.1 ≤ b.1) := by
  induction files with
  | nil => exact List.Pairwise.nil
  | cons f fs ih =>
    simp only [orderFilesKeyed]
    split
    · exact ih
    · exact insertFile_sorted _ _ _ ih

theorem mem_insertFile {k : Nat} {f g : Bytes} {l : List (Nat × Bytes)}
    (h : g ∈ (insertFile k f l).map (·.2)) : g = f ∨ g ∈ l.map (·.2) := by
  induction l with
  | nil => simpa [insertFile] using h
  | cons x l ih =>
    obtain ⟨k', f'⟩ := x
    simp only [insertFile] at h
    split at h
    · simpa using h
    · simp only [List.map_cons, List.mem_cons] at h ⊢
      rcases h with h | h
      · exact Or.inr (Or.inl h)
      · rcases ih h with h | h
        · exact Or.inl h
        · exact Or.inr (Or.inr h)

theorem mem_orderFiles {files : List Bytes} {g : Bytes} (h : g ∈ orderFiles files) : g ∈ files := by
  unfold orderFiles at h
  induction files with
  | nil => simp [orderFilesKeyed] at h
  | cons f fs ih =>
    simp only [orderFilesKeyed] at h
    split at h
    · exact List.mem_cons_of_mem _ (ih h)
    · rcases mem_insertFile h with h | h
      · subst h; exact List.mem_cons_self
      · exact List.mem_cons_of_mem _ (ih h)

/-! ### where `Db::open` starts: the first header of the first file in replay order -/

theorem mem_insertFile_keyed {k : Nat} {f : Bytes} {l : List (Nat × Bytes)} {x : Nat × Bytes}
    (h : x ∈ insertFile k f l) : x = (k, f) ∨ x ∈ l :=
  List.mem_cons.mp ((insertFile_perm k f l).subset h)

/-- Every key of the replay queue is the id found in the first header of its file. -/
theorem orderFilesKeyed_key {files : List Bytes} {k : Nat} {g : Bytes}
    (h : (k, g) ∈ orderFilesKeyed files) : firstId g = some k := by
  induction files with
  | nil => simp [orderFilesKeyed] at h
  | cons f fs ih =>
    simp only [orderFilesKeyed] at h
    split at h
    · exact ih h
    · rename_i k' hk
      rcases mem_insertFile_keyed h with h | h
      · cases h; exact hk
      · exact ih h

/-- `DbInner::open`: `last_enacted` is the id in the first header of the oldest surviving log
    file (the first one in replay order) minus one; `1` when no log file survives. -/
theorem initialLastEnacted_eq (files : List Bytes) :
    initialLastEnacted files = (((orderFiles files).head?.bind firstId).getD 2) - 1 := by
  unfold initialLastEnacted orderFiles
  cases h : orderFilesKeyed files with
  | nil => rfl
  | cons x l =>
    obtain ⟨k, g⟩ := x
    have := orderFilesKeyed_key (files := files) (k := k) (g := g) (by rw [h]; exact List.mem_cons_self)
    simp [this]

end Pdb.Wal
