/-
C13 helper lemmas, part 2: `LogReader::next` and the validators on encoded actions, the
validation loop, `parseRecord ∘ encodeRecord` and its converse.
-/
import Pdb.Proofs.C13Codec
import Pdb.Proofs.C13Enact

namespace Pdb.Wal
open Pdb.Gen

/-! ### `next` on encoded opcodes -/

theorem next_begin (crc : Bytes → Nat) {id : Nat} (hid : id < U64) (pre tail : Bytes) :
    next crc ⟨pre, leBytes 1 BEGIN_RECORD ++ (leBytes 8 id ++ tail)⟩ =
      .begin id ⟨pre ++ (leBytes 1 BEGIN_RECORD ++ leBytes 8 id), tail⟩ := by
  have h8 : leVal (leBytes 8 id) = id := leVal_leBytes_of_lt (by simpa [U64] using hid)
  have ho : leVal (leBytes 1 BEGIN_RECORD) = BEGIN_RECORD := leVal_op (by decide)
  simp [next, ho, h8]

theorem next_insertIndex (crc : Bytes → Nat) {t i : Nat} (ht : t < U16) (hi : i < U64)
    (pre tail : Bytes) :
    next crc ⟨pre, leBytes 1 INSERT_INDEX ++ (leBytes 2 t ++ (leBytes 8 i ++ tail))⟩ =
      .insertIndex t i ⟨pre ++ (leBytes 1 INSERT_INDEX ++ (leBytes 2 t ++ leBytes 8 i)), tail⟩ := by
  have ho : leVal (leBytes 1 INSERT_INDEX) = INSERT_INDEX := leVal_op (by decide)
  simp only [next, read_leBytes, ho, readTableIndex_enc ht hi]
  simp [INSERT_INDEX, BEGIN_RECORD]

theorem next_insertValue (crc : Bytes → Nat) {t i : Nat} (ht : t < U16) (hi : i < U64)
    (pre tail : Bytes) :
    next crc ⟨pre, leBytes 1 INSERT_VALUE ++ (leBytes 2 t ++ (leBytes 8 i ++ tail))⟩ =
      .insertValue t i ⟨pre ++ (leBytes 1 INSERT_VALUE ++ (leBytes 2 t ++ leBytes 8 i)), tail⟩ := by
  have ho : leVal (leBytes 1 INSERT_VALUE) = INSERT_VALUE := leVal_op (by decide)
  simp only [next, read_leBytes, ho, readTableIndex_enc ht hi]
  simp [INSERT_VALUE, INSERT_INDEX, BEGIN_RECORD]

theorem next_insertRefCount (crc : Bytes → Nat) {t i : Nat} (ht : t < U16) (hi : i < U64)
    (pre tail : Bytes) :
    next crc ⟨pre, leBytes 1 INSERT_REF_COUNT ++ (leBytes 2 t ++ (leBytes 8 i ++ tail))⟩ =
      .insertRefCount t i
        ⟨pre ++ (leBytes 1 INSERT_REF_COUNT ++ (leBytes 2 t ++ leBytes 8 i)), tail⟩ := by
  have ho : leVal (leBytes 1 INSERT_REF_COUNT) = INSERT_REF_COUNT := leVal_op (by decide)
  simp only [next, read_leBytes, ho, readTableIndex_enc ht hi]
  simp [INSERT_REF_COUNT, INSERT_VALUE, INSERT_INDEX, BEGIN_RECORD]

theorem next_dropTable (crc : Bytes → Nat) {t : Nat} (ht : t < U16) (pre tail : Bytes) :
    next crc ⟨pre, leBytes 1 DROP_TABLE ++ (leBytes 2 t ++ tail)⟩ =
      .dropTable t ⟨pre ++ (leBytes 1 DROP_TABLE ++ leBytes 2 t), tail⟩ := by
  have ho : leVal (leBytes 1 DROP_TABLE) = DROP_TABLE := leVal_op (by decide)
  have h2 : leVal (leBytes 2 t) = t := leVal_leBytes_of_lt (by simpa [U16] using ht)
  simp only [next, read_leBytes, ho, h2]
  simp [DROP_TABLE, END_RECORD, INSERT_REF_COUNT, INSERT_VALUE, INSERT_INDEX, BEGIN_RECORD]

theorem next_dropRefCountTable (crc : Bytes → Nat) {t : Nat} (ht : t < U16) (pre tail : Bytes) :
    next crc ⟨pre, leBytes 1 DROP_REF_COUNT_TABLE ++ (leBytes 2 t ++ tail)⟩ =
      .dropRefCountTable t ⟨pre ++ (leBytes 1 DROP_REF_COUNT_TABLE ++ leBytes 2 t), tail⟩ := by
  have ho : leVal (leBytes 1 DROP_REF_COUNT_TABLE) = DROP_REF_COUNT_TABLE := leVal_op (by decide)
  have h2 : leVal (leBytes 2 t) = t := leVal_leBytes_of_lt (by simpa [U16] using ht)
  simp only [next, read_leBytes, ho, h2]
  simp [DROP_REF_COUNT_TABLE, DROP_TABLE, END_RECORD, INSERT_REF_COUNT, INSERT_VALUE, INSERT_INDEX,
    BEGIN_RECORD]

theorem next_end (crc : Bytes → Nat) (pre tail : Bytes) :
    next crc ⟨pre, leBytes 1 END_RECORD ++ (leBytes 4 (crc (pre ++ leBytes 1 END_RECORD)) ++ tail)⟩ =
      .endRecord ⟨pre ++ leBytes 1 END_RECORD, tail⟩ := by
  have ho : leVal (leBytes 1 END_RECORD) = END_RECORD := leVal_op (by decide)
  have h4 : ∀ n, leVal (leBytes 4 n) = n % 2 ^ 32 := fun n => by rw [leVal_leBytes]
  simp only [next, read_leBytes, ho, readRaw_append' _ _ _ (length_leBytes 4 _), h4]
  simp [END_RECORD, INSERT_REF_COUNT, INSERT_VALUE, INSERT_INDEX, BEGIN_RECORD]


/-! ### validators on encoded payloads -/

theorem valueLen_append {v4 : Bool} {tier i n : Nat} {p : Bytes} (rest : Bytes)
    (h : valueLen v4 tier i p = .ok n) : valueLen v4 tier i (p ++ rest) = .ok n := by
  unfold valueLen at h ⊢
  split
  · simpa [*] using h
  · rename_i hi
    simp only [hi, if_false] at h
    match p, h with
    | b0 :: b1 :: tl, h => simpa using h

theorem validateValue_enc {cfg : Cfg} {t i : Nat} {p : Bytes}
    (hc : (cfg.cols[TableId.col t]?).isSome)
    (hl : valueLen cfg.v4 (sizeTier t) i p = .ok p.length) (pre tail : Bytes) :
    validateValue cfg t i ⟨pre, p ++ tail⟩ = .ok (.insertValue t i p) ⟨pre ++ p, tail⟩ cfg := by
  unfold validateValue
  obtain ⟨cc, hcc⟩ := Option.isSome_iff_exists.mp hc
  have ht : ¬ SIZE_TIERS ≤ sizeTier t := by have := sizeTier_lt t; omega
  simp only [hcc, ht, if_false, valueLen_append tail hl, read_append]

theorem validateIndex_enc {cfg cfg' : Cfg} {t i m : Nat} {es : Bytes}
    (hm : m < U64) (hl : es.length = popcount m * INDEX_ENTRY_BYTES)
    (hc : checkIndex cfg t i = .ok cfg') (pre tail : Bytes) :
    validateIndex cfg t i ⟨pre, leBytes 8 m ++ (es ++ tail)⟩ =
      .ok (.insertIndex t i m es) ⟨pre ++ (leBytes 8 m ++ es), tail⟩ cfg' := by
  have h8 : leVal (leBytes 8 m) = m := leVal_leBytes_of_lt (by simpa [U64] using hm)
  unfold validateIndex
  simp only [hc, read_leBytes, h8, read_append' _ es tail hl, List.append_assoc]

theorem validateRefCount_enc {cfg cfg' : Cfg} {t i m : Nat} {es : Bytes}
    (hm : m < U64) (hm' : m >>> RC_CHUNK_ENTRIES = 0)
    (hl : es.length = popcount m * RC_ENTRY_BYTES)
    (hc : checkRefCount cfg t i = .ok cfg') (pre tail : Bytes) :
    validateRefCount cfg t i ⟨pre, leBytes 8 m ++ (es ++ tail)⟩ =
      .ok (.insertRefCount t i m es) ⟨pre ++ (leBytes 8 m ++ es), tail⟩ cfg' := by
  have h8 : leVal (leBytes 8 m) = m := leVal_leBytes_of_lt (by simpa [U64] using hm)
  unfold validateRefCount
  simp only [hc, read_leBytes, h8, hm', read_append' _ es tail hl, List.append_assoc, ne_eq,
    not_true_eq_false, if_false]

/-! ### one iteration of the validation loop on an encoded action -/

theorem loop_step_enc (crc : Bytes → Nat) {cfg cfg' : Cfg} {a : Action}
    (h : validAction cfg a = some cfg') (fuel : Nat) (pre tail : Bytes) (acc : List Action) :
    validateLoop crc (fuel + 1) cfg ⟨pre, encodeAction a ++ tail⟩ acc =
      validateLoop crc fuel cfg' ⟨pre ++ encodeAction a, tail⟩ (acc ++ [a]) := by
  cases a with
  | insertIndex t i m es =>
    simp only [validAction] at h
    split at h
    · rename_i hc
      obtain ⟨ht, hi, hm, hl⟩ := hc
      split at h
      · rename_i cfg1 hck
        cases h
        simp only [encodeAction, List.append_assoc, validateLoop, next_insertIndex crc ht hi,
          validateIndex_enc hm hl hck]
      · cases h
    · cases h
  | insertValue t i p =>
    simp only [validAction] at h
    split at h
    · rename_i hc
      obtain ⟨ht, hi, hcol, hl⟩ := hc
      cases h
      simp only [encodeAction, List.append_assoc, validateLoop, next_insertValue crc ht hi,
        validateValue_enc hcol hl]
    · cases h
  | insertRefCount t i m es =>
    simp only [validAction] at h
    split at h
    · rename_i hc
      obtain ⟨ht, hi, hm, hm', hl⟩ := hc
      split at h
      · rename_i cfg1 hck
        cases h
        simp only [encodeAction, List.append_assoc, validateLoop, next_insertRefCount crc ht hi,
          validateRefCount_enc hm hm' hl hck]
      · cases h
    · cases h
  | dropTable t =>
    simp only [validAction] at h
    split at h
    · rename_i hc
      obtain ⟨ht, hcol⟩ := hc
      cases h
      simp only [encodeAction, List.append_assoc, validateLoop, next_dropTable crc ht, hcol,
        if_true]
    · cases h
  | dropRefCountTable t =>
    simp only [validAction] at h
    split at h
    · rename_i hc
      obtain ⟨ht, hcol⟩ := hc
      cases h
      simp only [encodeAction, List.append_assoc, validateLoop, next_dropRefCountTable crc ht,
        hcol, if_true]
    · cases h

theorem loop_enc (crc : Bytes → Nat) (as : List Action) :
    ∀ {cfg cfgV : Cfg}, validActions cfg as = some cfgV →
    ∀ (fuel : Nat) (pre tail : Bytes) (acc : List Action),
    validateLoop crc (fuel + as.length) cfg ⟨pre, encodeActions as ++ tail⟩ acc =
      validateLoop crc fuel cfgV ⟨pre ++ encodeActions as, tail⟩ (acc ++ as) := by
  induction as with
  | nil =>
    intro cfg cfgV h fuel pre tail acc
    simp only [validActions, Option.some.injEq] at h
    subst h
    simp [encodeActions]
  | cons a as ih =>
    intro cfg cfgV h fuel pre tail acc
    simp only [validActions] at h
    split at h
    · rename_i cfg1 h1
      have e : fuel + (a :: as).length = (fuel + as.length) + 1 := by simp; omega
      rw [e]
      simp only [encodeActions, List.append_assoc]
      rw [loop_step_enc crc h1, ih h]
      simp
    · cases h


/-! ### `parseRecord (encodeRecord r ++ rest)` -/

theorem length_encodeAction_pos (a : Action) : 1 ≤ (encodeAction a).length := by
  cases a <;> simp [encodeAction] <;> omega

theorem length_encodeActions_ge (as : List Action) : as.length ≤ (encodeActions as).length := by
  induction as with
  | nil => simp [encodeActions]
  | cons a as ih =>
    have := length_encodeAction_pos a
    simp [encodeActions]; omega

theorem length_encodeRecord (crc : Bytes → Nat) (r : Record) :
    (encodeRecord crc r).length = 14 + (encodeActions r.actions).length := by
  simp [encodeRecord, encodeBody, encodeHeader]; omega

theorem validatePass_encode (crc : Bytes → Nat) {cfg cfgV : Cfg} {last : Nat} {r : Record}
    (hid : r.id = last + 1) (hlt : r.id < U64 - 1) (hv : validActions cfg r.actions = some cfgV)
    (rest : Bytes) :
    validatePass crc cfg last (encodeRecord crc r ++ rest) = .ok r rest cfgV := by
  have hid64 : r.id < U64 := by omega
  have hlen : (encodeRecord crc r ++ rest).length + 1 =
      ((encodeRecord crc r ++ rest).length - r.actions.length) + 1 + r.actions.length := by
    have := length_encodeActions_ge r.actions
    have := length_encodeRecord crc r
    simp only [List.length_append]; omega
  unfold validatePass
  rw [hlen]
  generalize (encodeRecord crc r ++ rest).length - r.actions.length = k
  simp only [encodeRecord, encodeBody, encodeHeader, List.append_assoc, next_begin crc hid64]
  have hne : ¬ (r.id ≠ last + 1 ∨ r.id = U64 - 1) := by omega
  simp only [hne, if_false]
  rw [loop_enc crc r.actions hv]
  simp only [validateLoop, List.nil_append]
  have hb : leBytes 1 BEGIN_RECORD ++ (leBytes 8 r.id ++ (encodeActions r.actions ++ leBytes 1 END_RECORD)) =
      (leBytes 1 BEGIN_RECORD ++ leBytes 8 r.id ++ encodeActions r.actions) ++ leBytes 1 END_RECORD := by
    simp
  rw [hb, next_end]

theorem isSome_validActions {cfg : Cfg} {as : List Action} (h : (validActions cfg as).isSome) :
    ∃ cfgV, validActions cfg as = some cfgV := Option.isSome_iff_exists.mp h

theorem parseRecordSpec_encode (crc : Bytes → Nat) {cfg : Cfg} {last : Nat} {r : Record}
    (hwf : WellFormed cfg r) (hid : r.id = last + 1) (rest : Bytes) :
    parseRecordSpec crc cfg last (encodeRecord crc r ++ rest) =
      .ok r (recEffects cfg r) rest (cfgAfter cfg r) := by
  obtain ⟨hlt, hs⟩ := hwf
  obtain ⟨cfgV, hv⟩ := isSome_validActions hs
  simp only [parseRecordSpec, validatePass_encode crc hid hlt hv rest, cfgAfter, recEffects, hv]

theorem parseRecord_encode (crc : Bytes → Nat) {cfg : Cfg} {last : Nat} {r : Record}
    (hsane : cfg.Sane) (hwf : WellFormed cfg r) (hid : r.id = last + 1) (rest : Bytes) :
    parseRecord crc cfg last (encodeRecord crc r ++ rest) =
      .ok r (recEffects cfg r) rest (cfgAfter cfg r) := by
  rw [parseRecord_eq_spec crc cfg last _ hsane]
  exact parseRecordSpec_encode crc hwf hid rest

end Pdb.Wal
