/-
C13 helper lemmas, part 5: abstract tables (`Location → Bytes`), records as overwrite lists,
and the physical-redo argument behind the prefix statement.
-/
import Pdb.Proofs.C13Replay

namespace Pdb.Wal
open Pdb.Gen

/-! ### the table state does not influence what is parsed -/

theorem replayFile_indep {σ τ : Type} (step : σ → EAct → σ) (step' : τ → EAct → τ)
    (crc : Bytes → Nat) :
    ∀ (fuel : Nat) (st : RState σ) (st' : RState τ) (bytes : Bytes) (acc : List Record)
      (eacc : List EAct),
    st.cfg = st'.cfg → st.lastEnacted = st'.lastEnacted →
    (replayFileWith step crc fuel st bytes acc eacc).2 =
      (replayFileWith step' crc fuel st' bytes acc eacc).2 ∧
    (replayFileWith step crc fuel st bytes acc eacc).1.cfg =
      (replayFileWith step' crc fuel st' bytes acc eacc).1.cfg ∧
    (replayFileWith step crc fuel st bytes acc eacc).1.lastEnacted =
      (replayFileWith step' crc fuel st' bytes acc eacc).1.lastEnacted := by
  intro fuel
  induction fuel with
  | zero => intro st st' bytes acc eacc h1 h2; simp [replayFileWith, h1, h2]
  | succ fuel ih =>
    intro st st' bytes acc eacc h1 h2
    unfold replayFileWith
    rw [← h1, ← h2]
    cases parseRecord crc st.cfg st.lastEnacted bytes with
    | ok r effs rest cfg' => exact ih _ _ rest _ _ rfl rfl
    | endOfLog => simp [h1, h2]
    | invalid why cfg' => simp [h2]
    | applyFailed => simp [h1, h2]
    | panic => simp [h1, h2]
    | outOfFuel => simp [h1, h2]

theorem replaySorted_indep {σ τ : Type} (step : σ → EAct → σ) (step' : τ → EAct → τ)
    (crc : Bytes → Nat) :
    ∀ (files : List Bytes) (st : RState σ) (st' : RState τ),
    st.cfg = st'.cfg → st.lastEnacted = st'.lastEnacted →
    (replaySortedWith step crc st files).2 = (replaySortedWith step' crc st' files).2 ∧
    (replaySortedWith step crc st files).1.cfg = (replaySortedWith step' crc st' files).1.cfg ∧
    (replaySortedWith step crc st files).1.lastEnacted =
      (replaySortedWith step' crc st' files).1.lastEnacted := by
  intro files
  induction files with
  | nil => intro st st' h1 h2; simp [replaySortedWith, h1, h2]
  | cons f fs ih =>
    intro st st' h1 h2
    obtain ⟨e1, e2, e3⟩ := replayFile_indep step step' crc (f.length + 1) st st' f [] [] h1 h2
    unfold replaySortedWith
    generalize replayFileWith step crc (f.length + 1) st f [] [] = o1 at e1 e2 e3
    generalize replayFileWith step' crc (f.length + 1) st' f [] [] = o2 at e1 e2 e3
    obtain ⟨s1, r1⟩ := o1
    obtain ⟨s2, r2⟩ := o2
    simp only at e1 e2 e3 ⊢
    subst e1
    by_cases hc : (r1.stop.clears || r1.stop.aborts) = true
    · simp [hc, e2, e3]
    · have hc' : (r1.stop.clears || r1.stop.aborts) = false := by simpa using hc
      obtain ⟨i1, i2, i3⟩ := ih s1 s2 e2 e3
      simp only [hc', Bool.false_eq_true, if_false]
      generalize replaySortedWith step crc s1 fs = p1 at i1 i2 i3
      generalize replaySortedWith step' crc s2 fs = p2 at i1 i2 i3
      obtain ⟨a1, b1⟩ := p1
      obtain ⟨a2, b2⟩ := p2
      simp only at i1 i2 i3 ⊢
      simp [i1, i2, i3]

/-- The table state after replay is the fold of the write function over the effects recorded
    in the reports: the complete effects of exactly the records reported as applied. -/
theorem replaySorted_tables {σ : Type} (step : σ → EAct → σ) (crc : Bytes → Nat)
    (cfg : Cfg) (last : Nat) (T : σ) (files : List Bytes) (hs : cfg.Sane) :
    (replaySortedWith step crc ⟨cfg, last, T⟩ files).1.tables =
      (replaySorted crc cfg last files).effects.foldl step T := by
  have h := (replaySorted_spec step crc files ⟨cfg, last, T⟩ hs).2.1
  have hi := (replaySorted_indep step (fun (_ : Unit) _ => ()) crc files ⟨cfg, last, T⟩
    ⟨cfg, last, ()⟩ rfl rfl).1
  rw [h, hi]
  rfl

/-- The effects of a replay are the complete action lists of the applied records. -/
theorem replaySorted_effects_actions (crc : Bytes → Nat) (cfg : Cfg) (last : Nat)
    (files : List Bytes) (hs : cfg.Sane) :
    (replaySorted crc cfg last files).effects.map (·.action) =
      (replaySorted crc cfg last files).applied.flatMap (·.actions) :=
  (replaySorted_explains crc cfg last files hs).effects_actions

/-! ### abstract tables

ABSTRACTION (A-skip).  In `Tables` every table id owns its locations for ever.  Dropping a
table writes nothing, and an insert that the apply pass skips (`EAct.enacted = false`: the table
named by the action is neither current nor queued) is treated like an insert into the
locations of that vanished table.  This is sound for everything a reader can consult: a table
that is neither current nor queued has fewer index bits than the current table of its column
and is never created again, so no lookup ever reads its locations.  The concrete table
contents (with skips and drops) are what the driver command `replaytab` computes (`stepD`)
and what harness/src/c13.rs compares with the real tables. -/

/-- Abstract tables: contents per location (`[]` = never written). -/
abbrev Tables := Loc → Bytes

def Tables.write (T : Tables) (w : Loc × Bytes) : Tables :=
  fun l => if l = w.1 then w.2 else T l

/-- `enact_plan` on the abstract tables. -/
def stepTables (T : Tables) (a : Action) : Tables := a.writes.foldl Tables.write T

/-- The apply pass on the abstract tables (A-skip). -/
def stepTablesE (T : Tables) (e : EAct) : Tables := stepTables T e.action

def Record.writes (r : Record) : List (Loc × Bytes) := r.actions.flatMap Action.writes

def applyWrites (ws : List (Loc × Bytes)) (T : Tables) : Tables := ws.foldl Tables.write T

/-- Enact complete records in order. -/
def applyRecords (rs : List Record) (T : Tables) : Tables :=
  (rs.flatMap (·.actions)).foldl stepTables T

theorem foldl_stepTablesE (effs : List EAct) (T : Tables) :
    effs.foldl stepTablesE T = (effs.map (·.action)).foldl stepTables T := by
  induction effs generalizing T with
  | nil => rfl
  | cons e es ih => simp [stepTablesE, ih]

theorem applyRecords_eq_writes (rs : List Record) (T : Tables) :
    applyRecords rs T = applyWrites (rs.flatMap Record.writes) T := by
  unfold applyRecords applyWrites
  induction rs generalizing T with
  | nil => rfl
  | cons r rs ih =>
    simp only [List.flatMap_cons, List.foldl_append]
    rw [ih]
    congr 1
    unfold Record.writes
    generalize r.actions = as
    induction as generalizing T with
    | nil => rfl
    | cons a as iha => simp only [List.foldl_cons, List.flatMap_cons, List.foldl_append, iha, stepTables]

theorem applyWrites_append (ws vs : List (Loc × Bytes)) (T : Tables) :
    applyWrites (ws ++ vs) T = applyWrites vs (applyWrites ws T) := by
  simp [applyWrites]

/-- Value written last to `l` by the list, if any. -/
def lastWrite (l : Loc) : List (Loc × Bytes) → Option Bytes
  | [] => none
  | w :: ws =>
    match lastWrite l ws with
    | some v => some v
    | none => if l = w.1 then some w.2 else none

theorem applyWrites_apply (ws : List (Loc × Bytes)) (T : Tables) (l : Loc) :
    applyWrites ws T l = (lastWrite l ws).getD (T l) := by
  induction ws generalizing T with
  | nil => rfl
  | cons w ws ih =>
    simp only [applyWrites, List.foldl_cons] at ih ⊢
    rw [ih]
    simp only [lastWrite]
    cases lastWrite l ws with
    | some v => rfl
    | none =>
      simp only [Option.getD_none, Tables.write]
      split <;> rfl

theorem lastWrite_append (l : Loc) (ws vs : List (Loc × Bytes)) :
    lastWrite l (ws ++ vs) = (lastWrite l vs).or (lastWrite l ws) := by
  induction ws with
  | nil => simp [lastWrite]
  | cons w ws ih =>
    simp only [List.cons_append, lastWrite, ih]
    cases lastWrite l vs <;> simp

/-- Physical redo: re-applying a suffix of what has already been applied changes nothing. -/
theorem applyWrites_redo (pre ws : List (Loc × Bytes)) (T : Tables) :
    applyWrites ws (applyWrites (pre ++ ws) T) = applyWrites (pre ++ ws) T := by
  funext l
  rw [applyWrites_apply ws, applyWrites_apply (pre ++ ws), lastWrite_append]
  cases lastWrite l ws <;> simp

/-- Table state after the first `k` records of the history. -/
def stateAt (hist : List Record) (k : Nat) (T0 : Tables) : Tables := applyRecords (hist.take k) T0

theorem applyRecords_append (rs ss : List Record) (T : Tables) :
    applyRecords (rs ++ ss) T = applyRecords ss (applyRecords rs T) := by
  simp [applyRecords]

theorem applyRecords_redo (A B C : List Record) (T : Tables) :
    applyRecords (B ++ C) (applyRecords (A ++ B) T) = applyRecords (A ++ B ++ C) T := by
  rw [applyRecords_append B C, applyRecords_append (A ++ B) C]
  congr 1
  simp only [applyRecords_eq_writes, List.flatMap_append]
  exact applyWrites_redo _ _ _

/-- Replaying records `lo+1 .. m` over the state after `a` records, `lo ≤ a ≤ m`, gives the
    state after `m` records. -/
theorem redo_segment (hist : List Record) (T0 : Tables) {lo a m : Nat}
    (h1 : lo ≤ a) (h2 : a ≤ m) :
    applyRecords ((hist.take m).drop lo) (stateAt hist a T0) = stateAt hist m T0 := by
  unfold stateAt
  have ta : hist.take a = hist.take lo ++ (hist.drop lo).take (a - lo) := by
    have : a = lo + (a - lo) := by omega
    conv => lhs; rw [this, List.take_add]
  have tm : hist.take m = hist.take lo ++ (hist.drop lo).take (a - lo) ++
      ((hist.drop lo).drop (a - lo)).take (m - a) := by
    have : m = lo + ((a - lo) + (m - a)) := by omega
    conv => lhs; rw [this, List.take_add, List.take_add]
    simp
  have dm : (hist.take m).drop lo = (hist.drop lo).take (a - lo) ++
      ((hist.drop lo).drop (a - lo)).take (m - a) := by
    rw [List.drop_take]
    have : m - lo = (a - lo) + (m - a) := by omega
    rw [this, List.take_add]
  rw [dm, ta, tm]
  exact applyRecords_redo _ _ _ _


/-! ### records accepted by replay that are genuine form a segment of the history -/

theorem id_of_range' {l : List Record} {s : Nat} (h : l.map (·.id) = List.range' s l.length)
    (i : Nat) (hi : i < l.length) : l[i].id = s + i := by
  have h1 : (l.map (·.id))[i]'(by simpa using hi) = (List.range' s l.length)[i]'(by simpa using hi) := by
    simp only [h]
  simpa using h1

theorem genuine_segment {hist applied : List Record} {lo : Nat}
    (hh : hist.map (·.id) = List.range' 1 hist.length)
    (ha : applied.map (·.id) = List.range' (lo + 1) applied.length)
    (hg : ∀ r ∈ applied, r ∈ hist) :
    applied = (hist.take (lo + applied.length)).drop lo ∧
      (applied ≠ [] → lo + applied.length ≤ hist.length) := by
  -- position in the history of the `t`-th applied record
  have pos : ∀ t (ht : t < applied.length), ∃ (hi : lo + t < hist.length), applied[t] = hist[lo + t] := by
    intro t ht
    obtain ⟨i, hi, hei⟩ := List.getElem_of_mem (hg _ (List.getElem_mem ht))
    have e1 := id_of_range' hh i hi
    have e2 := id_of_range' ha t ht
    rw [hei] at e1
    have : i = lo + t := by omega
    subst this
    exact ⟨hi, hei.symm⟩
  have hlen : applied ≠ [] → lo + applied.length ≤ hist.length := by
    intro hne
    have hk : 0 < applied.length := List.length_pos_iff.mpr hne
    obtain ⟨hi, _⟩ := pos (applied.length - 1) (by omega)
    omega
  refine ⟨?_, hlen⟩
  apply List.ext_getElem
  · by_cases hne : applied = []
    · subst hne; simp
    · have := hlen hne
      simp; omega
  · intro t h1 h2
    obtain ⟨hi, he⟩ := pos t h1
    simp [he]

end Pdb.Wal
