/-
C13 helper lemmas, part 6: forward direction for whole files.  If the ordered log files begin
with the intact encodings of a chain of well-formed, consecutively numbered records (spread
over any number of files, the last one possibly followed by arbitrary bytes), replay applies
at least those records.
-/
import Pdb.Proofs.C13Tables

namespace Pdb.Wal
open Pdb.Gen

theorem validChain_split {cfg : Cfg} {last : Nat} {rs ss : List Record}
    (h : ValidChain cfg last (rs ++ ss)) :
    ValidChain cfg last rs ∧ ValidChain (chainCfg cfg rs) (last + rs.length) ss := by
  induction rs generalizing cfg last with
  | nil => exact ⟨trivial, by simpa [chainCfg] using h⟩
  | cons r rs ih =>
    obtain ⟨hid, hwf, hc⟩ := h
    obtain ⟨i1, i2⟩ := ih hc
    refine ⟨⟨hid, hwf, i1⟩, ?_⟩
    have : r.id + rs.length = last + (r :: rs).length := by simp; omega
    simpa [chainCfg, this] using i2

theorem length_encodeRecords_ge (crc : Bytes → Nat) (rs : List Record) :
    rs.length ≤ (encodeRecords crc rs).length := by
  induction rs with
  | nil => simp [encodeRecords]
  | cons r rs ih =>
    have := length_encodeRecord crc r
    simp [encodeRecords]; omega

theorem replayFileWith_succ {σ : Type} (step : σ → EAct → σ) (crc : Bytes → Nat) (fuel : Nat)
    (st : RState σ) (bytes : Bytes) (acc : List Record) (eacc : List EAct) :
    replayFileWith step crc (fuel + 1) st bytes acc eacc =
      match parseRecord crc st.cfg st.lastEnacted bytes with
      | .ok r effects rest cfg' =>
        replayFileWith step crc fuel ⟨cfg', r.id, effects.foldl step st.tables⟩ rest (acc ++ [r])
          (eacc ++ effects)
      | .endOfLog => (st, ⟨acc, eacc, bytes, .endOfLog⟩)
      | .invalid why cfg' => ({ st with cfg := cfg' }, ⟨acc, eacc, bytes, .invalid why⟩)
      | .applyFailed => (st, ⟨acc, eacc, bytes, .applyFailed⟩)
      | .panic => (st, ⟨acc, eacc, bytes, .panic⟩)
      | .outOfFuel => (st, ⟨acc, eacc, bytes, .outOfFuel⟩) := rfl

theorem replayFile_encodeRecords {σ : Type} (step : σ → EAct → σ) (crc : Bytes → Nat) :
    ∀ (rs : List Record) (fuel : Nat) (st : RState σ) (tail : Bytes) (acc : List Record)
      (eacc : List EAct),
    st.cfg.Sane → ValidChain st.cfg st.lastEnacted rs →
    replayFileWith step crc (fuel + rs.length) st (encodeRecords crc rs ++ tail) acc eacc =
      replayFileWith step crc fuel
        ⟨chainCfg st.cfg rs, st.lastEnacted + rs.length,
          (chainEffects st.cfg rs).foldl step st.tables⟩ tail (acc ++ rs)
        (eacc ++ chainEffects st.cfg rs) := by
  intro rs
  induction rs with
  | nil => intro fuel st tail acc eacc _ _; simp [encodeRecords, chainCfg, chainEffects]
  | cons r rs ih =>
    intro fuel st tail acc eacc hs h
    obtain ⟨hid, hwf, hc⟩ := h
    have e : fuel + (r :: rs).length = (fuel + rs.length) + 1 := by simp; omega
    rw [e, replayFileWith_succ]
    simp only [encodeRecords, List.append_assoc, parseRecord_encode crc hs hwf hid]
    rw [ih fuel ⟨cfgAfter st.cfg r, r.id, _⟩ tail (acc ++ [r]) _ (cfgAfter_sane hs hwf) hc]
    have e2 : r.id + rs.length = st.lastEnacted + (r :: rs).length := by simp; omega
    simp [chainCfg, chainEffects, e2, List.foldl_append]

theorem parseRecord_nil (crc : Bytes → Nat) (cfg : Cfg) (last : Nat) :
    parseRecord crc cfg last [] = .endOfLog := by
  simp [parseRecord, validatePass, next, Reader.read]

/-- The ordered files start with the intact encoding of `rs`: whole files holding
    consecutive segments, then possibly a file that continues with arbitrary bytes. -/
inductive IntactPrefix (crc : Bytes → Nat) : List Record → List Bytes → Prop
  | nil (fs : List Bytes) : IntactPrefix crc [] fs
  | whole {seg rs : List Record} {fs : List Bytes} :
      IntactPrefix crc rs fs → IntactPrefix crc (seg ++ rs) (encodeRecords crc seg :: fs)
  | cut (rs : List Record) (tail : Bytes) (fs : List Bytes) :
      IntactPrefix crc rs ((encodeRecords crc rs ++ tail) :: fs)

theorem intact_applied (crc : Bytes → Nat) {rs : List Record} {fs : List Bytes}
    (hi : IntactPrefix crc rs fs) :
    ∀ (cfg : Cfg) (last : Nat), cfg.Sane → ValidChain cfg last rs →
    ∃ more, (replaySorted crc cfg last fs).applied = rs ++ more := by
  induction hi with
  | nil fs => intro cfg last _ _; exact ⟨_, (List.nil_append _).symm⟩
  | @whole seg rs fs _ ih =>
    intro cfg last hs hv
    obtain ⟨hv1, hv2⟩ := validChain_split hv
    obtain ⟨more, hm⟩ := ih _ _ (chainCfg_sane hs hv1) hv2
    refine ⟨more, ?_⟩
    have hlen := length_encodeRecords_ge crc seg
    have hfuel : (encodeRecords crc seg).length + 1 =
        ((encodeRecords crc seg).length - seg.length) + 1 + seg.length := by omega
    have hrun := replayFile_encodeRecords (σ := Unit) (fun _ _ => ()) crc seg
      (((encodeRecords crc seg).length - seg.length) + 1) ⟨cfg, last, ()⟩ [] [] [] hs hv1
    simp only [List.append_nil, List.nil_append] at hrun
    unfold replaySorted ReplayResult.applied at hm ⊢
    simp only [replaySortedWith, hfuel, hrun]
    simp only [replayFileWith_succ, parseRecord_nil, Stop.clears, Stop.aborts, Bool.or_self,
      Bool.false_eq_true, if_false]
    generalize replaySortedWith (σ := Unit) (fun _ _ => ()) crc
      ⟨chainCfg cfg seg, last + seg.length, ()⟩ fs = out at hm ⊢
    obtain ⟨st2, reps⟩ := out
    simp only at hm ⊢
    simp [hm]
  | cut rs tail fs =>
    intro cfg last hs hv
    -- the accepted records start with `rs`
    have hlen := length_encodeRecords_ge crc rs
    have hfuel : (encodeRecords crc rs ++ tail).length + 1 =
        ((encodeRecords crc rs ++ tail).length - rs.length) + 1 + rs.length := by
      simp only [List.length_append]; omega
    have hrun := replayFile_encodeRecords (σ := Unit) (fun _ _ => ()) crc rs
      (((encodeRecords crc rs ++ tail).length - rs.length) + 1) ⟨cfg, last, ()⟩ tail [] [] hs hv
    simp only [List.nil_append] at hrun
    obtain ⟨rs2, h2, _⟩ := replayFile_spec (σ := Unit) (fun _ _ => ()) crc
      (((encodeRecords crc rs ++ tail).length - rs.length) + 1)
      ⟨chainCfg cfg rs, last + rs.length, ()⟩ tail rs (chainEffects cfg rs)
      (by simp only [List.length_append]; omega) (chainCfg_sane hs hv)
    unfold replaySorted ReplayResult.applied
    simp only [replaySortedWith]
    rw [hfuel, hrun]
    generalize replayFileWith (σ := Unit) (fun _ _ => ()) crc
      ((encodeRecords crc rs ++ tail).length - rs.length + 1)
      ⟨chainCfg cfg rs, last + rs.length, ()⟩ tail rs (chainEffects cfg rs) = out at h2 ⊢
    obtain ⟨st1, rep⟩ := out
    simp only at h2 ⊢
    by_cases hc : (rep.stop.clears || rep.stop.aborts) = true
    · simp only [hc, if_true]
      exact ⟨rs2, by simp [h2]⟩
    · have hc' : (rep.stop.clears || rep.stop.aborts) = false := by simpa using hc
      simp only [hc', Bool.false_eq_true, if_false]
      generalize replaySortedWith (σ := Unit) (fun _ _ => ()) crc st1 fs = out2
      obtain ⟨st2, reps⟩ := out2
      exact ⟨rs2 ++ reps.flatMap (·.applied), by simp [h2]⟩

end Pdb.Wal
