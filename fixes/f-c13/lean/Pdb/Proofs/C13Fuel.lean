/-
C13: fuel adequacy of the file and replay loops, for ALL configurations (no `Cfg.Sane`):
`.outOfFuel` is never an outcome of `replayOpen`.  (One `enact_logs` call: `parseRecord_fuel`
in C13ParseInv.lean.)
-/
import Pdb.Proofs.C13ParseInv

namespace Pdb.Wal
open Pdb.Gen

/-- An accepted record takes at least its END_RECORD opcode and checksum off the file. -/
theorem parseRecord_ok_lt {crc : Bytes → Nat} {cfg cfg' : Cfg} {last : Nat} {bytes rest : Bytes}
    {r : Record} {effs : List EAct} (h : parseRecord crc cfg last bytes = .ok r effs rest cfg') :
    rest.length < bytes.length := by
  unfold parseRecord at h
  split at h
  · rename_i r' rest' cfgV hv
    split at h
    · rename_i effs' rest'' cfg'' he
      split at h
      · cases h
        unfold enactPass at he
        split at he
        · cases he
        · rename_i rd hrd
          have h1 := next_reader_rest hrd
          have h2 := enactLoop_rest_lt crc _ _ _ _ _ _ _ he
          simp at h1
          omega
      · cases h
    · cases h
    · cases h
    · cases h
  · cases h
  · cases h
  · cases h
  · cases h

theorem replayFile_fuel {σ : Type} (step : σ → EAct → σ) (crc : Bytes → Nat) :
    ∀ (fuel : Nat) (st : RState σ) (bytes : Bytes) (acc : List Record) (eacc : List EAct),
    bytes.length < fuel → (replayFileWith step crc fuel st bytes acc eacc).2.stop ≠ .outOfFuel := by
  intro fuel
  induction fuel with
  | zero => intro st bytes acc eacc h; omega
  | succ fuel ih =>
    intro st bytes acc eacc hf
    unfold replayFileWith
    cases hp : parseRecord crc st.cfg st.lastEnacted bytes with
    | ok r effs rest cfg' =>
      have := parseRecord_ok_lt hp
      exact ih _ rest _ _ (by omega)
    | endOfLog => simp
    | invalid why cfg' => simp
    | applyFailed => simp
    | panic => simp
    | outOfFuel => exact absurd hp (parseRecord_fuel crc _ _ _)

theorem replaySorted_fuel {σ : Type} (step : σ → EAct → σ) (crc : Bytes → Nat) :
    ∀ (files : List Bytes) (st : RState σ),
    ∀ rep ∈ (replaySortedWith step crc st files).2, rep.stop ≠ .outOfFuel := by
  intro files
  induction files with
  | nil => intro st rep hr; simp [replaySortedWith] at hr
  | cons f fs ih =>
    intro st rep hr
    have h1 := replayFile_fuel step crc (f.length + 1) st f [] [] (by omega)
    unfold replaySortedWith at hr
    generalize replayFileWith step crc (f.length + 1) st f [] [] = out at h1 hr
    obtain ⟨st1, rep1⟩ := out
    simp only at h1 hr
    split at hr
    · simp only [List.mem_singleton] at hr; subst hr; exact h1
    · have := ih st1
      generalize replaySortedWith step crc st1 fs = out2 at this hr
      obtain ⟨st2, reps⟩ := out2
      simp only [List.mem_cons] at hr
      rcases hr with rfl | hr
      · exact h1
      · exact this rep hr

/-- `.outOfFuel` is never an outcome of `Db::open`'s replay: for ALL bytes, file sets and
    configurations. -/
theorem replayOpen_fuel (crc : Bytes → Nat) (cfg : Cfg) (files : List Bytes) :
    (replayOpen crc cfg files).outOfFuel = false := by
  unfold ReplayResult.outOfFuel
  rw [Bool.eq_false_iff]
  intro hany
  obtain ⟨rep, hr, hst⟩ := List.any_eq_true.mp hany
  have hst' : rep.stop = .outOfFuel := of_decide_eq_true (by simpa using hst)
  exact replaySorted_fuel (σ := Unit) (fun _ _ => ()) crc (orderFiles files)
    ⟨cfg, initialLastEnacted files, ()⟩ rep hr hst'

end Pdb.Wal
