/-
C13 helper lemmas, part 4: a log file, all log files.

Specification vocabulary:
  * `ValidChain cfg last rs`  : `rs` are well-formed records (each in the configuration left by
    its predecessors) numbered `last+1, last+2, ...`
  * `NoValidNext crc cfg last tail` : `tail` does not begin with an encoded record that is
    well formed in `cfg` and numbered `last+1`
  * `StopsAt`  : why the model stopped reading a file at `tail`
  * `Explains` : the list of file reports is exactly what `Log::open` + `replay_all_logs` do
    to the ordered list of log files
-/
import Pdb.Proofs.C13ParseInv

namespace Pdb.Wal
open Pdb.Gen

def ValidChain : Cfg → Nat → List Record → Prop
  | _, _, [] => True
  | cfg, last, r :: rs => r.id = last + 1 ∧ WellFormed cfg r ∧ ValidChain (cfgAfter cfg r) r.id rs

/-- Configuration after a chain of records has been validated and applied. -/
def chainCfg (cfg : Cfg) (rs : List Record) : Cfg := rs.foldl cfgAfter cfg

def NoValidNext (crc : Bytes → Nat) (cfg : Cfg) (last : Nat) (tail : Bytes) : Prop :=
  ∀ r rest, tail = encodeRecord crc r ++ rest → ¬ (r.id = last + 1 ∧ WellFormed cfg r)

/-- The model stopped at `tail` with `stop`, leaving configuration `cfg'`. -/
def StopsAt (crc : Bytes → Nat) (cfg : Cfg) (last : Nat) (tail : Bytes) (stop : Stop)
    (cfg' : Cfg) : Prop :=
  match stop with
  | .endOfLog => parseRecord crc cfg last tail = .endOfLog ∧ cfg' = cfg
  | .invalid why => parseRecord crc cfg last tail = .invalid why cfg'
  | .applyFailed => False
  | .panic => False
  | .outOfFuel => False

theorem StopsAt.noValidNext {crc : Bytes → Nat} {cfg cfg' : Cfg} {last : Nat} {tail : Bytes}
    {stop : Stop} (hs : cfg.Sane) (h : StopsAt crc cfg last tail stop cfg') :
    NoValidNext crc cfg last tail := by
  intro r rest htail ⟨hid, hwf⟩
  subst htail
  have hp := parseRecord_encode crc hs hwf hid rest
  unfold StopsAt at h
  cases stop with
  | endOfLog => rw [hp] at h; cases h.1
  | invalid why => rw [hp] at h; cases h
  | applyFailed => exact h
  | panic => exact h
  | outOfFuel => exact h

theorem StopsAt.no_abort {crc : Bytes → Nat} {cfg cfg' : Cfg} {last : Nat} {tail : Bytes}
    {stop : Stop} (h : StopsAt crc cfg last tail stop cfg') : stop.aborts = false := by
  cases stop with
  | endOfLog => rfl
  | invalid why => rfl
  | applyFailed => exact h.elim
  | panic => exact h.elim
  | outOfFuel => exact h.elim

theorem StopsAt.sane {crc : Bytes → Nat} {cfg cfg' : Cfg} {last : Nat} {tail : Bytes}
    {stop : Stop} (hs : cfg.Sane) (h : StopsAt crc cfg last tail stop cfg') : cfg'.Sane := by
  cases stop with
  | endOfLog => obtain ⟨_, rfl⟩ := h; exact hs
  | invalid why => exact (parseRecord_sane hs).2 _ _ h
  | applyFailed => exact h.elim
  | panic => exact h.elim
  | outOfFuel => exact h.elim

/-- What the apply passes of a chain of records do, record by record. -/
def chainEffects : Cfg → List Record → List EAct
  | _, [] => []
  | cfg, r :: rs => recEffects cfg r ++ chainEffects (cfgAfter cfg r) rs

theorem cfgAfter_sane {cfg : Cfg} {r : Record} (hs : cfg.Sane) (hwf : WellFormed cfg r) :
    (cfgAfter cfg r).Sane := by
  have hwf' : WellFormed cfg ⟨1, r.actions⟩ := ⟨by show (1 : Nat) < U64 - 1; unfold U64; omega, hwf.2⟩
  have hp := parseRecord_encode (fun _ => 0) (last := 0) hs hwf' rfl []
  have := (parseRecord_sane hs).1 _ _ _ _ hp
  simpa [cfgAfter] using this

theorem chainCfg_sane {cfg : Cfg} {last : Nat} {rs : List Record} (hs : cfg.Sane)
    (h : ValidChain cfg last rs) : (chainCfg cfg rs).Sane := by
  induction rs generalizing cfg last with
  | nil => exact hs
  | cons r rs ih =>
    obtain ⟨_, hwf, hc⟩ := h
    exact ih (cfgAfter_sane hs hwf) hc

theorem chainEffects_append (cfg : Cfg) (rs ss : List Record) :
    chainEffects cfg (rs ++ ss) = chainEffects cfg rs ++ chainEffects (chainCfg cfg rs) ss := by
  induction rs generalizing cfg with
  | nil => rfl
  | cons r rs ih => simp [chainEffects, chainCfg, ih]

/-- The effects of a valid chain are the COMPLETE action lists of its records, in order. -/
theorem chainEffects_actions {cfg : Cfg} {last : Nat} {rs : List Record}
    (h : ValidChain cfg last rs) :
    (chainEffects cfg rs).map (·.action) = rs.flatMap (·.actions) := by
  induction rs generalizing cfg last with
  | nil => rfl
  | cons r rs ih =>
    obtain ⟨_, hwf, hc⟩ := h
    simp [chainEffects, recEffects_actions hwf, ih hc]

theorem validChain_ids {cfg : Cfg} {last : Nat} {rs : List Record} (h : ValidChain cfg last rs) :
    rs.map (·.id) = List.range' (last + 1) rs.length := by
  induction rs generalizing cfg last with
  | nil => rfl
  | cons r rs ih =>
    obtain ⟨hid, _, hc⟩ := h
    simp only [List.map_cons, List.length_cons, List.range'_succ, ih hc, hid]

theorem validChain_append {cfg : Cfg} {last : Nat} {rs ss : List Record}
    (h1 : ValidChain cfg last rs) (h2 : ValidChain (chainCfg cfg rs) (last + rs.length) ss) :
    ValidChain cfg last (rs ++ ss) := by
  induction rs generalizing cfg last with
  | nil => simpa [chainCfg] using h2
  | cons r rs ih =>
    obtain ⟨hid, hwf, hc⟩ := h1
    refine ⟨hid, hwf, ih hc ?_⟩
    have : r.id + rs.length = last + (r :: rs).length := by simp; omega
    simpa [chainCfg, this] using h2

theorem chainCfg_append (cfg : Cfg) (rs ss : List Record) :
    chainCfg cfg (rs ++ ss) = chainCfg (chainCfg cfg rs) ss := by
  simp [chainCfg]

theorem encodeRecords_append (crc : Bytes → Nat) (rs ss : List Record) :
    encodeRecords crc (rs ++ ss) = encodeRecords crc rs ++ encodeRecords crc ss := by
  induction rs with
  | nil => rfl
  | cons r rs ih => simp [encodeRecords, ih]

/-! ### one file -/

theorem replayFile_spec {σ : Type} (step : σ → EAct → σ) (crc : Bytes → Nat) :
    ∀ (fuel : Nat) (st : RState σ) (bytes : Bytes) (acc : List Record) (eacc : List EAct),
    bytes.length < fuel → st.cfg.Sane →
    ∃ rs, (replayFileWith step crc fuel st bytes acc eacc).2.applied = acc ++ rs ∧
      (replayFileWith step crc fuel st bytes acc eacc).2.effects = eacc ++ chainEffects st.cfg rs ∧
      bytes = encodeRecords crc rs ++ (replayFileWith step crc fuel st bytes acc eacc).2.tail ∧
      ValidChain st.cfg st.lastEnacted rs ∧
      (replayFileWith step crc fuel st bytes acc eacc).1.lastEnacted = st.lastEnacted + rs.length ∧
      (replayFileWith step crc fuel st bytes acc eacc).1.tables =
        (chainEffects st.cfg rs).foldl step st.tables ∧
      StopsAt crc (chainCfg st.cfg rs) (st.lastEnacted + rs.length)
        (replayFileWith step crc fuel st bytes acc eacc).2.tail
        (replayFileWith step crc fuel st bytes acc eacc).2.stop
        (replayFileWith step crc fuel st bytes acc eacc).1.cfg := by
  intro fuel
  induction fuel with
  | zero => intro st bytes acc eacc h; omega
  | succ fuel ih =>
    intro st bytes acc eacc hf hs
    unfold replayFileWith
    cases hp : parseRecord crc st.cfg st.lastEnacted bytes with
    | ok r effs rest cfg' =>
      obtain ⟨hb, hid, hwf, hcfg, heff⟩ := parseRecord_inv hs hp
      have hsh := parseRecord_ok_shorter hs hp
      have hs' : cfg'.Sane := (parseRecord_sane hs).1 _ _ _ _ hp
      obtain ⟨rs, h1, h1e, h2, h3, h4, h5, h6⟩ :=
        ih ⟨cfg', r.id, effs.foldl step st.tables⟩ rest (acc ++ [r]) (eacc ++ effs) (by omega) hs'
      refine ⟨r :: rs, ?_, ?_, ?_, ?_, ?_, ?_, ?_⟩
      · simpa using h1
      · subst hcfg heff; simpa [chainEffects] using h1e
      · simp only [encodeRecords, List.append_assoc]; rw [← h2]; exact hb
      · subst hcfg; exact ⟨hid, hwf, h3⟩
      · simp only [h4, List.length_cons]; omega
      · subst hcfg heff; simp only [h5, chainEffects, List.foldl_append]
      · have e : r.id + rs.length = st.lastEnacted + (r :: rs).length := by
          simp only [List.length_cons]; omega
        subst hcfg
        simpa [chainCfg, e] using h6
    | endOfLog =>
      exact ⟨[], by simp, by simp [chainEffects], by simp [encodeRecords], trivial, by simp,
        by simp [chainEffects], by simpa [StopsAt, chainCfg] using hp⟩
    | invalid why cfg' =>
      exact ⟨[], by simp, by simp [chainEffects], by simp [encodeRecords], trivial, by simp,
        by simp [chainEffects], by simpa [StopsAt, chainCfg] using hp⟩
    | applyFailed => exact absurd hp (parseRecord_ne_applyFailed crc _ _ _ hs)
    | panic => exact absurd hp (parseRecord_ne_panic crc _ _ _ hs)
    | outOfFuel => exact absurd hp (parseRecord_fuel crc _ _ _)

/-! ### all files -/

/-- `reps` is what replay does to the ordered files `fs`, starting from `cfg`, `last`:
    every visited file is `accepted records ++ tail`, the tail is where the first record that
    is not accepted starts, a stop that clears ends the replay, any other stop moves on to
    the next file with the same `last`; the effects recorded for a file are the complete
    effects of its accepted records. -/
inductive Explains (crc : Bytes → Nat) : Cfg → Nat → List Bytes → List FileReport → Cfg → Nat → Prop
  | done (cfg : Cfg) (last : Nat) : Explains crc cfg last [] [] cfg last
  | clear {cfg cfg' : Cfg} {last : Nat} {f : Bytes} {fs : List Bytes} {rep : FileReport} :
      f = encodeRecords crc rep.applied ++ rep.tail →
      ValidChain cfg last rep.applied →
      rep.effects = chainEffects cfg rep.applied →
      StopsAt crc (chainCfg cfg rep.applied) (last + rep.applied.length) rep.tail rep.stop cfg' →
      rep.stop.clears = true →
      Explains crc cfg last (f :: fs) [rep] cfg' (last + rep.applied.length)
  | next {cfg cfg' cfg'' : Cfg} {last last'' : Nat} {f : Bytes} {fs : List Bytes}
      {rep : FileReport} {reps : List FileReport} :
      f = encodeRecords crc rep.applied ++ rep.tail →
      ValidChain cfg last rep.applied →
      rep.effects = chainEffects cfg rep.applied →
      StopsAt crc (chainCfg cfg rep.applied) (last + rep.applied.length) rep.tail rep.stop cfg' →
      rep.stop.clears = false →
      Explains crc cfg' (last + rep.applied.length) fs reps cfg'' last'' →
      Explains crc cfg last (f :: fs) (rep :: reps) cfg'' last''

theorem replaySorted_spec {σ : Type} (step : σ → EAct → σ) (crc : Bytes → Nat) :
    ∀ (files : List Bytes) (st : RState σ), st.cfg.Sane →
    Explains crc st.cfg st.lastEnacted files (replaySortedWith step crc st files).2
      (replaySortedWith step crc st files).1.cfg (replaySortedWith step crc st files).1.lastEnacted ∧
    (replaySortedWith step crc st files).1.tables =
      ((replaySortedWith step crc st files).2.flatMap (·.effects)).foldl step st.tables ∧
    (replaySortedWith step crc st files).1.cfg.Sane := by
  intro files
  induction files with
  | nil =>
    intro st hs
    exact ⟨by simpa [replaySortedWith] using Explains.done _ _, by simp [replaySortedWith],
      by simpa [replaySortedWith] using hs⟩
  | cons f fs ih =>
    intro st hs
    obtain ⟨rs, h1, h1e, h2, h3, h4, h5, h6⟩ :=
      replayFile_spec step crc (f.length + 1) st f [] [] (by omega) hs
    simp only [List.nil_append] at h1 h1e
    unfold replaySortedWith
    generalize hout : replayFileWith step crc (f.length + 1) st f [] [] = out at h1 h1e h2 h4 h5 h6
    obtain ⟨st1, rep⟩ := out
    simp only at h1 h1e h2 h4 h5 h6 ⊢
    subst h1
    have hab : rep.stop.aborts = false := h6.no_abort
    have hs1 : st1.cfg.Sane := h6.sane (chainCfg_sane hs h3)
    by_cases hc : rep.stop.clears = true
    · simp only [hc, hab, Bool.or_false, if_true]
      refine ⟨?_, by simpa [h1e] using h5, hs1⟩
      rw [h4]
      exact Explains.clear h2 h3 h1e h6 hc
    · have hc' : rep.stop.clears = false := by simpa using hc
      obtain ⟨e1, e2, e3⟩ := ih st1 hs1
      generalize hout2 : replaySortedWith step crc st1 fs = out2 at e1 e2 e3
      obtain ⟨st2, reps⟩ := out2
      simp only [hc', hab, Bool.or_false, Bool.false_eq_true, if_false] at e1 e2 e3 ⊢
      refine ⟨?_, ?_, e3⟩
      · rw [h4] at e1
        exact Explains.next h2 h3 h1e h6 hc' e1
      · rw [e2, h5]; simp [List.foldl_append, h1e]

/-! ### consequences of `Explains` -/

theorem validChain_wf {cfg : Cfg} {last : Nat} {rs : List Record} (h : ValidChain cfg last rs) :
    ∀ r ∈ rs, ∃ c, WellFormed c r := by
  induction rs generalizing cfg last with
  | nil => intro r hr; cases hr
  | cons r rs ih =>
    obtain ⟨_, hwf, hc⟩ := h
    intro r' hr'
    rcases List.mem_cons.mp hr' with rfl | hr'
    · exact ⟨cfg, hwf⟩
    · exact ih hc r' hr'

/-- Ids of everything applied are consecutive from `last + 1`, across file boundaries too. -/
theorem Explains.ids {crc : Bytes → Nat} {cfg cfg' : Cfg} {last last' : Nat}
    {fs : List Bytes} {reps : List FileReport} (h : Explains crc cfg last fs reps cfg' last') :
    (reps.flatMap (·.applied)).map (·.id) =
        List.range' (last + 1) (reps.flatMap (·.applied)).length ∧
      last' = last + (reps.flatMap (·.applied)).length := by
  induction h with
  | done => exact ⟨rfl, rfl⟩
  | clear _ hv _ _ _ => exact ⟨by simpa using validChain_ids hv, by simp⟩
  | @next cfg cfg1 cfg2 last last2 f fs rep reps _ hv _ hs _ _ ih =>
    obtain ⟨ih1, ih2⟩ := ih
    refine ⟨?_, by rw [ih2]; simp; omega⟩
    simp only [List.flatMap_cons, List.map_append, List.length_append, validChain_ids hv, ih1]
    rw [← List.range'_append_1]
    congr 2
    omega

theorem Explains.wf {crc : Bytes → Nat} {cfg cfg' : Cfg} {last last' : Nat}
    {fs : List Bytes} {reps : List FileReport} (h : Explains crc cfg last fs reps cfg' last') :
    ∀ rep ∈ reps, ∀ r ∈ rep.applied, ∃ c, WellFormed c r := by
  induction h with
  | done => intro rep hr; cases hr
  | clear _ hv _ _ _ =>
    intro rep hr; simp only [List.mem_singleton] at hr; subst hr; exact validChain_wf hv
  | next _ hv _ _ _ _ ih =>
    intro rep' hr
    rcases List.mem_cons.mp hr with rfl | hr
    · exact validChain_wf hv
    · exact ih rep' hr

/-- Every report is about the file at the same position: the file is the accepted records
    followed by the unread tail; reports exist only for a prefix of the files. -/
theorem Explains.files {crc : Bytes → Nat} {cfg cfg' : Cfg} {last last' : Nat}
    {fs : List Bytes} {reps : List FileReport} (h : Explains crc cfg last fs reps cfg' last') :
    reps.length ≤ fs.length ∧
      ∀ i (hi : i < reps.length) (hf : i < fs.length),
        fs[i] = encodeRecords crc reps[i].applied ++ reps[i].tail := by
  induction h with
  | done => exact ⟨by simp, fun i hi => by simp at hi⟩
  | clear hb _ _ _ _ =>
    refine ⟨by simp, fun i hi hf => ?_⟩
    have : i = 0 := by simpa using hi
    subst this; simpa using hb
  | next hb _ _ _ _ _ ih =>
    obtain ⟨ih1, ih2⟩ := ih
    refine ⟨by simp; omega, fun i hi hf => ?_⟩
    cases i with
    | zero => simpa using hb
    | succ i => simpa using ih2 i (by simpa using hi) (by simpa using hf)

/-- No report ends in a panic, an `Err` of the apply pass, or exhausted fuel. -/
theorem Explains.no_abort {crc : Bytes → Nat} {cfg cfg' : Cfg} {last last' : Nat}
    {fs : List Bytes} {reps : List FileReport} (h : Explains crc cfg last fs reps cfg' last') :
    ∀ rep ∈ reps, rep.stop.aborts = false := by
  induction h with
  | done => intro rep hr; cases hr
  | clear _ _ _ hs _ =>
    intro rep hr; simp only [List.mem_singleton] at hr; subst hr; exact hs.no_abort
  | next _ _ _ hs _ _ ih =>
    intro rep' hr
    rcases List.mem_cons.mp hr with rfl | hr
    · exact hs.no_abort
    · exact ih rep' hr

/-- A clearing stop is the last report; without a clearing stop every file is visited. -/
theorem Explains.clears_last {crc : Bytes → Nat} {cfg cfg' : Cfg} {last last' : Nat}
    {fs : List Bytes} {reps : List FileReport} (h : Explains crc cfg last fs reps cfg' last') :
    (∀ i (hi : i < reps.length), reps[i].stop.clears = true → i + 1 = reps.length) ∧
      ((∀ rep ∈ reps, rep.stop.clears = false) → reps.length = fs.length) := by
  induction h with
  | done => exact ⟨fun i hi => by simp at hi, fun _ => rfl⟩
  | clear _ _ _ _ hc =>
    refine ⟨fun i hi _ => ?_, fun hall => ?_⟩
    · have : i = 0 := by simpa using hi
      subst this; simp
    · have := hall _ (List.mem_singleton.mpr rfl)
      rw [hc] at this; cases this
  | next _ _ _ _ hc _ ih =>
    obtain ⟨ih1, ih2⟩ := ih
    refine ⟨fun i hi hcl => ?_, fun hall => ?_⟩
    · cases i with
      | zero => simp only [List.getElem_cons_zero] at hcl; rw [hc] at hcl; cases hcl
      | succ i =>
        have := ih1 i (by simpa using hi) (by simpa using hcl)
        simp; omega
    · have := ih2 (fun rep hr => hall rep (List.mem_cons_of_mem _ hr))
      simp [this]

/-- The first file of an explained replay. -/
theorem Explains.head {crc : Bytes → Nat} {cfg cfg' : Cfg} {last last' : Nat} {f : Bytes}
    {fs : List Bytes} {reps : List FileReport} (hsane : cfg.Sane)
    (h : Explains crc cfg last (f :: fs) reps cfg' last') :
    ∃ rep reps', reps = rep :: reps' ∧ f = encodeRecords crc rep.applied ++ rep.tail ∧
      ValidChain cfg last rep.applied ∧
      NoValidNext crc (chainCfg cfg rep.applied) (last + rep.applied.length) rep.tail ∧
      (rep.stop.clears = true → reps' = []) := by
  cases h with
  | clear hb hv _ hs hc =>
    exact ⟨_, [], rfl, hb, hv, hs.noValidNext (chainCfg_sane hsane hv), fun _ => rfl⟩
  | next hb hv _ hs hc _ =>
    refine ⟨_, _, rfl, hb, hv, hs.noValidNext (chainCfg_sane hsane hv), fun h => ?_⟩
    rw [hc] at h; cases h

/-- Every report carries a valid chain (in the configuration in force when its file was opened). -/
theorem Explains.chains {crc : Bytes → Nat} {cfg cfg' : Cfg} {last last' : Nat}
    {fs : List Bytes} {reps : List FileReport} (h : Explains crc cfg last fs reps cfg' last') :
    ∀ rep ∈ reps, ∃ c l, ValidChain c l rep.applied ∧ rep.effects = chainEffects c rep.applied := by
  induction h with
  | done => intro rep hr; cases hr
  | clear _ hv he _ _ =>
    intro rep hr; simp only [List.mem_singleton] at hr; subst hr; exact ⟨_, _, hv, he⟩
  | next _ hv he _ _ _ ih =>
    intro rep' hr
    rcases List.mem_cons.mp hr with rfl | hr
    · exact ⟨_, _, hv, he⟩
    · exact ih rep' hr

/-- The recorded effects are the complete action lists of the applied records, in order. -/
theorem Explains.effects_actions {crc : Bytes → Nat} {cfg cfg' : Cfg} {last last' : Nat}
    {fs : List Bytes} {reps : List FileReport} (h : Explains crc cfg last fs reps cfg' last') :
    (reps.flatMap (·.effects)).map (·.action) = (reps.flatMap (·.applied)).flatMap (·.actions) := by
  induction h with
  | done => rfl
  | clear _ hv he _ _ => simp [he, chainEffects_actions hv]
  | next _ hv he _ _ _ ih =>
    simp only [List.flatMap_cons, List.map_append, List.flatMap_append, he,
      chainEffects_actions hv, ih]

theorem encodeRecords_mem (crc : Bytes → Nat) {rs : List Record} {r : Record} (h : r ∈ rs) :
    ∃ pre post, encodeRecords crc rs = pre ++ encodeRecord crc r ++ post := by
  induction rs with
  | nil => cases h
  | cons x rs ih =>
    rcases List.mem_cons.mp h with rfl | h
    · exact ⟨[], encodeRecords crc rs, by simp [encodeRecords]⟩
    · obtain ⟨pre, post, e⟩ := ih h
      exact ⟨encodeRecord crc x ++ pre, post, by simp [encodeRecords, e]⟩

theorem replaySorted_explains (crc : Bytes → Nat) (cfg : Cfg) (last : Nat) (files : List Bytes)
    (hs : cfg.Sane) :
    Explains crc cfg last files (replaySorted crc cfg last files).reports
      (replaySorted crc cfg last files).cfg (replaySorted crc cfg last files).lastEnacted :=
  (replaySorted_spec (σ := Unit) (fun _ _ => ()) crc files ⟨cfg, last, ()⟩ hs).1

theorem replaySorted_sane (crc : Bytes → Nat) (cfg : Cfg) (last : Nat) (files : List Bytes)
    (hs : cfg.Sane) : (replaySorted crc cfg last files).cfg.Sane :=
  (replaySorted_spec (σ := Unit) (fun _ _ => ()) crc files ⟨cfg, last, ()⟩ hs).2.2

end Pdb.Wal
