/-
C10: multitree columns of parity-db  (src/multitree.rs, src/column.rs, src/db.rs, src/ref_count.rs).

Layers in this file
  P3  node packing        `packNode` / `unpackNode`    (column.rs: claim_node, unpack_node_data)
  P2  heap of nodes       `Heap`, `insertTree`, `referenceTree`, `dereferenceTree`
                          (claim_tree_values / claim_node / claim_children_to_data,
                           write_address_inc_ref_plan / write_address_dec_ref_plan,
                           IndexedChangeSet::write_plan / write_dereference_children_plan)
  P1' commit pipeline     `PState`, `DState`/`step`  (commit_changes multitree branch: addresses are
                           claimed and the root / new nodes are put into the commit overlay when the
                           commit returns, every table change happens in process_commits)

Abstractions (documented, tied by the correspondence runs):
  * Addresses are abstract: `PState` hands out 0,1,2,... from a counter and never reuses one;
    `TState` pops a LIFO free-entry stack first, as the implementation does (one stack per size
    tier there).  New nodes of one insertion are numbered
    post-order (children before parent), so every child address is smaller than its parent's:
    that is the creation order the acyclicity invariant talks about.  Because real and model
    addresses differ, the driver protocol names existing nodes LOGICALLY (by path, see below).
  * The ref-count table and its cache are one map `rc` (entries only for counts > 1; absent = 1),
    as ref_count.rs / `ref_count_cache` keep them.  The `assert!`s of the inc/dec plans (cached
    count > 1, table = cache) cannot fire in the model: entries are only ever written with
    values >= 2 (invariant `Counts.rcEntries` in Proofs/C10Inv.lean).
  * A commit that is accepted queues exactly one entry, also when it changes nothing
    (ReferenceTree on an append-only column queues an empty commit).
  * While a DereferenceTree is queued its tree stays readable (the commit overlay only holds
    inserted roots / nodes), so a second DereferenceTree of the same root is accepted and becomes
    a no-op when processed - exactly what `validate_change` + `write_plan` do.
  * Root keys are opaque (hashed-key injectivity is A-hash); node data is an opaque value `D`
    with a length (driver: tokens `v<len>_<seed>`).

  P1'' transactions        `TState`, `TDb` (section "Transactions"): `commit_changes` with several
                           operations, one or several columns, the LIFO free-entry stack (address
                           reuse), `to_dereference` counters, commit id counter, stored background
                           error; `process_commits` in the planning order of `write_plan` (the root
                           changes that are not postponed, then all node changes, then the root
                           `Set`s of keys that are dereferenced in the same change set: fix of
                           finding F41; the order before it - all root changes, then all node
                           changes - is kept as `applyChangeSetF41` / `TState.processF41`).
                           THE DRIVER RUNS THIS MODEL.  `PState` /
                           `Pending` (one operation per commit, never reused counter addresses) is
                           the model of theorems (4)-(13) and of the crash model
                           (Pdb/Model/MultiTreeCrash.lean); a one-operation transaction of `TState`
                           does what `PState` does.

Driver protocol (command word `c10`, stateful)
  c10 init <col> [<col> ...]            -> ok      columns 0, 1, ..: append_only | rc | plain
                                                    (multitree variants; rc = ref_counted roots)
                                                    | kv (a plain hash column, no counting)
  c10 tx <op> ; <op> ; ...              -> ok | err:InvalidInput | err:InvalidConfiguration | err:Background
        one transaction; <op> =
          <col> insert <key> <tok>...   InsertTree; the tree in pre-order: `n<k>:<data>` is a NEW node
                                        with k children (the next k subtrees), `@<key>/<i>/<j>/...` an
                                        EXISTING node: start at the root stored under <key> in the
                                        column of the operation (as readable BEFORE the call), take
                                        child i, then its child j, ... (at least one index);
                                        `#<address>` a literal address.  The first token is the root
                                        and must be `n..`.
          <col> ref <key> | <col> deref <key>          ReferenceTree / DereferenceTree
          <col> set <key> <value> | <col> del <key> | <col> kref <key>     Set / Dereference / Reference
  c10 insert <key> <tok>... | ref <key> | deref <key>   the one-operation transactions on column 0
  c10 process | flush | enact | clean | reindex   -> ok      (process = ONE queued commit; reindex =
                                                    one `process_reindex` batch of a growing
                                                    ref-count table: invisible at this level,
                                                    see Pdb/Model/RcTables.lean)
  c10 reopen                            -> ok          (drain, close, open)
  c10 bgerr                             -> ok          (a background worker stores an error)
  c10 root [<col>:]<key>                -> none | some <data> <number of children>
  c10 node [<col>:]<key>/<i>/...        -> none | some <data> <number of children>
  c10 tree [<col>:]<key>                -> none | some (<data> <child> <child> ...)   logical content
  c10 get <col>:<key>                   -> none | some <value>         (kv column)
  c10 count [<col>]                     -> <n> | err:InvalidConfiguration
        get_num_column_value_entries: claimed node slots (claimed when the commit returns) +
        root slots (written in process) - freed slots; the call fails while any multipart entry
        exists (table.rs get_num_entries).
-/
import Pdb.Gen.Consts
import Pdb.Gen.Bits
import Pdb.Model.Validate

namespace Pdb.MultiTree

/-- node addresses (`NodeAddress = u64`); a notation, so that the type is literally `Nat` -/
scoped notation "Addr" => Nat

inductive Err where
  | invalidInput
  | invalidConfiguration
  | invalidValueData
  | outOfFuel            -- model artefact, proved unreachable (C10_walk_fuel)
  | background           -- `Error::Background`: a stored background error refuses every commit
deriving DecidableEq, Repr

def Err.show : Err → String
  | .invalidInput => "err:InvalidInput"
  | .invalidConfiguration => "err:InvalidConfiguration"
  | .invalidValueData => "err:InvalidValueData"
  | .outOfFuel => "err:model-out-of-fuel"
  | .background => "err:Background"

/-! ## P3: node packing -/

/-- `u64::to_le_bytes` -/
def u64le (a : Nat) : List Nat :=
  [a % 256, (a >>> 8) % 256, (a >>> 16) % 256, (a >>> 24) % 256,
   (a >>> 32) % 256, (a >>> 40) % 256, (a >>> 48) % 256, (a >>> 56) % 256]

/-- `u64::from_le_bytes` on a slice of bytes -/
def leU64 (bs : List Nat) : Nat := bs.foldr (fun b acc => b + 256 * acc) 0

/-- `claim_node` / `claim_tree_values`: data, child addresses (8 LE bytes each),
    `num_children as u8`. -/
def packNode (data : List Nat) (children : List Nat) : List Nat :=
  data ++ children.flatMap u64le ++ [children.length % 256]

/-- `unpack_node_data` -/
def unpackNode (bytes : List Nat) : Except Err (List Nat × List Nat) :=
  if bytes.length = 0 then .error .invalidValueData
  else
    let numChildren := bytes.getD (bytes.length - 1) 0
    let childBufLen := numChildren * 8
    if bytes.length < childBufLen + 1 then .error .invalidValueData
    else
      let dataLen := bytes.length - (childBufLen + 1)
      let children := (List.range numChildren).map
        (fun i => leU64 ((bytes.drop (dataLen + i * 8)).take 8))
      .ok (bytes.take dataLen, children)

/-- `unpack_node_children` (same parsing, children only) -/
def unpackChildren (bytes : List Nat) : Except Err (List Nat) :=
  (unpackNode bytes).map Prod.snd

/-! ## Finite maps (association lists without duplicate keys; most recent first) -/

section FMap
variable {K V : Type} [DecidableEq K]

def alLookup (k : K) : List (K × V) → Option V
  | [] => none
  | (k', v) :: r => if k' = k then some v else alLookup k r

def alErase (k : K) : List (K × V) → List (K × V)
  | [] => []
  | (k', v) :: r => if k' = k then alErase k r else (k', v) :: alErase k r

structure FMap (K V : Type) where
  l : List (K × V)

namespace FMap
def empty : FMap K V := ⟨[]⟩
def get (m : FMap K V) (k : K) : Option V := alLookup k m.l
def set (m : FMap K V) (k : K) (v : Option V) : FMap K V :=
  match v with
  | some v => ⟨(k, v) :: alErase k m.l⟩
  | none => ⟨alErase k m.l⟩
def size (m : FMap K V) : Nat := m.l.length
/-- Sum of `f` over the stored values. -/
def sum (m : FMap K V) (f : V → Nat) : Nat := (m.l.map (fun e => f e.2)).sum
def all (m : FMap K V) (p : K → V → Bool) : Bool := m.l.all (fun e => p e.1 e.2)
/-- No key occurs twice (every reachable map satisfies it: `set` erases first). -/
def WF (m : FMap K V) : Prop := (m.l.map Prod.fst).Nodup
end FMap
end FMap

/-! ## P2: the heap of tree nodes -/

structure Node (D : Type) where
  data : D
  children : List Addr
deriving Repr

mutual
  /-- `NodeRef` -/
  inductive NRef (D : Type) where
    | new (data : D) (children : NRefs D)
    | existing (a : Addr)
  /-- `Vec<NodeRef>` -/
  inductive NRefs (D : Type) where
    | nil
    | cons (r : NRef D) (rs : NRefs D)
end

/-- `NewNode` -/
structure NewNode (D : Type) where
  data : D
  children : NRefs D

def NRefs.length {D : Type} : NRefs D → Nat
  | .nil => 0
  | .cons _ rs => rs.length + 1

def NRefs.ofList {D : Type} : List (NRef D) → NRefs D
  | [] => .nil
  | r :: rs => .cons r (NRefs.ofList rs)

def NRefs.toList {D : Type} : NRefs D → List (NRef D)
  | .nil => []
  | .cons r rs => r :: rs.toList

/-- Column variants of the property. -/
inductive Variant where
  | appendOnly   -- multitree + append_only: no node counting, nothing is ever removed
  | rcRoots      -- multitree + ref_counted (+ preimage): roots carry a count
  | plain        -- multitree only: a root is one reference
deriving DecidableEq, Repr

variable {K D : Type} [DecidableEq K]

structure Heap (K D : Type) where
  nodes : FMap Addr (Node D)        -- value-table entries written by write_address_value_plan
  rc : FMap Addr Nat                -- ref-count table = cache: entries only for counts > 1
  roots : FMap K (Node D × Nat)     -- hash-indexed root entries: (unpacked root, root count)
  next : Addr                       -- next unclaimed abstract address

def Heap.empty : Heap K D := ⟨.empty, .empty, .empty, 0⟩

/-- The reference count of a live node: "absent in the table = exactly one reference". -/
def Heap.count (h : Heap K D) (a : Addr) : Nat := (h.rc.get a).getD 1

-- TODO-GEN (src/db.rs, validate_change::validate_node: `node.children.len() > u8::MAX as usize`)
/-- `u8::MAX` in `validate_node` -/
def MAX_CHILDREN : Nat := 255

mutual
  /-- `validate_change` / `validate_node`: every NEW node has at most 255 children. -/
  def NRef.valid : NRef D → Bool
    | .new _ cs => decide (cs.length ≤ MAX_CHILDREN) && cs.valid
    | .existing _ => true
  def NRefs.valid : NRefs D → Bool
    | .nil => true
    | .cons r rs => r.valid && rs.valid
end

def NewNode.valid (t : NewNode D) : Bool :=
  decide (t.children.length ≤ MAX_CHILDREN) && t.children.valid

/-- `write_address_inc_ref_plan`: cached count c -> c+1, no entry -> 2. -/
def incRef (h : Heap K D) (a : Addr) : Heap K D :=
  { h with rc := h.rc.set a (some (match h.rc.get a with
                                   | some c => c + 1
                                   | none => 2)) }

/-- `write_address_dec_ref_plan`: returns (remains, heap).  An entry c becomes c-1 (removed from
    the table when that is 1); without an entry the node had exactly one reference and its slot
    is freed (`write_remove_plan`). -/
def decRef (h : Heap K D) (a : Addr) : Bool × Heap K D :=
  match h.rc.get a with
  | some c => (true, { h with rc := h.rc.set a (if c - 1 > 1 then some (c - 1) else none) })
  | none => (false, { h with nodes := h.nodes.set a none })

mutual
  /-- `claim_node` + the planning of its `NodeChange`s (NewValue written after the children's,
      IncrementReference for `Existing` unless the column is append-only).  `n` is the address
      counter; returns (heap, counter, address of the node). -/
  def insRef (appendOnly : Bool) (h : Heap K D) (n : Addr) : NRef D → Heap K D × Addr × Addr
    | .existing a => (if appendOnly then h else incRef h a, n, a)
    | .new d cs =>
      match insRefs appendOnly h n cs with
      | (h1, n1, as) => ({ h1 with nodes := h1.nodes.set n1 (some ⟨d, as⟩) }, n1 + 1, n1)
  /-- `claim_children_to_data` -/
  def insRefs (appendOnly : Bool) (h : Heap K D) (n : Addr) :
      NRefs D → Heap K D × Addr × List Addr
    | .nil => (h, n, [])
    | .cons r rs =>
      match insRef appendOnly h n r with
      | (h1, n1, a) =>
        match insRefs appendOnly h1 n1 rs with
        | (h2, n2, as) => (h2, n2, a :: as)
end

/-- Root operation `Set(key, packed root)`: a new key is inserted with count 1; on an existing
    key a ref-counted column only increments the count (`write_inc_ref`), other columns replace
    the value (outside the property: live root keys are distinct). -/
def rootEntry (v : Variant) (old : Option (Node D × Nat)) (new : Node D) : Node D × Nat :=
  match v, old with
  | .rcRoots, some (r0, c) => (r0, c + 1)
  | _, _ => (new, 1)

/-- The table effects of a validated InsertTree whose node addresses start at `n0`. -/
def insertTreeAt (v : Variant) (h : Heap K D) (n0 : Addr) (k : K) (t : NewNode D) : Heap K D :=
  match insRefs (v = .appendOnly) h n0 t.children with
  | (h1, n1, as) =>
    { h1 with roots := h1.roots.set k (some (rootEntry v (h1.roots.get k) ⟨t.data, as⟩)),
              next := max h1.next n1 }

/-- InsertTree, atomically (claim + process). -/
def insertTree (v : Variant) (h : Heap K D) (k : K) (t : NewNode D) : Except Err (Heap K D) :=
  if t.valid then .ok (insertTreeAt v h h.next k t) else .error .invalidInput

/-- ReferenceTree: no-op on append-only columns, `Operation::Reference(root)` otherwise (an error
    "No Rc" on columns without ref_counted, a no-op on a missing key). -/
def referenceTree (v : Variant) (h : Heap K D) (k : K) : Except Err (Heap K D) :=
  match v with
  | .appendOnly => .ok h
  | .plain => .error .invalidInput
  | .rcRoots =>
    match h.roots.get k with
    | some (r, c) => .ok { h with roots := h.roots.set k (some (r, c + 1)) }
    | none => .ok h

/-- One iteration of the loop of `write_dereference_children_plan`, literally: read the
    children of `a` FIRST (`guard.get_node_children`), then decrement; if the node was freed
    recurse (`rec`) into the children read before. -/
def derefStep (rec : Heap K D → List Addr → Except Err (Heap K D)) (h : Heap K D) (a : Addr) :
    Except Err (Heap K D) :=
  let node := (h.nodes.get a).map (·.children)
  match decRef h a with
  | (true, h1) => .ok h1
  | (false, h1) =>
    match node with
    | some kids => rec h1 kids
    | none => .error .invalidConfiguration                  -- "Missing node data"

/-- `write_dereference_children_plan`: `for address in children { .. }`; `fuel` bounds the
    recursion depth. -/
def derefChildren : Nat → Heap K D → List Addr → Except Err (Heap K D)
  | 0, _, _ => .error .outOfFuel
  | fuel + 1, h, cs => cs.foldlM (derefStep (derefChildren fuel)) h

/-- Depth bound used by the executable model: every descent follows the freeing of a node. -/
def walkFuel (h : Heap K D) : Nat := h.nodes.size + 1

/-- `NodeChange::DereferenceChildren(key, hash, children)` in `write_plan`: if the root exists
    dereference it (`Operation::Dereference`: count - 1 on ref-counted columns, removal
    otherwise) and, if its count was 1, walk `children` (captured when the commit was made). -/
def derefProcess (v : Variant) (h : Heap K D) (k : K) (children : List Addr) :
    Except Err (Heap K D) :=
  match h.roots.get k with
  | none => .ok h
  | some (r, c) =>
    if v = .rcRoots ∧ c > 1 then .ok { h with roots := h.roots.set k (some (r, c - 1)) }
    else
      let h1 := { h with roots := h.roots.set k none }
      derefChildren (walkFuel h1) h1 children

/-- DereferenceTree, atomically (commit-time checks of `validate_change` + process). -/
def dereferenceTree (v : Variant) (h : Heap K D) (k : K) : Except Err (Heap K D) :=
  if v = .appendOnly then .error .invalidConfiguration
  else
    match h.roots.get k with
    | none => .error .invalidConfiguration
    | some (r, _) => derefProcess v h k r.children

/-! ### Reading -/

/-- Logical trees (what a reader sees by following addresses). -/
inductive LTree (D : Type) where
  | node (data : D) (children : List (LTree D))

def mapOpt {α β : Type} (f : α → Option β) : List α → Option (List β)
  | [] => some []
  | a :: l =>
    match f a with
    | none => none
    | some b => (mapOpt f l).map (b :: ·)

/-- Read the subtree at `a` through a node view; `fuel` bounds the depth. -/
def readNode (view : Addr → Option (Node D)) : Nat → Addr → Option (LTree D)
  | 0, _ => none
  | fuel + 1, a =>
    match view a with
    | none => none
    | some n => (mapOpt (readNode view fuel) n.children).map (LTree.node n.data)

/-- `get_tree(key).read()`: `get_root`, then `get_node` for every descendant. -/
def readTree (h : Heap K D) (k : K) : Option (LTree D) :=
  match h.roots.get k with
  | none => none
  | some (r, _) => (mapOpt (readNode h.nodes.get h.next) r.children).map (LTree.node r.data)

/-! ## P1': the commit pipeline of multitree operations (executable driver state) -/

inductive Pending (K D : Type) where
  /-- InsertTree: tree, first claimed address, root node and the address overlay
      (`copy_to_overlay`: root under its key, every NewValue under its address). -/
  | insert (k : K) (t : NewNode D) (n0 : Addr) (root : Node D) (ov : FMap Addr (Node D))
  | ref (k : K)
  /-- DereferenceTree with the root's children as read when the commit was made. -/
  | deref (k : K) (children : List Addr)

structure PState (K D : Type) where
  variant : Variant
  heap : Heap K D
  queue : List (Pending K D)      -- oldest first

def PState.init (v : Variant) : PState K D := ⟨v, Heap.empty, []⟩

/-- the root / node a queued commit put into the commit overlay -/
def pendRoot (k : K) : Pending K D → Option (Node D)
  | .insert k' _ _ root _ => if k' = k then some root else none
  | _ => none

def pendNode (a : Addr) : Pending K D → Option (Node D)
  | .insert _ _ _ _ ov => ov.get a
  | _ => none

/-- Commit overlay lookup of a root: the newest queued InsertTree of that key. -/
def ovRoot (q : List (Pending K D)) (k : K) : Option (Node D) :=
  q.reverse.findSome? (pendRoot k)

def ovNode (q : List (Pending K D)) (a : Addr) : Option (Node D) :=
  q.reverse.findSome? (pendNode a)

/-- `get(col, key, false)`: commit overlay, then tables. -/
def viewRoot (s : PState K D) (k : K) : Option (Node D) :=
  (ovRoot s.queue k).or ((s.heap.roots.get k).map Prod.fst)

/-- `get_node`: address overlay, then tables. -/
def viewNode (s : PState K D) (a : Addr) : Option (Node D) :=
  (ovNode s.queue a).or (s.heap.nodes.get a)

/-- Commit of InsertTree: validate, claim addresses, fill the overlay, queue. -/
def commitInsert (s : PState K D) (k : K) (t : NewNode D) : Except Err (PState K D) :=
  if !t.valid then .error .invalidInput
  else
    let n0 := s.heap.next
    match insRefs true (Heap.empty : Heap K D) n0 t.children with
    | (scratch, n1, as) =>
      .ok { s with heap := { s.heap with next := n1 },
                   queue := s.queue ++ [.insert k t n0 ⟨t.data, as⟩ scratch.nodes] }

def commitRef (s : PState K D) (k : K) : Except Err (PState K D) :=
  match s.variant with
  | .appendOnly => .ok { s with queue := s.queue ++ [.ref k] }   -- an empty commit is queued
  | .plain => .error .invalidInput             -- copy_to_overlay: "No Rc for column"
  | .rcRoots => .ok { s with queue := s.queue ++ [.ref k] }

def commitDeref (s : PState K D) (k : K) : Except Err (PState K D) :=
  if s.variant = .appendOnly then .error .invalidConfiguration
  else
    match viewRoot s k with
    | none => .error .invalidConfiguration
    | some r => .ok { s with queue := s.queue ++ [.deref k r.children] }

/-- `process_commits`: the oldest queued commit reaches the tables. -/
def processOne (s : PState K D) : Except Err (PState K D) :=
  match s.queue with
  | [] => .ok s
  | p :: q =>
    match p with
    | .insert k t n0 _ _ => .ok { s with heap := insertTreeAt s.variant s.heap n0 k t, queue := q }
    | .ref k =>
      match referenceTree s.variant s.heap k with
      | .ok h => .ok { s with heap := h, queue := q }
      | .error e => .error e
    | .deref k cs =>
      match derefProcess s.variant s.heap k cs with
      | .ok h => .ok { s with heap := h, queue := q }
      | .error e => .error e

def processAll : Nat → PState K D → Except Err (PState K D)
  | 0, s => .ok s
  | n + 1, s =>
    match processOne s with
    | .ok s' => processAll n s'
    | .error e => .error e

/-! ### Entry counting (`get_num_column_value_entries`) -/

/-- Largest packed size stored in a single slot: last fixed-size tier minus size field, rc field
    (ref-counted columns) and, for roots, the 26-byte partial key. -/
def maxSinglePart (v : Variant) (isRoot : Bool) : Nat :=
  Gen.MAX_ENTRY_SIZE - Gen.SIZE_SIZE - (if v = .rcRoots then Gen.REFS_SIZE else 0) -
    (if isRoot then Gen.PARTIAL_SIZE else 0)

def isMultipart (len : D → Nat) (v : Variant) (isRoot : Bool) (n : Node D) : Bool :=
  decide (Gen.packed_node_size (len n.data) (n.children.length % 256) > maxSinglePart v isRoot)

def countEntries (len : D → Nat) (s : PState K D) : Except Err Nat :=
  let ovs : List (FMap Addr (Node D)) := s.queue.filterMap (fun p => match p with
    | .insert _ _ _ _ ov => some ov
    | _ => none)
  let multi := !(s.heap.nodes.all (fun _ n => !isMultipart len s.variant false n)) ||
    ovs.any (fun ov => !(ov.all (fun _ n => !isMultipart len s.variant false n))) ||
    !(s.heap.roots.all (fun _ e => !isMultipart len s.variant true e.1))
  if multi then .error .invalidConfiguration
  else .ok (s.heap.nodes.size + (ovs.map FMap.size).sum + s.heap.roots.size)

/-! ## Transactions: `commit_changes` with several operations, literally

`DbInner::commit_changes` (src/db.rs)
  1. `validate_change` on EVERY operation, against the state before the call (`validateOps`,
     through `Pdb.Validate.validateChange`);
  2. the stored background error refuses the call (`TDb.commit`);
  3. the assembly loop (`asmOp`): InsertTree claims its node addresses (`claim_tree_values`:
     `claim_entries` pops the free-entry stack, then bumps the fill mark) and pushes
     `Set(key, root)` to `changes` and the NewValue / IncrementReference node changes to
     `node_changes`; ReferenceTree pushes `Reference(key)` to `changes` (nothing on append-only
     columns); DereferenceTree reads the root AS VISIBLE BEFORE THE CALL, bumps the
     `to_dereference` counter of the key and pushes `DereferenceChildren(key, children)`;
  4. `commit_raw_checked(commit, false)`: id counter + 1, the change set goes into the commit
     overlay and the queue.  (`commit_raw` itself - the raw interface - tests the background error;
     for `commit_changes` that second test was finding F44: an error stored during step 3 refused
     the call after the claims.  `TDb.commitWin`.)
`IndexedChangeSet::write_plan` (process_commits) plans in three passes, each in push order
(`applyChangeSet`): (1) the root `changes`, except the `Set`s of keys that also have a
`DereferenceChildren` in this change set (`ChangeSet.postponed`); (2) all `node_changes`; (3) the
postponed `Set`s.  So inside one transaction every root `Reference`, and every root `Set` of a key
that is not dereferenced by the transaction, is applied before every node write and before every
dereference walk, whatever the order of the operations was; the root of a tree that REPLACES a
tree dereferenced by the same transaction (`[DereferenceTree k, InsertTree k t']`) is written after
the walk has removed the old root.  Before the fix of finding F41 there were two passes, all
`changes` and then all `node_changes` (`applyChangeSetF41`): the `Set` then hit the OLD root (plain
column: the dereference removed the new root, the nodes of t' leaked; ref-counted column: the count
of the old root went up and down again, the nodes of t' leaked; `C10T_F41_plain` / `C10T_F41_rc`).

Addresses: one abstract address space per column.  `claimEntries` is `ValueTable::claim_entries`
(LIFO free stack first, then the fill mark `heap.next`); freed addresses are pushed by the
dereference walk in the order `clear_slot` is called (`derefChildrenF`).  Abstractions: the size
tiers (one stack per tier in the implementation), the assignment of the claimed slots to the new
nodes (parent-first per tier in `claim_node`; here in the order of `insRef`: children before
parent - the theorems hold for every order, Pdb/Proofs/DumpCheckRcOps.lean) and the root value
slots, which the implementation takes from the same stacks when a root is written. -/

/-- `okOr a r`: the result of an operation, or the unchanged state if it was rejected -/
def okOr {α : Type} (a : α) : Except Err α → α
  | .ok a' => a'
  | .error _ => a

/-- A tree operation of a transaction. -/
inductive Op (K D : Type) where
  | insert (k : K) (t : NewNode D)
  | reference (k : K)
  | dereference (k : K)

/-- `IndexedChangeSet::changes` of a multitree column -/
inductive RootChange (K D : Type) where
  | set (k : K) (root : Node D)       -- `Operation::Set(key, packed root)`
  | reference (k : K)                 -- `Operation::Reference(key)`

/-- `NodeChange` -/
inductive NodeChange (K D : Type) where
  | newValue (a : Addr) (n : Node D)
  | incRef (a : Addr)
  | derefChildren (k : K) (children : List Addr)

/-- `IndexedChangeSet` -/
structure ChangeSet (K D : Type) where
  changes : List (RootChange K D)
  nodeChanges : List (NodeChange K D)

def ChangeSet.empty : ChangeSet K D := ⟨[], []⟩

mutual
  /-- number of NEW nodes of a reference (= slots claimed) -/
  def NRef.news : NRef D → Nat
    | .new _ cs => cs.news + 1
    | .existing _ => 0
  def NRefs.news : NRefs D → Nat
    | .nil => 0
    | .cons r rs => r.news + rs.news
end

mutual
  /-- largest number of children of a NEW node of the reference -/
  def NRef.maxFan : NRef D → Nat
    | .new _ cs => max cs.length cs.maxFan
    | .existing _ => 0
  def NRefs.maxFan : NRefs D → Nat
    | .nil => 0
    | .cons r rs => max r.maxFan rs.maxFan
end

def NewNode.maxFan (t : NewNode D) : Nat := max t.children.length t.children.maxFan

mutual
  /-- `claim_node` / `claim_children_to_data` as data: the node changes of a reference, the rest of
      the supply of claimed addresses, the address of the node. -/
  def planRef (ap : Bool) (fresh : List Addr) : NRef D → List (NodeChange K D) × List Addr × Addr
    | .existing a => (if ap then [] else [.incRef a], fresh, a)
    | .new d cs =>
      match planRefs ap fresh cs with
      | (chs, f1, as) => (chs ++ [.newValue (f1.headD 0) ⟨d, as⟩], f1.tail, f1.headD 0)
  def planRefs (ap : Bool) (fresh : List Addr) :
      NRefs D → List (NodeChange K D) × List Addr × List Addr
    | .nil => ([], fresh, [])
    | .cons r rs =>
      match planRef ap fresh r with
      | (c1, f1, a) =>
        match planRefs ap f1 rs with
        | (c2, f2, as) => (c1 ++ c2, f2, a :: as)
end

/-- `ValueTable::claim_entries(n)`: (claimed addresses, free stack, fill mark). -/
def claimEntries : Nat → List Addr → Addr → List Addr × List Addr × Addr
  | 0, free, next => ([], free, next)
  | n + 1, a :: free, next =>
    match claimEntries n free next with
    | (c, f, nx) => (a :: c, f, nx)
  | n + 1, [], next =>
    match claimEntries n [] (next + 1) with
    | (c, f, nx) => (next :: c, f, nx)

/-- One multitree column. -/
structure TState (K D : Type) where
  variant : Variant
  heap : Heap K D                   -- tables; `heap.next` = fill mark (claimed slots included)
  free : List Addr                  -- free-entry stack, top first
  queue : List (ChangeSet K D)      -- queued commits, oldest first (= their commit overlay)
  toDeref : FMap K Nat              -- `Trees::to_dereference`: queued DereferenceTrees per root

def TState.init (v : Variant) : TState K D := ⟨v, Heap.empty, [], [], .empty⟩

def rootHit (k : K) : RootChange K D → Option (Node D)
  | .set k' r => if k' = k then some r else none
  | .reference _ => none

def nodeHit (a : Addr) : NodeChange K D → Option (Node D)
  | .newValue a' n => if a' = a then some n else none
  | _ => none

/-- what one queued commit put into the commit overlay (`copy_to_overlay`: the last `Set` of a
    key wins) -/
def csRoot (k : K) (cs : ChangeSet K D) : Option (Node D) := cs.changes.reverse.findSome? (rootHit k)
def csNode (a : Addr) (cs : ChangeSet K D) : Option (Node D) :=
  cs.nodeChanges.reverse.findSome? (nodeHit a)

def ovRootT (q : List (ChangeSet K D)) (k : K) : Option (Node D) := q.reverse.findSome? (csRoot k)
def ovNodeT (q : List (ChangeSet K D)) (a : Addr) : Option (Node D) := q.reverse.findSome? (csNode a)

/-- `get(col, key, false)`: commit overlay, then tables. -/
def TState.viewRoot (s : TState K D) (k : K) : Option (Node D) :=
  (ovRootT s.queue k).or ((s.heap.roots.get k).map Prod.fst)

/-- `get_node`: address overlay, then tables. -/
def TState.viewNode (s : TState K D) (a : Addr) : Option (Node D) :=
  (ovNodeT s.queue a).or (s.heap.nodes.get a)

/-! ### validation -/

def Variant.opts : Variant → Validate.ColOpts
  | .appendOnly => ⟨false, true, false, true⟩
  | .rcRoots => ⟨false, true, true, false⟩
  | .plain => ⟨false, true, false, false⟩

/-- what `validate_change` looks at -/
def Op.kind (view : K → Option (Node D)) : Op K D → Validate.OpKind
  | .insert _ t => .insertTree t.maxFan
  | .reference _ => .refTree
  | .dereference k => .derefTree (view k).isSome

def verdictRes : Validate.Verdict → Except Err Unit
  | .ok => .ok ()
  | .invalidInput => .error .invalidInput
  | .invalidConfiguration => .error .invalidConfiguration

/-- first phase of `commit_changes` on this column: the verdict of the first operation that is
    not ok -/
def validateOps (v : Variant) (view : K → Option (Node D)) : List (Op K D) → Validate.Verdict
  | [] => .ok
  | op :: ops =>
    match Validate.validateChange v.opts (op.kind view) with
    | .ok => validateOps v view ops
    | e => e

/-! ### assembly (claims, counters, change set) -/

/-- what the assembly loop has accumulated for one column -/
structure Asm (K D : Type) where
  free : List Addr
  next : Addr
  toDeref : FMap K Nat
  cs : ChangeSet K D

/-- one iteration of the loop of `commit_changes` (multitree branch).  DereferenceTree reads the
    root a second time (the first read was `validate_change`'s).  Since fix 485fed3 a root that is
    gone at the second read makes the operation the no-op it would have been, had the commit been
    queued before the DereferenceTree that removed the root was processed (before the fix: the error
    "No entry for tree root" AFTER the claims of the operations in front of it, finding F43).  In
    this one-step model the view cannot change between validation and assembly, so the branch is
    unreachable after `validateOps` (`asmOps_ok_of_valid`); the append-only branch likewise. -/
def asmOp (v : Variant) (view : K → Option (Node D)) (acc : Asm K D) : Op K D → Except Err (Asm K D)
  | .insert k t =>
    match claimEntries t.children.news acc.free acc.next with
    | (claimed, free', next') =>
      match planRefs (decide (v = .appendOnly)) claimed t.children with
      | (chs, _, as) =>
        .ok { free := free', next := next', toDeref := acc.toDeref,
              cs := ⟨acc.cs.changes ++ [.set k ⟨t.data, as⟩], acc.cs.nodeChanges ++ chs⟩ }
  | .reference k =>
    if v = .appendOnly then .ok acc
    else .ok { acc with cs := ⟨acc.cs.changes ++ [.reference k], acc.cs.nodeChanges⟩ }
  | .dereference k =>
    if v = .appendOnly then .error .invalidConfiguration
    else
      match view k with
      | none => .ok acc     -- no root at the second read: a no-op since fix 485fed3 (see above)
      | some r =>
        .ok { acc with toDeref := acc.toDeref.set k (some ((acc.toDeref.get k).getD 0 + 1)),
                       cs := ⟨acc.cs.changes, acc.cs.nodeChanges ++ [.derefChildren k r.children]⟩ }

/-- the loop: stops at the first error and keeps what was claimed / counted before it -/
def asmOps (v : Variant) (view : K → Option (Node D)) :
    Asm K D → List (Op K D) → Asm K D × Except Err Unit
  | acc, [] => (acc, .ok ())
  | acc, op :: ops =>
    match asmOp v view acc op with
    | .ok acc' => asmOps v view acc' ops
    | .error e => (acc, .error e)

def TState.asm0 (s : TState K D) : Asm K D := ⟨s.free, s.heap.next, s.toDeref, .empty⟩

/-- the claims / counters of an assembly written back, nothing queued -/
def TState.withAsm (s : TState K D) (a : Asm K D) : TState K D :=
  { s with heap := { s.heap with next := a.next }, free := a.free, toDeref := a.toDeref }

/-- `commit_changes` on a database with this one column and no background error: validate
    everything, assemble, queue.  The state is returned in every case (an error after validation
    would leave the claims of the earlier operations in place; `asmOps_ok_of_valid`,
    Pdb/Proofs/C10Tx.lean: it cannot happen here, the view does not change in between). -/
def TState.commit (s : TState K D) (ops : List (Op K D)) : TState K D × Except Err Unit :=
  match validateOps s.variant s.viewRoot ops with
  | .ok =>
    match asmOps s.variant s.viewRoot s.asm0 ops with
    | (a, .ok ()) => ({ s.withAsm a with queue := s.queue ++ [a.cs] }, .ok ())
    | (a, .error e) => (s.withAsm a, .error e)
  | e => (s, verdictRes e)

/-! ### processing (`process_commits` / `IndexedChangeSet::write_plan`) -/

def applyRootChange (v : Variant) (h : Heap K D) : RootChange K D → Heap K D
  | .set k root => { h with roots := h.roots.set k (some (rootEntry v (h.roots.get k) root)) }
  | .reference k => okOr h (referenceTree v h k)

/-- `derefStep` that also records the freed addresses (`clear_slot` pushes the slot on the
    free-entry stack before the walk descends into the children). -/
def derefStepF (rec : Heap K D × List Addr → List Addr → Except Err (Heap K D × List Addr))
    (hf : Heap K D × List Addr) (a : Addr) : Except Err (Heap K D × List Addr) :=
  let node := (hf.1.nodes.get a).map (·.children)
  match decRef hf.1 a with
  | (true, h1) => .ok (h1, hf.2)
  | (false, h1) =>
    match node with
    | some kids => rec (h1, a :: hf.2) kids
    | none => .error .invalidConfiguration

def derefChildrenF : Nat → Heap K D × List Addr → List Addr → Except Err (Heap K D × List Addr)
  | 0, _, _ => .error .outOfFuel
  | fuel + 1, hf, cs => cs.foldlM (derefStepF (derefChildrenF fuel)) hf

/-- `derefProcess` with the free-entry stack -/
def derefProcessF (v : Variant) (hf : Heap K D × List Addr) (k : K) (children : List Addr) :
    Except Err (Heap K D × List Addr) :=
  match hf.1.roots.get k with
  | none => .ok hf
  | some (r, c) =>
    if v = .rcRoots ∧ c > 1 then .ok ({ hf.1 with roots := hf.1.roots.set k (some (r, c - 1)) }, hf.2)
    else
      let h1 := { hf.1 with roots := hf.1.roots.set k none }
      derefChildrenF (walkFuel h1) (h1, hf.2) children

def applyNodeChange (v : Variant) (hf : Heap K D × List Addr) :
    NodeChange K D → Except Err (Heap K D × List Addr)
  | .newValue a n => .ok ({ hf.1 with nodes := hf.1.nodes.set a (some n) }, hf.2)
  | .incRef a => .ok (incRef hf.1 a, hf.2)
  | .derefChildren k cs => derefProcessF v hf k cs

def derefKey : NodeChange K D → Option K
  | .derefChildren k _ => some k
  | _ => none

/-- `write_plan` BEFORE the fix of finding F41: all `changes`, then all `node_changes`.  Kept as the
    "unfixed" variant: `TState.processF41`, witnesses `C10T_F41_plain` / `C10T_F41_rc`. -/
def applyChangeSetF41 (v : Variant) (hf : Heap K D × List Addr) (cs : ChangeSet K D) :
    Except Err (Heap K D × List Addr) :=
  cs.nodeChanges.foldlM (applyNodeChange v) (cs.changes.foldl (applyRootChange v) hf.1, hf.2)

/-- the set `dereferenced` of `write_plan`: the (hashed) key has a `DereferenceChildren` in this
    change set -/
def ChangeSet.dereferenced (cs : ChangeSet K D) (k : K) : Bool :=
  cs.nodeChanges.any (fun c => decide (derefKey c = some k))

/-- the closure `postponed` of `write_plan`: a root `Set` of a key whose current tree is
    dereferenced by the same change set ("replace the tree under the key") -/
def ChangeSet.postponed (cs : ChangeSet K D) : RootChange K D → Bool
  | .set k _ => cs.dereferenced k
  | .reference _ => false

/-- first pass over `changes` + the `node_changes` loop: the change set without the postponed Sets -/
def ChangeSet.early (cs : ChangeSet K D) : ChangeSet K D :=
  ⟨cs.changes.filter (fun c => !cs.postponed c), cs.nodeChanges⟩

/-- second pass over `changes` -/
def ChangeSet.late (cs : ChangeSet K D) : List (RootChange K D) := cs.changes.filter cs.postponed

/-- `write_plan` (fix of F41): the root changes that are not postponed, then all `node_changes`, then
    the postponed `Set`s, each pass in push order.  For a change set without a postponed `Set` (no
    InsertTree k together with a DereferenceTree k) this is `applyChangeSetF41`. -/
def applyChangeSet (v : Variant) (hf : Heap K D × List Addr) (cs : ChangeSet K D) :
    Except Err (Heap K D × List Addr) :=
  match applyChangeSetF41 v hf cs.early with
  | .ok (h, f) => .ok (cs.late.foldl (applyRootChange v) h, f)
  | .error e => .error e

/-- `to_dereference` bookkeeping of process_commits: one less per processed DereferenceChildren -/
def decToDeref (m : FMap K Nat) (k : K) : FMap K Nat :=
  m.set k (if (m.get k).getD 0 > 1 then some ((m.get k).getD 0 - 1) else none)

/-- `process_commits`: the oldest queued commit reaches the tables. -/
def TState.process (s : TState K D) : Except Err (TState K D) :=
  match s.queue with
  | [] => .ok s
  | cs :: q =>
    match applyChangeSet s.variant (s.heap, s.free) cs with
    | .ok (h, f) =>
      .ok { s with heap := h, free := f, queue := q,
                   toDeref := (cs.nodeChanges.filterMap derefKey).foldl decToDeref s.toDeref }
    | .error e => .error e

/-- `process_commits` with the planning order before the fix of F41 -/
def TState.processF41 (s : TState K D) : Except Err (TState K D) :=
  match s.queue with
  | [] => .ok s
  | cs :: q =>
    match applyChangeSetF41 s.variant (s.heap, s.free) cs with
    | .ok (h, f) =>
      .ok { s with heap := h, free := f, queue := q,
                   toDeref := (cs.nodeChanges.filterMap derefKey).foldl decToDeref s.toDeref }
    | .error e => .error e

def TState.processAll : Nat → TState K D → Except Err (TState K D)
  | 0, s => .ok s
  | n + 1, s =>
    match s.process with
    | .ok s' => TState.processAll n s'
    | .error e => .error e

def isNewValue : NodeChange K D → Bool
  | .newValue _ _ => true
  | _ => false

def newNodeOf : NodeChange K D → Option (Node D)
  | .newValue _ n => some n
  | _ => none

/-- `get_num_column_value_entries`: table nodes + claimed slots of queued commits + root slots;
    an error while any multipart entry exists. -/
def TState.countEntries (len : D → Nat) (s : TState K D) : Except Err Nat :=
  let claimed : List (Node D) := s.queue.flatMap (fun cs => cs.nodeChanges.filterMap newNodeOf)
  let multi := !(s.heap.nodes.all (fun _ n => !isMultipart len s.variant false n)) ||
    claimed.any (fun n => isMultipart len s.variant false n) ||
    !(s.heap.roots.all (fun _ e => !isMultipart len s.variant true e.1))
  if multi then .error .invalidConfiguration
  else .ok (s.heap.nodes.size + claimed.length + s.heap.roots.size)

/-! ### the database: several columns, commit id counter, stored background error -/

/-- A plain hash column (no counting): enough to put key-value operations, valid and invalid,
    into the same transaction as tree operations. -/
structure KvCol (K D : Type) where
  table : FMap K D
  queue : List (List (K × Option D))       -- queued commits: Set / Dereference per key

inductive Col (K D : Type) where
  | tree (s : TState K D)
  | kv (c : KvCol K D)

def Col.opts : Col K D → Validate.ColOpts
  | .tree s => s.variant.opts
  | .kv _ => ⟨false, false, false, false⟩

structure TDb (K D : Type) where
  cols : List (Col K D)
  nextId : Nat                 -- `CommitQueue::record_id`
  bgErr : Bool                 -- `bg_err` is set

/-- `Operation` -/
inductive DbOp (K D : Type) where
  | set (k : K) (v : D)
  | del (k : K)
  | ref (k : K)
  | tree (op : Op K D)

def Col.view : Col K D → K → Option (Node D)
  | .tree s => s.viewRoot
  | .kv _ => fun _ => none

def DbOp.kind (view : K → Option (Node D)) : DbOp K D → Validate.OpKind
  | .set _ _ => .set
  | .del _ => .deref
  | .ref _ => .ref
  | .tree op => op.kind view

/-- the `OpKind` of operation `op` on column `c` of `db` (no column: any view will do, the
    verdict is InvalidInput) -/
def TDb.kindAt (db : TDb K D) (c : Nat) (op : DbOp K D) : Validate.OpKind :=
  op.kind ((db.cols[c]?.map Col.view).getD (fun _ => none))

/-- phase 1 of `commit_changes`: `validate_change` on every operation -/
def TDb.validate (db : TDb K D) (tx : List (Nat × DbOp K D)) : Validate.Verdict :=
  Validate.validateTx (db.cols.map Col.opts) (tx.map (fun cop => (cop.1, db.kindAt cop.1 cop.2)))

/-- per column: what the assembly loop has built so far -/
inductive ColAcc (K D : Type) where
  | tree (a : Asm K D)
  | kv (l : List (K × Option D))

def Col.acc0 : Col K D → ColAcc K D
  | .tree s => .tree s.asm0
  | .kv _ => .kv []

/-- one iteration of the assembly loop of `commit_changes` -/
def asmDbOp (db : TDb K D) (accs : List (ColAcc K D)) (c : Nat) (op : DbOp K D) :
    Except Err (List (ColAcc K D)) :=
  match db.cols[c]?, accs[c]?, op with
  | some (.tree s), some (.tree a), .tree top =>
    match asmOp s.variant s.viewRoot a top with
    | .ok a' => .ok (accs.set c (.tree a'))
    | .error e => .error e
  | some (.tree _), _, _ => .error .invalidConfiguration   -- "Invalid operation for multitree column"
  | some (.kv _), some (.kv l), .set k v => .ok (accs.set c (.kv (l ++ [(k, some v)])))
  | some (.kv _), some (.kv l), .del k => .ok (accs.set c (.kv (l ++ [(k, none)])))
  | some (.kv _), some (.kv l), .ref _ => .ok (accs.set c (.kv l))   -- refused by copy_to_overlay
  | _, _, _ => .error .invalidInput

def asmDb (db : TDb K D) :
    List (ColAcc K D) → List (Nat × DbOp K D) → List (ColAcc K D) × Except Err Unit
  | accs, [] => (accs, .ok ())
  | accs, (c, op) :: tx =>
    match asmDbOp db accs c op with
    | .ok accs' => asmDb db accs' tx
    | .error e => (accs, .error e)

/-- claims / counters written back, nothing queued -/
def Col.withAcc : Col K D → ColAcc K D → Col K D
  | .tree s, .tree a => .tree (s.withAsm a)
  | c, _ => c

/-- claims / counters written back and the change set queued (`commit_raw`) -/
def Col.pushAcc : Col K D → ColAcc K D → Col K D
  | .tree s, .tree a => .tree { s.withAsm a with queue := s.queue ++ [a.cs] }
  | .kv c, .kv l => .kv { c with queue := c.queue ++ [l] }
  | c, _ => c

def zipCols (f : Col K D → ColAcc K D → Col K D) : List (Col K D) → List (ColAcc K D) → List (Col K D)
  | c :: cs, a :: as => f c a :: zipCols f cs as
  | cs, _ => cs

inductive Res where
  | ok
  | err (e : Err)
deriving DecidableEq, Repr

/-- `commit_changes` + `commit_raw_checked(_, false)` in the FIXED order (HEAD, after ba82c54 /
    d908c4b / f67544a / the fix of F44): validate all, test the background error ONCE, then claim /
    count / assemble, then queue.
    (T0 order obligations `commitChanges_validate_before_claim`, `commitChanges_bgerr_before_claim`
    tie this order to the source, Pdb/Proofs/Order.lean.) -/
def TDb.commit (db : TDb K D) (tx : List (Nat × DbOp K D)) : TDb K D × Res :=
  match db.validate tx with
  | .ok =>
    if db.bgErr then (db, .err .background)
    else
      match asmDb db (db.cols.map Col.acc0) tx with
      | (accs, .ok ()) => ({ db with cols := zipCols Col.pushAcc db.cols accs, nextId := db.nextId + 1 }, .ok)
      | (accs, .error e) => ({ db with cols := zipCols Col.withAcc db.cols accs }, .err e)
  | .invalidInput => (db, .err .invalidInput)
  | .invalidConfiguration => (db, .err .invalidConfiguration)

/-- the order BEFORE f67544a (defect F23): the background error is only tested in `commit_raw`,
    after the claims -/
def TDb.commitF23 (db : TDb K D) (tx : List (Nat × DbOp K D)) : TDb K D × Res :=
  match db.validate tx with
  | .ok =>
    match asmDb db (db.cols.map Col.acc0) tx with
    | (accs, .ok ()) =>
      if db.bgErr then ({ db with cols := zipCols Col.withAcc db.cols accs }, .err .background)
      else ({ db with cols := zipCols Col.pushAcc db.cols accs, nextId := db.nextId + 1 }, .ok)
    | (accs, .error e) => ({ db with cols := zipCols Col.withAcc db.cols accs }, .err e)
  | .invalidInput => (db, .err .invalidInput)
  | .invalidConfiguration => (db, .err .invalidConfiguration)

/-- `commit_changes` with a background error stored WHILE the call runs: `stored` = a worker stores
    an error after the first test of `bg_err`, i.e. while the change set is assembled (a call that
    is rejected by validation or refused by an error stored BEFORE it returns in front of that
    window).
    `second = false` is HEAD (fix of finding F44: `commit_changes` calls
    `commit_raw_checked(commit, false)`, the second test of `bg_err`, the one of `commit_raw`, does
    not exist for it): the error is concurrent with the call, which is accepted as if it had been
    queued just before the error (`TDb.commitConc`, `C08_db_concurrent_error`).
    `second = true` is the order before that fix (`TDb.commitF44`): `commit_raw` tests `bg_err`
    again and refuses the call AFTER the claims of the assembly loop. -/
def TDb.commitWin (second : Bool) (db : TDb K D) (tx : List (Nat × DbOp K D)) (stored : Bool) :
    TDb K D × Res :=
  match db.validate tx with
  | .ok =>
    if db.bgErr then (db, .err .background)
    else
      match asmDb db (db.cols.map Col.acc0) tx with
      | (accs, .ok ()) =>
        if second && stored then
          ({ db with cols := zipCols Col.withAcc db.cols accs, bgErr := true }, .err .background)
        else
          ({ db with cols := zipCols Col.pushAcc db.cols accs, nextId := db.nextId + 1,
                     bgErr := stored }, .ok)
      | (accs, .error e) =>
        ({ db with cols := zipCols Col.withAcc db.cols accs, bgErr := stored }, .err e)
  | .invalidInput => (db, .err .invalidInput)
  | .invalidConfiguration => (db, .err .invalidConfiguration)

/-- HEAD: no second test of the background error in `commit_changes` -/
def TDb.commitConc (db : TDb K D) (tx : List (Nat × DbOp K D)) (stored : Bool) : TDb K D × Res :=
  db.commitWin false tx stored

/-- the order BEFORE the fix of finding F44: the test of `commit_raw` refuses after the claims -/
def TDb.commitF44 (db : TDb K D) (tx : List (Nat × DbOp K D)) (stored : Bool) : TDb K D × Res :=
  db.commitWin true tx stored

/-- validation interleaved with the assembly loop (the order BEFORE ba82c54 / d908c4b, defect F1):
    an operation is checked when the loop reaches it, after the claims of the earlier ones -/
def asmDbF1 (db : TDb K D) :
    List (ColAcc K D) → List (Nat × DbOp K D) → List (ColAcc K D) × Res
  | accs, [] => (accs, .ok)
  | accs, (c, op) :: tx =>
    match Validate.validateAt (db.cols.map Col.opts) c (db.kindAt c op) with
    | .ok =>
      match asmDbOp db accs c op with
      | .ok accs' => asmDbF1 db accs' tx
      | .error e => (accs, .err e)
    | .invalidInput => (accs, .err .invalidInput)
    | .invalidConfiguration => (accs, .err .invalidConfiguration)

def TDb.commitF1 (db : TDb K D) (tx : List (Nat × DbOp K D)) : TDb K D × Res :=
  match asmDbF1 db (db.cols.map Col.acc0) tx with
  | (accs, .ok) =>
    if db.bgErr then ({ db with cols := zipCols Col.withAcc db.cols accs }, .err .background)
    else ({ db with cols := zipCols Col.pushAcc db.cols accs, nextId := db.nextId + 1 }, .ok)
  | (accs, e) => ({ db with cols := zipCols Col.withAcc db.cols accs }, e)

def KvCol.process (c : KvCol K D) : KvCol K D :=
  match c.queue with
  | [] => c
  | l :: q => ⟨l.foldl (fun t kv => t.set kv.1 kv.2) c.table, q⟩

def Col.process : Col K D → Except Err (Col K D)
  | .tree s => s.process.map Col.tree
  | .kv c => .ok (.kv c.process)

/-- `process_commits`: the oldest commit reaches the tables of every column (every commit has
    queued one entry per column) -/
def TDb.process (db : TDb K D) : Except Err (TDb K D) :=
  (db.cols.mapM Col.process).map (fun cols => { db with cols := cols })

def KvCol.get (c : KvCol K D) (k : K) : Option D :=
  match c.queue.reverse.findSome? (fun l => l.reverse.findSome? (fun kv => if kv.1 = k then some kv.2 else none)) with
  | some v => v
  | none => c.table.get k

/-! ### Driver (K = D = String)

The `c10` command runs the transactional database model `TDb` (one or several columns).  The
functions `resolvePath` / `parseTree` / `renderTree` / `pstep` over the one-operation pipeline
state `PState` are kept: the crash driver (Pdb/Model/C02xDriver.lean) uses them. -/

abbrev DState := Option (TDb String String)

/-- value token `v<len>_<seed>` -/
def tokLen (v : String) : Nat :=
  ((((v.drop 1).toString).splitOn "_").headD "").toNat!

def parsePath (s : String) : Option (String × List Nat) :=
  match s.splitOn "/" with
  | key :: idx =>
    if idx.isEmpty then none
    else (idx.mapM (fun (x : String) => x.toNat?)).map (fun is => (key, is))
  | [] => none

/-- Follow a logical path through a root view and a node view. -/
def resolvePathV (vr : String → Option (Node String)) (vn : Addr → Option (Node String))
    (key : String) (idx : List Nat) : Option Addr :=
  match vr key, idx with
  | some r, i :: rest =>
    rest.foldlM (fun a j => (vn a).bind (fun n => n.children[j]?)) =<< r.children[i]?
  | _, _ => none

def resolvePath (s : PState String String) (key : String) (idx : List Nat) : Option Addr :=
  resolvePathV (viewRoot s) (viewNode s) key idx

mutual
  /-- Parse one subtree from the token stream (pre-order). -/
  def parseRefV (res : String → List Nat → Option Addr) :
      Nat → List String → Option (NRef String × List String)
    | 0, _ => none
    | _ + 1, [] => none
    | fuel + 1, tok :: rest =>
      if tok.startsWith "@" then
        match parsePath (tok.drop 1).toString with
        | some (key, idx) => (res key idx).map (fun a => (.existing a, rest))
        | none => none
      else if tok.startsWith "#" then
        -- a literal address (scenario "dangling Existing": an address that names no node)
        ((tok.drop 1).toString.toNat?).map (fun a => (.existing a, rest))
      else if tok.startsWith "n" then
        match ((tok.drop 1).toString).splitOn ":" with
        | [k, d] =>
          match k.toNat? with
          | some k => (parseRefsV res fuel k rest).map (fun (cs, rest') => (.new d cs, rest'))
          | none => none
        | _ => none
      else none
  def parseRefsV (res : String → List Nat → Option Addr) :
      Nat → Nat → List String → Option (NRefs String × List String)
    | 0, _, _ => none
    | _ + 1, 0, toks => some (.nil, toks)
    | fuel + 1, k + 1, toks =>
      match parseRefV res fuel toks with
      | some (r, rest) => (parseRefsV res fuel k rest).map (fun (rs, rest') => (.cons r rs, rest'))
      | none => none
end

def parseTreeV (res : String → List Nat → Option Addr) (toks : List String) :
    Option (NewNode String) :=
  match parseRefV res (2 * toks.length + 2) toks with
  | some (.new d cs, []) => some ⟨d, cs⟩
  | _ => none

def parseTree (s : PState String String) (toks : List String) : Option (NewNode String) :=
  parseTreeV (resolvePath s) toks

def showNode : Option (Node String) → String
  | none => "none"
  | some n => s!"some {n.data} {n.children.length}"

def renderNode (view : Addr → Option (Node String)) : Nat → Addr → String
  | 0, _ => "!"
  | fuel + 1, a =>
    match view a with
    | none => "?"
    | some n => "(" ++ n.data ++ String.join (n.children.map (fun c => " " ++ renderNode view fuel c)) ++ ")"

def renderTreeV (vr : String → Option (Node String)) (vn : Addr → Option (Node String))
    (fuel : Nat) (k : String) : String :=
  match vr k with
  | none => "none"
  | some r =>
    "some (" ++ r.data ++
      String.join (r.children.map (fun c => " " ++ renderNode vn fuel c)) ++ ")"

def renderTree (s : PState String String) (k : String) : String :=
  renderTreeV (viewRoot s) (viewNode s) (s.heap.next + 1) k

def showRes (r : Except Err (PState String String)) (s : PState String String) :
    PState String String × String :=
  match r with
  | .ok s' => (s', "ok")
  | .error e => (s, e.show)

def parseVariant : String → Option Variant
  | "append_only" => some .appendOnly
  | "rc" => some .rcRoots
  | "plain" => some .plain
  | _ => none

/-- the one-operation pipeline driver (kept for reference; `step` below runs `TDb`) -/
def pstep (s : PState String String) : List String → PState String String × String
  | "insert" :: key :: toks =>
    match parseTree s toks with
    | some t => showRes (commitInsert s key t) s
    | none => (s, "bad-op")
  | ["ref", key] => showRes (commitRef s key) s
  | ["deref", key] => showRes (commitDeref s key) s
  | ["process"] => showRes (processOne s) s
  | ["flush"] => (s, "ok")
  | ["enact"] => (s, "ok")
  | ["clean"] => (s, "ok")
  | ["reopen"] => showRes (processAll s.queue.length s) s
  | ["root", key] => (s, showNode (viewRoot s key))
  | ["node", path] =>
    match parsePath path with
    | some (key, idx) => (s, showNode ((resolvePath s key idx).bind (viewNode s)))
    | none => (s, "bad-op")
  | ["tree", key] => (s, renderTree s key)
  | ["count"] =>
    match countEntries tokLen s with
    | .ok n => (s, toString n)
    | .error e => (s, e.show)
  | _ => (s, "bad-op")

/-! #### the transactional driver -/

abbrev TS := TState String String
abbrev DB := TDb String String

def parseCol : String → Option (Col String String)
  | "kv" => some (.kv ⟨.empty, []⟩)
  | s => (parseVariant s).map (fun v => .tree (TState.init v))

/-- `<col>:<key>` or `<key>` (column 0) -/
def splitCol (s : String) : Option (Nat × String) :=
  match s.splitOn ":" with
  | [k] => some (0, k)
  | [c, k] => c.toNat?.map (fun c => (c, k))
  | _ => none

def treeCol (db : DB) (c : Nat) : Option TS :=
  match db.cols[c]? with
  | some (.tree s) => some s
  | _ => none

def TS.resolve (s : TS) (key : String) (idx : List Nat) : Option Addr :=
  resolvePathV s.viewRoot s.viewNode key idx

/-- one operation of a `tx` line: `<col> insert <key> <tok>...` | `<col> ref <key>` |
    `<col> deref <key>` | `<col> set <key> <val>` | `<col> del <key>` | `<col> kref <key>` -/
def parseDbOp (db : DB) : List String → Option (Nat × DbOp String String)
  | c :: "insert" :: key :: toks =>
    match c.toNat? with
    | some c =>
      -- `Existing` paths are resolved in the column of the operation, as visible before the call
      let res := match treeCol db c with
        | some s => s.resolve
        | none => fun _ _ => none
      (parseTreeV res toks).map (fun t => (c, .tree (.insert key t)))
    | none => none
  | [c, "ref", key] => c.toNat?.map (fun c => (c, .tree (.reference key)))
  | [c, "deref", key] => c.toNat?.map (fun c => (c, .tree (.dereference key)))
  | [c, "set", key, v] => c.toNat?.map (fun c => (c, .set key v))
  | [c, "del", key] => c.toNat?.map (fun c => (c, .del key))
  | [c, "kref", key] => c.toNat?.map (fun c => (c, .ref key))
  | _ => none

/-- split a token list at the ";" tokens -/
def splitSemi : List String → List (List String)
  | [] => [[]]
  | t :: rest =>
    match splitSemi rest with
    | cur :: more => if t = ";" then [] :: cur :: more else (t :: cur) :: more
    | [] => [[t]]

def Res.show : Res → String
  | .ok => "ok"
  | .err e => e.show

def dbCommit (db : DB) (ops : List (List String)) : DB × String :=
  match ops.mapM (parseDbOp db) with
  | some tx => let (db', r) := db.commit tx; (db', r.show)
  | none => (db, "bad-op")

def dbProcessAll : Nat → DB → Except Err DB
  | 0, db => .ok db
  | n + 1, db =>
    match db.process with
    | .ok db' => dbProcessAll n db'
    | .error e => .error e

def Col.queueLen : Col String String → Nat
  | .tree s => s.queue.length
  | .kv c => c.queue.length

def dbStep (db : DB) : List String → DB × String
  | "tx" :: rest => dbCommit db (splitSemi rest)
  | "insert" :: key :: toks => dbCommit db [("0" :: "insert" :: key :: toks)]
  | ["ref", key] => dbCommit db [["0", "ref", key]]
  | ["deref", key] => dbCommit db [["0", "deref", key]]
  | ["bgerr"] => ({ db with bgErr := true }, "ok")
  | ["process"] =>
    match db.process with
    | .ok db' => (db', "ok")
    | .error e => (db, e.show)
  | ["flush"] => (db, "ok")
  | ["enact"] => (db, "ok")
  | ["clean"] => (db, "ok")
  | ["reindex"] => (db, "ok")
  | ["reopen"] =>
    match dbProcessAll ((db.cols.map Col.queueLen).foldl max 0) db with
    | .ok db' => ({ db' with bgErr := false }, "ok")
    | .error e => (db, e.show)
  | ["root", ck] =>
    match (splitCol ck).bind (fun (c, k) => (treeCol db c).map (fun s => showNode (s.viewRoot k))) with
    | some o => (db, o)
    | none => (db, "bad-op")
  | ["node", cpath] =>
    match splitCol cpath with
    | some (c, path) =>
      match treeCol db c, parsePath path with
      | some s, some (key, idx) => (db, showNode ((s.resolve key idx).bind s.viewNode))
      | _, _ => (db, "bad-op")
    | none => (db, "bad-op")
  | ["tree", ck] =>
    match (splitCol ck).bind (fun (c, k) => (treeCol db c).map (fun s =>
        renderTreeV s.viewRoot s.viewNode
          (s.heap.nodes.size + (s.queue.map (fun cs => cs.nodeChanges.length)).sum + 1) k)) with
    | some o => (db, o)
    | none => (db, "bad-op")
  | ["count"] =>
    match treeCol db 0 with
    | some s =>
      match s.countEntries tokLen with
      | .ok n => (db, toString n)
      | .error e => (db, e.show)
    | none => (db, "bad-op")
  | ["count", c] =>
    match c.toNat?.bind (treeCol db) with
    | some s =>
      match s.countEntries tokLen with
      | .ok n => (db, toString n)
      | .error e => (db, e.show)
    | none => (db, "bad-op")
  | ["get", ck] =>
    match splitCol ck with
    | some (c, k) =>
      match db.cols[c]? with
      | some (.kv kc) => (db, match kc.get k with | some v => "some " ++ v | none => "none")
      | _ => (db, "bad-op")
    | none => (db, "bad-op")
  | ["nextid"] => (db, toString db.nextId)
  | _ => (db, "bad-op")

/-- Driver entry point: `c10 <args>`. -/
def step (st : DState) (args : List String) : DState × String :=
  match args with
  | "init" :: vs =>
    match vs.mapM parseCol with
    | some cols => if cols.isEmpty then (st, "bad-op") else (some ⟨cols, 0, false⟩, "ok")
    | none => (st, "bad-op")
  | _ =>
    match st with
    | some db => let (db', out) := dbStep db args; (some db', out)
    | none => (st, "bad-op")

end Pdb.MultiTree
