/-
C10  "A committed tree reads back exactly; shared nodes live until unreferenced"
     (src/multitree.rs, column.rs, db.rs, ref_count.rs; model Pdb/Model/MultiTree.lean)

Layers
  P3  node packing: `packNode` / `unpackNode`                       theorems (1)-(3)
  P2  heap of nodes with explicit reference counts (`Heap`), the three tree operations
      executed atomically (claim + process)                         theorems (4)-(11)
  P1' commit pipeline of the operations (`PState`: addresses claimed and overlay filled when the
      commit returns, table effects in process_commits): for every schedule the pipeline state
      shows exactly the trees of the atomic heap and equals it once drained   theorems (12)-(13)

  P1'' transactions (several operations per commit, one planning order - the one of the FIXED
      `write_plan`, finding F41), LIFO free-entry stack (address reuse), ref-count table growth
                                                                    theorems (14)-(21), second half
      of the file; the model the `c10` driver runs

Quantification: every variant, every heap satisfying `Inv` (in particular every heap reachable
by a legal history, theorem (4)), every key type with decidable equality, every data type,
every tree shape (the mutual inductive `NRef` / `NRefs`: any depth, any fan-out, any sharing:
`Existing a` may name any present node any number of times).

Hypotheses that carry the property's side conditions:
  * `h.roots.get k = none` for InsertTree: live root keys are distinct;
  * `t.children.live h`: every `Existing` address names a present node (a node of a live tree,
    by theorem (8));
  * `v ≠ .appendOnly` wherever counting matters (append-only columns never count or remove).
-/
import Pdb.Proofs.C10Pack
import Pdb.Proofs.C10Stage
import Pdb.Proofs.C10TxSim
import Pdb.Proofs.C10TxInv
import Pdb.Proofs.C10TxWitness
import Pdb.Proofs.C10RcTables
import Pdb.Proofs.C10TxRead

namespace Pdb.MultiTree
set_option linter.unusedSectionVars false
variable {K D : Type} [DecidableEq K]

/-! ## P3: packing -/

/-- (1) A node with at most 255 children and u64 child addresses unpacks to exactly what was
packed (`unpack_node_data ∘ claim_node`). -/
theorem C10_unpack_pack_thm (d cs : List Nat) (hn : cs.length ≤ 255) (hc : ∀ a ∈ cs, a < 2 ^ 64) :
    unpackNode (packNode d cs) = .ok (d, cs) :=
  C10_unpack_pack d cs hn hc

example : unpackNode (packNode [1, 2, 3] [258, 2 ^ 64 - 1]) = .ok ([1, 2, 3], [258, 2 ^ 64 - 1]) :=
  C10_unpack_pack_thm [1, 2, 3] [258, 2 ^ 64 - 1] (by decide) (by decide)

/-- (2) Why `validate_change` must reject more than 255 children: with 256 children the count
byte (`children.len() as u8`) is 0 and the stored bytes parse as a childless node whose data
swallowed the 2048 address bytes - never as what was inserted (pre-finding F2). -/
theorem C10_pack_256_wrong (d cs : List Nat) (hn : cs.length = 256) :
    unpackNode (packNode d cs) = .ok (d ++ cs.flatMap u64le, []) ∧
    unpackNode (packNode d cs) ≠ .ok (d, cs) := by
  have h := unpack_pack_wrapped d cs (by omega)
  refine ⟨h, ?_⟩
  rw [h]
  intro e
  simp only [Except.ok.injEq, Prod.mk.injEq] at e
  have : cs.length = 0 := by rw [← e.2]; rfl
  omega

example : (List.replicate 256 7).length = 256 := List.length_replicate
example := C10_pack_256_wrong [1] (List.replicate 256 7) List.length_replicate

/-- (3) The packed length is `packed_node_size` as generated from column.rs. -/
theorem C10_packed_size (d cs : List Nat) (hn : cs.length ≤ 255) (hd : d.length < 2 ^ 63) :
    (packNode d cs).length = Gen.packed_node_size d.length (cs.length % 256) :=
  packNode_size d cs hn hd

example : (packNode [1, 2, 3] [258, 5]).length = Gen.packed_node_size 3 2 := by decide

/-! ## P2: histories of tree operations -/

/-- (4) RcInv is an invariant of every operation, hence of every legal history from the empty
column: maps well formed, children older than parents, no dangling child reference, root counts
≥ 1, and on every counting variant
    count(a) = number of references to a from present nodes and from roots, with multiplicity,
with ref-count table entries only for counts ≥ 2 of present nodes. -/
theorem C10_RcInv (v : Variant) (ops : List (Op K D)) (hl : LegalRun v Heap.empty ops) :
    let h := runOps v (Heap.empty : Heap K D) ops
    Inv v h ∧
    (v ≠ .appendOnly → ∀ a, present h a → h.count a = nodeRefs h a + rootRefs h a) ∧
    (v ≠ .appendOnly → ∀ a c, h.rc.get a = some c → 2 ≤ c ∧ present h a) := by
  have key : ∀ (ops : List (Op K D)) (h : Heap K D), Inv v h → LegalRun v h ops →
      Inv v (runOps v h ops) := by
    intro ops
    induction ops with
    | nil => intro h hi _; exact hi
    | cons op ops ih =>
      intro h hi hl
      exact ih _ (stepOp_inv v h op hi hl.1) hl.2
  have hi := key ops Heap.empty (Inv.empty v) hl
  refine ⟨hi, ?_, ?_⟩
  · intro hv a ha
    have := (hi.counts hv).rcEq a ha
    simpa [refs] using this
  · intro hv a c hg
    exact (hi.counts hv).rcEntries a c hg

/-- (4a-c) the single-operation forms. -/
theorem C10_RcInv_insert (v : Variant) (h h' : Heap K D) (k : K) (t : NewNode D) (hi : Inv v h)
    (hl : t.children.live h) (hk : h.roots.get k = none) (he : insertTree v h k t = .ok h') :
    Inv v h' := insertTree_inv v h h' k t hi hl hk he

theorem C10_RcInv_reference (v : Variant) (h h' : Heap K D) (k : K) (hi : Inv v h)
    (he : referenceTree v h k = .ok h') : Inv v h' := referenceTree_inv v h h' k hi he

theorem C10_RcInv_dereference (v : Variant) (h h' : Heap K D) (k : K) (hi : Inv v h)
    (he : dereferenceTree v h k = .ok h') : Inv v h' := by
  have := stepOp_inv v h (.dereference k) hi trivial
  simpa [stepOp, applyOp, he, okOr] using this

/-- (5) Read back.  After an accepted InsertTree the root, looked up by its key, and every
descendant read back with exactly the data and child order supplied; a child given as
`Existing a` reads as the subtree that `a` named in the heap before; the result exists
(`isSome`); every other tree reads as before. -/
theorem C10_read_back (v : Variant) (h h' : Heap K D) (k : K) (t : NewNode D) (hi : Inv v h)
    (hl : t.children.live h) (hk : h.roots.get k = none) (he : insertTree v h k t = .ok h') :
    readTree h' k = (t.children.expand (readAt h.nodes.get)).map (LTree.node t.data) ∧
    (readTree h' k).isSome = true ∧
    (∀ k', k' ≠ k → readTree h' k' = readTree h k') := by
  simp only [insertTree] at he
  split at he
  · simp only [Except.ok.injEq] at he
    subst he
    have sp := insertTreeAt_spec v h h.next k t hi.shape hi.below hl hk hi.counts
    simp only at sp
    have ok := insRefs_ok (decide (v = .appendOnly)) t.children h h.next hi.shape hi.below hl
    have rd := insRefs_read (decide (v = .appendOnly)) t.children h h.next hi.shape hi.below hl
    rcases hR : insRefs (decide (v = .appendOnly)) h h.next t.children with ⟨h1, n1, as⟩
    simp only [hR] at sp ok rd
    obtain ⟨heq, hshape, hbelow, _⟩ := sp
    have hread : ∀ c, c < n1 →
        readNode (insertTreeAt v h h.next k t).nodes.get (insertTreeAt v h h.next k t).next c =
          readAt h1.nodes.get c := by
      intro c hc
      rw [readNode_fuel _ hshape.acyclicView _ _ c (Nat.le_refl _)
        (by rw [heq]; exact Nat.lt_of_lt_of_le hc (Nat.le_max_right _ _))]
      rw [heq]
    have hfirst : readTree (insertTreeAt v h h.next k t) k =
        (t.children.expand (readAt h.nodes.get)).map (LTree.node t.data) := by
      rw [← rd]
      simp only [readTree]
      rw [heq]
      simp only [FMap.get_set, if_true]
      congr 1
      apply mapOpt_congr
      intro c hc
      have := hread c (ok.below c (ok.res c hc))
      rw [heq] at this
      exact this
    refine ⟨hfirst, ?_, ?_⟩
    · rw [hfirst]
      have := NRefs.expand_isSome h (readAt h.nodes.get)
        (fun x hx => readAt_total h hi.shape x x (Nat.le_refl _) hx) t.children hl
      obtain ⟨ts, hts⟩ := Option.isSome_iff_exists.mp this
      simp [hts]
    · intro k' hk'
      simp only [readTree]
      rw [heq]
      simp only [FMap.get_set, hk', if_false, ok.roots]
      cases hg : h.roots.get k' with
      | none => rfl
      | some e =>
        simp only
        congr 1
        apply mapOpt_congr
        intro c hc
        have hpc : present h c := hi.shape.closedR k' e hg c hc
        have hcn : c < h.next := hi.below c hpc
        have h1' := hread c (Nat.lt_of_lt_of_le hcn ok.mono)
        rw [heq] at h1'
        rw [h1', readNode_fuel _ hi.shape.acyclicView _ _ c (Nat.le_refl _) hcn]
        exact readAt_agree _ _ ok.shape.acyclicView h.next ok.frame c hcn
  · cases he

mutual
  /-- some NEW node of the reference has more than 255 children -/
  def NRef.tooWide : NRef D → Prop
    | .new _ cs => MAX_CHILDREN < cs.length ∨ cs.tooWide
    | .existing _ => False
  def NRefs.tooWide : NRefs D → Prop
    | .nil => False
    | .cons r rs => r.tooWide ∨ rs.tooWide
end

mutual
  theorem NRef.valid_iff : ∀ r : NRef D, r.valid = true ↔ ¬ r.tooWide
    | .new _ cs => by
      simp only [NRef.valid, NRef.tooWide, Bool.and_eq_true, decide_eq_true_eq,
        NRefs.valid_iff cs, not_or, Nat.not_lt]
    | .existing _ => by simp [NRef.valid, NRef.tooWide]
  theorem NRefs.valid_iff : ∀ rs : NRefs D, rs.valid = true ↔ ¬ rs.tooWide
    | .nil => by simp [NRefs.valid, NRefs.tooWide]
    | .cons r rs => by
      simp only [NRefs.valid, NRefs.tooWide, Bool.and_eq_true, NRef.valid_iff r,
        NRefs.valid_iff rs, not_or]
end

/-- (6) An insertion that cannot be represented is rejected: if the root or any new node has
more than 255 children InsertTree fails with InvalidInput (mirror of `validate_change`; nothing
is claimed or stored); every other insertion is accepted. -/
theorem C10_reject_unrepresentable (v : Variant) (h : Heap K D) (k : K) (t : NewNode D) :
    (MAX_CHILDREN < t.children.length ∨ t.children.tooWide →
      insertTree v h k t = .error .invalidInput) ∧
    (¬ (MAX_CHILDREN < t.children.length ∨ t.children.tooWide) →
      ∃ h', insertTree v h k t = .ok h') := by
  have hv : t.valid = true ↔ ¬ (MAX_CHILDREN < t.children.length ∨ t.children.tooWide) := by
    simp only [NewNode.valid, Bool.and_eq_true, decide_eq_true_eq, NRefs.valid_iff, not_or,
      Nat.not_lt]
  constructor
  · intro hw
    have : t.valid = false := by
      cases hval : t.valid with
      | false => rfl
      | true => exact absurd hw (hv.mp hval)
    simp [insertTree, this]
  · intro hn
    refine ⟨insertTreeAt v h h.next k t, ?_⟩
    simp [insertTree, hv.mpr hn]

/-- (6') the same check guards the commit of the pipeline model: a rejected InsertTree returns
an error and (being an `Except`) no new state. -/
theorem C10_reject_commit (s : PState K D) (k : K) (t : NewNode D)
    (hw : MAX_CHILDREN < t.children.length ∨ t.children.tooWide) :
    commitInsert s k t = .error .invalidInput := by
  have hv : t.valid = true ↔ ¬ (MAX_CHILDREN < t.children.length ∨ t.children.tooWide) := by
    simp only [NewNode.valid, Bool.and_eq_true, decide_eq_true_eq, NRefs.valid_iff, not_or,
      Nat.not_lt]
  have : t.valid = false := by
    cases hval : t.valid with
    | false => rfl
    | true => exact absurd hw (hv.mp hval)
  simp [commitInsert, this]

/-- (7) DereferenceTree of an existing root never fails and never runs out of fuel
(`walkFuel` = number of present nodes + 1 suffices: every descent follows the freeing of a
node); the root's count drops by one on ref-counted columns, otherwise / at count 1 the root
disappears; then a node is present iff it is reachable IN THE OLD HEAP from the roots that
remain, every surviving node is unchanged, every surviving tree reads back as before, and the
invariant (RcInv) holds again. -/
theorem C10_deref_frees_exactly_unreachable (v : Variant) (h : Heap K D) (k : K)
    (hv : v ≠ .appendOnly) (hi : Inv v h) (r : Node D) (c : Nat)
    (hk : h.roots.get k = some (r, c)) :
    ∃ h', dereferenceTree v h k = .ok h' ∧ Inv v h' ∧
      h'.roots = h.roots.set k (if v = .rcRoots ∧ c > 1 then some (r, c - 1) else none) ∧
      (∀ a, present h' a ↔ Reach { h with roots := h'.roots } a) ∧
      (∀ a, present h' a ↔ Reach h' a) ∧
      (∀ a n, h'.nodes.get a = some n → h.nodes.get a = some n) ∧
      (∀ k', h'.roots.get k' ≠ none → readTree h' k' = readTree { h with roots := h'.roots } k') := by
  obtain ⟨h', e, hi', hnext, hroots, hsub⟩ := dereferenceTree_ok v h k hv hi r c hk
  refine ⟨h', e, hi', hroots, ?_, present_iff_reach v h' hi' hv, hsub, ?_⟩
  · intro a
    constructor
    · intro ha
      have hr := (present_iff_reach v h' hi' hv a).mp ha
      exact reach_transfer { h with roots := h'.roots } h' rfl hsub a hr
    · intro hr
      exact (reach_transfer_back { h with roots := h'.roots } h' hi'.shape rfl hsub a hr).2
  · intro k' hk'
    simp only [readTree, hnext]
    cases hg : h'.roots.get k' with
    | none => exact absurd hg hk'
    | some e' =>
      simp only
      congr 1
      apply mapOpt_congr
      intro x hx
      have hpx : present h' x := hi'.shape.closedR k' e' hg x hx
      obtain ⟨n, hn⟩ := (present_iff h' x).mp hpx
      have hxn : x < h.next := hi.below x ((present_iff h x).mpr ⟨n, hsub x n hn⟩)
      rw [readNode_fuel _ hi'.shape.acyclicView _ _ x (Nat.le_refl _) hxn]
      have hac : AcyclicView ({ h with roots := h'.roots } : Heap K D).nodes.get := hi.shape.acyclic
      rw [readNode_fuel _ hac _ _ x (Nat.le_refl _) hxn]
      exact readAt_sub h h' hi.shape hi'.shape hsub x x (Nat.le_refl _) hpx

/-- (7') other roots are untouched by DereferenceTree (their entries, including counts). -/
theorem C10_deref_other_roots (v : Variant) (h h' : Heap K D) (k k' : K) (hv : v ≠ .appendOnly)
    (hi : Inv v h) (he : dereferenceTree v h k = .ok h') (hkk : k' ≠ k) :
    h'.roots.get k' = h.roots.get k' := by
  cases hk : h.roots.get k with
  | none => simp [dereferenceTree, hv, hk] at he
  | some e =>
    obtain ⟨h2, e2, _, _, hroots, _⟩ := dereferenceTree_ok v h k hv hi e.1 e.2 hk
    rw [e2] at he
    simp only [Except.ok.injEq] at he
    subst he
    rw [hroots, FMap.get_set_other _ _ _ _ hkk]

/-- (8) On a heap satisfying the invariant "present" and "reachable from a live root" are the
same thing: no node of a live tree is missing, and there is no garbage. -/
theorem C10_present_iff_reachable (v : Variant) (h : Heap K D) (hi : Inv v h)
    (hv : v ≠ .appendOnly) (a : Addr) : present h a ↔ Reach h a :=
  present_iff_reach v h hi hv a

/-- (9) When no root remains the column holds zero entries: no node, no ref-count entry, no
root - and `get_num_column_value_entries` of the drained pipeline model reports 0. -/
theorem C10_all_deref_empty (v : Variant) (h : Heap K D) (hi : Inv v h) (hv : v ≠ .appendOnly)
    (hn : ∀ k, h.roots.get k = none) :
    h.nodes.l = [] ∧ h.rc.l = [] ∧ h.roots.l = [] ∧
    ∀ len : D → Nat, countEntries len (⟨v, h, []⟩ : PState K D) = .ok 0 := by
  have hnodes : ∀ a, h.nodes.get a = none := by
    intro a
    apply (not_present_iff h a).mp
    intro ha
    exact not_reach_of_no_roots h hn a ((present_iff_reach v h hi hv a).mp ha)
  have hrc : ∀ a, h.rc.get a = none := by
    intro a
    cases hr : h.rc.get a with
    | none => rfl
    | some c =>
      have := ((hi.counts hv).rcEntries a c hr).2
      simp [present, hnodes a] at this
  have e1 := FMap.eq_nil_of_get_none h.nodes hnodes
  have e2 := FMap.eq_nil_of_get_none h.rc hrc
  have e3 := FMap.eq_nil_of_get_none h.roots hn
  refine ⟨e1, e2, e3, ?_⟩
  intro len
  simp [countEntries, FMap.all, FMap.size, e1, e3]

/-- (9') ... in particular after any legal history that ends with every tree dereferenced. -/
theorem C10_all_deref_empty_history (v : Variant) (ops : List (Op K D)) (hv : v ≠ .appendOnly)
    (hl : LegalRun v Heap.empty ops)
    (hn : ∀ k, (runOps v (Heap.empty : Heap K D) ops).roots.get k = none) :
    (runOps v (Heap.empty : Heap K D) ops).nodes.l = [] ∧
    (runOps v (Heap.empty : Heap K D) ops).rc.l = [] :=
  let r := C10_all_deref_empty v _ (C10_RcInv v ops hl).1 hv hn
  ⟨r.1, r.2.1⟩

/-- (10) The walk needs no more fuel than the number of present nodes + 1, under the invariant
with the walked addresses pending; it then succeeds and discharges them. -/
theorem C10_walk_fuel (h : Heap K D) (cs P : List Addr) (fuel : Nat) (hs : Shape h)
    (hc : Counts h (cs ++ P)) (hf : h.nodes.size < fuel) :
    ∃ h', derefChildren fuel h cs = .ok h' ∧ Shape h' ∧ Counts h' P :=
  let ⟨h', e, w⟩ := derefChildren_ok fuel cs h P hs hc hf
  ⟨h', e, w.shape, w.counts⟩

/-- (11) Column option rules: on append-only columns ReferenceTree is a no-op and
DereferenceTree an error; roots are counted iff `ref_counted` (ReferenceTree is an error on a
plain column; a reference raises the count by one, a dereference lowers it by one while > 1). -/
theorem C10_variant_rules (h : Heap K D) (k : K) :
    referenceTree .appendOnly h k = .ok h ∧
    dereferenceTree .appendOnly h k = .error .invalidConfiguration ∧
    referenceTree .plain h k = .error .invalidInput ∧
    (∀ r c, h.roots.get k = some (r, c) →
      referenceTree .rcRoots h k = .ok { h with roots := h.roots.set k (some (r, c + 1)) }) ∧
    (∀ r c, h.roots.get k = some (r, c) → c > 1 →
      dereferenceTree .rcRoots h k = .ok { h with roots := h.roots.set k (some (r, c - 1)) }) := by
  refine ⟨rfl, by simp [dereferenceTree], rfl, ?_, ?_⟩
  · intro r c hg; simp [referenceTree, hg]
  · intro r c hg hc; simp [dereferenceTree, derefProcess, hg, hc]

/-! ## Non-vacuity: a concrete history with sharing (K = D = Nat)

  insert 1: root 10 -> [ 11 -> [12], 13 ]           addresses 12 ↦ 0, 11 ↦ 1, 13 ↦ 2
  insert 2: root 20 -> [ @0, @1, @0 ]               (node 0 twice, node 1 once)
  dereference 1: node 2 is freed, nodes 0 and 1 survive; dereference 2: nothing is left. -/

def exT1 : NewNode Nat := ⟨10, .cons (.new 11 (.cons (.new 12 .nil) .nil)) (.cons (.new 13 .nil) .nil)⟩
def exT2 : NewNode Nat := ⟨20, .cons (.existing 0) (.cons (.existing 1) (.cons (.existing 0) .nil))⟩
def exOps : List (Op Nat Nat) := [.insert 1 exT1, .insert 2 exT2, .dereference 1]
def exH1 : Heap Nat Nat := runOps .plain Heap.empty [.insert 1 exT1]
def exH2 : Heap Nat Nat := runOps .plain Heap.empty [.insert 1 exT1, .insert 2 exT2]
def exH3 : Heap Nat Nat := runOps .plain Heap.empty exOps

example : LegalRun .plain (Heap.empty : Heap Nat Nat) exOps := by
  refine ⟨⟨rfl, ?_⟩, ⟨rfl, ?_⟩, trivial, trivial⟩
  · simp [exT1, NRefs.live, NRef.live]
  · simp only [exT2, NRefs.live, NRef.live, present]; decide

-- counts after the second insertion: node 0 has three references, node 1 two, node 2 one
example : exH2.count 0 = 3 ∧ exH2.count 1 = 2 ∧ exH2.count 2 = 1 ∧ exH2.nodes.size = 3 := by decide
-- the shared tree reads back with the existing children resolved
example : (readTree exH2 2).isSome = true ∧ (readTree exH2 1).isSome = true := by decide
-- after dereferencing tree 1 exactly the unreachable node 2 is gone
example : exH3.nodes.get 2 = none ∧ (exH3.nodes.get 0).isSome = true ∧
    (exH3.nodes.get 1).isSome = true ∧ exH3.count 0 = 3 ∧ exH3.count 1 = 1 := by decide
-- and after dereferencing tree 2 as well nothing is left
example : (runOps .plain (Heap.empty : Heap Nat Nat) (exOps ++ [.dereference 2])).nodes.l = [] ∧
    (runOps .plain (Heap.empty : Heap Nat Nat) (exOps ++ [.dereference 2])).rc.l = [] := by decide
-- hypotheses of (5), (7) are satisfiable on these heaps
example : exH1.roots.get 2 = none ∧ (exH2.roots.get 1).isSome = true := by decide
theorem NRefs.length_ofList (l : List (NRef D)) : (NRefs.ofList l).length = l.length := by
  induction l with
  | nil => rfl
  | cons r l ih => simp [NRefs.ofList, NRefs.length, ih]

-- a rejected insertion: 256 children
example : insertTree .plain (Heap.empty : Heap Nat Nat) 1
    ⟨0, NRefs.ofList (List.replicate 256 (.new 0 .nil))⟩ = .error .invalidInput :=
  (C10_reject_unrepresentable .plain Heap.empty 1 _).1 (Or.inl (by rw [NRefs.length_ofList, List.length_replicate]; decide))
-- ref-counted roots: reference, then two dereferences are needed
example : (runOps .rcRoots (Heap.empty : Heap Nat Nat)
    [.insert 1 exT1, .reference 1, .dereference 1]).nodes.size = 3 ∧
  (runOps .rcRoots (Heap.empty : Heap Nat Nat)
    [.insert 1 exT1, .reference 1, .dereference 1, .dereference 1]).nodes.size = 0 := by decide

/-! ## Pipeline schedules

`Cmd` = commit of one operation | one `process` step (the driver's `reopen` is a run of process
steps; flush / enact / clean do not change the logical state).  `cmds.foldl cmdStep` runs the
executable pipeline model (`PState`: addresses claimed and the commit overlay filled when a
commit returns, table effects in process_commits); `runOps .. (committedOps cmds)` executes the
same operations atomically in commit order.  A rejected commit is a no-op on both sides. -/

/-- (12) For EVERY schedule: the atomic heap `H` satisfies the invariant (so (5)-(10) apply to
it), every root of `H` is readable through the overlays of the pipeline state with its whole
tree exactly as in `H` - whatever is still queued -, and once the queue is empty the tables of the
pipeline state ARE `H`. -/
theorem C10_pipeline_refines (v : Variant) (cmds : List (Cmd K D))
    (hl : LegalRun v (Heap.empty : Heap K D) (committedOps cmds)) :
    let s := cmds.foldl cmdStep (PState.init v : PState K D)
    let H := runOps v (Heap.empty : Heap K D) (committedOps cmds)
    Inv v H ∧
    (∀ k r c, H.roots.get k = some (r, c) →
      viewRoot s k = some r ∧
      (mapOpt (readNode (viewNode s) H.next) r.children).map (LTree.node r.data) = readTree H k) ∧
    (s.queue = [] → s.heap.nodes = H.nodes ∧ s.heap.rc = H.rc ∧ s.heap.roots = H.roots) := by
  intro s H
  have sim : Sim v s H := sim_run v cmds _ _ (Sim.init v) hl
  have hi : Inv v H := (C10_RcInv v (committedOps cmds) hl).1
  have hv := sim_views v s H sim
  refine ⟨hi, ?_, ?_⟩
  · intro k r c hg
    refine ⟨hv.1 k r c hg, ?_⟩
    simp only [readTree, hg]
    congr 1
    apply mapOpt_congr
    intro x hx
    exact readNode_view H hi.shape (viewNode s) hv.2 H.next x (hi.shape.closedR k (r, c) hg x hx)
  · intro hq
    have hc := sim.core
    rw [hq] at hc
    simp only [drainHeap, List.foldl_nil, core, Prod.mk.injEq] at hc
    exact ⟨hc.1.symm, hc.2.1.symm, hc.2.2.symm⟩

/-- (13) For every schedule that ends drained with every tree dereferenced the pipeline model
reports zero entries. -/
theorem C10_all_deref_empty_pipeline (v : Variant) (cmds : List (Cmd K D)) (hv : v ≠ .appendOnly)
    (hl : LegalRun v (Heap.empty : Heap K D) (committedOps cmds))
    (hq : (cmds.foldl cmdStep (PState.init v : PState K D)).queue = [])
    (hn : ∀ k, (runOps v (Heap.empty : Heap K D) (committedOps cmds)).roots.get k = none)
    (len : D → Nat) :
    countEntries len (cmds.foldl cmdStep (PState.init v : PState K D)) = .ok 0 := by
  have r := C10_pipeline_refines v cmds hl
  simp only at r
  obtain ⟨hi, _, hd⟩ := r
  obtain ⟨e1, e2, e3⟩ := hd hq
  have he := C10_all_deref_empty v _ hi hv hn
  simp [countEntries, FMap.all, FMap.size, hq, e1, e3, he.1, he.2.2.1]

-- non-vacuity: a schedule with two commits queued before anything is processed
def exCmds : List (Cmd Nat Nat) :=
  [.commit (.insert 1 exT1), .commit (.insert 2 exT2), .process, .commit (.dereference 1),
   .process, .process]
example : committedOps exCmds = exOps := rfl
example : (exCmds.foldl cmdStep (PState.init .plain : PState Nat Nat)).queue = [] := by decide
example : ((exCmds.take 2).foldl cmdStep (PState.init .plain : PState Nat Nat)).queue.length = 2 := by
  decide

#print axioms C10_unpack_pack_thm
#print axioms C10_pack_256_wrong
#print axioms C10_packed_size
#print axioms C10_RcInv
#print axioms C10_read_back
#print axioms C10_reject_unrepresentable
#print axioms C10_deref_frees_exactly_unreachable
#print axioms C10_present_iff_reachable
#print axioms C10_all_deref_empty
#print axioms C10_walk_fuel
#print axioms C10_variant_rules
#print axioms C10_pipeline_refines
#print axioms C10_all_deref_empty_pipeline


/-! ## Transactions (several operations per commit) and address reuse

Model: `TState` (Pdb/Model/MultiTree.lean, section "Transactions"): `commit_changes` literally -
validate every operation against the state before the call, assemble (`claim_tree_values`:
`claim_entries` pops the LIFO free-entry stack, then bumps the fill mark; `to_dereference`
counters; root `Set` / `Reference` changes and NewValue / IncrementReference / DereferenceChildren
node changes), queue; `process_commits` applies the change set in the planning order of
`IndexedChangeSet::write_plan`: the root changes that are not postponed, THEN all node changes, THEN
the root `Set`s of the keys that have a `DereferenceChildren` in the same change set (fix of finding
F41; before it: all root changes, then all node changes = `applyChangeSetF41`, kept for the
witnesses (17b), (17c)); the dereference walk pushes every freed address on the free stack.  This
is the model the `c10` driver runs against the real Db (transactions of 1..6 operations over 1..3
multitree columns plus a key-value column, rejected transactions included).

`specTx v H free next ops` is the ATOMIC reading of a transaction: the same planning order applied
at once to the atomic heap `H`, with the addresses the allocator state `(free, next)` hands out.
`inOrderTx` executes the operations one after the other (`insertTreeA` = InsertTree with its
claimed addresses).

Hypotheses and what is outside them (each confirmed on the real crate, harness/src/c10.rs scenarios)
  `DerefApart ops`     in ONE transaction: (a) no ReferenceTree k after a DereferenceTree k, (b) no
                       DereferenceTree k after an InsertTree k.  NOT excluded any more (fix of
                       finding F41): an InsertTree k after a DereferenceTree k - the transaction
                       `[DereferenceTree k, InsertTree k t']` "replace the tree under k" is inside
                       every theorem below and reads back exactly t' (theorem (17g)).
                       What (a) excludes - ADMISSIBLE: `[DereferenceTree k, ReferenceTree k]` on
                       count 1 KEEPS k (the references of a transaction are counted before its
                       dereferences: net count; theorem (17a)).
                       What (b) excludes: with `LegalInOrder` (an inserted key has no live root at
                       that point) and validation (a dereferenced root is readable BEFORE the call)
                       the only transactions of this form are `[.., DereferenceTree k, ..,
                       InsertTree k t', .., DereferenceTree k, ..]` on a root with one reference:
                       both dereferences act on the OLD tree (its children are read before the
                       call; the second finds no root and is a no-op), then t' is stored: k -> t'
                       stays although the order given would give it up again.  Nothing is lost or
                       leaked (k is live, readable, and can be dereferenced); ADMISSIBLE in the same
                       sense as (a): the dereferences of a transaction act on the trees that were
                       there before it.  Theorem (17h).  Without a DereferenceTree k in front,
                       `[InsertTree k, DereferenceTree k]` is either rejected (k not readable
                       before the call) or outside `LegalInOrder` (k live).
  `LegalInOrder`       the property's side conditions read in order: an inserted key has no live
                       root ("distinct live root keys"), `Existing` children name present nodes
                       ("sharing of nodes of live trees").  The Db accepts both violations
                       (`validate_change` checks neither): a second root under a live key leaks the
                       nodes of one of the two trees (17e), a dangling `Existing` address is stored
                       and gets a ref-count entry (17f).  Outside the quantifier of C10; no claim.
                       For a replacement on a ref-counted root with count >= 2 the dereference
                       leaves the root live, so the InsertTree is one on a live key (17e); for a
                       replacement whose new tree names, as `Existing`, a node that ONLY the old
                       tree referenced, the node is freed by the dereference in front of it: a
                       dangling `Existing` at that point (17f).  A node shared with another live
                       tree survives with its count (harness scenario, seed % 8 = 7).
  `DerefLive`          a DereferenceTree names a root that is live in the atomic heap.  The Db also
                       accepts a DereferenceTree of a root whose last dereference is still queued
                       (the root is still readable); processed, it is a no-op.
The old hypothesis `LegalRun` (theorems (4), (12)) is the one-operation case of these.
`DerefApartF41` is the hypothesis the unfixed planning order needed ((a), (b) and no InsertTree k
after a DereferenceTree k). -/

/-- (14) A commit of the pipeline model either queues the whole transaction or changes nothing:
an error leaves the state EQUAL (no claimed slot, no counter, nothing queued), and the
transaction is accepted iff every operation passes `validate_change` - after validation the
assembly loop cannot fail. -/
theorem C10T_commit_atomic (s : TState K D) (ops : List (Op K D)) :
    ((s.commit ops).2 ≠ .ok () → (s.commit ops).1 = s) ∧
    ((s.commit ops).2 = .ok () ↔ validateOps s.variant s.viewRoot ops = .ok) :=
  ⟨TState.commit_err s ops, TState.commit_ok_iff s ops⟩

/-- (15) The planning order agrees with the order given, up to the order of the root list
(`HeapEqv`: same nodes, same ref-count map, root association lists permutations of each other),
for every accepted transaction within `DerefApart` on a heap satisfying the invariant.
(`applyTx_eqv_inOrderE`, Pdb/Proofs/C10TxEqv.lean, is the same statement without any invariant,
with errors of the dereference walk propagated on both sides.) -/
theorem C10T_tx_in_order (v : Variant) (H : Heap K D) (free : List Addr) (next : Addr)
    (ops : List (Op K D)) (hi : InvR v H) (hs : SupplyOk H free next) (hda : DerefApart ops)
    (hl : LegalInOrder v (H, free, next) ops) (hval : validateOps v (viewOf H) ops = .ok) :
    HeapEqv (specTx v H free next ops) (inOrderTx v H free next ops) :=
  specTx_eqv_inOrder_of_inv v H free next ops hi hs hda hl hval

/-- (16) RcInv for transactions: every legal transaction (accepted or rejected), applied in the
implementation's planning order with new nodes at REUSED addresses, preserves the invariant
(count = number of references with multiplicity, no dangling reference, acyclic, entries only for
counts ≥ 2); it never fails when processed; roots of keys it does not name are untouched; nodes
that stay are unchanged and no node appears outside the claimed addresses. -/
theorem C10T_tx_RcInv (v : Variant) (H : Heap K D) (free : List Addr) (next : Addr)
    (ops : List (Op K D)) (hi : InvR v H) (hs : SupplyOk H free next) (hda : DerefApart ops)
    (hl : LegalInOrder v (H, free, next) ops) :
    InvR v (specTx v H free next ops) ∧
    (validateOps v (viewOf H) ops = .ok →
      ∃ r, applyChangeSet v (H, []) (specCs v H free next ops) = .ok r) ∧
    (∀ k, (∀ op ∈ ops, op.key ≠ k) → (specTx v H free next ops).roots.get k = H.roots.get k) ∧
    (∀ b n, present H b → (specTx v H free next ops).nodes.get b = some n → H.nodes.get b = some n) ∧
    (∀ b, b ∉ free → b < next → ¬ present H b → ¬ present (specTx v H free next ops) b) :=
  ⟨specTx_invR v H free next ops hi hs hda hl,
   fun hval => applyTx_ok_of_inv v H free next ops hi hs hda hl hval,
   fun k hk => specTx_frame_roots v H free next ops k hk,
   (specTx_frame_nodes v H free next ops hi hs hda hl).1,
   (specTx_frame_nodes v H free next ops hi hs hda hl).2⟩

/-! ### (17) what the planning order does outside `DerefApart` / `LegalInOrder` (concrete, `decide`),
and the replacement of a tree -/

/-- (17a) ADMISSIBLE: `[DereferenceTree k, ReferenceTree k]` on a root with count 1 keeps the tree
(the Reference is planned first: 1 -> 2 -> 1, no walk), although executed in the order given the
tree would be removed.  Inside one transaction the references are counted before the
dereferences: the count changes by the net amount and never visibly reaches zero. -/
theorem C10T_deref_ref_same_tx_keeps :
    Witness.rootOf (Witness.run .rcRoots Witness.derefRef) 1 = some (10, [0, 1], 1) ∧
    Witness.nodeAddrs (Witness.run .rcRoots Witness.derefRef) = [1, 0] ∧
    ((inOrderTx .rcRoots (Witness.run .rcRoots [.commit [.insert 1 Witness.t1], .process]).heap [] 2
        [.dereference 1, .reference 1]).roots.get 1).isNone = true :=
  ⟨Witness.deref_ref_same_tx_keeps.1, Witness.deref_ref_same_tx_keeps.2.1,
   Witness.deref_ref_in_order_drops.1⟩

/-- (17b) FINDING F41 (fixed), the UNFIXED planning order (`Witness.runF41`: all root changes, then
all node changes), plain column: `[DereferenceTree k, InsertTree k t']` on a live root is accepted
and reads as t' while queued; processed, the root is gone and the node of t' is leaked (one entry
left, unreachable, never reclaimed) - the accepted insertion does NOT read back. -/
theorem C10T_F41_plain :
    Witness.viewRootOf (Witness.run .plain Witness.derefInsert) 1 = some (20, [2]) ∧
    (let s := Witness.runF41 .plain (Witness.derefInsert ++ [.process])
     Witness.rootOf s 1 = none ∧ Witness.viewRootOf s 1 = none ∧ Witness.nodeAddrs s = [2] ∧
     s.queue.length = 0 ∧ (s.countEntries (fun _ => 0)).toOption = some 1) :=
  ⟨Witness.F41_queued_view_shows_new_tree .plain (Or.inl rfl), Witness.F41_plain_tree_lost_node_leaked⟩

/-- (17c) FINDING F41 (fixed), the UNFIXED planning order, ref-counted roots: the Set only raises
the count of the OLD root, the dereference lowers it again: k keeps the OLD tree, the node of t' is
leaked. -/
theorem C10T_F41_rc :
    Witness.viewRootOf (Witness.run .rcRoots Witness.derefInsert) 1 = some (20, [2]) ∧
    (let s := Witness.runF41 .rcRoots (Witness.derefInsert ++ [.process])
     Witness.rootOf s 1 = some (10, [0, 1], 1) ∧ Witness.nodeAddrs s = [2, 1, 0] ∧
     s.queue.length = 0 ∧ (s.countEntries (fun _ => 0)).toOption = some 4) :=
  ⟨Witness.F41_queued_view_shows_new_tree .rcRoots (Or.inr rfl), Witness.F41_rc_old_tree_kept_node_leaked⟩

/-- (17d) ... whereas read in order the transaction leaves k -> t' (one root, one node); it was
outside the hypothesis of the unfixed order (`DerefApartF41`) and is inside `DerefApart`. -/
theorem C10T_F41_in_order_reading (v : Variant) (hv : v = .plain ∨ v = .rcRoots) :
    (let h := (Witness.run v [.commit [.insert 1 Witness.t1], .process]).heap
     ((inOrderTx v h [] 2 [.dereference 1, .insert 1 Witness.t2]).roots.get 1).map
        (fun e => (e.1.data, e.2)) = some (20, 1) ∧
     (inOrderTx v h [] 2 [.dereference 1, .insert 1 Witness.t2]).nodes.l.length = 1) ∧
    ¬ DerefApartF41 [(.dereference 1 : Op Nat Nat), .insert 1 Witness.t2] ∧
    DerefApart [(.dereference 1 : Op Nat Nat), .insert 1 Witness.t2] :=
  ⟨Witness.F41_in_order_reading v hv, Witness.F41_not_derefApartF41, Witness.replace_derefApart 1 _⟩

/-- (17g) REPLACING A TREE (finding F41 fixed).  For every heap satisfying the invariant, every
sound allocator state, every key `k` and every new tree `t'`: if the transaction
`[DereferenceTree k, InsertTree k t']` is legal read in order (after the dereference k has no live
root - the root had one reference - and the `Existing` children of t' are present) and passes
validation (k is readable, t' is representable, the column is not append-only), then in the
planning order of the FIXED `write_plan`
  * it is inside `DerefApart` (all theorems (15), (16), (18), (19), (21) apply to it),
  * t' is stored under k exactly as supplied (root entry and, recursively, every new node; every
    `Existing a` child is the address `a`),
  * the resulting heap equals the result of the order given up to the order of the root list,
  * the invariant holds again (counts = references with multiplicity, no dangling child, acyclic)
    and processing does not fail. -/
theorem C10T_replace_tree (v : Variant) (H : Heap K D) (free : List Addr) (next : Addr) (k : K)
    (t' : NewNode D) (hi : InvR v H) (hs : SupplyOk H free next)
    (hl : LegalInOrder v (H, free, next) [.dereference k, .insert k t'])
    (hval : validateOps v (viewOf H) [.dereference k, .insert k t'] = .ok) :
    DerefApart [(.dereference k : Op K D), .insert k t'] ∧
    StoredTree (viewOf (specTx v H free next [.dereference k, .insert k t']))
      (specTx v H free next [.dereference k, .insert k t']).nodes.get k t' ∧
    HeapEqv (specTx v H free next [.dereference k, .insert k t'])
      (inOrderTx v H free next [.dereference k, .insert k t']) ∧
    InvR v (specTx v H free next [.dereference k, .insert k t']) ∧
    (∃ r, applyChangeSet v (H, []) (specCs v H free next [.dereference k, .insert k t']) = .ok r) := by
  have hda : DerefApart [(.dereference k : Op K D), .insert k t'] := by
    simp [DerefApart, Op.isDeref, Op.isInsert, Op.isRef]
  exact ⟨hda,
    specTx_stored v H free next _ hi hs hda hl hval k t' (List.mem_cons_of_mem _ List.mem_cons_self),
    specTx_eqv_inOrder_of_inv v H free next _ hi hs hda hl hval,
    specTx_invR v H free next _ hi hs hda hl,
    applyTx_ok_of_inv v H free next _ hi hs hda hl hval⟩

/-- (17g') the same on the executable pipeline model, both counting variants: after
`[DereferenceTree 1, InsertTree 1 t2]` on the live tree t1 the root 1 shows t2 while queued;
processed: root 1 = t2 with count 1, its node at the fresh address 2, the two nodes of t1 freed and
their slots back on the free stack, 2 entries; a final DereferenceTree 1 leaves no root, no node,
no count, zero entries and every slot on the free stack. -/
theorem C10T_replace_tree_pipeline (v : Variant) (hv : v = .plain ∨ v = .rcRoots) :
    Witness.viewRootOf (Witness.run v Witness.derefInsert) 1 = some (20, [2]) ∧
    (let s := Witness.run v (Witness.derefInsert ++ [.process])
     Witness.rootOf s 1 = some (20, [2], 1) ∧ Witness.viewRootOf s 1 = some (20, [2]) ∧
     Witness.nodeAddrs s = [2] ∧
     (s.heap.nodes.get 2).map (fun n => (n.data, n.children)) = some (21, []) ∧ s.free = [1, 0] ∧
     s.queue.length = 0 ∧ (s.countEntries (fun _ => 0)).toOption = some 2) ∧
    (let s := Witness.run v (Witness.derefInsert ++ [.process, .commit [.dereference 1], .process])
     Witness.rootOf s 1 = none ∧ Witness.nodeAddrs s = [] ∧ s.heap.rc.l = [] ∧ s.free = [2, 1, 0] ∧
     (s.countEntries (fun _ => 0)).toOption = some 0) :=
  ⟨Witness.F41_queued_view_shows_new_tree v hv, (Witness.replace_reads_back v hv).1,
   (Witness.replace_reads_back v hv).2⟩

/-- (17h) outside `DerefApart` (b), ADMISSIBLE: `[DereferenceTree k, InsertTree k t', DereferenceTree k]`
on a root with one reference.  Both dereferences act on the OLD tree (children read before the
call; the second finds no root), then t' is stored: k -> t' stays, one root and one node, nothing
leaked - whereas in the order given the second dereference would remove t' again. -/
theorem C10T_deref_insert_deref_keeps (v : Variant) (hv : v = .plain ∨ v = .rcRoots) :
    Witness.rootOf (Witness.run v Witness.derefInsertDeref) 1 = some (20, [2], 1) ∧
    Witness.nodeAddrs (Witness.run v Witness.derefInsertDeref) = [2] ∧
    (let h := (Witness.run v [.commit [.insert 1 Witness.t1], .process]).heap
     ((inOrderTx v h [] 2 [.dereference 1, .insert 1 Witness.t2, .dereference 1]).roots.get 1).isNone = true) ∧
    ¬ DerefApart [(.dereference 1 : Op Nat Nat), .insert 1 Witness.t2, .dereference 1] :=
  Witness.deref_insert_deref_keeps_new_tree v hv

/-- (17e) outside the quantifier ("distinct live root keys"), accepted: InsertTree under a live
key.  plain: the new root replaces the old one, whose nodes leak (2 entries left after the tree
is dereferenced); ref-counted: the old root stays with count 2, the new nodes leak. -/
theorem C10T_insert_live_key_leaks :
    (let s := Witness.run .plain [.commit [.insert 1 Witness.t1], .process,
        .commit [.insert 1 Witness.t2], .process, .commit [.dereference 1], .process]
     Witness.rootOf s 1 = none ∧ Witness.nodeAddrs s = [1, 0] ∧
     (s.countEntries (fun _ => 0)).toOption = some 2) ∧
    (let s := Witness.run .rcRoots [.commit [.insert 1 Witness.t1], .process,
        .commit [.insert 1 Witness.t2], .process]
     Witness.rootOf s 1 = some (10, [0, 1], 2) ∧ Witness.nodeAddrs s = [2, 1, 0]) :=
  ⟨Witness.insert_live_key_plain_replaces_and_leaks, Witness.insert_live_key_rc_counts_and_leaks⟩

/-- (17f) outside the quantifier ("children name nodes of live trees"), accepted: an `Existing`
child at an address that holds no node is stored as it is and a reference count of 2 is recorded
for the empty address. -/
theorem C10T_dangling_existing_accepted :
    let s := Witness.run .plain [.commit [.insert 1 ⟨30, .cons (.existing 77) .nil⟩], .process]
    Witness.rootOf s 1 = some (30, [77], 1) ∧ (s.heap.nodes.get 77).isNone = true ∧
    s.heap.rc.get 77 = some 2 :=
  Witness.dangling_existing_accepted

/-! ### (18) the pipeline with address reuse refines the atomic transactions -/

/-- reading a subtree through a view that shows every node of a closed heap gives what the heap
gives (no address order needed) -/
theorem readNode_viewC (H : Heap K D) (hs : ShapeC H) (view : Addr → Option (Node D))
    (hview : ∀ a n, H.nodes.get a = some n → view a = some n) :
    ∀ (f a : Nat), present H a → readNode view f a = readNode H.nodes.get f a := by
  intro f
  induction f with
  | zero => intro a _; rfl
  | succ f ih =>
    intro a ha
    obtain ⟨n, hn⟩ := (present_iff H a).mp ha
    simp only [readNode, hn, hview a n hn]
    congr 1
    apply mapOpt_congr
    intro c hc
    exact ih c (hs.closedN a n hn c hc)

/-- (18) For EVERY legal schedule of transaction commits and process steps of the pipeline model
with the LIFO free-entry stack (addresses freed by a processed dereference are claimed again by
later commits, also while older commits are still queued): with `H` the atomic heap (every
accepted transaction applied at once, in commit order, with the addresses the pipeline claimed)
  * `H` satisfies the invariant (so (16) and C10R_present_iff_reachable apply to it);
  * every root of `H` is readable through the commit overlay of the pipeline state, and every
    node of `H` through the address overlay - whatever is still queued, whatever was reused -,
    hence every tree reads through the views exactly as in `H` (for every fuel);
  * once the queue is empty the tables of the pipeline state ARE `H`;
  * slot accounting: the free stack, the slots claimed by queued commits and the table nodes are
    pairwise disjoint, without repetition, and together exactly the addresses below the fill mark
    (no slot is lost, none is handed out twice). -/
theorem C10T_pipeline_refines (v : Variant) (cmds : List (CmdT K D))
    (hl : LegalRunT v (TState.init v, (Heap.empty : Heap K D)) cmds) :
    let s := (runT v (TState.init v, (Heap.empty : Heap K D)) cmds).1
    let H := (runT v (TState.init v, (Heap.empty : Heap K D)) cmds).2
    InvR v H ∧
    (∀ k r c, H.roots.get k = some (r, c) →
      s.viewRoot k = some r ∧
      ∀ fuel, mapOpt (readNode s.viewNode fuel) r.children = mapOpt (readNode H.nodes.get fuel) r.children) ∧
    (∀ a n, H.nodes.get a = some n → s.viewNode a = some n) ∧
    (s.queue = [] → s.heap.nodes = H.nodes ∧ s.heap.rc = H.rc ∧ s.heap.roots = H.roots) ∧
    AllocInv s := by
  intro s H
  have sim : SimT v s H := simT_run v cmds (fun H free next ops => specTx_invR v H free next ops) hl
  obtain ⟨rank, hsr⟩ := sim.inv.shape
  refine ⟨sim.inv, ?_, sim.viewN, sim.drained, sim.alloc⟩
  intro k r c hg
  refine ⟨sim.viewR k r c hg, ?_⟩
  intro fuel
  apply mapOpt_congr
  intro x hx
  exact readNode_viewC H hsr.core s.viewNode sim.viewN fuel x (hsr.core.closedR k (r, c) hg x hx)

/-- (19) Storage is reclaimed: for every legal schedule that ends drained with every tree
dereferenced (counting variants) the tables hold no node, no ref-count entry and no root, the
pipeline model reports zero entries, and EVERY address below the fill mark is back on the free
stack, exactly once. -/
theorem C10T_all_deref_reclaimed (v : Variant) (cmds : List (CmdT K D)) (hv : v ≠ .appendOnly)
    (hl : LegalRunT v (TState.init v, (Heap.empty : Heap K D)) cmds)
    (hq : (runT v (TState.init v, (Heap.empty : Heap K D)) cmds).1.queue = [])
    (hn : ∀ k, (runT v (TState.init v, (Heap.empty : Heap K D)) cmds).2.roots.get k = none)
    (len : D → Nat) :
    let s := (runT v (TState.init v, (Heap.empty : Heap K D)) cmds).1
    s.heap.nodes.l = [] ∧ s.heap.rc.l = [] ∧ s.heap.roots.l = [] ∧
    s.countEntries len = .ok 0 ∧
    s.free.Nodup ∧ ∀ a, a < s.heap.next ↔ a ∈ s.free := by
  have r := C10T_pipeline_refines v cmds hl
  simp only at r
  revert r hq hn
  generalize runT v (TState.init v, (Heap.empty : Heap K D)) cmds = x
  obtain ⟨s, H⟩ := x
  intro hq hn r
  dsimp only at hq hn r ⊢
  obtain ⟨hi, _, _, hd, ha⟩ := r
  obtain ⟨e1, e2, e3⟩ := hd hq
  have hnodes : ∀ a, s.heap.nodes.get a = none := by
    intro a
    rw [e1]
    apply (not_present_iff _ a).mp
    intro hp
    exact not_reach_of_no_roots _ hn a ((present_iff_reachR v _ hi hv a).mp hp)
  have hrc : ∀ a, s.heap.rc.get a = none := by
    intro a
    cases hr : s.heap.rc.get a with
    | none => rfl
    | some c =>
      rw [e2] at hr
      have := ((hi.counts hv).rcEntries a c hr).2
      rw [present, ← e1, hnodes a] at this
      cases this
  have hroots : ∀ k, s.heap.roots.get k = none := by intro k; rw [e3]; exact hn k
  have l1 := FMap.eq_nil_of_get_none s.heap.nodes hnodes
  have l2 := FMap.eq_nil_of_get_none s.heap.rc hrc
  have l3 := FMap.eq_nil_of_get_none s.heap.roots hroots
  have hqc : queueClaimed s.queue = [] := by rw [hq]; rfl
  refine ⟨l1, l2, l3, ?_, ?_, ?_⟩
  · simp [TState.countEntries, FMap.all, FMap.size, hq, l1, l3]
  · have := ha.nodup
    rw [hqc, List.append_nil] at this
    exact this
  · intro a
    have := ha.cover a
    rw [hqc] at this
    simp only [List.not_mem_nil, false_or, present, hnodes a, Option.isSome_none,
      Bool.false_eq_true, or_false] at this
    exact this

/-! ### (21) read back, with reused addresses and inside transactions -/

/-- (21) Read back for transactions.  `StoredTree vr vn k t` (Pdb/Proofs/C10TxDefs.lean): the root
entry under `k` carries exactly the data of `t`, and recursively every NEW node of `t` is readable
at the address recorded with its parent, with exactly its data and its children in the order
supplied, every `Existing a` child IS the address `a` (fuel-free form of (5); nodes that were
present stay what they were: (16)).  After a legal accepted transaction - applied in the planning
order, new nodes at reused addresses - EVERY tree inserted by it, whatever its position among
the operations, is stored in the resulting heap. -/
theorem C10T_read_back (v : Variant) (H : Heap K D) (free : List Addr) (next : Addr)
    (ops : List (Op K D)) (hi : InvR v H) (hs : SupplyOk H free next) (hda : DerefApart ops)
    (hl : LegalInOrder v (H, free, next) ops) (hval : validateOps v (viewOf H) ops = .ok) :
    ∀ k t, Op.insert k t ∈ ops →
      StoredTree (viewOf (specTx v H free next ops)) (specTx v H free next ops).nodes.get k t :=
  specTx_stored v H free next ops hi hs hda hl hval

/-- (21') InsertTree alone, new nodes at ANY pairwise distinct free addresses. -/
theorem C10T_read_back_insert (v : Variant) (h : Heap K D) (fresh : List Addr) (k : K)
    (t : NewNode D) (hi : InvR v h) (hl : t.children.live h) (hk : h.roots.get k = none)
    (hn : fresh.Nodup) (hf : ∀ b ∈ fresh, ¬ present h b) (hlen : t.children.newCount ≤ fresh.length) :
    StoredTree (viewOf (insertTreeA v h fresh k t)) (insertTreeA v h fresh k t).nodes.get k t :=
  insertTreeA_stored v h fresh k t hi hl hk hn hf hlen

/-- (21'') Through the pipeline: as soon as the commit returns every tree it inserted is readable
through the commit overlay exactly as supplied; and at every later point of every legal schedule
a tree that is stored in the atomic heap is stored in what the views show. -/
theorem C10T_read_back_pipeline (v : Variant) (cmds : List (CmdT K D))
    (hl : LegalRunT v (TState.init v, (Heap.empty : Heap K D)) cmds) :
    let s := (runT v (TState.init v, (Heap.empty : Heap K D)) cmds).1
    let H := (runT v (TState.init v, (Heap.empty : Heap K D)) cmds).2
    (∀ k t, StoredTree (viewOf H) H.nodes.get k t → StoredTree s.viewRoot s.viewNode k t) ∧
    (∀ ops, DerefApart ops → DerefLive H ops → LegalInOrder v (H, s.free, s.heap.next) ops →
      validateOps v (viewOf H) ops = .ok →
      ∀ k t, Op.insert k t ∈ ops →
        StoredTree (stepT s (.commit ops)).viewRoot (stepT s (.commit ops)).viewNode k t) := by
  intro s H
  have sim : SimT v s H := simT_run v cmds (fun H free next ops => specTx_invR v H free next ops) hl
  exact ⟨fun k t st => stored_of_views H s.viewRoot s.viewNode sim.viewR sim.viewN k t st,
    fun ops hda hdl hleg hval => commit_stored v s H sim ops hda hdl hleg hval⟩

/-! ### (20) ref-count table growth -/

/-- (20) The ref-count TABLES (a current table plus a queue of older tables that are being
reindexed into it, Pdb/Model/RcTables.lean: inc / dec with their "found in a queued table"
branches, growth at any moment and by any number of steps, reindex passes with `drop_ref_count`)
refine the single map `Heap.rc` of the heap model through the lookup in search order: for every
sequence of operations the effective map is what the single-map operations produce. -/
theorem C10T_rc_tables_refine (ops : List Rc.RcOp) :
    (ops.foldl Rc.stepTabs Rc.Tabs.empty).abs = ops.foldl Rc.stepMap (fun _ => none) :=
  Rc.abs_run ops

-- non-vacuity of (16), (18), (19): concrete legal schedules (see also `SimEx` in
-- Pdb/Proofs/C10TxSim.lean: a 9-step schedule in which a freed slot is claimed again, and `TxEx`
-- in Pdb/Proofs/C10TxInv.lean: a 5-operation transaction on a heap with a shared node)
example := C10T_pipeline_refines .rcRoots SimEx.sched SimEx.sched_legal

/-! non-vacuity of (17g), (18), (19), (21) for the REPLACEMENT of a tree: a concrete heap, the
transaction `[DereferenceTree 0, InsertTree 0 t2]` on it, and a legal schedule of the pipeline model
that inserts a tree, replaces it in one transaction, and gives the new tree up -/
def ReplEx.t1 : NewNode Nat := ⟨10, .cons (.new 11 .nil) (.cons (.new 12 .nil) .nil)⟩
def ReplEx.t2 : NewNode Nat := ⟨20, .cons (.new 21 .nil) .nil⟩
/-- the heap after `InsertTree 0 t1`: nodes 0, 1; root 0 with count 1; fill mark 2 -/
def ReplEx.H : Heap Nat Nat := inOrderTx .rcRoots Heap.empty [] 0 [.insert 0 t1]

theorem ReplEx.H_ok : InvR .rcRoots H ∧ SupplyOk H [] 2 := by
  have hl : LegalInOrder .rcRoots ((Heap.empty : Heap Nat Nat), [], 0) [.insert 0 t1] := by
    simp [LegalInOrder, Op.legal, t1, NRefs.live, NRef.live, Heap.empty]
  exact inOrderTx_invR .rcRoots (Heap.empty : Heap Nat Nat) [] 0 [.insert 0 t1]
    (InvR.empty _) ⟨List.nodup_nil, by simp, by simp, by simp [present, Heap.empty]⟩ hl

theorem ReplEx.legal : LegalInOrder .rcRoots (H, [], 2) [.dereference 0, .insert 0 t2] ∧
    validateOps .rcRoots (viewOf H) [.dereference 0, .insert 0 t2] = .ok := by
  refine ⟨?_, by decide⟩
  simp only [LegalInOrder, Op.legal, NRefs.live, NRef.live, and_true, true_and, t2]
  decide

example := C10T_replace_tree .rcRoots ReplEx.H [] 2 0 ReplEx.t2 ReplEx.H_ok.1 ReplEx.H_ok.2 ReplEx.legal.1 ReplEx.legal.2
-- the replacement did something: one root, one node (at the fresh address 2)
example : ((specTx .rcRoots ReplEx.H [] 2 [.dereference 0, .insert 0 ReplEx.t2]).roots.l.map Prod.fst,
    (specTx .rcRoots ReplEx.H [] 2 [.dereference 0, .insert 0 ReplEx.t2]).nodes.l.map Prod.fst) = ([0], [2]) := by
  decide

def ReplEx.sched : List (CmdT Nat Nat) :=
  [.commit [.insert 1 t1], .process, .commit [.dereference 1, .insert 1 t2], .process,
   .commit [.dereference 1], .process]

set_option maxRecDepth 10000 in
theorem ReplEx.sched_legal (v : Variant) (hv : v = .plain ∨ v = .rcRoots) :
    LegalRunT v (TState.init v, (Heap.empty : Heap Nat Nat)) sched := by
  rcases hv with rfl | rfl <;>
  · simp only [sched, LegalRunT, DerefApart, DerefLive, LegalInOrder, Op.legal, Op.isDeref,
      Op.isInsert, Op.isRef, Op.key, List.mem_cons, List.mem_nil_iff, forall_eq_or_imp, t1, t2,
      NRefs.live, NRef.live, and_true, true_and, or_false, forall_eq]
    simp only [Bool.false_eq_true, false_imp_iff, true_imp_iff, and_true, true_and, implies_true,
      ne_eq]
    decide

theorem ReplEx.sched_drained (v : Variant) (hv : v = .plain ∨ v = .rcRoots) :
    (runT v (TState.init v, (Heap.empty : Heap Nat Nat)) sched).1.queue = [] ∧
    ∀ k, (runT v (TState.init v, (Heap.empty : Heap Nat Nat)) sched).2.roots.get k = none := by
  have h : (runT v (TState.init v, (Heap.empty : Heap Nat Nat)) sched).1.queue.length = 0 ∧
      (runT v (TState.init v, (Heap.empty : Heap Nat Nat)) sched).2.roots.l.length = 0 := by
    rcases hv with rfl | rfl <;> decide
  refine ⟨List.eq_nil_of_length_eq_zero h.1, ?_⟩
  intro k
  simp only [FMap.get, List.eq_nil_of_length_eq_zero h.2, alLookup]

example := C10T_pipeline_refines .plain ReplEx.sched (ReplEx.sched_legal .plain (Or.inl rfl))
example := C10T_all_deref_reclaimed .rcRoots ReplEx.sched (by decide) (ReplEx.sched_legal .rcRoots (Or.inr rfl))
  (ReplEx.sched_drained .rcRoots (Or.inr rfl)).1 (ReplEx.sched_drained .rcRoots (Or.inr rfl)).2 (fun _ => 0)
example := C10T_read_back_pipeline .plain (ReplEx.sched.take 2) (by
  have := ReplEx.sched_legal .plain (Or.inl rfl)
  simp only [ReplEx.sched, LegalRunT] at this
  simp only [ReplEx.sched, List.take, LegalRunT]
  exact ⟨this.1, trivial⟩)
-- while the replacing commit is queued the overlay already shows the new tree ...
example : ((runT .plain (TState.init .plain, (Heap.empty : Heap Nat Nat)) (ReplEx.sched.take 3)).1.viewRoot 1).map
    (fun n => (n.data, n.children)) = some (20, [2]) := by decide
-- ... and the atomic heap holds it: the old nodes 0, 1 are gone, the new node sits at 2
example : (runT .plain (TState.init .plain, (Heap.empty : Heap Nat Nat)) (ReplEx.sched.take 3)).2.nodes.l.map Prod.fst
    = [2] := by decide


#print axioms C10T_commit_atomic
#print axioms C10T_tx_in_order
#print axioms C10T_tx_RcInv
#print axioms C10T_deref_ref_same_tx_keeps
#print axioms C10T_F41_plain
#print axioms C10T_F41_rc
#print axioms C10T_F41_in_order_reading
#print axioms C10T_replace_tree
#print axioms C10T_replace_tree_pipeline
#print axioms C10T_deref_insert_deref_keeps
#print axioms C10T_insert_live_key_leaks
#print axioms C10T_dangling_existing_accepted
#print axioms C10T_pipeline_refines
#print axioms C10T_all_deref_reclaimed
#print axioms C10T_rc_tables_refine
#print axioms C10T_read_back
#print axioms C10T_read_back_insert
#print axioms C10T_read_back_pipeline

end Pdb.MultiTree
