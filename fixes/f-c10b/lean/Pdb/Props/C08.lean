/-
C08  A rejected transaction leaves no trace.

Two layers:
 * `Pdb.Validate` mirrors `DbInner::validate_change`: which (column options, operation)
   pairs are rejected, with which error.  `commit_changes` validates the whole
   transaction with this side-effect free check BEFORE it claims tree-node slots, bumps
   queued-dereference counters or touches the overlay (fix ba82c54; before it, `Set a;
   Reference b` on a column without reference counting left `a` in the overlay for ever).
 * P1 (`Pdb.commit`): a commit that does not return ok returns the state unchanged, so by
   the other theorems nothing of it is ever visible, logged or persisted, and removing
   all rejected commits from a history changes nothing.
Errors raised AFTER validation inside `commit_changes` (decision for the quantifier of C08):
 * I/O errors (reading the root of a DereferenceTree, a full disk while a table grows) are NOT in
   the property's list of causes ("an operation is not valid for its column, a tree root to
   dereference does not exist, a node cannot be represented, or the database is in a
   background-error state"): out of C08, they are C16's (a failure poisons the handle).
 * NON-I/O causes after validation existed only through the schedule; both were findings, both
   are fixed, both are reproduced on the real crate by harness/src/c08.rs with the yield hooks of
   7b1e3f5 (the scenarios now REQUIRE the fixed behaviour):
     F43   the root of a DereferenceTree is read twice (validate_change, then the assembly loop);
           a DereferenceTree of the same root queued earlier and processed by the log worker in
           between made the second read fail with "No entry for tree root" AFTER the InsertTrees in
           front of it had claimed their slots.  Fix 485fed3: a root that is gone at the second read
           makes the operation the no-op it would have been, had the commit been queued before the
           other one was processed.  `asmOp` follows the fixed code (no error branch any more).
     F44   a background error stored between the first test of `bg_err` (f67544a) and the test in
           `commit_raw`: Err(Background) with the claims kept.  Fix: `commit_changes` calls
           `commit_raw_checked(commit, false)`, the second test does not exist for it; an error
           stored after the first test is concurrent with the call, which is accepted as if queued
           just before the error.  Model: `TDb.commitWin second db tx stored` (`stored`: a worker
           stores an error while the change set is assembled): `C08_db_concurrent_error` (HEAD,
           second = false: result and state of the commit made just before the error; a call that
           is not ok leaves the state equal) and the negative witness
           `C08_db_F44_order_leaves_trace` (second = true: refused with the claims kept).
   In the one-step model `TDb.commit` the state cannot change between validation and assembly;
   `C08_db_accepted_iff` shows that after validation the assembly cannot fail.
 * T0 order obligations (agent f-t0, Pdb/Proofs/Order.lean): `commitChanges_validate_before_claim`,
   `commitChanges_bgerr_before_claim` tie the order validate-all / bg_err / claim of `TDb.commit`
   to the source; `TDb.commitF1` / `TDb.commitF23` model the orders before ba82c54 / f67544a.
-/
import Pdb.Model.Validate
import Pdb.Props.C01
import Pdb.Proofs.C08Db

namespace Pdb
variable {K V : Type} [DecidableEq K]

/-- A commit call that returns an error leaves the state exactly as it was: overlay, queue,
    id counter, history. -/
theorem C08_rejected_noop (kind : K → Kind) (s : St K V) (tx : List (Op K V))
    (h : (commit kind s tx).2 ≠ .ok) : (commit kind s tx).1 = s := by
  unfold commit at h ⊢
  by_cases hv : tx.all (opValid kind)
  · by_cases he : s.bgErr
    · simp [hv, he]
    · simp [hv, he] at h
  · simp [hv]

/-- A transaction with at least one operation that is invalid for its column is rejected,
    wherever the invalid operation sits among valid ones. -/
theorem C08_invalid_rejected (kind : K → Kind) (s : St K V) (tx : List (Op K V)) (op : Op K V)
    (hm : op ∈ tx) (hinv : opValid kind op = false) :
    (commit kind s tx).2 = .invalidInput ∧ (commit kind s tx).1 = s := by
  have : tx.all (opValid kind) = false := by
    rw [List.all_eq_false]
    exact ⟨op, hm, by simp [hinv]⟩
  simp [commit, this]

def isInvalidCommit (kind : K → Kind) : Action K V → Bool
  | .commit tx => !tx.all (opValid kind)
  | _ => false

/-- Nothing of a rejected transaction becomes visible or persistent later: deleting every
    rejected commit from any history (whatever follows it: further commits, pipeline
    progress, restarts, crashes) yields exactly the same state. -/
theorem C08_no_trace (kind : K → Kind) (s : St K V) (as : List (Action K V)) :
    run kind s as = run kind s (as.filter (fun a => !isInvalidCommit kind a)) := by
  induction as generalizing s with
  | nil => rfl
  | cons a as ih =>
    have hrun : run kind s (a :: as) = run kind (step kind s a) as := rfl
    by_cases hi : isInvalidCommit kind a
    · cases a with
      | commit tx =>
        have hv : tx.all (opValid kind) = false := by simpa [isInvalidCommit] using hi
        have : step kind s (.commit tx) = s := by simp [step, commit, hv]
        rw [hrun, this, List.filter_cons]
        simp [hi, ih]
      | _ => simp [isInvalidCommit] at hi
    · rw [hrun, List.filter_cons]
      simp only [hi, Bool.not_false, if_true]
      exact ih (step kind s a)

open Validate in
/-- The validation matrix: exactly the combinations the property lists are rejected. -/
theorem C08_validation_matrix (o : ColOpts) :
    let mt := o.multitree && !o.btree
    -- key-value operations on a multitree column
    (mt = true → validateChange o .set ≠ .ok ∧ validateChange o .deref ≠ .ok ∧ validateChange o .ref ≠ .ok) ∧
    -- reference on a column without counting
    (mt = false → o.refCounted = false → validateChange o .ref = .invalidInput) ∧
    (mt = false → validateChange o .set = .ok ∧ validateChange o .deref = .ok) ∧
    (mt = false → o.refCounted = true → validateChange o .ref = .ok) ∧
    -- tree operations on non-tree columns
    (mt = false → ∀ f e, validateChange o (.insertTree f) = .invalidInput ∧
        validateChange o .refTree = .invalidInput ∧ validateChange o (.derefTree e) = .invalidInput) ∧
    -- unrepresentable nodes, append-only and missing roots
    (mt = true → ∀ f, (validateChange o (.insertTree f) = .ok ↔ f ≤ 255)) ∧
    (mt = true → (validateChange o .refTree = .ok ↔ (o.appendOnly = true ∨ o.refCounted = true))) ∧
    (mt = true → ∀ e, (validateChange o (.derefTree e) = .ok ↔ (o.appendOnly = false ∧ e = true))) := by
  obtain ⟨bt, mt, rc, ao⟩ := o
  cases bt <;> cases mt <;> cases rc <;> cases ao <;> simp [validateChange] <;> omega

open Validate in
/-- The transaction verdict is ok iff every operation is ok; otherwise it is the verdict of
    the first offending operation, whatever its position. -/
theorem C08_validateTx (cols : List ColOpts) (tx : List (Nat × OpKind)) :
    (validateTx cols tx = .ok ↔ ∀ cop ∈ tx, validateAt cols cop.1 cop.2 = .ok) := by
  induction tx with
  | nil => simp [validateTx]
  | cons cop tx ih =>
    obtain ⟨c, op⟩ := cop
    simp only [validateTx, List.mem_cons, forall_eq_or_imp]
    cases h : validateAt cols c op <;> simp [ih]

section Example
private def kd : Nat → Kind := fun k => if k < 10 then .plain else .rc
private def acts : List (Action Nat Nat) :=
  [.commit [.set 1 10], .commit [.set 2 20, .ref 3, .set 11 5], .process, .commit [.ref 11]]
example : (run kd St.init acts).hist.length = 2 ∧ get (run kd St.init acts) 2 = none ∧
    get (run kd St.init acts) 11 = none ∧ (run kd St.init acts).nextId = 2 := by decide
example : Validate.validateTx [⟨false, false, false, false⟩, ⟨false, true, false, false⟩]
    [(0, .set), (1, .insertTree 3), (0, .ref), (1, .derefTree true)] = .invalidInput := by decide
end Example

end Pdb

#print axioms Pdb.C08_rejected_noop
#print axioms Pdb.C08_invalid_rejected
#print axioms Pdb.C08_no_trace
#print axioms Pdb.C08_validation_matrix
#print axioms Pdb.C08_validateTx

/-! ## Database level: every column kind, claims, counters, the stored background error -/

namespace Pdb
open MultiTree

section Db
variable {K D : Type} [DecidableEq K]

/-- A `commit_changes` call that does not return ok returns the database EQUAL to what it was:
    every column's tables, free-entry stack, fill mark (claimed slots), `to_dereference`
    counters, queue / commit overlay, the commit id counter and the error flag.  For every state
    and every transaction over columns of every kind, operations on non-existent columns
    included. -/
theorem C08_db_rejected_no_trace (db : TDb K D) (tx : List (Nat × DbOp K D))
    (h : (db.commit tx).2 ≠ .ok) : (db.commit tx).1 = db :=
  TDb.commit_err db tx h

/-- A transaction with an operation that `validate_change` refuses for its column (or that names
    a column that does not exist) is rejected and leaves no trace, wherever the operation sits. -/
theorem C08_db_invalid_rejected (db : TDb K D) (tx : List (Nat × DbOp K D)) (cop : Nat × DbOp K D)
    (hm : cop ∈ tx)
    (hinv : Validate.validateAt (db.cols.map Col.opts) cop.1 (db.kindAt cop.1 cop.2) ≠ .ok) :
    (db.commit tx).2 ≠ .ok ∧ (db.commit tx).1 = db :=
  TDb.commit_invalid db tx cop hm hinv

/-- While a background error is stored every commit is refused without a trace; a valid
    transaction is refused with `Error::Background`. -/
theorem C08_db_bgerr_refused (db : TDb K D) (tx : List (Nat × DbOp K D)) (hb : db.bgErr = true) :
    ((db.commit tx).2 ≠ .ok ∧ (db.commit tx).1 = db) ∧
      (db.validate tx = .ok → (db.commit tx).2 = .err .background) := by
  have h2 : (db.commit tx).2 ≠ .ok := by
    intro h
    have := ((TDb.commit_ok_iff db tx).mp h).2
    rw [hb] at this
    cases this
  refine ⟨⟨h2, TDb.commit_err db tx h2⟩, ?_⟩
  intro hv
  rw [TDb.commit_bgerr_eq db tx hv hb]

/-- A commit is accepted iff every operation passes `validate_change` and no background error is
    stored: after validation the assembly loop (claims, counters) cannot fail. -/
theorem C08_db_accepted_iff (db : TDb K D) (tx : List (Nat × DbOp K D)) :
    (db.commit tx).2 = .ok ↔ (db.validate tx = .ok ∧ db.bgErr = false) :=
  TDb.commit_ok_iff db tx

/-- Nothing of a rejected transaction shows later: in every history of commits, pipeline steps
    and background failures, deleting every commit that is rejected in the state it meets yields
    exactly the same final state. -/
theorem C08_db_no_trace_history (db : TDb K D) (as : List (DbAction K D)) :
    runDb db as = runDb db (dropRejected db as) :=
  runDb_dropRejected db as

/-- Per step: stepping over a commit that is rejected is the identity. -/
theorem C08_db_rejected_step (db : TDb K D) (tx : List (Nat × DbOp K D))
    (h : isRejected db tx = true) : stepDb db (.commit tx) = db :=
  stepDb_rejected db (.commit tx) h

/-- A database with one multitree column and no stored error commits a tree-only transaction
    exactly as the column-level `TState.commit` (the object of the C10 theorems) does. -/
theorem C08_db_single_column (s : TState K D) (n : Nat) (ops : List (MultiTree.Op K D)) :
    (⟨[.tree s], n, false⟩ : TDb K D).commit (ops.map (fun op => (0, .tree op))) =
      (⟨[.tree (s.commit ops).1], if resOf (s.commit ops).2 = .ok then n + 1 else n, false⟩,
        resOf (s.commit ops).2) :=
  TDb.commit_single s n ops

/-- A background error stored WHILE `commit_changes` runs (after its one test of `bg_err`, while the
    change set is assembled; HEAD = `TDb.commitConc`, no second test): the call returns what the
    same commit returns when it is made just BEFORE the error is stored, and leaves the state of
    that commit followed by the failure - an accepted transaction is queued with its claims, the
    flag is set behind it.  A call that does not return ok (it was rejected by validation or
    refused by an error stored before the call) leaves the database EQUAL to what it was. -/
theorem C08_db_concurrent_error (db : TDb K D) (tx : List (Nat × DbOp K D)) (stored : Bool) :
    (db.commitConc tx stored).2 = (db.commit tx).2 ∧
    (db.commitConc tx stored).1 =
      (if stored = true ∧ (db.commit tx).2 = .ok then stepDb (stepDb db (.commit tx)) .fail
       else stepDb db (.commit tx)) ∧
    ((db.commitConc tx stored).2 ≠ .ok → (db.commitConc tx stored).1 = db) :=
  ⟨(TDb.commitConc_eq db tx stored).1, (TDb.commitConc_eq db tx stored).2,
   TDb.commitConc_err db tx stored⟩

end Db

section Witness

/-- one plain multitree column -/
private def colP : Col Nat Nat := .tree (TState.init .plain)
/-- InsertTree of a root with one new leaf -/
private def insOp : DbOp Nat Nat := .tree (.insert 1 ⟨7, .cons (.new 8 .nil) .nil⟩)
private def dbBg : TDb Nat Nat := ⟨[colP], 0, true⟩
private def dbOk : TDb Nat Nat := ⟨[colP], 0, false⟩
private def txIns : List (Nat × DbOp Nat Nat) := [(0, insOp)]
private def txInsRef : List (Nat × DbOp Nat Nat) := [(0, insOp), (0, .tree (.reference 1))]

/-- Defect F23 (order before f67544a: the background error is tested in `commit_raw`, after the
    assembly loop): the refused InsertTree keeps its claimed node slot (fill mark 0 -> 1). -/
theorem C08_db_F23_order_leaves_trace :
    ∃ (db : TDb Nat Nat) (tx : List (Nat × DbOp Nat Nat)),
      (db.commitF23 tx).2 = .err .background ∧ (db.commitF23 tx).1 ≠ db :=
  ⟨dbBg, txIns, by decide, fun h => absurd (congrArg TDb.fillMarks h) (by decide)⟩

/-- Defect F1 (order before ba82c54 / d908c4b: validation inside the assembly loop): InsertTree
    followed by an invalid ReferenceTree (no ref_counted) is rejected, the claim of the InsertTree
    stays. -/
theorem C08_db_F1_order_leaves_trace :
    ∃ (db : TDb Nat Nat) (tx : List (Nat × DbOp Nat Nat)),
      (db.commitF1 tx).2 = .err .invalidInput ∧ (db.commitF1 tx).1 ≠ db :=
  ⟨dbOk, txInsRef, by decide, fun h => absurd (congrArg TDb.fillMarks h) (by decide)⟩

/-- Defect F44 (order before the fix: `commit_raw` tests the background error a SECOND time): an
    error stored while the change set is assembled refuses the InsertTree AFTER its node slot was
    claimed (fill mark 0 -> 1): the state is not the state before the call with the error flag
    set. -/
theorem C08_db_F44_order_leaves_trace :
    ∃ (db : TDb Nat Nat) (tx : List (Nat × DbOp Nat Nat)),
      (db.commitF44 tx true).2 = .err .background ∧
      (db.commitF44 tx true).1 ≠ { db with bgErr := true } ∧
      (db.commitF44 tx true).1.fillMarks ≠ db.fillMarks :=
  ⟨dbOk, txIns, by decide, fun h => absurd (congrArg TDb.fillMarks h) (by decide), by decide⟩

-- the claimed slot is the trace
example : (dbOk.commitF44 txIns true).1.fillMarks = [1] ∧ dbOk.fillMarks = [0] := by decide
-- HEAD on the same input: accepted and queued, the error flag set afterwards
example : (dbOk.commitConc txIns true).2 = .ok ∧ (dbOk.commitConc txIns true).1.bgErr = true ∧
    (dbOk.commitConc txIns true).1.nextId = 1 ∧ (dbOk.commitConc txIns true).1.fillMarks = [1] := by
  decide
example : (dbBg.commitF23 txIns).1.fillMarks = [1] ∧ dbBg.fillMarks = [0] := by decide
example : (dbOk.commitF1 txInsRef).1.fillMarks = [1] ∧ dbOk.fillMarks = [0] := by decide

/-- the FIXED order on the same two inputs: same error, state unchanged -/
example : (dbBg.commit txIns).2 = .err .background ∧ (dbBg.commit txIns).1 = dbBg :=
  ⟨by decide, C08_db_rejected_no_trace _ _ (by decide)⟩
example : (dbOk.commit txInsRef).2 = .err .invalidInput ∧ (dbOk.commit txInsRef).1 = dbOk :=
  ⟨by decide, C08_db_rejected_no_trace _ _ (by decide)⟩
example : (dbBg.commit txIns).1.fillMarks = [0] ∧ (dbOk.commit txInsRef).1.fillMarks = [0] := by
  decide

/-! non-vacuity: a tree column (ref-counted roots) AND a key-value column -/

private def db2 : TDb Nat Nat := ⟨[.tree (TState.init .rcRoots), .kv ⟨.empty, []⟩], 0, false⟩
/-- valid: InsertTree on column 0, Set on column 1 -/
private def txGood : List (Nat × DbOp Nat Nat) := [(0, insOp), (1, .set 3 4)]
/-- an invalid operation in the middle: Reference on a key-value column without ref_counted -/
private def txBad : List (Nat × DbOp Nat Nat) := [(0, insOp), (1, .ref 5), (1, .set 3 4)]
/-- an operation on a column that does not exist, last -/
private def txNoCol : List (Nat × DbOp Nat Nat) := [(0, insOp), (1, .set 3 4), (2, .set 1 1)]
/-- DereferenceTree of a root that does not exist, between valid operations -/
private def txNoRoot : List (Nat × DbOp Nat Nat) :=
  [(1, .set 3 4), (0, .tree (.dereference 9)), (0, insOp)]

-- hypotheses of `C08_db_invalid_rejected` / `C08_db_rejected_no_trace` are satisfiable
example : (1, DbOp.ref 5) ∈ txBad ∧
    Validate.validateAt (db2.cols.map Col.opts) 1 (db2.kindAt 1 (.ref 5)) ≠ .ok :=
  ⟨.tail _ (.head _), by decide⟩
example : (db2.commit txBad).2 = .err .invalidInput ∧ (db2.commit txNoCol).2 = .err .invalidInput ∧
    (db2.commit txNoRoot).2 = .err .invalidConfiguration := by decide
example : (db2.commit txBad).1 = db2 := C08_db_rejected_no_trace _ _ (by decide)
-- an accepted commit does leave a trace: claimed slot, id counter
example : (db2.commit txGood).2 = .ok ∧ (db2.commit txGood).1.fillMarks = [1, 0] ∧
    (db2.commit txGood).1.nextId = 1 := by decide
-- the same valid transaction with a stored error
example : ({ db2 with bgErr := true }.commit txGood).2 = .err .background := by decide

private def hist : List (DbAction Nat Nat) :=
  [.commit txGood, .commit txBad, .process, .commit txNoRoot, .fail, .commit txGood, .commit txNoCol]
-- three of the seven actions survive... and the valid commit after `fail` is rejected too
example : (dropRejected db2 hist).length = 3 ∧ (runDb db2 hist).nextId = 1 ∧
    (runDb db2 hist).fillMarks = [1, 0] ∧ (runDb db2 hist).bgErr = true := by decide
-- single column form
example : ((⟨[.tree (TState.init .plain)], 5, false⟩ : TDb Nat Nat).commit
    ([MultiTree.Op.insert 1 ⟨7, .cons (.new 8 .nil) .nil⟩].map (fun op => (0, .tree op)))).2 = .ok ∧
    ((TState.init .plain : TState Nat Nat).commit [.insert 1 ⟨7, .cons (.new 8 .nil) .nil⟩]).1.heap.next = 1 := by
  decide

end Witness

end Pdb

#print axioms Pdb.C08_db_rejected_no_trace
#print axioms Pdb.C08_db_invalid_rejected
#print axioms Pdb.C08_db_bgerr_refused
#print axioms Pdb.C08_db_accepted_iff
#print axioms Pdb.C08_db_no_trace_history
#print axioms Pdb.C08_db_rejected_step
#print axioms Pdb.C08_db_single_column
#print axioms Pdb.C08_db_F23_order_leaves_trace
#print axioms Pdb.C08_db_F44_order_leaves_trace
#print axioms Pdb.C08_db_concurrent_error
#print axioms Pdb.C08_db_F1_order_leaves_trace
