/-
C10, transactions and address reuse: definitions shared by the proofs.

  viewOf H            the root view of an atomic heap (`get(col, key)` with nothing queued)
  specTx              ATOMIC semantics of a transaction in the implementation's planning order:
                      validate against `H`, assemble with the allocator state (free stack, fill
                      mark) given, apply the change set at once (`write_plan` order: the root
                      changes that are not postponed, all node changes, then the root `Set`s of the
                      keys that are dereferenced in the same change set)
  inOrderOp           the same operations executed one after the other (InsertTree with its
                      claimed addresses as supply = `insertTreeA`)
  HeapEqv             equality of heaps up to the order of the `roots` association list
  CmdT / stepT / runT schedules of the pipeline model `TState`, run in lockstep with the atomic
                      heap (the atomic transaction gets the addresses the pipeline's allocator
                      handed out)
  AllocInv            slot accounting of the pipeline state: free stack, table nodes and the slots
                      claimed by queued commits partition the addresses below the fill mark
  Stored              "reference r is stored at address a": fuel-free form of read back
-/
import Pdb.Proofs.DumpCheckRcOps
import Pdb.Proofs.C10Stage

namespace Pdb.MultiTree
set_option linter.unusedSectionVars false
variable {K D : Type} [DecidableEq K]

/-- root view of a heap with nothing queued -/
def viewOf (H : Heap K D) (k : K) : Option (Node D) := (H.roots.get k).map Prod.fst

/-- the change set a valid transaction assembles on `H` with allocator state `(free, next)` -/
def specCs (v : Variant) (H : Heap K D) (free : List Addr) (next : Addr) (ops : List (Op K D)) :
    ChangeSet K D :=
  (asmOps v (viewOf H) ⟨free, next, .empty, .empty⟩ ops).1.cs

/-- ATOMIC transaction in planning order; a rejected transaction (or one whose planning fails)
    leaves the heap as it was. -/
def specTx (v : Variant) (H : Heap K D) (free : List Addr) (next : Addr) (ops : List (Op K D)) :
    Heap K D :=
  match validateOps v (viewOf H) ops with
  | .ok => okOr H ((applyChangeSet v (H, []) (specCs v H free next ops)).map Prod.fst)
  | _ => H

/-- one operation executed on its own, with the allocator threaded through -/
def inOrderOp (v : Variant) (x : Heap K D × List Addr × Addr) : Op K D → Heap K D × List Addr × Addr
  | .insert k t =>
    match claimEntries t.children.news x.2.1 x.2.2 with
    | (claimed, f, n) => (insertTreeA v x.1 claimed k t, f, n)
  | .reference k => (okOr x.1 (referenceTree v x.1 k), x.2.1, x.2.2)
  | .dereference k => (okOr x.1 (dereferenceTree v x.1 k), x.2.1, x.2.2)

def inOrderTx (v : Variant) (H : Heap K D) (free : List Addr) (next : Addr) (ops : List (Op K D)) :
    Heap K D :=
  (ops.foldl (inOrderOp v) (H, free, next)).1

/-- the key an operation names -/
def Op.key : Op K D → K
  | .insert k _ => k
  | .reference k => k
  | .dereference k => k

def Op.isDeref : Op K D → Bool
  | .dereference _ => true
  | _ => false

def Op.isInsert : Op K D → Bool
  | .insert _ _ => true
  | _ => false

def Op.isRef : Op K D → Bool
  | .reference _ => true
  | _ => false

/-- No ReferenceTree k after a DereferenceTree k and no DereferenceTree k after an InsertTree k in
    one transaction.  `write_plan` plans the root `Reference`s (and the root `Set`s of keys that are
    not dereferenced in the transaction) in front of every dereference, and a `DereferenceChildren`
    carries the children read BEFORE the call: only these two patterns can tell the planning order
    from the order given.

    `[DereferenceTree k, InsertTree k t']` ("replace the tree under k") is INSIDE the hypothesis
    since the fix of finding F41 (the root `Set` of a key that is dereferenced in the same change
    set is planned after the node changes).  The hypothesis before that fix, which also excluded an
    InsertTree k after a DereferenceTree k, is `DerefApartF41`. -/
def DerefApart : List (Op K D) → Prop
  | [] => True
  | op :: ops =>
    (op.isDeref = true → ∀ op' ∈ ops, op'.isRef = true → op'.key ≠ op.key) ∧
    (op.isInsert = true → ∀ op' ∈ ops, op'.isDeref = true → op'.key ≠ op.key) ∧ DerefApart ops

/-- the stronger hypothesis the unfixed planning order (`applyChangeSetF41`) needed: an InsertTree k
    and a DereferenceTree k never occur in the same transaction, and no ReferenceTree k comes after
    a DereferenceTree k -/
def DerefApartF41 : List (Op K D) → Prop
  | [] => True
  | op :: ops =>
    (op.isDeref = true → ∀ op' ∈ ops, op'.isDeref = false → op'.key ≠ op.key) ∧
    (op.isInsert = true → ∀ op' ∈ ops, op'.isDeref = true → op'.key ≠ op.key) ∧ DerefApartF41 ops

/-- The property's side conditions on a transaction, read in order: an inserted key has no live
    root at that point (so: none before the call, and no second InsertTree of it), every `Existing`
    child names a node present at that point. -/
def LegalInOrder (v : Variant) : Heap K D × List Addr × Addr → List (Op K D) → Prop
  | _, [] => True
  | x, op :: ops => op.legal x.1 ∧ LegalInOrder v (inOrderOp v x op) ops

/-- every DereferenceTree names a root that is live (in the atomic heap) when the call is made: the
    client holds the reference it gives up.  (A root whose last dereference is still queued is
    still readable and `validate_change` accepts another DereferenceTree of it, a no-op when
    processed; the atomic reading would reject the transaction.) -/
def DerefLive (H : Heap K D) (ops : List (Op K D)) : Prop :=
  ∀ op ∈ ops, op.isDeref = true → (viewOf H op.key).isSome = true

/-- the allocator state is sound for the heap: free slots are distinct, hold no node, lie below
    the fill mark; every node lies below the fill mark -/
structure SupplyOk (H : Heap K D) (free : List Addr) (next : Addr) : Prop where
  nodup : free.Nodup
  fresh : ∀ a ∈ free, ¬ present H a
  below : ∀ a ∈ free, a < next
  nodesBelow : ∀ a, present H a → a < next

/-- equality up to the order of the root entries -/
structure HeapEqv (h h' : Heap K D) : Prop where
  nodes : h.nodes = h'.nodes
  rc : h.rc = h'.rc
  next : h.next = h'.next
  roots : h.roots.l.Perm h'.roots.l

/-! ### schedules -/

inductive CmdT (K D : Type) where
  | commit (ops : List (Op K D))
  | process

def stepT (s : TState K D) : CmdT K D → TState K D
  | .commit ops => (s.commit ops).1
  | .process => okOr s s.process

/-- the same schedule step with the planning order BEFORE the fix of finding F41 (all root changes,
    then all node changes): what the witnesses `C10T_F41_*` run -/
def stepTF41 (s : TState K D) : CmdT K D → TState K D
  | .commit ops => (s.commit ops).1
  | .process => okOr s s.processF41

/-- pipeline state and atomic heap in lockstep -/
def stepTH (v : Variant) (x : TState K D × Heap K D) : CmdT K D → TState K D × Heap K D
  | .commit ops => ((x.1.commit ops).1, specTx v x.2 x.1.free x.1.heap.next ops)
  | .process => (okOr x.1 x.1.process, x.2)

def runT (v : Variant) (x : TState K D × Heap K D) (cmds : List (CmdT K D)) : TState K D × Heap K D :=
  cmds.foldl (stepTH v) x

/-- every committed transaction is legal when it is committed (judged on the atomic heap) -/
def LegalRunT (v : Variant) : TState K D × Heap K D → List (CmdT K D) → Prop
  | _, [] => True
  | x, .commit ops :: cs =>
    (DerefApart ops ∧ DerefLive x.2 ops ∧ LegalInOrder v (x.2, x.1.free, x.1.heap.next) ops) ∧
      LegalRunT v (stepTH v x (.commit ops)) cs
  | x, .process :: cs => LegalRunT v (stepTH v x .process) cs

/-- addresses claimed by a queued commit -/
def csClaimed (cs : ChangeSet K D) : List Addr :=
  cs.nodeChanges.filterMap (fun c => match c with | .newValue a _ => some a | _ => none)

def queueClaimed (q : List (ChangeSet K D)) : List Addr := q.flatMap csClaimed

/-- slot accounting: the free stack, the table nodes and the claimed slots are pairwise disjoint,
    without repetition, and together they are exactly the addresses below the fill mark -/
structure AllocInv (s : TState K D) : Prop where
  nodup : (s.free ++ queueClaimed s.queue).Nodup
  notPresent : ∀ a ∈ s.free ++ queueClaimed s.queue, ¬ present s.heap a
  cover : ∀ a, a < s.heap.next ↔ (a ∈ s.free ∨ a ∈ queueClaimed s.queue ∨ present s.heap a)

/-! ### stored trees (read back without fuel) -/

mutual
  /-- reference `r` is stored at address `a` through the node view `view`: an `Existing` child IS
      the address it named; a new node is readable at `a` with exactly its data and its children
      stored, in order, at the child addresses recorded with it -/
  inductive Stored (view : Addr → Option (Node D)) : NRef D → Addr → Prop where
    | existing (a : Addr) : Stored view (.existing a) a
    | new (d : D) (cs : NRefs D) (a : Addr) (as : List Addr) :
        view a = some ⟨d, as⟩ → StoredL view cs as → Stored view (.new d cs) a
  inductive StoredL (view : Addr → Option (Node D)) : NRefs D → List Addr → Prop where
    | nil : StoredL view .nil []
    | cons (r : NRef D) (rs : NRefs D) (a : Addr) (as : List Addr) :
        Stored view r a → StoredL view rs as → StoredL view (.cons r rs) (a :: as)
end

/-- the tree `t` is stored under key `k`: the root entry carries its data and its children are
    stored at the recorded addresses -/
def StoredTree (vr : K → Option (Node D)) (vn : Addr → Option (Node D)) (k : K) (t : NewNode D) : Prop :=
  ∃ as, vr k = some ⟨t.data, as⟩ ∧ StoredL vn t.children as

end Pdb.MultiTree
