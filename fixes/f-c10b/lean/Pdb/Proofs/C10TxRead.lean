/-
C10, transactions and address reuse: what an accepted InsertTree makes readable.

"An accepted tree insertion makes the root (looked up by its key) and every descendant readable
with exactly the data and child order supplied, where children given as existing addresses resolve
to the nodes they named" - for InsertTree with REUSED addresses (`insertTreeA`) and inside
transactions of several operations (`specTx`), in the fuel-free form `StoredTree`
(Pdb/Proofs/C10TxDefs.lean).

  Stored.mono / StoredL.mono      a larger node view stores what a smaller one stores
  insRefA_stored / insRefsA_stored  the references inserted with a supply of free addresses are
                                  stored at the addresses returned
  insertTreeA_stored              InsertTree under address reuse: the tree is stored under its key
  Stored.keep / StoredL.keep      a stored reference stays stored in a CLOSED heap that never
                                  rewrites a node, as long as its address stays present
  StoredL.sub                     ... in particular when nodes are only removed
  StoredTree.keep                 ... for a tree whose root entry keeps its node
  inOrderOp_stored                one operation that is legal and is not a DereferenceTree of `k`
                                  keeps the tree under `k` stored
  inOrderRun_stored               ... a list of such operations
  inOrderTx_stored / specTx_stored   MAIN: every InsertTree of a legal accepted transaction is
                                  stored in the heap after the transaction
  stored_of_views                 ... and through any views that show the roots / nodes of the heap
-/
import Pdb.Proofs.C10TxInv
import Pdb.Proofs.C10TxSim

namespace Pdb.MultiTree
set_option linter.unusedSectionVars false
variable {K D : Type} [DecidableEq K]

/-! ## (R1) monotonicity in the node view -/

mutual
  theorem Stored.mono {view view' : Addr → Option (Node D)}
      (hv : ∀ x n, view x = some n → view' x = some n) :
      ∀ (r : NRef D) (a : Addr), Stored view r a → Stored view' r a
    | .existing _, _, h => by cases h; exact .existing _
    | .new d cs, a, h => by
      cases h with
      | new _ _ _ as hg hl => exact .new d cs a as (hv a _ hg) (StoredL.mono hv cs as hl)
  theorem StoredL.mono {view view' : Addr → Option (Node D)}
      (hv : ∀ x n, view x = some n → view' x = some n) :
      ∀ (cs : NRefs D) (as : List Addr), StoredL view cs as → StoredL view' cs as
    | .nil, _, h => by cases h; exact .nil
    | .cons r rs, _, h => by
      cases h with
      | cons _ _ a as h1 h2 => exact .cons r rs a as (Stored.mono hv r a h1) (StoredL.mono hv rs as h2)
end

/-- the addresses of a stored list: one per reference -/
theorem StoredL.length {view : Addr → Option (Node D)} :
    ∀ (cs : NRefs D) (as : List Addr), StoredL view cs as → as.length = cs.length
  | .nil, _, h => by cases h; rfl
  | .cons r rs, _, h => by
    cases h with
    | cons _ _ a as h1 h2 => simp only [List.length_cons, NRefs.length, StoredL.length rs as h2]

/-! ## (R2) inserting references with a supply of free addresses stores them -/

mutual
  theorem insRefA_stored (ap : Bool) : ∀ (r : NRef D) (h : Heap K D) (fresh : List Addr),
      (∃ rank, ShapeR rank h) → fresh.Nodup → (∀ b ∈ fresh, ¬ present h b) → r.live h →
      r.newCount ≤ fresh.length →
      Stored (insRefA ap h fresh r).1.nodes.get r (insRefA ap h fresh r).2.2
    | .existing a, h, fresh, _, _, _, _, _ => by
      simp only [insRefA]
      exact .existing a
    | .new d cs, h, fresh, hs, hn, hf, hl, hlen => by
      simp only [NRef.live] at hl
      simp only [NRef.newCount] at hlen
      have ok := insRefsA_ok ap cs h fresh hs hn hf hl (by omega)
      have ih := insRefsA_stored ap cs h fresh hs hn hf hl (by omega)
      have hrest := ok.rest_fresh hn hf
      rcases hR : insRefsA ap h fresh cs with ⟨h1, f1, as⟩
      simp only [hR] at ok ih hrest
      simp only [insRefA, hR]
      obtain ⟨used, he, hul, _⟩ := ok.used
      have hf1 : f1 ≠ [] := by
        intro e
        rw [e, List.append_nil] at he
        rw [he, hul] at hlen
        omega
      obtain ⟨b, f2, rfl⟩ := List.exists_cons_of_ne_nil hf1
      simp only [List.headD_cons]
      have hbn : ¬ present h1 b := hrest.2 b (by simp)
      refine .new d cs b as (FMap.get_set_same _ _ _) ?_
      -- the children stay stored: the node is written at an address that held nothing
      apply StoredL.mono _ cs as ih
      intro x n hg
      have hxb : x ≠ b := fun e => hbn (e ▸ (present_iff h1 x).mpr ⟨n, hg⟩)
      rw [FMap.get_set_other _ _ _ _ hxb]
      exact hg
  theorem insRefsA_stored (ap : Bool) : ∀ (cs : NRefs D) (h : Heap K D) (fresh : List Addr),
      (∃ rank, ShapeR rank h) → fresh.Nodup → (∀ b ∈ fresh, ¬ present h b) → cs.live h →
      cs.newCount ≤ fresh.length →
      StoredL (insRefsA ap h fresh cs).1.nodes.get cs (insRefsA ap h fresh cs).2.2
    | .nil, h, fresh, _, _, _, _, _ => by
      simp only [insRefsA]
      exact .nil
    | .cons r rs, h, fresh, hs, hn, hf, hl, hlen => by
      simp only [NRefs.live] at hl
      simp only [NRefs.newCount] at hlen
      have ok1 := insRefA_ok ap r h fresh hs hn hf hl.1 (by omega)
      have ih1 := insRefA_stored ap r h fresh hs hn hf hl.1 (by omega)
      have hrest := ok1.rest_fresh hn hf
      rcases hR1 : insRefA ap h fresh r with ⟨h1, f1, a⟩
      simp only [hR1] at ok1 ih1 hrest
      have hl2 : rs.live h1 := NRefs.live_mono h h1 ok1.present_mono rs hl.2
      obtain ⟨used1, he1, hul1, _⟩ := ok1.used
      have hlen2 : rs.newCount ≤ f1.length := by
        have : fresh.length = used1.length + f1.length := by rw [he1, List.length_append]
        omega
      have ok2 := insRefsA_ok ap rs h1 f1 ok1.shape hrest.1 hrest.2 hl2 hlen2
      have ih2 := insRefsA_stored ap rs h1 f1 ok1.shape hrest.1 hrest.2 hl2 hlen2
      rcases hR2 : insRefsA ap h1 f1 rs with ⟨h2, f2, as⟩
      simp only [hR2] at ok2 ih2
      simp only [insRefsA, hR1, hR2]
      refine .cons r rs a as ?_ ih2
      -- the later references leave the nodes present in `h1` as they are
      apply Stored.mono _ r a ih1
      intro x n hg
      rw [ok2.frame x ((present_iff h1 x).mpr ⟨n, hg⟩)]
      exact hg
end

/-! ## (R3) InsertTree under address reuse -/

/-- InsertTree of a key without root, the new nodes at ANY pairwise distinct free addresses:
    the root is readable under its key with the data supplied, every descendant is readable with
    its data and its children in the order supplied, `Existing` children are the addresses named. -/
theorem insertTreeA_stored (v : Variant) (h : Heap K D) (fresh : List Addr) (k : K) (t : NewNode D)
    (hi : InvR v h) (hl : t.children.live h) (hk : h.roots.get k = none) (hn : fresh.Nodup)
    (hf : ∀ b ∈ fresh, ¬ present h b) (hlen : t.children.newCount ≤ fresh.length) :
    StoredTree (viewOf (insertTreeA v h fresh k t)) (insertTreeA v h fresh k t).nodes.get k t := by
  have ok := insRefsA_ok (decide (v = .appendOnly)) t.children h fresh hi.shape hn hf hl hlen
  have st := insRefsA_stored (decide (v = .appendOnly)) t.children h fresh hi.shape hn hf hl hlen
  simp only [insertTreeA]
  rcases hR : insRefsA (decide (v = .appendOnly)) h fresh t.children with ⟨h1, f1, as⟩
  simp only [hR] at ok st
  have hk1 : h1.roots.get k = none := by rw [ok.roots]; exact hk
  have hre : rootEntry v (h1.roots.get k) ⟨t.data, as⟩ = (⟨t.data, as⟩, 1) := by
    rw [hk1]; cases v <;> rfl
  refine ⟨as, ?_, st⟩
  simp only [viewOf, FMap.get_set_same, hre, Option.map_some]

/-! ## (R4) preservation -/

mutual
  /-- A stored reference stays stored when the heap changes to a closed heap in which its address
      is still present and no node present before has been rewritten (nodes may have been removed,
      new nodes may have been written at other addresses). -/
  theorem Stored.keep (h h' : Heap K D)
      (hkeep : ∀ b n, present h b → h'.nodes.get b = some n → h.nodes.get b = some n)
      (hc : ShapeC h') :
      ∀ (r : NRef D) (a : Addr), present h' a → Stored h.nodes.get r a → Stored h'.nodes.get r a
    | .existing _, _, _, st => by cases st; exact .existing _
    | .new d cs, a, hp, st => by
      cases st with
      | new _ _ _ as hg hl =>
        obtain ⟨n, hn⟩ := (present_iff h' a).mp hp
        have hn' := hkeep a n ((present_iff h a).mpr ⟨_, hg⟩) hn
        rw [hg] at hn'
        simp only [Option.some.injEq] at hn'
        subst hn'
        exact .new d cs a as hn
          (StoredL.keep h h' hkeep hc cs as (fun c hcm => hc.closedN a _ hn c hcm) hl)
  theorem StoredL.keep (h h' : Heap K D)
      (hkeep : ∀ b n, present h b → h'.nodes.get b = some n → h.nodes.get b = some n)
      (hc : ShapeC h') :
      ∀ (cs : NRefs D) (as : List Addr), (∀ a ∈ as, present h' a) → StoredL h.nodes.get cs as →
        StoredL h'.nodes.get cs as
    | .nil, _, _, st => by cases st; exact .nil
    | .cons r rs, _, hp, st => by
      cases st with
      | cons _ _ a as h1 h2 =>
        exact .cons r rs a as (Stored.keep h h' hkeep hc r a (hp a (by simp)) h1)
          (StoredL.keep h h' hkeep hc rs as (fun x hx => hp x (List.mem_cons_of_mem _ hx)) h2)
end

/-- ... in particular when nodes are only removed (a dereference walk). -/
theorem StoredL.sub (h h' : Heap K D)
    (hsub : ∀ b n, h'.nodes.get b = some n → h.nodes.get b = some n) (hc : ShapeC h') :
    ∀ (cs : NRefs D) (as : List Addr), (∀ a ∈ as, present h' a) → StoredL h.nodes.get cs as →
      StoredL h'.nodes.get cs as :=
  StoredL.keep h h' (fun b n _ hg => hsub b n hg) hc

theorem Stored.sub (h h' : Heap K D)
    (hsub : ∀ b n, h'.nodes.get b = some n → h.nodes.get b = some n) (hc : ShapeC h') :
    ∀ (r : NRef D) (a : Addr), present h' a → Stored h.nodes.get r a → Stored h'.nodes.get r a :=
  Stored.keep h h' (fun b n _ hg => hsub b n hg) hc

theorem viewOf_eq_some (H : Heap K D) (k : K) (r : Node D) :
    viewOf H k = some r ↔ ∃ c, H.roots.get k = some (r, c) := by
  simp only [viewOf]
  cases hg : H.roots.get k with
  | none => simp
  | some e =>
    obtain ⟨r', c'⟩ := e
    simp only [Option.map_some, Option.some.injEq, Prod.mk.injEq]
    constructor
    · intro e; exact ⟨c', e, rfl⟩
    · intro ⟨c, e, _⟩; exact e

/-- A stored tree stays stored as long as its root entry keeps its node (the count may change),
    the heap stays closed and no node is rewritten. -/
theorem StoredTree.keep (h h' : Heap K D)
    (hkeep : ∀ b n, present h b → h'.nodes.get b = some n → h.nodes.get b = some n)
    (hc : ShapeC h') (k : K) (t : NewNode D)
    (hroot : ∀ r c, h.roots.get k = some (r, c) → ∃ c', h'.roots.get k = some (r, c'))
    (st : StoredTree (viewOf h) h.nodes.get k t) : StoredTree (viewOf h') h'.nodes.get k t := by
  obtain ⟨as, hv, hl⟩ := st
  obtain ⟨c, hg⟩ := (viewOf_eq_some h k _).mp hv
  obtain ⟨c', hg'⟩ := hroot _ c hg
  refine ⟨as, (viewOf_eq_some h' k _).mpr ⟨c', hg'⟩, ?_⟩
  exact StoredL.keep h h' hkeep hc t.children as (fun a ha => hc.closedR k _ hg' a ha) hl

/-! ### one operation / a list of operations of a transaction -/

/-- The root entry of `k` keeps its node through an operation that is legal and is not a
    DereferenceTree of `k` (an InsertTree of `k` is not legal while `k` has a root; a
    ReferenceTree of `k` changes only the count).  No hypothesis on the heap. -/
theorem inOrderOp_root_kept (v : Variant) (x : Heap K D × List Addr × Addr) (op : Op K D) (k : K)
    (hl : op.legal x.1) (hd : op.isDeref = true → op.key ≠ k) (r : Node D) (c : Nat)
    (hg : x.1.roots.get k = some (r, c)) : ∃ c', (inOrderOp v x op).1.roots.get k = some (r, c') := by
  cases op with
  | insert k' t =>
    have hkk : k ≠ k' := by
      intro e
      subst e
      rw [hl.1] at hg
      cases hg
    rcases hC : claimEntries t.children.news x.2.1 x.2.2 with ⟨claimed, f, n⟩
    simp only [inOrderOp, hC]
    rw [(insertTreeA_roots v x.1 claimed k' t).1, FMap.get_set_other _ _ _ _ hkk]
    exact ⟨c, hg⟩
  | reference k' =>
    simp only [inOrderOp]
    rw [referenceTree_get v x.1 k' k, hg]
    by_cases hkk : k = k'
    · simp only [hkk, if_true, refUpd]
      split
      · exact ⟨_, rfl⟩
      · exact ⟨_, rfl⟩
    · simp only [hkk, if_false]
      exact ⟨c, rfl⟩
  | dereference k' =>
    have hkk : k ≠ k' := fun e => hd rfl e.symm
    simp only [inOrderOp]
    cases hr : dereferenceTree v x.1 k' with
    | error e => exact ⟨c, hg⟩
    | ok h2 =>
      simp only [okOr]
      simp only [dereferenceTree] at hr
      split at hr
      · cases hr
      · split at hr
        · cases hr
        · rw [derefProcess_get v x.1 h2 k' _ hr k hkk]
          exact ⟨c, hg⟩

/-- (R4) One operation of a transaction - a ReferenceTree of any key, a DereferenceTree of ANOTHER
    key, a (legal, hence other-key) InsertTree - keeps the tree stored under `k` stored. -/
theorem inOrderOp_stored (v : Variant) (x : Heap K D × List Addr × Addr) (op : Op K D)
    (hi : InvR v x.1) (hs : SupplyOk x.1 x.2.1 x.2.2) (hl : op.legal x.1) (k : K) (t : NewNode D)
    (hd : op.isDeref = true → op.key ≠ k) (st : StoredTree (viewOf x.1) x.1.nodes.get k t) :
    StoredTree (viewOf (inOrderOp v x op).1) (inOrderOp v x op).1.nodes.get k t := by
  obtain ⟨_, r⟩ := inOrderOp_run v x op hi hs hl
  obtain ⟨rank, hsh⟩ := r.inv.shape
  exact StoredTree.keep x.1 (inOrderOp v x op).1 r.keep hsh.core k t
    (fun r0 c hg => inOrderOp_root_kept v x op k hl hd r0 c hg) st

theorem inOrderRun_root_kept (v : Variant) (k : K) (r : Node D) :
    ∀ (ops : List (Op K D)) (x : Heap K D × List Addr × Addr), LegalInOrder v x ops →
      (∀ op ∈ ops, op.isDeref = true → op.key ≠ k) → ∀ c, x.1.roots.get k = some (r, c) →
      ∃ c', (ops.foldl (inOrderOp v) x).1.roots.get k = some (r, c') := by
  intro ops
  induction ops with
  | nil => intro x _ _ c hg; exact ⟨c, hg⟩
  | cons op ops ih =>
    intro x hl hd c hg
    obtain ⟨c1, hg1⟩ := inOrderOp_root_kept v x op k hl.1 (hd op (by simp)) r c hg
    exact ih (inOrderOp v x op) hl.2 (fun op' hm => hd op' (List.mem_cons_of_mem _ hm)) c1 hg1

/-- (R4) A list of operations executed in order, legal at every point and without a
    DereferenceTree of `k`, keeps the tree stored under `k` stored. -/
theorem inOrderRun_stored (v : Variant) (ops : List (Op K D)) (x : Heap K D × List Addr × Addr)
    (hi : InvR v x.1) (hs : SupplyOk x.1 x.2.1 x.2.2) (hl : LegalInOrder v x ops) (k : K)
    (t : NewNode D) (hd : ∀ op ∈ ops, op.isDeref = true → op.key ≠ k)
    (st : StoredTree (viewOf x.1) x.1.nodes.get k t) :
    StoredTree (viewOf (ops.foldl (inOrderOp v) x).1) (ops.foldl (inOrderOp v) x).1.nodes.get k t := by
  obtain ⟨_, r⟩ := inOrderE_run v ops x hi hs hl
  obtain ⟨rank, hsh⟩ := r.inv.shape
  exact StoredTree.keep x.1 (ops.foldl (inOrderOp v) x).1 r.keep hsh.core k t
    (fun r0 c hg => inOrderRun_root_kept v k r0 ops x hl hd c hg) st

/-! ## (R5) the transaction -/

/-- the InsertTree step of a transaction, with the addresses the allocator hands out -/
theorem inOrderOp_insert_stored (v : Variant) (x : Heap K D × List Addr × Addr) (k : K)
    (t : NewNode D) (hi : InvR v x.1) (hs : SupplyOk x.1 x.2.1 x.2.2)
    (hl : (Op.insert k t).legal x.1) :
    StoredTree (viewOf (inOrderOp v x (.insert k t)).1) (inOrderOp v x (.insert k t)).1.nodes.get k t := by
  obtain ⟨h, free, next⟩ := x
  simp only at hi hs hl
  have hcs := claimEntries_sound t.children.news free next hs.nodup hs.below
  have hlen := claimEntries_length t.children.news free next
  rcases hC : claimEntries t.children.news free next with ⟨claimed, f, nx⟩
  simp only [hC] at hcs hlen
  obtain ⟨c1, c2, _⟩ := hcs
  simp only [inOrderOp, hC]
  have hfresh : ∀ b ∈ claimed, ¬ present h b := by
    intro b hb hp
    rcases c2 b hb with h1 | h1
    · exact hs.fresh b h1 hp
    · have := hs.nodesBelow b hp; omega
  have hcount : t.children.newCount ≤ claimed.length := by
    rw [hlen, NRefs.news_eq_newCount]; exact Nat.le_refl _
  exact insertTreeA_stored v h claimed k t hi hl.2 hl.1 c1 hfresh hcount

/-- The operations of a legal transaction executed in order: every tree inserted is stored in
    the final heap (the later operations of the transaction do not disturb it: by `LegalInOrder`
    no later InsertTree names its key, by `DerefApart` no later DereferenceTree does). -/
theorem inOrderRun_insert_stored (v : Variant) :
    ∀ (ops : List (Op K D)) (x : Heap K D × List Addr × Addr), InvR v x.1 →
      SupplyOk x.1 x.2.1 x.2.2 → DerefApart ops → LegalInOrder v x ops →
      ∀ k t, Op.insert k t ∈ ops →
        StoredTree (viewOf (ops.foldl (inOrderOp v) x).1) (ops.foldl (inOrderOp v) x).1.nodes.get k t := by
  intro ops
  induction ops with
  | nil => intro x _ _ _ _ k t hm; cases hm
  | cons op ops ih =>
    intro x hi hs hda hl k t hm
    obtain ⟨_, r1⟩ := inOrderOp_run v x op hi hs hl.1
    simp only [List.foldl_cons]
    rcases List.mem_cons.mp hm with e | hm'
    · subst e
      have st := inOrderOp_insert_stored v x k t hi hs hl.1
      apply inOrderRun_stored v ops _ r1.inv r1.supply hl.2 k t _ st
      intro op' hm' hd'
      exact hda.2.1 rfl op' hm' hd'
    · exact ih _ r1.inv r1.supply hda.2.2 hl.2 k t hm'

theorem inOrderTx_stored (v : Variant) (H : Heap K D) (free : List Addr) (next : Addr)
    (ops : List (Op K D)) (hi : InvR v H) (hs : SupplyOk H free next) (hda : DerefApart ops)
    (hl : LegalInOrder v (H, free, next) ops) :
    ∀ k t, Op.insert k t ∈ ops →
      StoredTree (viewOf (inOrderTx v H free next ops)) (inOrderTx v H free next ops).nodes.get k t :=
  inOrderRun_insert_stored v ops (H, free, next) hi hs hda hl

/-- MAIN: an accepted legal transaction (`specTx`: planning order, reused addresses) makes every
    tree it inserts readable: the root under its key with the data supplied, every descendant with
    its data and its children in the order supplied, `Existing` children being the addresses named -
    whatever else the transaction does (other insertions, references, dereferences of other
    trees, which may free nodes). -/
theorem specTx_stored (v : Variant) (H : Heap K D) (free : List Addr) (next : Addr)
    (ops : List (Op K D)) (hi : InvR v H) (hs : SupplyOk H free next) (hda : DerefApart ops)
    (hl : LegalInOrder v (H, free, next) ops) (hval : validateOps v (viewOf H) ops = .ok) :
    ∀ k t, Op.insert k t ∈ ops →
      StoredTree (viewOf (specTx v H free next ops)) (specTx v H free next ops).nodes.get k t := by
  intro k t hm
  have e := specTx_eqv_inOrder_of_inv v H free next ops hi hs hda hl hval
  rw [e.viewOf (specTx_wf v H free next ops hi.rootsWF), e.nodes]
  exact inOrderTx_stored v H free next ops hi hs hda hl k t hm

/-! ## (R6) through the views of the pipeline -/

/-- Views that show every root and every node of the heap (`SimC.viewR` / `SimC.viewN`: the commit
    overlay over the tables of the pipeline state) show every stored tree. -/
theorem stored_of_views (H : Heap K D) (vr : K → Option (Node D)) (vn : Addr → Option (Node D))
    (hr : ∀ k r c, H.roots.get k = some (r, c) → vr k = some r)
    (hn : ∀ a n, H.nodes.get a = some n → vn a = some n) (k : K) (t : NewNode D) :
    StoredTree (viewOf H) H.nodes.get k t → StoredTree vr vn k t := by
  intro ⟨as, hv, hl⟩
  obtain ⟨c, hg⟩ := (viewOf_eq_some H k _).mp hv
  exact ⟨as, hr k _ c hg, StoredL.mono hn t.children as hl⟩

/-- ... in particular in the pipeline model: when `commit_changes` returns for a legal accepted
    transaction, every tree it inserts is readable through the commit overlay (`viewRoot` /
    `viewNode` of the state after the commit), before anything has been processed. -/
theorem commit_stored (v : Variant) (s : TState K D) (H : Heap K D) (sim : SimT v s H)
    (ops : List (Op K D)) (hda : DerefApart ops) (hdl : DerefLive H ops)
    (hleg : LegalInOrder v (H, s.free, s.heap.next) ops)
    (hval : validateOps v (viewOf H) ops = .ok) :
    ∀ k t, Op.insert k t ∈ ops →
      StoredTree (stepT s (.commit ops)).viewRoot (stepT s (.commit ops)).viewNode k t := by
  intro k t hm
  have sim' := simT_commit v (fun H free next ops hi hs hda hl =>
    specTx_invR v H free next ops hi hs hda hl) s H sim ops hda hdl hleg
  exact stored_of_views _ _ _ sim'.viewR sim'.viewN k t
    (specTx_stored v H s.free s.heap.next ops sim.inv sim.supply hda hleg hval k t hm)

end Pdb.MultiTree

/-! ## non-vacuity -/

namespace Pdb.MultiTree.TxReadEx
open Pdb.MultiTree

/-- The heap `TxEx.H` (nodes 0 and 1, root 0 -> [0, 1] with count 2) with the allocator state
    "slot 3 on the free stack, fill mark 4" (slot 2 was freed and is not handed out again). -/
theorem supply : SupplyOk TxEx.H [3] 4 := by
  have h := TxEx.H_ok.2
  refine ⟨by simp, ?_, by simp, ?_⟩
  · intro a ha hp
    simp only [List.mem_singleton] at ha
    subst ha
    have := h.nodesBelow 3 hp
    omega
  · intro a hp
    have := h.nodesBelow a hp
    omega

/-- a tree with two new nodes (one at the REUSED slot 3, one at the fill mark 4) sharing both old
    nodes, a reference of the new root and two dereferences of the old root, which goes away -/
def t : NewNode Nat :=
  ⟨20, .cons (.new 21 (.cons (.existing 0) .nil)) (.cons (.new 22 .nil) (.cons (.existing 1) .nil))⟩

def ops : List (Op Nat Nat) := [.insert 1 t, .reference 1, .dereference 0, .dereference 0]

theorem ops_legal : DerefApart ops ∧ LegalInOrder .rcRoots (TxEx.H, [3], 4) ops ∧
    validateOps .rcRoots (viewOf TxEx.H) ops = .ok := by
  refine ⟨?_, ?_, by decide⟩
  · simp [ops, DerefApart, Op.isDeref, Op.isInsert, Op.isRef, Op.key]
  · simp only [ops, t, LegalInOrder, Op.legal, NRefs.live, NRef.live, present, and_true, true_and]
    decide

/-- `specTx_stored` applies ... -/
theorem stored : StoredTree (viewOf (specTx .rcRoots TxEx.H [3] 4 ops))
    (specTx .rcRoots TxEx.H [3] 4 ops).nodes.get 1 t :=
  specTx_stored .rcRoots TxEx.H [3] 4 ops TxEx.H_ok.1 supply ops_legal.1 ops_legal.2.1
    ops_legal.2.2 1 t (by simp [ops])

/-- ... to a transaction that did something: the new root 1 has children [3, 4, 1] (slot 3 taken
    from the free stack, 4 from the fill mark; node 3 -> [0]), root 0 is gone -/
example : (viewOf (specTx .rcRoots TxEx.H [3] 4 ops) 1).map (·.children) = some [3, 4, 1] ∧
    ((specTx .rcRoots TxEx.H [3] 4 ops).nodes.get 3).map (·.children) = some [0] ∧
    (specTx .rcRoots TxEx.H [3] 4 ops).roots.l.map Prod.fst = [1] := by decide

end Pdb.MultiTree.TxReadEx

#print axioms Pdb.MultiTree.specTx_stored
#print axioms Pdb.MultiTree.insertTreeA_stored
#print axioms Pdb.MultiTree.insRefsA_stored
#print axioms Pdb.MultiTree.StoredL.sub
#print axioms Pdb.MultiTree.inOrderOp_stored
#print axioms Pdb.MultiTree.stored_of_views
#print axioms Pdb.MultiTree.commit_stored
#print axioms Pdb.MultiTree.TxReadEx.stored
