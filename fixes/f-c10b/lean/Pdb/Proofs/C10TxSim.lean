/-
C10, transactions and address reuse.  Part 4: the simulation.

The pipeline model `TState` (claims and commit overlay when `commit_changes` returns, table
changes in `process_commits`, freed slots pushed on the LIFO free stack and popped by later
claims) refines the ATOMIC transactions `specTx` along every legal schedule:

  SimC v s H        the inductive core: variant, drained tables = atomic heap, queue well formed,
                    slot accounting, invariant of the atomic heap
  SimT v s H        SimC + what follows from it: the views show every root / node of the atomic
                    heap, the allocator state is sound for the atomic heap
  simC_process / simC_commit / simC_run / simT_run
  simT_core .. simT_inv    the statements (S1) .. (S6) along a legal run
-/
import Pdb.Proofs.C10TxSim3
import Pdb.Proofs.C10TxRoot

namespace Pdb.MultiTree
set_option linter.unusedSectionVars false
variable {K D : Type} [DecidableEq K]

/-- the inductive core of the simulation -/
structure SimC (v : Variant) (s : TState K D) (H : Heap K D) : Prop where
  var : s.variant = v
  core : core H = core (drainT v s.heap s.queue)
  qok : QueueOkT v s.heap s.queue
  alloc : AllocInv s
  inv : InvR v H

theorem SimC.init (v : Variant) : SimC v (TState.init v : TState K D) Heap.empty where
  var := rfl
  core := rfl
  qok := trivial
  alloc := by
    refine ⟨List.nodup_nil, (fun a ha => by cases ha), ?_⟩
    intro a
    simp [TState.init, Heap.empty, queueClaimed, present, FMap.get, FMap.empty, alLookup]
  inv := InvR.empty v

/-- (S2) roots: the commit overlay over the tables shows every root of the atomic heap -/
theorem SimC.viewR {v : Variant} {s : TState K D} {H : Heap K D} (sim : SimC v s H) :
    ∀ k r c, H.roots.get k = some (r, c) → s.viewRoot k = some r := by
  intro k r c hg
  have hc := sim.core
  simp only [Pdb.MultiTree.core, Prod.mk.injEq] at hc
  have hv : viewOf (drainT v s.heap s.queue) k = some r := by
    simp only [viewOf, ← hc.2.2, hg, Option.map_some]
  exact drain_root_viewT v s.queue s.heap sim.qok k r hv

/-- (S2) nodes -/
theorem SimC.viewN {v : Variant} {s : TState K D} {H : Heap K D} (sim : SimC v s H) :
    ∀ a n, H.nodes.get a = some n → s.viewNode a = some n := by
  intro a n hg
  have hc := sim.core
  simp only [Pdb.MultiTree.core, Prod.mk.injEq] at hc
  rw [hc.1] at hg
  exact drain_node_viewT v s.queue s.heap sim.qok a n hg

/-- (S4) the allocator state of the pipeline is sound for the atomic heap -/
theorem SimC.supply {v : Variant} {s : TState K D} {H : Heap K D} (sim : SimC v s H) :
    SupplyOk H s.free s.heap.next := by
  have hc := sim.core
  simp only [Pdb.MultiTree.core, Prod.mk.injEq] at hc
  have hsub : ∀ a, present H a → a ∈ queueClaimed s.queue ∨ present s.heap a := by
    intro a hp
    exact drain_nodes_sub v s.queue s.heap sim.qok a
      ((sim_present_congr H _ hc.1.symm a).mpr hp)
  have hnd := List.nodup_append.mp sim.alloc.nodup
  refine ⟨hnd.1, ?_, ?_, ?_⟩
  · intro a ha hp
    rcases hsub a hp with h1 | h1
    · exact hnd.2.2 a ha a h1 rfl
    · exact sim.alloc.notPresent a (List.mem_append.mpr (Or.inl ha)) h1
  · intro a ha
    exact (sim.alloc.cover a).mpr (Or.inl ha)
  · intro a hp
    rcases hsub a hp with h1 | h1
    · exact (sim.alloc.cover a).mpr (Or.inr (Or.inl h1))
    · exact (sim.alloc.cover a).mpr (Or.inr (Or.inr h1))

/-! ### process_commits -/

theorem simC_process (v : Variant) (s : TState K D) (H : Heap K D) (sim : SimC v s H) :
    SimC v (okOr s s.process) H := by
  obtain ⟨sv, heap, free, queue, td⟩ := s
  have hv : sv = v := sim.var
  subst hv
  cases queue with
  | nil => exact sim
  | cons cs q =>
    simp only [TState.process]
    cases hp : applyChangeSet sv (heap, free) cs with
    | error e => exact sim
    | ok x =>
      obtain ⟨h, f⟩ := x
      simp only [okOr]
      have hH : simCsH sv heap cs = .ok h := by
        rw [← sim_applyChangeSet_fst sv heap free cs, hp]; rfl
      have hstep : drainStep sv heap cs = h := by
        rw [drainStep_eq, hH]; rfl
      have hnext : h.next = heap.next := sim_applyCsH_next sv heap h cs hH
      refine ⟨rfl, ?_, ?_, ?_, sim.inv⟩
      · have := sim.core
        simp only [drainT_cons, hstep] at this
        exact this
      · have := sim.qok.2
        simp only [hstep] at this
        exact this
      · have ac := (sim_allocInv_iff _).mp sim.alloc
        simp only [sim_queueClaimed_cons] at ac
        rw [sim_allocInv_iff]
        simp only [hnext]
        simp only [applyChangeSet] at hp
        cases hp1 : applyChangeSetF41 sv (heap, free) cs.early with
        | error er => rw [hp1] at hp; cases hp
        | ok y =>
          obtain ⟨h1, f1⟩ := y
          rw [hp1] at hp
          simp only [Except.ok.injEq, Prod.mk.injEq] at hp
          obtain ⟨e1, e2⟩ := hp
          subst e1 e2
          simp only [applyChangeSetF41] at hp1
          exact (sim_nodeFold_acct sv heap.next cs.early.nodeChanges _ free _ h1 f1
            (ac.congr (sim_rootFold_frame sv cs.early.changes heap).1) hp1).congr
              (sim_rootFold_frame sv cs.late h1).1

/-! ### commit_changes -/

/-- a legal accepted transaction: the pipeline assembles the change set the atomic reading
    assembles, with the same claims -/
theorem sim_commit_asm (v : Variant) (s : TState K D) (H : Heap K D) (sim : SimC v s H)
    (ops : List (Op K D)) (hdl : DerefLive H ops) :
    validateOps s.variant s.viewRoot ops = validateOps v (viewOf H) ops ∧
    (validateOps v (viewOf H) ops = .ok →
      (asmOps s.variant s.viewRoot s.asm0 ops).2 = .ok () ∧
      (asmOps s.variant s.viewRoot s.asm0 ops).1.cs = specCs v H s.free s.heap.next ops) := by
  have hview : ∀ op ∈ ops, op.isDeref = true → s.viewRoot op.key = viewOf H op.key := by
    intro op ho hd
    have := hdl op ho hd
    cases hg : H.roots.get op.key with
    | none => simp [viewOf, hg] at this
    | some e =>
      obtain ⟨r, c⟩ := e
      rw [sim.viewR op.key r c hg]
      simp [viewOf, hg]
  have hval : validateOps s.variant s.viewRoot ops = validateOps v (viewOf H) ops := by
    rw [sim.var]; exact sim_validateOps_congr v _ _ ops hview
  refine ⟨hval, ?_⟩
  intro hV
  refine ⟨sim_asmOps_ok s.variant s.viewRoot ops s.asm0 (by rw [hval]; exact hV), ?_⟩
  rw [sim.var, sim_asmOps_congr v _ _ ops hview s.asm0]
  have := (sim_asmOps_strip v (viewOf H) ops s.asm0 ⟨s.free, s.heap.next, .empty, .empty⟩ rfl).1
  simp only [Asm.strip, Asm.mk.injEq] at this
  exact this.2.2.2

theorem sim_specTx_eq_drainStep (v : Variant) (H : Heap K D) (free : List Addr) (next : Addr)
    (ops : List (Op K D)) (hV : validateOps v (viewOf H) ops = .ok) :
    specTx v H free next ops = drainStep v H (specCs v H free next ops) := by
  simp only [specTx, hV, drainStep]

theorem sim_specTx_rejected (v : Variant) (H : Heap K D) (free : List Addr) (next : Addr)
    (ops : List (Op K D)) (hV : validateOps v (viewOf H) ops ≠ .ok) :
    specTx v H free next ops = H := by
  simp only [specTx]

theorem simC_commit (v : Variant) (s : TState K D) (H : Heap K D) (sim : SimC v s H)
    (ops : List (Op K D))
    (hinv : InvR v (specTx v H s.free s.heap.next ops))
    (hda : DerefApart ops) (hdl : DerefLive H ops)
    (hleg : LegalInOrder v (H, s.free, s.heap.next) ops) :
    SimC v (s.commit ops).1 (specTx v H s.free s.heap.next ops) := by
  obtain ⟨hval, hasm⟩ := sim_commit_asm v s H sim ops hdl
  by_cases hV : validateOps v (viewOf H) ops = .ok
  · obtain ⟨hAok, hAcs⟩ := hasm hV
    have hsup := sim.supply
    have acct := sim_asmOps_acct s.variant s.viewRoot ops s.asm0 hAok
    have hcommit : (s.commit ops).1 =
        { s.withAsm (asmOps s.variant s.viewRoot s.asm0 ops).1 with
          queue := s.queue ++ [(asmOps s.variant s.viewRoot s.asm0 ops).1.cs] } := by
      simp only [TState.commit, hval, hV]
      rcases hA : asmOps s.variant s.viewRoot s.asm0 ops with ⟨a, res⟩
      rw [hA] at hAok
      simp only at hAok
      subst hAok
      rfl
    rw [hcommit, sim_specTx_eq_drainStep v H _ _ ops hV]
    rw [sim_specTx_eq_drainStep v H _ _ ops hV] at hinv
    generalize (asmOps s.variant s.viewRoot s.asm0 ops).1 = a at acct hAcs
    rw [← hAcs] at hinv ⊢
    obtain ⟨a1, a2, a3⟩ := acct
    simp only [TState.asm0, ChangeSet.empty, sim_claimedL_nil, List.nil_append, List.filterMap_nil] at a1 a2 a3
    have hc := sim.core
    have hcoreD : Pdb.MultiTree.core H =
        Pdb.MultiTree.core (drainT v (withNext a.next s.heap) s.queue) := by
      rw [drainT_withNext]; exact hc
    -- the new change set is well formed for the atomic heap
    have hcsok : CsOk v H a.cs := by
      refine ⟨?_, ?_⟩
      · intro k r hg
        rw [hAcs] at hg ⊢
        rw [← sim_specTx_eq_drainStep v H _ _ ops hV] at hg
        exact specTx_root_view v H s.free s.heap.next ops sim.inv hsup hda hleg hV k r hg
      · intro b hb hp
        have : b ∈ claimedL a.cs.nodeChanges ++ a.free := List.mem_append.mpr (Or.inl hb)
        rw [a1] at this
        rcases List.mem_append.mp this with h1 | h1
        · exact hsup.fresh b h1 hp
        · have h2 := hsup.nodesBelow b hp
          simp only [List.mem_range'_1] at h1
          omega
    refine ⟨sim.var, ?_, ?_, ?_, hinv⟩
    · show Pdb.MultiTree.core (drainStep v H a.cs) =
        Pdb.MultiTree.core (drainT v (withNext a.next s.heap) (s.queue ++ [a.cs]))
      rw [drainT_append, drainStep_eq, drainStep_eq]
      exact sim_applyCsH_core v _ _ a.cs hcoreD
    · show QueueOkT v (withNext a.next s.heap) (s.queue ++ [a.cs])
      exact QueueOkT_append v s.queue a.cs _ (QueueOkT_withNext v a.next s.queue s.heap sim.qok)
        (hcsok.of_core hcoreD)
    · rw [sim_allocInv_iff]
      show Acct a.next (withNext a.next s.heap) a.free (queueClaimed (s.queue ++ [a.cs]))
      rw [sim_queueClaimed_append]
      exact (((sim_allocInv_iff s).mp sim.alloc).claim a1 a2).congr rfl
  · have hV' : validateOps s.variant s.viewRoot ops ≠ .ok := by rw [hval]; exact hV
    have hcommit : (s.commit ops).1 = s := by
      simp only [TState.commit]
    rw [hcommit, sim_specTx_rejected v H _ _ ops hV]
    exact sim

/-! ### schedules -/

/-- the transaction-level preservation of the invariant (proved in Pdb/Proofs/C10TxInv.lean) -/
def TxPreserves (v : Variant) (K D : Type) [DecidableEq K] : Prop :=
  ∀ (H : Heap K D) (free : List Addr) (next : Addr) (ops : List (Op K D)),
    InvR v H → SupplyOk H free next → DerefApart ops → LegalInOrder v (H, free, next) ops →
    InvR v (specTx v H free next ops)

theorem simC_run (v : Variant) (hinv : TxPreserves v K D) (cmds : List (CmdT K D)) :
    ∀ (x : TState K D × Heap K D), SimC v x.1 x.2 → LegalRunT v x cmds →
      SimC v (runT v x cmds).1 (runT v x cmds).2 := by
  induction cmds with
  | nil => intro x sim _; exact sim
  | cons c cmds ih =>
    intro x sim hl
    cases c with
    | process =>
      simp only [LegalRunT] at hl
      simp only [runT, List.foldl_cons]
      exact ih _ (simC_process v x.1 x.2 sim) hl
    | commit ops =>
      simp only [LegalRunT] at hl
      obtain ⟨⟨hda, hdl, hleg⟩, hl2⟩ := hl
      simp only [runT, List.foldl_cons]
      refine ih _ ?_ hl2
      exact simC_commit v x.1 x.2 sim ops
        (hinv x.2 x.1.free x.1.heap.next ops sim.inv sim.supply hda hleg) hda hdl hleg

/-- The simulation relation between the pipeline state `s` and the atomic heap `H`. -/
structure SimT (v : Variant) (s : TState K D) (H : Heap K D) : Prop where
  /-- (S5) -/
  var : s.variant = v
  /-- (S1) the tables once the queue is drained are the atomic heap (everything but `next`) -/
  core : core H = core (drainT v s.heap s.queue)
  /-- every queued commit is well formed for the heap it will be processed on -/
  qok : QueueOkT v s.heap s.queue
  /-- (S2) -/
  viewR : ∀ k r c, H.roots.get k = some (r, c) → s.viewRoot k = some r
  viewN : ∀ a n, H.nodes.get a = some n → s.viewNode a = some n
  /-- (S3) -/
  alloc : AllocInv s
  /-- (S4) -/
  supply : SupplyOk H s.free s.heap.next
  /-- (S6) -/
  inv : InvR v H

theorem SimC.toSimT {v : Variant} {s : TState K D} {H : Heap K D} (sim : SimC v s H) :
    SimT v s H :=
  ⟨sim.var, sim.core, sim.qok, sim.viewR, sim.viewN, sim.alloc, sim.supply, sim.inv⟩

theorem SimT.toSimC {v : Variant} {s : TState K D} {H : Heap K D} (sim : SimT v s H) :
    SimC v s H :=
  ⟨sim.var, sim.core, sim.qok, sim.alloc, sim.inv⟩

theorem SimT.init (v : Variant) : SimT v (TState.init v : TState K D) Heap.empty :=
  (SimC.init v).toSimT

/-- one `process_commits` step keeps the relation (and the atomic heap) -/
theorem simT_process (v : Variant) (s : TState K D) (H : Heap K D) (sim : SimT v s H) :
    SimT v (stepT s .process) H :=
  (simC_process v s H sim.toSimC).toSimT

/-- one legal `commit_changes` keeps the relation; the atomic heap takes the transaction at once -/
theorem simT_commit (v : Variant) (hinv : TxPreserves v K D) (s : TState K D) (H : Heap K D)
    (sim : SimT v s H) (ops : List (Op K D)) (hda : DerefApart ops) (hdl : DerefLive H ops)
    (hleg : LegalInOrder v (H, s.free, s.heap.next) ops) :
    SimT v (stepT s (.commit ops)) (specTx v H s.free s.heap.next ops) :=
  (simC_commit v s H sim.toSimC ops
    (hinv H s.free s.heap.next ops sim.inv sim.supply hda hleg) hda hdl hleg).toSimT

/-- (S1) with nothing queued the tables ARE the atomic heap -/
theorem SimT.drained {v : Variant} {s : TState K D} {H : Heap K D} (sim : SimT v s H)
    (hq : s.queue = []) : s.heap.nodes = H.nodes ∧ s.heap.rc = H.rc ∧ s.heap.roots = H.roots := by
  have hc := sim.core
  rw [hq] at hc
  simp only [Pdb.MultiTree.core, drainT, List.foldl_nil, Prod.mk.injEq] at hc
  exact ⟨hc.1.symm, hc.2.1.symm, hc.2.2.symm⟩

/-- Main theorem: along every legal schedule the pipeline state and the atomic heap are in the
    simulation relation. -/
theorem simT_run (v : Variant) (cmds : List (CmdT K D))
    (hinv : ∀ (H : Heap K D) free next ops, InvR v H → SupplyOk H free next → DerefApart ops →
      LegalInOrder v (H, free, next) ops → InvR v (specTx v H free next ops))
    (hl : LegalRunT v (TState.init v, (Heap.empty : Heap K D)) cmds) :
    SimT v (runT v (TState.init v, Heap.empty) cmds).1 (runT v (TState.init v, Heap.empty) cmds).2 :=
  (simC_run v hinv cmds (TState.init v, Heap.empty) (SimC.init v) hl).toSimT

/-! ### the statements (S1) .. (S6) along a legal run -/

section Corollaries
variable (v : Variant) (cmds : List (CmdT K D))
  (hinv : ∀ (H : Heap K D) free next ops, InvR v H → SupplyOk H free next → DerefApart ops →
    LegalInOrder v (H, free, next) ops → InvR v (specTx v H free next ops))
  (hl : LegalRunT v (TState.init v, (Heap.empty : Heap K D)) cmds)
include hinv hl

/-- (S1) -/
theorem simT_core :
    core (runT v (TState.init v, (Heap.empty : Heap K D)) cmds).2 =
      core (drainT v (runT v (TState.init v, (Heap.empty : Heap K D)) cmds).1.heap
        (runT v (TState.init v, (Heap.empty : Heap K D)) cmds).1.queue) :=
  (simT_run v cmds hinv hl).core

/-- (S1) with nothing queued -/
theorem simT_drained
    (hq : (runT v (TState.init v, (Heap.empty : Heap K D)) cmds).1.queue = []) :
    (runT v (TState.init v, (Heap.empty : Heap K D)) cmds).1.heap.nodes =
      (runT v (TState.init v, (Heap.empty : Heap K D)) cmds).2.nodes ∧
    (runT v (TState.init v, (Heap.empty : Heap K D)) cmds).1.heap.rc =
      (runT v (TState.init v, (Heap.empty : Heap K D)) cmds).2.rc ∧
    (runT v (TState.init v, (Heap.empty : Heap K D)) cmds).1.heap.roots =
      (runT v (TState.init v, (Heap.empty : Heap K D)) cmds).2.roots :=
  (simT_run v cmds hinv hl).drained hq

/-- (S2) roots -/
theorem simT_viewRoot (k : K) (r : Node D) (c : Nat)
    (hg : (runT v (TState.init v, (Heap.empty : Heap K D)) cmds).2.roots.get k = some (r, c)) :
    (runT v (TState.init v, (Heap.empty : Heap K D)) cmds).1.viewRoot k = some r :=
  (simT_run v cmds hinv hl).viewR k r c hg

/-- (S2) nodes -/
theorem simT_viewNode (a : Addr) (n : Node D)
    (hg : (runT v (TState.init v, (Heap.empty : Heap K D)) cmds).2.nodes.get a = some n) :
    (runT v (TState.init v, (Heap.empty : Heap K D)) cmds).1.viewNode a = some n :=
  (simT_run v cmds hinv hl).viewN a n hg

/-- (S3) -/
theorem simT_alloc : AllocInv (runT v (TState.init v, (Heap.empty : Heap K D)) cmds).1 :=
  (simT_run v cmds hinv hl).alloc

/-- (S4) -/
theorem simT_supply :
    SupplyOk (runT v (TState.init v, (Heap.empty : Heap K D)) cmds).2
      (runT v (TState.init v, (Heap.empty : Heap K D)) cmds).1.free
      (runT v (TState.init v, (Heap.empty : Heap K D)) cmds).1.heap.next :=
  (simT_run v cmds hinv hl).supply

/-- (S5) -/
theorem simT_variant : (runT v (TState.init v, (Heap.empty : Heap K D)) cmds).1.variant = v :=
  (simT_run v cmds hinv hl).var

/-- (S6) -/
theorem simT_inv : InvR v (runT v (TState.init v, (Heap.empty : Heap K D)) cmds).2 :=
  (simT_run v cmds hinv hl).inv

end Corollaries

/-! ### non-vacuity: a legal schedule with address reuse

Tree 1 (two leaves, slots 0 1) and tree 2 (a new leaf in slot 2 and a SHARED child: slot 0) are
inserted, tree 1 is referenced in the same transaction as the second insertion; both are
dereferenced (tree 1 twice: its count was 2).  The walk of tree 2 frees slot 2 and leaves the
shared slot 0 with one reference; the last transaction pops slot 2 from the free stack and takes
slots 3 and 4 from the fill mark. -/

namespace SimEx

def t1 : NewNode Nat := ⟨10, .cons (.new 11 .nil) (.cons (.new 12 .nil) .nil)⟩
def t2 : NewNode Nat := ⟨20, .cons (.new 21 .nil) (.cons (.existing 0) .nil)⟩
def t3 : NewNode Nat :=
  ⟨30, .cons (.new 31 .nil) (.cons (.new 32 .nil) (.cons (.new 33 .nil) .nil))⟩

def sched : List (CmdT Nat Nat) :=
  [.commit [.insert 1 t1], .commit [.insert 2 t2, .reference 1], .process,
   .commit [.dereference 1], .process, .process, .commit [.dereference 2], .process,
   .commit [.insert 3 t3, .reference 1]]

set_option maxRecDepth 10000 in
theorem sched_legal :
    LegalRunT .rcRoots (TState.init .rcRoots, (Heap.empty : Heap Nat Nat)) sched := by
  simp only [sched, LegalRunT, DerefApart, DerefLive, LegalInOrder, Op.legal, Op.isDeref,
    Op.isInsert, Op.isRef, Op.key, List.mem_cons, List.mem_nil_iff, forall_eq_or_imp, t1, t2, t3,
    NRefs.live, NRef.live, and_true, true_and, or_false, forall_eq]
  simp only [Bool.false_eq_true, false_imp_iff, true_imp_iff, and_true, true_and, implies_true,
    ne_eq, present]
  exact ⟨rfl, ⟨rfl, rfl⟩, rfl, rfl, rfl⟩

/-- the freed slot 2 is claimed again, before the fill mark moves -/
theorem sched_reuses :
    queueClaimed (runT .rcRoots (TState.init .rcRoots, (Heap.empty : Heap Nat Nat)) sched).1.queue
      = [2, 3, 4] ∧
    (runT .rcRoots (TState.init .rcRoots, (Heap.empty : Heap Nat Nat)) sched).1.free = [] ∧
    (runT .rcRoots (TState.init .rcRoots, (Heap.empty : Heap Nat Nat)) sched).1.heap.next = 5 :=
  ⟨rfl, rfl, rfl⟩

end SimEx

end Pdb.MultiTree

#print axioms Pdb.MultiTree.simT_run
#print axioms Pdb.MultiTree.simT_commit
#print axioms Pdb.MultiTree.simT_process
