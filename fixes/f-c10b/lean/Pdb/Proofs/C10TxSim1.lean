/-
C10, transactions and address reuse: the pipeline model `TState` refines the atomic
transactions (`specTx`).  Part 1: facts about the processing functions that need no invariant.
(Self-contained: the lemmas B1 / B2 of Pdb/Proofs/C10TxBasic.lean are proved here in the form the
simulation uses, with the prefix `sim_`.)

  simNodeH / simCsH        the heap component of `applyNodeChange` / `applyChangeSet` (no free stack)
  sim_applyChangeSet_fst   B1: (applyChangeSet v (h, f) cs).map Prod.fst = simCsH v h cs   (any f)
  sim_applyCsH_next / sim_applyCsH_withNext / sim_applyCsH_core
                           processing never reads or writes `heap.next`
  Pushed                   B2: what a dereference walk does to the free stack: the freed addresses,
                           each once, are pushed; they are exactly the nodes that disappeared
-/
import Pdb.Proofs.C10TxDefs

namespace Pdb.MultiTree
set_option linter.unusedSectionVars false
variable {K D : Type} [DecidableEq K]

/-! ### the heap component of processing -/

/-- `applyNodeChange` without the free stack -/
def simNodeH (v : Variant) (h : Heap K D) : NodeChange K D → Except Err (Heap K D)
  | .newValue a n => .ok { h with nodes := h.nodes.set a (some n) }
  | .incRef a => .ok (incRef h a)
  | .derefChildren k cs => derefProcess v h k cs

/-- `applyChangeSetF41` (the unfixed planning order) without the free stack -/
def simCsF41H (v : Variant) (h : Heap K D) (cs : ChangeSet K D) : Except Err (Heap K D) :=
  cs.nodeChanges.foldlM (simNodeH v) (cs.changes.foldl (applyRootChange v) h)

/-- `applyChangeSet` without the free stack: the early part, then the postponed root `Set`s -/
def simCsH (v : Variant) (h : Heap K D) (cs : ChangeSet K D) : Except Err (Heap K D) :=
  (simCsF41H v h cs.early).map (fun h' => cs.late.foldl (applyRootChange v) h')

theorem simCsH_ok (v : Variant) (h h' : Heap K D) (cs : ChangeSet K D) (e : simCsH v h cs = .ok h') :
    ∃ h1, simCsF41H v h cs.early = .ok h1 ∧ h' = cs.late.foldl (applyRootChange v) h1 := by
  simp only [simCsH] at e
  cases h1 : simCsF41H v h cs.early with
  | error er => rw [h1] at e; cases e
  | ok x =>
    rw [h1] at e
    simp only [Except.map, Except.ok.injEq] at e
    exact ⟨x, rfl, e.symm⟩

theorem sim_except_map_ok {ε α β : Type} (f : α → β) (x : Except ε α) (b : β)
    (e : x.map f = .ok b) : ∃ a, x = .ok a ∧ f a = b := by
  cases x with
  | error er => cases e
  | ok a => exact ⟨a, rfl, by simpa [Except.map] using e⟩

theorem sim_foldlM_fst {α β γ : Type} (g : α × β → γ → Except Err (α × β))
    (g' : α → γ → Except Err α) (hg : ∀ x c, (g x c).map Prod.fst = g' x.1 c) :
    ∀ (l : List γ) (x : α × β), (l.foldlM g x).map Prod.fst = l.foldlM g' x.1 := by
  intro l
  induction l with
  | nil => intro x; rfl
  | cons c l ih =>
    intro x
    simp only [List.foldlM_cons]
    have h1 := hg x c
    cases hgx : g x c with
    | error e =>
      rw [hgx] at h1
      rw [← h1]; rfl
    | ok y =>
      rw [hgx] at h1
      rw [← h1]
      simp only [Except.map, bind, Except.bind]
      exact ih y

theorem sim_derefChildrenF_fst : ∀ (fuel : Nat) (cs : List Addr) (h : Heap K D) (f : List Addr),
    (derefChildrenF fuel (h, f) cs).map Prod.fst = derefChildren fuel h cs
  | 0, _, _, _ => rfl
  | fuel + 1, cs, h, f => by
    simp only [derefChildrenF, derefChildren]
    refine sim_foldlM_fst (derefStepF (derefChildrenF fuel)) (derefStep (derefChildren fuel)) ?_ cs (h, f)
    intro x a
    obtain ⟨h0, f0⟩ := x
    simp only [derefStepF, derefStep]
    rcases hd : decRef h0 a with ⟨b, h1⟩
    cases b with
    | true => rfl
    | false =>
      simp only
      cases (h0.nodes.get a).map (·.children) with
      | none => rfl
      | some kids => exact sim_derefChildrenF_fst fuel kids h1 (a :: f0)

theorem sim_derefProcessF_fst (v : Variant) (h : Heap K D) (f : List Addr) (k : K)
    (cs : List Addr) : (derefProcessF v (h, f) k cs).map Prod.fst = derefProcess v h k cs := by
  simp only [derefProcessF, derefProcess]
  cases h.roots.get k with
  | none => rfl
  | some e =>
    obtain ⟨r, c⟩ := e
    simp only
    split
    · rfl
    · exact sim_derefChildrenF_fst _ cs _ f

theorem sim_applyNodeChange_fst (v : Variant) (x : Heap K D × List Addr) (c : NodeChange K D) :
    (applyNodeChange v x c).map Prod.fst = simNodeH v x.1 c := by
  obtain ⟨h, f⟩ := x
  cases c with
  | newValue a n => rfl
  | incRef a => rfl
  | derefChildren k cs => exact sim_derefProcessF_fst v h f k cs

/-- B1: the heap a change set produces does not depend on the free stack -/
theorem sim_applyChangeSetF41_fst (v : Variant) (h : Heap K D) (f : List Addr) (cs : ChangeSet K D) :
    (applyChangeSetF41 v (h, f) cs).map Prod.fst = simCsF41H v h cs := by
  simp only [applyChangeSetF41, simCsF41H]
  exact sim_foldlM_fst (applyNodeChange v) (simNodeH v) (sim_applyNodeChange_fst v) _ _

theorem sim_applyChangeSet_fst (v : Variant) (h : Heap K D) (f : List Addr) (cs : ChangeSet K D) :
    (applyChangeSet v (h, f) cs).map Prod.fst = simCsH v h cs := by
  simp only [applyChangeSet, simCsH, ← sim_applyChangeSetF41_fst v h f cs.early]
  cases applyChangeSetF41 v (h, f) cs.early with
  | error e => rfl
  | ok x => rfl

/-! ### nodes, roots and the fill mark under the root changes -/

theorem sim_referenceTree_okOr (v : Variant) (h : Heap K D) (k : K) :
    (okOr h (referenceTree v h k)).nodes = h.nodes ∧ (okOr h (referenceTree v h k)).next = h.next ∧
    (okOr h (referenceTree v h k)).rc = h.rc ∧
    ∀ k', viewOf (okOr h (referenceTree v h k)) k' = viewOf h k' := by
  cases v with
  | appendOnly => exact ⟨rfl, rfl, rfl, fun _ => rfl⟩
  | plain => exact ⟨rfl, rfl, rfl, fun _ => rfl⟩
  | rcRoots =>
    simp only [referenceTree]
    cases hr : h.roots.get k with
    | none => exact ⟨rfl, rfl, rfl, fun _ => rfl⟩
    | some e =>
      obtain ⟨r, c⟩ := e
      refine ⟨rfl, rfl, rfl, ?_⟩
      intro k'
      simp only [okOr, viewOf, FMap.get_set]
      by_cases hk : k' = k
      · subst hk; simp [hr]
      · simp [hk]

theorem sim_applyRootChange_frame (v : Variant) (h : Heap K D) (c : RootChange K D) :
    (applyRootChange v h c).nodes = h.nodes ∧ (applyRootChange v h c).next = h.next := by
  cases c with
  | set k r => exact ⟨rfl, rfl⟩
  | reference k =>
    have := sim_referenceTree_okOr v h k
    exact ⟨this.1, this.2.1⟩

theorem sim_rootFold_frame (v : Variant) (l : List (RootChange K D)) :
    ∀ (h : Heap K D), (l.foldl (applyRootChange v) h).nodes = h.nodes ∧
      (l.foldl (applyRootChange v) h).next = h.next := by
  induction l with
  | nil => intro h; exact ⟨rfl, rfl⟩
  | cons c l ih =>
    intro h
    simp only [List.foldl_cons]
    have a := ih (applyRootChange v h c)
    have b := sim_applyRootChange_frame v h c
    exact ⟨by rw [a.1, b.1], by rw [a.2, b.2]⟩

theorem sim_applyNodeH_next (v : Variant) (h h' : Heap K D) (c : NodeChange K D)
    (e : simNodeH v h c = .ok h') : h'.next = h.next := by
  cases c with
  | newValue a n => simp only [simNodeH, Except.ok.injEq] at e; subst e; rfl
  | incRef a => simp only [simNodeH, Except.ok.injEq] at e; subst e; rfl
  | derefChildren k cs => exact derefProcess_next v h h' k cs e

theorem sim_foldlM_inv {α γ : Type} (g : α → γ → Except Err α) (P : α → α → Prop)
    (hrefl : ∀ x, P x x) (htrans : ∀ x y z, P x y → P y z → P x z)
    (hstep : ∀ x c y, g x c = .ok y → P x y) :
    ∀ (l : List γ) (x y : α), l.foldlM g x = .ok y → P x y := by
  intro l
  induction l with
  | nil =>
    intro x y e
    simp only [List.foldlM_nil, pure, Except.pure, Except.ok.injEq] at e
    subst e; exact hrefl x
  | cons c l ih =>
    intro x y e
    simp only [List.foldlM_cons] at e
    cases hg : g x c with
    | error er => rw [hg] at e; cases e
    | ok z =>
      rw [hg] at e
      exact htrans x z y (hstep x c z hg) (ih z y e)

theorem sim_applyCsF41H_next (v : Variant) (h h' : Heap K D) (cs : ChangeSet K D)
    (e : simCsF41H v h cs = .ok h') : h'.next = h.next := by
  simp only [simCsF41H] at e
  have := sim_foldlM_inv (simNodeH v) (fun x y => y.next = x.next) (fun _ => rfl)
    (fun x y z a b => by rw [b, a]) (fun x c y => sim_applyNodeH_next v x y c) _ _ _ e
  rw [this, (sim_rootFold_frame v cs.changes h).2]

theorem sim_applyCsH_next (v : Variant) (h h' : Heap K D) (cs : ChangeSet K D)
    (e : simCsH v h cs = .ok h') : h'.next = h.next := by
  obtain ⟨h1, e1, e2⟩ := simCsH_ok v h h' cs e
  rw [e2, (sim_rootFold_frame v cs.late h1).2]
  exact sim_applyCsF41H_next v h h1 cs.early e1

/-! ### `heap.next` is never read -/

theorem sim_applyRootChange_withNext (v : Variant) (h : Heap K D) (m : Addr) (c : RootChange K D) :
    applyRootChange v (withNext m h) c = withNext m (applyRootChange v h c) := by
  cases c with
  | set k r => rfl
  | reference k =>
    simp only [applyRootChange, referenceTree_withNext]
    cases referenceTree v h k <;> rfl

theorem sim_rootFold_withNext (v : Variant) (m : Addr) (l : List (RootChange K D)) :
    ∀ (h : Heap K D), l.foldl (applyRootChange v) (withNext m h) =
      withNext m (l.foldl (applyRootChange v) h) := by
  induction l with
  | nil => intro h; rfl
  | cons c l ih =>
    intro h
    simp only [List.foldl_cons, sim_applyRootChange_withNext]
    exact ih _

theorem sim_applyNodeH_withNext (v : Variant) (h : Heap K D) (m : Addr) (c : NodeChange K D) :
    simNodeH v (withNext m h) c = (simNodeH v h c).map (withNext m) := by
  cases c with
  | newValue a n => rfl
  | incRef a => rfl
  | derefChildren k cs => exact derefProcess_withNext v h m k cs

theorem sim_applyCsF41H_withNext (v : Variant) (h : Heap K D) (m : Addr) (cs : ChangeSet K D) :
    simCsF41H v (withNext m h) cs = (simCsF41H v h cs).map (withNext m) := by
  simp only [simCsF41H, sim_rootFold_withNext]
  generalize cs.changes.foldl (applyRootChange v) h = h0
  induction cs.nodeChanges generalizing h0 with
  | nil => rfl
  | cons c l ih =>
    simp only [List.foldlM_cons, sim_applyNodeH_withNext]
    cases simNodeH v h0 c with
    | error e => rfl
    | ok h1 =>
      simp only [Except.map, bind, Except.bind]
      exact ih h1

theorem sim_applyCsH_withNext (v : Variant) (h : Heap K D) (m : Addr) (cs : ChangeSet K D) :
    simCsH v (withNext m h) cs = (simCsH v h cs).map (withNext m) := by
  simp only [simCsH, sim_applyCsF41H_withNext]
  cases simCsF41H v h cs.early with
  | error e => rfl
  | ok h1 =>
    simp only [Except.map, Except.ok.injEq]
    exact sim_rootFold_withNext v m cs.late h1

/-- processing a change set on heaps with the same tables gives the same tables -/
theorem sim_applyCsH_core (v : Variant) (h h' : Heap K D) (cs : ChangeSet K D)
    (e : core h = core h') :
    core (okOr h (simCsH v h cs)) = core (okOr h' (simCsH v h' cs)) := by
  have := eq_withNext_of_core h h' e
  rw [this, sim_applyCsH_withNext]
  cases simCsH v h cs with
  | error er => rfl
  | ok h1 => rfl

/-! ### B2: the walk pushes exactly the addresses it frees -/

theorem sim_present_congr (h h' : Heap K D) (e : h'.nodes = h.nodes) (a : Addr) :
    present h' a ↔ present h a := by
  simp only [present, e]

/-- from `(h, f)` to `(h', f')` nodes were only removed, and the removed addresses were pushed on
    the free stack, each once -/
structure Pushed (h : Heap K D) (f : List Addr) (h' : Heap K D) (f' : List Addr) : Prop where
  ex : ∃ pushed, f' = pushed ++ f ∧ pushed.Nodup ∧ (∀ a ∈ pushed, present h a ∧ ¬ present h' a) ∧
    (∀ a, present h a → ¬ present h' a → a ∈ pushed)
  sub : ∀ a n, h'.nodes.get a = some n → h.nodes.get a = some n

theorem Pushed.of_nodes_eq (h h' : Heap K D) (f : List Addr) (e : h'.nodes = h.nodes) :
    Pushed h f h' f where
  ex := ⟨[], rfl, List.nodup_nil, (by intro a ha; cases ha),
    (by intro a h1 h2; exact absurd ((sim_present_congr h h' e a).mpr h1) h2)⟩
  sub := by intro a n hg; rw [← e]; exact hg

theorem Pushed.refl (h : Heap K D) (f : List Addr) : Pushed h f h f := Pushed.of_nodes_eq h h f rfl

theorem sim_present_sub (h h' : Heap K D)
    (sub : ∀ a n, h'.nodes.get a = some n → h.nodes.get a = some n) (a : Addr)
    (hp : present h' a) : present h a := by
  obtain ⟨n, hn⟩ := (present_iff h' a).mp hp
  exact (present_iff h a).mpr ⟨n, sub a n hn⟩

theorem Pushed.trans {h h1 h2 : Heap K D} {f f1 f2 : List Addr} (p1 : Pushed h f h1 f1)
    (p2 : Pushed h1 f1 h2 f2) : Pushed h f h2 f2 := by
  obtain ⟨l1, e1, n1, a1, c1⟩ := p1.ex
  obtain ⟨l2, e2, n2, a2, c2⟩ := p2.ex
  refine ⟨⟨l2 ++ l1, by rw [e2, e1, List.append_assoc], ?_, ?_, ?_⟩, ?_⟩
  · refine List.nodup_append.mpr ⟨n2, n1, ?_⟩
    intro a ha b hb hab
    subst hab
    exact (a1 a hb).2 (a2 a ha).1
  · intro a ha
    rcases List.mem_append.mp ha with ha | ha
    · exact ⟨sim_present_sub h h1 p1.sub a (a2 a ha).1, (a2 a ha).2⟩
    · exact ⟨(a1 a ha).1, fun hp => (a1 a ha).2 (sim_present_sub h1 h2 p2.sub a hp)⟩
  · intro a hp hn
    by_cases h1p : present h1 a
    · exact List.mem_append.mpr (Or.inl (c2 a h1p hn))
    · exact List.mem_append.mpr (Or.inr (c1 a hp h1p))
  · intro a n hg
    exact p1.sub a n (p2.sub a n hg)

/-- one slot is cleared and pushed -/
theorem Pushed.free (h : Heap K D) (f : List Addr) (a : Addr) (n : Node D)
    (hn : h.nodes.get a = some n) (h1 : Heap K D) (e : h1.nodes = h.nodes.set a none) :
    Pushed h f h1 (a :: f) := by
  have hget : ∀ b, h1.nodes.get b = if b = a then none else h.nodes.get b := by
    intro b; rw [e, FMap.get_set]
  refine ⟨⟨[a], rfl, by simp, ?_, ?_⟩, ?_⟩
  · intro b hb
    simp only [List.mem_singleton] at hb
    subst hb
    exact ⟨(present_iff h b).mpr ⟨n, hn⟩, by simp [present, hget]⟩
  · intro b hp hnp
    by_cases hb : b = a
    · simp [hb]
    · exfalso; apply hnp
      simp only [present, hget, hb, if_false]
      exact hp
  · intro b m hg
    rw [hget] at hg
    split at hg
    · cases hg
    · exact hg

theorem sim_derefChildrenF_pushed : ∀ (fuel : Nat) (cs : List Addr) (h : Heap K D)
    (f : List Addr) (h' : Heap K D) (f' : List Addr),
    derefChildrenF fuel (h, f) cs = .ok (h', f') → Pushed h f h' f'
  | 0, _, _, _, _, _, e => by simp [derefChildrenF] at e
  | fuel + 1, cs, h, f, h', f', e => by
    simp only [derefChildrenF] at e
    have := sim_foldlM_inv (derefStepF (derefChildrenF fuel))
      (fun (x y : Heap K D × List Addr) => Pushed x.1 x.2 y.1 y.2)
      (fun x => Pushed.refl x.1 x.2) (fun x y z a b => a.trans b) ?_ cs (h, f) (h', f') e
    · exact this
    · intro x a y hs
      obtain ⟨h0, f0⟩ := x
      obtain ⟨h2, f2⟩ := y
      simp only [derefStepF, decRef] at hs
      cases hr : h0.rc.get a with
      | some c =>
        simp only [hr, Except.ok.injEq, Prod.mk.injEq] at hs
        obtain ⟨e1, e2⟩ := hs
        subst e1 e2
        exact Pushed.of_nodes_eq _ _ _ rfl
      | none =>
        simp only [hr] at hs
        cases hk : h0.nodes.get a with
        | none => simp [hk] at hs
        | some n =>
          simp only [hk, Option.map_some] at hs
          have p1 : Pushed h0 f0 { h0 with nodes := h0.nodes.set a none } (a :: f0) :=
            Pushed.free h0 f0 a n hk _ rfl
          exact p1.trans (sim_derefChildrenF_pushed fuel _ _ _ _ _ hs)

theorem sim_derefProcessF_pushed (v : Variant) (h : Heap K D) (f : List Addr) (k : K)
    (cs : List Addr) (h' : Heap K D) (f' : List Addr)
    (e : derefProcessF v (h, f) k cs = .ok (h', f')) : Pushed h f h' f' := by
  simp only [derefProcessF] at e
  split at e
  · simp only [Except.ok.injEq, Prod.mk.injEq] at e
    obtain ⟨e1, e2⟩ := e
    subst e1 e2; exact Pushed.refl _ _
  · split at e
    · simp only [Except.ok.injEq, Prod.mk.injEq] at e
      obtain ⟨e1, e2⟩ := e
      subst e1 e2; exact Pushed.of_nodes_eq _ _ _ rfl
    · have p := sim_derefChildrenF_pushed _ cs _ f h' f' e
      exact (Pushed.of_nodes_eq h { h with roots := h.roots.set k none } f rfl).trans p

end Pdb.MultiTree
