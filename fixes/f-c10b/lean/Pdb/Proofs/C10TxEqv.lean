/-
C10, transactions: the planning order of `commit_changes` / `write_plan` (all root changes, then
all node changes) against the operations executed one after the other.

  E1  `HeapEqv` is an equivalence; FMap facts under `List.Perm` (get / sum / WF / set)
  E2  every operation of the model respects `HeapEqv` (through the extensional form `HeapExt`:
      same nodes / rc / next, same `roots.get`) and preserves `roots.WF`
  E3  `InvR.congr`: the invariant does not see the order of the root list
  E4  root updates at different keys commute up to `HeapEqv`; a root update commutes exactly with
      everything that only touches nodes / rc
  E5  `applyTx_eqv_inOrderE`: the result of `applyChangeSet` on the planned change set and the
      STRICT in-order run `inOrderE` (a failing dereference walk fails the run) agree up to the
      order of the root list, errors included;
      `specTx_eqv_inOrder`: `specTx` and `inOrderTx` agree up to `HeapEqv` when the planned change
      set applies without error (hypothesis `hok`).

The statement WITHOUT `hok` is false: `specTx` discards the whole transaction when a dereference
walk fails, `inOrderTx` skips only the failing operation (`specTx_eqv_inOrder_needs_ok`, a heap
with a dangling root child).  On heaps satisfying the invariant walks cannot fail
(Pdb/Proofs/C10TxInv.lean: `specTx_eqv_inOrder_inv`).
-/
import Pdb.Proofs.C10TxDefs

namespace Pdb.MultiTree
set_option linter.unusedSectionVars false

/-! ## E1: association lists up to permutation -/

section Maps
variable {K V : Type} [DecidableEq K]

omit [DecidableEq K] in
theorem nodup_of_keys_nodup (l : List (K × V)) (h : (l.map Prod.fst).Nodup) : l.Nodup := by
  induction l with
  | nil => exact List.nodup_nil
  | cons e l ih =>
    simp only [List.map_cons, List.nodup_cons] at h ⊢
    exact ⟨fun hm => h.1 (List.mem_map.mpr ⟨e, hm, rfl⟩), ih h.2⟩

omit [DecidableEq K] in
theorem keys_nodup_perm {l l' : List (K × V)} (hp : l.Perm l') (h : (l.map Prod.fst).Nodup) :
    (l'.map Prod.fst).Nodup := (hp.map Prod.fst).nodup_iff.mp h

theorem alLookup_perm {l l' : List (K × V)} (hp : l.Perm l') (h : (l.map Prod.fst).Nodup) (k : K) :
    alLookup k l = alLookup k l' := by
  have h' := keys_nodup_perm hp h
  apply Option.ext
  intro v
  constructor
  · intro e; exact alLookup_of_mem l' h' k v (hp.subset (mem_of_alLookup l k v e))
  · intro e; exact alLookup_of_mem l h k v (hp.symm.subset (mem_of_alLookup l' k v e))

theorem alErase_perm {l l' : List (K × V)} (hp : l.Perm l') (k : K) :
    (alErase k l).Perm (alErase k l') := by
  induction hp with
  | nil => exact List.Perm.refl _
  | cons x _ ih =>
    obtain ⟨k', v⟩ := x
    by_cases h : k' = k
    · simp only [alErase, h, if_true]; exact ih
    · simp only [alErase, h, if_false]; exact ih.cons _
  | swap x y l =>
    obtain ⟨kx, vx⟩ := x
    obtain ⟨ky, vy⟩ := y
    by_cases h1 : kx = k <;> by_cases h2 : ky = k <;>
      simp only [alErase, h1, h2, if_true, if_false] <;>
      first | exact List.Perm.refl _ | exact List.Perm.swap _ _ _
  | trans _ _ ih1 ih2 => exact ih1.trans ih2

/-- erasing different keys commutes (structurally) -/
theorem alErase_comm (k k' : K) (l : List (K × V)) :
    alErase k (alErase k' l) = alErase k' (alErase k l) := by
  induction l with
  | nil => rfl
  | cons e l ih =>
    obtain ⟨x, v⟩ := e
    by_cases h1 : x = k
    · subst h1
      by_cases h2 : x = k'
      · subst h2; simp only [alErase, if_true]
      · simp only [alErase, h2, if_true, if_false, ih]
    · by_cases h2 : x = k'
      · subst h2; simp only [alErase, h1, if_true, if_false, ih]
      · simp only [alErase, h1, h2, if_false, ih]

theorem alErase_absent (k : K) (l : List (K × V)) (h : alLookup k l = none) : alErase k l = l := by
  induction l with
  | nil => rfl
  | cons e l ih =>
    obtain ⟨x, v⟩ := e
    by_cases h1 : x = k
    · simp [alLookup, h1] at h
    · simp only [alLookup, h1, if_false] at h
      simp only [alErase, h1, if_false, ih h]

namespace FMap

omit [DecidableEq K] in
theorem WF_perm {m m' : FMap K V} (hp : m.l.Perm m'.l) (h : m.WF) : m'.WF :=
  keys_nodup_perm hp h

theorem get_perm {m m' : FMap K V} (hp : m.l.Perm m'.l) (h : m.WF) (k : K) :
    m.get k = m'.get k := alLookup_perm hp h k

omit [DecidableEq K] in
theorem sum_perm {m m' : FMap K V} (hp : m.l.Perm m'.l) (f : V → Nat) : m.sum f = m'.sum f :=
  (hp.map (fun (e : K × V) => f e.2)).sum_nat

theorem set_perm {m m' : FMap K V} (hp : m.l.Perm m'.l) (k : K) (v : Option V) :
    (m.set k v).l.Perm (m'.set k v).l := by
  cases v with
  | none => exact alErase_perm hp k
  | some v => exact (alErase_perm hp k).cons _

/-- two well-formed maps with the same lookups are permutations of each other -/
theorem perm_of_get {m m' : FMap K V} (h : m.WF) (h' : m'.WF) (hg : ∀ k, m.get k = m'.get k) :
    m.l.Perm m'.l := by
  apply (List.perm_ext_iff_of_nodup (nodup_of_keys_nodup _ h) (nodup_of_keys_nodup _ h')).mpr
  intro ⟨k, v⟩
  rw [mem_iff m h, mem_iff m' h', hg]

/-- writing an absent key as absent changes nothing -/
theorem set_none_absent (m : FMap K V) (k : K) (h : m.get k = none) : m.set k none = m := by
  cases m with
  | mk l => simp only [set, get] at *; rw [alErase_absent k l h]

end FMap
end Maps

variable {K D : Type} [DecidableEq K]

/-! ## `HeapEqv` is an equivalence; the extensional form `HeapExt` -/

omit [DecidableEq K] in
theorem HeapEqv.refl (h : Heap K D) : HeapEqv h h := ⟨rfl, rfl, rfl, List.Perm.refl _⟩

omit [DecidableEq K] in
theorem HeapEqv.symm {h h' : Heap K D} (e : HeapEqv h h') : HeapEqv h' h :=
  ⟨e.nodes.symm, e.rc.symm, e.next.symm, e.roots.symm⟩

omit [DecidableEq K] in
theorem HeapEqv.trans {h1 h2 h3 : Heap K D} (e : HeapEqv h1 h2) (e' : HeapEqv h2 h3) :
    HeapEqv h1 h3 :=
  ⟨e.nodes.trans e'.nodes, e.rc.trans e'.rc, e.next.trans e'.next, e.roots.trans e'.roots⟩

omit [DecidableEq K] in
theorem HeapEqv.wf {h h' : Heap K D} (e : HeapEqv h h') (hwf : h.roots.WF) : h'.roots.WF :=
  FMap.WF_perm e.roots hwf

/-- same nodes, counts, fill mark and the same root under every key -/
structure HeapExt (h h' : Heap K D) : Prop where
  nodes : h.nodes = h'.nodes
  rc : h.rc = h'.rc
  next : h.next = h'.next
  roots : ∀ k, h.roots.get k = h'.roots.get k

theorem HeapExt.refl (h : Heap K D) : HeapExt h h := ⟨rfl, rfl, rfl, fun _ => rfl⟩

theorem HeapExt.symm {h h' : Heap K D} (e : HeapExt h h') : HeapExt h' h :=
  ⟨e.nodes.symm, e.rc.symm, e.next.symm, fun k => (e.roots k).symm⟩

theorem HeapExt.trans {h1 h2 h3 : Heap K D} (e : HeapExt h1 h2) (e' : HeapExt h2 h3) :
    HeapExt h1 h3 :=
  ⟨e.nodes.trans e'.nodes, e.rc.trans e'.rc, e.next.trans e'.next,
    fun k => (e.roots k).trans (e'.roots k)⟩

theorem HeapEqv.toExt {h h' : Heap K D} (e : HeapEqv h h') (hwf : h.roots.WF) : HeapExt h h' :=
  ⟨e.nodes, e.rc, e.next, FMap.get_perm e.roots hwf⟩

theorem HeapExt.toEqv {h h' : Heap K D} (e : HeapExt h h') (hwf : h.roots.WF)
    (hwf' : h'.roots.WF) : HeapEqv h h' :=
  ⟨e.nodes, e.rc, e.next, FMap.perm_of_get hwf hwf' e.roots⟩

/-- on well-formed heaps the two notions coincide -/
theorem heapEqv_iff_ext {h h' : Heap K D} (hwf : h.roots.WF) (hwf' : h'.roots.WF) :
    HeapEqv h h' ↔ HeapExt h h' :=
  ⟨fun e => e.toExt hwf, fun e => e.toEqv hwf hwf'⟩

theorem HeapEqv.get {h h' : Heap K D} (e : HeapEqv h h') (hwf : h.roots.WF) (k : K) :
    h.roots.get k = h'.roots.get k := FMap.get_perm e.roots hwf k

/-- results of operations up to `HeapExt`: the same error, or extensionally equal heaps -/
def ExcExt : Except Err (Heap K D) → Except Err (Heap K D) → Prop
  | .ok h, .ok h' => HeapExt h h'
  | .error e, .error e' => e = e'
  | _, _ => False

theorem ExcExt.refl (r : Except Err (Heap K D)) : ExcExt r r := by
  cases r with
  | ok h => exact HeapExt.refl h
  | error e => exact rfl

theorem ExcExt.symm {r r' : Except Err (Heap K D)} (e : ExcExt r r') : ExcExt r' r := by
  cases r <;> cases r' <;> simp only [ExcExt] at e ⊢
  · exact e.symm
  · exact e.symm

theorem ExcExt.trans {r1 r2 r3 : Except Err (Heap K D)} (e : ExcExt r1 r2) (e' : ExcExt r2 r3) :
    ExcExt r1 r3 := by
  cases r1 <;> cases r2 <;> cases r3 <;> simp only [ExcExt] at e e' ⊢
  · exact e.trans e'
  · exact e.trans e'

theorem ExcExt.of_eq {r r' : Except Err (Heap K D)} (e : r = r') : ExcExt r r' := e ▸ ExcExt.refl r

/-- an ok result on the left forces an ok result on the right -/
theorem ExcExt.ok_left {r' : Except Err (Heap K D)} {h : Heap K D} (e : ExcExt (.ok h) r') :
    ∃ h', r' = .ok h' ∧ HeapExt h h' := by
  cases r' with
  | ok h' => exact ⟨h', rfl, e⟩
  | error _ => exact e.elim

theorem ExcExt.ok_right {r : Except Err (Heap K D)} {h' : Heap K D} (e : ExcExt r (.ok h')) :
    ∃ h, r = .ok h ∧ HeapExt h h' := by
  cases r with
  | ok h => exact ⟨h, rfl, e⟩
  | error _ => exact e.elim

theorem ExcExt.error_left {r' : Except Err (Heap K D)} {x : Err}
    (e : ExcExt (.error x : Except Err (Heap K D)) r') : r' = .error x := by
  cases r' with
  | ok h' => exact e.elim
  | error y => simp only [ExcExt] at e; rw [e]

/-- bind: the continuations only have to agree on the results actually produced -/
theorem ExcExt.bind {r r' : Except Err (Heap K D)} {f f' : Heap K D → Except Err (Heap K D)}
    (e : ExcExt r r')
    (hf : ∀ h h', r = .ok h → r' = .ok h' → HeapExt h h' → ExcExt (f h) (f' h')) :
    ExcExt (r >>= f) (r' >>= f') := by
  cases r with
  | ok h =>
    cases r' with
    | ok h' => exact hf h h' rfl rfl e
    | error _ => exact e.elim
  | error x =>
    cases r' with
    | ok _ => exact e.elim
    | error y => exact e

theorem ExcExt.map {r r' : Except Err (Heap K D)} {F F' : Heap K D → Heap K D}
    (e : ExcExt r r') (hf : ∀ h h', HeapExt h h' → HeapExt (F h) (F' h')) :
    ExcExt (r.map F) (r'.map F') := by
  cases r with
  | ok h =>
    cases r' with
    | ok h' => exact hf h h' e
    | error _ => exact e.elim
  | error x =>
    cases r' with
    | ok _ => exact e.elim
    | error y => exact e

/-! ## operations on nodes / counts do not look at the roots -/

/-- replace the root map -/
def setRoots (R : FMap K (Node D × Nat)) (h : Heap K D) : Heap K D := { h with roots := R }

omit [DecidableEq K] in
@[simp] theorem setRoots_roots (R : FMap K (Node D × Nat)) (h : Heap K D) :
    (setRoots R h).roots = R := rfl

theorem HeapExt.eq_setRoots {h h' : Heap K D} (e : HeapExt h h') : h' = setRoots h'.roots h := by
  cases h; cases h'
  obtain ⟨e1, e2, e3, _⟩ := e
  simp only at e1 e2 e3
  subst e1 e2 e3
  rfl

theorem HeapExt.setRoots_of {R : FMap K (Node D × Nat)} {h : Heap K D}
    (e : ∀ k, h.roots.get k = R.get k) : HeapExt h (setRoots R h) := ⟨rfl, rfl, rfl, e⟩

omit [DecidableEq K] in
theorem decRef_setRoots (R : FMap K (Node D × Nat)) (h : Heap K D) (a : Addr) :
    decRef (setRoots R h) a = ((decRef h a).1, setRoots R (decRef h a).2) := by
  simp only [decRef, setRoots]
  cases h.rc.get a <;> rfl

omit [DecidableEq K] in
/-- the walk neither reads nor writes the roots -/
theorem derefChildren_setRoots (R : FMap K (Node D × Nat)) :
    ∀ (fuel : Nat) (cs : List Addr) (h : Heap K D),
    derefChildren fuel (setRoots R h) cs = (derefChildren fuel h cs).map (setRoots R)
  | 0, _, _ => rfl
  | fuel + 1, cs, h => by
    simp only [derefChildren]
    induction cs generalizing h with
    | nil => rfl
    | cons a rest ih =>
      simp only [List.foldlM_cons]
      have hstep : derefStep (derefChildren fuel) (setRoots R h) a =
          (derefStep (derefChildren fuel) h a).map (setRoots R) := by
        simp only [derefStep, decRef_setRoots]
        have hn : (setRoots R h).nodes = h.nodes := rfl
        rw [hn]
        rcases hd : decRef h a with ⟨b, h1⟩
        cases b with
        | true => rfl
        | false =>
          simp only
          cases (h.nodes.get a).map (·.children) with
          | none => rfl
          | some kids => exact derefChildren_setRoots R fuel kids h1
      rw [hstep]
      cases hs : derefStep (derefChildren fuel) h a with
      | error e => rfl
      | ok h2 =>
        simp only [Except.map, bind, Except.bind]
        exact ih h2

/-- the walk with the freed-address list, heap part -/
theorem eqv_derefChildrenF_fst : ∀ (fuel : Nat) (cs : List Addr) (h : Heap K D) (fl : List Addr),
    (derefChildrenF fuel (h, fl) cs).map Prod.fst = derefChildren fuel h cs
  | 0, _, _, _ => rfl
  | fuel + 1, cs, h, fl => by
    simp only [derefChildrenF, derefChildren]
    induction cs generalizing h fl with
    | nil => rfl
    | cons a rest ih =>
      simp only [List.foldlM_cons]
      have hstep : (derefStepF (derefChildrenF fuel) (h, fl) a).map Prod.fst =
          derefStep (derefChildren fuel) h a := by
        simp only [derefStepF, derefStep]
        rcases hd : decRef h a with ⟨b, h1⟩
        cases b with
        | true => rfl
        | false =>
          simp only
          cases (h.nodes.get a).map (·.children) with
          | none => rfl
          | some kids => exact eqv_derefChildrenF_fst fuel kids h1 (a :: fl)
      rw [← hstep]
      cases hs : derefStepF (derefChildrenF fuel) (h, fl) a with
      | error e => rfl
      | ok hf2 =>
        obtain ⟨h2, fl2⟩ := hf2
        simp only [Except.map, bind, Except.bind]
        exact ih h2 fl2

theorem eqv_derefProcessF_fst (v : Variant) (hf : Heap K D × List Addr) (k : K) (cs : List Addr) :
    (derefProcessF v hf k cs).map Prod.fst = derefProcess v hf.1 k cs := by
  obtain ⟨h, fl⟩ := hf
  simp only [derefProcessF, derefProcess]
  cases hg : h.roots.get k with
  | none => rfl
  | some e =>
    obtain ⟨r, c⟩ := e
    simp only
    split
    · rfl
    · exact eqv_derefChildrenF_fst _ cs _ fl

/-- `applyNodeChange` on the heap alone -/
def applyNodeH (v : Variant) (h : Heap K D) : NodeChange K D → Except Err (Heap K D)
  | .newValue a n => .ok { h with nodes := h.nodes.set a (some n) }
  | .incRef a => .ok (incRef h a)
  | .derefChildren k cs => derefProcess v h k cs

theorem eqv_applyNodeChange_fst (v : Variant) (hf : Heap K D × List Addr) (c : NodeChange K D) :
    (applyNodeChange v hf c).map Prod.fst = applyNodeH v hf.1 c := by
  cases c with
  | newValue a n => rfl
  | incRef a => rfl
  | derefChildren k cs => exact eqv_derefProcessF_fst v hf k cs

theorem foldlM_applyNodeChange_fst (v : Variant) (cs : List (NodeChange K D)) :
    ∀ (hf : Heap K D × List Addr),
    (cs.foldlM (applyNodeChange v) hf).map Prod.fst = cs.foldlM (applyNodeH v) hf.1 := by
  induction cs with
  | nil => intro hf; rfl
  | cons c cs ih =>
    intro hf
    simp only [List.foldlM_cons]
    rw [← eqv_applyNodeChange_fst v hf c]
    cases hs : applyNodeChange v hf c with
    | error e => rfl
    | ok hf2 =>
      simp only [Except.map, bind, Except.bind]
      exact ih hf2

/-- `applyChangeSetF41`, heap part: all root changes, then all node changes -/
theorem eqv_applyChangeSetF41_fst (v : Variant) (hf : Heap K D × List Addr) (cs : ChangeSet K D) :
    (applyChangeSetF41 v hf cs).map Prod.fst =
      cs.nodeChanges.foldlM (applyNodeH v) (cs.changes.foldl (applyRootChange v) hf.1) :=
  foldlM_applyNodeChange_fst v cs.nodeChanges _

/-- `applyChangeSet`, heap part: the root changes that are not postponed, all node changes, the
    postponed `Set`s -/
theorem eqv_applyChangeSet_fst (v : Variant) (hf : Heap K D × List Addr) (cs : ChangeSet K D) :
    (applyChangeSet v hf cs).map Prod.fst =
      (cs.nodeChanges.foldlM (applyNodeH v) (cs.early.changes.foldl (applyRootChange v) hf.1)).map
        (fun h => cs.late.foldl (applyRootChange v) h) := by
  have := eqv_applyChangeSetF41_fst v hf cs.early
  simp only [applyChangeSet]
  rw [show cs.nodeChanges = cs.early.nodeChanges from rfl, ← this]
  cases applyChangeSetF41 v hf cs.early with
  | error e => rfl
  | ok x => rfl

/-! ### `insRefsA`: roots untouched, and the planned node changes of an InsertTree -/

mutual
  theorem insRefA_roots (ap : Bool) : ∀ (r : NRef D) (h : Heap K D) (f : List Addr)
      (R : FMap K (Node D × Nat)),
      (insRefA ap h f r).1.roots = h.roots ∧ (insRefA ap h f r).1.next = h.next ∧
      insRefA ap (setRoots R h) f r = (setRoots R (insRefA ap h f r).1, (insRefA ap h f r).2)
    | .existing a, h, f, R => by
      cases ap <;> simp [insRefA, incRef, setRoots]
    | .new d cs, h, f, R => by
      have ih := insRefsA_roots ap cs h f R
      rcases hR : insRefsA ap h f cs with ⟨h1, f1, as⟩
      simp only [hR] at ih
      obtain ⟨i1, i2, i3⟩ := ih
      simp only [insRefA, hR, i3]
      exact ⟨i1, i2, rfl⟩
  theorem insRefsA_roots (ap : Bool) : ∀ (rs : NRefs D) (h : Heap K D) (f : List Addr)
      (R : FMap K (Node D × Nat)),
      (insRefsA ap h f rs).1.roots = h.roots ∧ (insRefsA ap h f rs).1.next = h.next ∧
      insRefsA ap (setRoots R h) f rs = (setRoots R (insRefsA ap h f rs).1, (insRefsA ap h f rs).2)
    | .nil, h, f, R => by simp [insRefsA]
    | .cons r rs, h, f, R => by
      have ih1 := insRefA_roots ap r h f R
      rcases hR1 : insRefA ap h f r with ⟨h1, f1, a⟩
      simp only [hR1] at ih1
      obtain ⟨a1, a2, a3⟩ := ih1
      have ih2 := insRefsA_roots ap rs h1 f1 R
      rcases hR2 : insRefsA ap h1 f1 rs with ⟨h2, f2, as⟩
      simp only [hR2] at ih2
      obtain ⟨b1, b2, b3⟩ := ih2
      simp only [insRefsA, hR1, hR2, a3, b3]
      exact ⟨by rw [b1, a1], by rw [b2, a2], trivial⟩
end

mutual
  /-- statement B3: applying the planned node changes of a reference IS `insRefA` -/
  theorem eqv_planRef (v : Variant) (ap : Bool) : ∀ (r : NRef D) (h : Heap K D) (f : List Addr),
      (planRef (K := K) ap f r).1.foldlM (applyNodeH v) h = .ok (insRefA ap h f r).1 ∧
      (planRef (K := K) ap f r).2 = (insRefA ap h f r).2
    | .existing a, h, f => by
      cases ap
      · exact ⟨rfl, rfl⟩
      · exact ⟨rfl, rfl⟩
    | .new d cs, h, f => by
      have ih := eqv_planRefs v ap cs h f
      rcases hP : planRefs (K := K) ap f cs with ⟨chs, f1, as⟩
      rcases hR : insRefsA ap h f cs with ⟨h1, f1', as'⟩
      simp only [hP, hR, Prod.mk.injEq] at ih
      obtain ⟨i1, i2, i3⟩ := ih
      subst i2 i3
      simp only [planRef, hP, insRefA, hR, List.foldlM_append, i1]
      exact ⟨rfl, trivial⟩
  theorem eqv_planRefs (v : Variant) (ap : Bool) : ∀ (rs : NRefs D) (h : Heap K D) (f : List Addr),
      (planRefs (K := K) ap f rs).1.foldlM (applyNodeH v) h = .ok (insRefsA ap h f rs).1 ∧
      (planRefs (K := K) ap f rs).2 = (insRefsA ap h f rs).2
    | .nil, h, f => ⟨rfl, rfl⟩
    | .cons r rs, h, f => by
      have ih1 := eqv_planRef v ap r h f
      rcases hP1 : planRef (K := K) ap f r with ⟨c1, f1, a⟩
      rcases hR1 : insRefA ap h f r with ⟨h1, f1', a'⟩
      simp only [hP1, hR1, Prod.mk.injEq] at ih1
      obtain ⟨i1, i2, i3⟩ := ih1
      subst i2 i3
      have ih2 := eqv_planRefs v ap rs h1 f1
      rcases hP2 : planRefs (K := K) ap f1 rs with ⟨c2, f2, as⟩
      rcases hR2 : insRefsA ap h1 f1 rs with ⟨h2, f2', as'⟩
      simp only [hP2, hR2, Prod.mk.injEq] at ih2
      obtain ⟨j1, j2, j3⟩ := ih2
      subst j2 j3
      simp only [planRefs, hP1, hP2, insRefsA, hR1, hR2, List.foldlM_append, i1]
      exact ⟨j1, trivial⟩
end

/-! ## the dereference of a root: what it does to the roots, and that it reads only its own key -/

/-- the roots after `derefProcess`: untouched, or the entry of `k` rewritten with the same node -/
theorem derefProcess_roots (v : Variant) (h h2 : Heap K D) (k : K) (cs : List Addr)
    (he : derefProcess v h k cs = .ok h2) :
    h2.next = h.next ∧
    (h2.roots = h.roots ∨ ∃ o, h2.roots = h.roots.set k o ∧
      ∀ e2, o = some e2 → ∃ e, h.roots.get k = some e ∧ e2.1 = e.1) := by
  simp only [derefProcess] at he
  cases hg : h.roots.get k with
  | none =>
    simp only [hg, Except.ok.injEq] at he
    subst he
    exact ⟨rfl, Or.inl rfl⟩
  | some e =>
    obtain ⟨r, c⟩ := e
    simp only [hg] at he
    split at he
    · simp only [Except.ok.injEq] at he
      subst he
      refine ⟨rfl, Or.inr ⟨some (r, c - 1), rfl, ?_⟩⟩
      intro e2 h2
      simp only [Option.some.injEq] at h2
      subst h2
      exact ⟨(r, c), rfl, rfl⟩
    · have := derefChildren_roots_next _ cs _ h2 he
      refine ⟨this.2, Or.inr ⟨none, this.1, ?_⟩⟩
      intro e2 h2
      cases h2

theorem derefProcess_get (v : Variant) (h h2 : Heap K D) (k : K) (cs : List Addr)
    (he : derefProcess v h k cs = .ok h2) (x : K) (hx : x ≠ k) :
    h2.roots.get x = h.roots.get x := by
  rcases (derefProcess_roots v h h2 k cs he).2 with e | ⟨o, e, _⟩
  · rw [e]
  · rw [e, FMap.get_set_other _ _ _ _ hx]

/-- every root entry after `derefProcess` carries the node it carried before -/
theorem derefProcess_get_some (v : Variant) (h h2 : Heap K D) (k : K) (cs : List Addr)
    (he : derefProcess v h k cs = .ok h2) (x : K) (e2 : Node D × Nat)
    (hx : h2.roots.get x = some e2) : ∃ e, h.roots.get x = some e ∧ e2.1 = e.1 := by
  rcases (derefProcess_roots v h h2 k cs he).2 with e | ⟨o, e, ho⟩
  · rw [e] at hx; exact ⟨e2, hx, rfl⟩
  · rw [e, FMap.get_set] at hx
    by_cases hxk : x = k
    · subst hxk
      simp only [if_true] at hx
      exact ho e2 hx
    · simp only [hxk, if_false] at hx
      exact ⟨e2, hx, rfl⟩

theorem derefProcess_wf (v : Variant) (h h2 : Heap K D) (k : K) (cs : List Addr)
    (he : derefProcess v h k cs = .ok h2) (hwf : h.roots.WF) : h2.roots.WF := by
  rcases (derefProcess_roots v h h2 k cs he).2 with e | ⟨o, e, _⟩
  · rw [e]; exact hwf
  · rw [e]; exact FMap.WF_set _ hwf _ _

/-- `derefProcess` on two heaps with the same nodes / counts / fill mark and the same entry under
    `k` (the other root entries may differ arbitrarily): same outcome, same nodes / counts, the
    same new entry under `k`, the other entries of each heap untouched. -/
theorem derefProcess_rel (v : Variant) (h g : Heap K D) (k : K) (cs : List Addr)
    (hn : g.nodes = h.nodes) (hr : g.rc = h.rc) (hx : g.next = h.next)
    (hk : g.roots.get k = h.roots.get k) :
    (∀ e, derefProcess v h k cs = .error e → derefProcess v g k cs = .error e) ∧
    (∀ h2, derefProcess v h k cs = .ok h2 → ∃ g2, derefProcess v g k cs = .ok g2 ∧
      g2.nodes = h2.nodes ∧ g2.rc = h2.rc ∧ g2.next = h2.next ∧
      ∀ x, g2.roots.get x = if x = k then h2.roots.get k else g.roots.get x) := by
  obtain ⟨gn, grc, groots, gnext⟩ := g
  simp only at hn hr hx hk
  subst hn hr hx
  simp only [derefProcess, hk]
  cases hg : h.roots.get k with
  | none =>
    refine ⟨fun e he => (by cases he), ?_⟩
    intro h2 he
    simp only [Except.ok.injEq] at he
    subst he
    refine ⟨_, rfl, rfl, rfl, rfl, ?_⟩
    intro x
    by_cases hxk : x = k
    · subst hxk; simp only [if_true]; rw [hk, hg]
    · simp only [hxk, if_false]
  | some e =>
    obtain ⟨r, c⟩ := e
    simp only
    split
    · refine ⟨fun e he => (by cases he), ?_⟩
      intro h2 he
      simp only [Except.ok.injEq] at he
      subst he
      refine ⟨_, rfl, rfl, rfl, rfl, ?_⟩
      intro x
      simp only [FMap.get_set]
      by_cases hxk : x = k
      · simp only [hxk, if_true]
      · simp only [hxk, if_false]
    · have hw := derefChildren_setRoots (groots.set k none)
        (walkFuel { h with roots := h.roots.set k none }) cs { h with roots := h.roots.set k none }
      have hw' : derefChildren (walkFuel { h with roots := h.roots.set k none })
          (⟨h.nodes, h.rc, groots.set k none, h.next⟩ : Heap K D) cs =
          (derefChildren (walkFuel { h with roots := h.roots.set k none })
            { h with roots := h.roots.set k none } cs).map (setRoots (groots.set k none)) := hw
      have hfuel : walkFuel (⟨h.nodes, h.rc, groots.set k none, h.next⟩ : Heap K D) =
          walkFuel { h with roots := h.roots.set k none } := rfl
      rw [hfuel, hw']
      constructor
      · intro e he
        rw [he]; rfl
      · intro h2 he
        rw [he]
        refine ⟨_, rfl, rfl, rfl, rfl, ?_⟩
        intro x
        have hroots := (derefChildren_roots_next _ cs _ h2 he).1
        simp only [setRoots_roots, FMap.get_set, hroots]
        by_cases hxk : x = k
        · simp only [hxk, if_true]
        · simp only [hxk, if_false]

/-! ## E2: every operation respects `HeapExt` (hence `HeapEqv`) and preserves `roots.WF` -/

theorem derefProcess_ext (v : Variant) {h h' : Heap K D} (e : HeapExt h h') (k : K)
    (cs : List Addr) : ExcExt (derefProcess v h k cs) (derefProcess v h' k cs) := by
  obtain ⟨r1, r2⟩ := derefProcess_rel v h h' k cs e.nodes.symm e.rc.symm e.next.symm (e.roots k).symm
  cases hd : derefProcess v h k cs with
  | error x => rw [r1 x hd]; exact rfl
  | ok h2 =>
    obtain ⟨g2, eg, gn, gr, gx, gk⟩ := r2 h2 hd
    rw [eg]
    refine ⟨gn.symm, gr.symm, gx.symm, ?_⟩
    intro x
    rw [gk x]
    by_cases hxk : x = k
    · simp only [hxk, if_true]
    · simp only [hxk, if_false]
      rw [derefProcess_get v h h2 k cs hd x hxk, e.roots x]

theorem dereferenceTree_ext (v : Variant) {h h' : Heap K D} (e : HeapExt h h') (k : K) :
    ExcExt (dereferenceTree v h k) (dereferenceTree v h' k) := by
  simp only [dereferenceTree, ← e.roots k]
  split
  · exact rfl
  · cases h.roots.get k with
    | none => exact rfl
    | some x => exact derefProcess_ext v e k _

theorem referenceTree_ext (v : Variant) {h h' : Heap K D} (e : HeapExt h h') (k : K) :
    ExcExt (referenceTree v h k) (referenceTree v h' k) := by
  cases v with
  | appendOnly => exact e
  | plain => exact rfl
  | rcRoots =>
    simp only [referenceTree, ← e.roots k]
    cases h.roots.get k with
    | none => exact e
    | some x =>
      refine ⟨e.nodes, e.rc, e.next, ?_⟩
      intro y
      simp only [FMap.get_set, e.roots y]

theorem okOr_ext {h h' : Heap K D} {r r' : Except Err (Heap K D)} (e : HeapExt h h')
    (er : ExcExt r r') : HeapExt (okOr h r) (okOr h' r') := by
  cases r <;> cases r' <;> simp only [ExcExt] at er <;> simp only [okOr]
  · exact e
  · exact er

theorem applyNodeH_ext (v : Variant) {h h' : Heap K D} (e : HeapExt h h') (c : NodeChange K D) :
    ExcExt (applyNodeH v h c) (applyNodeH v h' c) := by
  cases c with
  | newValue a n => exact ⟨by simp only [e.nodes], e.rc, e.next, e.roots⟩
  | incRef a => exact ⟨e.nodes, by simp only [incRef, e.rc], e.next, e.roots⟩
  | derefChildren k cs => exact derefProcess_ext v e k cs

theorem foldlM_applyNodeH_ext (v : Variant) (cs : List (NodeChange K D)) :
    ∀ {h h' : Heap K D}, HeapExt h h' →
      ExcExt (cs.foldlM (applyNodeH v) h) (cs.foldlM (applyNodeH v) h') := by
  induction cs with
  | nil => intro h h' e; exact e
  | cons c cs ih =>
    intro h h' e
    simp only [List.foldlM_cons]
    exact ExcExt.bind (applyNodeH_ext v e c) (fun _ _ _ _ e2 => ih e2)

/-! ### root changes are pointwise updates of the root map -/

/-- the key a root change writes -/
def RootChange.key : RootChange K D → K
  | .set k _ => k
  | .reference k => k

/-- `Operation::Reference` on the entry of the key -/
def refUpd (v : Variant) : Option (Node D × Nat) → Option (Node D × Nat)
  | some (r, c) => if v = .rcRoots then some (r, c + 1) else some (r, c)
  | none => none

/-- what a root change does to the entry of its key -/
def rootUpd (v : Variant) : RootChange K D → Option (Node D × Nat) → Option (Node D × Nat)
  | .set _ root, o => some (rootEntry v o root)
  | .reference _, o => refUpd v o

/-- `F` changes nothing but the roots, entry by entry (`φ k` maps the old entry of `k` to the
    new one) -/
structure RootOnly (F : Heap K D → Heap K D)
    (φ : K → Option (Node D × Nat) → Option (Node D × Nat)) : Prop where
  nodes : ∀ h, (F h).nodes = h.nodes
  rc : ∀ h, (F h).rc = h.rc
  next : ∀ h, (F h).next = h.next
  get : ∀ h x, (F h).roots.get x = φ x (h.roots.get x)

theorem RootOnly.ext {F : Heap K D → Heap K D} {φ : K → Option (Node D × Nat) → Option (Node D × Nat)}
    (hF : RootOnly F φ) {h h' : Heap K D} (e : HeapExt h h') : HeapExt (F h) (F h') :=
  ⟨by rw [hF.nodes, hF.nodes, e.nodes], by rw [hF.rc, hF.rc, e.rc], by rw [hF.next, hF.next, e.next],
    fun x => by rw [hF.get, hF.get, e.roots x]⟩

theorem referenceTree_get (v : Variant) (h : Heap K D) (k x : K) :
    (okOr h (referenceTree v h k)).roots.get x =
      if x = k then refUpd v (h.roots.get x) else h.roots.get x := by
  by_cases hxk : x = k
  · subst hxk
    simp only [if_true]
    cases v with
    | appendOnly => simp only [referenceTree, okOr]; cases h.roots.get x <;> simp [refUpd]
    | plain => simp only [referenceTree, okOr]; cases h.roots.get x <;> simp [refUpd]
    | rcRoots =>
      simp only [referenceTree]
      cases hg : h.roots.get x with
      | none => simp only [okOr, hg, refUpd]
      | some e => simp only [okOr, FMap.get_set_same, refUpd, if_true]
  · simp only [hxk, if_false]
    cases v with
    | appendOnly => rfl
    | plain => rfl
    | rcRoots =>
      simp only [referenceTree]
      cases hg : h.roots.get k with
      | none => rfl
      | some e => simp only [okOr, FMap.get_set_other _ _ _ _ hxk]

theorem referenceTree_core (v : Variant) (h : Heap K D) (k : K) :
    (okOr h (referenceTree v h k)).nodes = h.nodes ∧ (okOr h (referenceTree v h k)).rc = h.rc ∧
    (okOr h (referenceTree v h k)).next = h.next ∧
    (h.roots.WF → (okOr h (referenceTree v h k)).roots.WF) := by
  cases v with
  | appendOnly => exact ⟨rfl, rfl, rfl, id⟩
  | plain => exact ⟨rfl, rfl, rfl, id⟩
  | rcRoots =>
    simp only [referenceTree]
    cases hg : h.roots.get k with
    | none => exact ⟨rfl, rfl, rfl, id⟩
    | some e => exact ⟨rfl, rfl, rfl, fun hw => FMap.WF_set _ hw _ _⟩

theorem applyRootChange_rootOnly (v : Variant) (c : RootChange K D) :
    RootOnly (fun h => applyRootChange v h c) (fun x o => if x = c.key then rootUpd v c o else o) := by
  cases c with
  | set k root =>
    refine ⟨fun _ => rfl, fun _ => rfl, fun _ => rfl, ?_⟩
    intro h x
    simp only [applyRootChange, FMap.get_set, RootChange.key, rootUpd]
    by_cases hxk : x = k
    · subst hxk; simp only [if_true]
    · simp only [hxk, if_false]
  | reference k =>
    refine ⟨fun h => (referenceTree_core v h k).1, fun h => (referenceTree_core v h k).2.1,
      fun h => (referenceTree_core v h k).2.2.1, ?_⟩
    intro h x
    simp only [applyRootChange, RootChange.key, rootUpd]
    exact referenceTree_get v h k x

theorem applyRootChange_wf (v : Variant) (h : Heap K D) (c : RootChange K D) (hwf : h.roots.WF) :
    (applyRootChange v h c).roots.WF := by
  cases c with
  | set k root => exact FMap.WF_set _ hwf _ _
  | reference k => exact (referenceTree_core v h k).2.2.2 hwf

theorem foldl_applyRootChange_wf (v : Variant) (R : List (RootChange K D)) :
    ∀ (h : Heap K D), h.roots.WF → (R.foldl (applyRootChange v) h).roots.WF := by
  induction R with
  | nil => intro h hw; exact hw
  | cons c R ih => intro h hw; exact ih _ (applyRootChange_wf v h c hw)

/-- a list of root changes: pointwise, and the identity on the keys it does not name -/
theorem foldl_rootOnly (v : Variant) (R : List (RootChange K D)) :
    ∃ φ, RootOnly (fun h => R.foldl (applyRootChange v) h) φ ∧
      ∀ x, x ∉ R.map RootChange.key → ∀ o, φ x o = o := by
  induction R with
  | nil => exact ⟨fun _ o => o, ⟨fun _ => rfl, fun _ => rfl, fun _ => rfl, fun _ _ => rfl⟩,
      fun _ _ _ => rfl⟩
  | cons c R ih =>
    obtain ⟨φ, hφ, hid⟩ := ih
    have hc := applyRootChange_rootOnly v c
    refine ⟨fun x o => φ x (if x = c.key then rootUpd v c o else o), ⟨?_, ?_, ?_, ?_⟩, ?_⟩
    · intro h; simp only [List.foldl_cons]; rw [hφ.nodes, hc.nodes]
    · intro h; simp only [List.foldl_cons]; rw [hφ.rc, hc.rc]
    · intro h; simp only [List.foldl_cons]; rw [hφ.next, hc.next]
    · intro h x; simp only [List.foldl_cons]; rw [hφ.get, hc.get]
    · intro x hx o
      simp only [List.map_cons, List.mem_cons, not_or] at hx
      simp only [hx.1, if_false]
      exact hid x hx.2 o

theorem applyRootChange_ext (v : Variant) {h h' : Heap K D} (e : HeapExt h h')
    (c : RootChange K D) : HeapExt (applyRootChange v h c) (applyRootChange v h' c) :=
  (applyRootChange_rootOnly v c).ext e

theorem foldl_applyRootChange_ext (v : Variant) (R : List (RootChange K D)) {h h' : Heap K D}
    (e : HeapExt h h') : HeapExt (R.foldl (applyRootChange v) h) (R.foldl (applyRootChange v) h') := by
  obtain ⟨φ, hφ, _⟩ := foldl_rootOnly v R
  exact hφ.ext e

/-! ## E4: moving root changes across node changes -/

/-- A node change commutes with a pointwise root update `F` that leaves the key of the
    dereference (if the change is one) alone: exactly on nodes / counts, up to the order of the
    root list on the roots. -/
theorem applyNodeH_comm (v : Variant) {F : Heap K D → Heap K D}
    {φ : K → Option (Node D × Nat) → Option (Node D × Nat)} (hF : RootOnly F φ)
    (c : NodeChange K D) (hk : ∀ k, derefKey c = some k → ∀ o, φ k o = o) (h : Heap K D) :
    ExcExt (applyNodeH v (F h) c) ((applyNodeH v h c).map F) := by
  cases c with
  | newValue a n =>
    show HeapExt ({ F h with nodes := (F h).nodes.set a (some n) } : Heap K D)
      (F { h with nodes := h.nodes.set a (some n) })
    refine ⟨?_, ?_, ?_, ?_⟩
    · show (F h).nodes.set a (some n) = (F _).nodes
      rw [hF.nodes, hF.nodes]
    · show (F h).rc = (F _).rc
      rw [hF.rc, hF.rc]
    · show (F h).next = (F _).next
      rw [hF.next, hF.next]
    · intro x
      show (F h).roots.get x = (F _).roots.get x
      rw [hF.get, hF.get]
  | incRef a =>
    show HeapExt (incRef (F h) a) (F (incRef h a))
    refine ⟨?_, ?_, ?_, ?_⟩
    · show (F h).nodes = (F _).nodes
      rw [hF.nodes, hF.nodes]; rfl
    · rw [hF.rc]
      simp only [incRef, hF.rc]
    · show (F h).next = (F _).next
      rw [hF.next, hF.next]; rfl
    · intro x
      show (F h).roots.get x = (F _).roots.get x
      rw [hF.get, hF.get]; rfl
  | derefChildren k cs =>
    have hφ := hk k rfl
    obtain ⟨r1, r2⟩ := derefProcess_rel v h (F h) k cs (hF.nodes h) (hF.rc h) (hF.next h)
      (by rw [hF.get, hφ])
    show ExcExt (derefProcess v (F h) k cs) ((derefProcess v h k cs).map F)
    cases hd : derefProcess v h k cs with
    | error x => rw [r1 x hd]; exact rfl
    | ok h2 =>
      obtain ⟨g2, eg, gn, gr, gx, gk⟩ := r2 h2 hd
      rw [eg]
      show HeapExt g2 (F h2)
      refine ⟨by rw [gn, hF.nodes], by rw [gr, hF.rc], by rw [gx, hF.next], ?_⟩
      intro x
      rw [gk x]
      by_cases hxk : x = k
      · subst hxk; simp only [if_true]; rw [hF.get, hφ]
      · simp only [hxk, if_false]
        rw [hF.get, hF.get, derefProcess_get v h h2 k cs hd x hxk]

theorem foldlM_applyNodeH_comm (v : Variant) {F : Heap K D → Heap K D}
    {φ : K → Option (Node D × Nat) → Option (Node D × Nat)} (hF : RootOnly F φ)
    (N : List (NodeChange K D))
    (hk : ∀ c ∈ N, ∀ k, derefKey c = some k → ∀ o, φ k o = o) :
    ∀ h, ExcExt (N.foldlM (applyNodeH v) (F h)) ((N.foldlM (applyNodeH v) h).map F) := by
  induction N with
  | nil => intro h; exact HeapExt.refl _
  | cons c N ih =>
    intro h
    simp only [List.foldlM_cons]
    have h1 := applyNodeH_comm v hF c (hk c (by simp)) h
    cases hd : applyNodeH v h c with
    | error x =>
      rw [hd] at h1
      have h1' : ExcExt (.error x : Except Err (Heap K D)) (applyNodeH v (F h) c) := h1.symm
      rw [ExcExt.error_left h1']
      exact rfl
    | ok h2 =>
      rw [hd] at h1
      have h1' : ExcExt (.ok (F h2)) (applyNodeH v (F h) c) := h1.symm
      obtain ⟨g2, eg, e2⟩ := h1'.ok_left
      rw [eg]
      show ExcExt (N.foldlM (applyNodeH v) g2) ((N.foldlM (applyNodeH v) h2).map F)
      exact (foldlM_applyNodeH_ext v N e2.symm).trans
        (ih (fun c hc => hk c (List.mem_cons_of_mem _ hc)) h2)

/-- E4, roots against roots: updates of the entries of two DIFFERENT keys commute up to the
    order of the root list. -/
theorem upd_comm (k k' : K) (hkk : k ≠ k') (f g : Option (Node D × Nat) → Option (Node D × Nat))
    (h : Heap K D) (hwf : h.roots.WF) :
    HeapEqv
      { ({ h with roots := h.roots.set k' (g (h.roots.get k')) } : Heap K D) with
          roots := (h.roots.set k' (g (h.roots.get k'))).set k
            (f ((h.roots.set k' (g (h.roots.get k'))).get k)) }
      { ({ h with roots := h.roots.set k (f (h.roots.get k)) } : Heap K D) with
          roots := (h.roots.set k (f (h.roots.get k))).set k'
            (g ((h.roots.set k (f (h.roots.get k))).get k')) } := by
  apply HeapExt.toEqv
  · refine ⟨rfl, rfl, rfl, ?_⟩
    intro x
    have hkk' : k' ≠ k := fun e => hkk e.symm
    simp only [FMap.get_set, hkk, hkk', if_false]
    by_cases h1 : x = k
    · subst h1; simp only [if_true, hkk, if_false]
    · by_cases h2 : x = k'
      · subst h2; simp only [if_true, h1, if_false]
      · simp only [h1, h2, if_false]
  · exact FMap.WF_set _ (FMap.WF_set _ hwf _ _) _ _
  · exact FMap.WF_set _ (FMap.WF_set _ hwf _ _) _ _

/-- E4, roots against nodes: a change of the roots commutes EXACTLY with `insRefsA` ... -/
theorem insRefsA_setRoots (ap : Bool) (rs : NRefs D) (h : Heap K D) (f : List Addr)
    (R : FMap K (Node D × Nat)) :
    insRefsA ap (setRoots R h) f rs = (setRoots R (insRefsA ap h f rs).1, (insRefsA ap h f rs).2) :=
  (insRefsA_roots ap rs h f R).2.2

omit [DecidableEq K] in
/-- ... with `incRef` and with node writes ... -/
theorem incRef_setRoots (R : FMap K (Node D × Nat)) (h : Heap K D) (a : Addr) :
    incRef (setRoots R h) a = setRoots R (incRef h a) := rfl

/-! ## the planned change set, operation by operation -/

/-- what one operation contributes to the change set: root changes, node changes, allocator
    state afterwards -/
def planOp (v : Variant) (view : K → Option (Node D)) (free : List Addr) (next : Addr) :
    Op K D → List (RootChange K D) × List (NodeChange K D) × List Addr × Addr
  | .insert k t =>
    ([.set k ⟨t.data, (planRefs (K := K) (decide (v = .appendOnly))
        (claimEntries t.children.news free next).1 t.children).2.2⟩],
      (planRefs (decide (v = .appendOnly)) (claimEntries t.children.news free next).1 t.children).1,
      (claimEntries t.children.news free next).2.1, (claimEntries t.children.news free next).2.2)
  | .reference k => (if v = .appendOnly then [] else [.reference k], [], free, next)
  | .dereference k =>
    ([], ((view k).map (fun r => NodeChange.derefChildren k r.children)).toList, free, next)

def planTx (v : Variant) (view : K → Option (Node D)) :
    List Addr → Addr → List (Op K D) → List (RootChange K D) × List (NodeChange K D)
  | _, _, [] => ([], [])
  | free, next, op :: ops =>
    ((planOp v view free next op).1 ++
        (planTx v view (planOp v view free next op).2.2.1 (planOp v view free next op).2.2.2 ops).1,
      (planOp v view free next op).2.1 ++
        (planTx v view (planOp v view free next op).2.2.1 (planOp v view free next op).2.2.2 ops).2)

/-- what `validate_change` guarantees and the assembly needs: a DereferenceTree is not on an
    append-only column and names a visible root -/
def Op.okFor (v : Variant) (view : K → Option (Node D)) : Op K D → Prop
  | .dereference k => v ≠ .appendOnly ∧ (view k).isSome = true
  | _ => True

theorem validateOps_okFor (v : Variant) (view : K → Option (Node D)) :
    ∀ (ops : List (Op K D)), validateOps v view ops = .ok → ∀ op ∈ ops, op.okFor v view := by
  intro ops
  induction ops with
  | nil => intro _ op hm; cases hm
  | cons op0 ops ih =>
    intro hv op hm
    simp only [validateOps] at hv
    cases hc : Validate.validateChange v.opts (op0.kind view) with
    | ok =>
      rw [hc] at hv
      simp only [List.mem_cons] at hm
      rcases hm with rfl | hm
      · cases op with
        | insert k t => trivial
        | reference k => trivial
        | dereference k =>
          simp only [Op.kind] at hc
          simp only [Op.okFor]
          cases hb : (view k).isSome <;> rw [hb] at hc <;> cases v <;>
            simp [Validate.validateChange, Variant.opts] at hc ⊢
      · exact ih hv op hm
    | invalidInput => rw [hc] at hv; cases hv
    | invalidConfiguration => rw [hc] at hv; cases hv

theorem asmOp_plan (v : Variant) (view : K → Option (Node D)) (acc : Asm K D) (op : Op K D)
    (hok : op.okFor v view) :
    ∃ acc', asmOp v view acc op = .ok acc' ∧
      acc'.free = (planOp v view acc.free acc.next op).2.2.1 ∧
      acc'.next = (planOp v view acc.free acc.next op).2.2.2 ∧
      acc'.cs.changes = acc.cs.changes ++ (planOp v view acc.free acc.next op).1 ∧
      acc'.cs.nodeChanges = acc.cs.nodeChanges ++ (planOp v view acc.free acc.next op).2.1 := by
  cases op with
  | insert k t =>
    rcases hC : claimEntries t.children.news acc.free acc.next with ⟨claimed, free', next'⟩
    rcases hP : planRefs (K := K) (decide (v = .appendOnly)) claimed t.children with ⟨chs, f, as⟩
    simp only [asmOp, hC, hP, planOp]
    exact ⟨_, rfl, rfl, rfl, rfl, rfl⟩
  | reference k =>
    by_cases hv : v = .appendOnly
    · simp only [asmOp, hv, if_true, planOp]
      exact ⟨_, rfl, rfl, rfl, by simp, by simp⟩
    · simp only [asmOp, hv, if_false, planOp]
      exact ⟨_, rfl, rfl, rfl, rfl, by simp⟩
  | dereference k =>
    obtain ⟨hv, hs⟩ := hok
    obtain ⟨r, hr⟩ := Option.isSome_iff_exists.mp hs
    simp only [asmOp, hv, if_false, hr, planOp]
    exact ⟨_, rfl, rfl, rfl, by simp, by simp⟩

theorem asmOps_plan (v : Variant) (view : K → Option (Node D)) :
    ∀ (ops : List (Op K D)) (acc : Asm K D), (∀ op ∈ ops, op.okFor v view) →
      (asmOps v view acc ops).2 = .ok () ∧
      (asmOps v view acc ops).1.cs.changes =
        acc.cs.changes ++ (planTx v view acc.free acc.next ops).1 ∧
      (asmOps v view acc ops).1.cs.nodeChanges =
        acc.cs.nodeChanges ++ (planTx v view acc.free acc.next ops).2 := by
  intro ops
  induction ops with
  | nil => intro acc _; simp [asmOps, planTx]
  | cons op ops ih =>
    intro acc hok
    obtain ⟨acc', e, e1, e2, e3, e4⟩ := asmOp_plan v view acc op (hok op (by simp))
    have := ih acc' (fun o ho => hok o (List.mem_cons_of_mem _ ho))
    simp only [asmOps, e, planTx]
    rw [this.1, this.2.1, this.2.2, e1, e2, e3, e4]
    simp only [List.append_assoc, and_self]

mutual
  theorem planRef_no_deref (ap : Bool) : ∀ (r : NRef D) (f : List Addr),
      ∀ c ∈ (planRef (K := K) ap f r).1, derefKey c = none
    | .existing a, f => by
      cases ap <;> simp [planRef, derefKey]
    | .new d cs, f => by
      have ih : ∀ c ∈ (planRefs (K := K) ap f cs).1, derefKey c = none :=
        planRefs_no_deref ap cs f
      rcases hP : planRefs (K := K) ap f cs with ⟨chs, f1, as⟩
      simp only [hP] at ih
      simp only [planRef, hP]
      intro c hc
      simp only [List.mem_append, List.mem_singleton] at hc
      rcases hc with hc | rfl
      · exact ih c hc
      · rfl
  theorem planRefs_no_deref (ap : Bool) : ∀ (rs : NRefs D) (f : List Addr),
      ∀ c ∈ (planRefs (K := K) ap f rs).1, derefKey c = none
    | .nil, f => by simp [planRefs]
    | .cons r rs, f => by
      have ih1 : ∀ c ∈ (planRef (K := K) ap f r).1, derefKey c = none :=
        planRef_no_deref ap r f
      rcases hP1 : planRef (K := K) ap f r with ⟨c1, f1, a⟩
      simp only [hP1] at ih1
      have ih2 : ∀ c ∈ (planRefs (K := K) ap f1 rs).1, derefKey c = none :=
        planRefs_no_deref ap rs f1
      rcases hP2 : planRefs (K := K) ap f1 rs with ⟨c2, f2, as⟩
      simp only [hP2] at ih2
      simp only [planRefs, hP1, hP2]
      intro c hc
      simp only [List.mem_append] at hc
      rcases hc with hc | hc
      · exact ih1 c hc
      · exact ih2 c hc
end

/-- only a DereferenceTree plans a `DereferenceChildren`, of its own key -/
theorem planOp_derefKey (v : Variant) (view : K → Option (Node D)) (free : List Addr) (next : Addr)
    (op : Op K D) (c : NodeChange K D) (hc : c ∈ (planOp v view free next op).2.1) (k : K)
    (hk : derefKey c = some k) : op.isDeref = true ∧ op.key = k := by
  cases op with
  | insert k' t =>
    simp only [planOp] at hc
    rw [planRefs_no_deref _ _ _ c hc] at hk
    cases hk
  | reference k' => simp [planOp] at hc
  | dereference k' =>
    simp only [planOp] at hc
    cases hv : view k' with
    | none => simp [hv] at hc
    | some r =>
      simp only [hv, Option.map_some, Option.toList_some, List.mem_singleton] at hc
      subst hc
      simp only [derefKey, Option.some.injEq] at hk
      exact ⟨rfl, hk⟩

/-- the root changes of a plan come from the operations that are not dereferences -/
theorem planOp_rootKey (v : Variant) (view : K → Option (Node D)) (free : List Addr) (next : Addr)
    (op : Op K D) (x : K) (hx : x ∈ (planOp v view free next op).1.map RootChange.key) :
    op.isDeref = false ∧ op.key = x := by
  cases op with
  | insert k t =>
    simp only [planOp, List.map_cons, List.map_nil, List.mem_singleton, RootChange.key] at hx
    exact ⟨rfl, hx.symm⟩
  | reference k =>
    simp only [planOp] at hx
    split at hx
    · simp at hx
    · simp only [List.map_cons, List.map_nil, List.mem_singleton, RootChange.key] at hx
      exact ⟨rfl, hx.symm⟩
  | dereference k => simp [planOp] at hx

theorem planTx_rootKey (v : Variant) (view : K → Option (Node D)) :
    ∀ (ops : List (Op K D)) (free : List Addr) (next : Addr) (x : K),
      x ∈ (planTx v view free next ops).1.map RootChange.key →
      ∃ op ∈ ops, op.isDeref = false ∧ op.key = x := by
  intro ops
  induction ops with
  | nil => intro free next x hx; simp [planTx] at hx
  | cons op ops ih =>
    intro free next x hx
    simp only [planTx, List.map_append, List.mem_append] at hx
    rcases hx with hx | hx
    · exact ⟨op, by simp, planOp_rootKey v view free next op x hx⟩
    · obtain ⟨op', hm, h'⟩ := ih _ _ x hx
      exact ⟨op', List.mem_cons_of_mem _ hm, h'⟩

/-! ## the strict in-order run -/

/-- the allocator after one operation -/
def allocStep (fn : List Addr × Addr) : Op K D → List Addr × Addr
  | .insert _ t => (claimEntries t.children.news fn.1 fn.2).2
  | _ => fn

/-- one operation on its own, STRICT: the operations that `inOrderOp` turns into no-ops at
    commit time (DereferenceTree on an append-only column or of a missing root, ReferenceTree on
    a plain column) are no-ops, but a failing dereference walk is an error -/
def opE (v : Variant) (fn : List Addr × Addr) (h : Heap K D) : Op K D → Except Err (Heap K D)
  | .insert k t => .ok (insertTreeA v h (claimEntries t.children.news fn.1 fn.2).1 k t)
  | .reference k => .ok (okOr h (referenceTree v h k))
  | .dereference k =>
    if v = .appendOnly then .ok h
    else
      match h.roots.get k with
      | none => .ok h
      | some (r, _) => derefProcess v h k r.children

/-- the operations one after the other; the first failing walk fails the run -/
def inOrderE (v : Variant) : List Addr × Addr → Heap K D → List (Op K D) → Except Err (Heap K D)
  | _, h, [] => .ok h
  | fn, h, op :: ops => opE v fn h op >>= fun h2 => inOrderE v (allocStep fn op) h2 ops

theorem opE_ok (v : Variant) (fn : List Addr × Addr) (h h2 : Heap K D) (op : Op K D)
    (he : opE v fn h op = .ok h2) :
    inOrderOp v (h, fn.1, fn.2) op = (h2, (allocStep fn op).1, (allocStep fn op).2) := by
  cases op with
  | insert k t =>
    simp only [opE, Except.ok.injEq] at he
    subst he
    rcases hC : claimEntries t.children.news fn.1 fn.2 with ⟨claimed, f, n⟩
    simp only [inOrderOp, allocStep, hC]
  | reference k =>
    simp only [opE, Except.ok.injEq] at he
    subst he
    rfl
  | dereference k =>
    simp only [opE] at he
    simp only [inOrderOp, allocStep, dereferenceTree]
    split at he
    · simp only [Except.ok.injEq] at he
      subst he
      rename_i hv
      simp only [hv, if_true, okOr]
    · rename_i hv
      simp only [hv, if_false]
      split at he
      · rename_i hg
        simp only [Except.ok.injEq] at he
        subst he
        simp only [hg, okOr]
      · rename_i r c hg
        simp only [hg, he, okOr]

/-- a strict run that succeeds is the run of `inOrderTx` -/
theorem inOrderE_ok (v : Variant) : ∀ (ops : List (Op K D)) (fn : List Addr × Addr)
    (h h' : Heap K D), inOrderE v fn h ops = .ok h' →
    ops.foldl (inOrderOp v) (h, fn.1, fn.2) =
      (h', (ops.foldl allocStep fn).1, (ops.foldl allocStep fn).2) := by
  intro ops
  induction ops with
  | nil =>
    intro fn h h' he
    simp only [inOrderE, Except.ok.injEq] at he
    subst he
    rfl
  | cons op ops ih =>
    intro fn h h' he
    simp only [inOrderE] at he
    cases ho : opE v fn h op with
    | error e => rw [ho] at he; cases he
    | ok h2 =>
      rw [ho] at he
      simp only [List.foldl_cons, opE_ok v fn h h2 op ho]
      exact ih _ h2 h' he

theorem inOrderE_tx (v : Variant) (H h' : Heap K D) (free : List Addr) (next : Addr)
    (ops : List (Op K D)) (he : inOrderE v (free, next) H ops = .ok h') :
    inOrderTx v H free next ops = h' := by
  simp only [inOrderTx]
  rw [inOrderE_ok v ops (free, next) H h' he]

/-- the root entries after one operation: the inserted key, or the node the key had before -/
theorem opE_get_some (v : Variant) (fn : List Addr × Addr) (h h2 : Heap K D) (op : Op K D)
    (he : opE v fn h op = .ok h2) (x : K) (e2 : Node D × Nat) (hx : h2.roots.get x = some e2) :
    (op.isInsert = true ∧ x = op.key) ∨ ∃ e, h.roots.get x = some e ∧ e2.1 = e.1 := by
  cases op with
  | insert k t =>
    simp only [opE, Except.ok.injEq] at he
    subst he
    by_cases hxk : x = k
    · exact Or.inl ⟨rfl, hxk⟩
    · right
      have hr := (insRefsA_roots (K := K) (decide (v = .appendOnly)) t.children h
        (claimEntries t.children.news fn.1 fn.2).1 h.roots).1
      simp only [insertTreeA] at hx
      rcases hR : insRefsA (decide (v = .appendOnly)) h
        (claimEntries t.children.news fn.1 fn.2).1 t.children with ⟨h1, f1, as⟩
      simp only [hR] at hx hr
      simp only [FMap.get_set, hxk, if_false, hr] at hx
      exact ⟨e2, hx, rfl⟩
  | reference k =>
    simp only [opE, Except.ok.injEq] at he
    subst he
    right
    rw [referenceTree_get] at hx
    by_cases hxk : x = k
    · simp only [hxk, if_true] at hx
      rw [hxk]
      cases hg : h.roots.get k with
      | none => simp [hg, refUpd] at hx
      | some e =>
        obtain ⟨r, c⟩ := e
        simp only [hg, refUpd] at hx
        refine ⟨(r, c), rfl, ?_⟩
        split at hx <;> simp only [Option.some.injEq] at hx <;> rw [← hx]
    · simp only [hxk, if_false] at hx
      exact ⟨e2, hx, rfl⟩
  | dereference k =>
    simp only [opE] at he
    right
    split at he
    · simp only [Except.ok.injEq] at he
      subst he
      exact ⟨e2, hx, rfl⟩
    · split at he
      · simp only [Except.ok.injEq] at he
        subst he
        exact ⟨e2, hx, rfl⟩
      · exact derefProcess_get_some v h h2 k _ he x e2 hx

/-- every DereferenceTree of `ops` finds under its key, if anything, the node the view showed -/
def DerefView (view : K → Option (Node D)) (h : Heap K D) (ops : List (Op K D)) : Prop :=
  ∀ op ∈ ops, op.isDeref = true → ∀ e, h.roots.get op.key = some e → view op.key = some e.1

/-- the planned changes of ONE operation, applied in planning order, are the operation -/
theorem planOp_apply (v : Variant) (view : K → Option (Node D)) (fn : List Addr × Addr)
    (h : Heap K D) (op : Op K D) (hok : op.okFor v view)
    (hJ : op.isDeref = true → ∀ e, h.roots.get op.key = some e → view op.key = some e.1) :
    (planOp v view fn.1 fn.2 op).2.1.foldlM (applyNodeH v)
        ((planOp v view fn.1 fn.2 op).1.foldl (applyRootChange v) h) = opE v fn h op ∧
    ((planOp v view fn.1 fn.2 op).2.2.1, (planOp v view fn.1 fn.2 op).2.2.2) = allocStep fn op := by
  cases op with
  | insert k t =>
    refine ⟨?_, rfl⟩
    simp only [planOp, List.foldl_cons, List.foldl_nil, opE, applyRootChange]
    have hp := eqv_planRefs (K := K) v (decide (v = .appendOnly)) t.children
      (setRoots (h.roots.set k (some (rootEntry v (h.roots.get k)
        ⟨t.data, (planRefs (K := K) (decide (v = .appendOnly))
          (claimEntries t.children.news fn.1 fn.2).1 t.children).2.2⟩))) h)
      (claimEntries t.children.news fn.1 fn.2).1
    have hq := (eqv_planRefs (K := K) v (decide (v = .appendOnly)) t.children h
      (claimEntries t.children.news fn.1 fn.2).1).2
    have hr := insRefsA_roots (K := K) (decide (v = .appendOnly)) t.children h
      (claimEntries t.children.news fn.1 fn.2).1
      (h.roots.set k (some (rootEntry v (h.roots.get k)
        ⟨t.data, (planRefs (K := K) (decide (v = .appendOnly))
          (claimEntries t.children.news fn.1 fn.2).1 t.children).2.2⟩)))
    refine hp.1.trans ?_
    rw [hr.2.2]
    simp only [insertTreeA]
    rcases hR : insRefsA (decide (v = .appendOnly)) h
      (claimEntries t.children.news fn.1 fn.2).1 t.children with ⟨h1, f1, as⟩
    simp only [hR] at hq hr
    rw [hq]
    simp only [hr.1, setRoots]
  | reference k =>
    refine ⟨?_, rfl⟩
    simp only [planOp, opE, List.foldlM_nil]
    by_cases hv : v = .appendOnly
    · subst hv; rfl
    · simp only [hv, if_false, List.foldl_cons, List.foldl_nil, applyRootChange]; rfl
  | dereference k =>
    refine ⟨?_, rfl⟩
    obtain ⟨hv, hs⟩ := hok
    obtain ⟨r, hr⟩ := Option.isSome_iff_exists.mp hs
    simp only [planOp, hr, Option.map_some, Option.toList_some, List.foldl_nil, List.foldlM_cons,
      List.foldlM_nil, opE, hv, if_false, applyNodeH]
    cases hg : h.roots.get k with
    | none => simp only [derefProcess, hg]; rfl
    | some e =>
      obtain ⟨r', c⟩ := e
      have := hJ rfl (r', c) hg
      simp only [Op.key] at this
      rw [hr] at this
      simp only [Option.some.injEq] at this
      subst this
      simp only [bind_pure]

/-! ## E5: planning order against the order given -/

/-- the postponed root changes for a set `P` of dereferenced keys -/
def postP (P : K → Bool) : RootChange K D → Bool
  | .set k _ => P k
  | .reference _ => false

theorem postponed_eq (cs : ChangeSet K D) : cs.postponed = postP cs.dereferenced := by
  funext c
  cases c <;> rfl

/-- the fixed planning order on the heap alone, for an arbitrary set `P` of postponed keys: early
    root changes, node changes, postponed `Set`s -/
def planApply (v : Variant) (P : K → Bool) (R : List (RootChange K D)) (N : List (NodeChange K D))
    (h : Heap K D) : Except Err (Heap K D) :=
  (N.foldlM (applyNodeH v) ((R.filter (fun c => !postP P c)).foldl (applyRootChange v) h)).map
    (fun h' => (R.filter (postP P)).foldl (applyRootChange v) h')

theorem planApply_append (v : Variant) (P : K → Bool) (r R' : List (RootChange K D))
    (n N' : List (NodeChange K D)) (h : Heap K D) :
    planApply v P (r ++ R') (n ++ N') h =
      ((n.foldlM (applyNodeH v) ((R'.filter (fun c => !postP P c)).foldl (applyRootChange v)
          ((r.filter (fun c => !postP P c)).foldl (applyRootChange v) h))) >>=
        fun g => N'.foldlM (applyNodeH v) g).map
        (fun h' => (R'.filter (postP P)).foldl (applyRootChange v)
          ((r.filter (postP P)).foldl (applyRootChange v) h')) := by
  simp only [planApply, List.filter_append, List.foldl_append, List.foldlM_append]

/-- `DerefApart` relative to a set `P` of postponed keys (the dereferenced keys of the WHOLE
    transaction), in the form the induction over a suffix of the transaction needs -/
def ApartP (P : K → Bool) : List (Op K D) → Prop
  | [] => True
  | op :: ops =>
    (op.isDeref = true → P op.key = true ∧ ∀ op' ∈ ops, op'.isRef = true → op'.key ≠ op.key) ∧
    (op.isInsert = true → (∀ op' ∈ ops, op'.isDeref = true → op'.key ≠ op.key) ∧
      (P op.key = true → ∀ op' ∈ ops, op'.isRef = true → op'.key ≠ op.key)) ∧ ApartP P ops

/-- the early / postponed root changes of one operation -/
theorem planOp_filter_early (v : Variant) (view : K → Option (Node D)) (free : List Addr) (next : Addr)
    (op : Op K D) (P : K → Bool) (hn : ¬ (op.isInsert = true ∧ P op.key = true)) :
    (planOp v view free next op).1.filter (postP P) = [] ∧
    (planOp v view free next op).1.filter (fun c => !postP P c) = (planOp v view free next op).1 := by
  cases op with
  | insert k t =>
    have hP : P k = false := by
      cases hp : P k with
      | false => rfl
      | true => exact absurd ⟨rfl, hp⟩ hn
    simp [planOp, postP, hP]
  | reference k =>
    simp only [planOp]
    split <;> simp [postP]
  | dereference k => simp [planOp]

theorem planOp_filter_late (v : Variant) (view : K → Option (Node D)) (free : List Addr) (next : Addr)
    (op : Op K D) (P : K → Bool) (hp : op.isInsert = true ∧ P op.key = true) :
    (planOp v view free next op).1.filter (postP P) = (planOp v view free next op).1 ∧
    (planOp v view free next op).1.filter (fun c => !postP P c) = [] := by
  cases op with
  | insert k t =>
    have hP : P k = true := hp.2
    simp [planOp, postP, hP]
  | reference k => exact absurd hp.1 (by simp [Op.isInsert])
  | dereference k => exact absurd hp.1 (by simp [Op.isInsert])

/-- an early root change of a plan comes from a ReferenceTree, or from an InsertTree of a key that
    is not postponed -/
theorem planTx_early_key (v : Variant) (view : K → Option (Node D)) (P : K → Bool) :
    ∀ (ops : List (Op K D)) (free : List Addr) (next : Addr) (x : K),
      x ∈ ((planTx v view free next ops).1.filter (fun c => !postP P c)).map RootChange.key →
      ∃ op ∈ ops, (op.isRef = true ∧ op.key = x) ∨ (op.isInsert = true ∧ op.key = x ∧ P x = false) := by
  intro ops
  induction ops with
  | nil => intro free next x hx; simp [planTx] at hx
  | cons op ops ih =>
    intro free next x hx
    simp only [planTx, List.filter_append, List.map_append, List.mem_append] at hx
    rcases hx with hx | hx
    · refine ⟨op, by simp, ?_⟩
      cases op with
      | insert k t =>
        simp only [planOp, List.filter_cons, List.filter_nil, postP] at hx
        cases hP : P k with
        | true => simp [hP] at hx
        | false =>
          simp only [hP, Bool.not_false, if_true, List.map_cons, List.map_nil, List.mem_singleton,
            RootChange.key] at hx
          subst hx
          exact Or.inr ⟨rfl, rfl, hP⟩
      | reference k =>
        simp only [planOp] at hx
        split at hx
        · simp at hx
        · simp only [List.filter_cons, List.filter_nil, postP, Bool.not_false, if_true,
            List.map_cons, List.map_nil, List.mem_singleton, RootChange.key] at hx
          exact Or.inl ⟨rfl, hx.symm⟩
      | dereference k => simp [planOp] at hx
    · obtain ⟨op', hm, h'⟩ := ih _ _ x hx
      exact ⟨op', List.mem_cons_of_mem _ hm, h'⟩

/-- a planned `DereferenceChildren` comes from a DereferenceTree of its key -/
theorem planTx_derefOp (v : Variant) (view : K → Option (Node D)) :
    ∀ (ops : List (Op K D)) (free : List Addr) (next : Addr) (c : NodeChange K D),
      c ∈ (planTx v view free next ops).2 → ∀ k, derefKey c = some k →
      ∃ op ∈ ops, op.isDeref = true ∧ op.key = k := by
  intro ops
  induction ops with
  | nil => intro free next c hc; simp [planTx] at hc
  | cons op ops ih =>
    intro free next c hc k hk
    simp only [planTx, List.mem_append] at hc
    rcases hc with hc | hc
    · exact ⟨op, by simp, planOp_derefKey v view free next op c hc k hk⟩
    · obtain ⟨op', hm, h'⟩ := ih _ _ c hc k hk
      exact ⟨op', List.mem_cons_of_mem _ hm, h'⟩

/-- two pointwise root updates commute when no key is changed by both -/
theorem rootOnly_comm {F G : Heap K D → Heap K D}
    {φ ψ : K → Option (Node D × Nat) → Option (Node D × Nat)} (hF : RootOnly F φ) (hG : RootOnly G ψ)
    (hd : ∀ x, (∀ o, φ x o = o) ∨ (∀ o, ψ x o = o)) (h : Heap K D) : HeapExt (F (G h)) (G (F h)) := by
  refine ⟨by rw [hF.nodes, hG.nodes, hG.nodes, hF.nodes], by rw [hF.rc, hG.rc, hG.rc, hF.rc],
    by rw [hF.next, hG.next, hG.next, hF.next], ?_⟩
  intro x
  rw [hF.get, hG.get, hG.get, hF.get]
  rcases hd x with h1 | h1
  · rw [h1, h1]
  · rw [h1, h1]

theorem except_map_map {α β γ : Type} (f : α → β) (g : β → γ) (r : Except Err α) :
    (r.map f).map g = r.map (fun a => g (f a)) := by
  cases r <;> rfl

/-- MAIN LEMMA.  Applying the planned changes of `ops` in the (fixed) planning order - root changes
    that are not postponed, node changes, postponed `Set`s - to ANY heap `h` on which the captured
    views are still right is, up to the order of the root list and errors included, the strict
    in-order run. -/
theorem planTx_eqv_inOrderE (v : Variant) (view : K → Option (Node D)) (P : K → Bool) :
    ∀ (ops : List (Op K D)) (fn : List Addr × Addr) (h : Heap K D), ApartP P ops →
      (∀ op ∈ ops, op.okFor v view) → DerefView view h ops →
      ExcExt
        (planApply v P (planTx v view fn.1 fn.2 ops).1 (planTx v view fn.1 fn.2 ops).2 h)
        (inOrderE v fn h ops) := by
  intro ops
  induction ops with
  | nil => intro fn h _ _ _; exact HeapExt.refl h
  | cons op ops ih =>
    intro fn h hda hok hJ
    obtain ⟨hS, hA⟩ := planOp_apply v view fn h op (hok op (by simp))
      (fun hd e he => hJ op (by simp) hd e he)
    have hfn : planTx v view (planOp v view fn.1 fn.2 op).2.2.1 (planOp v view fn.1 fn.2 op).2.2.2 ops =
        planTx v view (allocStep fn op).1 (allocStep fn op).2 ops := by rw [← hA]
    simp only [planTx, inOrderE]
    rw [hfn, planApply_append]
    -- the early root changes of the later operations
    obtain ⟨φ, hφ, hid⟩ := foldl_rootOnly v
      ((planTx v view (allocStep fn op).1 (allocStep fn op).2 ops).1.filter (fun c => !postP P c))
    -- the views captured for the later dereferences are still right after `op`
    have hJ' : ∀ h2, opE v fn h op = .ok h2 → DerefView view h2 ops := by
      intro h2 hop op' hm' hd' e2' hg'
      rcases opE_get_some v fn h h2 op hop op'.key e2' hg' with ⟨hins, hkey⟩ | ⟨e, hg, he1⟩
      · exact absurd hkey ((hda.2.1 hins).1 op' hm' hd')
      · rw [he1]
        exact hJ op' (List.mem_cons_of_mem _ hm') hd' e hg
    have hokR : ∀ o ∈ ops, o.okFor v view := fun o ho => hok o (List.mem_cons_of_mem _ ho)
    by_cases hpi : op.isInsert = true ∧ P op.key = true
    · -- a postponed InsertTree: its node changes now, its root `Set` after everything
      obtain ⟨hf1, hf2⟩ := planOp_filter_late v view fn.1 fn.2 op P hpi
      rw [hf1, hf2]
      simp only [List.foldl_nil]
      obtain ⟨ψ, hψ, hidψ⟩ := foldl_rootOnly v (planOp v view fn.1 fn.2 op).1
      have hψk : ∀ x, x ≠ op.key → ∀ o, ψ x o = o := by
        intro x hx o
        apply hidψ
        intro hm
        exact hx (planOp_rootKey v view fn.1 fn.2 op x hm).2.symm
      have hnod : ∀ c ∈ (planOp v view fn.1 fn.2 op).2.1, ∀ k, derefKey c = some k → False := by
        intro c hc k hck
        have := (planOp_derefKey v view fn.1 fn.2 op c hc k hck).1
        cases op with
        | insert k' t => cases this
        | reference k' => cases hpi.1
        | dereference k' => cases hpi.1
      have hC1 := foldlM_applyNodeH_comm v hψ (planOp v view fn.1 fn.2 op).2.1
        (fun c hc k hck => (hnod c hc k hck).elim) h
      rw [hS] at hC1
      have hC2 := foldlM_applyNodeH_comm v hφ (planOp v view fn.1 fn.2 op).2.1
        (fun c hc k hck => (hnod c hc k hck).elim) h
      cases hA1 : (planOp v view fn.1 fn.2 op).2.1.foldlM (applyNodeH v) h with
      | error x =>
        rw [hA1] at hC1 hC2
        have e1 : opE v fn h op = .error x := ExcExt.error_left hC1.symm
        have e2 := ExcExt.error_left hC2.symm
        rw [e1, e2]
        exact rfl
      | ok h1 =>
        rw [hA1] at hC1 hC2
        obtain ⟨h2, eh2, ex2⟩ := (ExcExt.ok_left hC1.symm)
        obtain ⟨g1, eg1, ex1⟩ := (ExcExt.ok_left hC2.symm)
        rw [eh2, eg1]
        show ExcExt (((planTx v view (allocStep fn op).1 (allocStep fn op).2 ops).2.foldlM
            (applyNodeH v) g1).map _) (inOrderE v (allocStep fn op) h2 ops)
        have IH := ih (allocStep fn op) h2 hda.2.2 hokR (hJ' h2 eh2)
        refine ExcExt.trans ?_ IH
        -- the later early root changes do not touch the key of `op`, nor do the later dereferences
        have hcomm := rootOnly_comm hφ hψ (fun x => by
          by_cases hx : x = op.key
          · left
            intro o
            apply hid
            intro hm
            obtain ⟨op', hm', hc⟩ := planTx_early_key v view P ops _ _ x hm
            rcases hc with ⟨hr, hk⟩ | ⟨_, _, hPx⟩
            · exact (hda.2.1 hpi.1).2 hpi.2 op' hm' hr (hk.trans hx)
            · rw [hx, hpi.2] at hPx; cases hPx
          · exact Or.inr (hψk x hx)) h1
        have hk2 : ∀ c ∈ (planTx v view (allocStep fn op).1 (allocStep fn op).2 ops).2,
            ∀ k, derefKey c = some k → ∀ o, ψ k o = o := by
          intro c hc k hck
          obtain ⟨op', hm', hd', hk'⟩ := planTx_derefOp v view ops _ _ c hc k hck
          exact hψk k (fun e => (hda.2.1 hpi.1).1 op' hm' hd' (hk'.trans e))
        have hC3 := foldlM_applyNodeH_comm v hψ
          (planTx v view (allocStep fn op).1 (allocStep fn op).2 ops).2 hk2
          (((planTx v view (allocStep fn op).1 (allocStep fn op).2 ops).1.filter
            (fun c => !postP P c)).foldl (applyRootChange v) h1)
        -- right-hand side: E' h2 ~ E' (G h1) ~ G (E' h1)
        have hE : HeapExt
            (((planTx v view (allocStep fn op).1 (allocStep fn op).2 ops).1.filter
              (fun c => !postP P c)).foldl (applyRootChange v) h2)
            ((planOp v view fn.1 fn.2 op).1.foldl (applyRootChange v)
              (((planTx v view (allocStep fn op).1 (allocStep fn op).2 ops).1.filter
                (fun c => !postP P c)).foldl (applyRootChange v) h1)) :=
          (foldl_applyRootChange_ext v _ ex2.symm).trans hcomm
        have hR : ExcExt
            (planApply v P (planTx v view (allocStep fn op).1 (allocStep fn op).2 ops).1
              (planTx v view (allocStep fn op).1 (allocStep fn op).2 ops).2 h2)
            ((((planTx v view (allocStep fn op).1 (allocStep fn op).2 ops).2.foldlM (applyNodeH v)
              (((planTx v view (allocStep fn op).1 (allocStep fn op).2 ops).1.filter
                (fun c => !postP P c)).foldl (applyRootChange v) h1)).map
              (fun h' => (planOp v view fn.1 fn.2 op).1.foldl (applyRootChange v) h')).map
              (fun h' => ((planTx v view (allocStep fn op).1 (allocStep fn op).2 ops).1.filter
                (postP P)).foldl (applyRootChange v) h')) := by
          simp only [planApply]
          exact ExcExt.map ((foldlM_applyNodeH_ext v _ hE).trans hC3)
            (fun a b e => foldl_applyRootChange_ext v _ e)
        rw [except_map_map] at hR
        refine ExcExt.trans ?_ hR.symm
        exact ExcExt.map (foldlM_applyNodeH_ext v _ ex1.symm)
          (fun a b e => foldl_applyRootChange_ext v _ (foldl_applyRootChange_ext v _ e))
    · -- every other operation: its root changes are early
      obtain ⟨hf1, hf2⟩ := planOp_filter_early v view fn.1 fn.2 op P hpi
      rw [hf1, hf2]
      simp only [List.foldl_nil]
      -- the dereference of `op` (if it is one) is not touched by the later early root changes
      have hk : ∀ c ∈ (planOp v view fn.1 fn.2 op).2.1, ∀ k, derefKey c = some k → ∀ o, φ k o = o := by
        intro c hc k hck
        obtain ⟨hd, hkey⟩ := planOp_derefKey v view fn.1 fn.2 op c hc k hck
        apply hid
        intro hm
        obtain ⟨op', hm', hc'⟩ := planTx_early_key v view P ops _ _ k hm
        rcases hc' with ⟨hr, hk'⟩ | ⟨_, _, hPk⟩
        · exact (hda.1 hd).2 op' hm' hr (by rw [hk', hkey])
        · rw [← hkey, (hda.1 hd).1] at hPk; cases hPk
      have hC := foldlM_applyNodeH_comm v hφ (planOp v view fn.1 fn.2 op).2.1 hk
        ((planOp v view fn.1 fn.2 op).1.foldl (applyRootChange v) h)
      rw [hS] at hC
      cases hop : opE v fn h op with
      | error x =>
        rw [hop] at hC
        have hC' : ExcExt (.error x : Except Err (Heap K D)) _ := hC.symm
        rw [ExcExt.error_left hC']
        exact rfl
      | ok h2 =>
        rw [hop] at hC
        have hC' : ExcExt (.ok (((planTx v view (allocStep fn op).1 (allocStep fn op).2 ops).1.filter
            (fun c => !postP P c)).foldl (applyRootChange v) h2)) _ := hC.symm
        obtain ⟨g2, eg, e2⟩ := hC'.ok_left
        rw [eg]
        show ExcExt (((planTx v view (allocStep fn op).1 (allocStep fn op).2 ops).2.foldlM
          (applyNodeH v) g2).map _) (inOrderE v (allocStep fn op) h2 ops)
        refine ExcExt.trans ?_ (ih (allocStep fn op) h2 hda.2.2 hokR (hJ' h2 hop))
        simp only [planApply]
        exact ExcExt.map (foldlM_applyNodeH_ext v _ e2.symm)
          (fun a b e => foldl_applyRootChange_ext v _ e)

/-- the change set a validated transaction assembles is the plan -/
theorem specCs_plan (v : Variant) (H : Heap K D) (free : List Addr) (next : Addr)
    (ops : List (Op K D)) (hval : validateOps v (viewOf H) ops = .ok) :
    specCs v H free next ops =
      ⟨(planTx v (viewOf H) free next ops).1, (planTx v (viewOf H) free next ops).2⟩ := by
  have := asmOps_plan v (viewOf H) ops ⟨free, next, .empty, .empty⟩
    (validateOps_okFor v (viewOf H) ops hval)
  simp only [specCs]
  rcases hcs : (asmOps v (viewOf H) ⟨free, next, .empty, .empty⟩ ops).1.cs with ⟨a, b⟩
  rw [hcs] at this
  simp only [ChangeSet.empty, List.nil_append] at this
  rw [this.2.1, this.2.2]

theorem derefView_viewOf (H : Heap K D) (ops : List (Op K D)) : DerefView (viewOf H) H ops := by
  intro op _ _ e he
  simp only [viewOf, he, Option.map_some]

/-! ### from `DerefApart` of the transaction to `ApartP` of its suffixes -/

theorem derefApart_suffix : ∀ (pre ops : List (Op K D)), DerefApart (pre ++ ops) → DerefApart ops
  | [], _, h => h
  | _ :: pre, ops, h => derefApart_suffix pre ops h.2.2

/-- no ReferenceTree k in the rest after a DereferenceTree k in the front part -/
theorem derefApart_cross : ∀ (pre ops : List (Op K D)), DerefApart (pre ++ ops) →
    ∀ o ∈ pre, o.isDeref = true → ∀ o' ∈ ops, o'.isRef = true → o'.key ≠ o.key
  | [], _, _, o, ho, _, _, _, _ => by cases ho
  | p :: pre, ops, h, o, ho, hd, o', ho', hr => by
    rcases List.mem_cons.mp ho with e | hm
    · subst e
      exact h.1 hd o' (List.mem_append.mpr (Or.inr ho')) hr
    · exact derefApart_cross pre ops h.2.2 o hm hd o' ho' hr

theorem apartP_of_derefApart (P : K → Bool) : ∀ (ops pre : List (Op K D)),
    DerefApart (pre ++ ops) → (∀ op ∈ pre ++ ops, op.isDeref = true → P op.key = true) →
    (∀ k, P k = true → ∃ op ∈ pre ++ ops, op.isDeref = true ∧ op.key = k) → ApartP P ops := by
  intro ops
  induction ops with
  | nil => intro _ _ _ _; trivial
  | cons op ops ih =>
    intro pre hda hP hPc
    have hs := derefApart_suffix pre (op :: ops) hda
    have hassoc : (pre ++ [op]) ++ ops = pre ++ op :: ops := by simp
    refine ⟨?_, ?_, ?_⟩
    · intro hd
      exact ⟨hP op (by simp) hd, hs.1 hd⟩
    · intro hi
      refine ⟨hs.2.1 hi, ?_⟩
      intro hPk op' hm' hr
      obtain ⟨o, hmo, hdo, hko⟩ := hPc op.key hPk
      rcases List.mem_append.mp hmo with h1 | h1
      · rw [← hko]
        exact derefApart_cross pre (op :: ops) hda o h1 hdo op' (List.mem_cons_of_mem _ hm') hr
      · rcases List.mem_cons.mp h1 with e | h2
        · subst e
          cases o <;> simp [Op.isInsert, Op.isDeref] at hi hdo
        · exact absurd hko (hs.2.1 hi o h2 hdo)
    · exact ih (pre ++ [op]) (by rw [hassoc]; exact hda) (by rw [hassoc]; exact hP)
        (by rw [hassoc]; exact hPc)

/-- a DereferenceTree of a visible root plans its `DereferenceChildren` -/
theorem planTx_deref_mem (v : Variant) (view : K → Option (Node D)) :
    ∀ (ops : List (Op K D)) (free : List Addr) (next : Addr) (k : K) (r : Node D),
      Op.dereference k ∈ ops → view k = some r →
      NodeChange.derefChildren k r.children ∈ (planTx v view free next ops).2 := by
  intro ops
  induction ops with
  | nil => intro _ _ _ _ hm; cases hm
  | cons op ops ih =>
    intro free next k r hm hv
    simp only [planTx, List.mem_append]
    rcases List.mem_cons.mp hm with e | hm'
    · left
      subst e
      simp [planOp, hv]
    · exact Or.inr (ih _ _ k r hm' hv)

/-- the keys `write_plan` postpones are the dereferenced keys of the transaction -/
theorem plan_dereferenced (v : Variant) (view : K → Option (Node D)) (ops : List (Op K D))
    (free : List Addr) (next : Addr) (hok : ∀ op ∈ ops, op.okFor v view) :
    (∀ op ∈ ops, op.isDeref = true →
      (⟨(planTx v view free next ops).1, (planTx v view free next ops).2⟩ : ChangeSet K D).dereferenced
        op.key = true) ∧
    (∀ k, (⟨(planTx v view free next ops).1, (planTx v view free next ops).2⟩ : ChangeSet K D).dereferenced
        k = true → ∃ op ∈ ops, op.isDeref = true ∧ op.key = k) := by
  constructor
  · intro op hm hd
    cases op with
    | insert k t => cases hd
    | reference k => cases hd
    | dereference k =>
      obtain ⟨_, hs⟩ := hok _ hm
      obtain ⟨r, hr⟩ := Option.isSome_iff_exists.mp hs
      simp only [ChangeSet.dereferenced, List.any_eq_true, decide_eq_true_eq]
      exact ⟨_, planTx_deref_mem v view ops free next k r hm hr, rfl⟩
  · intro k hk
    simp only [ChangeSet.dereferenced, List.any_eq_true, decide_eq_true_eq] at hk
    obtain ⟨c, hc, hck⟩ := hk
    exact planTx_derefOp v view ops free next c hc k hck

/-- E5, unconditional form: what `write_plan` makes of the assembled change set and the strict
    in-order run agree up to the order of the root list - both fail with the same error, or both
    succeed with heaps that have the same nodes, counts, fill mark and the same root under every
    key. -/
theorem applyTx_eqv_inOrderE (v : Variant) (H : Heap K D) (free : List Addr) (next : Addr)
    (ops : List (Op K D)) (hval : validateOps v (viewOf H) ops = .ok) (hda : DerefApart ops) :
    ExcExt ((applyChangeSet v (H, []) (specCs v H free next ops)).map Prod.fst)
      (inOrderE v (free, next) H ops) := by
  have hok := validateOps_okFor v (viewOf H) ops hval
  rw [eqv_applyChangeSet_fst, specCs_plan v H free next ops hval]
  obtain ⟨hP1, hP2⟩ := plan_dereferenced v (viewOf H) ops free next hok
  have hA := apartP_of_derefApart _ ops [] hda (fun op hm => hP1 op hm) (fun k hk => hP2 k hk)
  have := planTx_eqv_inOrderE v (viewOf H) _ ops (free, next) H hA hok (derefView_viewOf H ops)
  simp only [planApply] at this
  simp only [ChangeSet.early, ChangeSet.late, postponed_eq]
  exact this

/-! ## `roots.WF` is preserved by everything -/

theorem applyNodeH_wf (v : Variant) (h h2 : Heap K D) (c : NodeChange K D)
    (he : applyNodeH v h c = .ok h2) (hwf : h.roots.WF) : h2.roots.WF := by
  cases c with
  | newValue a n => simp only [applyNodeH, Except.ok.injEq] at he; subst he; exact hwf
  | incRef a => simp only [applyNodeH, Except.ok.injEq] at he; subst he; exact hwf
  | derefChildren k cs => exact derefProcess_wf v h h2 k cs he hwf

theorem foldlM_applyNodeH_wf (v : Variant) (N : List (NodeChange K D)) :
    ∀ (h h2 : Heap K D), N.foldlM (applyNodeH v) h = .ok h2 → h.roots.WF → h2.roots.WF := by
  induction N with
  | nil =>
    intro h h2 he hwf
    simp only [List.foldlM_nil, pure, Except.pure, Except.ok.injEq] at he
    subst he; exact hwf
  | cons c N ih =>
    intro h h2 he hwf
    simp only [List.foldlM_cons] at he
    cases hc : applyNodeH v h c with
    | error x => rw [hc] at he; cases he
    | ok h1 =>
      rw [hc] at he
      exact ih h1 h2 he (applyNodeH_wf v h h1 c hc hwf)

theorem insertTreeA_roots (v : Variant) (h : Heap K D) (fresh : List Addr) (k : K)
    (t : NewNode D) :
    (insertTreeA v h fresh k t).roots =
      h.roots.set k (some (rootEntry v (h.roots.get k)
        ⟨t.data, (insRefsA (decide (v = .appendOnly)) h fresh t.children).2.2⟩)) ∧
    (insertTreeA v h fresh k t).next = h.next := by
  have hr := insRefsA_roots (K := K) (decide (v = .appendOnly)) t.children h fresh h.roots
  simp only [insertTreeA]
  rcases hR : insRefsA (decide (v = .appendOnly)) h fresh t.children with ⟨h1, f1, as⟩
  simp only [hR] at hr
  simp only [hr.1, hr.2.1, and_self]

theorem insertTreeA_wf (v : Variant) (h : Heap K D) (fresh : List Addr) (k : K) (t : NewNode D)
    (hwf : h.roots.WF) : (insertTreeA v h fresh k t).roots.WF := by
  rw [(insertTreeA_roots v h fresh k t).1]
  exact FMap.WF_set _ hwf _ _

theorem referenceTree_wf (v : Variant) (h h2 : Heap K D) (k : K)
    (he : referenceTree v h k = .ok h2) (hwf : h.roots.WF) : h2.roots.WF := by
  have := (referenceTree_core v h k).2.2.2 hwf
  rw [he] at this
  exact this

theorem dereferenceTree_wf (v : Variant) (h h2 : Heap K D) (k : K)
    (he : dereferenceTree v h k = .ok h2) (hwf : h.roots.WF) : h2.roots.WF := by
  simp only [dereferenceTree] at he
  split at he
  · cases he
  · split at he
    · cases he
    · exact derefProcess_wf v h h2 k _ he hwf

theorem inOrderOp_wf (v : Variant) (x : Heap K D × List Addr × Addr) (op : Op K D)
    (hwf : x.1.roots.WF) : (inOrderOp v x op).1.roots.WF := by
  cases op with
  | insert k t =>
    rcases hC : claimEntries t.children.news x.2.1 x.2.2 with ⟨claimed, f, n⟩
    simp only [inOrderOp, hC]
    exact insertTreeA_wf v x.1 claimed k t hwf
  | reference k => exact (referenceTree_core v x.1 k).2.2.2 hwf
  | dereference k =>
    simp only [inOrderOp]
    cases hd : dereferenceTree v x.1 k with
    | error e => exact hwf
    | ok h2 => exact dereferenceTree_wf v x.1 h2 k hd hwf

theorem inOrderTx_wf (v : Variant) (H : Heap K D) (free : List Addr) (next : Addr)
    (ops : List (Op K D)) (hwf : H.roots.WF) : (inOrderTx v H free next ops).roots.WF := by
  have key : ∀ (ops : List (Op K D)) (x : Heap K D × List Addr × Addr), x.1.roots.WF →
      (ops.foldl (inOrderOp v) x).1.roots.WF := by
    intro ops
    induction ops with
    | nil => intro x hx; exact hx
    | cons op ops ih => intro x hx; exact ih _ (inOrderOp_wf v x op hx)
  exact key ops (H, free, next) hwf

theorem specTx_wf (v : Variant) (H : Heap K D) (free : List Addr) (next : Addr)
    (ops : List (Op K D)) (hwf : H.roots.WF) : (specTx v H free next ops).roots.WF := by
  simp only [specTx]
  split
  · cases ha : applyChangeSet v (H, []) (specCs v H free next ops) with
    | error e => exact hwf
    | ok r =>
      have h1 := eqv_applyChangeSet_fst v (H, []) (specCs v H free next ops)
      rw [ha] at h1
      cases hn : (specCs v H free next ops).nodeChanges.foldlM (applyNodeH v)
          ((specCs v H free next ops).early.changes.foldl (applyRootChange v) H) with
      | error x => rw [hn] at h1; cases h1
      | ok g =>
        rw [hn] at h1
        simp only [Except.map, Except.ok.injEq] at h1
        show r.1.roots.WF
        rw [h1]
        exact foldl_applyRootChange_wf v _ _
          (foldlM_applyNodeH_wf v _ _ g hn (foldl_applyRootChange_wf v _ H hwf))
  · exact hwf

/-- a transaction that is rejected, or whose processing fails, leaves the heap as it was -/
theorem specTx_rejected (v : Variant) (H : Heap K D) (free : List Addr) (next : Addr)
    (ops : List (Op K D)) (hval : validateOps v (viewOf H) ops ≠ .ok) :
    specTx v H free next ops = H := by
  unfold specTx
  split
  · rename_i h; exact absurd h hval
  · rfl

theorem specTx_accepted (v : Variant) (H : Heap K D) (free : List Addr) (next : Addr)
    (ops : List (Op K D)) (hval : validateOps v (viewOf H) ops = .ok)
    (r : Heap K D × List Addr) (hr : applyChangeSet v (H, []) (specCs v H free next ops) = .ok r) :
    specTx v H free next ops = r.1 := by
  simp only [specTx, hval, hr, Except.map, okOr]

/-! ## E5: the theorem -/

/-- `specTx` (planning order) and `inOrderTx` (the order given) agree up to the order of the root
    list, for every accepted transaction with `DerefApart` whose processing does not fail.
    (`hok` cannot be dropped: `specTx_eqv_inOrder_needs_ok`; it holds on every heap satisfying
    the invariant, Pdb/Proofs/C10TxInv.lean.) -/
theorem specTx_eqv_inOrder (v : Variant) (H : Heap K D) (free : List Addr) (next : Addr)
    (ops : List (Op K D)) (hwf : H.roots.WF) (hval : validateOps v (viewOf H) ops = .ok)
    (hda : DerefApart ops)
    (hok : ∃ r, applyChangeSet v (H, []) (specCs v H free next ops) = .ok r) :
    HeapEqv (specTx v H free next ops) (inOrderTx v H free next ops) := by
  obtain ⟨r, hr⟩ := hok
  have E := applyTx_eqv_inOrderE v H free next ops hval hda
  rw [hr] at E
  obtain ⟨h', eh', ext⟩ := ExcExt.ok_left (h := r.1) E
  have e1 := specTx_accepted v H free next ops hval r hr
  have e2 := inOrderE_tx v H h' free next ops eh'
  apply HeapExt.toEqv
  · rw [e1, e2]; exact ext
  · exact specTx_wf v H free next ops hwf
  · exact inOrderTx_wf v H free next ops hwf

/-- ... and conversely: if the strict in-order run succeeds, so does the processing of the
    assembled change set. -/
theorem applyTx_ok_of_inOrderE (v : Variant) (H : Heap K D) (free : List Addr) (next : Addr)
    (ops : List (Op K D)) (hval : validateOps v (viewOf H) ops = .ok) (hda : DerefApart ops)
    (h' : Heap K D) (he : inOrderE v (free, next) H ops = .ok h') :
    ∃ r, applyChangeSet v (H, []) (specCs v H free next ops) = .ok r := by
  have E := applyTx_eqv_inOrderE v H free next ops hval hda
  rw [he] at E
  cases ha : applyChangeSet v (H, []) (specCs v H free next ops) with
  | ok r => exact ⟨r, rfl⟩
  | error e => rw [ha] at E; exact E.elim

/-- The statement without `hok` is FALSE.  A root with a dangling child (address 5 holds no
    node): the walk of `dereference 0` fails; `specTx` then drops the whole transaction,
    `inOrderTx` only the dereference. -/
theorem specTx_eqv_inOrder_needs_ok :
    ∃ (v : Variant) (H : Heap Nat Nat) (free : List Addr) (next : Addr) (ops : List (Op Nat Nat)),
      H.roots.WF ∧ validateOps v (viewOf H) ops = .ok ∧ DerefApart ops ∧
      ¬ HeapEqv (specTx v H free next ops) (inOrderTx v H free next ops) := by
  refine ⟨.plain, ⟨.empty, .empty, ⟨[(0, (⟨0, [5]⟩, 1))]⟩, 6⟩, [], 6,
    [.insert 1 ⟨7, .nil⟩, .dereference 0], by simp [FMap.WF], by decide, ?_, ?_⟩
  · simp [DerefApart, Op.isDeref, Op.isInsert, Op.key]
  · intro e
    have := e.roots.length_eq
    revert this
    decide

/-! ## E2 in `HeapEqv` form -/

/-- results of operations up to `HeapEqv` -/
def ExcEqv : Except Err (Heap K D) → Except Err (Heap K D) → Prop
  | .ok h, .ok h' => HeapEqv h h'
  | .error e, .error e' => e = e'
  | _, _ => False

/-- `ExcEqv r r'`, spelled out: the same failures, and equivalent results -/
theorem ExcEqv.unpack {r r' : Except Err (Heap K D)} (e : ExcEqv r r') :
    (∀ x, r = .error x ↔ r' = .error x) ∧
    (∀ h2, r = .ok h2 → ∃ h2', r' = .ok h2' ∧ HeapEqv h2 h2') := by
  cases r with
  | ok h =>
    cases r' with
    | ok h' =>
      refine ⟨fun x => ⟨fun h => (by cases h), fun h => (by cases h)⟩, ?_⟩
      intro h2 e2
      cases e2
      exact ⟨h', rfl, e⟩
    | error _ => exact e.elim
  | error x =>
    cases r' with
    | ok _ => exact e.elim
    | error y =>
      simp only [ExcEqv] at e
      subst e
      exact ⟨fun _ => Iff.rfl, fun h2 e2 => (by cases e2)⟩

theorem ExcExt.toEqv {r r' : Except Err (Heap K D)} (e : ExcExt r r')
    (hw : ∀ h, r = .ok h → h.roots.WF) (hw' : ∀ h, r' = .ok h → h.roots.WF) : ExcEqv r r' := by
  cases r with
  | ok h =>
    cases r' with
    | ok h' => exact HeapExt.toEqv e (hw h rfl) (hw' h' rfl)
    | error _ => exact e.elim
  | error x =>
    cases r' with
    | ok _ => exact e.elim
    | error y => exact e

section Eqv
variable {h h' : Heap K D} (e : HeapEqv h h') (hwf : h.roots.WF)
include e hwf

theorem applyRootChange_eqv (v : Variant) (c : RootChange K D) :
    HeapEqv (applyRootChange v h c) (applyRootChange v h' c) :=
  (applyRootChange_ext v (e.toExt hwf) c).toEqv (applyRootChange_wf v h c hwf)
    (applyRootChange_wf v h' c (e.wf hwf))

theorem foldl_applyRootChange_eqv (v : Variant) (R : List (RootChange K D)) :
    HeapEqv (R.foldl (applyRootChange v) h) (R.foldl (applyRootChange v) h') :=
  (foldl_applyRootChange_ext v R (e.toExt hwf)).toEqv (foldl_applyRootChange_wf v R h hwf)
    (foldl_applyRootChange_wf v R h' (e.wf hwf))

theorem referenceTree_eqv (v : Variant) (k : K) :
    ExcEqv (referenceTree v h k) (referenceTree v h' k) :=
  (referenceTree_ext v (e.toExt hwf) k).toEqv (fun h2 he => referenceTree_wf v h h2 k he hwf)
    (fun h2 he => referenceTree_wf v h' h2 k he (e.wf hwf))

theorem derefProcess_eqv (v : Variant) (k : K) (cs : List Addr) :
    ExcEqv (derefProcess v h k cs) (derefProcess v h' k cs) :=
  (derefProcess_ext v (e.toExt hwf) k cs).toEqv (fun h2 he => derefProcess_wf v h h2 k cs he hwf)
    (fun h2 he => derefProcess_wf v h' h2 k cs he (e.wf hwf))

theorem dereferenceTree_eqv (v : Variant) (k : K) :
    ExcEqv (dereferenceTree v h k) (dereferenceTree v h' k) :=
  (dereferenceTree_ext v (e.toExt hwf) k).toEqv
    (fun h2 he => dereferenceTree_wf v h h2 k he hwf)
    (fun h2 he => dereferenceTree_wf v h' h2 k he (e.wf hwf))

theorem applyNodeH_eqv (v : Variant) (c : NodeChange K D) :
    ExcEqv (applyNodeH v h c) (applyNodeH v h' c) :=
  (applyNodeH_ext v (e.toExt hwf) c).toEqv (fun h2 he => applyNodeH_wf v h h2 c he hwf)
    (fun h2 he => applyNodeH_wf v h' h2 c he (e.wf hwf))

theorem foldlM_applyNodeH_eqv (v : Variant) (N : List (NodeChange K D)) :
    ExcEqv (N.foldlM (applyNodeH v) h) (N.foldlM (applyNodeH v) h') :=
  (foldlM_applyNodeH_ext v N (e.toExt hwf)).toEqv
    (fun h2 he => foldlM_applyNodeH_wf v N h h2 he hwf)
    (fun h2 he => foldlM_applyNodeH_wf v N h' h2 he (e.wf hwf))

/-- `insRefsA` never reads or writes the roots -/
theorem insRefsA_eqv (ap : Bool) (rs : NRefs D) (f : List Addr) :
    HeapEqv (insRefsA ap h f rs).1 (insRefsA ap h' f rs).1 ∧
      (insRefsA ap h f rs).2 = (insRefsA ap h' f rs).2 := by
  have e1 := (e.toExt hwf).eq_setRoots
  have hr := insRefsA_roots ap rs h f h'.roots
  rw [e1, hr.2.2]
  refine ⟨⟨rfl, rfl, rfl, ?_⟩, rfl⟩
  rw [hr.1]
  exact e.roots

theorem insertTreeA_eqv (v : Variant) (fresh : List Addr) (k : K) (t : NewNode D) :
    HeapEqv (insertTreeA v h fresh k t) (insertTreeA v h' fresh k t) := by
  have e1 := (e.toExt hwf).eq_setRoots
  have hr := insRefsA_roots (decide (v = .appendOnly)) t.children h fresh h'.roots
  have hget := (e.toExt hwf).roots k
  rw [e1]
  simp only [insertTreeA, hr.2.2]
  rcases hR : insRefsA (decide (v = .appendOnly)) h fresh t.children with ⟨h1, f1, as⟩
  simp only [hR] at hr
  simp only [setRoots, hr.1, ← hget]
  exact ⟨rfl, rfl, rfl, FMap.set_perm e.roots _ _⟩

theorem inOrderOp_eqv (v : Variant) (fn : List Addr × Addr) (op : Op K D) :
    HeapEqv (inOrderOp v (h, fn.1, fn.2) op).1 (inOrderOp v (h', fn.1, fn.2) op).1 ∧
      (inOrderOp v (h, fn.1, fn.2) op).2 = (inOrderOp v (h', fn.1, fn.2) op).2 := by
  cases op with
  | insert k t =>
    rcases hC : claimEntries t.children.news fn.1 fn.2 with ⟨claimed, f, n⟩
    simp only [inOrderOp, hC, and_true]
    exact insertTreeA_eqv e hwf v claimed k t
  | reference k =>
    refine ⟨?_, rfl⟩
    have := referenceTree_eqv e hwf v k
    simp only [inOrderOp]
    cases h1 : referenceTree v h k <;> cases h2 : referenceTree v h' k <;>
      simp only [h1, h2, ExcEqv] at this <;> simp only [okOr]
    · exact e
    · exact this
  | dereference k =>
    refine ⟨?_, rfl⟩
    have := dereferenceTree_eqv e hwf v k
    simp only [inOrderOp]
    cases h1 : dereferenceTree v h k <;> cases h2 : dereferenceTree v h' k <;>
      simp only [h1, h2, ExcEqv] at this <;> simp only [okOr]
    · exact e
    · exact this

end Eqv

/-! ### the versions with the freed-address list -/

omit [DecidableEq K] in
theorem derefChildrenF_setRoots (R : FMap K (Node D × Nat)) :
    ∀ (fuel : Nat) (cs : List Addr) (h : Heap K D) (fl : List Addr),
    derefChildrenF fuel (setRoots R h, fl) cs =
      (derefChildrenF fuel (h, fl) cs).map (fun p => (setRoots R p.1, p.2))
  | 0, _, _, _ => rfl
  | fuel + 1, cs, h, fl => by
    simp only [derefChildrenF]
    induction cs generalizing h fl with
    | nil => rfl
    | cons a rest ih =>
      simp only [List.foldlM_cons]
      have hstep : derefStepF (derefChildrenF fuel) (setRoots R h, fl) a =
          (derefStepF (derefChildrenF fuel) (h, fl) a).map (fun p => (setRoots R p.1, p.2)) := by
        simp only [derefStepF, decRef_setRoots]
        have hn : (setRoots R h).nodes = h.nodes := rfl
        rw [hn]
        rcases hd : decRef h a with ⟨b, h1⟩
        cases b with
        | true => rfl
        | false =>
          simp only
          cases (h.nodes.get a).map (·.children) with
          | none => rfl
          | some kids => exact derefChildrenF_setRoots R fuel kids h1 (a :: fl)
      rw [hstep]
      cases hs : derefStepF (derefChildrenF fuel) (h, fl) a with
      | error e => rfl
      | ok hf2 =>
        obtain ⟨h2, fl2⟩ := hf2
        simp only [Except.map, bind, Except.bind]
        exact ih h2 fl2

/-- the freed addresses of `derefProcessF` depend on nodes, counts and the entry of `k` only -/
theorem derefProcessF_snd (v : Variant) (h g : Heap K D) (fl : List Addr) (k : K) (cs : List Addr)
    (hn : g.nodes = h.nodes) (hr : g.rc = h.rc) (hx : g.next = h.next)
    (hk : g.roots.get k = h.roots.get k) :
    (derefProcessF v (g, fl) k cs).map Prod.snd = (derefProcessF v (h, fl) k cs).map Prod.snd := by
  obtain ⟨gn, grc, groots, gnext⟩ := g
  simp only at hn hr hx hk
  subst hn hr hx
  simp only [derefProcessF, hk]
  cases hg : h.roots.get k with
  | none => rfl
  | some e =>
    obtain ⟨r, c⟩ := e
    simp only
    split
    · rfl
    · have hw := derefChildrenF_setRoots (groots.set k none)
        (walkFuel { h with roots := h.roots.set k none }) cs { h with roots := h.roots.set k none } fl
      have hw' : derefChildrenF (walkFuel { h with roots := h.roots.set k none })
          ((⟨h.nodes, h.rc, groots.set k none, h.next⟩ : Heap K D), fl) cs =
          (derefChildrenF (walkFuel { h with roots := h.roots.set k none })
            ({ h with roots := h.roots.set k none }, fl) cs).map
              (fun p => (setRoots (groots.set k none) p.1, p.2)) := hw
      have hfuel : walkFuel (⟨h.nodes, h.rc, groots.set k none, h.next⟩ : Heap K D) =
          walkFuel { h with roots := h.roots.set k none } := rfl
      rw [hfuel, hw']
      cases derefChildrenF (walkFuel { h with roots := h.roots.set k none })
        ({ h with roots := h.roots.set k none }, fl) cs <;> rfl

theorem applyNodeChange_snd (v : Variant) {h h' : Heap K D} (e : HeapExt h h') (fl : List Addr)
    (c : NodeChange K D) :
    (applyNodeChange v (h, fl) c).map Prod.snd = (applyNodeChange v (h', fl) c).map Prod.snd := by
  cases c with
  | newValue a n => rfl
  | incRef a => rfl
  | derefChildren k cs =>
    exact (derefProcessF_snd v h h' fl k cs e.nodes.symm e.rc.symm e.next.symm (e.roots k).symm).symm

/-- results with the freed-address list, up to the order of the root list -/
def ExcExtF : Except Err (Heap K D × List Addr) → Except Err (Heap K D × List Addr) → Prop
  | .ok p, .ok p' => HeapExt p.1 p'.1 ∧ p.2 = p'.2
  | .error e, .error e' => e = e'
  | _, _ => False

theorem ExcExtF.of_parts {r r' : Except Err (Heap K D × List Addr)}
    (e1 : ExcExt (r.map Prod.fst) (r'.map Prod.fst)) (e2 : r.map Prod.snd = r'.map Prod.snd) :
    ExcExtF r r' := by
  cases r with
  | ok p =>
    cases r' with
    | ok p' =>
      simp only [Except.map, Except.ok.injEq] at e2
      exact ⟨e1, e2⟩
    | error _ => exact e1.elim
  | error x =>
    cases r' with
    | ok _ => exact e1.elim
    | error y => exact e1

theorem applyNodeChange_ext (v : Variant) {h h' : Heap K D} (e : HeapExt h h') (fl : List Addr)
    (c : NodeChange K D) :
    ExcExtF (applyNodeChange v (h, fl) c) (applyNodeChange v (h', fl) c) := by
  apply ExcExtF.of_parts
  · rw [eqv_applyNodeChange_fst, eqv_applyNodeChange_fst]
    exact applyNodeH_ext v e c
  · exact applyNodeChange_snd v e fl c

theorem derefProcessF_ext (v : Variant) {h h' : Heap K D} (e : HeapExt h h') (fl : List Addr)
    (k : K) (cs : List Addr) :
    ExcExtF (derefProcessF v (h, fl) k cs) (derefProcessF v (h', fl) k cs) :=
  applyNodeChange_ext v e fl (.derefChildren k cs)

theorem foldlM_applyNodeChange_ext (v : Variant) (N : List (NodeChange K D)) :
    ∀ {h h' : Heap K D} (fl : List Addr), HeapExt h h' →
      ExcExtF (N.foldlM (applyNodeChange v) (h, fl)) (N.foldlM (applyNodeChange v) (h', fl)) := by
  induction N with
  | nil => intro h h' fl e; exact ⟨e, rfl⟩
  | cons c N ih =>
    intro h h' fl e
    simp only [List.foldlM_cons]
    have h1 := applyNodeChange_ext v e fl c
    cases ha : applyNodeChange v (h, fl) c with
    | error x =>
      cases hb : applyNodeChange v (h', fl) c with
      | error y => rw [ha, hb] at h1; exact h1
      | ok _ => rw [ha, hb] at h1; exact h1.elim
    | ok p =>
      cases hb : applyNodeChange v (h', fl) c with
      | error y => rw [ha, hb] at h1; exact h1.elim
      | ok p' =>
        rw [ha, hb] at h1
        obtain ⟨p1, p2⟩ := p
        obtain ⟨p1', p2'⟩ := p'
        obtain ⟨e1, e2⟩ := h1
        simp only at e1 e2
        subst e2
        exact ih p2 e1

/-- `write_plan` respects the order-insensitive equality of heaps -/
theorem applyChangeSet_ext (v : Variant) {h h' : Heap K D} (e : HeapExt h h') (fl : List Addr)
    (cs : ChangeSet K D) :
    ExcExtF (applyChangeSet v (h, fl) cs) (applyChangeSet v (h', fl) cs) := by
  have base : ExcExtF (applyChangeSetF41 v (h, fl) cs.early) (applyChangeSetF41 v (h', fl) cs.early) :=
    foldlM_applyNodeChange_ext v cs.early.nodeChanges fl
      (foldl_applyRootChange_ext v cs.early.changes e)
  simp only [applyChangeSet]
  cases ha : applyChangeSetF41 v (h, fl) cs.early with
  | error x =>
    cases hb : applyChangeSetF41 v (h', fl) cs.early with
    | error y => rw [ha, hb] at base; exact base
    | ok _ => rw [ha, hb] at base; exact base.elim
  | ok p =>
    cases hb : applyChangeSetF41 v (h', fl) cs.early with
    | error y => rw [ha, hb] at base; exact base.elim
    | ok p' =>
      rw [ha, hb] at base
      obtain ⟨p1, p2⟩ := p
      obtain ⟨p1', p2'⟩ := p'
      exact ⟨foldl_applyRootChange_ext v cs.late base.1, base.2⟩

/-! ## E3: the invariant and the observables do not see the order of the root list -/

theorem HeapExt.present {h h' : Heap K D} (e : HeapExt h h') (a : Addr) :
    present h a ↔ present h' a := by
  simp only [Pdb.MultiTree.present, e.nodes]

theorem HeapExt.viewOf {h h' : Heap K D} (e : HeapExt h h') : viewOf h = viewOf h' := by
  funext k
  simp only [Pdb.MultiTree.viewOf, e.roots k]

theorem HeapExt.readTree {h h' : Heap K D} (e : HeapExt h h') (k : K) :
    readTree h k = readTree h' k := by
  simp only [Pdb.MultiTree.readTree, e.roots k, e.nodes, e.next]

theorem HeapExt.count {h h' : Heap K D} (e : HeapExt h h') (a : Addr) : h.count a = h'.count a := by
  simp only [Heap.count, e.rc]

theorem HeapExt.reach {h h' : Heap K D} (e : HeapExt h h') (a : Addr) (hr : Reach h a) :
    Reach h' a := by
  induction hr with
  | root k x a hg hm => exact Reach.root k x a (by rw [← e.roots k]; exact hg) hm
  | step b n a _ hg hm ih => exact Reach.step b n a ih (by rw [← e.nodes]; exact hg) hm

theorem HeapExt.reach_iff {h h' : Heap K D} (e : HeapExt h h') (a : Addr) :
    Reach h a ↔ Reach h' a := ⟨e.reach a, e.symm.reach a⟩

theorem HeapEqv.rootRefs {h h' : Heap K D} (e : HeapEqv h h') (a : Addr) :
    rootRefs h a = rootRefs h' a := FMap.sum_perm e.roots _

/-- E3: `InvR` is a property of the heap up to `HeapEqv`. -/
theorem InvR.congr (v : Variant) (h h' : Heap K D) (e : HeapEqv h h') (hi : InvR v h) :
    InvR v h' := by
  have hwf : h.roots.WF := by
    obtain ⟨rank, hs⟩ := hi.shape
    exact hs.core.wfRoots
  have hroots := e.roots
  have hget := e.get hwf
  have hrr := e.rootRefs
  obtain ⟨n, rc, R, nx⟩ := h
  obtain ⟨n', rc', R', nx'⟩ := h'
  obtain ⟨e1, e2, e3, _⟩ := e
  simp only at e1 e2 e3 hroots hget
  subst e1 e2 e3
  constructor
  · obtain ⟨rank, hs⟩ := hi.shape
    refine ⟨rank, ⟨hs.core.wfN, hs.core.wfRc, FMap.WF_perm hroots hwf, hs.core.closedN, ?_, ?_⟩,
      hs.acyclic⟩
    · intro k x hg
      exact hs.core.closedR k x (by rw [hget k]; exact hg)
    · intro k x hg
      exact hs.core.rootPos k x (by rw [hget k]; exact hg)
  · intro hv
    have hc := hi.counts hv
    refine ⟨hc.rcEntries, ?_, hc.pend⟩
    intro a ha
    have := hc.rcEq a ha
    have h1 := hrr a
    simp only [refs] at this ⊢
    have hn : nodeRefs (⟨n, rc, R', nx⟩ : Heap K D) a = nodeRefs (⟨n, rc, R, nx⟩ : Heap K D) a := rfl
    have hcnt : Heap.count (⟨n, rc, R', nx⟩ : Heap K D) a = Heap.count (⟨n, rc, R, nx⟩ : Heap K D) a := rfl
    omega

theorem InvR.congr_iff (v : Variant) (h h' : Heap K D) (e : HeapEqv h h') : InvR v h ↔ InvR v h' :=
  ⟨InvR.congr v h h' e, InvR.congr v h' h e.symm⟩

/-- observables through `HeapEqv` -/
theorem HeapEqv.present {h h' : Heap K D} (e : HeapEqv h h') (a : Addr) :
    Pdb.MultiTree.present h a ↔ Pdb.MultiTree.present h' a := by
  simp only [Pdb.MultiTree.present, e.nodes]

theorem HeapEqv.viewOf {h h' : Heap K D} (e : HeapEqv h h') (hwf : h.roots.WF) :
    Pdb.MultiTree.viewOf h = Pdb.MultiTree.viewOf h' := (e.toExt hwf).viewOf

theorem HeapEqv.readTree {h h' : Heap K D} (e : HeapEqv h h') (hwf : h.roots.WF) (k : K) :
    Pdb.MultiTree.readTree h k = Pdb.MultiTree.readTree h' k := (e.toExt hwf).readTree k

theorem HeapEqv.reach_iff {h h' : Heap K D} (e : HeapEqv h h') (hwf : h.roots.WF) (a : Addr) :
    Reach h a ↔ Reach h' a := (e.toExt hwf).reach_iff a

end Pdb.MultiTree
