/-
C08 at the database level: `TDb.commit` (Pdb/Model/MultiTree.lean) is `DbInner::commit_changes`
+ `commit_raw` over several columns (multitree columns of the three variants and plain
key-value columns) with the commit id counter and the stored background error.

  asmDb_ok_of_valid        after validation the assembly loop cannot fail
  TDb.commit_*_eq          unfolding of `TDb.commit` in the three cases (invalid / refused by the
                           background error / accepted)
  DbAction, stepDb, runDb  histories of commits, pipeline steps and background failures
  dropRejected             a history without the commits that are rejected in the state they meet
  TDb.commit_single        a database with one tree column commits as `TState.commit` does
-/
import Pdb.Proofs.C10TxBasic

namespace Pdb.MultiTree
set_option linter.unusedSectionVars false
variable {K D : Type} [DecidableEq K]

/-! ### histories -/

inductive DbAction (K D : Type) where
  | commit (tx : List (Nat × DbOp K D))
  | process
  | fail                 -- a background worker stores an error

def stepDb (db : TDb K D) : DbAction K D → TDb K D
  | .commit tx => (db.commit tx).1
  | .process => okOr db db.process
  | .fail => { db with bgErr := true }

def runDb (db : TDb K D) (as : List (DbAction K D)) : TDb K D := as.foldl stepDb db

/-- the commit of `tx` is rejected in state `db` -/
def isRejected (db : TDb K D) (tx : List (Nat × DbOp K D)) : Bool := decide ((db.commit tx).2 ≠ .ok)

/-- the action is a commit that is rejected in state `db` -/
def DbAction.rejectedIn (db : TDb K D) : DbAction K D → Bool
  | .commit tx => isRejected db tx
  | _ => false

/-- the history without the commits that are rejected in the state they meet -/
def dropRejected : TDb K D → List (DbAction K D) → List (DbAction K D)
  | _, [] => []
  | db, a :: as =>
    if a.rejectedIn db then dropRejected (stepDb db a) as else a :: dropRejected (stepDb db a) as

/-! ### validation -/

def verdictDb : Validate.Verdict → Res
  | .ok => .ok
  | .invalidInput => .err .invalidInput
  | .invalidConfiguration => .err .invalidConfiguration

theorem verdictDb_ok_iff (e : Validate.Verdict) : verdictDb e = .ok ↔ e = .ok := by
  cases e <;> simp [verdictDb]

theorem validateTx_cons_ok (cols : List Validate.ColOpts) (c : Nat) (k : Validate.OpKind)
    (rest : List (Nat × Validate.OpKind)) :
    Validate.validateTx cols ((c, k) :: rest) = .ok ↔
      (Validate.validateAt cols c k = .ok ∧ Validate.validateTx cols rest = .ok) := by
  simp only [Validate.validateTx]
  cases Validate.validateAt cols c k <;> simp

theorem validateTx_ok_iff (cols : List Validate.ColOpts) (tx : List (Nat × Validate.OpKind)) :
    Validate.validateTx cols tx = .ok ↔ ∀ cop ∈ tx, Validate.validateAt cols cop.1 cop.2 = .ok := by
  induction tx with
  | nil => simp [Validate.validateTx]
  | cons cop tx ih =>
    obtain ⟨c, k⟩ := cop
    rw [validateTx_cons_ok, ih]
    simp only [List.mem_cons, forall_eq_or_imp]

theorem TDb.validate_ok_iff (db : TDb K D) (tx : List (Nat × DbOp K D)) :
    db.validate tx = .ok ↔
      ∀ cop ∈ tx, Validate.validateAt (db.cols.map Col.opts) cop.1 (db.kindAt cop.1 cop.2) = .ok := by
  simp only [TDb.validate, validateTx_ok_iff, List.mem_map, forall_exists_index, and_imp,
    forall_apply_eq_imp_iff₂]

theorem TDb.validate_cons_ok (db : TDb K D) (c : Nat) (op : DbOp K D) (tx : List (Nat × DbOp K D)) :
    db.validate ((c, op) :: tx) = .ok ↔
      (Validate.validateAt (db.cols.map Col.opts) c (db.kindAt c op) = .ok ∧ db.validate tx = .ok) := by
  simp only [TDb.validate, List.map_cons, validateTx_cons_ok]

/-- key-value operations are refused on every multitree column -/
theorem validateChange_tree_kv (v : Variant) :
    Validate.validateChange v.opts .set ≠ .ok ∧ Validate.validateChange v.opts .deref ≠ .ok ∧
      Validate.validateChange v.opts .ref ≠ .ok := by
  cases v <;> decide

/-- on a plain key-value column only Set and Dereference pass -/
theorem validateChange_kv (k : Validate.OpKind) (h : Validate.validateChange ⟨false, false, false, false⟩ k = .ok) :
    k = .set ∨ k = .deref := by
  cases k <;> simp [Validate.validateChange] at h ⊢

/-! ### the accumulator list of the assembly loop -/

/-- accumulator and column are of the same kind -/
def accMatch : Col K D → ColAcc K D → Prop
  | .tree _, .tree _ => True
  | .kv _, .kv _ => True
  | _, _ => False

/-- one accumulator per column, of the column's kind -/
structure AccsOk (cols : List (Col K D)) (accs : List (ColAcc K D)) : Prop where
  len : accs.length = cols.length
  kind : ∀ (c : Nat) (col : Col K D) (acc : ColAcc K D),
    cols[c]? = some col → accs[c]? = some acc → accMatch col acc

theorem accMatch_acc0 (col : Col K D) : accMatch col col.acc0 := by
  cases col <;> exact True.intro

theorem AccsOk.init (cols : List (Col K D)) : AccsOk cols (cols.map Col.acc0) where
  len := List.length_map _
  kind := by
    intro c col acc h1 h2
    rw [List.getElem?_map, h1] at h2
    simp only [Option.map_some, Option.some.injEq] at h2
    subst h2
    exact accMatch_acc0 col

theorem AccsOk.set {cols : List (Col K D)} {accs : List (ColAcc K D)} (h : AccsOk cols accs)
    (c : Nat) (col : Col K D) (acc' : ColAcc K D) (hc : cols[c]? = some col)
    (hm : accMatch col acc') : AccsOk cols (accs.set c acc') where
  len := by rw [List.length_set]; exact h.len
  kind := by
    intro j col' acc hj ha
    rw [List.getElem?_set] at ha
    by_cases e : c = j
    · subst e
      rw [hc] at hj
      simp only [Option.some.injEq] at hj
      subst hj
      simp only [if_true] at ha
      split at ha
      · simp only [Option.some.injEq] at ha; subst ha; exact hm
      · cases ha
    · simp only [if_neg e] at ha
      exact h.kind j col' acc hj ha

theorem validateAt_col (db : TDb K D) (c : Nat) (op : DbOp K D) (col : Col K D)
    (hc : db.cols[c]? = some col) :
    Validate.validateAt (db.cols.map Col.opts) c (db.kindAt c op) =
      Validate.validateChange col.opts (op.kind col.view) := by
  simp only [Validate.validateAt, TDb.kindAt, List.getElem?_map, hc, Option.map_some,
    Option.getD_some]

theorem validateAt_none (db : TDb K D) (c : Nat) (op : DbOp K D) (hc : db.cols[c]? = none) :
    Validate.validateAt (db.cols.map Col.opts) c (db.kindAt c op) = .invalidInput := by
  simp only [Validate.validateAt, List.getElem?_map, hc, Option.map_none]

/-- one iteration: an operation that `validate_change` accepts is assembled without error -/
theorem asmDbOp_ok_of_valid (db : TDb K D) (accs : List (ColAcc K D)) (hok : AccsOk db.cols accs)
    (c : Nat) (op : DbOp K D)
    (hv : Validate.validateAt (db.cols.map Col.opts) c (db.kindAt c op) = .ok) :
    ∃ accs', asmDbOp db accs c op = .ok accs' ∧ AccsOk db.cols accs' := by
  cases hc : db.cols[c]? with
  | none => rw [validateAt_none db c op hc] at hv; cases hv
  | some col =>
    have hlt : c < db.cols.length := by
      apply Classical.byContradiction
      intro hn
      rw [List.getElem?_eq_none (by omega)] at hc
      cases hc
    have hlt' : c < accs.length := by rw [hok.len]; exact hlt
    obtain ⟨acc, ha⟩ : ∃ acc, accs[c]? = some acc := ⟨accs[c], List.getElem?_eq_getElem hlt'⟩
    have hm := hok.kind c col acc hc ha
    rw [validateAt_col db c op col hc] at hv
    cases col with
    | tree s =>
      cases acc with
      | kv l => exact hm.elim
      | tree a =>
        have hkv := validateChange_tree_kv s.variant
        cases op with
        | set k v => exact absurd hv hkv.1
        | del k => exact absurd hv hkv.2.1
        | ref k => exact absurd hv hkv.2.2
        | tree top =>
          obtain ⟨a', e⟩ := asmOp_ok_of_valid s.variant s.viewRoot a top hv
          refine ⟨accs.set c (.tree a'), ?_, hok.set c _ _ hc True.intro⟩
          simp only [asmDbOp, hc, ha, e]
    | kv kc =>
      cases acc with
      | tree a => exact hm.elim
      | kv l =>
        cases op with
        | set k v =>
          refine ⟨accs.set c (.kv (l ++ [(k, some v)])), ?_, hok.set c _ _ hc True.intro⟩
          simp only [asmDbOp, hc, ha]
        | del k =>
          refine ⟨accs.set c (.kv (l ++ [(k, none)])), ?_, hok.set c _ _ hc True.intro⟩
          simp only [asmDbOp, hc, ha]
        | ref k =>
          rcases validateChange_kv _ hv with e | e <;> cases e
        | tree top =>
          rcases validateChange_kv _ hv with e | e <;> (cases top <;> cases e)

/-- after validation the assembly loop of `commit_changes` cannot fail -/
theorem asmDb_ok_of_valid (db : TDb K D) (tx : List (Nat × DbOp K D)) :
    ∀ (accs : List (ColAcc K D)), AccsOk db.cols accs → db.validate tx = .ok →
      (asmDb db accs tx).2 = .ok () := by
  induction tx with
  | nil => intro accs _ _; rfl
  | cons cop tx ih =>
    intro accs hok hv
    obtain ⟨c, op⟩ := cop
    obtain ⟨h1, h2⟩ := (TDb.validate_cons_ok db c op tx).mp hv
    obtain ⟨accs', e, hok'⟩ := asmDbOp_ok_of_valid db accs hok c op h1
    simp only [asmDb, e]
    exact ih accs' hok' h2

/-! ### unfolding `TDb.commit` -/

/-- an invalid transaction: nothing but the verdict -/
theorem TDb.commit_invalid_eq (db : TDb K D) (tx : List (Nat × DbOp K D))
    (hv : db.validate tx ≠ .ok) : db.commit tx = (db, verdictDb (db.validate tx)) := by
  cases h : db.validate tx with
  | ok => exact absurd h hv
  | invalidInput => simp only [TDb.commit, h, verdictDb]
  | invalidConfiguration => simp only [TDb.commit, h, verdictDb]

/-- a valid transaction refused because of the stored background error -/
theorem TDb.commit_bgerr_eq (db : TDb K D) (tx : List (Nat × DbOp K D))
    (hv : db.validate tx = .ok) (hb : db.bgErr = true) : db.commit tx = (db, .err .background) := by
  simp only [TDb.commit, hv, hb, if_true]

/-- an accepted transaction: claims / counters written back, one entry queued per column, id + 1 -/
theorem TDb.commit_ok_eq (db : TDb K D) (tx : List (Nat × DbOp K D))
    (hv : db.validate tx = .ok) (hb : db.bgErr = false) :
    db.commit tx =
      ({ db with cols := zipCols Col.pushAcc db.cols (asmDb db (db.cols.map Col.acc0) tx).1,
                 nextId := db.nextId + 1 }, .ok) := by
  have h2 := asmDb_ok_of_valid db tx _ (AccsOk.init db.cols) hv
  rcases hA : asmDb db (db.cols.map Col.acc0) tx with ⟨accs, r⟩
  rw [hA] at h2
  simp only at h2
  subst h2
  simp only [TDb.commit, hv, hb, hA, Bool.false_eq_true, if_false]

/-- a commit is accepted iff the whole transaction is valid and no background error is stored -/
theorem TDb.commit_ok_iff (db : TDb K D) (tx : List (Nat × DbOp K D)) :
    (db.commit tx).2 = .ok ↔ (db.validate tx = .ok ∧ db.bgErr = false) := by
  by_cases hv : db.validate tx = .ok
  · cases hb : db.bgErr with
    | true => rw [TDb.commit_bgerr_eq db tx hv hb]; simp [hv]
    | false => rw [TDb.commit_ok_eq db tx hv hb]; simp [hv]
  · rw [TDb.commit_invalid_eq db tx hv]
    simp only [verdictDb_ok_iff, hv, false_and]

/-- a rejected commit returns the database exactly as it was -/
theorem TDb.commit_err (db : TDb K D) (tx : List (Nat × DbOp K D))
    (h : (db.commit tx).2 ≠ .ok) : (db.commit tx).1 = db := by
  by_cases hv : db.validate tx = .ok
  · cases hb : db.bgErr with
    | true => rw [TDb.commit_bgerr_eq db tx hv hb]
    | false => exact absurd ((TDb.commit_ok_iff db tx).mpr ⟨hv, hb⟩) h
  · rw [TDb.commit_invalid_eq db tx hv]

theorem TDb.commit_invalid (db : TDb K D) (tx : List (Nat × DbOp K D)) (cop : Nat × DbOp K D)
    (hm : cop ∈ tx)
    (hinv : Validate.validateAt (db.cols.map Col.opts) cop.1 (db.kindAt cop.1 cop.2) ≠ .ok) :
    (db.commit tx).2 ≠ .ok ∧ (db.commit tx).1 = db := by
  have hv : db.validate tx ≠ .ok := fun h => hinv ((TDb.validate_ok_iff db tx).mp h cop hm)
  have h2 : (db.commit tx).2 ≠ .ok := fun h => hv ((TDb.commit_ok_iff db tx).mp h).1
  exact ⟨h2, TDb.commit_err db tx h2⟩

/-! ### a background error stored while the call runs (finding F44) -/

/-- HEAD (`commit_changes` without a second test of `bg_err`): result and state are those of the
    same commit made just BEFORE the error was stored - an accepted call is queued and the error
    flag is set afterwards; a call that returns in front of the window (rejected by validation,
    refused by an error stored before the call) is not affected. -/
theorem TDb.commitConc_eq (db : TDb K D) (tx : List (Nat × DbOp K D)) (stored : Bool) :
    (db.commitConc tx stored).2 = (db.commit tx).2 ∧
    (db.commitConc tx stored).1 =
      if stored = true ∧ (db.commit tx).2 = .ok then { (db.commit tx).1 with bgErr := true }
      else (db.commit tx).1 := by
  by_cases hv : db.validate tx = .ok
  · cases hb : db.bgErr with
    | true =>
      rw [TDb.commit_bgerr_eq db tx hv hb]
      simp [TDb.commitConc, TDb.commitWin, hv, hb]
    | false =>
      have h2 := asmDb_ok_of_valid db tx _ (AccsOk.init db.cols) hv
      rw [TDb.commit_ok_eq db tx hv hb]
      rcases hA : asmDb db (db.cols.map Col.acc0) tx with ⟨accs, r⟩
      rw [hA] at h2
      simp only at h2
      subst h2
      cases stored <;> simp [TDb.commitConc, TDb.commitWin, hv, hb, hA]
  · rw [TDb.commit_invalid_eq db tx hv]
    have hne : verdictDb (db.validate tx) ≠ .ok := fun h => hv ((verdictDb_ok_iff _).mp h)
    cases h : db.validate tx with
    | ok => exact absurd h hv
    | invalidInput => simp [TDb.commitConc, TDb.commitWin, h, verdictDb]
    | invalidConfiguration => simp [TDb.commitConc, TDb.commitWin, h, verdictDb]

/-- ... in particular a call that does not return ok leaves the state EQUAL, whatever was stored
    meanwhile (the window was not reached; the concurrent failure is a separate `fail` action) -/
theorem TDb.commitConc_err (db : TDb K D) (tx : List (Nat × DbOp K D)) (stored : Bool)
    (h : (db.commitConc tx stored).2 ≠ .ok) : (db.commitConc tx stored).1 = db := by
  obtain ⟨e1, e2⟩ := TDb.commitConc_eq db tx stored
  rw [e1] at h
  rw [e2, if_neg (fun hh => h hh.2)]
  exact TDb.commit_err db tx h

/-! ### histories -/

theorem stepDb_rejected (db : TDb K D) (a : DbAction K D) (h : a.rejectedIn db = true) :
    stepDb db a = db := by
  cases a with
  | commit tx =>
    simp only [DbAction.rejectedIn, isRejected, decide_eq_true_eq] at h
    exact TDb.commit_err db tx h
  | process => cases h
  | fail => cases h

theorem runDb_dropRejected (db : TDb K D) (as : List (DbAction K D)) :
    runDb db as = runDb db (dropRejected db as) := by
  induction as generalizing db with
  | nil => rfl
  | cons a as ih =>
    simp only [dropRejected]
    by_cases hr : a.rejectedIn db = true
    · simp only [hr, if_true]
      have e := stepDb_rejected db a hr
      show runDb (stepDb db a) as = _
      rw [ih (stepDb db a), e]
    · simp only [hr, Bool.false_eq_true, if_false]
      show runDb (stepDb db a) as = runDb (stepDb db a) (dropRejected (stepDb db a) as)
      exact ih (stepDb db a)

/-! ### one tree column: the database commit is the column commit -/

def resOf : Except Err Unit → Res
  | .ok _ => .ok
  | .error e => .err e

theorem resOf_verdictRes (e : Validate.Verdict) : resOf (verdictRes e) = verdictDb e := by
  cases e <;> rfl

theorem validateTx_single (v : Variant) (view : K → Option (Node D)) (ops : List (Op K D)) :
    Validate.validateTx [v.opts] (ops.map (fun op => (0, op.kind view))) = validateOps v view ops := by
  induction ops with
  | nil => rfl
  | cons op ops ih =>
    simp only [List.map_cons, Validate.validateTx, validateOps, Validate.validateAt,
      List.getElem?_cons_zero, ih]
    cases Validate.validateChange v.opts (Op.kind view op) <;> rfl

theorem TDb.validate_single (s : TState K D) (n : Nat) (b : Bool) (ops : List (Op K D)) :
    (⟨[.tree s], n, b⟩ : TDb K D).validate (ops.map (fun op => (0, .tree op))) =
      validateOps s.variant s.viewRoot ops := by
  rw [← validateTx_single]
  simp only [TDb.validate, List.map_map, List.map_cons, List.map_nil, Col.opts]
  rfl

theorem asmDb_single (s : TState K D) (n : Nat) (b : Bool) (ops : List (Op K D)) :
    ∀ (a : Asm K D),
      asmDb (⟨[.tree s], n, b⟩ : TDb K D) [.tree a] (ops.map (fun op => (0, .tree op))) =
        ([.tree (asmOps s.variant s.viewRoot a ops).1], (asmOps s.variant s.viewRoot a ops).2) := by
  induction ops with
  | nil => intro a; rfl
  | cons op ops ih =>
    intro a
    simp only [List.map_cons, asmDb, asmOps, asmDbOp, List.getElem?_cons_zero]
    cases e : asmOp s.variant s.viewRoot a op with
    | ok a' =>
      simp only [List.set_cons_zero]
      exact ih a'
    | error er => rfl

/-- A database with one multitree column and no stored error commits a tree-only transaction
    exactly as the column-level `TState.commit` does; the id counter advances iff it is accepted. -/
theorem TDb.commit_single (s : TState K D) (n : Nat) (ops : List (Op K D)) :
    (⟨[.tree s], n, false⟩ : TDb K D).commit (ops.map (fun op => (0, .tree op))) =
      (⟨[.tree (s.commit ops).1], if resOf (s.commit ops).2 = .ok then n + 1 else n, false⟩,
        resOf (s.commit ops).2) := by
  by_cases hv : validateOps s.variant s.viewRoot ops = .ok
  · have hv' := TDb.validate_single s n false ops
    rw [hv] at hv'
    rw [TDb.commit_ok_eq _ _ hv' rfl, TState.commit_ok_eq s ops hv]
    simp only [List.map_cons, List.map_nil, Col.acc0, asmDb_single, zipCols, Col.pushAcc, resOf,
      if_true]
  · have hv' := TDb.validate_single s n false ops
    have hv2 : (⟨[.tree s], n, false⟩ : TDb K D).validate (ops.map (fun op => (0, .tree op))) ≠ .ok := by
      rw [hv']; exact hv
    rw [TDb.commit_invalid_eq _ _ hv2, TState.commit_invalid_eq s ops hv, hv', resOf_verdictRes]
    have hne : verdictDb (validateOps s.variant s.viewRoot ops) ≠ .ok :=
      fun h => hv ((verdictDb_ok_iff _).mp h)
    simp only [if_neg hne]

/-! ### projections used by the concrete witnesses (no `DecidableEq` on states needed) -/

/-- fill mark (claimed slots included) of a column; 0 for key-value columns -/
def Col.fillMark : Col K D → Nat
  | .tree s => s.heap.next
  | .kv _ => 0

def TDb.fillMarks (db : TDb K D) : List Nat := db.cols.map Col.fillMark

end Pdb.MultiTree
