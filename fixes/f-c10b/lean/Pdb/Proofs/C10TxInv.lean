/-
C10, transactions: whole transactions preserve the invariant.

  inOrderOp_run / inOrderE_run   one operation / a list of operations executed in order on a heap
                          satisfying `InvR` with a sound allocator state (`SupplyOk`): the strict
                          run does not fail, `InvR` and `SupplyOk` hold again, old nodes are never
                          rewritten and freed slots are not reused (`RunOk`)
  inOrderTx_invR          ... for `inOrderTx`
  applyTx_ok_of_inv       a legal accepted transaction never fails when it is processed
  specTx_eqv_inOrder_of_inv   `specTx` = `inOrderTx` up to the order of the root list (the hypothesis
                          `hok` of `specTx_eqv_inOrder` discharged from the invariant)
  specTx_invR             `specTx` preserves `InvR`
  specTx_frame_roots      a transaction touches only the root keys its operations name
  specTx_frame_nodes      a node present before and after a transaction is unchanged
  specTx_rejected         (Pdb/Proofs/C10TxEqv.lean) a rejected transaction changes nothing
-/
import Pdb.Proofs.C10TxEqv
import Pdb.Proofs.C10TxBasic

namespace Pdb.MultiTree
set_option linter.unusedSectionVars false
variable {K D : Type} [DecidableEq K]

/-! ## the allocator state along a run -/

omit [DecidableEq K] in
theorem SupplyOk.mono {h h' : Heap K D} {free : List Addr} {next : Addr}
    (hs : SupplyOk h free next) (hsub : ∀ a, present h' a → present h a) :
    SupplyOk h' free next :=
  ⟨hs.nodup, fun a ha hp => hs.fresh a ha (hsub a hp), hs.below,
    fun a hp => hs.nodesBelow a (hsub a hp)⟩

/-- What a run from `x` to `x'` (heap, free stack, fill mark) guarantees: invariant and sound
    allocator at the end; the free stack only shrinks and the fill mark only grows (`inOrderOp`
    does not push freed slots back); a node present at both ends is unchanged; a slot that is
    neither free nor present (= freed, or claimed by nobody) stays empty. -/
structure RunOk (v : Variant) (x x' : Heap K D × List Addr × Addr) : Prop where
  inv : InvR v x'.1
  supply : SupplyOk x'.1 x'.2.1 x'.2.2
  freeSub : ∀ b ∈ x'.2.1, b ∈ x.2.1
  nextMono : x.2.2 ≤ x'.2.2
  keep : ∀ b n, present x.1 b → x'.1.nodes.get b = some n → x.1.nodes.get b = some n
  dead : ∀ b, b ∉ x.2.1 → b < x.2.2 → ¬ present x.1 b → ¬ present x'.1 b

theorem RunOk.of_sub {v : Variant} {h h' : Heap K D} {free : List Addr} {next : Addr}
    (hi' : InvR v h') (hs : SupplyOk h free next)
    (hsub : ∀ b n, h'.nodes.get b = some n → h.nodes.get b = some n) :
    RunOk v (h, free, next) (h', free, next) := by
  have hp : ∀ a, present h' a → present h a := by
    intro a ha
    obtain ⟨n, hn⟩ := (present_iff h' a).mp ha
    exact (present_iff h a).mpr ⟨n, hsub a n hn⟩
  exact ⟨hi', hs.mono hp, fun _ hb => hb, Nat.le_refl _, fun b n _ hg => hsub b n hg,
    fun b _ _ hn hp' => hn (hp b hp')⟩

theorem RunOk.refl {v : Variant} {x : Heap K D × List Addr × Addr} (hi : InvR v x.1)
    (hs : SupplyOk x.1 x.2.1 x.2.2) : RunOk v x x :=
  RunOk.of_sub hi hs (fun _ _ hg => hg)

theorem RunOk.trans {v : Variant} {x x' x'' : Heap K D × List Addr × Addr}
    (hs : SupplyOk x.1 x.2.1 x.2.2) (r1 : RunOk v x x') (r2 : RunOk v x' x'') : RunOk v x x'' where
  inv := r2.inv
  supply := r2.supply
  freeSub := fun b hb => r1.freeSub b (r2.freeSub b hb)
  nextMono := Nat.le_trans r1.nextMono r2.nextMono
  keep := by
    intro b n hp hg
    by_cases hp' : present x'.1 b
    · exact r1.keep b n hp (r2.keep b n hp' hg)
    · -- freed in between: it cannot be present at the end
      exfalso
      have h1 : b ∉ x'.2.1 := fun hm => hs.fresh b (r1.freeSub b hm) hp
      have h2 : b < x'.2.2 := Nat.lt_of_lt_of_le (hs.nodesBelow b hp) r1.nextMono
      exact r2.dead b h1 h2 hp' ((present_iff x''.1 b).mpr ⟨n, hg⟩)
  dead := by
    intro b h1 h2 h3
    exact r2.dead b (fun hm => h1 (r1.freeSub b hm)) (Nat.lt_of_lt_of_le h2 r1.nextMono)
      (r1.dead b h1 h2 h3)

/-! ## one operation -/

theorem insert_run (v : Variant) (h : Heap K D) (free : List Addr) (next : Addr) (k : K)
    (t : NewNode D) (hi : InvR v h) (hs : SupplyOk h free next) (hk : h.roots.get k = none)
    (hl : t.children.live h) :
    RunOk v (h, free, next) (inOrderOp v (h, free, next) (.insert k t)) := by
  have hcs := claimEntries_sound t.children.news free next hs.nodup hs.below
  have hlen := claimEntries_length t.children.news free next
  rcases hC : claimEntries t.children.news free next with ⟨claimed, f, nx⟩
  simp only [hC] at hcs hlen
  obtain ⟨c1, c2, c3, c4, c5, c6, c7, _, c9⟩ := hcs
  simp only [inOrderOp, hC]
  have hfresh : ∀ b ∈ claimed, ¬ present h b := by
    intro b hb hp
    rcases c2 b hb with h1 | h1
    · exact hs.fresh b h1 hp
    · have := hs.nodesBelow b hp; omega
  have hcount : t.children.newCount ≤ claimed.length := by
    rw [hlen, NRefs.news_eq_newCount]; exact Nat.le_refl _
  have ok := insRefsA_ok (decide (v = .appendOnly)) t.children h claimed hi.shape c1 hfresh hl hcount
  have hnodes : (insertTreeA v h claimed k t).nodes =
      (insRefsA (decide (v = .appendOnly)) h claimed t.children).1.nodes := by
    simp only [insertTreeA]
  obtain ⟨used, hu, _, hp⟩ := ok.used
  have hpres : ∀ b, present (insertTreeA v h claimed k t) b ↔ (present h b ∨ b ∈ used) := by
    intro b
    simp only [present, hnodes]
    exact hp b
  have husub : ∀ b ∈ used, b ∈ claimed := by
    intro b hb; rw [hu]; exact List.mem_append_left _ hb
  exact {
    inv := insertTreeA_invR v h claimed k t hi hl hk c1 hfresh hcount
    supply := {
      nodup := c5
      fresh := by
        intro a ha hpa
        rcases (hpres a).mp hpa with h1 | h1
        · exact hs.fresh a (c4.subset ha) h1
        · exact c7 a (husub a h1) ha
      below := fun a ha => Nat.lt_of_lt_of_le (c6 a ha) c3
      nodesBelow := by
        intro a hpa
        rcases (hpres a).mp hpa with h1 | h1
        · exact Nat.lt_of_lt_of_le (hs.nodesBelow a h1) c3
        · exact c9 a (husub a h1) }
    freeSub := fun b hb => c4.subset hb
    nextMono := c3
    keep := by
      intro b n hpb hg
      have := ok.frame b hpb
      rw [← hnodes] at this
      rw [← this]; exact hg
    dead := by
      intro b h1 h2 h3 hpb
      rcases (hpres b).mp hpb with h4 | h4
      · exact h3 h4
      · rcases c2 b (husub b h4) with h5 | h5
        · exact h1 h5
        · simp only at h2; omega }

/-- One operation on a heap satisfying the invariant, with a sound allocator: the strict step
    does not fail (it is the step of `inOrderOp`), and `RunOk` holds. -/
theorem inOrderOp_run (v : Variant) (x : Heap K D × List Addr × Addr) (op : Op K D)
    (hi : InvR v x.1) (hs : SupplyOk x.1 x.2.1 x.2.2) (hl : op.legal x.1) :
    opE v (x.2.1, x.2.2) x.1 op = .ok (inOrderOp v x op).1 ∧ RunOk v x (inOrderOp v x op) := by
  obtain ⟨h, free, next⟩ := x
  simp only at hi hs hl
  cases op with
  | insert k t =>
    refine ⟨?_, insert_run v h free next k t hi hs hl.1 hl.2⟩
    rcases hC : claimEntries t.children.news free next with ⟨claimed, f, nx⟩
    simp only [opE, inOrderOp, hC]
  | reference k =>
    refine ⟨rfl, ?_⟩
    have hn := (referenceTree_core v h k).1
    show RunOk v (h, free, next) (okOr h (referenceTree v h k), free, next)
    apply RunOk.of_sub _ hs (fun b n hg => by rw [hn] at hg; exact hg)
    cases hr : referenceTree v h k with
    | ok h' => exact referenceTree_invR v h h' k hi hr
    | error e => exact hi
  | dereference k =>
    show opE v (free, next) h (.dereference k) = .ok (okOr h (dereferenceTree v h k)) ∧
      RunOk v (h, free, next) (okOr h (dereferenceTree v h k), free, next)
    by_cases hv : v = .appendOnly
    · simp only [opE, dereferenceTree, hv, if_true, okOr, true_and]
      exact RunOk.refl (x := (h, free, next)) (hv ▸ hi) hs
    · cases hg : h.roots.get k with
      | none =>
        simp only [opE, dereferenceTree, hv, if_false, hg, okOr, true_and]
        exact RunOk.refl (x := (h, free, next)) hi hs
      | some e =>
        obtain ⟨r, c⟩ := e
        obtain ⟨h', e', hi', _, hsub, _⟩ := dereferenceTree_okR v h k hv hi r c hg
        have e2 : derefProcess v h k r.children = .ok h' := by
          simpa only [dereferenceTree, hv, if_false, hg] using e'
        simp only [opE, hv, if_false, hg, e2, e', okOr, true_and]
        exact RunOk.of_sub hi' hs hsub

/-! ## a list of operations -/

/-- The operations of a transaction executed in order on a heap satisfying the invariant: no
    walk fails, and `RunOk` holds from the start to the end. -/
theorem inOrderE_run (v : Variant) : ∀ (ops : List (Op K D)) (x : Heap K D × List Addr × Addr),
    InvR v x.1 → SupplyOk x.1 x.2.1 x.2.2 → LegalInOrder v x ops →
    inOrderE v (x.2.1, x.2.2) x.1 ops = .ok (ops.foldl (inOrderOp v) x).1 ∧
      RunOk v x (ops.foldl (inOrderOp v) x) := by
  intro ops
  induction ops with
  | nil => intro x hi hs _; exact ⟨rfl, RunOk.refl hi hs⟩
  | cons op ops ih =>
    intro x hi hs hl
    obtain ⟨e1, r1⟩ := inOrderOp_run v x op hi hs hl.1
    obtain ⟨e2, r2⟩ := ih (inOrderOp v x op) r1.inv r1.supply hl.2
    have ha := opE_ok v (x.2.1, x.2.2) x.1 _ op e1
    have hx : inOrderOp v x op = inOrderOp v (x.1, x.2.1, x.2.2) op := rfl
    have ha2 : allocStep (x.2.1, x.2.2) op = ((inOrderOp v x op).2.1, (inOrderOp v x op).2.2) := by
      rw [hx, ha]
    refine ⟨?_, r1.trans hs r2⟩
    simp only [inOrderE, e1, List.foldl_cons, ha2]
    exact e2

/-- TASK 2: a legal transaction executed in order preserves the invariant and keeps the
    allocator state sound. -/
theorem inOrderTx_invR (v : Variant) (H : Heap K D) (free : List Addr) (next : Addr)
    (ops : List (Op K D)) (hi : InvR v H) (hs : SupplyOk H free next)
    (hl : LegalInOrder v (H, free, next) ops) :
    InvR v (inOrderTx v H free next ops) ∧
    SupplyOk (inOrderTx v H free next ops) (ops.foldl (inOrderOp v) (H, free, next)).2.1
      (ops.foldl (inOrderOp v) (H, free, next)).2.2 := by
  obtain ⟨_, r⟩ := inOrderE_run v ops (H, free, next) hi hs hl
  exact ⟨r.inv, r.supply⟩

theorem inOrderE_ok_of_inv (v : Variant) (H : Heap K D) (free : List Addr) (next : Addr)
    (ops : List (Op K D)) (hi : InvR v H) (hs : SupplyOk H free next)
    (hl : LegalInOrder v (H, free, next) ops) :
    inOrderE v (free, next) H ops = .ok (inOrderTx v H free next ops) :=
  (inOrderE_run v ops (H, free, next) hi hs hl).1

/-! ## the planning order -/

/-- A legal accepted transaction never fails when it is processed (`write_plan`): no
    dereference walk runs out of fuel or meets a missing node. -/
theorem applyTx_ok_of_inv (v : Variant) (H : Heap K D) (free : List Addr) (next : Addr)
    (ops : List (Op K D)) (hi : InvR v H) (hs : SupplyOk H free next) (hda : DerefApart ops)
    (hl : LegalInOrder v (H, free, next) ops) (hval : validateOps v (viewOf H) ops = .ok) :
    ∃ r, applyChangeSet v (H, []) (specCs v H free next ops) = .ok r :=
  applyTx_ok_of_inOrderE v H free next ops hval hda _ (inOrderE_ok_of_inv v H free next ops hi hs hl)

theorem InvR.rootsWF {v : Variant} {h : Heap K D} (hi : InvR v h) : h.roots.WF := by
  obtain ⟨rank, hs⟩ := hi.shape
  exact hs.core.wfRoots

/-- E5 on heaps satisfying the invariant: planning order = order given, up to the order of the
    root list. -/
theorem specTx_eqv_inOrder_of_inv (v : Variant) (H : Heap K D) (free : List Addr) (next : Addr)
    (ops : List (Op K D)) (hi : InvR v H) (hs : SupplyOk H free next) (hda : DerefApart ops)
    (hl : LegalInOrder v (H, free, next) ops) (hval : validateOps v (viewOf H) ops = .ok) :
    HeapEqv (specTx v H free next ops) (inOrderTx v H free next ops) :=
  specTx_eqv_inOrder v H free next ops hi.rootsWF hval hda
    (applyTx_ok_of_inv v H free next ops hi hs hda hl hval)

/-- TASK 2: the atomic transaction in planning order preserves the invariant. -/
theorem specTx_invR (v : Variant) (H : Heap K D) (free : List Addr) (next : Addr)
    (ops : List (Op K D)) (hi : InvR v H) (hs : SupplyOk H free next) (hda : DerefApart ops)
    (hl : LegalInOrder v (H, free, next) ops) : InvR v (specTx v H free next ops) := by
  by_cases hval : validateOps v (viewOf H) ops = .ok
  · have e := specTx_eqv_inOrder_of_inv v H free next ops hi hs hda hl hval
    exact InvR.congr v _ _ e.symm (inOrderTx_invR v H free next ops hi hs hl).1
  · rw [specTx_rejected v H free next ops hval]; exact hi

/-- ... and leaves the allocator state reached by the claims of the transaction sound (the
    slots freed by the transaction are not on this stack: `inOrderOp` does not push them). -/
theorem specTx_supplyOk (v : Variant) (H : Heap K D) (free : List Addr) (next : Addr)
    (ops : List (Op K D)) (hi : InvR v H) (hs : SupplyOk H free next) (hda : DerefApart ops)
    (hl : LegalInOrder v (H, free, next) ops) (hval : validateOps v (viewOf H) ops = .ok) :
    SupplyOk (specTx v H free next ops) (ops.foldl (inOrderOp v) (H, free, next)).2.1
      (ops.foldl (inOrderOp v) (H, free, next)).2.2 := by
  have e := specTx_eqv_inOrder_of_inv v H free next ops hi hs hda hl hval
  exact (inOrderTx_invR v H free next ops hi hs hl).2.mono (fun a ha => (e.present a).mp ha)

/-! ## frames -/

theorem applyNodeH_get (v : Variant) (h h2 : Heap K D) (c : NodeChange K D)
    (he : applyNodeH v h c = .ok h2) (k : K) (hk : ∀ k', derefKey c = some k' → k' ≠ k) :
    h2.roots.get k = h.roots.get k := by
  cases c with
  | newValue a n => simp only [applyNodeH, Except.ok.injEq] at he; subst he; rfl
  | incRef a => simp only [applyNodeH, Except.ok.injEq] at he; subst he; rfl
  | derefChildren k' cs =>
    exact derefProcess_get v h h2 k' cs he k (fun e => hk k' rfl e.symm)

theorem foldlM_applyNodeH_get (v : Variant) (N : List (NodeChange K D)) (k : K)
    (hk : ∀ c ∈ N, ∀ k', derefKey c = some k' → k' ≠ k) :
    ∀ (h h2 : Heap K D), N.foldlM (applyNodeH v) h = .ok h2 → h2.roots.get k = h.roots.get k := by
  induction N with
  | nil =>
    intro h h2 he
    simp only [List.foldlM_nil, pure, Except.pure, Except.ok.injEq] at he
    subst he; rfl
  | cons c N ih =>
    intro h h2 he
    simp only [List.foldlM_cons] at he
    cases hc : applyNodeH v h c with
    | error x => rw [hc] at he; cases he
    | ok h1 =>
      rw [hc] at he
      rw [ih (fun c' hc' => hk c' (List.mem_cons_of_mem _ hc')) h1 h2 he]
      exact applyNodeH_get v h h1 c hc k (hk c (by simp))

theorem planTx_derefKey (v : Variant) (view : K → Option (Node D)) :
    ∀ (ops : List (Op K D)) (free : List Addr) (next : Addr) (c : NodeChange K D),
      c ∈ (planTx v view free next ops).2 → ∀ k, derefKey c = some k → ∃ op ∈ ops, op.key = k := by
  intro ops
  induction ops with
  | nil => intro free next c hc; simp [planTx] at hc
  | cons op ops ih =>
    intro free next c hc k hk
    simp only [planTx, List.mem_append] at hc
    rcases hc with hc | hc
    · exact ⟨op, by simp, (planOp_derefKey v view free next op c hc k hk).2⟩
    · obtain ⟨op', hm, h'⟩ := ih _ _ c hc k hk
      exact ⟨op', List.mem_cons_of_mem _ hm, h'⟩

/-- A transaction does not touch the root keys it does not name (no hypothesis on the heap). -/
theorem specTx_frame_roots (v : Variant) (H : Heap K D) (free : List Addr) (next : Addr)
    (ops : List (Op K D)) (k : K) (hk : ∀ op ∈ ops, op.key ≠ k) :
    (specTx v H free next ops).roots.get k = H.roots.get k := by
  by_cases hval : validateOps v (viewOf H) ops = .ok
  · cases ha : applyChangeSet v (H, []) (specCs v H free next ops) with
    | error e => simp only [specTx, hval, ha, Except.map, okOr]
    | ok r =>
      rw [specTx_accepted v H free next ops hval r ha]
      have h1 := eqv_applyChangeSet_fst v (H, []) (specCs v H free next ops)
      rw [ha, specCs_plan v H free next ops hval] at h1
      -- neither the early nor the postponed root changes name `k` (sublists of the planned ones)
      have hroot : ∀ (R : List (RootChange K D)), (∀ c ∈ R, c ∈ (planTx v (viewOf H) free next ops).1) →
          ∀ (g : Heap K D), (R.foldl (applyRootChange v) g).roots.get k = g.roots.get k := by
        intro R hR g
        obtain ⟨φ, hφ, hid⟩ := foldl_rootOnly v R
        rw [hφ.get]
        apply hid
        intro hm
        obtain ⟨c, hc, hck⟩ := List.mem_map.mp hm
        obtain ⟨op, hm', _, hop⟩ := planTx_rootKey v (viewOf H) ops free next k
          (List.mem_map.mpr ⟨c, hR c hc, hck⟩)
        exact hk op hm' hop
      cases hn : (planTx v (viewOf H) free next ops).2.foldlM (applyNodeH v)
          ((ChangeSet.early ⟨(planTx v (viewOf H) free next ops).1,
            (planTx v (viewOf H) free next ops).2⟩).changes.foldl (applyRootChange v) H) with
      | error x => rw [show (ChangeSet.mk (planTx v (viewOf H) free next ops).1
            (planTx v (viewOf H) free next ops).2).nodeChanges =
            (planTx v (viewOf H) free next ops).2 from rfl, hn] at h1; cases h1
      | ok g =>
        rw [show (ChangeSet.mk (planTx v (viewOf H) free next ops).1
            (planTx v (viewOf H) free next ops).2).nodeChanges =
            (planTx v (viewOf H) free next ops).2 from rfl, hn] at h1
        simp only [Except.map, Except.ok.injEq] at h1
        rw [h1]
        refine (hroot (ChangeSet.late _) (fun c hc => (List.mem_filter.mp hc).1) g).trans ?_
        have h2 := foldlM_applyNodeH_get v (planTx v (viewOf H) free next ops).2 k
          (fun c hc k' hk' e => by
            obtain ⟨op, hm, hop⟩ := planTx_derefKey v (viewOf H) ops free next c hc k' hk'
            exact hk op hm (hop.trans e)) _ g hn
        rw [h2]
        exact hroot (ChangeSet.early _).changes (fun c hc => (List.mem_filter.mp hc).1) H
  · rw [specTx_rejected v H free next ops hval]

/-- Nodes are written once: a node that is present before a legal transaction and present after
    it is unchanged; and a slot that was neither free nor occupied before is not occupied after
    (no reuse of the slots the transaction frees). -/
theorem specTx_frame_nodes (v : Variant) (H : Heap K D) (free : List Addr) (next : Addr)
    (ops : List (Op K D)) (hi : InvR v H) (hs : SupplyOk H free next) (hda : DerefApart ops)
    (hl : LegalInOrder v (H, free, next) ops) :
    (∀ b n, present H b → (specTx v H free next ops).nodes.get b = some n →
      H.nodes.get b = some n) ∧
    (∀ b, b ∉ free → b < next → ¬ present H b → ¬ present (specTx v H free next ops) b) := by
  by_cases hval : validateOps v (viewOf H) ops = .ok
  · have e := specTx_eqv_inOrder_of_inv v H free next ops hi hs hda hl hval
    obtain ⟨_, r⟩ := inOrderE_run v ops (H, free, next) hi hs hl
    constructor
    · intro b n hp hg
      rw [e.nodes] at hg
      exact r.keep b n hp hg
    · intro b h1 h2 h3 hp
      exact r.dead b h1 h2 h3 ((e.present b).mp hp)
  · rw [specTx_rejected v H free next ops hval]
    exact ⟨fun _ _ _ hg => hg, fun _ _ _ h3 => h3⟩

end Pdb.MultiTree

/-! ## non-vacuity: a concrete transaction satisfying every hypothesis -/

namespace Pdb.MultiTree.TxEx
open Pdb.MultiTree

/-- root 10 -> [leaf 11, leaf 12] -/
def t0 : NewNode Nat := ⟨10, .cons (.new 11 .nil) (.cons (.new 12 .nil) .nil)⟩
/-- the heap after `InsertTree 0 t0; ReferenceTree 0` on a ref-counted column: nodes 0, 1; root 0
    with count 2; allocator: empty stack, fill mark 2 -/
def H : Heap Nat Nat := inOrderTx .rcRoots Heap.empty [] 0 [.insert 0 t0, .reference 0]
/-- a second tree sharing node 0, one more reference and three dereferences of root 0: the root
    goes away, node 1 is freed, node 0 survives (still referenced by root 1) -/
def ops : List (Op Nat Nat) :=
  [.reference 0, .insert 1 ⟨20, .cons (.existing 0) .nil⟩, .dereference 0, .dereference 0,
    .dereference 0]
/-- planning order and order given differ in the order of the root list -/
def ops2 : List (Op Nat Nat) := [.dereference 0, .insert 1 ⟨20, .cons (.existing 0) .nil⟩]

theorem H_ok : InvR .rcRoots H ∧ SupplyOk H [] 2 := by
  have hl : LegalInOrder .rcRoots ((Heap.empty : Heap Nat Nat), [], 0)
      [.insert 0 t0, .reference 0] := by
    simp [LegalInOrder, Op.legal, t0, NRefs.live, NRef.live, Heap.empty]
  exact inOrderTx_invR .rcRoots (Heap.empty : Heap Nat Nat) [] 0 [.insert 0 t0, .reference 0]
    (InvR.empty _) ⟨List.nodup_nil, by simp, by simp, by simp [present, Heap.empty]⟩ hl

theorem ops_legal : DerefApart ops ∧ LegalInOrder .rcRoots (H, [], 2) ops ∧
    validateOps .rcRoots (viewOf H) ops = .ok := by
  refine ⟨?_, ?_, by decide⟩
  · simp [ops, DerefApart, Op.isDeref, Op.isInsert, Op.isRef, Op.key]
  · simp only [ops, LegalInOrder, Op.legal, NRefs.live, NRef.live, present, and_true, true_and]
    decide

theorem ops2_legal : DerefApart ops2 ∧ LegalInOrder .rcRoots (H, [], 2) ops2 ∧
    validateOps .rcRoots (viewOf H) ops2 = .ok := by
  refine ⟨?_, ?_, by decide⟩
  · simp [ops2, DerefApart, Op.isDeref, Op.isInsert, Op.isRef, Op.key]
  · simp only [ops2, LegalInOrder, Op.legal, NRefs.live, NRef.live, present, and_true, true_and]
    decide

example : HeapEqv (specTx .rcRoots H [] 2 ops) (inOrderTx .rcRoots H [] 2 ops) ∧
    InvR .rcRoots (specTx .rcRoots H [] 2 ops) :=
  ⟨specTx_eqv_inOrder_of_inv _ _ _ _ _ H_ok.1 H_ok.2 ops_legal.1 ops_legal.2.1 ops_legal.2.2,
   specTx_invR _ _ _ _ _ H_ok.1 H_ok.2 ops_legal.1 ops_legal.2.1⟩

/-- the transaction did something: root 0 is gone, root 1 is there, node 1 was freed -/
example : ((specTx .rcRoots H [] 2 ops).roots.l.map Prod.fst,
    (specTx .rcRoots H [] 2 ops).nodes.l.map Prod.fst) = ([1], [0]) := by decide

example : HeapEqv (specTx .rcRoots H [] 2 ops2) (inOrderTx .rcRoots H [] 2 ops2) :=
  specTx_eqv_inOrder_of_inv _ _ _ _ _ H_ok.1 H_ok.2 ops2_legal.1 ops2_legal.2.1 ops2_legal.2.2

/-- ... and here the two root lists really are in different orders: `HeapEqv` cannot be replaced
    by equality -/
example : (specTx .rcRoots H [] 2 ops2).roots.l.map Prod.fst = [0, 1] ∧
    (inOrderTx .rcRoots H [] 2 ops2).roots.l.map Prod.fst = [1, 0] := by decide

end Pdb.MultiTree.TxEx
