/-
C10, transactions and address reuse.  Part 3: validation / assembly against two views, the keys a
legal transaction sets, and what is readable while commits are queued.

  sim_validateOps_congr / sim_asmOps_congr / sim_asmOps_strip / sim_asmOps_ok
        validation and assembly consult the root view only at the keys of the DereferenceTrees;
        the change set does not depend on the `to_dereference` counters; after validation the
        assembly cannot fail (B5)
  sim_legal_keys     the InsertTree keys of a legal transaction are absent before the call and
                     pairwise distinct
  CsOk / QueueOkT    well-formedness of queued change sets w.r.t. the heap they will meet
  drainT             what process_commits will do with the queue (a failing commit is skipped)
  drain_root_viewT / drain_node_viewT   every root / node of the drained heap is shown by the
                     commit overlay over the tables
-/
import Pdb.Proofs.C10TxSim2

namespace Pdb.MultiTree
set_option linter.unusedSectionVars false
variable {K D : Type} [DecidableEq K]

/-! ### validation and assembly only look at the dereferenced keys -/

theorem sim_validateOps_congr (v : Variant) (view1 view2 : K → Option (Node D))
    (ops : List (Op K D))
    (h : ∀ op ∈ ops, op.isDeref = true → view1 op.key = view2 op.key) :
    validateOps v view1 ops = validateOps v view2 ops := by
  induction ops with
  | nil => rfl
  | cons op ops ih =>
    have hk : op.kind view1 = op.kind view2 := by
      cases op with
      | insert k t => rfl
      | reference k => rfl
      | dereference k =>
        have := h (.dereference k) List.mem_cons_self rfl
        simp only [Op.key] at this
        simp only [Op.kind, this]
    simp only [validateOps, hk, ih (fun op' ho => h op' (List.mem_cons_of_mem _ ho))]

theorem sim_asmOp_congr (v : Variant) (view1 view2 : K → Option (Node D)) (acc : Asm K D)
    (op : Op K D) (h : op.isDeref = true → view1 op.key = view2 op.key) :
    asmOp v view1 acc op = asmOp v view2 acc op := by
  cases op with
  | insert k t => rfl
  | reference k => rfl
  | dereference k =>
    have := h rfl
    simp only [Op.key] at this
    simp only [asmOp, this]

theorem sim_asmOps_congr (v : Variant) (view1 view2 : K → Option (Node D))
    (ops : List (Op K D)) (h : ∀ op ∈ ops, op.isDeref = true → view1 op.key = view2 op.key) :
    ∀ acc : Asm K D, asmOps v view1 acc ops = asmOps v view2 acc ops := by
  induction ops with
  | nil => intro acc; rfl
  | cons op ops ih =>
    intro acc
    simp only [asmOps, sim_asmOp_congr v view1 view2 acc op (h op List.mem_cons_self)]
    cases asmOp v view2 acc op with
    | error e => rfl
    | ok acc' => exact ih (fun op' ho => h op' (List.mem_cons_of_mem _ ho)) acc'

/-- an assembly state without the `to_dereference` counters -/
def Asm.strip (a : Asm K D) : Asm K D := ⟨a.free, a.next, .empty, a.cs⟩

theorem sim_asmOp_strip (v : Variant) (view : K → Option (Node D)) (acc acc' : Asm K D)
    (op : Op K D) (e : acc.strip = acc'.strip) :
    (asmOp v view acc op).map Asm.strip = (asmOp v view acc' op).map Asm.strip := by
  obtain ⟨f, n, td, cs⟩ := acc
  obtain ⟨f', n', td', cs'⟩ := acc'
  simp only [Asm.strip, Asm.mk.injEq, true_and] at e
  obtain ⟨e1, e2, e3⟩ := e
  subst e1 e2 e3
  cases op with
  | insert k t => rfl
  | reference k =>
    simp only [asmOp]
    split <;> rfl
  | dereference k =>
    simp only [asmOp]
    split
    · rfl
    · cases view k <;> rfl

theorem sim_asmOps_strip (v : Variant) (view : K → Option (Node D)) (ops : List (Op K D)) :
    ∀ (acc acc' : Asm K D), acc.strip = acc'.strip →
      (asmOps v view acc ops).1.strip = (asmOps v view acc' ops).1.strip ∧
      (asmOps v view acc ops).2 = (asmOps v view acc' ops).2 := by
  induction ops with
  | nil => intro acc acc' e; exact ⟨e, rfl⟩
  | cons op ops ih =>
    intro acc acc' e
    have hs := sim_asmOp_strip v view acc acc' op e
    simp only [asmOps]
    cases h1 : asmOp v view acc op with
    | error e1 =>
      cases h2 : asmOp v view acc' op with
      | error e2 =>
        rw [h1, h2] at hs
        simp only [Except.map, Except.error.injEq] at hs
        exact ⟨e, by rw [hs]⟩
      | ok a2 => rw [h1, h2] at hs; simp [Except.map] at hs
    | ok a1 =>
      cases h2 : asmOp v view acc' op with
      | error e2 => rw [h1, h2] at hs; simp [Except.map] at hs
      | ok a2 =>
        rw [h1, h2] at hs
        simp only [Except.map, Except.ok.injEq] at hs
        exact ih a1 a2 hs

/-- B5: after validation the assembly cannot fail -/
theorem sim_asmOps_ok (v : Variant) (view : K → Option (Node D)) (ops : List (Op K D)) :
    ∀ (acc : Asm K D), validateOps v view ops = .ok → (asmOps v view acc ops).2 = .ok () := by
  induction ops with
  | nil => intro acc _; rfl
  | cons op ops ih =>
    intro acc hv
    simp only [validateOps] at hv
    cases hvc : Validate.validateChange v.opts (op.kind view) with
    | invalidInput => rw [hvc] at hv; cases hv
    | invalidConfiguration => rw [hvc] at hv; cases hv
    | ok =>
      rw [hvc] at hv
      simp only at hv
      have hop : ∃ acc', asmOp v view acc op = .ok acc' := by
        cases op with
        | insert k t =>
          simp only [asmOp]
          exact ⟨_, rfl⟩
        | reference k =>
          simp only [asmOp]
          split <;> exact ⟨_, rfl⟩
        | dereference k =>
          simp only [Op.kind] at hvc
          have hne : v ≠ .appendOnly := by
            intro hva; subst hva
            simp [Validate.validateChange, Variant.opts] at hvc
          cases hvk : view k with
          | none =>
            rw [hvk] at hvc
            cases v <;> simp [Validate.validateChange, Variant.opts] at hvc
          | some r =>
            simp only [asmOp, hne, if_false, hvk]
            exact ⟨_, rfl⟩
      obtain ⟨acc', ha⟩ := hop
      simp only [asmOps, ha]
      exact ih acc' hv

/-! ### roots under the operations -/

theorem sim_roots_none_iff (h : Heap K D) (k : K) : h.roots.get k = none ↔ viewOf h k = none := by
  simp [viewOf]

theorem sim_derefProcess_roots (v : Variant) (h h' : Heap K D) (k : K) (cs : List Addr)
    (e : derefProcess v h k cs = .ok h') (k' : K) :
    (k' ≠ k → h'.roots.get k' = h.roots.get k') ∧
    (∀ r, viewOf h' k' = some r → viewOf h k' = some r) := by
  simp only [derefProcess] at e
  cases hr : h.roots.get k with
  | none =>
    simp only [hr, Except.ok.injEq] at e
    subst e
    exact ⟨fun _ => rfl, fun _ hg => hg⟩
  | some x =>
    obtain ⟨r0, c0⟩ := x
    simp only [hr] at e
    split at e
    · simp only [Except.ok.injEq] at e
      subst e
      refine ⟨fun hk => by simp [FMap.get_set, hk], ?_⟩
      intro r hg
      simp only [viewOf, FMap.get_set] at hg ⊢
      by_cases hk : k' = k
      · subst hk
        simp only [if_true, Option.map_some, Option.some.injEq] at hg
        simp [hr, hg]
      · simpa [hk] using hg
    · have hrn := (derefChildren_roots_next _ cs _ h' e).1
      refine ⟨fun hk => by rw [hrn]; simp [FMap.get_set, hk], ?_⟩
      intro r hg
      simp only [viewOf, hrn, FMap.get_set] at hg ⊢
      by_cases hk : k' = k
      · simp [hk] at hg
      · simpa [hk] using hg

mutual
  theorem sim_insRefA_roots (ap : Bool) : ∀ (r : NRef D) (h : Heap K D) (fresh : List Addr),
      (insRefA ap h fresh r).1.roots = h.roots
    | .existing a, h, fresh => by cases ap <;> rfl
    | .new d cs, h, fresh => by
      have ih := sim_insRefsA_roots ap cs h fresh
      rcases hR : insRefsA ap h fresh cs with ⟨h1, f1, as⟩
      simp only [hR] at ih
      simp only [insRefA, hR]
      exact ih
  theorem sim_insRefsA_roots (ap : Bool) : ∀ (rs : NRefs D) (h : Heap K D) (fresh : List Addr),
      (insRefsA ap h fresh rs).1.roots = h.roots
    | .nil, h, fresh => rfl
    | .cons r rs, h, fresh => by
      have ih1 := sim_insRefA_roots ap r h fresh
      rcases hR1 : insRefA ap h fresh r with ⟨h1, f1, a⟩
      simp only [hR1] at ih1
      have ih2 := sim_insRefsA_roots ap rs h1 f1
      rcases hR2 : insRefsA ap h1 f1 rs with ⟨h2, f2, as⟩
      simp only [hR2] at ih2
      simp only [insRefsA, hR1, hR2]
      rw [ih2, ih1]
end

theorem sim_insertTreeA_roots (v : Variant) (h : Heap K D) (fresh : List Addr) (k : K)
    (t : NewNode D) (k' : K) :
    ((insertTreeA v h fresh k t).roots.get k = none → False) ∧
    (k' ≠ k → (insertTreeA v h fresh k t).roots.get k' = h.roots.get k') := by
  have hr := sim_insRefsA_roots (decide (v = .appendOnly)) t.children h fresh
  rcases hR : insRefsA (decide (v = .appendOnly)) h fresh t.children with ⟨h1, f1, as⟩
  simp only [hR] at hr
  simp only [insertTreeA, hR]
  refine ⟨by simp [FMap.get_set], ?_⟩
  intro hk
  simp [FMap.get_set, hk, hr]

/-- The InsertTree keys of a legal transaction WITHOUT an InsertTree k after a DereferenceTree k
    (`DerefApartF41`, the hypothesis of the unfixed planning order) have no root before the call and
    are pairwise distinct.  (No longer used by the simulation: with the fixed planning order a
    replaced key does have a root before the call, `CsOk.rootView` below.) -/
theorem sim_legal_keys (v : Variant) (ops : List (Op K D)) :
    ∀ (x : Heap K D × List Addr × Addr), DerefApartF41 ops → LegalInOrder v x ops →
      (∀ k ∈ ops.filterMap simInsKey, x.1.roots.get k = none) ∧ (ops.filterMap simInsKey).Nodup := by
  induction ops with
  | nil => intro x _ _; exact ⟨(by intro k hk; cases hk), List.nodup_nil⟩
  | cons op ops ih =>
    intro x hda hl
    obtain ⟨hd1, _, hd3⟩ := hda
    obtain ⟨hleg, hl2⟩ := hl
    obtain ⟨ih1, ih2⟩ := ih _ hd3 hl2
    cases op with
    | insert k t =>
      simp only [List.filterMap_cons, simInsKey]
      simp only [Op.legal] at hleg
      have hx : ∀ k', ((inOrderOp v x (.insert k t)).1.roots.get k = none → False) ∧
          (k' ≠ k → (inOrderOp v x (.insert k t)).1.roots.get k' = x.1.roots.get k') := by
        intro k'
        simp only [inOrderOp]
        exact sim_insertTreeA_roots v x.1 _ k t k'
      have hnot : k ∉ ops.filterMap simInsKey := fun hm => (hx k).1 (ih1 k hm)
      refine ⟨?_, List.nodup_cons.mpr ⟨hnot, ih2⟩⟩
      intro k' hk'
      rcases List.mem_cons.mp hk' with h1 | h1
      · rw [h1]; exact hleg.1
      · have hne : k' ≠ k := fun e => hnot (e ▸ h1)
        rw [← (hx k').2 hne]
        exact ih1 k' h1
    | reference k =>
      simp only [List.filterMap_cons, simInsKey]
      refine ⟨?_, ih2⟩
      intro k' hk'
      have := ih1 k' hk'
      simp only [inOrderOp] at this
      rw [sim_roots_none_iff, (sim_referenceTree_okOr v x.1 k).2.2.2 k'] at this
      exact (sim_roots_none_iff x.1 k').mpr this
    | dereference k =>
      simp only [List.filterMap_cons, simInsKey]
      refine ⟨?_, ih2⟩
      intro k' hk'
      have hne : k' ≠ k := by
        obtain ⟨op', ho, hko⟩ := List.mem_filterMap.mp hk'
        cases op' with
        | insert k2 t2 =>
          simp only [simInsKey, Option.some.injEq] at hko
          subst hko
          exact hd1 rfl _ ho rfl
        | reference k2 => cases hko
        | dereference k2 => cases hko
      have := ih1 k' hk'
      simp only [inOrderOp] at this
      cases hdt : dereferenceTree v x.1 k with
      | error e => simpa [hdt, okOr] using this
      | ok h' =>
        simp only [hdt, okOr] at this
        simp only [dereferenceTree] at hdt
        split at hdt
        · cases hdt
        · split at hdt
          · cases hdt
          · rw [← (sim_derefProcess_roots v x.1 h' k _ hdt k').1 hne]
            exact this

/-! ### the overlay of one change set -/

theorem sim_findSome_rev_cons {α β : Type} (f : α → Option β) (c : α) (l : List α) :
    (c :: l).reverse.findSome? f = (l.reverse.findSome? f).or (f c) := by
  simp only [List.reverse_cons, List.findSome?_append, List.findSome?_cons, List.findSome?_nil]
  cases f c <;> simp

theorem sim_rootHit_mem (k : K) (l : List (RootChange K D)) (r : Node D)
    (h : l.reverse.findSome? (rootHit k) = some r) : k ∈ l.filterMap simSetKey := by
  obtain ⟨c, hc, hcr⟩ := List.exists_of_findSome?_eq_some h
  refine List.mem_filterMap.mpr ⟨c, List.mem_reverse.mp hc, ?_⟩
  cases c with
  | set k' r' =>
    simp only [rootHit] at hcr
    split at hcr
    · rename_i hk; simp [simSetKey, hk]
    · cases hcr
  | reference k' => cases hcr

theorem sim_nodeHit_mem (a : Addr) (l : List (NodeChange K D)) (n : Node D)
    (h : l.reverse.findSome? (nodeHit a) = some n) : a ∈ claimedL l := by
  obtain ⟨c, hc, hcr⟩ := List.exists_of_findSome?_eq_some h
  simp only [claimedL, csClaimed]
  refine List.mem_filterMap.mpr ⟨c, List.mem_reverse.mp hc, ?_⟩
  cases c with
  | newValue a' n' =>
    simp only [nodeHit] at hcr
    split at hcr
    · rename_i hk; simp [hk]
    · cases hcr
  | incRef a' => cases hcr
  | derefChildren k cs => cases hcr

/-- the roots after the root changes of a commit whose `Set` keys are fresh and distinct -/
theorem sim_rootFold_view (v : Variant) (l : List (RootChange K D)) :
    ∀ (h : Heap K D), (∀ k ∈ l.filterMap simSetKey, h.roots.get k = none) →
      (l.filterMap simSetKey).Nodup → ∀ k,
      viewOf (l.foldl (applyRootChange v) h) k =
        (l.reverse.findSome? (rootHit k)).or (viewOf h k) := by
  induction l with
  | nil => intro h _ _ k; simp
  | cons c l ih =>
    intro h hf hn k
    rw [List.foldl_cons, sim_findSome_rev_cons]
    cases c with
    | set k0 r0 =>
      simp only [List.filterMap_cons, simSetKey] at hf hn
      have hk0 : h.roots.get k0 = none := hf k0 List.mem_cons_self
      obtain ⟨hn1, hn2⟩ := List.nodup_cons.mp hn
      have hget : ∀ k', (applyRootChange v h (.set k0 r0)).roots.get k' =
          if k' = k0 then some (r0, 1) else h.roots.get k' := by
        intro k'
        simp only [applyRootChange, FMap.get_set, hk0]
        cases v <;> rfl
      rw [ih (applyRootChange v h (.set k0 r0)) ?_ hn2 k]
      · simp only [viewOf, hget, rootHit]
        by_cases hk : k = k0
        · subst hk
          simp only [if_true, Option.map_some, hk0, Option.map_none]
          cases List.findSome? (rootHit k) l.reverse <;> simp
        · have hk' : ¬ k0 = k := fun e => hk e.symm
          simp only [hk, hk', if_false]
          cases List.findSome? (rootHit k) l.reverse <;> simp
      · intro k' hk'
        have hne : k' ≠ k0 := fun e => hn1 (e ▸ hk')
        rw [hget, if_neg hne]
        exact hf k' (List.mem_cons_of_mem _ hk')
    | reference k0 =>
      simp only [List.filterMap_cons, simSetKey] at hf hn
      have hv := (sim_referenceTree_okOr v h k0).2.2.2
      rw [ih (applyRootChange v h (.reference k0)) ?_ hn k]
      · simp only [applyRootChange, hv, rootHit]
        cases List.findSome? (rootHit k) l.reverse <;> simp
      · intro k' hk'
        simp only [applyRootChange]
        rw [sim_roots_none_iff, hv k']
        exact (sim_roots_none_iff h k').mp (hf k' hk')

theorem sim_applyNodeH_view (v : Variant) (h h' : Heap K D) (c : NodeChange K D)
    (e : simNodeH v h c = .ok h') (k : K) (r : Node D) (hg : viewOf h' k = some r) :
    viewOf h k = some r := by
  cases c with
  | newValue a n => simp only [simNodeH, Except.ok.injEq] at e; subst e; exact hg
  | incRef a => simp only [simNodeH, Except.ok.injEq] at e; subst e; exact hg
  | derefChildren k0 cs => exact (sim_derefProcess_roots v h h' k0 cs e k).2 r hg

theorem sim_applyNodeH_nodes (v : Variant) (h h' : Heap K D) (c : NodeChange K D)
    (e : simNodeH v h c = .ok h') (a : Addr) (n : Node D) (hg : h'.nodes.get a = some n) :
    (nodeHit a c).or (h.nodes.get a) = some n := by
  cases c with
  | newValue a' n' =>
    simp only [simNodeH, Except.ok.injEq] at e
    subst e
    simp only [FMap.get_set] at hg
    simp only [nodeHit]
    by_cases ha : a = a'
    · subst ha; simpa using hg
    · have ha' : ¬ a' = a := fun e => ha e.symm
      simpa [ha, ha'] using hg
  | incRef a' =>
    simp only [simNodeH, Except.ok.injEq] at e
    subst e
    simpa [nodeHit, incRef] using hg
  | derefChildren k cs =>
    simp only [nodeHit, Option.none_or]
    exact derefProcess_sub v h h' k cs e a n hg

theorem sim_nodeFold_nodes (v : Variant) (l : List (NodeChange K D)) :
    ∀ (h h' : Heap K D), l.foldlM (simNodeH v) h = .ok h' → ∀ (a : Addr) (n : Node D),
      h'.nodes.get a = some n → (l.reverse.findSome? (nodeHit a)).or (h.nodes.get a) = some n := by
  induction l with
  | nil =>
    intro h h' e a n hg
    simp only [List.foldlM_nil, pure, Except.pure, Except.ok.injEq] at e
    subst e; simpa using hg
  | cons c l ih =>
    intro h h' e a n hg
    simp only [List.foldlM_cons] at e
    cases hc : simNodeH v h c with
    | error er => rw [hc] at e; cases e
    | ok h1 =>
      rw [hc] at e
      have := ih h1 h' e a n hg
      rw [sim_findSome_rev_cons]
      cases ho : List.findSome? (nodeHit a) l.reverse with
      | some x => simpa [ho] using this
      | none =>
        simp only [ho, Option.none_or] at this ⊢
        exact sim_applyNodeH_nodes v h h1 c hc a n this

/-! ### well-formed queued commits -/

/-- one step of the drain: a commit whose processing fails is skipped -/
def drainStep (v : Variant) (h : Heap K D) (cs : ChangeSet K D) : Heap K D :=
  okOr h ((applyChangeSet v (h, []) cs).map Prod.fst)

theorem drainStep_eq (v : Variant) (h : Heap K D) (cs : ChangeSet K D) :
    drainStep v h cs = okOr h (simCsH v h cs) := by
  simp only [drainStep, sim_applyChangeSet_fst]

/-- what a queued commit needs of the heap it will be processed on: a root found under a key after
    the commit is processed is the root the commit shows for that key in the commit overlay (its
    last `Set` of the key), or, if it shows none, the root that was there before; its claimed slots
    hold no node.  (For a legal transaction: Pdb/Proofs/C10TxRoot.lean, `specTx_root_view`.  The
    keys a commit sets need not be free when it is queued: `[DereferenceTree k, InsertTree k t']`
    replaces the tree under a live key.) -/
structure CsOk (v : Variant) (h : Heap K D) (cs : ChangeSet K D) : Prop where
  rootView : ∀ k r, viewOf (drainStep v h cs) k = some r → (csRoot k cs).or (viewOf h k) = some r
  claimed : ∀ a ∈ claimedL cs.nodeChanges, ¬ present h a

/-- what process_commits will make of the tables `h` with the commits `q` queued -/
def drainT (v : Variant) (h : Heap K D) (q : List (ChangeSet K D)) : Heap K D :=
  q.foldl (fun h cs => okOr h ((applyChangeSet v (h, []) cs).map Prod.fst)) h

theorem drainT_cons (v : Variant) (h : Heap K D) (cs : ChangeSet K D) (q : List (ChangeSet K D)) :
    drainT v h (cs :: q) = drainT v (drainStep v h cs) q := rfl

theorem drainT_append (v : Variant) (h : Heap K D) (q : List (ChangeSet K D)) (cs : ChangeSet K D) :
    drainT v h (q ++ [cs]) = drainStep v (drainT v h q) cs := by
  simp [drainT, drainStep, List.foldl_append]

theorem drainStep_withNext (v : Variant) (h : Heap K D) (m : Addr) (cs : ChangeSet K D) :
    drainStep v (withNext m h) cs = withNext m (drainStep v h cs) := by
  simp only [drainStep_eq, sim_applyCsH_withNext]
  cases simCsH v h cs <;> rfl

theorem drainT_withNext (v : Variant) (m : Addr) (q : List (ChangeSet K D)) :
    ∀ (h : Heap K D), drainT v (withNext m h) q = withNext m (drainT v h q) := by
  induction q with
  | nil => intro h; rfl
  | cons cs q ih =>
    intro h
    rw [drainT_cons, drainT_cons, drainStep_withNext]
    exact ih _

def QueueOkT (v : Variant) : Heap K D → List (ChangeSet K D) → Prop
  | _, [] => True
  | h, cs :: q => CsOk v h cs ∧ QueueOkT v (drainStep v h cs) q

theorem CsOk.of_core {v : Variant} {h h' : Heap K D} {cs : ChangeSet K D} (ok : CsOk v h cs)
    (e : core h = core h') : CsOk v h' cs := by
  have ec : core (drainStep v h cs) = core (drainStep v h' cs) := by
    rw [drainStep_eq, drainStep_eq]; exact sim_applyCsH_core v h h' cs e
  simp only [core, Prod.mk.injEq] at e ec
  obtain ⟨e1, _, e3⟩ := e
  refine ⟨?_, fun a ha hp => ok.claimed a ha ((sim_present_congr h h' e1.symm a).mp hp)⟩
  intro k r hg
  have := ok.rootView k r (by simpa only [viewOf, ec.2.2] using hg)
  simpa only [viewOf, e3] using this

theorem QueueOkT_withNext (v : Variant) (m : Addr) (q : List (ChangeSet K D)) :
    ∀ (h : Heap K D), QueueOkT v h q → QueueOkT v (withNext m h) q := by
  induction q with
  | nil => intro _ _; trivial
  | cons cs q ih =>
    intro h hq
    refine ⟨hq.1.of_core rfl, ?_⟩
    rw [drainStep_withNext]
    exact ih _ hq.2

theorem QueueOkT_append (v : Variant) (q : List (ChangeSet K D)) (cs : ChangeSet K D) :
    ∀ (h : Heap K D), QueueOkT v h q → CsOk v (drainT v h q) cs → QueueOkT v h (q ++ [cs]) := by
  induction q with
  | nil => intro h _ hp; exact ⟨hp, trivial⟩
  | cons c0 q ih =>
    intro h hq hp
    exact ⟨hq.1, ih _ hq.2 hp⟩

/-! ### what is readable while commits are queued -/

theorem sim_ovRootT_cons (cs : ChangeSet K D) (q : List (ChangeSet K D)) (k : K) :
    ovRootT (cs :: q) k = (ovRootT q k).or (csRoot k cs) := sim_findSome_rev_cons _ _ _

theorem sim_ovNodeT_cons (cs : ChangeSet K D) (q : List (ChangeSet K D)) (a : Addr) :
    ovNodeT (cs :: q) a = (ovNodeT q a).or (csNode a cs) := sim_findSome_rev_cons _ _ _

/-- a root of the heap after one drain step is the root the commit shows, or the old root -/
theorem drainStep_root_view (v : Variant) (h : Heap K D) (cs : ChangeSet K D) (ok : CsOk v h cs)
    (k : K) (r : Node D) (hg : viewOf (drainStep v h cs) k = some r) :
    (csRoot k cs).or (viewOf h k) = some r := ok.rootView k r hg

/-- a node of the heap after one drain step is the NewValue the commit shows, or the old node -/
theorem drainStep_node_view (v : Variant) (h : Heap K D) (cs : ChangeSet K D) (ok : CsOk v h cs)
    (a : Addr) (n : Node D) (hg : (drainStep v h cs).nodes.get a = some n) :
    (csNode a cs).or (h.nodes.get a) = some n := by
  rw [drainStep_eq] at hg
  cases e : simCsH v h cs with
  | error er =>
    simp only [e, okOr] at hg
    cases hc : csNode a cs with
    | none => simpa using hg
    | some n' =>
      exact absurd ((present_iff h a).mpr ⟨n, hg⟩)
        (ok.claimed a (sim_nodeHit_mem a cs.nodeChanges n' hc))
  | ok h' =>
    simp only [e, okOr] at hg
    obtain ⟨h1, e1, e2⟩ := simCsH_ok v h h' cs e
    rw [e2, (sim_rootFold_frame v cs.late h1).1] at hg
    simp only [simCsF41H] at e1
    have := sim_nodeFold_nodes v cs.early.nodeChanges _ h1 e1 a n hg
    rw [(sim_rootFold_frame v cs.early.changes h).1] at this
    exact this

/-- RootChar: a root of the drained heap is shown by the commit overlay (or the tables). -/
theorem drain_root_viewT (v : Variant) (q : List (ChangeSet K D)) :
    ∀ (h : Heap K D), QueueOkT v h q → ∀ (k : K) (r : Node D),
      viewOf (drainT v h q) k = some r → (ovRootT q k).or (viewOf h k) = some r := by
  induction q with
  | nil => intro h _ k r hg; simpa [ovRootT, drainT] using hg
  | cons cs q ih =>
    intro h hq k r hg
    rw [drainT_cons] at hg
    have := ih _ hq.2 k r hg
    rw [sim_ovRootT_cons]
    cases ho : ovRootT q k with
    | some x => simpa [ho] using this
    | none =>
      simp only [ho, Option.none_or] at this ⊢
      exact drainStep_root_view v h cs hq.1 k r this

/-- NodeChar: a node of the drained heap is shown by the address overlay (or the tables).  With
    address reuse the overlay shows the NEWEST queued NewValue of an address. -/
theorem drain_node_viewT (v : Variant) (q : List (ChangeSet K D)) :
    ∀ (h : Heap K D), QueueOkT v h q → ∀ (a : Addr) (n : Node D),
      (drainT v h q).nodes.get a = some n → (ovNodeT q a).or (h.nodes.get a) = some n := by
  induction q with
  | nil => intro h _ a n hg; simpa [ovNodeT, drainT] using hg
  | cons cs q ih =>
    intro h hq a n hg
    rw [drainT_cons] at hg
    have := ih _ hq.2 a n hg
    rw [sim_ovNodeT_cons]
    cases ho : ovNodeT q a with
    | some x => simpa [ho] using this
    | none =>
      simp only [ho, Option.none_or] at this ⊢
      exact drainStep_node_view v h cs hq.1 a n this

/-- a node of the drained heap sits in a claimed slot or in the tables -/
theorem drain_nodes_sub (v : Variant) (q : List (ChangeSet K D)) (h : Heap K D)
    (hq : QueueOkT v h q) (a : Addr) (hp : present (drainT v h q) a) :
    a ∈ queueClaimed q ∨ present h a := by
  obtain ⟨n, hn⟩ := (present_iff _ a).mp hp
  have := drain_node_viewT v q h hq a n hn
  cases ho : ovNodeT q a with
  | none =>
    simp only [ho, Option.none_or] at this
    exact Or.inr ((present_iff h a).mpr ⟨n, this⟩)
  | some x =>
    left
    simp only [ovNodeT] at ho
    obtain ⟨cs, hc, hcs⟩ := List.exists_of_findSome?_eq_some ho
    simp only [queueClaimed, List.mem_flatMap]
    exact ⟨cs, List.mem_reverse.mp hc, sim_nodeHit_mem a cs.nodeChanges x hcs⟩

end Pdb.MultiTree
