/-
C10, transactions and address reuse.  Part 2: the allocator.

  claimedL                 the NewValue addresses of a list of node changes
  sim_claimEntries_spec    claimed ++ rest of the stack = old stack ++ [next, .., next')
  sim_planRefs_claimed     the NewValue addresses of a planned tree are the supply, in order
  sim_asmOps_acct          the same for a whole assembly
  Acct                     slot accounting (`AllocInv` with the pieces as parameters) and its moves:
                           claim (commit), NewValue (claimed -> present), walk (present -> free)
-/
import Pdb.Proofs.C10TxSim1

namespace Pdb.MultiTree
set_option linter.unusedSectionVars false
variable {K D : Type} [DecidableEq K]

/-! ### claimed addresses -/

def claimedL (l : List (NodeChange K D)) : List Addr := csClaimed (⟨[], l⟩ : ChangeSet K D)

theorem sim_csClaimed_eq (cs : ChangeSet K D) : csClaimed cs = claimedL cs.nodeChanges := rfl

theorem sim_claimedL_nil : claimedL ([] : List (NodeChange K D)) = [] := rfl

theorem sim_claimedL_append (l1 l2 : List (NodeChange K D)) :
    claimedL (l1 ++ l2) = claimedL l1 ++ claimedL l2 := by
  simp only [claimedL, csClaimed, List.filterMap_append]

theorem sim_claimedL_cons (c : NodeChange K D) (l : List (NodeChange K D)) :
    claimedL (c :: l) = claimedL [c] ++ claimedL l := sim_claimedL_append [c] l

theorem sim_claimedL_newValue (a : Addr) (n : Node D) :
    claimedL [(.newValue a n : NodeChange K D)] = [a] := rfl

theorem sim_claimedL_incRef (a : Addr) : claimedL [(.incRef a : NodeChange K D)] = [] := rfl

theorem sim_claimedL_deref (k : K) (cs : List Addr) :
    claimedL [(.derefChildren k cs : NodeChange K D)] = [] := rfl

theorem sim_queueClaimed_cons (cs : ChangeSet K D) (q : List (ChangeSet K D)) :
    queueClaimed (cs :: q) = claimedL cs.nodeChanges ++ queueClaimed q := by
  simp [queueClaimed, sim_csClaimed_eq]

theorem sim_queueClaimed_append (q : List (ChangeSet K D)) (cs : ChangeSet K D) :
    queueClaimed (q ++ [cs]) = queueClaimed q ++ claimedL cs.nodeChanges := by
  simp [queueClaimed, sim_csClaimed_eq]

/-- B4 in the form used here -/
theorem sim_claimEntries_spec : ∀ (n : Nat) (free : List Addr) (next : Addr),
    (claimEntries n free next).1 ++ (claimEntries n free next).2.1 =
      free ++ List.range' next ((claimEntries n free next).2.2 - next) ∧
    next ≤ (claimEntries n free next).2.2 ∧ (claimEntries n free next).1.length = n
  | 0, free, next => by simp [claimEntries]
  | n + 1, a :: free, next => by
    have ih := sim_claimEntries_spec n free next
    rcases hR : claimEntries n free next with ⟨c, f, nx⟩
    simp only [hR] at ih
    simp only [claimEntries, hR, List.cons_append, List.length_cons]
    exact ⟨by rw [ih.1], ih.2.1, by rw [ih.2.2]⟩
  | n + 1, [], next => by
    have ih := sim_claimEntries_spec n [] (next + 1)
    rcases hR : claimEntries n [] (next + 1) with ⟨c, f, nx⟩
    simp only [hR, List.nil_append] at ih
    simp only [claimEntries, hR, List.cons_append, List.length_cons, List.nil_append]
    obtain ⟨i1, i2, i3⟩ := ih
    refine ⟨?_, by omega, by rw [i3]⟩
    obtain ⟨j, hj⟩ : ∃ j, nx - next = j + 1 := ⟨nx - next - 1, by omega⟩
    rw [hj, List.range'_succ, i1]
    have : nx - (next + 1) = j := by omega
    rw [this]

mutual
  theorem sim_planRef_claimed (ap : Bool) : ∀ (r : NRef D) (fresh : List Addr),
      r.news ≤ fresh.length →
      ∃ used, fresh = used ++ (planRef (K := K) ap fresh r).2.1 ∧ used.length = r.news ∧
        claimedL (planRef (K := K) ap fresh r).1 = used
    | .existing a, fresh, _ => by
      refine ⟨[], rfl, rfl, ?_⟩
      cases ap <;> rfl
    | .new d cs, fresh, hl => by
      simp only [NRef.news] at hl
      obtain ⟨used, e1, e2, e3⟩ := sim_planRefs_claimed ap cs fresh (by omega)
      rcases hR : planRefs (K := K) ap fresh cs with ⟨chs, f1, as⟩
      simp only [hR] at e1 e3
      simp only [planRef, hR, NRef.news]
      have hlen : fresh.length = used.length + f1.length := by
        rw [e1, List.length_append]
      cases f1 with
      | nil => simp only [List.length_nil] at hlen; omega
      | cons x t =>
        refine ⟨used ++ [x], ?_, ?_, ?_⟩
        · simp only [List.tail_cons, List.append_assoc, List.singleton_append]; exact e1
        · simp only [List.length_append, List.length_singleton, e2]
        · simp only [sim_claimedL_append, e3, List.headD_cons, sim_claimedL_newValue]
  theorem sim_planRefs_claimed (ap : Bool) : ∀ (rs : NRefs D) (fresh : List Addr),
      rs.news ≤ fresh.length →
      ∃ used, fresh = used ++ (planRefs (K := K) ap fresh rs).2.1 ∧ used.length = rs.news ∧
        claimedL (planRefs (K := K) ap fresh rs).1 = used
    | .nil, fresh, _ => ⟨[], rfl, rfl, rfl⟩
    | .cons r rs, fresh, hl => by
      simp only [NRefs.news] at hl
      obtain ⟨u1, a1, a2, a3⟩ := sim_planRef_claimed ap r fresh (by omega)
      rcases hR1 : planRef (K := K) ap fresh r with ⟨c1, f1, a⟩
      simp only [hR1] at a1 a3
      have hlen : fresh.length = u1.length + f1.length := by
        rw [a1, List.length_append]
      obtain ⟨u2, b1, b2, b3⟩ := sim_planRefs_claimed ap rs f1 (by omega)
      rcases hR2 : planRefs (K := K) ap f1 rs with ⟨c2, f2, as⟩
      simp only [hR2] at b1 b3
      simp only [planRefs, hR1, hR2, NRefs.news]
      refine ⟨u1 ++ u2, ?_, ?_, ?_⟩
      · rw [List.append_assoc, ← b1]; exact a1
      · simp only [List.length_append, a2, b2]
      · simp only [sim_claimedL_append, a3, b3]
end

/-- a supply of exactly the right length is used up -/
theorem sim_planRefs_claimed_all (ap : Bool) (rs : NRefs D) (fresh : List Addr)
    (hl : fresh.length = rs.news) : claimedL (planRefs (K := K) ap fresh rs).1 = fresh := by
  obtain ⟨used, e1, e2, e3⟩ := sim_planRefs_claimed (K := K) ap rs fresh (by omega)
  have hlen : fresh.length = used.length + (planRefs (K := K) ap fresh rs).2.1.length := by
    conv => lhs; rw [e1]
    rw [List.length_append]
  have : (planRefs (K := K) ap fresh rs).2.1 = [] := List.eq_nil_of_length_eq_zero (by omega)
  rw [this, List.append_nil] at e1
  rw [e3, e1]

/-! ### the assembly: what it claims and which keys it sets -/

def simSetKey : RootChange K D → Option K
  | .set k _ => some k
  | .reference _ => none

def simInsKey : Op K D → Option K
  | .insert k _ => some k
  | _ => none

theorem sim_range'_glue (N M P : Nat) (h1 : N ≤ M) (h2 : M ≤ P) :
    List.range' N (M - N) ++ List.range' M (P - M) = List.range' N (P - N) := by
  obtain ⟨i, rfl⟩ : ∃ i, M = N + i := ⟨M - N, by omega⟩
  obtain ⟨j, rfl⟩ : ∃ j, P = N + i + j := ⟨P - (N + i), by omega⟩
  have e1 : N + i - N = i := by omega
  have e2 : N + i + j - (N + i) = j := by omega
  have e3 : N + i + j - N = i + j := by omega
  rw [e1, e2, e3, List.range'_append_1]

theorem sim_asmOp_acct (v : Variant) (view : K → Option (Node D)) (acc acc' : Asm K D)
    (op : Op K D) (e : asmOp v view acc op = .ok acc') :
    claimedL acc'.cs.nodeChanges ++ acc'.free =
      claimedL acc.cs.nodeChanges ++ acc.free ++ List.range' acc.next (acc'.next - acc.next) ∧
    acc.next ≤ acc'.next ∧
    acc'.cs.changes.filterMap simSetKey = acc.cs.changes.filterMap simSetKey ++ (simInsKey op).toList := by
  cases op with
  | insert k t =>
    simp only [asmOp] at e
    have sp := sim_claimEntries_spec t.children.news acc.free acc.next
    rcases hC : claimEntries t.children.news acc.free acc.next with ⟨claimed, free', next'⟩
    simp only [hC] at e sp
    have pc := sim_planRefs_claimed_all (K := K) (decide (v = .appendOnly)) t.children claimed sp.2.2
    rcases hP : planRefs (K := K) (decide (v = .appendOnly)) claimed t.children with ⟨chs, f1, as⟩
    simp only [hP] at e pc
    simp only [Except.ok.injEq] at e
    subst e
    simp only [sim_claimedL_append, pc, List.append_assoc, sp.1, List.filterMap_append]
    exact ⟨trivial, sp.2.1, rfl⟩
  | reference k =>
    simp only [asmOp] at e
    split at e
    · simp only [Except.ok.injEq] at e
      subst e
      simp [simInsKey]
    · simp only [Except.ok.injEq] at e
      subst e
      simp [simInsKey, simSetKey]
  | dereference k =>
    simp only [asmOp] at e
    split at e
    · cases e
    · cases hv : view k with
      | none =>
        simp only [hv, Except.ok.injEq] at e
        subst e
        simp [simInsKey]
      | some r =>
        simp only [hv, Except.ok.injEq] at e
        subst e
        simp [simInsKey, sim_claimedL_append, sim_claimedL_deref]

theorem sim_asmOps_acct (v : Variant) (view : K → Option (Node D)) (ops : List (Op K D)) :
    ∀ (acc : Asm K D), (asmOps v view acc ops).2 = .ok () →
    claimedL (asmOps v view acc ops).1.cs.nodeChanges ++ (asmOps v view acc ops).1.free =
      claimedL acc.cs.nodeChanges ++ acc.free ++
        List.range' acc.next ((asmOps v view acc ops).1.next - acc.next) ∧
    acc.next ≤ (asmOps v view acc ops).1.next ∧
    (asmOps v view acc ops).1.cs.changes.filterMap simSetKey =
      acc.cs.changes.filterMap simSetKey ++ ops.filterMap simInsKey := by
  induction ops with
  | nil => intro acc _; simp [asmOps]
  | cons op ops ih =>
    intro acc hok
    simp only [asmOps] at hok ⊢
    cases ha : asmOp v view acc op with
    | error e => simp [ha] at hok
    | ok acc1 =>
      simp only [ha] at hok ⊢
      obtain ⟨a1, a2, a3⟩ := sim_asmOp_acct v view acc acc1 op ha
      obtain ⟨b1, b2, b3⟩ := ih acc1 hok
      refine ⟨?_, by omega, ?_⟩
      · rw [b1, a1, List.append_assoc _ (List.range' _ _), sim_range'_glue _ _ _ a2 b2]
      · rw [b3, a3, List.append_assoc]
        cases op <;> rfl

/-! ### slot accounting -/

/-- `AllocInv` with the pieces as parameters: `f` the free stack, `C` the claimed slots, `N` the
    fill mark -/
structure Acct (N : Addr) (h : Heap K D) (f C : List Addr) : Prop where
  nodup : (f ++ C).Nodup
  notPresent : ∀ a ∈ f ++ C, ¬ present h a
  cover : ∀ a, a < N ↔ (a ∈ f ∨ a ∈ C ∨ present h a)

theorem sim_allocInv_iff (s : TState K D) :
    AllocInv s ↔ Acct s.heap.next s.heap s.free (queueClaimed s.queue) :=
  ⟨fun a => ⟨a.nodup, a.notPresent, a.cover⟩, fun a => ⟨a.nodup, a.notPresent, a.cover⟩⟩

theorem Acct.congr {N : Addr} {h h' : Heap K D} {f C : List Addr} (a : Acct N h f C)
    (e : h'.nodes = h.nodes) : Acct N h' f C where
  nodup := a.nodup
  notPresent := fun b hb hp => a.notPresent b hb ((sim_present_congr h h' e b).mp hp)
  cover := fun b => by rw [a.cover b, sim_present_congr h h' e b]

/-- a NewValue is written: its slot is no longer "claimed", it holds a node -/
theorem Acct.newValue {N : Addr} {h : Heap K D} {f C : List Addr} {a : Addr}
    (ac : Acct N h f (a :: C)) (n : Node D) (h' : Heap K D)
    (e : h'.nodes = h.nodes.set a (some n)) : Acct N h' f C := by
  have hp : ∀ b, present h' b ↔ (b = a ∨ present h b) := by
    intro b
    simp only [present, e, FMap.get_set]
    by_cases hb : b = a <;> simp [hb]
  have hnd := ac.nodup
  rw [List.nodup_append] at hnd
  obtain ⟨n1, n2, n3⟩ := hnd
  have n2' := List.nodup_cons.mp n2
  refine ⟨?_, ?_, ?_⟩
  · exact List.nodup_append.mpr ⟨n1, n2'.2, fun x hx y hy => n3 x hx y (List.mem_cons_of_mem _ hy)⟩
  · intro b hb hpb
    rcases (hp b).mp hpb with h1 | h1
    · subst h1
      rcases List.mem_append.mp hb with h2 | h2
      · exact n3 b h2 b (List.mem_cons_self) rfl
      · exact n2'.1 h2
    · refine ac.notPresent b ?_ h1
      rcases List.mem_append.mp hb with h2 | h2
      · exact List.mem_append.mpr (Or.inl h2)
      · exact List.mem_append.mpr (Or.inr (List.mem_cons_of_mem _ h2))
  · intro b
    rw [ac.cover b, hp b, List.mem_cons]
    constructor
    · rintro (h1 | (h1 | h1) | h1)
      · exact Or.inl h1
      · exact Or.inr (Or.inr (Or.inl h1))
      · exact Or.inr (Or.inl h1)
      · exact Or.inr (Or.inr (Or.inr h1))
    · rintro (h1 | h1 | h1 | h1)
      · exact Or.inl h1
      · exact Or.inr (Or.inl (Or.inr h1))
      · exact Or.inr (Or.inl (Or.inl h1))
      · exact Or.inr (Or.inr h1)

/-- a walk: the freed slots go from "present" to the free stack -/
theorem Acct.pushed {N : Addr} {h h' : Heap K D} {f f' C : List Addr} (ac : Acct N h f C)
    (p : Pushed h f h' f') : Acct N h' f' C := by
  obtain ⟨l, e, nd, a1, c1⟩ := p.ex
  subst e
  have hsub := sim_present_sub h h' p.sub
  refine ⟨?_, ?_, ?_⟩
  · rw [List.append_assoc]
    refine List.nodup_append.mpr ⟨nd, ac.nodup, ?_⟩
    intro x hx y hy hxy
    subst hxy
    exact ac.notPresent x hy (a1 x hx).1
  · intro b hb hpb
    rw [List.append_assoc] at hb
    rcases List.mem_append.mp hb with h1 | h1
    · exact (a1 b h1).2 hpb
    · exact ac.notPresent b h1 (hsub b hpb)
  · intro b
    rw [ac.cover b]
    constructor
    · rintro (h1 | h1 | h1)
      · exact Or.inl (List.mem_append.mpr (Or.inr h1))
      · exact Or.inr (Or.inl h1)
      · by_cases hb : present h' b
        · exact Or.inr (Or.inr hb)
        · exact Or.inl (List.mem_append.mpr (Or.inl (c1 b h1 hb)))
    · rintro (h1 | h1 | h1)
      · rcases List.mem_append.mp h1 with h2 | h2
        · exact Or.inr (Or.inr (a1 b h2).1)
        · exact Or.inl h2
      · exact Or.inr (Or.inl h1)
      · exact Or.inr (Or.inr (hsub b h1))

/-- a commit claims `C1`: popped from the stack, the rest from the fill mark -/
theorem Acct.claim {N N' : Addr} {h : Heap K D} {f f' C C1 : List Addr} (ac : Acct N h f C)
    (e : C1 ++ f' = f ++ List.range' N (N' - N)) (hN : N ≤ N') : Acct N' h f' (C ++ C1) := by
  have hmemR : ∀ b, b ∈ List.range' N (N' - N) ↔ (N ≤ b ∧ b < N') := by
    intro b; simp only [List.mem_range'_1]; omega
  have hmem : ∀ b, (b ∈ C1 ∨ b ∈ f') ↔ (b ∈ f ∨ (N ≤ b ∧ b < N')) := by
    intro b
    rw [← hmemR, ← List.mem_append, ← List.mem_append, e]
  have hperm : (f' ++ (C ++ C1)).Perm (C ++ (f ++ List.range' N (N' - N))) := by
    rw [← e]
    exact (List.perm_append_comm).trans (by rw [List.append_assoc])
  have hfC := List.nodup_append.mp ac.nodup
  have hnd : (C ++ (f ++ List.range' N (N' - N))).Nodup := by
    refine List.nodup_append.mpr ⟨hfC.2.1, ?_, ?_⟩
    · refine List.nodup_append.mpr ⟨hfC.1, List.nodup_range' .., ?_⟩
      intro x hx y hy hxy
      subst hxy
      have : x < N := (ac.cover x).mpr (Or.inl hx)
      have := (hmemR x).mp hy
      omega
    · intro x hx y hy hxy
      subst hxy
      rcases List.mem_append.mp hy with h1 | h1
      · exact hfC.2.2 x h1 x hx rfl
      · have : x < N := (ac.cover x).mpr (Or.inr (Or.inl hx))
        have := (hmemR x).mp h1
        omega
  refine ⟨hperm.nodup_iff.mpr hnd, ?_, ?_⟩
  · intro b hb hpb
    have hb' : b ∈ C ∨ (b ∈ C1 ∨ b ∈ f') := by
      simp only [List.mem_append] at hb
      rcases hb with h1 | h1 | h1
      · exact Or.inr (Or.inr h1)
      · exact Or.inl h1
      · exact Or.inr (Or.inl h1)
    rcases hb' with h1 | h1
    · exact ac.notPresent b (List.mem_append.mpr (Or.inr h1)) hpb
    · rcases (hmem b).mp h1 with h2 | h2
      · exact ac.notPresent b (List.mem_append.mpr (Or.inl h2)) hpb
      · have : b < N := (ac.cover b).mpr (Or.inr (Or.inr hpb))
        omega
  · intro b
    have hc := ac.cover b
    have hm := hmem b
    simp only [List.mem_append]
    constructor
    · intro hlt
      by_cases hbN : b < N
      · rcases hc.mp hbN with h1 | h1 | h1
        · rcases hm.mpr (Or.inl h1) with h2 | h2
          · exact Or.inr (Or.inl (Or.inr h2))
          · exact Or.inl h2
        · exact Or.inr (Or.inl (Or.inl h1))
        · exact Or.inr (Or.inr h1)
      · rcases hm.mpr (Or.inr ⟨by omega, hlt⟩) with h2 | h2
        · exact Or.inr (Or.inl (Or.inr h2))
        · exact Or.inl h2
    · rintro (h1 | (h1 | h1) | h1)
      · rcases hm.mp (Or.inr h1) with h2 | h2
        · have := hc.mpr (Or.inl h2); omega
        · exact h2.2
      · have := hc.mpr (Or.inr (Or.inl h1)); omega
      · rcases hm.mp (Or.inl h1) with h2 | h2
        · have := hc.mpr (Or.inl h2); omega
        · exact h2.2
      · have := hc.mpr (Or.inr (Or.inr h1)); omega

/-- processing the node changes of a commit: its claimed slots get their nodes, the walks free -/
theorem sim_nodeFold_acct (v : Variant) (N : Addr) (l : List (NodeChange K D)) :
    ∀ (h : Heap K D) (f : List Addr) (C : List Addr) (h' : Heap K D) (f' : List Addr),
      Acct N h f (claimedL l ++ C) → l.foldlM (applyNodeChange v) (h, f) = .ok (h', f') →
      Acct N h' f' C := by
  induction l with
  | nil =>
    intro h f C h' f' ac e
    simp only [List.foldlM_nil, pure, Except.pure, Except.ok.injEq, Prod.mk.injEq] at e
    obtain ⟨e1, e2⟩ := e
    subst e1 e2
    exact ac
  | cons c l ih =>
    intro h f C h' f' ac e
    simp only [List.foldlM_cons] at e
    rw [sim_claimedL_cons, List.append_assoc] at ac
    cases hc : applyNodeChange v (h, f) c with
    | error er => rw [hc] at e; cases e
    | ok x =>
      obtain ⟨h1, f1⟩ := x
      rw [hc] at e
      refine ih h1 f1 C h' f' ?_ e
      cases c with
      | newValue a n =>
        simp only [applyNodeChange, Except.ok.injEq, Prod.mk.injEq] at hc
        obtain ⟨e1, e2⟩ := hc
        subst e1 e2
        rw [sim_claimedL_newValue] at ac
        exact ac.newValue n _ rfl
      | incRef a =>
        simp only [applyNodeChange, Except.ok.injEq, Prod.mk.injEq] at hc
        obtain ⟨e1, e2⟩ := hc
        subst e1 e2
        rw [sim_claimedL_incRef] at ac
        exact Acct.congr ac (by simp [incRef])
      | derefChildren k cs =>
        simp only [applyNodeChange] at hc
        rw [sim_claimedL_deref] at ac
        exact ac.pushed (sim_derefProcessF_pushed v h f k cs h1 f1 hc)

end Pdb.MultiTree
