/-
C10, transactions: basic facts about the literal `commit_changes` / `write_plan` model
(`Pdb/Model/MultiTree.lean`, section "Transactions").

  B1  the free-stack variants of the walk / of `write_plan` project to the heap-level functions
      (`derefChildrenF_fst`, `derefProcessF_fst`, `applyNodeChange_fst`, `applyChangeSet_fst`)
  B2  what the walk pushes on the free stack (`Freed`, `derefChildrenF_pushed`,
      `derefProcessF_pushed`, `applyNodeChange_*`, `applyChangeSet_pushed`)
  B3  planning = `insRefsA` (`planRefs_snd`, `planRefs_apply`), `news = newCount = size`
  B4  `claimEntries` in closed form (`claimEntries_spec`) and its consequences
  B5  validation implies that the assembly loop cannot fail (`asmOps_ok_of_valid`),
      `TState.commit_err`, `TState.commit_ok_iff`, `TState.commit_ok_eq`,
      `NewNode.valid_iff_maxFan`
-/
import Pdb.Proofs.C10TxDefs

namespace Pdb.MultiTree
set_option linter.unusedSectionVars false
variable {K D : Type} [DecidableEq K]

/-! ## B1: heap projection of the free-stack variants -/

/-- a monadic fold over pairs whose step projects to a step on the first component projects to
    the fold of that step -/
theorem foldlM_fst {σ τ α : Type} (stepF : σ × τ → α → Except Err (σ × τ))
    (step : σ → α → Except Err σ)
    (hstep : ∀ s t a, (stepF (s, t) a).map Prod.fst = step s a) :
    ∀ (l : List α) (s : σ) (t : τ), (l.foldlM stepF (s, t)).map Prod.fst = l.foldlM step s := by
  intro l
  induction l with
  | nil => intro s t; rfl
  | cons a rest ih =>
    intro s t
    simp only [List.foldlM_cons]
    have h1 := hstep s t a
    cases hs : stepF (s, t) a with
    | error e =>
      rw [hs] at h1
      rw [← h1]
      rfl
    | ok x =>
      obtain ⟨s2, t2⟩ := x
      rw [hs] at h1
      rw [← h1]
      exact ih s2 t2

theorem derefStepF_fst
    (recF : Heap K D × List Addr → List Addr → Except Err (Heap K D × List Addr))
    (rec : Heap K D → List Addr → Except Err (Heap K D))
    (hrec : ∀ h f cs, (recF (h, f) cs).map Prod.fst = rec h cs)
    (h : Heap K D) (f : List Addr) (a : Addr) :
    (derefStepF recF (h, f) a).map Prod.fst = derefStep rec h a := by
  simp only [derefStepF, derefStep, decRef]
  cases h.rc.get a with
  | some c => rfl
  | none =>
    simp only
    cases (h.nodes.get a).map (·.children) with
    | none => rfl
    | some kids => exact hrec _ _ _

/-- the walk with the free stack is the walk, on the heap -/
theorem derefChildrenF_fst : ∀ (fuel : Nat) (h : Heap K D) (f : List Addr) (cs : List Addr),
    (derefChildrenF fuel (h, f) cs).map Prod.fst = derefChildren fuel h cs
  | 0, _, _, _ => rfl
  | fuel + 1, h, f, cs => by
    simp only [derefChildrenF, derefChildren]
    exact foldlM_fst _ _
      (fun s t a => derefStepF_fst _ _ (fun h f cs => derefChildrenF_fst fuel h f cs) s t a) cs h f

theorem derefProcessF_fst (v : Variant) (h : Heap K D) (f : List Addr) (k : K) (cs : List Addr) :
    (derefProcessF v (h, f) k cs).map Prod.fst = derefProcess v h k cs := by
  simp only [derefProcessF, derefProcess]
  split
  · rfl
  · split
    · rfl
    · exact derefChildrenF_fst _ _ _ _

/-- `applyNodeChange` on the heap alone -/
def applyNodeChangeH (v : Variant) (h : Heap K D) : NodeChange K D → Except Err (Heap K D)
  | .newValue a n => .ok { h with nodes := h.nodes.set a (some n) }
  | .incRef a => .ok (incRef h a)
  | .derefChildren k cs => derefProcess v h k cs

/-- `applyChangeSetF41` (the unfixed planning order) on the heap alone -/
def applyChangeSetF41H (v : Variant) (h : Heap K D) (cs : ChangeSet K D) : Except Err (Heap K D) :=
  cs.nodeChanges.foldlM (applyNodeChangeH v) (cs.changes.foldl (applyRootChange v) h)

/-- `applyChangeSet` on the heap alone -/
def applyChangeSetH (v : Variant) (h : Heap K D) (cs : ChangeSet K D) : Except Err (Heap K D) :=
  (applyChangeSetF41H v h cs.early).map (fun h' => cs.late.foldl (applyRootChange v) h')

theorem applyNodeChange_fstH (v : Variant) (h : Heap K D) (f : List Addr) (c : NodeChange K D) :
    (applyNodeChange v (h, f) c).map Prod.fst = applyNodeChangeH v h c := by
  cases c with
  | newValue a n => rfl
  | incRef a => rfl
  | derefChildren k cs => exact derefProcessF_fst v h f k cs

theorem applyNodeChanges_fstH (v : Variant) (l : List (NodeChange K D)) (h : Heap K D)
    (f : List Addr) :
    (l.foldlM (applyNodeChange v) (h, f)).map Prod.fst = l.foldlM (applyNodeChangeH v) h :=
  foldlM_fst _ _ (fun s t a => applyNodeChange_fstH v s t a) l h f

theorem applyChangeSetF41_fstH (v : Variant) (h : Heap K D) (f : List Addr) (cs : ChangeSet K D) :
    (applyChangeSetF41 v (h, f) cs).map Prod.fst = applyChangeSetF41H v h cs := by
  simp only [applyChangeSetF41, applyChangeSetF41H]
  exact applyNodeChanges_fstH v _ _ _

theorem applyChangeSet_fstH (v : Variant) (h : Heap K D) (f : List Addr) (cs : ChangeSet K D) :
    (applyChangeSet v (h, f) cs).map Prod.fst = applyChangeSetH v h cs := by
  simp only [applyChangeSet, applyChangeSetH, ← applyChangeSetF41_fstH v h f cs.early]
  cases applyChangeSetF41 v (h, f) cs.early with
  | error e => rfl
  | ok x => rfl

/-- the heap a node change produces does not depend on the free stack -/
theorem applyNodeChange_fst (v : Variant) (h : Heap K D) (f f' : List Addr) (c : NodeChange K D) :
    (applyNodeChange v (h, f) c).map Prod.fst = (applyNodeChange v (h, f') c).map Prod.fst := by
  rw [applyNodeChange_fstH, applyNodeChange_fstH]

/-- the heap a change set produces does not depend on the free stack -/
theorem applyChangeSet_fst (v : Variant) (h : Heap K D) (f f' : List Addr) (cs : ChangeSet K D) :
    (applyChangeSet v (h, f) cs).map Prod.fst = (applyChangeSet v (h, f') cs).map Prod.fst := by
  rw [applyChangeSet_fstH, applyChangeSet_fstH]

/-- ok-form of the projections -/
theorem map_fst_ok {α β : Type} (x : Except Err (α × β)) (a : α) (b : β) (e : x = .ok (a, b)) :
    x.map Prod.fst = .ok a := by
  subst e; rfl

theorem applyChangeSet_ok_fst (v : Variant) (h h' : Heap K D) (f f' : List Addr)
    (cs : ChangeSet K D) (e : applyChangeSet v (h, f) cs = .ok (h', f')) :
    applyChangeSetH v h cs = .ok h' := by
  rw [← applyChangeSet_fstH v h f cs]; exact map_fst_ok _ _ _ e

theorem derefChildrenF_ok_fst (fuel : Nat) (h h' : Heap K D) (f f' : List Addr) (cs : List Addr)
    (e : derefChildrenF fuel (h, f) cs = .ok (h', f')) : derefChildren fuel h cs = .ok h' := by
  rw [← derefChildrenF_fst fuel h f cs]; exact map_fst_ok _ _ _ e

theorem derefProcessF_ok_fst (v : Variant) (h h' : Heap K D) (f f' : List Addr) (k : K)
    (cs : List Addr) (e : derefProcessF v (h, f) k cs = .ok (h', f')) :
    derefProcess v h k cs = .ok h' := by
  rw [← derefProcessF_fst v h f k cs]; exact map_fst_ok _ _ _ e

/-! ## B2: what the walk pushes on the free stack -/

/-- `p` lists, without repetition, exactly the addresses present in `h` and absent in `h'`, and
    `h'` has no other nodes than `h` -/
structure Freed (h h' : Heap K D) (p : List Addr) : Prop where
  nodup : p.Nodup
  mem : ∀ a ∈ p, present h a ∧ ¬ present h' a
  complete : ∀ a, present h a → ¬ present h' a → a ∈ p
  sub : ∀ a n, h'.nodes.get a = some n → h.nodes.get a = some n

theorem Freed.of_nodes_eq {h h' : Heap K D} (e : h'.nodes = h.nodes) : Freed h h' [] where
  nodup := List.nodup_nil
  mem := by intro a ha; cases ha
  complete := by
    intro a h1 h2
    simp only [present, e] at h1 h2
    exact absurd h1 h2
  sub := by intro a n hg; rw [e] at hg; exact hg

theorem Freed.present_sub {h h' : Heap K D} {p : List Addr} (w : Freed h h' p) (a : Addr)
    (ha : present h' a) : present h a := by
  obtain ⟨n, hn⟩ := (Pdb.MultiTree.present_iff h' a).mp ha
  exact (Pdb.MultiTree.present_iff h a).mpr ⟨n, w.sub a n hn⟩

theorem Freed.present_after {h h' : Heap K D} {p : List Addr} (w : Freed h h' p) (a : Addr) :
    present h' a ↔ (present h a ∧ a ∉ p) := by
  constructor
  · intro ha
    exact ⟨w.present_sub a ha, fun hm => (w.mem a hm).2 ha⟩
  · intro ⟨h1, h2⟩
    apply Classical.byContradiction
    intro hn
    exact h2 (w.complete a h1 hn)

theorem Freed.trans {h h1 h2 : Heap K D} {p1 p2 : List Addr} (w1 : Freed h h1 p1)
    (w2 : Freed h1 h2 p2) : Freed h h2 (p2 ++ p1) where
  nodup := by
    rw [List.nodup_append]
    refine ⟨w2.nodup, w1.nodup, ?_⟩
    intro a ha b hb e
    subst e
    exact (w1.mem a hb).2 (w2.mem a ha).1
  mem := by
    intro a ha
    rcases List.mem_append.mp ha with ha | ha
    · exact ⟨w1.present_sub a (w2.mem a ha).1, (w2.mem a ha).2⟩
    · exact ⟨(w1.mem a ha).1, fun hp => (w1.mem a ha).2 (w2.present_sub a hp)⟩
  complete := by
    intro a ha hna
    apply List.mem_append.mpr
    by_cases h1a : present h1 a
    · exact Or.inl (w2.complete a h1a hna)
    · exact Or.inr (w1.complete a ha h1a)
  sub := fun a n hg => w1.sub a n (w2.sub a n hg)

theorem Freed.remove {h h1 : Heap K D} (a : Addr) (n : Node D) (hg : h.nodes.get a = some n)
    (e : h1.nodes = h.nodes.set a none) : Freed h h1 [a] where
  nodup := by simp
  mem := by
    intro b hb
    simp only [List.mem_singleton] at hb
    subst hb
    refine ⟨(Pdb.MultiTree.present_iff h b).mpr ⟨n, hg⟩, ?_⟩
    simp [present, e, FMap.get_set]
  complete := by
    intro b hb hnb
    simp only [List.mem_singleton]
    apply Classical.byContradiction
    intro hne
    apply hnb
    simp only [present, e, FMap.get_set, if_neg hne]
    exact hb
  sub := by
    intro b m hb
    rw [e, FMap.get_set] at hb
    split at hb
    · cases hb
    · exact hb

theorem derefStepF_pushed
    (recF : Heap K D × List Addr → List Addr → Except Err (Heap K D × List Addr))
    (hrec : ∀ (cs : List Addr) (h : Heap K D) (f : List Addr) (h' : Heap K D) (f' : List Addr),
      recF (h, f) cs = .ok (h', f') → ∃ p, f' = p ++ f ∧ Freed h h' p)
    (h : Heap K D) (f : List Addr) (a : Addr) (h' : Heap K D) (f' : List Addr)
    (e : derefStepF recF (h, f) a = .ok (h', f')) : ∃ p, f' = p ++ f ∧ Freed h h' p := by
  simp only [derefStepF, decRef] at e
  cases hr : h.rc.get a with
  | some c =>
    simp only [hr, Except.ok.injEq, Prod.mk.injEq] at e
    obtain ⟨e1, e2⟩ := e
    subst e1 e2
    exact ⟨[], rfl, Freed.of_nodes_eq rfl⟩
  | none =>
    simp only [hr] at e
    cases hn : h.nodes.get a with
    | none => simp [hn] at e
    | some n =>
      simp only [hn, Option.map_some] at e
      obtain ⟨p, e1, w⟩ := hrec _ _ _ _ _ e
      refine ⟨p ++ [a], by simp [e1], ?_⟩
      exact (Freed.remove (h1 := { h with nodes := h.nodes.set a none }) a n hn rfl).trans w

theorem foldlM_pushed (stepF : Heap K D × List Addr → Addr → Except Err (Heap K D × List Addr))
    (hstep : ∀ (h : Heap K D) (f : List Addr) (a : Addr) (h' : Heap K D) (f' : List Addr),
      stepF (h, f) a = .ok (h', f') → ∃ p, f' = p ++ f ∧ Freed h h' p) :
    ∀ (cs : List Addr) (h : Heap K D) (f : List Addr) (h' : Heap K D) (f' : List Addr),
      cs.foldlM stepF (h, f) = .ok (h', f') → ∃ p, f' = p ++ f ∧ Freed h h' p := by
  intro cs
  induction cs with
  | nil =>
    intro h f h' f' e
    simp only [List.foldlM_nil, pure, Except.pure, Except.ok.injEq, Prod.mk.injEq] at e
    obtain ⟨e1, e2⟩ := e
    subst e1 e2
    exact ⟨[], rfl, Freed.of_nodes_eq rfl⟩
  | cons a rest ih =>
    intro h f h' f' e
    simp only [List.foldlM_cons] at e
    cases hs : stepF (h, f) a with
    | error er => rw [hs] at e; cases e
    | ok x =>
      obtain ⟨h2, f2⟩ := x
      rw [hs] at e
      obtain ⟨p1, e1, w1⟩ := hstep _ _ _ _ _ hs
      obtain ⟨p2, e2, w2⟩ := ih _ _ _ _ e
      exact ⟨p2 ++ p1, by rw [e2, e1, List.append_assoc], w1.trans w2⟩

/-- The walk pushes on the free stack, without repetition, exactly the addresses of the nodes it
    removes (structured form). -/
theorem derefChildrenF_freed : ∀ (fuel : Nat) (cs : List Addr) (h : Heap K D) (f : List Addr)
    (h' : Heap K D) (f' : List Addr),
    derefChildrenF fuel (h, f) cs = .ok (h', f') → ∃ p, f' = p ++ f ∧ Freed h h' p
  | 0, _, _, _, _, _, e => by simp [derefChildrenF] at e
  | fuel + 1, cs, h, f, h', f', e => by
    simp only [derefChildrenF] at e
    exact foldlM_pushed _
      (fun h f a h' f' e => derefStepF_pushed _ (derefChildrenF_freed fuel) h f a h' f' e)
      cs h f h' f' e

/-- The walk pushes on the free stack, without repetition, exactly the addresses of the nodes it
    removes; it only removes nodes. -/
theorem derefChildrenF_pushed (fuel : Nat) (h : Heap K D) (f : List Addr) (cs : List Addr)
    (h' : Heap K D) (f' : List Addr) (e : derefChildrenF fuel (h, f) cs = .ok (h', f')) :
    ∃ pushed, f' = pushed ++ f ∧ pushed.Nodup ∧
      (∀ a ∈ pushed, present h a ∧ ¬ present h' a) ∧
      (∀ a, present h a → ¬ present h' a → a ∈ pushed) ∧
      (∀ a n, h'.nodes.get a = some n → h.nodes.get a = some n) := by
  obtain ⟨p, e1, w⟩ := derefChildrenF_freed fuel cs h f h' f' e
  exact ⟨p, e1, w.nodup, w.mem, w.complete, w.sub⟩

theorem derefProcessF_freed (v : Variant) (h : Heap K D) (f : List Addr) (k : K) (cs : List Addr)
    (h' : Heap K D) (f' : List Addr) (e : derefProcessF v (h, f) k cs = .ok (h', f')) :
    ∃ p, f' = p ++ f ∧ Freed h h' p := by
  simp only [derefProcessF] at e
  split at e
  · simp only [Except.ok.injEq, Prod.mk.injEq] at e
    obtain ⟨e1, e2⟩ := e
    subst e1 e2
    exact ⟨[], rfl, Freed.of_nodes_eq rfl⟩
  · split at e
    · simp only [Except.ok.injEq, Prod.mk.injEq] at e
      obtain ⟨e1, e2⟩ := e
      subst e1 e2
      exact ⟨[], rfl, Freed.of_nodes_eq rfl⟩
    · obtain ⟨p, e1, w⟩ := derefChildrenF_freed _ _ _ _ _ _ e
      exact ⟨p, e1, ⟨w.nodup, w.mem, w.complete, w.sub⟩⟩

theorem derefProcessF_pushed (v : Variant) (h : Heap K D) (f : List Addr) (k : K) (cs : List Addr)
    (h' : Heap K D) (f' : List Addr) (e : derefProcessF v (h, f) k cs = .ok (h', f')) :
    ∃ pushed, f' = pushed ++ f ∧ pushed.Nodup ∧
      (∀ a ∈ pushed, present h a ∧ ¬ present h' a) ∧
      (∀ a, present h a → ¬ present h' a → a ∈ pushed) ∧
      (∀ a n, h'.nodes.get a = some n → h.nodes.get a = some n) := by
  obtain ⟨p, e1, w⟩ := derefProcessF_freed v h f k cs h' f' e
  exact ⟨p, e1, w.nodup, w.mem, w.complete, w.sub⟩

/-! ### node changes and change sets -/

theorem applyNodeChange_newValue (v : Variant) (h : Heap K D) (f : List Addr) (a : Addr)
    (n : Node D) :
    applyNodeChange v (h, f) (.newValue a n) =
      .ok ({ h with nodes := h.nodes.set a (some n) }, f) := rfl

theorem applyNodeChange_incRef (v : Variant) (h : Heap K D) (f : List Addr) (a : Addr) :
    applyNodeChange v (h, f) (.incRef a) = .ok (incRef h a, f) := rfl

theorem incRef_nodes (h : Heap K D) (a : Addr) : (incRef h a).nodes = h.nodes := rfl
theorem incRef_next (h : Heap K D) (a : Addr) : (incRef h a).next = h.next := rfl
theorem incRef_roots (h : Heap K D) (a : Addr) : (incRef h a).roots = h.roots := rfl

theorem applyNodeChange_derefChildren (v : Variant) (hf : Heap K D × List Addr) (k : K)
    (cs : List Addr) :
    applyNodeChange v hf (.derefChildren k cs) = derefProcessF v hf k cs := rfl

/-- root changes touch neither the nodes, nor the counts, nor the fill mark -/
theorem applyRootChange_frame (v : Variant) (h : Heap K D) (c : RootChange K D) :
    (applyRootChange v h c).nodes = h.nodes ∧ (applyRootChange v h c).rc = h.rc ∧
      (applyRootChange v h c).next = h.next := by
  cases c with
  | set k root => exact ⟨rfl, rfl, rfl⟩
  | reference k =>
    simp only [applyRootChange]
    cases v with
    | appendOnly => exact ⟨rfl, rfl, rfl⟩
    | plain => exact ⟨rfl, rfl, rfl⟩
    | rcRoots =>
      simp only [referenceTree]
      cases h.roots.get k with
      | none => exact ⟨rfl, rfl, rfl⟩
      | some e => exact ⟨rfl, rfl, rfl⟩

theorem applyRootChanges_frame (v : Variant) (l : List (RootChange K D)) (h : Heap K D) :
    (l.foldl (applyRootChange v) h).nodes = h.nodes ∧ (l.foldl (applyRootChange v) h).rc = h.rc ∧
      (l.foldl (applyRootChange v) h).next = h.next := by
  induction l generalizing h with
  | nil => exact ⟨rfl, rfl, rfl⟩
  | cons c l ih =>
    simp only [List.foldl_cons]
    obtain ⟨a1, a2, a3⟩ := ih (applyRootChange v h c)
    obtain ⟨b1, b2, b3⟩ := applyRootChange_frame v h c
    exact ⟨a1.trans b1, a2.trans b2, a3.trans b3⟩

/-- addresses written (`NewValue`) by a list of node changes, in order -/
def claimedOf (l : List (NodeChange K D)) : List Addr := csClaimed (⟨[], l⟩ : ChangeSet K D)

theorem csClaimed_eq (cs : ChangeSet K D) : csClaimed cs = claimedOf cs.nodeChanges := rfl

@[simp] theorem claimedOf_nil : claimedOf ([] : List (NodeChange K D)) = [] := rfl
@[simp] theorem claimedOf_newValue (a : Addr) (n : Node D) (l : List (NodeChange K D)) :
    claimedOf (.newValue a n :: l) = a :: claimedOf l := rfl
@[simp] theorem claimedOf_incRef (a : Addr) (l : List (NodeChange K D)) :
    claimedOf (.incRef a :: l) = claimedOf l := rfl
@[simp] theorem claimedOf_derefChildren (k : K) (cs : List Addr) (l : List (NodeChange K D)) :
    claimedOf (.derefChildren k cs :: l) = claimedOf l := rfl

theorem claimedOf_append (l1 l2 : List (NodeChange K D)) :
    claimedOf (l1 ++ l2) = claimedOf l1 ++ claimedOf l2 := by
  simp only [claimedOf, csClaimed, List.filterMap_append]

theorem present_set_some (h : Heap K D) (a b : Addr) (n : Node D) :
    present { h with nodes := h.nodes.set a (some n) } b ↔ (b = a ∨ present h b) := by
  simp only [present, FMap.get_set]
  by_cases e : b = a
  · simp [e]
  · simp [e]

/-- Applying a list of node changes whose written addresses are pairwise distinct and hold no
    node before: the free stack grows by `pushed` (no repetition; every pushed address was a
    node before or is written by the list), and the nodes afterwards are exactly the old ones and
    the written ones that were not pushed.  The fill mark stays. -/
theorem applyNodeChanges_pushed (v : Variant) :
    ∀ (l : List (NodeChange K D)) (h : Heap K D) (f : List Addr) (h' : Heap K D) (f' : List Addr),
      (claimedOf l).Nodup → (∀ a ∈ claimedOf l, ¬ present h a) →
      l.foldlM (applyNodeChange v) (h, f) = .ok (h', f') →
      ∃ pushed, f' = pushed ++ f ∧ pushed.Nodup ∧
        (∀ a ∈ pushed, present h a ∨ a ∈ claimedOf l) ∧
        (∀ a, present h' a ↔ ((present h a ∨ a ∈ claimedOf l) ∧ a ∉ pushed)) ∧
        h'.next = h.next := by
  intro l
  induction l with
  | nil =>
    intro h f h' f' _ _ e
    simp only [List.foldlM_nil, pure, Except.pure, Except.ok.injEq, Prod.mk.injEq] at e
    obtain ⟨e1, e2⟩ := e
    subst e1 e2
    exact ⟨[], rfl, List.nodup_nil, by simp, by simp, rfl⟩
  | cons c l ih =>
    intro h f h' f' hnd hfr e
    simp only [List.foldlM_cons] at e
    cases c with
    | newValue a n =>
      rw [applyNodeChange_newValue] at e
      simp only [claimedOf_newValue, List.nodup_cons, List.mem_cons, forall_eq_or_imp] at hnd hfr
      have hfr' : ∀ b ∈ claimedOf l, ¬ present { h with nodes := h.nodes.set a (some n) } b := by
        intro b hb hp
        rcases (present_set_some h a b n).mp hp with e1 | e1
        · subst e1; exact hnd.1 hb
        · exact hfr.2 b hb e1
      obtain ⟨p, e1, nd, hsub, hiff, hnx⟩ := ih _ f h' f' hnd.2 hfr' e
      refine ⟨p, e1, nd, ?_, ?_, hnx⟩
      · intro b hb
        rcases hsub b hb with hp | hp
        · rcases (present_set_some h a b n).mp hp with e2 | e2
          · exact Or.inr (by simp [e2])
          · exact Or.inl e2
        · exact Or.inr (by simp [hp])
      · intro b
        rw [hiff b, present_set_some, claimedOf_newValue, List.mem_cons]
        constructor
        · rintro ⟨(e2 | e2) | e2, h3⟩
          · exact ⟨Or.inr (Or.inl e2), h3⟩
          · exact ⟨Or.inl e2, h3⟩
          · exact ⟨Or.inr (Or.inr e2), h3⟩
        · rintro ⟨e2 | e2 | e2, h3⟩
          · exact ⟨Or.inl (Or.inr e2), h3⟩
          · exact ⟨Or.inl (Or.inl e2), h3⟩
          · exact ⟨Or.inr e2, h3⟩
    | incRef a =>
      rw [applyNodeChange_incRef] at e
      simp only [claimedOf_incRef] at hnd hfr ⊢
      exact ih (incRef h a) f h' f' hnd hfr e
    | derefChildren k cs =>
      rw [applyNodeChange_derefChildren] at e
      simp only [claimedOf_derefChildren] at hnd hfr ⊢
      cases hs : derefProcessF v (h, f) k cs with
      | error er => rw [hs] at e; cases e
      | ok x =>
        obtain ⟨h1, f1⟩ := x
        rw [hs] at e
        obtain ⟨p1, e1, w⟩ := derefProcessF_freed v h f k cs h1 f1 hs
        have hnx1 : h1.next = h.next := derefProcess_next v h h1 k cs (derefProcessF_ok_fst v h h1 f f1 k cs hs)
        have hfr' : ∀ b ∈ claimedOf l, ¬ present h1 b :=
          fun b hb hp => hfr b hb (w.present_sub b hp)
        obtain ⟨p2, e2, nd, hsub, hiff, hnx⟩ := ih h1 f1 h' f' hnd hfr' e
        refine ⟨p2 ++ p1, by rw [e2, e1, List.append_assoc], ?_, ?_, ?_, hnx.trans hnx1⟩
        · rw [List.nodup_append]
          refine ⟨nd, w.nodup, ?_⟩
          intro a ha b hb eab
          subst eab
          rcases hsub a ha with hp | hp
          · exact (w.mem a hb).2 hp
          · exact hfr a hp (w.mem a hb).1
        · intro a ha
          rcases List.mem_append.mp ha with ha | ha
          · rcases hsub a ha with hp | hp
            · exact Or.inl (w.present_sub a hp)
            · exact Or.inr hp
          · exact Or.inl (w.mem a ha).1
        · intro a
          rw [hiff a, w.present_after a, List.mem_append]
          constructor
          · rintro ⟨⟨h3, h4⟩ | h3, h5⟩
            · exact ⟨Or.inl h3, fun hm => hm.elim h5 h4⟩
            · exact ⟨Or.inr h3, fun hm => hm.elim h5 (fun h6 => hfr a h3 (w.mem a h6).1)⟩
          · rintro ⟨h3 | h3, h5⟩
            · exact ⟨Or.inl ⟨h3, fun h6 => h5 (Or.inr h6)⟩, fun h6 => h5 (Or.inl h6)⟩
            · exact ⟨Or.inr h3, fun h6 => h5 (Or.inl h6)⟩

/-- Summary for slot accounting: processing a change set whose claimed addresses `cl` are pairwise
    distinct and hold no node pushes `pushed` on the free stack (no repetition, every pushed
    address was a node or is claimed by the set), and afterwards exactly the old nodes and the
    claimed addresses that were not pushed are nodes.  The fill mark stays.

    The two hypotheses exclude a `NewValue` of an address after the walk has freed it inside the
    same change set; without them `pushed` may repeat an address and a pushed address may be
    a node again at the end. -/
theorem applyChangeSetF41_pushed (v : Variant) (h : Heap K D) (f : List Addr) (cs : ChangeSet K D)
    (h' : Heap K D) (f' : List Addr)
    (hnd : (csClaimed cs).Nodup) (hfr : ∀ a ∈ csClaimed cs, ¬ present h a)
    (e : applyChangeSetF41 v (h, f) cs = .ok (h', f')) :
    ∃ pushed, f' = pushed ++ f ∧ pushed.Nodup ∧
      (∀ a ∈ pushed, present h a ∨ a ∈ csClaimed cs) ∧
      (∀ a, present h' a ↔ ((present h a ∨ a ∈ csClaimed cs) ∧ a ∉ pushed)) ∧
      h'.next = h.next := by
  simp only [applyChangeSetF41] at e
  obtain ⟨n1, _, n3⟩ := applyRootChanges_frame v cs.changes h
  have hp : ∀ a, present (cs.changes.foldl (applyRootChange v) h) a ↔ present h a := by
    intro a; simp only [present, n1]
  rw [csClaimed_eq] at hnd hfr ⊢
  obtain ⟨p, e1, nd, hsub, hiff, hnx⟩ := applyNodeChanges_pushed v cs.nodeChanges _ f h' f' hnd
    (fun a ha hpa => hfr a ha ((hp a).mp hpa)) e
  refine ⟨p, e1, nd, ?_, ?_, hnx.trans n3⟩
  · intro a ha
    rcases hsub a ha with h1 | h1
    · exact Or.inl ((hp a).mp h1)
    · exact Or.inr h1
  · intro a
    rw [hiff a, hp a]

/-- the same for the fixed planning order: the postponed root `Set`s touch neither the nodes nor
    the free stack nor the fill mark -/
theorem applyChangeSet_pushed (v : Variant) (h : Heap K D) (f : List Addr) (cs : ChangeSet K D)
    (h' : Heap K D) (f' : List Addr)
    (hnd : (csClaimed cs).Nodup) (hfr : ∀ a ∈ csClaimed cs, ¬ present h a)
    (e : applyChangeSet v (h, f) cs = .ok (h', f')) :
    ∃ pushed, f' = pushed ++ f ∧ pushed.Nodup ∧
      (∀ a ∈ pushed, present h a ∨ a ∈ csClaimed cs) ∧
      (∀ a, present h' a ↔ ((present h a ∨ a ∈ csClaimed cs) ∧ a ∉ pushed)) ∧
      h'.next = h.next := by
  simp only [applyChangeSet] at e
  cases he : applyChangeSetF41 v (h, f) cs.early with
  | error er => rw [he] at e; cases e
  | ok x =>
    obtain ⟨h1, f1⟩ := x
    rw [he] at e
    simp only [Except.ok.injEq, Prod.mk.injEq] at e
    obtain ⟨e1, e2⟩ := e
    subst e1 e2
    obtain ⟨n1, _, n3⟩ := applyRootChanges_frame v cs.late h1
    obtain ⟨p, q1, q2, q3, q4, q5⟩ := applyChangeSetF41_pushed v h f cs.early h1 f1 hnd hfr he
    refine ⟨p, q1, q2, q3, ?_, n3.trans q5⟩
    intro a
    have : present (cs.late.foldl (applyRootChange v) h1) a ↔ present h1 a := by
      simp only [present, n1]
    rw [this]
    exact q4 a

/-- unconditional part: the free stack only grows at the top, the fill mark stays -/
theorem applyNodeChanges_stack (v : Variant) :
    ∀ (l : List (NodeChange K D)) (h : Heap K D) (f : List Addr) (h' : Heap K D) (f' : List Addr),
      l.foldlM (applyNodeChange v) (h, f) = .ok (h', f') →
      ∃ pushed, f' = pushed ++ f ∧ (∀ a ∈ pushed, present h a ∨ a ∈ claimedOf l) ∧
        h'.next = h.next := by
  intro l
  induction l with
  | nil =>
    intro h f h' f' e
    simp only [List.foldlM_nil, pure, Except.pure, Except.ok.injEq, Prod.mk.injEq] at e
    obtain ⟨e1, e2⟩ := e
    subst e1 e2
    exact ⟨[], rfl, by simp, rfl⟩
  | cons c l ih =>
    intro h f h' f' e
    simp only [List.foldlM_cons] at e
    cases c with
    | newValue a n =>
      rw [applyNodeChange_newValue] at e
      obtain ⟨p, e1, hsub, hnx⟩ := ih _ f h' f' e
      refine ⟨p, e1, ?_, hnx⟩
      intro b hb
      rcases hsub b hb with hp | hp
      · rcases (present_set_some h a b n).mp hp with e2 | e2
        · exact Or.inr (by simp [e2])
        · exact Or.inl e2
      · exact Or.inr (by simp [hp])
    | incRef a =>
      rw [applyNodeChange_incRef] at e
      exact ih (incRef h a) f h' f' e
    | derefChildren k cs =>
      rw [applyNodeChange_derefChildren] at e
      cases hs : derefProcessF v (h, f) k cs with
      | error er => rw [hs] at e; cases e
      | ok x =>
        obtain ⟨h1, f1⟩ := x
        rw [hs] at e
        obtain ⟨p1, e1, w⟩ := derefProcessF_freed v h f k cs h1 f1 hs
        have hnx1 : h1.next = h.next :=
          derefProcess_next v h h1 k cs (derefProcessF_ok_fst v h h1 f f1 k cs hs)
        obtain ⟨p2, e2, hsub, hnx⟩ := ih h1 f1 h' f' e
        refine ⟨p2 ++ p1, by rw [e2, e1, List.append_assoc], ?_, hnx.trans hnx1⟩
        intro a ha
        simp only [claimedOf_derefChildren]
        rcases List.mem_append.mp ha with ha | ha
        · rcases hsub a ha with hp | hp
          · exact Or.inl (w.present_sub a hp)
          · exact Or.inr hp
        · exact Or.inl (w.mem a ha).1

/-! ## B3: planning is `insRefsA` -/

mutual
  /-- rest of the supply and address: the plan and `insRefA` agree (neither depends on the heap) -/
  theorem planRef_snd (ap : Bool) : ∀ (fresh : List Addr) (r : NRef D) (h : Heap K D),
      (planRef (K := K) ap fresh r).2 = (insRefA ap h fresh r).2
    | fresh, .existing a, h => by simp [planRef, insRefA]
    | fresh, .new d cs, h => by
      have ih := planRefs_snd ap fresh cs h
      rcases hP : planRefs (K := K) ap fresh cs with ⟨chs, f1, as⟩
      rcases hR : insRefsA ap h fresh cs with ⟨h1, f1', as'⟩
      simp only [hP, hR, Prod.mk.injEq] at ih
      obtain ⟨e1, e2⟩ := ih
      subst e1 e2
      simp only [planRef, insRefA, hP, hR]
  theorem planRefs_snd (ap : Bool) : ∀ (fresh : List Addr) (cs : NRefs D) (h : Heap K D),
      (planRefs (K := K) ap fresh cs).2 = (insRefsA ap h fresh cs).2
    | fresh, .nil, h => by simp [planRefs, insRefsA]
    | fresh, .cons r rs, h => by
      have ih1 := planRef_snd ap fresh r h
      rcases hP1 : planRef (K := K) ap fresh r with ⟨c1, f1, a⟩
      rcases hR1 : insRefA ap h fresh r with ⟨h1, f1', a'⟩
      simp only [hP1, hR1, Prod.mk.injEq] at ih1
      obtain ⟨e1, e2⟩ := ih1
      subst e1 e2
      have ih2 := planRefs_snd ap f1 rs h1
      rcases hP2 : planRefs (K := K) ap f1 rs with ⟨c2, f2, as⟩
      rcases hR2 : insRefsA ap h1 f1 rs with ⟨h2, f2', as'⟩
      simp only [hP2, hR2, Prod.mk.injEq] at ih2
      obtain ⟨e1, e2⟩ := ih2
      subst e1 e2
      simp only [planRefs, insRefsA, hP1, hR1, hP2, hR2]
end

theorem foldlM_append_ok {σ α : Type} (step : σ → α → Except Err σ) (l1 l2 : List α) (s s1 : σ)
    (e : l1.foldlM step s = .ok s1) : (l1 ++ l2).foldlM step s = l2.foldlM step s1 := by
  rw [List.foldlM_append, e]
  rfl

mutual
  /-- applying the planned node changes is `insRefA`; the free stack is not touched -/
  theorem planRef_apply (ap : Bool) (v : Variant) : ∀ (fresh : List Addr) (r : NRef D)
      (h : Heap K D) (f : List Addr),
      (planRef (K := K) ap fresh r).1.foldlM (applyNodeChange v) (h, f) =
        .ok ((insRefA ap h fresh r).1, f)
    | fresh, .existing a, h, f => by
      cases ap
      · simp only [planRef, insRefA, Bool.false_eq_true, if_false]
        rfl
      · simp only [planRef, insRefA, if_true]
        rfl
    | fresh, .new d cs, h, f => by
      have ih := planRefs_apply ap v fresh cs h f
      have hs := planRefs_snd ap fresh cs h
      rcases hP : planRefs (K := K) ap fresh cs with ⟨chs, f1, as⟩
      rcases hR : insRefsA ap h fresh cs with ⟨h1, f1', as'⟩
      simp only [hP, hR, Prod.mk.injEq] at ih hs
      obtain ⟨e1, e2⟩ := hs
      subst e1 e2
      simp only [planRef, insRefA, hP, hR]
      rw [foldlM_append_ok _ _ _ _ _ ih]
      rfl
  theorem planRefs_apply (ap : Bool) (v : Variant) : ∀ (fresh : List Addr) (cs : NRefs D)
      (h : Heap K D) (f : List Addr),
      (planRefs (K := K) ap fresh cs).1.foldlM (applyNodeChange v) (h, f) =
        .ok ((insRefsA ap h fresh cs).1, f)
    | fresh, .nil, h, f => by
      simp only [planRefs, insRefsA]
      rfl
    | fresh, .cons r rs, h, f => by
      have ih1 := planRef_apply ap v fresh r h f
      have hs1 := planRef_snd ap fresh r h
      rcases hP1 : planRef (K := K) ap fresh r with ⟨c1, f1, a⟩
      rcases hR1 : insRefA ap h fresh r with ⟨h1, f1', a'⟩
      simp only [hP1, hR1, Prod.mk.injEq] at ih1 hs1
      obtain ⟨e1, e2⟩ := hs1
      subst e1 e2
      have ih2 := planRefs_apply ap v f1 rs h1 f
      rcases hP2 : planRefs (K := K) ap f1 rs with ⟨c2, f2, as⟩
      rcases hR2 : insRefsA ap h1 f1 rs with ⟨h2, f2', as'⟩
      simp only [hP2, hR2] at ih2
      simp only [planRefs, insRefsA, hP1, hR1, hP2, hR2]
      rw [foldlM_append_ok _ _ _ _ _ ih1]
      exact ih2
end

mutual
  theorem NRef.news_eq_newCount : ∀ (r : NRef D), r.news = r.newCount
    | .existing a => rfl
    | .new d cs => by simp only [NRef.news, NRef.newCount, NRefs.news_eq_newCount cs]
  theorem NRefs.news_eq_newCount : ∀ (cs : NRefs D), cs.news = cs.newCount
    | .nil => rfl
    | .cons r rs => by
      simp only [NRefs.news, NRefs.newCount, NRef.news_eq_newCount r, NRefs.news_eq_newCount rs]
end

mutual
  theorem NRef.news_eq_size : ∀ (r : NRef D), r.news = r.size
    | .existing a => rfl
    | .new d cs => by simp only [NRef.news, NRef.size, NRefs.news_eq_size cs]
  theorem NRefs.news_eq_size : ∀ (cs : NRefs D), cs.news = cs.size
    | .nil => rfl
    | .cons r rs => by
      simp only [NRefs.news, NRefs.size, NRef.news_eq_size r, NRefs.news_eq_size rs]
end

mutual
  /-- the addresses written by a plan are the part of the supply it consumed, in order -/
  theorem planRef_claimed (ap : Bool) : ∀ (fresh : List Addr) (r : NRef D),
      r.news ≤ fresh.length →
      claimedOf (planRef (K := K) ap fresh r).1 ++ (planRef (K := K) ap fresh r).2.1 = fresh ∧
        (claimedOf (planRef (K := K) ap fresh r).1).length = r.news
    | fresh, .existing a, _ => by
      cases ap
      · simp only [planRef, Bool.false_eq_true, if_false, NRef.news]
        exact ⟨rfl, rfl⟩
      · simp only [planRef, if_true, NRef.news]
        exact ⟨rfl, rfl⟩
    | fresh, .new d cs, hl => by
      simp only [NRef.news] at hl
      have ih := planRefs_claimed ap fresh cs (by omega)
      rcases hP : planRefs (K := K) ap fresh cs with ⟨chs, f1, as⟩
      simp only [hP] at ih
      obtain ⟨e1, e2⟩ := ih
      simp only [planRef, hP, NRef.news, claimedOf_append, List.length_append, e2]
      have hlen : (claimedOf chs ++ f1).length = fresh.length := by rw [e1]
      simp only [List.length_append, e2] at hlen
      cases f1 with
      | nil => simp only [List.length_nil] at hlen; omega
      | cons x t =>
        simp only [List.headD_cons, List.tail_cons, claimedOf_newValue, claimedOf_nil,
          List.append_assoc, List.singleton_append, List.length_singleton]
        exact ⟨e1, trivial⟩
  theorem planRefs_claimed (ap : Bool) : ∀ (fresh : List Addr) (cs : NRefs D),
      cs.news ≤ fresh.length →
      claimedOf (planRefs (K := K) ap fresh cs).1 ++ (planRefs (K := K) ap fresh cs).2.1 = fresh ∧
        (claimedOf (planRefs (K := K) ap fresh cs).1).length = cs.news
    | fresh, .nil, _ => by
      simp only [planRefs, NRefs.news]
      exact ⟨rfl, rfl⟩
    | fresh, .cons r rs, hl => by
      simp only [NRefs.news] at hl
      have ih1 := planRef_claimed ap fresh r (by omega)
      rcases hP1 : planRef (K := K) ap fresh r with ⟨c1, f1, a⟩
      simp only [hP1] at ih1
      obtain ⟨e1, e2⟩ := ih1
      have hlen : (claimedOf c1 ++ f1).length = fresh.length := by rw [e1]
      simp only [List.length_append, e2] at hlen
      have ih2 := planRefs_claimed ap f1 rs (by omega)
      rcases hP2 : planRefs (K := K) ap f1 rs with ⟨c2, f2, as⟩
      simp only [hP2] at ih2
      obtain ⟨e3, e4⟩ := ih2
      simp only [planRefs, hP1, hP2, NRefs.news, claimedOf_append, List.length_append, e2, e4,
        List.append_assoc, e3, e1]
      exact ⟨trivial, trivial⟩
end

/-- the addresses written by the plan of a tree whose supply is exactly as long as the tree has
    new nodes: all of the supply, in order -/
theorem planRefs_claimed_exact (ap : Bool) (fresh : List Addr) (cs : NRefs D)
    (hl : fresh.length = cs.news) :
    claimedOf (planRefs (K := K) ap fresh cs).1 = fresh ∧ (planRefs (K := K) ap fresh cs).2.1 = [] := by
  obtain ⟨e1, e2⟩ := planRefs_claimed (K := K) ap fresh cs (by omega)
  have hlen : (claimedOf (planRefs (K := K) ap fresh cs).1 ++ (planRefs (K := K) ap fresh cs).2.1).length
      = fresh.length := by rw [e1]
  simp only [List.length_append, e2] at hlen
  have hnil : (planRefs (K := K) ap fresh cs).2.1 = [] := List.eq_nil_of_length_eq_zero (by omega)
  rw [hnil, List.append_nil] at e1
  exact ⟨e1, hnil⟩

/-! ## B4: `claim_entries` -/

/-- closed form: the top `n` entries of the free stack, then the fill mark counts on -/
theorem claimEntries_eq : ∀ (n : Nat) (free : List Addr) (next : Addr),
    claimEntries n free next =
      (free.take n ++ List.range' next (n - free.length), free.drop n, next + (n - free.length))
  | 0, free, next => by simp [claimEntries]
  | n + 1, a :: free, next => by
    simp only [claimEntries, claimEntries_eq n free next, List.take_succ_cons, List.cons_append,
      List.length_cons, Nat.add_sub_add_right, List.drop_succ_cons]
  | n + 1, [], next => by
    simp only [claimEntries, claimEntries_eq n [] (next + 1), List.take_nil, List.nil_append,
      List.length_nil, Nat.sub_zero, List.drop_nil, List.range'_succ, Prod.mk.injEq, true_and]
    omega

theorem claimEntries_spec (n : Nat) (free : List Addr) (next : Addr) :
    let r := claimEntries n free next
    r.1 = (free ++ List.range' next n).take n ∧ r.2.1 = free.drop n ∧
      r.2.2 = next + (n - free.length) ∧ r.1.length = n := by
  simp only [claimEntries_eq]
  refine ⟨?_, trivial, trivial, ?_⟩
  · rw [List.take_append, List.take_range'_of_length_ge (by omega)]
  · simp only [List.length_append, List.length_take, List.length_range']
    omega

theorem claimEntries_fst (n : Nat) (free : List Addr) (next : Addr) :
    (claimEntries n free next).1 = free.take n ++ List.range' next (n - free.length) := by
  rw [claimEntries_eq]

theorem claimEntries_free (n : Nat) (free : List Addr) (next : Addr) :
    (claimEntries n free next).2.1 = free.drop n := by
  rw [claimEntries_eq]

theorem claimEntries_next (n : Nat) (free : List Addr) (next : Addr) :
    (claimEntries n free next).2.2 = next + (n - free.length) := by
  rw [claimEntries_eq]

theorem claimEntries_length (n : Nat) (free : List Addr) (next : Addr) :
    (claimEntries n free next).1.length = n := (claimEntries_spec n free next).2.2.2

/-- claimed ++ remaining free stack = old free stack ++ the new slots, up to order -/
theorem claimEntries_mem (n : Nat) (free : List Addr) (next : Addr) (a : Addr) :
    (a ∈ (claimEntries n free next).1 ∨ a ∈ (claimEntries n free next).2.1) ↔
      (a ∈ free ∨ (next ≤ a ∧ a < (claimEntries n free next).2.2)) := by
  simp only [claimEntries_eq, List.mem_append, List.mem_range'_1]
  constructor
  · rintro ((h | h) | h)
    · exact Or.inl (List.mem_of_mem_take h)
    · exact Or.inr h
    · exact Or.inl (List.mem_of_mem_drop h)
  · rintro (h | h)
    · rw [← List.take_append_drop n free, List.mem_append] at h
      rcases h with h | h
      · exact Or.inl (Or.inl h)
      · exact Or.inr h
    · exact Or.inl (Or.inr h)

/-- with a sound free stack (no repetition, below the fill mark): the claimed addresses are
    pairwise distinct, each is a former free slot or a new slot in `[next, next')`, the fill mark
    does not decrease, the remaining stack is a part of the old one (so still without repetition
    and below the mark) and disjoint from the claimed addresses -/
theorem claimEntries_sound (n : Nat) (free : List Addr) (next : Addr) (hnd : free.Nodup)
    (hb : ∀ a ∈ free, a < next) :
    let r := claimEntries n free next
    r.1.Nodup ∧
    (∀ a ∈ r.1, a ∈ free ∨ (next ≤ a ∧ a < r.2.2)) ∧
    next ≤ r.2.2 ∧
    r.2.1.Sublist free ∧ r.2.1.Nodup ∧ (∀ a ∈ r.2.1, a < next) ∧
    (∀ a ∈ r.1, a ∉ r.2.1) ∧ (r.1 ++ r.2.1).Nodup ∧ (∀ a ∈ r.1, a < r.2.2) := by
  simp only [claimEntries_eq]
  have hsub : (free.drop n).Sublist free := List.drop_sublist n free
  have hdj : ∀ a ∈ free.take n ++ List.range' next (n - free.length), a ∉ free.drop n := by
    intro a ha hd
    rcases List.mem_append.mp ha with h | h
    · have := hnd
      rw [← List.take_append_drop n free, List.nodup_append] at this
      exact this.2.2 a h a hd rfl
    · have := hb a (List.mem_of_mem_drop hd)
      have := (List.mem_range'_1.mp h).1
      omega
  have hnd1 : (free.take n ++ List.range' next (n - free.length)).Nodup := by
    rw [List.nodup_append]
    refine ⟨List.Nodup.sublist (List.take_sublist n free) hnd, List.nodup_range' 1, ?_⟩
    intro a ha b hb' e
    subst e
    have := hb a (List.mem_of_mem_take ha)
    have := (List.mem_range'_1.mp hb').1
    omega
  refine ⟨hnd1, ?_, by omega, hsub, List.Nodup.sublist hsub hnd,
    fun a ha => hb a (List.mem_of_mem_drop ha), hdj, ?_, ?_⟩
  · intro a ha
    rcases List.mem_append.mp ha with h | h
    · exact Or.inl (List.mem_of_mem_take h)
    · exact Or.inr (List.mem_range'_1.mp h)
  · rw [List.nodup_append]
    exact ⟨hnd1, List.Nodup.sublist hsub hnd, fun a ha b hb' e => hdj a ha (e ▸ hb')⟩
  · intro a ha
    rcases List.mem_append.mp ha with h | h
    · have := hb a (List.mem_of_mem_take h); omega
    · exact (List.mem_range'_1.mp h).2

/-! ## B5: validation implies that the assembly cannot fail -/

mutual
  theorem NRef.valid_iff_maxFan : ∀ (r : NRef D), r.valid = true ↔ r.maxFan ≤ 255
    | .existing a => by simp [NRef.valid, NRef.maxFan]
    | .new d cs => by
      simp only [NRef.valid, NRef.maxFan, Bool.and_eq_true, decide_eq_true_eq,
        NRefs.valid_iff_maxFan cs, Nat.max_le]
      simp only [MAX_CHILDREN]
  theorem NRefs.valid_iff_maxFan : ∀ (cs : NRefs D), cs.valid = true ↔ cs.maxFan ≤ 255
    | .nil => by simp [NRefs.valid, NRefs.maxFan]
    | .cons r rs => by
      simp only [NRefs.valid, NRefs.maxFan, Bool.and_eq_true, NRef.valid_iff_maxFan r,
        NRefs.valid_iff_maxFan rs, Nat.max_le]
end

/-- the old Bool check of `validate_node` is `maxFan ≤ 255` -/
theorem NewNode.valid_iff_maxFan (t : NewNode D) : t.valid = true ↔ t.maxFan ≤ 255 := by
  simp only [NewNode.valid, NewNode.maxFan, Bool.and_eq_true, decide_eq_true_eq,
    NRefs.valid_iff_maxFan t.children, Nat.max_le]
  simp only [MAX_CHILDREN]

/-- one operation: an operation that `validate_change` accepts is assembled without error -/
theorem asmOp_ok_of_valid (v : Variant) (view : K → Option (Node D)) (acc : Asm K D) (op : Op K D)
    (hv : Validate.validateChange v.opts (op.kind view) = .ok) :
    ∃ acc', asmOp v view acc op = .ok acc' := by
  cases op with
  | insert k t =>
    simp only [asmOp]
    exact ⟨_, rfl⟩
  | reference k =>
    simp only [asmOp]
    split <;> exact ⟨_, rfl⟩
  | dereference k =>
    cases v with
    | appendOnly => simp [Op.kind, Variant.opts, Validate.validateChange] at hv
    | rcRoots =>
      cases hk : view k with
      | none => simp [Op.kind, Variant.opts, Validate.validateChange, hk] at hv
      | some r => simp only [asmOp, hk]; exact ⟨_, rfl⟩
    | plain =>
      cases hk : view k with
      | none => simp [Op.kind, Variant.opts, Validate.validateChange, hk] at hv
      | some r => simp only [asmOp, hk]; exact ⟨_, rfl⟩

theorem validateOps_cons_ok (v : Variant) (view : K → Option (Node D)) (op : Op K D)
    (ops : List (Op K D)) :
    validateOps v view (op :: ops) = .ok ↔
      (Validate.validateChange v.opts (op.kind view) = .ok ∧ validateOps v view ops = .ok) := by
  simp only [validateOps]
  cases Validate.validateChange v.opts (op.kind view) <;> simp

/-- a validated transaction is assembled without error, whatever has been accumulated -/
theorem asmOps_ok_of_valid (v : Variant) (view : K → Option (Node D)) (acc : Asm K D)
    (ops : List (Op K D)) (hv : validateOps v view ops = .ok) :
    (asmOps v view acc ops).2 = .ok () := by
  induction ops generalizing acc with
  | nil => rfl
  | cons op ops ih =>
    obtain ⟨h1, h2⟩ := (validateOps_cons_ok v view op ops).mp hv
    obtain ⟨acc', e⟩ := asmOp_ok_of_valid v view acc op h1
    simp only [asmOps, e]
    exact ih acc' h2

theorem verdictRes_ok_iff (e : Validate.Verdict) : verdictRes e = .ok () ↔ e = .ok := by
  cases e <;> simp [verdictRes]

/-- unfolding of an accepted commit: claims / counters written back and the change set queued -/
theorem TState.commit_ok_eq (s : TState K D) (ops : List (Op K D))
    (hv : validateOps s.variant s.viewRoot ops = .ok) :
    s.commit ops =
      ({ s.withAsm (asmOps s.variant s.viewRoot s.asm0 ops).1 with
          queue := s.queue ++ [(asmOps s.variant s.viewRoot s.asm0 ops).1.cs] }, .ok ()) := by
  have h2 := asmOps_ok_of_valid s.variant s.viewRoot s.asm0 ops hv
  rcases hA : asmOps s.variant s.viewRoot s.asm0 ops with ⟨a, r⟩
  rw [hA] at h2
  simp only at h2
  subst h2
  simp only [TState.commit, hv, hA]

/-- unfolding of a rejected commit -/
theorem TState.commit_invalid_eq (s : TState K D) (ops : List (Op K D))
    (hv : validateOps s.variant s.viewRoot ops ≠ .ok) :
    s.commit ops = (s, verdictRes (validateOps s.variant s.viewRoot ops)) := by
  cases h : validateOps s.variant s.viewRoot ops with
  | ok => exact absurd h hv
  | invalidInput => simp only [TState.commit, h]
  | invalidConfiguration => simp only [TState.commit, h]

/-- a commit is accepted iff every operation passes `validate_change` -/
theorem TState.commit_ok_iff (s : TState K D) (ops : List (Op K D)) :
    (s.commit ops).2 = .ok () ↔ validateOps s.variant s.viewRoot ops = .ok := by
  by_cases hv : validateOps s.variant s.viewRoot ops = .ok
  · rw [TState.commit_ok_eq s ops hv]
    exact ⟨fun _ => hv, fun _ => rfl⟩
  · rw [TState.commit_invalid_eq s ops hv, verdictRes_ok_iff]

/-- a rejected commit returns the state unchanged: no claim, no counter, nothing queued -/
theorem TState.commit_err (s : TState K D) (ops : List (Op K D))
    (h : (s.commit ops).2 ≠ .ok ()) : (s.commit ops).1 = s := by
  by_cases hv : validateOps s.variant s.viewRoot ops = .ok
  · exact absurd ((TState.commit_ok_iff s ops).mpr hv) h
  · rw [TState.commit_invalid_eq s ops hv]

/-- the state after an accepted commit, in the form asked for by the C10 proofs -/
theorem TState.commit_ok_fst (s : TState K D) (ops : List (Op K D))
    (h : (s.commit ops).2 = .ok ()) :
    (s.commit ops).1 =
      { s.withAsm (asmOps s.variant s.viewRoot s.asm0 ops).1 with
          queue := s.queue ++ [(asmOps s.variant s.viewRoot s.asm0 ops).1.cs] } := by
  rw [TState.commit_ok_eq s ops ((TState.commit_ok_iff s ops).mp h)]

end Pdb.MultiTree
