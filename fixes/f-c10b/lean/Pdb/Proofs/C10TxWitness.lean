/-
C10, transactions: concrete witnesses of what the planning order of `write_plan` (root changes
that are not postponed, node changes, postponed root `Set`s; before the fix of finding F41: all
root changes, then all node changes) does to transactions that name a root key twice, and of what
the Db accepts outside the property's quantifier.  All by evaluation of the executable model
(`TState Nat Nat`); every one of these histories is replayed on the real crate by the scenarios of
harness/src/c10.rs (model and implementation agree on every observation).
-/
import Pdb.Proofs.C10TxDefs

namespace Pdb.MultiTree.Witness
open Pdb.MultiTree

abbrev S := TState Nat Nat

def run (v : Variant) (cmds : List (CmdT Nat Nat)) : S := cmds.foldl stepT (TState.init v)

/-- the same schedule with the planning order before the fix of finding F41 -/
def runF41 (v : Variant) (cmds : List (CmdT Nat Nat)) : S := cmds.foldl stepTF41 (TState.init v)

/-- root entry as (data, children, count) -/
def rootOf (s : S) (k : Nat) : Option (Nat × List Nat × Nat) :=
  (s.heap.roots.get k).map (fun e => (e.1.data, e.1.children, e.2))
def viewRootOf (s : S) (k : Nat) : Option (Nat × List Nat) :=
  (s.viewRoot k).map (fun n => (n.data, n.children))
def nodeAddrs (s : S) : List Nat := s.heap.nodes.l.map Prod.fst

/-- tree 1: root 10 -> [leaf 11, leaf 12] -/
def t1 : NewNode Nat := ⟨10, .cons (.new 11 .nil) (.cons (.new 12 .nil) .nil)⟩
/-- tree 2: root 20 -> [leaf 21] -/
def t2 : NewNode Nat := ⟨20, .cons (.new 21 .nil) .nil⟩

/-! ### `[DereferenceTree k, ReferenceTree k]` on a root with count 1: the tree is KEPT

The Reference is planned before the dereference (count 1 -> 2 -> 1, no walk); executed in the
order given the dereference would remove the tree and the reference would find nothing.
Admissible: inside one transaction the references are counted before the dereferences - the net
count of the transaction is applied, the count never visibly reaches zero. -/

def derefRef : List (CmdT Nat Nat) :=
  [.commit [.insert 1 t1], .process, .commit [.dereference 1, .reference 1], .process]

theorem deref_ref_same_tx_keeps :
    rootOf (run .rcRoots derefRef) 1 = some (10, [0, 1], 1) ∧ nodeAddrs (run .rcRoots derefRef) = [1, 0] ∧
    (run .rcRoots derefRef).queue.length = 0 := by decide

/-- ... whereas the same two operations executed one after the other remove the tree -/
theorem deref_ref_in_order_drops :
    let h := (run .rcRoots [.commit [.insert 1 t1], .process]).heap
    ((inOrderTx .rcRoots h [] 2 [.dereference 1, .reference 1]).roots.get 1).isNone = true ∧
    (inOrderTx .rcRoots h [] 2 [.dereference 1, .reference 1]).nodes.l.length = 0 := by decide

/-! ### `[DereferenceTree k, InsertTree k t']` ("replace the tree under k"), finding F41 (fixed)

Read in order the transaction is legal (k has no live root when it is inserted) and must leave
k -> t'.  The implementation accepts it and shows t' while the commit is queued.

UNFIXED planning order (`runF41`: all root changes, then all node changes): the root `Set` comes
first:
  plain column        the dereference then removes the NEW root and frees the OLD nodes: k is gone
                      and the node of t' is leaked (unreachable, never reclaimed);
  ref-counted column  the Set only raises the count of the OLD root (2), the dereference lowers it
                      (1): k still shows the OLD tree, the node of t' is leaked.
FIXED planning order (`run`: the `Set` of a key that is dereferenced in the same change set is
planned after the node changes): the dereference removes the old root and frees the old nodes, then
the `Set` stores the new root: k -> t', exactly the entries of t', and a final DereferenceTree k
leaves the column empty. -/

def derefInsert : List (CmdT Nat Nat) :=
  [.commit [.insert 1 t1], .process, .commit [.dereference 1, .insert 1 t2]]

theorem F41_queued_view_shows_new_tree (v : Variant) (hv : v = .plain ∨ v = .rcRoots) :
    viewRootOf (run v derefInsert) 1 = some (20, [2]) := by
  rcases hv with rfl | rfl <;> decide

theorem F41_plain_tree_lost_node_leaked :
    let s := runF41 .plain (derefInsert ++ [.process])
    rootOf s 1 = none ∧ viewRootOf s 1 = none ∧ nodeAddrs s = [2] ∧ s.queue.length = 0 ∧
    (s.countEntries (fun _ => 0)).toOption = some 1 := by decide

theorem F41_rc_old_tree_kept_node_leaked :
    let s := runF41 .rcRoots (derefInsert ++ [.process])
    rootOf s 1 = some (10, [0, 1], 1) ∧ nodeAddrs s = [2, 1, 0] ∧ s.queue.length = 0 ∧
    (s.countEntries (fun _ => 0)).toOption = some 4 := by decide

/-- the fixed planning order: k -> t' (one root, one node: 2 entries), the old nodes are freed (their
    slots are back on the free stack), and a final DereferenceTree k leaves nothing -/
theorem replace_reads_back (v : Variant) (hv : v = .plain ∨ v = .rcRoots) :
    (let s := run v (derefInsert ++ [.process])
     rootOf s 1 = some (20, [2], 1) ∧ viewRootOf s 1 = some (20, [2]) ∧ nodeAddrs s = [2] ∧
     (s.heap.nodes.get 2).map (fun n => (n.data, n.children)) = some (21, []) ∧ s.free = [1, 0] ∧ s.queue.length = 0 ∧
     (s.countEntries (fun _ => 0)).toOption = some 2) ∧
    (let s := run v (derefInsert ++ [.process, .commit [.dereference 1], .process])
     rootOf s 1 = none ∧ nodeAddrs s = [] ∧ s.heap.rc.l = [] ∧ s.free = [2, 1, 0] ∧
     (s.countEntries (fun _ => 0)).toOption = some 0) := by
  rcases hv with rfl | rfl <;> decide

/-- the reading in order: k -> t', one root and one node -/
theorem F41_in_order_reading (v : Variant) (hv : v = .plain ∨ v = .rcRoots) :
    let h := (run v [.commit [.insert 1 t1], .process]).heap
    ((inOrderTx v h [] 2 [.dereference 1, .insert 1 t2]).roots.get 1).map (fun e => (e.1.data, e.2)) = some (20, 1) ∧
    (inOrderTx v h [] 2 [.dereference 1, .insert 1 t2]).nodes.l.length = 1 := by
  rcases hv with rfl | rfl <;> decide

/-- the transaction is outside `DerefApartF41` (the hypothesis the refinement theorems needed for the
    unfixed planning order) ... -/
theorem F41_not_derefApartF41 : ¬ DerefApartF41 [(.dereference 1 : Op Nat Nat), .insert 1 t2] := by
  intro h
  exact h.1 rfl (.insert 1 t2) (List.mem_singleton.mpr rfl) rfl rfl

/-- ... and inside `DerefApart`, the hypothesis of the theorems about the fixed order -/
theorem replace_derefApart (k : Nat) (t : NewNode Nat) :
    DerefApart [(.dereference k : Op Nat Nat), .insert k t] := by
  simp [DerefApart, Op.isDeref, Op.isInsert, Op.isRef]

/-! ### still outside `DerefApart`: a DereferenceTree k AFTER an InsertTree k in one transaction

`[DereferenceTree k, InsertTree k t', DereferenceTree k]`: both `DereferenceChildren` carry the
children of the OLD root (read before the call) and are planned before the postponed `Set`: the
first removes the old tree, the second finds no root (a no-op), then t' is stored: k -> t' stays,
although read in order the second DereferenceTree gives up the tree just inserted.  (Unfixed order:
k gone, the node of t' leaked.)  The client can still dereference k later: nothing is lost. -/

def derefInsertDeref : List (CmdT Nat Nat) :=
  [.commit [.insert 1 t1], .process, .commit [.dereference 1, .insert 1 t2, .dereference 1], .process]

theorem deref_insert_deref_keeps_new_tree (v : Variant) (hv : v = .plain ∨ v = .rcRoots) :
    rootOf (run v derefInsertDeref) 1 = some (20, [2], 1) ∧ nodeAddrs (run v derefInsertDeref) = [2] ∧
    (let h := (run v [.commit [.insert 1 t1], .process]).heap
     ((inOrderTx v h [] 2 [.dereference 1, .insert 1 t2, .dereference 1]).roots.get 1).isNone = true) ∧
    ¬ DerefApart [(.dereference 1 : Op Nat Nat), .insert 1 t2, .dereference 1] := by
  refine ⟨?_, ?_, ?_, ?_⟩
  · rcases hv with rfl | rfl <;> decide
  · rcases hv with rfl | rfl <;> decide
  · rcases hv with rfl | rfl <;> decide
  · intro h
    exact h.2.2.2.1 rfl (.dereference 1) (List.mem_singleton.mpr rfl) rfl rfl

/-! ### outside the quantifier ("distinct live root keys"), accepted by the Db

InsertTree under a key whose root is live, or twice under one key in one transaction: the nodes
of one of the two trees leak. -/

theorem insert_live_key_plain_replaces_and_leaks :
    let s := run .plain [.commit [.insert 1 t1], .process, .commit [.insert 1 t2], .process,
                         .commit [.dereference 1], .process]
    rootOf s 1 = none ∧ nodeAddrs s = [1, 0] ∧ (s.countEntries (fun _ => 0)).toOption = some 2 := by decide

theorem insert_live_key_rc_counts_and_leaks :
    let s := run .rcRoots [.commit [.insert 1 t1], .process, .commit [.insert 1 t2], .process]
    rootOf s 1 = some (10, [0, 1], 2) ∧ nodeAddrs s = [2, 1, 0] := by decide

theorem insert_twice_one_tx_plain :
    let s := run .plain [.commit [.insert 1 t1, .insert 1 t2], .process]
    rootOf s 1 = some (20, [2], 1) ∧ nodeAddrs s = [2, 1, 0] := by decide

/-! ### outside the quantifier ("children name nodes of live trees"), accepted by the Db

An `Existing` child at an address that holds no node: the tree is stored with a dangling child
and a reference count of 2 is recorded for the empty address (`write_address_inc_ref_plan`: "inc
ref is only called on addresses that already exist"). -/

theorem dangling_existing_accepted :
    let s := run .plain [.commit [.insert 1 ⟨30, .cons (.existing 77) .nil⟩], .process]
    rootOf s 1 = some (30, [77], 1) ∧ (s.heap.nodes.get 77).isNone = true ∧ s.heap.rc.get 77 = some 2 := by decide

end Pdb.MultiTree.Witness
