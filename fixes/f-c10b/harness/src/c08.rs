//! C08: rejected transactions leave no trace.  Columns of every kind; transactions with
//! one invalid operation at a random position among valid ones; full observable snapshot
//! before / after the rejected call, after drain and after reopen.
//!
//! Content oracle (`Content`): a plain map per column of what the ACCEPTED commits produce (values,
//! reference counts, tree roots with their fan-out, entry counts), written independently of the
//! crate; every drained state and every reopened state is compared with it line by line
//! (`observe` / `Content::expected`), so that something queued but invisible, or something of a
//! rejected transaction that only shows up after the drain, is noticed.
//!
//! Scenario F43 (hook `commit_changes.after_validate`): the root of a DereferenceTree is read
//! twice, by `validate_change` and again by the assembly loop; a queued DereferenceTree of the same
//! root that the log worker processes in between makes the second read fail AFTER earlier
//! operations of the transaction have claimed their slots.
//!
//! Scenario F44 (hook `commit_changes.before_commit_raw`): a background error stored while the change
//! set is assembled.  Finding F44 (fixed): `commit_raw` refused the call after the claims.  The
//! scenario requires the fixed behaviour (Ok, queued, nothing leaked after the log worker's pending
//! iteration, drop and reopen) and has a persistence variant (commit A queued, commit B around the
//! error, `process_commits` by hand, drop, reopen: the entry counts must be what the accepted
//! commits produce).
use crate::util::*;
use parity_db::{ColumnOptions, Db, NewNode, NodeRef, Operation, Options};
use std::collections::BTreeMap;
use std::path::Path;

#[derive(Clone, Copy, Debug)]
struct Col {
	btree: bool,
	multitree: bool,
	rc: bool,
	append_only: bool,
	/// `preimage` without `ref_counted` (ref_counted columns always have it)
	preimage: bool,
}

const COLS: [Col; 10] = [
	Col { btree: false, multitree: false, rc: false, append_only: false, preimage: false },
	Col { btree: false, multitree: false, rc: true, append_only: false, preimage: false },
	Col { btree: true, multitree: false, rc: false, append_only: false, preimage: false },
	Col { btree: false, multitree: true, rc: true, append_only: false, preimage: false },
	Col { btree: false, multitree: true, rc: false, append_only: true, preimage: false },
	Col { btree: false, multitree: true, rc: false, append_only: false, preimage: false },
	// btree-indexed column that also carries the multitree flag: takes the btree path
	Col { btree: true, multitree: true, rc: false, append_only: false, preimage: false },
	// plain hash column with append_only (never ref_counted)
	Col { btree: false, multitree: false, rc: false, append_only: true, preimage: false },
	// preimage columns WITHOUT reference counting (hash, btree): Reference is invalid there too
	Col { btree: false, multitree: false, rc: false, append_only: false, preimage: true },
	Col { btree: true, multitree: false, rc: false, append_only: false, preimage: true },
];

fn options(path: &Path) -> Options {
	let mut o = Options::with_columns(path, COLS.len() as u8);
	for (i, c) in COLS.iter().enumerate() {
		o.columns[i] = ColumnOptions {
			preimage: c.rc || c.preimage,
			uniform: false,
			ref_counted: c.rc,
			compression: parity_db::CompressionType::NoCompression,
			btree_index: c.btree,
			multitree: c.multitree,
			append_only: c.append_only,
			allow_direct_node_access: c.multitree,
		};
	}
	o.salt = Some([7u8; 32]);
	o.with_background_thread = false;
	o.always_flush = true;
	o.stats = false;
	o
}

#[derive(Clone, Debug)]
enum Op {
	Set(Vec<u8>, Vec<u8>),
	Del(Vec<u8>),
	Ref(Vec<u8>),
	InsTree(Vec<u8>, usize), // root key, fan-out of the root (children are leaves)
	RefTree(Vec<u8>),
	DerefTree(Vec<u8>),
}

fn key(i: u64) -> Vec<u8> {
	format!("key-{:03}", i).into_bytes()
}
fn val_for(k: &[u8]) -> Vec<u8> {
	let mut v = b"value-of-".to_vec();
	v.extend_from_slice(k);
	v
}

fn to_db(op: &Op) -> Operation<Vec<u8>, Vec<u8>> {
	match op {
		Op::Set(k, v) => Operation::Set(k.clone(), v.clone()),
		Op::Del(k) => Operation::Dereference(k.clone()),
		Op::Ref(k) => Operation::Reference(k.clone()),
		Op::InsTree(k, f) => {
			let children = (0..*f)
				.map(|i| NodeRef::New(NewNode { data: format!("leaf{}", i).into_bytes(), children: vec![] }))
				.collect();
			Operation::InsertTree(k.clone(), NewNode { data: val_for(k), children })
		},
		Op::RefTree(k) => Operation::ReferenceTree(k.clone()),
		Op::DerefTree(k) => Operation::DereferenceTree(k.clone()),
	}
}

/// Reference semantics of which single operations are acceptable (independent restatement of
/// the property's list, not derived from the Lean model).
fn expect_valid(c: &Col, op: &Op, root_exists: bool) -> bool {
	let tree_col = c.multitree && !c.btree;
	match op {
		Op::Set(..) | Op::Del(..) => !tree_col,
		Op::Ref(..) => !tree_col && c.rc,
		Op::InsTree(_, f) => tree_col && *f <= 255,
		Op::RefTree(..) => tree_col && (c.append_only || c.rc),
		Op::DerefTree(..) => tree_col && !c.append_only && root_exists,
	}
}

fn model_line(col: usize, op: &Op, root_exists: bool) -> String {
	let c = &COLS[col];
	let b = |x: bool| if x { 1 } else { 0 };
	let o = match op {
		Op::Set(..) => "set".to_string(),
		Op::Del(..) => "del".to_string(),
		Op::Ref(..) => "ref".to_string(),
		Op::InsTree(_, f) => format!("instree {}", f),
		Op::RefTree(..) => "reftree".to_string(),
		Op::DerefTree(..) => format!("dereftree {}", b(root_exists)),
	};
	format!("c08 validate {} {} {} {} {} {} {}", COLS.len(), col, b(c.btree), b(c.multitree), b(c.rc), b(c.append_only), o)
}

/// Everything observable through the public API, canonical.
fn snapshot(db: &Db, nkeys: u64) -> Vec<String> {
	let mut out = vec![];
	for (ci, c) in COLS.iter().enumerate() {
		let col = ci as u8;
		if c.multitree && !c.btree {
			for i in 0..nkeys {
				let k = key(i);
				let r = db.get_root(col, &k);
				out.push(format!("{}:root:{}={:?}", ci, i, r.map(|x| x.map(|(d, ch)| (hex(&d), ch))).map_err(|e| err_kind(&e))));
			}
			out.push(format!("{}:entries={:?}", ci, db.get_num_column_value_entries(col).map_err(|e| err_kind(&e))));
		} else {
			for i in 0..nkeys {
				let k = key(i);
				out.push(format!("{}:get:{}={:?}", ci, i, db.get(col, &k).map(|v| v.map(|v| hex(&v))).map_err(|e| err_kind(&e))));
				out.push(format!("{}:size:{}={:?}", ci, i, db.get_size(col, &k).map_err(|e| err_kind(&e))));
			}
			if c.btree {
				let mut it = db.iter(col).unwrap();
				it.seek_to_first().unwrap();
				let mut n = 0;
				while let Ok(Some((k, v))) = it.next() {
					out.push(format!("{}:iter:{}={}", ci, hex(&k), hex(&v)));
					n += 1;
					if n > 1000 {
						break
					}
				}
			} else {
				out.push(format!("{}:entries={:?}", ci, db.get_num_column_value_entries(col).map_err(|e| err_kind(&e))));
			}
		}
	}
	out
}

/// What the accepted commits produce, column by column (plain maps; not derived from the model).
#[derive(Clone, Default)]
struct Content {
	/// key-value columns: key -> (value, reference count); the count is 1 on columns without counting
	kv: Vec<BTreeMap<Vec<u8>, (Vec<u8>, u64)>>,
	/// tree columns: root key -> (count, fan-out of the root = number of leaf nodes)
	trees: Vec<BTreeMap<Vec<u8>, (u64, usize)>>,
}

impl Content {
	fn new() -> Content {
		Content { kv: vec![Default::default(); COLS.len()], trees: vec![Default::default(); COLS.len()] }
	}
	/// the operations of an accepted transaction, in order
	fn apply(&mut self, tx: &[(u8, Op)]) {
		for (ci, op) in tx {
			let ci = *ci as usize;
			let c = &COLS[ci];
			match op {
				Op::Set(k, v) =>
					if c.rc {
						let e = self.kv[ci].entry(k.clone()).or_insert((v.clone(), 0));
						e.1 += 1;
					} else {
						self.kv[ci].insert(k.clone(), (v.clone(), 1));
					},
				Op::Del(k) =>
					if c.rc {
						let gone = match self.kv[ci].get_mut(k) {
							Some(e) => {
								e.1 -= 1;
								e.1 == 0
							},
							None => false,
						};
						if gone {
							self.kv[ci].remove(k);
						}
					} else {
						self.kv[ci].remove(k);
					},
				Op::Ref(k) =>
					if let Some(e) = self.kv[ci].get_mut(k) {
						e.1 += 1;
					},
				Op::InsTree(k, f) => {
					self.trees[ci].entry(k.clone()).or_insert((1, *f));
				},
				Op::RefTree(k) =>
					if !c.append_only {
						if let Some(e) = self.trees[ci].get_mut(k) {
							e.0 += 1;
						}
					},
				Op::DerefTree(k) => {
					let gone = match self.trees[ci].get_mut(k) {
						Some(e) => {
							e.0 -= 1;
							e.0 == 0
						},
						None => false,
					};
					if gone {
						self.trees[ci].remove(k);
					}
				},
			}
		}
	}
	/// the canonical lines `observe` must produce on a drained database
	fn expected(&self, nkeys: u64) -> Vec<String> {
		let mut out = vec![];
		for (ci, c) in COLS.iter().enumerate() {
			if c.multitree && !c.btree {
				for i in 0..nkeys {
					let k = key(i);
					match self.trees[ci].get(&k) {
						Some((_, f)) => out.push(format!("{}:root:{}=some {} children={}", ci, i, hex(&val_for(&k)), f)),
						None => out.push(format!("{}:root:{}=none", ci, i)),
					}
				}
				let entries: usize = self.trees[ci].values().map(|(_, f)| 1 + f).sum();
				out.push(format!("{}:entries={}", ci, entries));
			} else {
				// `get` is refused on a column that carries the multitree flag (also when it is a
				// btree column): such a column is observed through its iterator only
				if !c.multitree {
					for i in 0..nkeys {
						let k = key(i);
						match self.kv[ci].get(&k) {
							Some((v, _)) => out.push(format!("{}:get:{}=some {} size={}", ci, i, hex(v), v.len())),
							None => out.push(format!("{}:get:{}=none", ci, i)),
						}
					}
				}
				if c.btree {
					for (k, (v, _)) in &self.kv[ci] {
						out.push(format!("{}:iter:{}={}", ci, hex(k), hex(v)));
					}
				}
				// (the entry count of a hash column without the multitree flag is not available)
			}
		}
		out
	}
}

/// The content of a drained database in the format of `Content::expected` (no addresses).
fn observe(db: &Db, nkeys: u64) -> Vec<String> {
	let mut out = vec![];
	for (ci, c) in COLS.iter().enumerate() {
		let col = ci as u8;
		if c.multitree && !c.btree {
			for i in 0..nkeys {
				let k = key(i);
				match db.get_root(col, &k) {
					Ok(Some((d, ch))) => {
						// every child must be a readable leaf
						let leaves_ok = ch.iter().all(|a| matches!(db.get_node(col, *a), Ok(Some((_, cc))) if cc.is_empty()));
						out.push(format!("{}:root:{}=some {} children={}{}", ci, i, hex(&d), ch.len(), if leaves_ok { "" } else { " UNREADABLE-CHILD" }))
					},
					Ok(None) => out.push(format!("{}:root:{}=none", ci, i)),
					Err(e) => out.push(format!("{}:root:{}=err:{}", ci, i, err_kind(&e))),
				}
			}
			out.push(match db.get_num_column_value_entries(col) {
				Ok(n) => format!("{}:entries={}", ci, n),
				Err(e) => format!("{}:entries=err:{}", ci, err_kind(&e)),
			});
		} else {
			if !c.multitree {
				for i in 0..nkeys {
					let k = key(i);
					match (db.get(col, &k), db.get_size(col, &k)) {
						(Ok(Some(v)), Ok(Some(sz))) => out.push(format!("{}:get:{}=some {} size={}", ci, i, hex(&v), sz)),
						(Ok(None), Ok(None)) => out.push(format!("{}:get:{}=none", ci, i)),
						(a, b) => out.push(format!("{}:get:{}=inconsistent get={:?} size={:?}", ci, i, a.map_err(|e| err_kind(&e)), b.map_err(|e| err_kind(&e)))),
					}
				}
			}
			if c.btree {
				let mut it = db.iter(col).unwrap();
				it.seek_to_first().unwrap();
				let mut n = 0;
				while let Ok(Some((k, v))) = it.next() {
					out.push(format!("{}:iter:{}={}", ci, hex(&k), hex(&v)));
					n += 1;
					if n > 1000 {
						break
					}
				}
			}
		}
	}
	out
}

/// first differences between the observed and the expected content
fn content_diff(obs: &[String], exp: &[String]) -> Option<String> {
	if obs == exp {
		return None
	}
	let mut d = vec![];
	for i in 0..std::cmp::max(obs.len(), exp.len()) {
		let (a, b) = (obs.get(i), exp.get(i));
		if a != b {
			d.push(format!("observed {:?} expected {:?}", a, b));
			if d.len() >= 3 {
				break
			}
		}
	}
	Some(d.join("; "))
}

fn drain(db: &Db, commits: usize) {
	for _ in 0..commits + 2 {
		db.process_commits().unwrap();
	}
	db.flush_logs().unwrap();
	for _ in 0..3 {
		db.enact_logs().unwrap();
		db.clean_logs().unwrap();
	}
}

pub fn run(seeds: &[u64], _thorough: bool, root: &Path, t: &mut Trace, ctr: &mut Counters, prop: &str) -> u64 {
	let mut fails = 0;
	for cs in seeds.iter().copied() {
		let mut rng = Rng::new(cs);
		let dir = fresh_dir(root, &format!("c08-{}", cs));
		let opts = options(&dir);
		let mut db = Db::open_or_create(&opts).unwrap();
		let nkeys = 6u64;
		t.begin_case(&format!("seed={}", cs));
		let mut ok = true;
		// logical mirror of what exists (for root_exists and for the expected final state)
		let mut roots: Vec<BTreeMap<Vec<u8>, u64>> = vec![Default::default(); COLS.len()];
		// plain map of what the accepted commits produce
		let mut content = Content::new();
		let mut pending = 0usize;
		let mut rejected = 0;
		let steps = rng.range(10, 30);
		for step in 0..steps {
			// build a transaction of valid operations
			let n = rng.range(1, 5) as usize;
			let mut tx: Vec<(u8, Op)> = vec![];
			let mut tmp_roots = roots.clone();
			for _ in 0..n {
				let ci = rng.below(COLS.len() as u64) as usize;
				let c = &COLS[ci];
				let k = key(rng.below(nkeys));
				// one operation per tree root and transaction: the order between a tree dereference
				// and other operations on the same root inside ONE transaction is C10's business
				if c.multitree && !c.btree && tx.iter().any(|(cc, o)| *cc as usize == ci && match o {
					Op::InsTree(kk, _) | Op::RefTree(kk) | Op::DerefTree(kk) => *kk == k,
					_ => false,
				}) {
					continue
				}
				let op = if c.multitree && !c.btree {
					let exists = tmp_roots[ci].contains_key(&k);
					match rng.below(3) {
						0 if !exists => {
							tmp_roots[ci].insert(k.clone(), 1);
							Op::InsTree(k, rng.below(4) as usize)
						},
						1 if exists && (c.rc || c.append_only) => Op::RefTree(k),
						2 if exists && !c.append_only && tmp_roots[ci][&k] > 0 => {
							// keep it simple: only dereference trees present before this transaction
							if roots[ci].contains_key(&k) {
								Op::DerefTree(k)
							} else {
								continue
							}
						},
						_ => {
							if exists {
								if c.rc || c.append_only { Op::RefTree(k) } else { continue }
							} else {
								tmp_roots[ci].insert(k.clone(), 1);
								Op::InsTree(k, 1)
							}
						},
					}
				} else {
					match rng.below(if c.rc { 3 } else { 2 }) {
						0 => { let v = val_for(&k); Op::Set(k, v) },
						1 => Op::Del(k),
						_ => Op::Ref(k),
					}
				};
				tx.push((ci as u8, op));
			}
			if tx.is_empty() {
				continue
			}
			// with probability 1/2 insert one invalid operation at a random position
			let inject = step == 0 || rng.chance(1, 2);
			let mut invalid_kind = String::new();
			if inject {
				let ci = rng.below(COLS.len() as u64) as usize;
				let c = &COLS[ci];
				let k = key(rng.below(nkeys));
				let bad = if c.multitree && !c.btree {
					match rng.below(if c.rc || c.append_only { 5 } else { 6 }) {
						0 => Op::Set(k.clone(), val_for(&k)),
						1 => Op::Ref(k),
						2 => Op::InsTree(key(100 + rng.below(50)), 256 + rng.below(3) as usize),
						3 if c.append_only => Op::DerefTree(k),
						3 => Op::DerefTree(key(200 + rng.below(50))), // missing root
						5 => Op::RefTree(k), // no reference counting on this column
						_ => Op::Del(k),
					}
				} else {
					match rng.below(if c.rc { 3 } else { 4 }) {
						0 => Op::InsTree(k, 1),
						1 => Op::RefTree(k),
						2 => Op::DerefTree(k),
						_ => Op::Ref(k),
					}
				};
				invalid_kind = format!("{:?}", std::mem::discriminant(&bad));
				let pos = rng.below(tx.len() as u64 + 1) as usize;
				tx.insert(pos, (ci as u8, bad));
				ctr.inc(&format!("invalid_at.{}", if pos == 0 { "first" } else if pos == tx.len() - 1 { "last" } else { "middle" }));
			}
			// single-operation verdicts tie the validation matrix to the model
			if step < 3 {
				for (ci, op) in tx.iter() {
					let exists = match op {
						Op::DerefTree(k) => roots[*ci as usize].contains_key(k),
						_ => false,
					};
					let line = model_line(*ci as usize, op, exists);
					let v = expect_valid(&COLS[*ci as usize], op, exists);
					t.comment(&format!("matrix {} -> expect_valid={}", line, v));
				}
			}
			t.comment(&format!("tx inject={} {:?}", inject, tx.iter().map(|(c, o)| format!("{}:{}", c, match o {
				Op::Set(k, _) => format!("set {}", String::from_utf8_lossy(k)),
				Op::Del(k) => format!("del {}", String::from_utf8_lossy(k)),
				Op::Ref(k) => format!("ref {}", String::from_utf8_lossy(k)),
				Op::InsTree(k, f) => format!("instree {} {}", String::from_utf8_lossy(k), f),
				Op::RefTree(k) => format!("reftree {}", String::from_utf8_lossy(k)),
				Op::DerefTree(k) => format!("dereftree {}", String::from_utf8_lossy(k)),
			})).collect::<Vec<_>>()));
			let before = snapshot(&db, nkeys);
			let r = db.commit_changes(tx.iter().map(|(c, o)| (*c, to_db(o))).collect::<Vec<_>>());
			ctr.inc(if r.is_ok() { "commit.ok" } else { "commit.rejected" });
			if inject {
				match &r {
					Ok(()) => {
						t.oracle_fail(prop, &format!("transaction with an invalid operation ({}) was accepted", invalid_kind));
						ok = false;
					},
					Err(e) => {
						rejected += 1;
						ctr.inc(&format!("err.{}", err_kind(e)));
						let after = snapshot(&db, nkeys);
						if after != before {
							let d: Vec<_> = before.iter().zip(after.iter()).filter(|(a, b)| a != b).take(3).collect();
							t.oracle_fail(prop, &format!("rejected transaction changed the observable state at once: {:?}", d));
							ok = false;
						}
						// ... and later: drain, compare with the state before (pending commits are
						// all valid ones, so draining may legitimately change entry counts: compare
						// against a drain of the same prefix instead: drain first, snapshot, reopen, snapshot)
						drain(&db, pending);
						pending = 0;
						let drained = snapshot(&db, nkeys);
						// the drained CONTENT is what the accepted commits produce, nothing else
						if let Some(d) = content_diff(&observe(&db, nkeys), &content.expected(nkeys)) {
							t.oracle_fail(prop, &format!("drained content differs from what the accepted commits produce: {}", d));
							ok = false;
						} else {
							ctr.inc("content.checked_drained");
						}
						drop(db);
						db = Db::open(&opts).unwrap();
						let reopened = snapshot(&db, nkeys);
						if drained != reopened {
							t.oracle_fail(prop, "state after drain differs from state after reopen (something of the rejected transaction was persisted or lost)");
							ok = false;
						}
						if let Some(d) = content_diff(&observe(&db, nkeys), &content.expected(nkeys)) {
							t.oracle_fail(prop, &format!("reopened content differs from what the accepted commits produce: {}", d));
							ok = false;
						} else {
							ctr.inc("content.checked_reopened");
						}
						// logical content must still be the one produced by accepted commits only
						for (ci, c) in COLS.iter().enumerate() {
							if c.multitree && !c.btree {
								for i in 0..nkeys {
									let k = key(i);
									let present = db.get_root(ci as u8, &k).ok().flatten().is_some();
									if present != roots[ci].contains_key(&k) {
										t.oracle_fail(prop, &format!("tree root {} col {} present={} expected={}", i, ci, present, roots[ci].contains_key(&k)));
										ok = false;
									}
								}
							}
						}
					},
				}
			} else {
				match r {
					Ok(()) => {
						pending += 1;
						content.apply(&tx);
						// apply to the logical mirror
						for (ci, op) in tx.iter() {
							let ci = *ci as usize;
							match op {
								Op::InsTree(k, _) => { roots[ci].entry(k.clone()).or_insert(1); },
								Op::RefTree(k) => if !COLS[ci].append_only { if let Some(n) = roots[ci].get_mut(k) { *n += 1; } },
								Op::DerefTree(k) => {
									let gone = if let Some(n) = roots[ci].get_mut(k) { *n -= 1; *n == 0 } else { false };
									if gone { roots[ci].remove(k); }
								},
								_ => {},
							}
						}
					},
					Err(e) => {
						t.oracle_fail(prop, &format!("valid transaction rejected: {:?} tx={:?}", e, tx));
						ok = false;
					},
				}
			}
		}
		// everything accepted so far, drained: the content oracle once more, then after a reopen
		drain(&db, pending + 2);
		pending = 0;
		if let Some(d) = content_diff(&observe(&db, nkeys), &content.expected(nkeys)) {
			t.oracle_fail(prop, &format!("final drained content differs from what the accepted commits produce: {}", d));
			ok = false;
		} else {
			ctr.inc("content.checked_final");
		}
		drop(db);
		db = Db::open(&opts).unwrap();
		if let Some(d) = content_diff(&observe(&db, nkeys), &content.expected(nkeys)) {
			t.oracle_fail(prop, &format!("final reopened content differs from what the accepted commits produce: {}", d));
			ok = false;
		}
		ctr.add("content.live_kv_keys", content.kv.iter().map(|m| m.len() as u64).sum());
		ctr.add("content.live_trees", content.trees.iter().map(|m| m.len() as u64).sum());
		// exhaustive single-operation matrix (model tie): every column kind x operation kind
		for (ci, c) in COLS.iter().enumerate() {
			let k_new = key(900 + ci as u64);
			let ops = vec![
				Op::Set(k_new.clone(), val_for(&k_new)),
				Op::Del(k_new.clone()),
				Op::Ref(k_new.clone()),
				Op::InsTree(key(910 + ci as u64), 255),
				Op::InsTree(key(920 + ci as u64), 256),
				Op::RefTree(key(910 + ci as u64)),
				Op::DerefTree(key(910 + ci as u64)),
				Op::DerefTree(key(999)),
			];
			for op in ops {
				let exists = match &op {
					Op::DerefTree(k) => db.get_root(ci as u8, k).ok().flatten().is_some() || (c.multitree && !c.btree && *k == key(910 + ci as u64)),
					_ => false,
				};
				let r = db.commit_changes(vec![(ci as u8, to_db(&op))]);
				let obs = match &r {
					Ok(()) => "ok".to_string(),
					Err(e) => format!("err:{}", err_kind(e)),
				};
				// root existence as the implementation sees it at validation time
				let exists_now = match &op {
					Op::DerefTree(k) => c.multitree && !c.btree && *k == key(910 + ci as u64),
					_ => exists,
				};
				t.op(&model_line(ci, &op, exists_now), &obs);
				if r.is_ok() != expect_valid(c, &op, exists_now) {
					t.oracle_fail(prop, &format!("single operation {:?} on column {:?}: got {}", op, c, obs));
					ok = false;
				}
				ctr.inc("matrix.ops");
			}
		}
		// refusal because of a stored background error: a VALID transaction (tree insertions with
		// new nodes, a tree dereference, key-value operations) must be refused with Err(Background)
		// and leave no trace: no claimed slots, nothing in the overlays, nothing after reopen
		{
			drain(&db, pending + 20);
			let before = snapshot(&db, nkeys);
			db.verif_store_err(Err(parity_db::Error::Io(std::io::Error::new(std::io::ErrorKind::Other, "injected by the c08 harness"))));
			let mut refused = 0;
			for round in 0..2 {
				let mut tx: Vec<(u8, Op)> = vec![];
				for (ci, c) in COLS.iter().enumerate() {
					if c.multitree && !c.btree {
						tx.push((ci as u8, Op::InsTree(key(700 + 10 * round + ci as u64), 2 + rng.below(4) as usize)));
						if !c.append_only {
							if let Some(k) = roots[ci].keys().next().cloned() {
								tx.push((ci as u8, Op::DerefTree(k)));
							}
						}
					} else {
						let k = key(rng.below(nkeys));
						let v = val_for(&k);
						tx.push((ci as u8, Op::Set(k, v)));
					}
				}
				let r = db.commit_changes(tx.iter().map(|(c, o)| (*c, to_db(o))).collect::<Vec<_>>());
				match &r {
					Err(e) if err_kind(e) == "Background" => refused += 1,
					other => {
						t.oracle_fail(prop, &format!("commit after a stored background error returned {:?} instead of Err(Background)", other.as_ref().map_err(err_kind)));
						ok = false;
					},
				}
				let after = snapshot(&db, nkeys);
				if after != before {
					let d: Vec<_> = before.iter().zip(after.iter()).filter(|(a, b)| a != b).take(3).collect();
					t.oracle_fail(prop, &format!("commit refused because of a background error changed the observable state: {:?}", d));
					ok = false;
				}
			}
			ctr.add("bgerr.refused", refused);
			drop(db);
			db = Db::open(&opts).unwrap();
			let reopened = snapshot(&db, nkeys);
			if reopened != before {
				let d: Vec<_> = before.iter().zip(reopened.iter()).filter(|(a, b)| a != b).take(3).collect();
				t.oracle_fail(prop, &format!("state after reopen differs from the state before the refused commits: {:?}", d));
				ok = false;
			}
			rejected += refused;
		}
		// out-of-range column id
		let r = db.commit_changes(vec![(COLS.len() as u8 + 3, Operation::Set(b"k".to_vec(), b"v".to_vec()))]);
		t.op(&format!("c08 validate {} {} 0 0 0 0 set", COLS.len(), COLS.len() + 3), &match &r { Ok(()) => "ok".to_string(), Err(e) => format!("err:{}", err_kind(e)) });
		// Scenario F43 (every case; last, it may leave claimed slots behind): a NON-I/O error AFTER
		// validation.  `validate_change` reads the root of a DereferenceTree, the assembly loop of
		// commit_changes reads it AGAIN; if the log worker processes a queued DereferenceTree of the
		// same root in between (here: from the yield point `commit_changes.after_validate`), the
		// second read finds nothing and the call fails with "No entry for tree root" after the
		// InsertTree in front of it has claimed its node slots.
		{
			let col = 5u8; // plain multitree column
			let (ka, kb) = (key(800), key(801));
			let entries = |db: &Db| db.get_num_column_value_entries(col).ok();
			drain(&db, 4);
			let e0 = entries(&db);
			let r0 = db.commit_changes(vec![(col, to_db(&Op::InsTree(ka.clone(), 2)))]);
			drain(&db, 2);
			let r1 = db.commit_changes(vec![(col, to_db(&Op::DerefTree(ka.clone())))]); // queued, not processed
			if r0.is_err() || r1.is_err() {
				t.oracle_fail(prop, &format!("scenario F43: set-up commits failed: {:?} {:?}", r0.as_ref().map_err(err_kind), r1.as_ref().map_err(err_kind)));
				ok = false;
			} else {
				let dbp = &db as *const Db as usize;
				let fired = std::sync::Arc::new(std::sync::atomic::AtomicBool::new(false));
				let fired2 = fired.clone();
				parity_db::verif::set_yield_hook(Some(std::sync::Arc::new(move |name: &'static str| {
					if name == "commit_changes.after_validate" && !fired2.swap(true, std::sync::atomic::Ordering::SeqCst) {
						// the log worker's turn: the queued DereferenceTree reaches the tables
						let db: &Db = unsafe { &*(dbp as *const Db) };
						let _ = db.process_commits();
					}
				})));
				let r2 = db.commit_changes(vec![(col, to_db(&Op::InsTree(kb.clone(), 3))), (col, to_db(&Op::DerefTree(ka.clone())))]);
				parity_db::verif::set_yield_hook(None);
				let interleaved = fired.load(std::sync::atomic::Ordering::SeqCst);
				drain(&db, 3);
				let e1 = entries(&db);
				let b_present = db.get_root(col, &kb).ok().flatten().is_some();
				let a_present = db.get_root(col, &ka).ok().flatten().is_some();
				t.comment(&format!(
					"scenario F43: [InsertTree b(3 leaves), DereferenceTree a] with the queued DereferenceTree a processed between validation and assembly (interleaved={}) -> {:?}; entries {:?} -> {:?}, a present={}, b present={}",
					interleaved,
					r2.as_ref().map_err(err_kind),
					e0,
					e1,
					a_present,
					b_present
				));
				ctr.inc("scenario.f43");
				match &r2 {
					Ok(()) => {
						// accepted as a whole: b inserted, the second dereference of a is a no-op
						if !(b_present && !a_present && e1 == e0.map(|x| x + 4)) {
							t.oracle_fail(prop, &format!("scenario F43: accepted transaction left entries {:?} -> {:?}, a present={}, b present={}", e0, e1, a_present, b_present));
							ok = false;
						}
					},
					Err(_) => {
						// rejected: then no trace - a gone (its own commit), b absent, no slot consumed
						if !a_present && !b_present && e1 == e0 {
							ctr.inc("scenario.f43.no_trace");
						} else if !a_present && !b_present && e1 == e0.map(|x| x + 3) {
							rejected += 1;
							ctr.inc("scenario.f43.F43");
							t.known(
								prop,
								"F43",
								&format!(
									"REJECTED-AFTER-CLAIM: transaction [InsertTree b (3 new nodes), DereferenceTree a] returned {:?} after the queued DereferenceTree a was processed between validate_change and the assembly loop; the 3 node slots claimed for b stay allocated (entries {:?} -> {:?})",
									r2.as_ref().map_err(err_kind),
									e0,
									e1
								),
							);
						} else {
							t.oracle_fail(prop, &format!("scenario F43: rejected transaction left entries {:?} -> {:?}, a present={}, b present={}", e0, e1, a_present, b_present));
							ok = false;
						}
					},
				}
			}
		}
		// Scenario F44 (the handle is dead afterwards).  The background error arrives AFTER the first
		// test of `bg_err` in commit_changes (fix f67544a), while the change set is assembled (here:
		// stored from the yield point `commit_changes.before_commit_raw`).  Finding F44 (fixed):
		// `commit_raw` tested `bg_err` a second time and refused the call with Err(Background) AFTER
		// its InsertTrees had claimed their entries, which stayed allocated.  Since the fix
		// commit_changes skips that second test: the error is concurrent with the call, which is
		// accepted as if it had been queued just before the error: Ok, queued, readable through the
		// commit overlay, and nothing leaks once the log worker has written it (processed here by hand,
		// as the log worker's iteration in flight would; then drop and reopen).
		let store_err_at_commit_raw = |db: &Db| {
			let dbp = db as *const Db as usize;
			parity_db::verif::set_yield_hook(Some(std::sync::Arc::new(move |name: &'static str| {
				if name == "commit_changes.before_commit_raw" {
					let db: &Db = unsafe { &*(dbp as *const Db) };
					db.verif_store_err(Err(parity_db::Error::Io(std::io::Error::new(std::io::ErrorKind::Other, "injected by the c08 harness (F44)"))));
				}
			})));
		};
		{
			let col = 5u8;
			let kc = key(810);
			let entries = |db: &Db| db.get_num_column_value_entries(col).ok();
			drain(&db, 4);
			let e0 = entries(&db);
			store_err_at_commit_raw(&db);
			let r = db.commit_changes(vec![(col, to_db(&Op::InsTree(kc.clone(), 2)))]);
			parity_db::verif::set_yield_hook(None);
			let e1 = entries(&db);
			let present = db.get_root(col, &kc).ok().flatten().is_some();
			t.comment(&format!("scenario F44: background error stored between the first bg_err test and commit_raw -> {:?}; entries {:?} -> {:?}, root present={}", r.as_ref().map_err(err_kind), e0, e1, present));
			ctr.inc("scenario.f44");
			let mut accepted = false;
			match &r {
				Ok(()) =>
					if e1 == e0.map(|x| x + 2) && present {
						// queued: 2 node entries claimed, the root is in the commit overlay
						ctr.inc("scenario.f44.accepted_queued");
						accepted = true;
					} else {
						t.oracle_fail(prop, &format!("scenario F44: accepted commit (background error stored during the call) shows entries {:?} -> {:?}, root present={} (expected + 2 claimed entries and the root readable)", e0, e1, present));
						ok = false;
					},
				Err(e) if err_kind(e) == "Background" =>
					if e1 == e0 && !present {
						// refused without a trace: the property holds this way too
						ctr.inc("scenario.f44.refused_no_trace");
						rejected += 1;
					} else {
						ctr.inc("scenario.f44.F44");
						t.oracle_fail(prop, &format!("REFUSED-AFTER-CLAIM (finding F44): commit refused with Err(Background) by commit_raw (the error was stored while the change set was being assembled) keeps what its InsertTree claimed: entries {:?} -> {:?}, root present={}", e0, e1, present));
						ok = false;
					},
				other => {
					t.oracle_fail(prop, &format!("scenario F44: commit with a background error stored before commit_raw returned {:?}", other.as_ref().map_err(err_kind)));
					ok = false;
				},
			}
			// the log worker's iteration in flight: the queued commit reaches the log; then the handle
			// is dropped (no drain: the error is stored) and reopened
			let _ = db.process_commits();
			drop(db);
			db = Db::open(&opts).unwrap();
			let e2 = entries(&db);
			let present2 = db.get_root(col, &kc).ok().flatten().is_some();
			let want = if accepted { e0.map(|x| x + 3) } else { e0 };
			if e2 != want || present2 != accepted {
				t.oracle_fail(prop, &format!("scenario F44: after process_commits, drop and reopen the column holds {:?} entries (before the call {:?}, commit accepted={}), root present={}", e2, e0, accepted, present2));
				ok = false;
			} else {
				ctr.inc("scenario.f44.reopen_exact");
			}
		}
		// Scenario F44, persistence variant (found missing by the second audit).  Commit A (InsertTree,
		// accepted, QUEUED), then commit B with the background error stored during the call, then the
		// log worker's pending work by hand (process_commits for everything queued), drop, reopen:
		// the content must be exactly what the ACCEPTED commits produce (oracle: A, and B iff it
		// returned Ok).  Before the fix B was refused but the record of A carried the table headers
		// with B's claimed entries: 6 entries instead of 3 after the reopen, for ever.
		{
			let col = 5u8;
			let (ka, kb) = (key(820), key(821));
			let entries = |db: &Db| db.get_num_column_value_entries(col).ok();
			drain(&db, 4);
			let e0 = entries(&db);
			let ra = db.commit_changes(vec![(col, to_db(&Op::InsTree(ka.clone(), 2)))]); // queued
			store_err_at_commit_raw(&db);
			let rb = db.commit_changes(vec![(col, to_db(&Op::InsTree(kb.clone(), 2)))]);
			parity_db::verif::set_yield_hook(None);
			ctr.inc("scenario.f44p");
			ctr.inc(if rb.is_ok() { "scenario.f44p.b_accepted" } else { "scenario.f44p.b_refused" });
			if ra.is_err() {
				t.oracle_fail(prop, &format!("scenario F44 (persistence): commit A failed: {:?}", ra.as_ref().map_err(err_kind)));
				ok = false;
			}
			match &rb {
				Ok(()) => {},
				Err(e) if err_kind(e) == "Background" => rejected += 1,
				other => {
					t.oracle_fail(prop, &format!("scenario F44 (persistence): commit B returned {:?}", other.as_ref().map_err(err_kind)));
					ok = false;
				},
			}
			for _ in 0..3 {
				let _ = db.process_commits();
			}
			drop(db);
			db = Db::open(&opts).unwrap();
			let e1 = entries(&db);
			let want = e0.map(|x| x + 3 * (ra.is_ok() as u64 + rb.is_ok() as u64));
			let (pa, pb) = (db.get_root(col, &ka).ok().flatten().is_some(), db.get_root(col, &kb).ok().flatten().is_some());
			t.comment(&format!("scenario F44 (persistence): A -> {:?}, B (error stored during the call) -> {:?}; entries {:?} -> {:?} after process, drop, reopen (oracle {:?}); roots present A={} B={}", ra.as_ref().map_err(err_kind), rb.as_ref().map_err(err_kind), e0, e1, want, pa, pb));
			if e1 != want || pa != ra.is_ok() || pb != rb.is_ok() {
				t.oracle_fail(prop, &format!("scenario F44 (persistence): after the reopen the column holds {:?} entries, the accepted commits produce {:?} (A accepted={}, B accepted={}; roots present A={} B={}): entries claimed by a refused commit were persisted", e1, want, ra.is_ok(), rb.is_ok(), pa, pb));
				ok = false;
			} else {
				ctr.inc("scenario.f44p.exact");
			}
			// every root that is there reads back with its leaves
			for (k, there) in [(&ka, pa), (&kb, pb)] {
				if there {
					let good = matches!(db.get_root(col, k), Ok(Some((d, ch))) if d == val_for(k) && ch.len() == 2 &&
						ch.iter().all(|a| matches!(db.get_node(col, *a), Ok(Some((_, cc))) if cc.is_empty())));
					if !good {
						t.oracle_fail(prop, "scenario F44 (persistence): a tree accepted around the background error does not read back after the reopen");
						ok = false;
					}
				}
			}
		}
		drop(db);
		let _ = std::fs::remove_dir_all(&dir);
		ctr.inc("cases");
		ctr.add("rejected_total", rejected);
		t.end_case(rejected > 0);
		if !ok {
			fails += 1;
		}
	}
	fails
}
