/-
C16 (continued)  What can happen between the I/O error and the next open.

* The fault may persist until the process is restarted, so any part of the unsynced tail of
  the log may be lost: reopening yields a prefix for EVERY number `n` of intact records
  between `flushed` and `logged.length` (`C16_reopen_prefix_any`).
* The failing step may be a `process_commits` whose record reached the log file although
  the call reported the error: prefix one longer than what was logged before
  (`C16_reopen_prefix_failed_process`).
* The other workers keep running until they see the error flag, and clients keep calling
  `commit` (refused): any list `as'` of commit / process / flush / enact / clean / reindex
  actions after the failure (`afterFailure`).  The state reached is the failed state of a
  run of the same worker steps without the commits (`run_failStep`, Proofs/PipelineFail),
  hence reads still return the committed data, commits are still refused and reopening
  still yields a prefix that contains everything flushed (`C16_*_run`).

Helper lemmas (`crashRecover_failStep`, `process_failStep`, `flush_failStep`,
`enactOne_failStep`, `run_failStep`, `run_dropCommits_hist`) and the definitions
`afterFailure`, `dropCommits` live in Pdb/Proofs/PipelineFail.lean.
-/
import Pdb.Props.C16
import Pdb.Props.C01
import Pdb.Proofs.PipelineFail

namespace Pdb
variable {K V : Type} [DecidableEq K]

/-- The fault persisting until restart may lose any part of the unsynced tail: for every
    number `n` of intact records between `flushed` and `logged.length` the reopened database
    is the specification of the prefix of length `nEnacted + n`. -/
theorem C16_reopen_prefix_any (kind : K → Kind) (as : List (Action K V)) (j n : Nat) :
    let s := run kind (St.init : St K V) as
    s.flushed ≤ n → n ≤ s.logged.length →
    let r := crashRecover (failStep s j) 0 n
    let m := s.nEnacted + n
    s.nEnacted + s.flushed ≤ m ∧ m ≤ s.hist.length ∧
    r.tables = spec kind (s.hist.take m) ∧ r.hist = s.hist.take m ∧ Inv kind r := by
  intro s h1 h2 r m
  have hi : Inv kind s := (Inv.init kind).run as
  have h := hi.crashRecover j n h1
  have e : r = crashRecover s j n := crashRecover_failStep s j n
  rw [e]
  simp only [Nat.min_eq_left h2] at h
  exact ⟨h.2.1, h.2.2.1, h.2.2.2.2, h.2.2.2.1, h.1⟩

/-- The failing step was a `process_commits` whose record reached the log file although the
    call reported the error: the reopened database holds one transaction more than had been
    logged before the failure. -/
theorem C16_reopen_prefix_failed_process (kind : K → Kind) (as : List (Action K V)) (j : Nat) :
    let s := run kind (St.init : St K V) as
    s.queue ≠ [] →
    let r := crashRecover (process kind (failStep s j)) 0 (s.logged.length + 1)
    let m := s.nEnacted + s.logged.length + 1
    m ≤ s.hist.length ∧ r.tables = spec kind (s.hist.take m) ∧ r.hist = s.hist.take m ∧
    Inv kind r := by
  intro s hq r m
  have hi : Inv kind s := (Inv.init kind).run as
  have hp := process_shape kind s hq
  have hfl := hi.fl
  have h := hi.process.crashRecover j (s.logged.length + 1) (by rw [hp.2.2.1]; omega)
  have e : r = crashRecover (process kind s) j (s.logged.length + 1) := by
    show crashRecover (process kind (failStep s j)) 0 (s.logged.length + 1) = _
    rw [process_failStep hi, crashRecover_failStep]
  rw [e]
  simp only [hp.1, hp.2.1, hp.2.2.2, Nat.min_self, ← Nat.add_assoc] at h
  exact ⟨h.2.2.1, h.2.2.2.2, h.2.2.2.1, h.1⟩

/-- Workers keep running after the failure until they see the flag, clients keep calling
    commit: the error flag stays set and reads keep returning the committed data (all
    transactions accepted before the failure; nothing is accepted afterwards). -/
theorem C16_reads_committed_run (kind : K → Kind) (as : List (Action K V)) (j : Nat)
    (as' : List (Action K V)) (k : K) (hw : afterFailure as' = true) :
    let s := run kind (St.init : St K V) as
    let f := run kind (failStep s j) as'
    f.bgErr = true ∧
    (kind k = .plain → get f k = (spec kind s.hist k).map Prod.fst) ∧
    (∀ valueOf : K → V, kind k = .rc → Contract valueOf kind s.hist →
      (spec kind s.hist k).isSome → get f k = some (valueOf k)) := by
  intro s f
  have hi : Inv kind s := (Inv.init kind).run as
  obtain ⟨s2, j', e, hi2, hh⟩ := hi.run_failStep j as' hw
  have ef : f = failStep s2 j' := e
  rw [ef, ← hh]
  refine ⟨rfl, fun hk => ?_, fun valueOf hk hc hp => ?_⟩
  · rw [get_failStep]; exact hi2.get_plain k hk
  · rw [get_failStep]; exact hi2.get_rc_positive valueOf hc k hk hp

/-- ... and every commit is still refused and changes nothing. -/
theorem C16_commits_refused_run (kind : K → Kind) (as : List (Action K V)) (j : Nat)
    (as' : List (Action K V)) (tx : List (Op K V)) (hw : afterFailure as' = true) :
    let s := run kind (St.init : St K V) as
    let f := run kind (failStep s j) as'
    (commit kind f tx).2 ≠ .ok ∧ (commit kind f tx).1 = f := by
  intro s f
  have hi : Inv kind s := (Inv.init kind).run as
  obtain ⟨s2, j', e, _, _⟩ := hi.run_failStep j as' hw
  have ef : f = failStep s2 j' := e
  rw [ef]
  exact C16_commits_refused kind s2 j' tx

/-- ... and reopening (with any number `n` of intact records between what is flushed and what
    is logged at that point) yields the specification of a prefix of the transactions
    accepted before the failure that contains everything flushed, and the invariant holds
    again. -/
theorem C16_reopen_prefix_run (kind : K → Kind) (as : List (Action K V)) (j : Nat)
    (as' : List (Action K V)) (n : Nat) (hw : afterFailure as' = true) :
    let s := run kind (St.init : St K V) as
    let f := run kind (failStep s j) as'
    f.flushed ≤ n → n ≤ f.logged.length →
    let r := crashRecover f 0 n
    let m := f.nEnacted + n
    f.nEnacted + f.flushed ≤ m ∧ m ≤ s.hist.length ∧
    r.tables = spec kind (s.hist.take m) ∧ r.hist = s.hist.take m ∧ Inv kind r := by
  intro s f
  have hi : Inv kind s := (Inv.init kind).run as
  obtain ⟨s2, j', e, hi2, hh⟩ := hi.run_failStep j as' hw
  have ef : f = failStep s2 j' := e
  rw [ef, ← hh]
  intro h1 h2 r m
  have h1' : s2.flushed ≤ n := h1
  have h2' : n ≤ s2.logged.length := h2
  have h := hi2.crashRecover j' n h1'
  have er : r = crashRecover s2 j' n := crashRecover_failStep s2 j' n
  rw [er]
  simp only [Nat.min_eq_left h2'] at h
  exact ⟨h.2.1, h.2.2.1, h.2.2.2.2, h.2.2.2.1, h.1⟩

/-! Non-vacuity (the history of the example in C16.lean: record 1 flushed and half enacted,
    record 2 logged but not flushed, a third commit still queued). -/
section Example
private def kd : Nat → Kind := fun _ => .plain
private def acts : List (Action Nat Nat) :=
  [.commit [.set 1 10, .set 2 20], .process, .flush, .commit [.set 1 11], .process, .commit [.set 3 30]]
/-- a refused commit, then the workers publish, flush and enact one more record each -/
private def after1 : List (Action Nat Nat) := [.commit [.set 9 9], .process, .flush, .clean, .enact]
/-- the same without the flush -/
private def after2 : List (Action Nat Nat) := [.commit [.set 9 9], .process, .clean]

-- the state the failure strikes
example : (run kd St.init acts).flushed = 1 ∧ (run kd St.init acts).logged.length = 2 ∧
    (run kd St.init acts).queue.length = 1 ∧ (run kd St.init acts).nEnacted = 0 ∧
    (failStep (run kd St.init acts) 1).tables 1 = some (10, 1) ∧
    (failStep (run kd St.init acts) 1).tables 2 = none := by decide

-- C16_reopen_prefix_any: n = 1 (only the flushed record survives) and n = 2
example :
    (crashRecover (failStep (run kd St.init acts) 1) 0 1).tables 1 = some (10, 1) ∧
    (crashRecover (failStep (run kd St.init acts) 1) 0 1).tables 2 = some (20, 1) ∧
    (crashRecover (failStep (run kd St.init acts) 1) 0 1).hist.length = 1 ∧
    (crashRecover (failStep (run kd St.init acts) 1) 0 2).tables 1 = some (11, 1) ∧
    (crashRecover (failStep (run kd St.init acts) 1) 0 2).tables 3 = none ∧
    (crashRecover (failStep (run kd St.init acts) 1) 0 2).hist.length = 2 := by decide

-- C16_reopen_prefix_failed_process: the record of the third commit reached the log
example : (run kd St.init acts).queue.length = 1 ∧
    (crashRecover (process kd (failStep (run kd St.init acts) 1)) 0
      ((run kd St.init acts).logged.length + 1)).tables 3 = some (30, 1) ∧
    (crashRecover (process kd (failStep (run kd St.init acts) 1)) 0
      ((run kd St.init acts).logged.length + 1)).tables 1 = some (11, 1) ∧
    (crashRecover (process kd (failStep (run kd St.init acts) 1)) 0
      ((run kd St.init acts).logged.length + 1)).hist.length = 3 := by decide

-- workers keep running: reads, refused commit, reopen
example : afterFailure after1 = true ∧ afterFailure after2 = true ∧
    (dropCommits after1).length = 4 := by decide
example : dropCommits after1 = [.process, .flush, .clean, .enact] := rfl

example :
    (run kd (failStep (run kd St.init acts) 1) after1).bgErr = true ∧
    get (run kd (failStep (run kd St.init acts) 1) after1) 1 = some 11 ∧
    get (run kd (failStep (run kd St.init acts) 1) after1) 2 = some 20 ∧
    get (run kd (failStep (run kd St.init acts) 1) after1) 3 = some 30 ∧
    get (run kd (failStep (run kd St.init acts) 1) after1) 9 = none ∧
    (commit kd (run kd (failStep (run kd St.init acts) 1) after1) [.set 9 9]).2 = .background ∧
    (run kd (failStep (run kd St.init acts) 1) after1).flushed = 2 ∧
    (run kd (failStep (run kd St.init acts) 1) after1).logged.length = 2 ∧
    (run kd (failStep (run kd St.init acts) 1) after1).nEnacted = 1 ∧
    (run kd (failStep (run kd St.init acts) 1) after1).tables 1 = some (10, 1) ∧
    (crashRecover (run kd (failStep (run kd St.init acts) 1) after1) 0 2).tables 1 = some (11, 1) ∧
    (crashRecover (run kd (failStep (run kd St.init acts) 1) after1) 0 2).tables 2 = some (20, 1) ∧
    (crashRecover (run kd (failStep (run kd St.init acts) 1) after1) 0 2).tables 3 = some (30, 1) ∧
    (crashRecover (run kd (failStep (run kd St.init acts) 1) after1) 0 2).tables 9 = none ∧
    (crashRecover (run kd (failStep (run kd St.init acts) 1) after1) 0 2).hist.length = 3 := by decide

example :
    (run kd (failStep (run kd St.init acts) 1) after2).flushed = 1 ∧
    (run kd (failStep (run kd St.init acts) 1) after2).logged.length = 3 ∧
    get (run kd (failStep (run kd St.init acts) 1) after2) 3 = some 30 ∧
    -- n = 2: the unsynced record of the third commit is lost
    (crashRecover (run kd (failStep (run kd St.init acts) 1) after2) 0 2).tables 1 = some (11, 1) ∧
    (crashRecover (run kd (failStep (run kd St.init acts) 1) after2) 0 2).tables 2 = some (20, 1) ∧
    (crashRecover (run kd (failStep (run kd St.init acts) 1) after2) 0 2).tables 3 = none ∧
    (crashRecover (run kd (failStep (run kd St.init acts) 1) after2) 0 2).hist.length = 2 ∧
    -- n = 1: only the flushed record survives
    (crashRecover (run kd (failStep (run kd St.init acts) 1) after2) 0 1).tables 1 = some (10, 1) := by
  decide

-- rc column: positive count stays readable while the workers keep running
private def kr : Nat → Kind := fun _ => .rc
private def vo : Nat → Nat := fun k => k * 10
private def actsr : List (Action Nat Nat) :=
  [.commit [.set 1 10, .set 2 20], .process, .flush, .commit [.set 1 10, .deref 2], .process,
   .commit [.ref 1]]
example : Contract vo kr (run kr St.init actsr).hist := by
  have e : (run kr St.init actsr).hist =
      [[.set 1 10, .set 2 20], [.set 1 10, .deref 2], [.ref 1]] := by rfl
  rw [e]
  intro k v hm _
  simp at hm
  rcases hm with ⟨rfl, rfl⟩ | ⟨rfl, rfl⟩ | ⟨rfl, rfl⟩ <;> rfl
example : (spec kr (run kr St.init actsr).hist 1).isSome = true ∧
    (spec kr (run kr St.init actsr).hist 2).isSome = false ∧
    get (run kr (failStep (run kr St.init actsr) 1) after1) 1 = some 10 ∧
    get (run kr (failStep (run kr St.init actsr) 1) after1) 2 = none := by decide
end Example

end Pdb

#print axioms Pdb.crashRecover_failStep
#print axioms Pdb.process_failStep
#print axioms Pdb.run_failStep
#print axioms Pdb.run_dropCommits_hist
#print axioms Pdb.C16_reopen_prefix_any
#print axioms Pdb.C16_reopen_prefix_failed_process
#print axioms Pdb.C16_reads_committed_run
#print axioms Pdb.C16_commits_refused_run
#print axioms Pdb.C16_reopen_prefix_run
