/-
C07 (value iteration)  What `iter_column_while` reports on a reference-counted column after
a drain: for every live key its value and its count, where the count is the property's
mathematical counter `countOf` (below the saturation bound) and the value is `valueOf k`
(preimage contract); keys whose count is zero are not reported.

Model: P1.  Iteration is modelled over a list `keys` of keys of the column (the order of
the real iteration is the order of the value-table entries, which P1 does not represent;
the harness compares multisets).  `valuesOf t keys` lists value and count of every key of
`keys` that is live in the table function `t`.
-/
import Pdb.Props.C07

namespace Pdb
variable {K V : Type} [DecidableEq K]

/-- What value iteration reports for the keys `keys`: value and count of every live key. -/
def valuesOf (t : Tbl K V) (keys : List K) : List (V × Nat) := keys.filterMap t

theorem filterMap_congr_mem {α β : Type} (f g : α → Option β) (l : List α)
    (h : ∀ a ∈ l, f a = g a) : l.filterMap f = l.filterMap g := by
  induction l with
  | nil => rfl
  | cons a l ih =>
    have ha := h a List.mem_cons_self
    have ht := ih (fun b hb => h b (List.mem_cons_of_mem _ hb))
    simp only [List.filterMap_cons, ha, ht]

/-- On a reference-counted key the specification is determined by the mathematical count:
    present with `valueOf k` and that count iff the count is positive. -/
theorem spec_rc_eq_count (kind : K → Kind) (valueOf : K → V) (txs : List (List (Op K V))) (k : K)
    (hk : kind k = .rc) (hc : Contract valueOf kind txs) (hb : txs.flatten.length + 1 < LOCKED) :
    spec kind txs k =
      if 0 < countOf txs.flatten k then some (valueOf k, countOf txs.flatten k) else none := by
  have hcnt := spec_count valueOf kind txs k hk hc hb
  have hok := spec_ok valueOf kind txs hc
  cases h : spec kind txs k with
  | none =>
    rw [h] at hcnt
    simp only [cnt, Option.map_none, Option.getD_none] at hcnt
    rw [← hcnt]
    simp
  | some c =>
    obtain ⟨v, n⟩ := c
    rw [h] at hcnt
    simp only [cnt, Option.map_some, Option.getD_some] at hcnt
    have := hok k v n h
    have hv : v = valueOf k := this.1 (by simp [hk])
    rw [← hcnt, if_pos (by omega), hv]

/-- After a drain (clean reopen), value iteration over a reference-counted column reports
    exactly the keys with positive count, each with its value and its count. -/
theorem C07_value_iteration (kind : K → Kind) (valueOf : K → V) (as : List (Action K V))
    (keys : List K) (hk : ∀ k ∈ keys, kind k = .rc) :
    let s := run kind (St.init : St K V) as
    Contract valueOf kind s.hist → s.hist.flatten.length + 1 < LOCKED →
    valuesOf (cleanReopen kind s).tables keys =
      keys.filterMap (fun k =>
        if 0 < countOf s.hist.flatten k then some (valueOf k, countOf s.hist.flatten k) else none) := by
  intro s hc hb
  have hi : Inv kind s := (Inv.init kind).run as
  unfold valuesOf
  rw [hi.cleanReopen.2.2]
  apply filterMap_congr_mem
  intro k hm
  exact spec_rc_eq_count kind valueOf s.hist k (hk k hm) hc hb

section Example
private def kd : Nat → Kind := fun _ => .rc
private def vo : Nat → Nat := fun k => k * 10
private def acts : List (Action Nat Nat) :=
  [.commit [.set 1 10, .set 1 10, .ref 2], .process, .commit [.deref 1, .set 2 20], .flush, .enact,
   .commit [.deref 1, .ref 2], .process, .process]

private theorem acts_contract : Contract vo kd (run kd St.init acts).hist := by
  have e : (run kd St.init acts).hist =
      [[.set 1 10, .set 1 10, .ref 2], [.deref 1, .set 2 20], [.deref 1, .ref 2]] := by rfl
  rw [e]
  intro k v hm _
  simp at hm
  rcases hm with ⟨rfl, rfl⟩ | ⟨rfl, rfl⟩ <;> rfl

-- key 1: set, set, deref, deref -> 0 (not reported); key 2: ref(absent), set, ref -> 2;
-- key 3: never written
example : valuesOf (cleanReopen kd (run kd St.init acts)).tables [1, 2, 3] = [(20, 2)] ∧
    [1, 2, 3].filterMap (fun k =>
      if 0 < countOf (run kd St.init acts).hist.flatten k
      then some (vo k, countOf (run kd St.init acts).hist.flatten k) else none) = [(20, 2)] ∧
    (run kd St.init acts).hist.flatten.length + 1 < LOCKED := by decide

-- the theorem instantiated on this history (all hypotheses discharged)
example : valuesOf (cleanReopen kd (run kd St.init acts)).tables [1, 2, 3] =
    [1, 2, 3].filterMap (fun k =>
      if 0 < countOf (run kd St.init acts).hist.flatten k
      then some (vo k, countOf (run kd St.init acts).hist.flatten k) else none) :=
  C07_value_iteration kd vo acts [1, 2, 3] (fun _ _ => rfl) acts_contract (by decide)
end Example

end Pdb

#print axioms Pdb.filterMap_congr_mem
#print axioms Pdb.spec_rc_eq_count
#print axioms Pdb.C07_value_iteration
