/-
C07  Reference-counted columns keep a value exactly while its count is positive.

Model: P1 with `Kind.rc` (preimage + ref_counted).  `countOf` is the property's own
counter (starts at 0; +1 per set and per reference to a present key; -1 per dereference of
a present key; reference / dereference of absent keys ignored).  The code's 32-bit counter
saturates ("locks") at `LOCKED = u32::MAX`; below that bound the stored count equals
`countOf` (`C07_count_is_math_count`), and the theorems about readability hold without any
bound.  The preimage contract "value is a function of the key" is the explicit hypothesis
`Contract valueOf`.  What value iteration (`iter_column_while`) reports over the drained
state is `C07_value_iteration` in C07b.lean; `C07_table_counts` here only says that the
drained tables equal the specification.  Btree-indexed rc columns share the logical pipeline.
-/
import Pdb.Proofs.PipelineCount

namespace Pdb
variable {K V : Type} [DecidableEq K]

/-- A key whose committed count is positive is readable with its value, however far each
    commit has progressed, after reopens and crashes alike. -/
theorem C07_positive_readable (kind : K → Kind) (valueOf : K → V) (as : List (Action K V)) (k : K)
    (hk : kind k = .rc) :
    let s := run kind (St.init : St K V) as
    Contract valueOf kind s.hist → 0 < cnt (spec kind s.hist k) → get s k = some (valueOf k) := by
  intro s hc hpos
  have hi : Inv kind s := (Inv.init kind).run as
  apply hi.get_rc_positive valueOf hc k hk
  cases h : spec kind s.hist k with
  | none => rw [h] at hpos; simp [cnt] at hpos
  | some c => rfl

/-- Once all accepted commits have been written to the log (and after any reopen, which
    leaves the queue empty) a key is readable if and only if its count is positive. -/
theorem C07_logged_iff (kind : K → Kind) (valueOf : K → V) (as : List (Action K V)) (k : K) :
    let s := run kind (St.init : St K V) as
    Contract valueOf kind s.hist → s.queue = [] →
    ((get s k).isSome ↔ 0 < cnt (spec kind s.hist k)) := by
  intro s hc hq
  have hi : Inv kind s := (Inv.init kind).run as
  rw [hi.get_rc_iff k hq]
  have hok := spec_ok valueOf kind s.hist hc
  cases h : spec kind s.hist k with
  | none => simp [cnt]
  | some c =>
    obtain ⟨v, n⟩ := c
    have := (hok k v n h).2
    simp [cnt]; omega

theorem C07_reopen_queue_empty (kind : K → Kind) (s : St K V) : (cleanReopen kind s).queue = [] := rfl

/-- Below the saturation bound the stored count is the property's mathematical count. -/
theorem C07_count_is_math_count (kind : K → Kind) (valueOf : K → V) (as : List (Action K V)) (k : K)
    (hk : kind k = .rc) :
    let s := run kind (St.init : St K V) as
    Contract valueOf kind s.hist → s.hist.flatten.length + 1 < LOCKED →
    cnt (spec kind s.hist k) = countOf s.hist.flatten k := by
  intro s hc hb
  exact spec_count valueOf kind s.hist k hk hc hb

/-- After a drain (clean reopen) the table function equals the specification of all accepted
    transactions (the same statement as the first conjunct of C01_reopen; what value iteration
    reports is C07_value_iteration in C07b.lean). -/
theorem C07_table_counts (kind : K → Kind) (as : List (Action K V)) :
    let s := run kind (St.init : St K V) as
    (cleanReopen kind s).tables = spec kind s.hist := by
  intro s
  exact ((Inv.init kind).run as).cleanReopen.2.2

/-- The counter saturates: at `LOCKED` it neither rises nor falls (`change_ref`). -/
theorem C07_saturates (v : V) (k : K) :
    applyCell .rc (Op.set k v) (some (v, LOCKED)) = some (v, LOCKED) ∧
    applyCell .rc (Op.ref k : Op K V) (some (v, LOCKED)) = some (v, LOCKED) ∧
    applyCell .rc (Op.deref k : Op K V) (some (v, LOCKED)) = some (v, LOCKED) ∧
    applyCell .rc (Op.ref k : Op K V) (some (v, LOCKED - 1)) = some (v, LOCKED) := by
  simp [applyCell, incRc, LOCKED, Gen.LOCKED_REF]

section Example
private def kd : Nat → Kind := fun _ => .rc
private def vo : Nat → Nat := fun k => k * 10
private def acts : List (Action Nat Nat) :=
  [.commit [.set 1 10, .set 1 10, .ref 2], .process, .commit [.deref 1, .set 2 20], .flush, .enact,
   .commit [.deref 1, .ref 2], .process, .process]
-- key 1: set, set, deref, deref -> 0 ; key 2: ref(absent, ignored), set, ref -> 2
example : countOf ((run kd St.init acts).hist.flatten) 1 = 0 ∧
    countOf ((run kd St.init acts).hist.flatten) 2 = 2 ∧
    get (run kd St.init acts) 1 = none ∧ get (run kd St.init acts) 2 = some 20 ∧
    (run kd St.init acts).queue = [] := by decide
end Example

end Pdb

#print axioms Pdb.C07_positive_readable
#print axioms Pdb.C07_logged_iff
#print axioms Pdb.C07_count_is_math_count
#print axioms Pdb.C07_table_counts
#print axioms Pdb.C07_saturates
