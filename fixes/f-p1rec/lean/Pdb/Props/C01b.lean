/-
C01 / C02 / C03 for columns that are not plain.

* Preimage columns (preimage, no reference counting): a `Set` on a present key is skipped,
  so reads equal the specification only under the preimage contract "the value is a
  function of the key" (`Contract valueOf`); `C01_preimage_needs_contract` shows that the
  contract cannot be dropped (the commit overlay answers with the new value while the
  specification keeps the old one).
* After a crash recovery or a clean reopen there is no commit overlay and no log overlay:
  a read is a table lookup and equals the specification for EVERY column kind, without any
  contract (`C02_recover_get_all`, `C03_drop_get_all`).
-/
import Pdb.Props.C03
import Pdb.Proofs.PipelineRc
import Pdb.Proofs.PipelinePre

namespace Pdb
variable {K V : Type} [DecidableEq K]

/-- Reads of a preimage hash column return the specification's value (and `get_size` its
    length) for every sequence of commits, pipeline-stage steps, clean reopens and crashes,
    provided the accepted transactions obey the preimage contract. -/
theorem C01_get_eq_spec_preimage (kind : K → Kind) (valueOf : K → V) (as : List (Action K V))
    (k : K) (hk : kind k = .preimage) (len : V → Nat) :
    let s := run kind (St.init : St K V) as
    Contract valueOf kind s.hist →
    (get s k = (spec kind s.hist k).map Prod.fst ∧
     getSize len s k = ((spec kind s.hist k).map Prod.fst).map len) := by
  intro s hc
  have hi : Inv kind s := (Inv.init kind).run as
  have hg := hi.get_preimage valueOf hc k hk
  refine ⟨hg, ?_⟩
  rw [← hg]
  unfold getSize get
  cases s.overlay k with
  | none => simp [Function.comp_def]
  | some x => rfl

/-- The contract is needed: on a preimage column a second `Set` with a different value is
    skipped by the tables (specification: 10) but answered from the commit overlay (11). -/
theorem C01_preimage_needs_contract :
    ∃ (as : List (Action Nat Nat)),
      get (run (fun _ => Kind.preimage) St.init as) 1 ≠
        (spec (fun _ => Kind.preimage) (run (fun _ => Kind.preimage) St.init as).hist 1).map Prod.fst :=
  ⟨[.commit [.set 1 10], .process, .commit [.set 1 11]], by decide⟩

/-- After crash recovery a read is a table lookup and equals the specification of the
    recovered prefix, for every column kind and without any contract (nothing is left in
    the commit overlay, the queue or the log overlay). -/
theorem C02_recover_get_all (kind : K → Kind) (as : List (Action K V)) (j n : Nat) :
    let s := run kind (St.init : St K V) as
    let s' := crashRecover s j (max n s.flushed)
    ∀ k, get s' k = (s'.tables k).map Prod.fst ∧ get s' k = (spec kind s'.hist k).map Prod.fst := by
  intro s s' k
  obtain ⟨m, _, _, h3, h4, _, _⟩ := C02_recover_prefix kind as j n
  have hg : get s' k = (s'.tables k).map Prod.fst :=
    get_tables_of_empty s' (fun _ => rfl) rfl k
  refine ⟨hg, ?_⟩
  rw [hg]
  show ((crashRecover s j (max n s.flushed)).tables k).map Prod.fst =
    (spec kind (crashRecover s j (max n s.flushed)).hist k).map Prod.fst
  rw [h3, h4]

/-- After a clean close and reopen every read (any column kind, no contract) returns the
    specification of ALL accepted transactions. -/
theorem C03_drop_get_all (kind : K → Kind) (as : List (Action K V)) :
    let s := run kind (St.init : St K V) as
    let s' := cleanReopen kind s
    ∀ k, get s' k = (spec kind s.hist k).map Prod.fst := by
  intro s s' k
  have hi : Inv kind s := (Inv.init kind).run as
  have hg : get s' k = (s'.tables k).map Prod.fst :=
    get_tables_of_empty s' (fun _ => rfl) rfl k
  rw [hg]
  show ((cleanReopen kind s).tables k).map Prod.fst = _
  rw [hi.cleanReopen.2.2]

/-- The recovered database keeps obeying C01 on preimage columns: any continuation. -/
theorem C02_continues_preimage (kind : K → Kind) (valueOf : K → V) (as bs : List (Action K V))
    (j n : Nat) (k : K) (hk : kind k = .preimage) :
    let s := run kind (St.init : St K V) (as ++ [.crash j n] ++ bs)
    Contract valueOf kind s.hist → get s k = (spec kind s.hist k).map Prod.fst := by
  intro s hc
  exact ((Inv.init kind).run _).get_preimage valueOf hc k hk

/-! Non-vacuity. -/
section Example
private def kd : Nat → Kind := fun _ => .preimage
private def vo : Nat → Nat := fun k => k * 10
/-- two commits at different stages, a repeated `Set` on a present key (skipped), a removal
    and a re-insertion still in the queue -/
private def acts : List (Action Nat Nat) :=
  [.commit [.set 1 10, .set 2 20], .process, .commit [.set 1 10, .deref 2], .flush, .enact,
   .commit [.set 2 20, .set 3 30], .process, .commit [.deref 3]]

example : Contract vo kd (run kd St.init acts).hist := Contract.of_check _ _ _ (by decide)

example : get (run kd St.init acts) 1 = some 10 ∧ get (run kd St.init acts) 2 = some 20 ∧
    get (run kd St.init acts) 3 = none ∧
    (spec kd (run kd St.init acts).hist 2).map Prod.fst = some 20 ∧
    getSize (fun v => v + 1) (run kd St.init acts) 1 = some 11 ∧
    (run kd St.init acts).queue.length = 2 ∧ (run kd St.init acts).logged.length = 1 ∧
    (run kd St.init acts).nEnacted = 1 := by decide

/-- mixed kinds, no contract: a crash with record 2 unsynced and cut off; a rc key and a
    preimage key with "wrong" second values are read from the recovered tables. -/
private def kdm : Nat → Kind := fun k => if k = 1 then .preimage else if k = 2 then .rc else .plain
private def actsm : List (Action Nat Nat) :=
  [.commit [.set 1 10, .set 2 20, .set 3 30], .process, .flush, .commit [.set 1 11, .set 2 21, .set 3 31],
   .process, .commit [.set 3 32]]
example :
    get (crashRecover (run kdm St.init actsm) 1 (max 2 (run kdm St.init actsm).flushed)) 1 = some 10 ∧
    get (crashRecover (run kdm St.init actsm) 1 (max 2 (run kdm St.init actsm).flushed)) 2 = some 20 ∧
    get (crashRecover (run kdm St.init actsm) 1 (max 2 (run kdm St.init actsm).flushed)) 3 = some 31 ∧
    (crashRecover (run kdm St.init actsm) 1 (max 2 (run kdm St.init actsm).flushed)).tables 2 = some (20, 2) ∧
    (crashRecover (run kdm St.init actsm) 1 (max 0 (run kdm St.init actsm).flushed)).tables 2 = some (20, 1) ∧
    get (cleanReopen kdm (run kdm St.init actsm)) 1 = some 10 ∧
    get (cleanReopen kdm (run kdm St.init actsm)) 3 = some 32 ∧
    -- before the reopen the preimage key is answered from the commit overlay (no contract)
    get (run kdm St.init actsm) 3 = some 32 := by decide

/-- continuation after a crash on a preimage column -/
private def actsc : List (Action Nat Nat) :=
  [.commit [.set 1 10], .process, .flush, .commit [.set 2 20], .process] ++ [.crash 0 0] ++
  [.commit [.set 1 10, .set 3 30], .process, .commit [.deref 1]]
example : Contract vo kd (run kd St.init actsc).hist := Contract.of_check _ _ _ (by decide)
example : get (run kd St.init actsc) 1 = none ∧ get (run kd St.init actsc) 2 = none ∧
    get (run kd St.init actsc) 3 = some 30 ∧ (run kd St.init actsc).hist.length = 3 := by decide
end Example

end Pdb

#print axioms Pdb.Inv.get_preimage
#print axioms Pdb.C01_get_eq_spec_preimage
#print axioms Pdb.C01_preimage_needs_contract
#print axioms Pdb.C02_recover_get_all
#print axioms Pdb.C03_drop_get_all
#print axioms Pdb.C02_continues_preimage
