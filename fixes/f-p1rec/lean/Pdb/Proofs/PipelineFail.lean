/-
The failed state (`failStep`) under further worker steps: the stages that keep running
after an I/O error until they see the flag commute with `failStep`, commits are refused,
and the history does not change.  Used by Props/C16b.lean.
-/
import Pdb.Props.C16
import Pdb.Props.C01

set_option linter.unusedSectionVars false
set_option linter.unusedSimpArgs false
namespace Pdb
variable {K V : Type} [DecidableEq K]

theorem applyRecPrefix_zero (t : Tbl K V) (r : Rec K V) : applyRecPrefix 0 t r = t := by
  simp [applyRecPrefix, applyRec]

/-- Reopening after the failure with `n` intact records is a crash recovery of the state
    before the failure (with the same partial enactment `j`). -/
theorem crashRecover_failStep (s : St K V) (j n : Nat) :
    crashRecover (failStep s j) 0 n = crashRecover s j n := by
  unfold failStep crashRecover
  cases hf : s.flushed with
  | zero => simp
  | succ f =>
    cases hl : s.logged with
    | nil => simp
    | cons r rs => simp [applyRecPrefix_zero]

/-! ### stage steps on a failed state -/

theorem process_nil (kind : K → Kind) (s : St K V) (hq : s.queue = []) : process kind s = s := by
  unfold process
  simp [hq]

theorem process_cons (kind : K → Kind) (s : St K V) (c : Commit K V) (q : List (Commit K V))
    (hq : s.queue = c :: q) :
    process kind s =
      { s with queue := q,
               logged := s.logged ++ [planRec kind (view s) c.ops],
               overlay := c.ops.foldl (cleanOp c.id) s.overlay } := by
  unfold process
  simp [hq]

theorem process_shape (kind : K → Kind) (s : St K V) (hq : s.queue ≠ []) :
    (process kind s).logged.length = s.logged.length + 1 ∧
    (process kind s).nEnacted = s.nEnacted ∧ (process kind s).flushed = s.flushed ∧
    (process kind s).hist = s.hist := by
  cases h : s.queue with
  | nil => exact absurd h hq
  | cons c q => rw [process_cons kind s c q h]; simp

/-- A `process_commits` step on a failed state is the failed state of the step: the record
    is planned against the same view (the partial enactment does not change the view). -/
theorem process_failStep {kind : K → Kind} {s : St K V} (h : Inv kind s) (j : Nat) :
    process kind (failStep s j) = failStep (process kind s) j := by
  cases hq : s.queue with
  | nil =>
    rw [process_nil kind s hq, process_nil kind (failStep s j) hq]
  | cons c q =>
    have hq' : (failStep s j).queue = c :: q := hq
    rw [process_cons kind s c q hq, process_cons kind (failStep s j) c q hq', view_failStep]
    have hfl := h.fl
    unfold failStep
    cases hf : s.flushed with
    | zero => simp
    | succ f =>
      cases hl : s.logged with
      | nil => rw [hf, hl] at hfl; simp at hfl
      | cons r rs => simp

/-- `flush_logs` on a failed state. -/
theorem flush_failStep (s : St K V) (j : Nat) :
    ∃ j', flush (failStep s j) = failStep (flush s) j' := by
  cases hf : s.flushed with
  | zero =>
    refine ⟨0, ?_⟩
    unfold flush failStep
    cases hl : s.logged with
    | nil => simp [hf]
    | cons r rs => simp [hf, applyRecPrefix_zero]
  | succ f =>
    refine ⟨j, ?_⟩
    unfold flush failStep
    cases hl : s.logged with
    | nil => simp [hf]
    | cons r rs => simp [hf]

/-- `enact_logs` for one record on a failed state: re-enacting the record whose prefix had
    reached the tables gives the tables of the complete record. -/
theorem enactOne_failStep (s : St K V) (j : Nat) :
    enactOne (failStep s j) = failStep (enactOne s) 0 := by
  unfold enactOne failStep
  cases hf : s.flushed with
  | zero => simp [hf]
  | succ f =>
    cases hl : s.logged with
    | nil => simp [hf, hl]
    | cons r rs =>
      simp only [overwrite_idempotent]
      cases f with
      | zero => simp
      | succ f' =>
        cases rs with
        | nil => simp
        | cons r' rs' => simp [applyRecPrefix_zero]

theorem commit_failStep (kind : K → Kind) (s : St K V) (j : Nat) (tx : List (Op K V)) :
    (commit kind (failStep s j) tx).1 = failStep s j :=
  (C16_commits_refused kind s j tx).2

/-! ### workers that keep running after the failure -/

/-- Action lists that can follow a failure while the handle is still open: no reopen, no
    crash. -/
def afterFailure : List (Action K V) → Bool
  | [] => true
  | .reopen :: _ => false
  | .crash _ _ :: _ => false
  | _ :: as => afterFailure as

/-- The same list without the commits (which a failed state refuses). -/
def dropCommits : List (Action K V) → List (Action K V)
  | [] => []
  | .commit _ :: as => dropCommits as
  | a :: as => a :: dropCommits as

/-- Simulation: running worker steps and (refused) commits on the failed state is the
    failed state of running the same worker steps without the commits. -/
theorem run_failStep {kind : K → Kind} {s : St K V} (h : Inv kind s) (j : Nat)
    (as' : List (Action K V)) (hw : afterFailure as' = true) :
    ∃ j', run kind (failStep s j) as' = failStep (run kind s (dropCommits as')) j' := by
  induction as' generalizing s j with
  | nil => exact ⟨j, rfl⟩
  | cons a as ih =>
    have hrun : ∀ x : St K V, run kind x (a :: as) = run kind (step kind x a) as := fun _ => rfl
    cases a with
    | commit tx =>
      have hw' : afterFailure as = true := by simpa [afterFailure] using hw
      rw [hrun]
      show ∃ j', run kind (commit kind (failStep s j) tx).1 as = _
      rw [commit_failStep]
      exact ih h j hw'
    | process =>
      have hw' : afterFailure as = true := by simpa [afterFailure] using hw
      rw [hrun]
      show ∃ j', run kind (process kind (failStep s j)) as =
        failStep (run kind (process kind s) (dropCommits as)) j'
      rw [process_failStep h]
      exact ih h.process j hw'
    | flush =>
      have hw' : afterFailure as = true := by simpa [afterFailure] using hw
      rw [hrun]
      show ∃ j', run kind (flush (failStep s j)) as =
        failStep (run kind (flush s) (dropCommits as)) j'
      obtain ⟨j1, e⟩ := flush_failStep s j
      rw [e]
      exact ih h.flush j1 hw'
    | enact =>
      have hw' : afterFailure as = true := by simpa [afterFailure] using hw
      rw [hrun]
      show ∃ j', run kind (enactOne (failStep s j)) as =
        failStep (run kind (enactOne s) (dropCommits as)) j'
      rw [enactOne_failStep]
      exact ih h.enactOne 0 hw'
    | clean =>
      have hw' : afterFailure as = true := by simpa [afterFailure] using hw
      exact ih h j hw'
    | reindex =>
      have hw' : afterFailure as = true := by simpa [afterFailure] using hw
      exact ih h j hw'
    | reopen => simp [afterFailure] at hw
    | crash j0 n0 => simp [afterFailure] at hw

/-- Worker steps accept nothing: the history is unchanged. -/
theorem run_dropCommits_hist (kind : K → Kind) (s : St K V) (as' : List (Action K V))
    (hw : afterFailure as' = true) : (run kind s (dropCommits as')).hist = s.hist := by
  induction as' generalizing s with
  | nil => rfl
  | cons a as ih =>
    cases a with
    | commit tx =>
      have hw' : afterFailure as = true := by simpa [afterFailure] using hw
      exact ih s hw'
    | process =>
      have hw' : afterFailure as = true := by simpa [afterFailure] using hw
      show (run kind (process kind s) (dropCommits as)).hist = s.hist
      rw [ih _ hw', (process_hist kind s).1]
    | flush =>
      have hw' : afterFailure as = true := by simpa [afterFailure] using hw
      show (run kind (flush s) (dropCommits as)).hist = s.hist
      rw [ih _ hw']; rfl
    | enact =>
      have hw' : afterFailure as = true := by simpa [afterFailure] using hw
      show (run kind (enactOne s) (dropCommits as)).hist = s.hist
      rw [ih _ hw', (enactOne_queue s).2.1]
    | clean =>
      have hw' : afterFailure as = true := by simpa [afterFailure] using hw
      exact ih s hw'
    | reindex =>
      have hw' : afterFailure as = true := by simpa [afterFailure] using hw
      exact ih s hw'
    | reopen => simp [afterFailure] at hw
    | crash j0 n0 => simp [afterFailure] at hw

/-- The shape of the state reached from a failed state by workers that keep running: the
    failed state of a state that satisfies the invariant and has the same history. -/
theorem Inv.run_failStep {kind : K → Kind} {s : St K V} (h : Inv kind s) (j : Nat)
    (as' : List (Action K V)) (hw : afterFailure as' = true) :
    ∃ (s2 : St K V) (j' : Nat), Pdb.run kind (failStep s j) as' = failStep s2 j' ∧ Inv kind s2 ∧
      s2.hist = s.hist :=
  let ⟨j', e⟩ := Pdb.run_failStep h j as' hw
  ⟨Pdb.run kind s (dropCommits as'), j', e, h.run _, run_dropCommits_hist kind s as' hw⟩

end Pdb
