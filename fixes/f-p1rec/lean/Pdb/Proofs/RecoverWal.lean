/-
The recovery algorithm of Model/Recover.lean (`orderKeyed`, `startId`, `acceptRecs`,
`acceptFiles`, `realAccepted`) IS the byte-level replay of Model/Wal.lean (`orderFiles`,
`initialLastEnacted`, `parseRecord`, `replayFileWith`, `replaySortedWith`, `replayOpen`)
restricted to log files that are encodings of well-formed records.

Proved here (`replayOpen_eq_realAccepted`): for ANY list of non-empty record lists (ids
arbitrary: gaps, duplicates, wrong order inside a file, any directory order), each record
well formed in `cfg` and leaving `cfg` unchanged (`StableWF`: no reindex is triggered or
finished by the record, e.g. every record made of value inserts only), the records that
`Wal.replayOpen` applies to the ENCODED files are exactly `realAccepted` of the abstract
files; and the tables are the fold of their actions.

What remains unproved (stated precisely):
  (1) torn tails: a crash can leave, at the end of the YOUNGEST file only, a strict prefix `p`
      of an encoded record.  That `parseRecord crc cfg last p` is never `.ok` needs
      prefix-freeness of the record encoding together with the CRC assumption; given that,
      `replayFile_encodeRecords` (Proofs/C13Intact) shows that the records before the tail
      are processed exactly as here and the tail ends the replay of the last file.
  (2) records that change the configuration (`cfgAfter cfg r ≠ cfg`, reindex start / drop
      records): their acceptance depends on the configuration threaded through the replay;
      `C13_only_valid_consecutive` covers them in the weaker "everything applied is
      consecutive and well formed" form.
  (3) the map from P1's logical after-images (`Rec K V`) to physical actions is tied by the
      correspondence runs only (for plain hash columns by the refinement R1-R4 of the table
      contents, not of the log records).
-/
import Pdb.Proofs.Recover
import Pdb.Proofs.C13Intact

namespace Pdb.Wal
open Pdb Pdb.Gen

/-- A record the validators accept in `cfg` and that leaves `cfg` as it is. -/
def StableWF (cfg : Cfg) (r : Record) : Prop := WellFormed cfg r ∧ cfgAfter cfg r = cfg

def keyed (f : List Record) : List (Nat × Record) := f.map (fun r => (r.id, r))

/-- The abstract log file of a list of records (the file number plays no role in replay). -/
def toLFile (f : List Record) : LFile Record := ⟨0, keyed f⟩

theorem keyed_snd (f : List Record) : (keyed f).map (·.2) = f := by
  simp [keyed, List.map_map, Function.comp_def]

/-! ### one record with the wrong id -/

theorem parseRecord_encode_seq (crc : Bytes → Nat) (cfg : Cfg) (last : Nat) (r : Record)
    (rest : Bytes) (hlt : r.id < U64) (hid : r.id ≠ last + 1) :
    parseRecord crc cfg last (encodeRecord crc r ++ rest) = .invalid .sequence cfg := by
  unfold parseRecord validatePass
  simp only [encodeRecord, encodeBody, encodeHeader, List.append_assoc, next_begin crc hlt]
  simp [hid]

/-! ### one file -/

theorem replayFile_accept {σ : Type} (step : σ → Action → σ) (crc : Bytes → Nat) (cfg : Cfg) :
    ∀ (f : List Record) (fuel last : Nat) (T : σ) (acc : List Record),
    (∀ r ∈ f, StableWF cfg r) → f.length + 1 ≤ fuel →
    ∃ tail stop T',
      replayFileWith step crc fuel ⟨cfg, last, T⟩ (encodeRecords crc f) acc =
        (⟨cfg, (acceptRecs last (keyed f)).last, T'⟩,
         ⟨acc ++ (acceptRecs last (keyed f)).recs, tail, stop⟩) ∧
      stop.clears = (acceptRecs last (keyed f)).cleared := by
  intro f
  induction f with
  | nil =>
    intro fuel last T acc _ hf
    obtain ⟨k, rfl⟩ : ∃ k, fuel = k + 1 := ⟨fuel - 1, by omega⟩
    refine ⟨[], .endOfLog, T, ?_, rfl⟩
    simp [replayFileWith_succ, encodeRecords, parseRecord_nil, keyed, acceptRecs]
  | cons r rs ih =>
    intro fuel last T acc hwf hf
    obtain ⟨k, rfl⟩ : ∃ k, fuel = k + 1 := ⟨fuel - 1, by omega⟩
    simp only [List.length_cons] at hf
    obtain ⟨⟨hlt, hs⟩, hstable⟩ := hwf r List.mem_cons_self
    have hwfr : WellFormed cfg r := ⟨hlt, hs⟩
    by_cases hid : r.id = last + 1
    · obtain ⟨tail, stop, T', h1, h2⟩ := ih k r.id (r.actions.foldl step T) (acc ++ [r])
        (fun r' hr' => hwf r' (List.mem_cons_of_mem _ hr')) (by omega)
      refine ⟨tail, stop, T', ?_, ?_⟩
      · rw [replayFileWith_succ]
        simp only [encodeRecords, parseRecord_encode crc hwfr hid, hstable]
        rw [h1]
        simp [keyed, acceptRecs, hid]
      · rw [h2]; simp [keyed, acceptRecs, hid]
    · refine ⟨encodeRecords crc (r :: rs), .invalid .sequence, T, ?_, ?_⟩
      · rw [replayFileWith_succ]
        have hlt' : r.id < U64 := by omega
        simp only [encodeRecords, parseRecord_encode_seq crc cfg last r _ hlt' hid]
        simp [keyed, acceptRecs, hid]
      · simp [keyed, acceptRecs, hid, Stop.clears, Reason.clears]

/-! ### all files -/

theorem replaySortedWith_accept {σ : Type} (step : σ → Action → σ) (crc : Bytes → Nat)
    (cfg : Cfg) :
    ∀ (files : List (List Record)) (last : Nat) (T : σ),
    (∀ f ∈ files, ∀ r ∈ f, StableWF cfg r) →
    (replaySortedWith step crc ⟨cfg, last, T⟩ (files.map (encodeRecords crc))).2.flatMap
      (·.applied) = acceptFiles last (files.map keyed) := by
  intro files
  induction files with
  | nil => intro last T _; simp [replaySortedWith, acceptFiles]
  | cons f fs ih =>
    intro last T hwf
    obtain ⟨tail, stop, T', h1, h2⟩ := replayFile_accept step crc cfg f
      ((encodeRecords crc f).length + 1) last T [] (fun r hr => hwf f List.mem_cons_self r hr)
      (by have := length_encodeRecords_ge crc f; omega)
    have ih' := ih (acceptRecs last (keyed f)).last T'
      (fun g hg => hwf g (List.mem_cons_of_mem _ hg))
    simp only [List.map_cons, replaySortedWith, h1, List.nil_append, h2, acceptFiles]
    by_cases hc : (acceptRecs last (keyed f)).cleared = true
    · simp [hc]
    · have hc' : (acceptRecs last (keyed f)).cleared = false := by simpa using hc
      simp only [hc', Bool.false_eq_true, if_false]
      generalize hout : replaySortedWith step crc ⟨cfg, (acceptRecs last (keyed f)).last, T'⟩
        (fs.map (encodeRecords crc)) = out at ih'
      obtain ⟨st2, reps⟩ := out
      simp only at ih' ⊢
      simp [ih']

/-! ### the replay queue -/

theorem firstId_encodeRecords (crc : Bytes → Nat) (r : Record) (rs : List Record)
    (hlt : r.id < U64) : firstId (encodeRecords crc (r :: rs)) = some r.id := by
  have hlen := length_encodeRecord crc r
  have e : encodeRecords crc (r :: rs) =
      leBytes 1 BEGIN_RECORD ++ (leBytes 8 r.id ++
        (encodeActions r.actions ++ leBytes 1 END_RECORD ++ leBytes 4 (crc (encodeBody r)) ++
          encodeRecords crc rs)) := by
    simp [encodeRecords, encodeRecord, encodeBody, encodeHeader]
  have h9 : ¬ (encodeRecords crc (r :: rs)).length < 9 := by
    simp only [encodeRecords, List.length_append, hlen]; omega
  unfold firstId
  rw [if_neg h9, e]
  have d1 : (leBytes 1 BEGIN_RECORD ++ (leBytes 8 r.id ++
        (encodeActions r.actions ++ leBytes 1 END_RECORD ++ leBytes 4 (crc (encodeBody r)) ++
          encodeRecords crc rs))).drop 1 = leBytes 8 r.id ++
        (encodeActions r.actions ++ leBytes 1 END_RECORD ++ leBytes 4 (crc (encodeBody r)) ++
          encodeRecords crc rs) := by
    rw [List.drop_append_of_le_length (by simp)]
    simp [List.drop_of_length_le]
  rw [d1, List.take_append_of_le_length (by simp), List.take_of_length_le (by simp)]
  rw [leVal_leBytes_of_lt (by simpa [U64] using hlt)]

theorem insertFile_map {α : Type} (e : α → Bytes) (k : Nat) (x : α) (l : List (Nat × α)) :
    insertFile k (e x) (l.map (fun p => (p.1, e p.2))) =
      (insertKeyed k x l).map (fun p => (p.1, e p.2)) := by
  induction l with
  | nil => rfl
  | cons y ys ih =>
    obtain ⟨k', y'⟩ := y
    by_cases h : k ≤ k'
    · simp [insertFile, insertKeyed, h]
    · simp only [List.map_cons, insertFile, insertKeyed, h, if_false, ih]

theorem toLFile_firstId (r : Record) (rs : List Record) : (toLFile (r :: rs)).firstId = some r.id := by
  simp [toLFile, keyed, LFile.firstId]

theorem orderFilesKeyed_encode (crc : Bytes → Nat) (files : List (List Record))
    (hne : ∀ f ∈ files, f ≠ []) (hlt : ∀ f ∈ files, ∀ r ∈ f, r.id < U64) :
    orderFilesKeyed (files.map (encodeRecords crc)) =
      (orderKeyed LFile.firstId (files.map toLFile)).map
        (fun p => (p.1, encodeRecords crc (p.2.recs.map (·.2)))) := by
  induction files with
  | nil => rfl
  | cons f fs ih =>
    cases f with
    | nil => exact absurd rfl (hne [] List.mem_cons_self)
    | cons r rs =>
      have ih' := ih (fun g hg => hne g (List.mem_cons_of_mem _ hg))
        (fun g hg => hlt g (List.mem_cons_of_mem _ hg))
      have hk := firstId_encodeRecords crc r rs (hlt _ List.mem_cons_self r List.mem_cons_self)
      have e : encodeRecords crc (r :: rs) =
          (fun lf : LFile Record => encodeRecords crc (lf.recs.map (·.2))) (toLFile (r :: rs)) := by
        simp only [toLFile, keyed_snd]
      simp only [List.map_cons, orderFilesKeyed, hk, ih']
      rw [orderKeyed_cons_some LFile.firstId _ _ r.id (toLFile_firstId r rs), e]
      exact insertFile_map (fun lf : LFile Record => encodeRecords crc (lf.recs.map (·.2))) r.id
        (toLFile (r :: rs)) _

theorem mem_insertKeyed {α : Type} {k : Nat} {x : α} {l : List (Nat × α)} {p : Nat × α}
    (h : p ∈ insertKeyed k x l) : p = (k, x) ∨ p ∈ l := by
  induction l with
  | nil => simp [insertKeyed] at h; exact Or.inl h
  | cons y ys ih =>
    obtain ⟨k', y'⟩ := y
    by_cases hk : k ≤ k'
    · simp only [insertKeyed, hk, if_true, List.mem_cons] at h
      rcases h with h | h | h
      · exact Or.inl h
      · exact Or.inr (by simp [h])
      · exact Or.inr (List.mem_cons_of_mem _ h)
    · simp only [insertKeyed, hk, if_false, List.mem_cons] at h
      rcases h with h | h
      · exact Or.inr (by simp [h])
      · rcases ih h with h | h
        · exact Or.inl h
        · exact Or.inr (List.mem_cons_of_mem _ h)

theorem mem_orderKeyed {α : Type} (key : α → Option Nat) {l : List α} {p : Nat × α}
    (h : p ∈ orderKeyed key l) : p.2 ∈ l ∧ key p.2 = some p.1 := by
  induction l with
  | nil => simp [orderKeyed] at h
  | cons f fs ih =>
    cases hk : key f with
    | none =>
      rw [orderKeyed_cons_none key f fs hk] at h
      exact ⟨List.mem_cons_of_mem _ (ih h).1, (ih h).2⟩
    | some k =>
      rw [orderKeyed_cons_some key f fs k hk] at h
      rcases mem_insertKeyed h with rfl | h
      · exact ⟨List.mem_cons_self, hk⟩
      · exact ⟨List.mem_cons_of_mem _ (ih h).1, (ih h).2⟩

/-! ### `Db::open` -/

/-- The id logic of Model/Recover.lean is the byte-level replay of Model/Wal.lean on encoded
    well-formed records: same replay order, same start id, same accepted records. -/
theorem replayOpen_eq_realAccepted (crc : Bytes → Nat) (cfg : Cfg) (files : List (List Record))
    (hne : ∀ f ∈ files, f ≠ []) (hwf : ∀ f ∈ files, ∀ r ∈ f, StableWF cfg r) :
    (replayOpen crc cfg (files.map (encodeRecords crc))).applied =
      realAccepted (files.map toLFile) ∧
    initialLastEnacted (files.map (encodeRecords crc)) =
      startId (replayOrder LFile.firstId (files.map toLFile)) ∧
    ∀ (σ : Type) (step : σ → Action → σ) (T : σ),
      (replaySortedWith step crc
        ⟨cfg, initialLastEnacted (files.map (encodeRecords crc)), T⟩
        (orderFiles (files.map (encodeRecords crc)))).1.tables =
      ((realAccepted (files.map toLFile)).flatMap (·.actions)).foldl step T := by
  have hlt : ∀ f ∈ files, ∀ r ∈ f, r.id < U64 := by
    intro f hf r hr
    have := (hwf f hf r hr).1.1
    omega
  have hord := orderFilesKeyed_encode crc files hne hlt
  -- every queued abstract file is one of the given ones
  have hq : ∀ p ∈ orderKeyed LFile.firstId (files.map toLFile),
      ∃ f ∈ files, p.2 = toLFile f ∧ p.2.firstId = some p.1 := by
    intro p hp
    obtain ⟨h1, h2⟩ := mem_orderKeyed LFile.firstId hp
    obtain ⟨f, hf, hpf⟩ := List.mem_map.mp h1
    exact ⟨f, hf, hpf.symm, h2⟩
  have hstart : initialLastEnacted (files.map (encodeRecords crc)) =
      startId (replayOrder LFile.firstId (files.map toLFile)) := by
    unfold initialLastEnacted startId replayOrder
    rw [hord]
    cases ho : orderKeyed LFile.firstId (files.map toLFile) with
    | nil => rfl
    | cons p ps =>
      obtain ⟨f, _, _, hk⟩ := hq p (by rw [ho]; exact List.mem_cons_self)
      simp [hk]
  have hfiles : orderFiles (files.map (encodeRecords crc)) =
      ((replayOrder LFile.firstId (files.map toLFile)).map (fun lf => lf.recs.map (·.2))).map
        (encodeRecords crc) := by
    unfold orderFiles replayOrder
    rw [hord]; simp [List.map_map, Function.comp_def]
  have hkeyed : ((replayOrder LFile.firstId (files.map toLFile)).map
      (fun lf => lf.recs.map (·.2))).map keyed =
      (replayOrder LFile.firstId (files.map toLFile)).map (·.recs) := by
    unfold replayOrder
    simp only [List.map_map]
    apply List.map_congr_left
    intro p hp
    obtain ⟨f, _, hpf, _⟩ := hq p hp
    simp only [Function.comp_def, hpf, toLFile, keyed_snd]
  have hwf' : ∀ g ∈ (replayOrder LFile.firstId (files.map toLFile)).map
      (fun lf => lf.recs.map (·.2)), ∀ r ∈ g, StableWF cfg r := by
    intro g hg r hr
    unfold replayOrder at hg
    rw [List.map_map] at hg
    obtain ⟨p, hp, rfl⟩ := List.mem_map.mp hg
    obtain ⟨f, hf, hpf, _⟩ := hq p hp
    simp only [Function.comp_def, hpf, toLFile, keyed_snd] at hr
    exact hwf f hf r hr
  have key : ∀ (σ : Type) (step : σ → Action → σ) (T : σ),
      (replaySortedWith step crc ⟨cfg, initialLastEnacted (files.map (encodeRecords crc)), T⟩
        (orderFiles (files.map (encodeRecords crc)))).2.flatMap (·.applied) =
      realAccepted (files.map toLFile) := by
    intro σ step T
    rw [hfiles, replaySortedWith_accept step crc cfg _ _ T hwf', hkeyed, hstart]
    rfl
  refine ⟨?_, hstart, ?_⟩
  · have := key Unit (fun _ _ => ()) ()
    unfold replayOpen replay replaySorted ReplayResult.applied
    generalize hout : replaySortedWith (σ := Unit) (fun _ _ => ()) crc
      ⟨cfg, initialLastEnacted (files.map (encodeRecords crc)), ()⟩
      (orderFiles (files.map (encodeRecords crc))) = out at this
    obtain ⟨st, reps⟩ := out
    exact this
  · intro σ step T
    have h1 := replaySorted_tables step crc cfg
      (initialLastEnacted (files.map (encodeRecords crc))) T
      (orderFiles (files.map (encodeRecords crc)))
    rw [h1]
    have h2 := key Unit (fun _ _ => ()) ()
    have h3 : (replaySorted crc cfg (initialLastEnacted (files.map (encodeRecords crc)))
        (orderFiles (files.map (encodeRecords crc)))).applied =
        realAccepted (files.map toLFile) := by
      unfold replaySorted ReplayResult.applied
      generalize hout : replaySortedWith (σ := Unit) (fun _ _ => ()) crc
        ⟨cfg, initialLastEnacted (files.map (encodeRecords crc)), ()⟩
        (orderFiles (files.map (encodeRecords crc))) = out at h2
      obtain ⟨st, reps⟩ := out
      exact h2
    rw [h3]

end Pdb.Wal
