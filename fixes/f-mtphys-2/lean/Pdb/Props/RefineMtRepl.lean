/-
R6, replacement of a live root on a multitree column without `ref_counted` (`Operation::Set` on a key that has a root entry;
outside C10's `LegalInOrder`, where live root keys are distinct, but accepted by the Db: `C10T_insert_live_key_leaks`).

  R6_replace_root_move   the new value belongs to ANOTHER size tier: `write_remove_plan` on the old tier, `write_insert_plan` on
                         the new one, index entry replaced = C10's `applyRootChange .plain h (.set k root')` (`rootEntry`: new
                         root, count 1; the nodes of the old tree are NOT dereferenced - the leak C10 documents)
Not done: the new value in the SAME tier (`write_replace_plan` in place: needs the frame of `overwrite_chain` on an old chain for
keyed values; single-slot tiers would follow `tier_write`).
-/
import Pdb.Proofs.RefineMt18

namespace Pdb.MultiTreePhys
open Pdb.Gen Pdb.ValueTable Pdb.MultiTree

/-- R6_replace_root_move -/
theorem R6_replace_root_move {p : PCol} {h : Heap Key Bytes} {ly : Layout} (r : Rep p h ly) (k : Key)
    (n root' : Node Bytes) (c : Nat) (hk : k.length = 32) (hv : p.variant = .plain)
    (hg : h.roots.get k = some (n, c)) (hn : NodeOk root')
    (hmove : ∀ a, p.index.get k = some a → Address.size_tier a ≠ rootTier false k (encodeNode root').length)
    (hroom : (p.vt (rootTier false k (encodeNode root').length)).filled +
      numParts (tableOfTier false (rootTier false k (encodeNode root').length)) (keyTail k) (encodeNode root') ≤ 2 ^ 56) :
    ∃ p' ly', physApplyRoot p (.set k root') = .ok p' ∧ Rep p' (applyRootChange .plain h (.set k root')) ly' ∧
      p'.variant = p.variant ∧ physGetRoot p' k = some (root', 1) :=
  sim_replaceRoot_move p h ly r k n root' c hk hv hg hn hmove hroom

/-! ## non-vacuity: a small root is written on the empty column and replaced by a root with 100 data bytes (another tier) -/

def exKr : Key := List.replicate 32 5
def exRa : Node Bytes := ⟨[1, 2, 3], []⟩
def exRb : Node Bytes := ⟨List.replicate 100 9, []⟩
def exHr : Heap Key Bytes := { (Heap.empty : Heap Key Bytes) with roots := (Heap.empty : Heap Key Bytes).roots.set exKr (some (exRa, 1)) }

set_option maxRecDepth 1000000 in
example : ∃ p ly h, Rep p h ly ∧ physGetRoot p exKr = some (exRb, 1) := by
  have hT : rootTier false exKr (encodeNode exRa).length ≠ rootTier false exKr (encodeNode exRb).length := by decide
  have hnp : numParts ((PCol.init .plain).vt (rootTier (PCol.init .plain).isRc exKr (encodeNode exRa).length))
      (keyTail exKr) (encodeNode exRa) = 1 := by
    rw [numParts_cfg _ _ ((rep_init .plain).cfg _)]; decide
  have hb1 : ((PCol.init .plain).vt (rootTier (PCol.init .plain).isRc exKr (encodeNode exRa).length)).filled +
      numParts ((PCol.init .plain).vt (rootTier (PCol.init .plain).isRc exKr (encodeNode exRa).length))
        (keyTail exKr) (encodeNode exRa) ≤ 2 ^ 56 := by rw [hnp, init_filled]; decide
  obtain ⟨p1, c, hp1, r1, _, hv1⟩ := sim_setRoot_new (PCol.init .plain) Heap.empty Layout.empty (rep_init .plain) exKr exRa
    (by decide) rfl ⟨by decide, by decide⟩ hb1
  have hfl := setRoot_filled (PCol.init .plain) Heap.empty Layout.empty (rep_init .plain) exKr exRa (by decide) rfl hb1 p1 hp1
  have hv1' : p1.variant = .plain := by rw [hv1]; rfl
  have hg1 : exHr.roots.get exKr = some (exRa, 1) := by simp [exHr, FMap.get_set]
  obtain ⟨p2, ly2, _, r2, _, hget⟩ := R6_replace_root_move (h := exHr) r1 exKr exRa exRb 1 (by decide) hv1' hg1
    ⟨by decide, by decide⟩
    (by
      intro a ha
      have hm := (r1.roots.rdom (Address.size_tier a) exKr).mpr ⟨a, ha, rfl⟩
      by_cases he : Address.size_tier a = rootTier (PCol.init .plain).isRc exKr (encodeNode exRa).length
      · rw [he]; exact hT
      · simp only [upd_other _ _ _ _ he, Layout.empty] at hm
        simp at hm)
    (by
      have h1 := hfl (rootTier false exKr (encodeNode exRb).length)
      rw [if_neg (fun e => hT e.symm), init_filled] at h1
      have h2 : numParts (tableOfTier false (rootTier false exKr (encodeNode exRb).length)) (keyTail exKr)
          (encodeNode exRb) = 1 := by decide
      rw [h2]; omega)
  exact ⟨p2, ly2, _, r2, hget⟩

end Pdb.MultiTreePhys

section Axioms
open Pdb.MultiTreePhys
#print axioms R6_replace_root_move
end Axioms
