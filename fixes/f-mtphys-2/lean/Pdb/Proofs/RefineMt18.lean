/-
R6 lemmas, part 18: replacement of a live root on a column without `ref_counted`, into a DIFFERENT size tier
(`write_existing_value_plan`: `write_remove_plan` on the old tier, `write_insert_plan` on the new one, index entry replaced).
-/
import Pdb.Proofs.RefineMt17

namespace Pdb.MultiTreePhys
open Pdb.Gen Pdb.ValueTable Pdb.MultiTree

/-- `Rep` looks at the index and at the root map only through `get` -/
theorem Rep.congr {p p' : PCol} {h h' : Heap Key Bytes} {ly : Layout} (r : Rep p h ly)
    (hvar : p'.variant = p.variant) (hvt : p'.vt = p.vt) (hrc : p'.rc = p.rc)
    (hidx : ∀ k, p'.index.get k = p.index.get k)
    (hnodes : h'.nodes = h.nodes) (hhrc : h'.rc = h.rc) (hroots : ∀ k, h'.roots.get k = h.roots.get k) :
    Rep p' h' ly := by
  have hisrc : p'.isRc = p.isRc := by simp [PCol.isRc, hvar]
  refine ⟨?_, ?_, r.nodup, ?_, ?_, ?_, ?_, ?_, ?_⟩
  · intro tier; rw [hvt]; exact r.tiers tier
  · intro tier; rw [hvt, hisrc]; exact r.cfg tier
  · intro tier a; rw [hnodes]; exact r.dom tier a
  · intro a n hg; rw [hnodes] at hg; rw [hvt]; exact r.node a n hg
  · rw [hrc, hhrc]; exact r.rc
  · intro tier; rw [hvt]; exact r.bound tier
  · refine ⟨r.roots.otherEq, r.roots.rnodup, ?_, ?_, ?_⟩
    · intro tier k; rw [hidx]; exact r.roots.rdom tier k
    · intro k n c hg
      rw [hroots] at hg
      obtain ⟨a, g1, g2, g3, g4⟩ := r.roots.root k n c hg
      exact ⟨a, by rw [hidx]; exact g1, g2, g3, by rw [hvt]; exact g4⟩
    · intro k hg; rw [hroots] at hg; rw [hidx]; exact r.roots.rootNone k hg
  · rw [hnodes]; exact r.wf

/-- `Operation::Set(key, new root)` on a LIVE key of a column without `ref_counted` whose new value belongs to another size
    tier: the old value is removed (its slots pushed on the old tier's free list), the new value inserted in the new tier, the
    index entry replaced; simulated by `applyRootChange` (`rootEntry`: the new root with count 1). -/
theorem sim_replaceRoot_move (p : PCol) (h : Heap Key Bytes) (ly : Layout) (r : Rep p h ly) (k : Key)
    (n root' : Node Bytes) (c : Nat) (hk : k.length = 32) (hv : p.variant = .plain)
    (hg : h.roots.get k = some (n, c)) (hn : NodeOk root')
    (hmove : ∀ a, p.index.get k = some a → Address.size_tier a ≠ rootTier false k (encodeNode root').length)
    (hroom : (p.vt (rootTier false k (encodeNode root').length)).filled +
      numParts (tableOfTier false (rootTier false k (encodeNode root').length)) (keyTail k) (encodeNode root') ≤ 2 ^ 56) :
    ∃ p' ly', physApplyRoot p (.set k root') = .ok p' ∧ Rep p' (applyRootChange .plain h (.set k root')) ly' ∧
      p'.variant = p.variant ∧ physGetRoot p' k = some (root', 1) := by
  have hrcol : p.isRc = false := by simp [PCol.isRc, hv]
  obtain ⟨t1, a, ha, hrm, r1⟩ := sim_removeRoot p h ly r k n c hg
  have hne := hmove a ha
  -- the intermediate column
  have hisrc1 : ({ p.setVT (Address.size_tier a) t1 with index := p.index.set k none } : PCol).isRc = false := hrcol
  have hfresh : ({ h with roots := h.roots.set k none } : Heap Key Bytes).roots.get k = none := FMap.get_set_same _ _ _
  have hvt1 : (({ p.setVT (Address.size_tier a) t1 with index := p.index.set k none } : PCol).vt
      (rootTier false k (encodeNode root').length)) = p.vt (rootTier false k (encodeNode root').length) :=
    setVT_other _ _ _ _ (fun e => hne e.symm)
  have hcfgT := r.cfg (rootTier false k (encodeNode root').length)
  rw [hrcol] at hcfgT
  have hnp := numParts_cfg _ _ hcfgT (keyTail k) (encodeNode root')
  obtain ⟨p2, cch, hp2, r2, hget2, hv2⟩ := sim_setRoot_new _ _ _ r1 k root' hk hfresh hn (by
    rw [hisrc1, hvt1, hnp]; exact hroom)
  -- the actual result of `physSetRoot` differs from `p2` only in how the index map was built
  simp only [physApplyRoot, physSetRoot, hisrc1, FMap.get_set_same] at hp2
  cases hw : writeChain (p.vt (rootTier false k (encodeNode root').length)) (keyTail k) (encodeNode root') none false with
  | error e =>
    rw [hvt1] at hp2
    rw [hw] at hp2
    simp at hp2
  | ok w =>
    rw [hvt1] at hp2
    rw [hw] at hp2
    simp only [Except.ok.injEq] at hp2
    subst hp2
    have r3 := r2.congr
      (p' := { (p.setVT (Address.size_tier a) t1).setVT (rootTier false k (encodeNode root').length) w.table with
        index := p.index.set k (some (Address.new w.addr (rootTier false k (encodeNode root').length))) })
      (h' := applyRootChange .plain h (.set k root')) rfl rfl rfl
      (by
        intro k'
        show (p.index.set k (some _)).get k' = ((p.index.set k none).set k (some _)).get k'
        simp only [FMap.get_set]
        split <;> rfl)
      rfl rfl
      (by
        intro k'
        show (applyRootChange .plain h (.set k root')).roots.get k' = _
        simp only [applyRootChange, hg, rootEntry, FMap.get_set]
        split <;> rfl)
    refine ⟨_, _, ?_, r3, rfl, ?_⟩
    · simp only [physApplyRoot, physSetRoot, ha, hrcol, Bool.false_eq_true, if_false, hne, hrm]
      have : ((p.setVT (Address.size_tier a) t1).vt (rootTier false k (encodeNode root').length)) =
          p.vt (rootTier false k (encodeNode root').length) := setVT_other _ _ _ _ (fun e => hne e.symm)
      rw [this, hw]
    · have := hget2
      unfold physGetRoot at this ⊢
      simp only [FMap.get_set, if_true] at this ⊢
      exact this

end Pdb.MultiTreePhys
