//! C18: at most one live handle per database directory.  Threads and CHILD PROCESSES (re-exec
//! of this binary, hidden sub-command `c18-child <dir> <mode>`) race open / drop / kill -9 on
//! one directory.
//!
//! Oracle (independent of the Lean model): at most one Ok handle at a time; every losing open
//! reports Locked; a failed open leaves the directory content (names + hashes, except the
//! `lock` file) unchanged; after drop or `kill -9` of the holder the next open succeeds; a
//! second open racing the first open's recovery (crash image with pending logs) gets Locked
//! and the recovered content is exactly the committed content.
//!
//! MODEL-COMPARED PART (every case, before the racy scenario): a deterministic script of whole
//! operations (open / open with wrong options / second open inside the same process, optionally from
//! another thread / commit / get / fingerprint / drop / kill -9 / add_column / drop_last_column /
//! reset_column / clear_column / directory listing / outside creation and removal of the `lock`
//! file) over 2-4 server child processes (`c18-child <dir> serve`), one operation at a time, each
//! printed as a `c18 ...` op line with the canonical result observed on the real crate; the Lean
//! machine `Pdb.LockDir` (driver command `c18`) replays them.  The script has its own oracle in
//! plain Rust (holder bookkeeping, directory snapshots around every call that must change nothing,
//! reference map of the committed content), independent of the Lean model.
//! The racy scenario that follows stays oracle-only (its interleaving is not reproducible); its
//! summary line `c18 scenario <name>` -> ok / fail is answered `ok` by the driver.
use crate::util::*;
use parity_db::{Db, Options};
use std::collections::BTreeMap;
use std::io::{BufRead, BufReader, Write};
use std::path::{Path, PathBuf};
use std::process::{Child, ChildStdin, Command, Stdio};
use std::sync::atomic::{AtomicUsize, Ordering};
use std::sync::{Arc, Mutex};
use std::time::{Duration, Instant};

fn options(dir: &Path, threads: bool) -> Options {
	let mut o = Options::with_columns(dir, 1);
	o.salt = Some([3u8; 32]);
	o.stats = false;
	o.with_background_thread = threads;
	o.always_flush = true;
	o
}

fn key_of(i: u64) -> Vec<u8> {
	let mut k = vec![0u8; 32];
	k[..8].copy_from_slice(&i.to_be_bytes());
	k[8..16].copy_from_slice(&(i.wrapping_mul(0x9E37_79B9_7F4A_7C15)).to_be_bytes());
	k[16..24].copy_from_slice(&(!i).to_be_bytes());
	k
}

fn value_of(i: u64, len: usize) -> Vec<u8> {
	let mut r = Rng::new(i ^ 0xc18);
	let mut v = Vec::with_capacity(len + 8);
	while v.len() < len {
		v.extend_from_slice(&r.next().to_le_bytes());
	}
	v.truncate(len);
	v
}

fn fnv(h: &mut u64, data: &[u8]) {
	for b in data {
		*h ^= *b as u64;
		*h = h.wrapping_mul(0x100_0000_01b3);
	}
}

/// Digest of the values of keys 0..n (absent keys are part of the digest).
fn content_digest(db: &Db, n: u64) -> u64 {
	let mut h = 0xcbf2_9ce4_8422_2325u64;
	for i in 0..n {
		match db.get(0, &key_of(i)).unwrap() {
			Some(v) => {
				fnv(&mut h, &[1]);
				fnv(&mut h, &(v.len() as u64).to_le_bytes());
				fnv(&mut h, &v);
			},
			None => fnv(&mut h, &[0]),
		}
	}
	h
}

/// names + sizes + content hashes of everything in the directory except the `lock` file
fn dir_snapshot(dir: &Path) -> BTreeMap<String, (u64, u64)> {
	let mut m = BTreeMap::new();
	if let Ok(rd) = std::fs::read_dir(dir) {
		for e in rd.flatten() {
			let name = e.file_name().to_string_lossy().to_string();
			if name == "lock" {
				continue
			}
			let data = std::fs::read(e.path()).unwrap_or_default();
			let mut h = 0xcbf2_9ce4_8422_2325u64;
			// sparse index files: hash only non-zero 4 KiB blocks (with their offsets)
			for (bi, blk) in data.chunks(4096).enumerate() {
				if blk.iter().any(|b| *b != 0) {
					fnv(&mut h, &(bi as u64).to_le_bytes());
					fnv(&mut h, blk);
				}
			}
			m.insert(name, (data.len() as u64, h));
		}
	}
	m
}

// ------------------------------------------------------------------------------------ child

/// `pdbverif c18-child <dir> <mode> [n]` with mode = try | hold | try-open.
/// Prints `ok` / `locked` / `err:<Kind>`; `hold` then prints `digest <hex>` for keys 0..n and keeps
/// the handle until a line arrives on stdin (or EOF), then drops it and prints `dropped`.
pub fn child_main(args: &[String]) -> i32 {
	let dir = PathBuf::from(&args[0]);
	let mode = args[1].as_str();
	let n: u64 = args.get(2).map(|s| s.parse().unwrap()).unwrap_or(0);
	let out = std::io::stdout();
	let say = |s: &str| {
		let mut l = out.lock();
		let _ = writeln!(l, "{}", s);
		let _ = l.flush();
	};
	if mode == "serve" {
		return serve(&dir)
	}
	let o = options(&dir, true);
	let r = if mode == "try-open" { Db::open(&o) } else { Db::open_or_create(&o) };
	match r {
		Ok(db) => {
			say("ok");
			if mode == "hold" {
				say(&format!("digest {:016x}", content_digest(&db, n)));
				let mut line = String::new();
				let _ = std::io::stdin().read_line(&mut line);
			}
			drop(db);
			say("dropped");
			0
		},
		Err(parity_db::Error::Locked(_)) => {
			say("locked");
			0
		},
		Err(e) => {
			say(&format!("err:{}", err_kind(&e)));
			0
		},
	}
}

struct Kid {
	child: Child,
	stdin: Option<ChildStdin>,
	lines: std::sync::mpsc::Receiver<String>,
}

fn spawn_kid(dir: &Path, mode: &str, n: u64) -> Kid {
	let exe = std::env::current_exe().unwrap();
	let mut child = Command::new(exe)
		.arg("c18-child")
		.arg(dir)
		.arg(mode)
		.arg(n.to_string())
		.stdin(Stdio::piped())
		.stdout(Stdio::piped())
		.stderr(Stdio::null())
		.spawn()
		.expect("spawn c18 child");
	let stdout = child.stdout.take().unwrap();
	let stdin = child.stdin.take();
	let (tx, rx) = std::sync::mpsc::channel();
	std::thread::spawn(move || {
		for l in BufReader::new(stdout).lines().flatten() {
			if tx.send(l).is_err() {
				break
			}
		}
	});
	Kid { child, stdin, lines: rx }
}

impl Kid {
	fn line(&self, secs: u64) -> Option<String> {
		self.lines.recv_timeout(Duration::from_secs(secs)).ok()
	}
	fn release(&mut self) {
		if let Some(mut s) = self.stdin.take() {
			let _ = s.write_all(b"go\n");
		}
	}
	fn finish(mut self) {
		self.release();
		let t0 = Instant::now();
		loop {
			if let Ok(Some(_)) = self.child.try_wait() {
				break
			}
			if t0.elapsed() > Duration::from_secs(30) {
				let _ = self.child.kill();
				let _ = self.child.wait();
				break
			}
			std::thread::sleep(Duration::from_millis(2));
		}
	}
}


// ------------------------------------------------------------------------------------ scripted part

/// options from column codes (bit0 = uniform, bit1 = btree_index)
fn opts_of(dir: &Path, cols: &[u8]) -> Options {
	let mut o = Options::with_columns(dir, cols.len() as u8);
	for (i, c) in cols.iter().enumerate() {
		o.columns[i] = col_of(*c);
	}
	o.salt = Some([3u8; 32]);
	o.stats = false;
	o.with_background_thread = false;
	o.always_flush = true;
	o
}

fn col_of(c: u8) -> parity_db::ColumnOptions {
	let mut co = parity_db::ColumnOptions::default();
	co.uniform = c & 1 != 0;
	co.btree_index = c & 2 != 0;
	co
}

fn code_of(co: &parity_db::ColumnOptions) -> u8 {
	let c = (co.uniform as u8) | ((co.btree_index as u8) << 1);
	if *co == col_of(c) {
		c
	} else {
		99
	}
}

fn parse_cols(s: &str) -> Vec<u8> {
	if s == "-" {
		return vec![]
	}
	s.split(',').map(|x| x.parse().unwrap()).collect()
}

fn show_cols(c: &[u8]) -> String {
	if c.is_empty() {
		"-".into()
	} else {
		c.iter().map(|x| x.to_string()).collect::<Vec<_>>().join(",")
	}
}

fn canon_err(e: &parity_db::Error) -> String {
	match e {
		parity_db::Error::IncompatibleColumnConfig { id, .. } => format!("err:IncompatibleColumnConfig:{}", id),
		e => format!("err:{}", err_kind(e)),
	}
}

fn val_bytes(v: u64) -> Vec<u8> {
	let mut b = v.to_le_bytes().to_vec();
	b.extend_from_slice(&(v.wrapping_mul(0x9E37_79B9_7F4A_7C15) ^ 0xc18).to_le_bytes());
	b
}

fn render_val(b: &[u8]) -> String {
	if b.len() == 16 {
		let v = u64::from_le_bytes(b[..8].try_into().unwrap());
		if val_bytes(v) == b {
			return v.to_string()
		}
	}
	format!("raw{}", hex(b))
}

const FP_KEYS: u64 = 6;

struct Slot {
	db: Db,
	ncols: usize,
	pending: u32,
}

/// `pdbverif c18-child <dir> serve`: one command per stdin line, one result line per command.
///   open <slot> <c|o> <cols> <thread 0/1> | commit <slot> <col> <key> <v|del> <enact 0/1> |
///   get <slot> <col> <key> | fp <slot> | drop <slot> | add <cols> <code> | droplast <cols> |
///   reset <cols> <i> <code|-> | clear <i>
/// EOF: drop every handle and exit.  Handles run WITHOUT background threads; a commit is logged and
/// flushed (and, when asked or when two log files are pending, enacted and cleaned) before `ok`.
fn serve(dir: &Path) -> i32 {
	let out = std::io::stdout();
	let say = |s: &str| {
		let mut l = out.lock();
		let _ = writeln!(l, "{}", s);
		let _ = l.flush();
	};
	let mut slots: BTreeMap<u64, Slot> = BTreeMap::new();
	let stdin = std::io::stdin();
	let mut line = String::new();
	loop {
		line.clear();
		match stdin.read_line(&mut line) {
			Ok(0) | Err(_) => break,
			_ => {},
		}
		let w: Vec<&str> = line.split_whitespace().collect();
		if w.is_empty() {
			continue
		}
		let res: String = match w[0] {
			"open" => {
				let slot: u64 = w[1].parse().unwrap();
				let o = opts_of(dir, &parse_cols(w[3]));
				let create = w[2] == "c";
				let ncols = o.columns.len();
				let r = if w[4] == "1" {
					std::thread::spawn(move || if create { Db::open_or_create(&o) } else { Db::open(&o) }).join().unwrap()
				} else if create {
					Db::open_or_create(&o)
				} else {
					Db::open(&o)
				};
				match r {
					Ok(db) => {
						slots.insert(slot, Slot { db, ncols, pending: 0 });
						"ok".into()
					},
					Err(e) => canon_err(&e),
				}
			},
			"commit" => {
				let s = slots.get_mut(&w[1].parse().unwrap()).unwrap();
				let col: u8 = w[2].parse().unwrap();
				let key = key_of(w[3].parse().unwrap());
				let v = if w[4] == "del" { None } else { Some(val_bytes(w[4].parse().unwrap())) };
				let step = |s: &mut Slot| -> parity_db::Result<()> {
					s.db.commit(vec![(col, key, v)])?;
					s.db.process_commits()?;
					s.db.flush_logs()?;
					s.pending += 1;
					if w[5] == "1" || s.pending >= 2 {
						for _ in 0..s.pending {
							s.db.enact_logs()?;
						}
						s.db.clean_logs()?;
						s.pending = 0;
					}
					Ok(())
				};
				match step(s) {
					Ok(()) => "ok".into(),
					Err(e) => canon_err(&e),
				}
			},
			"get" => {
				let s = slots.get(&w[1].parse().unwrap()).unwrap();
				match s.db.get(w[2].parse().unwrap(), &key_of(w[3].parse().unwrap())) {
					Ok(Some(v)) => format!("some {}", render_val(&v)),
					Ok(None) => "none".into(),
					Err(e) => canon_err(&e),
				}
			},
			"fp" => {
				let s = slots.get(&w[1].parse().unwrap()).unwrap();
				let mut parts = vec![];
				for c in 0..s.ncols {
					for k in 0..FP_KEYS {
						match s.db.get(c as u8, &key_of(k)) {
							Ok(Some(v)) => parts.push(format!("{}:{}={}", c, k, render_val(&v))),
							Ok(None) => {},
							Err(e) => parts.push(format!("{}:{}={}", c, k, canon_err(&e))),
						}
					}
				}
				if parts.is_empty() {
					"-".into()
				} else {
					parts.join(",")
				}
			},
			"drop" => {
				let s = slots.remove(&w[1].parse().unwrap()).unwrap();
				drop(s);
				"ok".into()
			},
			"add" => {
				let mut o = opts_of(dir, &parse_cols(w[1]));
				match Db::add_column(&mut o, col_of(w[2].parse().unwrap())) {
					Ok(()) => "ok".into(),
					Err(e) => canon_err(&e),
				}
			},
			"droplast" => {
				let mut o = opts_of(dir, &parse_cols(w[1]));
				match Db::drop_last_column(&mut o) {
					Ok(()) => "ok".into(),
					Err(e) => canon_err(&e),
				}
			},
			"reset" => {
				let mut o = opts_of(dir, &parse_cols(w[1]));
				let new = if w[3] == "-" { None } else { Some(col_of(w[3].parse().unwrap())) };
				match Db::reset_column(&mut o, w[2].parse().unwrap(), new) {
					Ok(()) => "ok".into(),
					Err(e) => canon_err(&e),
				}
			},
			"clear" => match parity_db::clear_column(dir, w[1].parse().unwrap()) {
				Ok(()) => "ok".into(),
				Err(e) => canon_err(&e),
			},
			_ => "bad-command".into(),
		};
		say(&res);
	}
	drop(slots);
	0
}


/// names + sizes + mtimes of everything in the directory except `lock`; content hash of small files
fn light_snapshot(dir: &Path) -> BTreeMap<String, (u64, u128, u64)> {
	let mut m = BTreeMap::new();
	if let Ok(rd) = std::fs::read_dir(dir) {
		for e in rd.flatten() {
			let name = e.file_name().to_string_lossy().to_string();
			if name == "lock" {
				continue
			}
			let md = match e.metadata() {
				Ok(md) => md,
				Err(_) => continue,
			};
			let mt = md.modified().ok().and_then(|t| t.duration_since(std::time::UNIX_EPOCH).ok()).map(|d| d.as_nanos()).unwrap_or(0);
			let mut h = 0xcbf2_9ce4_8422_2325u64;
			if md.len() < (1 << 20) {
				fnv(&mut h, &std::fs::read(e.path()).unwrap_or_default());
			}
			m.insert(name, (md.len(), mt, h));
		}
	}
	m
}

/// what is really in the directory: `dir=0` | `dir=1 meta=<cols|none> lock=<0|1>` and the stored columns
fn observe_dir(dir: &Path) -> (String, Option<Vec<u8>>) {
	if !dir.is_dir() {
		return ("dir=0".into(), None)
	}
	let cols: Option<Vec<u8>> = match Options::load_metadata(dir) {
		Ok(Some(m)) => Some(m.columns.iter().map(code_of).collect()),
		_ => None,
	};
	let lock = dir.join("lock").exists();
	(
		format!("dir=1 meta={} lock={}", cols.as_ref().map(|c| show_cols(c)).unwrap_or("none".into()), if lock { 1 } else { 0 }),
		cols,
	)
}

fn ref_fp(m: &BTreeMap<(u64, u64), u64>) -> String {
	if m.is_empty() {
		"-".into()
	} else {
		m.iter().map(|(k, v)| format!("{}:{}={}", k.0, k.1, v)).collect::<Vec<_>>().join(",")
	}
}

impl Kid {
	fn cmd(&mut self, line: &str) -> String {
		match self.stdin.as_mut() {
			Some(s) =>
				if s.write_all(format!("{}\n", line).as_bytes()).is_err() || s.flush().is_err() {
					return "child-gone".into()
				},
			None => return "child-gone".into(),
		}
		self.line(120).unwrap_or_else(|| "timeout".into())
	}
}

/// Deterministic script over server child processes; returns (oracle problems, ok opens, locked results).
fn scripted(seed: u64, rng: &mut Rng, root: &Path, thorough: bool, t: &mut Trace, ctr: &mut Counters) -> (Vec<String>, u64, u64) {
	let dir = fresh_dir(root, &format!("c18s-{}", seed));
	let mut problems: Vec<String> = vec![];
	let (mut n_ok, mut n_locked) = (0u64, 0u64);
	t.op("c18 init", "ok");
	let start = *rng.pick(&["missing", "missing", "empty-dir", "lock-only"]);
	ctr.inc(&format!("script.start.{}", start));
	if start != "missing" {
		std::fs::create_dir_all(&dir).unwrap();
		t.op("c18 env mkdir", "ok");
		if start == "lock-only" {
			std::fs::File::create(dir.join("lock")).unwrap();
			t.op("c18 env touchlock", "ok");
		}
	}
	// logical process ids are never reused; a killed process is replaced by a new one
	let nprocs = rng.range(2, 4);
	let mut kids: BTreeMap<u64, Kid> = BTreeMap::new();
	let mut alive: Vec<u64> = (0..nprocs).collect();
	let mut next_pid = nprocs;
	// oracle bookkeeping (plain Rust, not the Lean model)
	let mut holder: Option<(u64, u64)> = None;
	let mut freed_by: Option<&'static str> = None; // the holder just went away by drop / kill
	let base_cols: Vec<u8> = (0..rng.range(1, 3)).map(|_| rng.below(4) as u8).collect();
	let mut next_val = 1u64;
	// reference content (plain Rust): what was committed and not removed by an administration call
	let mut reference: BTreeMap<(u64, u64), u64> = BTreeMap::new();
	let nops = if thorough { rng.range(20, 60) } else { rng.range(12, 36) };
	macro_rules! kid {
		($pid:expr) => {
			kids.entry($pid).or_insert_with(|| spawn_kid(&dir, "serve", 0))
		};
	}
	for _ in 0..nops {
		let (_, stored) = observe_dir(&dir);
		let right: Vec<u8> = stored.clone().unwrap_or_else(|| base_cols.clone());
		let pid = *rng.pick(&alive);
		let choice = rng.below(100);
		let kind: &str = match holder {
			Some(_) => match choice {
				0..=17 => "open",
				18..=45 => "commit",
				46..=57 => "get",
				58..=63 => "fp",
				64..=71 => "drop",
				72..=78 => "kill",
				79..=82 => "ls",
				_ => "admin",
			},
			None => match choice {
				0..=49 => "open",
				50..=57 => "kill",
				58..=67 => "ls",
				68..=71 => "rmlock",
				_ => "admin",
			},
		};
		let before = light_snapshot(&dir);
		let dir_before = observe_dir(&dir).0;
		let mut failed_op: Option<String> = None; // an op that has to leave the directory alone
		match kind {
			"open" => {
				// second open inside the holder's own process half of the time when one exists
				let pid = match holder {
					Some((hp, _)) if rng.chance(1, 2) => hp,
					_ => pid,
				};
				let slot = match holder {
					Some((hp, hs)) if hp == pid => (hs + 1 + rng.below(2)) % 3,
					_ => rng.below(3),
				};
				let create = rng.chance(1, 2);
				let wrong = rng.chance(1, 4);
				let cols: Vec<u8> = if wrong {
					let mut c = right.clone();
					match rng.below(3) {
						0 => c.push(rng.below(4) as u8),
						1 if c.len() > 1 => {
							c.pop();
						},
						_ => {
							let i = rng.below(c.len() as u64) as usize;
							c[i] = (c[i] + 1 + rng.below(3) as u8) % 4;
						},
					}
					c
				} else {
					right.clone()
				};
				let thread = rng.chance(1, 3);
				let res = kid!(pid).cmd(&format!("open {} {} {} {}", slot, if create { "c" } else { "o" }, show_cols(&cols), if thread { 1 } else { 0 }));
				t.op(&format!("c18 open {} {} {} {}", pid, slot, if create { "c" } else { "o" }, show_cols(&cols)), &res);
				ctr.inc(&format!("script.open{}{}.{}", if wrong { "-wrong-options" } else { "" }, if holder.map(|h| h.0) == Some(pid) { "-same-process" } else { "" }, res.split(':').take(2).collect::<Vec<_>>().join(":")));
				if res == "ok" {
					n_ok += 1;
					if let Some(h) = holder {
						problems.push(format!("open by process {} succeeded while handle {:?} is alive", pid, h));
					}
					if wrong && stored.is_some() {
						problems.push("open with options that disagree with the metadata succeeded".into());
					}
					holder = Some((pid, slot));
				} else {
					if res == "err:Locked" {
						n_locked += 1;
						if holder.is_none() {
							problems.push("open reported Locked while no handle is alive".into());
						}
					} else if holder.is_some() && !(stored.is_none() && !create) {
						problems.push(format!("open while a handle is alive reported {} instead of Locked", res));
					}
					if holder.is_none() && !wrong && (create || stored.is_some()) {
						problems.push(format!("open with the right options failed with {} while no handle is alive{}", res,
							freed_by.map(|w| format!(" (after {} of the holder)", w)).unwrap_or_default()));
					}
					failed_op = Some(format!("failed open ({})", res));
				}
				if holder.is_none() || res == "ok" {
					freed_by = None;
				}
			},
			"commit" => {
				let (hp, hs) = holder.unwrap();
				let col = rng.below(right.len() as u64);
				let key = rng.below(FP_KEYS);
				let del = rng.chance(1, 6);
				let v = if del {
					"del".to_string()
				} else {
					next_val += 1;
					next_val.to_string()
				};
				let res = kid!(hp).cmd(&format!("commit {} {} {} {} {}", hs, col, key, v, if rng.chance(1, 2) { 1 } else { 0 }));
				t.op(&format!("c18 commit {} {} {} {} {}", hp, hs, col, key, v), &res);
				if res == "ok" {
					if del {
						reference.remove(&(col, key));
					} else {
						reference.insert((col, key), next_val);
					}
				}
				ctr.inc(&format!("script.commit.{}", res));
			},
			"get" => {
				let (hp, hs) = holder.unwrap();
				let (col, key) = if !reference.is_empty() && rng.chance(2, 3) {
					*reference.keys().nth(rng.below(reference.len() as u64) as usize).unwrap()
				} else {
					(rng.below(right.len() as u64), rng.below(FP_KEYS))
				};
				let res = kid!(hp).cmd(&format!("get {} {} {}", hs, col, key));
				let want = reference.get(&(col, key)).map(|v| format!("some {}", v)).unwrap_or("none".into());
				if res != want {
					problems.push(format!("get col {} key {} returned {} but {} was committed", col, key, res, want));
				}
				ctr.inc(&format!("script.get.{}", res.split(' ').next().unwrap_or("")));
				t.op(&format!("c18 get {} {} {} {}", hp, hs, col, key), &res);
			},
			"fp" => {
				let (hp, hs) = holder.unwrap();
				let res = kid!(hp).cmd(&format!("fp {}", hs));
				ctr.inc(if res == "-" { "script.fp.empty" } else { "script.fp.nonempty" });
				if res != ref_fp(&reference) {
					problems.push(format!("content through the live handle is {} but {} was committed", res, ref_fp(&reference)));
				}
				t.op(&format!("c18 fp {} {}", hp, hs), &res);
			},
			"drop" => {
				let (hp, hs) = holder.unwrap();
				let res = kid!(hp).cmd(&format!("drop {}", hs));
				ctr.inc(&format!("script.drop.{}", res));
				t.op(&format!("c18 drop {} {}", hp, hs), &res);
				holder = None;
				freed_by = Some("drop");
			},
			"kill" => {
				// kill -9 of the holder's process (most of the time when there is one) or of another one
				let victim = match holder {
					Some((hp, _)) if rng.chance(2, 3) => hp,
					_ => pid,
				};
				if let Some(mut k) = kids.remove(&victim) {
					let _ = k.child.kill();
					let _ = k.child.wait();
				}
				alive.retain(|p| *p != victim);
				alive.push(next_pid);
				next_pid += 1;
				ctr.inc(if holder.map(|h| h.0) == Some(victim) { "script.kill.holder" } else { "script.kill.other" });
				t.op(&format!("c18 kill {}", victim), "ok");
				if holder.map(|h| h.0) == Some(victim) {
					holder = None;
					freed_by = Some("kill -9");
				} else {
					failed_op = Some("kill of a process without a handle".into());
				}
			},
			"ls" => {
				ctr.inc("script.ls");
				t.op("c18 ls", &dir_before);
			},
			"rmlock" => {
				if dir.join("lock").exists() {
					std::fs::remove_file(dir.join("lock")).unwrap();
					ctr.inc("script.env.rmlock");
					t.op("c18 env rmlock", "ok");
				}
			},
			_ => {
				let wrong = rng.chance(1, 6);
				let mut cols = right.clone();
				if wrong {
					let i = rng.below(cols.len() as u64) as usize;
					cols[i] = (cols[i] + 1) % 4;
				}
				let (line, child_line, name) = match rng.below(4) {
					0 => {
						let c = rng.below(4);
						(format!("c18 add {} {} {}", pid, show_cols(&cols), c), format!("add {} {}", show_cols(&cols), c), "add_column")
					},
					1 if cols.len() >= 2 =>
						(format!("c18 droplast {} {}", pid, show_cols(&cols)), format!("droplast {}", show_cols(&cols)), "drop_last_column"),
					2 => {
						let i = if rng.chance(1, 6) { cols.len() as u64 } else { rng.below(cols.len() as u64) };
						let c = if rng.chance(1, 2) { "-".to_string() } else { rng.below(4).to_string() };
						(format!("c18 reset {} {} {} {}", pid, show_cols(&cols), i, c), format!("reset {} {} {}", show_cols(&cols), i, c), "reset_column")
					},
					_ => {
						let i = if rng.chance(1, 6) { cols.len() as u64 } else { rng.below(cols.len() as u64) };
						(format!("c18 clear {} {}", pid, i), format!("clear {}", i), "clear_column")
					},
				};
				let res = kid!(pid).cmd(&child_line);
				if res == "ok" {
					let w: Vec<&str> = child_line.split(' ').collect();
					match name {
						"drop_last_column" => {
							let c = cols.len() as u64 - 1;
							reference.retain(|k, _| k.0 != c);
						},
						"reset_column" | "clear_column" => {
							let c: u64 = w[if name == "reset_column" { 2 } else { 1 }].parse().unwrap();
							reference.retain(|k, _| k.0 != c);
						},
						_ => {},
					}
				}
				ctr.inc(&format!("script.{}{}.{}", name, if holder.is_some() { "-while-held" } else { "" }, res.split(':').take(2).collect::<Vec<_>>().join(":")));
				t.op(&line, &res);
				if holder.is_some() {
					if res == "ok" {
						problems.push(format!("{} succeeded while handle {:?} is alive", name, holder));
					} else if res == "err:Locked" {
						n_locked += 1;
					}
					failed_op = Some(format!("{} while a handle is alive ({})", name, res));
				} else if res == "err:Locked" {
					problems.push(format!("{} reported Locked while no handle is alive", name));
				}
			},
		}
		if let Some(what) = failed_op {
			let after = light_snapshot(&dir);
			if before != after {
				let changed: Vec<&String> = after.keys().chain(before.keys()).filter(|k| before.get(*k) != after.get(*k)).collect();
				problems.push(format!("{} changed the directory: {:?}", what, changed));
			}
			let d2 = observe_dir(&dir).0;
			// the only admissible difference is the `lock` file created by the attempt
			if d2.replace("lock=1", "lock=0") != dir_before.replace("lock=1", "lock=0") {
				problems.push(format!("{} changed the directory listing: {} -> {}", what, dir_before, d2));
			}
		}
	}
	// closing observation: listing, then a reopen with the stored options reads the fingerprint
	let (l, stored) = observe_dir(&dir);
	t.op("c18 ls", &l);
	if let Some((hp, hs)) = holder {
		let res = kid!(hp).cmd(&format!("fp {}", hs));
		t.op(&format!("c18 fp {} {}", hp, hs), &res);
		if res != ref_fp(&reference) {
			problems.push(format!("final content through the live handle is {} but {} was committed", res, ref_fp(&reference)));
		}
		let res = kid!(hp).cmd(&format!("drop {}", hs));
		t.op(&format!("c18 drop {} {}", hp, hs), &res);
	}
	if let Some(cols) = stored {
		let pid = alive[0];
		let res = kid!(pid).cmd(&format!("open 0 o {} 0", show_cols(&cols)));
		t.op(&format!("c18 open {} 0 o {}", pid, show_cols(&cols)), &res);
		if res == "ok" {
			n_ok += 1;
			let res = kid!(pid).cmd("fp 0");
			t.op(&format!("c18 fp {} 0", pid), &res);
			if res != ref_fp(&reference) {
				problems.push(format!("content after the final reopen is {} but {} was committed", res, ref_fp(&reference)));
			}
			let res = kid!(pid).cmd("drop 0");
			t.op(&format!("c18 drop {} 0", pid), &res);
		} else {
			problems.push(format!("final open with the stored options failed: {}", res));
		}
	}
	for (_, k) in std::mem::take(&mut kids) {
		let mut k = k;
		k.stdin.take(); // EOF: the server drops its handles and exits
		k.finish();
	}
	let _ = std::fs::remove_dir_all(&dir);
	(problems, n_ok, n_locked)
}

/// A database with `n` keys of which the last commits are only in flushed, not yet enacted log
/// files (crash image taken as in p1.rs): opening it has to replay them.
fn make_crash_image(root: &Path, seed: u64, rng: &mut Rng, n: u64, big: usize) -> PathBuf {
	let src = fresh_dir(root, &format!("c18-{}-src", seed));
	let img = fresh_dir(root, &format!("c18-{}-img", seed));
	{
		let db = Db::open_or_create(&options(&src, false)).unwrap();
		let enacted = rng.range(0, n / 2);
		for i in 0..n {
			let len = if i % 5 == 0 { big } else { rng.range(0, 2000) as usize };
			db.commit(vec![(0u8, key_of(i), Some(value_of(i, len)))]).unwrap();
			db.process_commits().unwrap();
			if i % 3 == 2 || i + 1 == n {
				db.flush_logs().unwrap();
			}
			if i == enacted {
				db.flush_logs().unwrap();
				db.enact_logs().unwrap();
				db.clean_logs().unwrap();
			}
		}
		db.flush_logs().unwrap();
		copy_dir(&src, &img);
		let _ = std::fs::remove_file(img.join("lock"));
		// the source handle is dropped normally (its directory is discarded)
	}
	let _ = std::fs::remove_dir_all(&src);
	img
}

fn value_len_for(i: u64, big: usize, lens: &BTreeMap<u64, usize>) -> usize {
	*lens.get(&i).unwrap_or(&big)
}

pub fn run(seeds: &[u64], thorough: bool, root: &Path, t: &mut Trace, ctr: &mut Counters, prop: &str) -> u64 {
	let mut fails = 0;
	for seed in seeds.iter().copied() {
		let mut rng = Rng::new(seed);
		let scenario = *rng.pick(&["threads", "threads", "procs", "procs", "kill", "recovery-race", "recovery-race", "mixed"]);
		t.begin_case(&format!("seed={} scenario={}", seed, scenario));
		let mut problems: Vec<String> = vec![];
		let mut ok_opens = 0u64;
		let mut locked = 0u64;
		{
			let mut srng = Rng::new(seed ^ 0x5c18_5c18);
			let (p, o, l) = scripted(seed, &mut srng, root, thorough, t, ctr);
			for x in p {
				problems.push(format!("script: {}", x));
			}
			ctr.add("script.opens.ok", o);
			ctr.add("script.results.locked", l);
			if o == 0 || l == 0 {
				ctr.inc("script.cases_without_ok_and_locked");
			}
		}
		let dir = fresh_dir(root, &format!("c18-{}", seed));
		match scenario {
			"threads" | "mixed" => {
				// in-process threads (and, for "mixed", child processes) hammer open / drop
				let nthreads = rng.range(2, 5);
				let rounds = if thorough { rng.range(20, 60) } else { rng.range(8, 25) };
				let live = Arc::new(AtomicUsize::new(0));
				let max_live = Arc::new(AtomicUsize::new(0));
				let errs: Arc<Mutex<Vec<String>>> = Arc::new(Mutex::new(vec![]));
				let committed: Arc<Mutex<Vec<u64>>> = Arc::new(Mutex::new(vec![]));
				let counts = Arc::new((AtomicUsize::new(0), AtomicUsize::new(0)));
				let _ = Db::open_or_create(&options(&dir, false)).map(drop);
				let mut hs = vec![];
				for th in 0..nthreads {
					let (dir, live, max_live, errs, committed, counts) =
						(dir.clone(), live.clone(), max_live.clone(), errs.clone(), committed.clone(), counts.clone());
					let mut r = rng.fork();
					hs.push(std::thread::spawn(move || {
						for round in 0..rounds {
							let with_threads = r.chance(1, 2);
							match Db::open_or_create(&options(&dir, with_threads)) {
								Ok(db) => {
									let now = live.fetch_add(1, Ordering::SeqCst) + 1;
									max_live.fetch_max(now, Ordering::SeqCst);
									counts.0.fetch_add(1, Ordering::SeqCst);
									let id = th * 1000 + round;
									if db.commit(vec![(0u8, key_of(id), Some(value_of(id, 100)))]).is_ok() {
										committed.lock().unwrap().push(id);
									}
									if r.chance(1, 2) {
										std::thread::sleep(Duration::from_micros(r.range(0, 3000)));
									}
									live.fetch_sub(1, Ordering::SeqCst);
									drop(db);
								},
								Err(parity_db::Error::Locked(_)) => {
									counts.1.fetch_add(1, Ordering::SeqCst);
								},
								Err(e) => errs.lock().unwrap().push(format!("open failed with {:?}", e)),
							}
							if r.chance(1, 3) {
								std::thread::sleep(Duration::from_micros(r.range(0, 2000)));
							}
						}
					}));
				}
				let mut kid_results = vec![];
				if scenario == "mixed" {
					for _ in 0..rng.range(3, 8) {
						let k = spawn_kid(&dir, "try", 0);
						let first = k.line(30);
						kid_results.push(first.clone());
						k.finish();
						std::thread::sleep(Duration::from_micros(rng.range(0, 3000)));
					}
				}
				for h in hs {
					let _ = h.join();
				}
				for r in kid_results {
					match r.as_deref() {
						Some("ok") => ok_opens += 1,
						Some("locked") => locked += 1,
						other => problems.push(format!("child open reported {:?}", other)),
					}
				}
				ok_opens += counts.0.load(Ordering::SeqCst) as u64;
				locked += counts.1.load(Ordering::SeqCst) as u64;
				if max_live.load(Ordering::SeqCst) > 1 {
					problems.push(format!("{} handles were alive at the same time", max_live.load(Ordering::SeqCst)));
				}
				problems.extend(errs.lock().unwrap().drain(..));
				// everything committed through any of the successive handles is there
				match Db::open(&options(&dir, false)) {
					Ok(db) =>
						for id in committed.lock().unwrap().iter() {
							if db.get(0, &key_of(*id)).unwrap() != Some(value_of(*id, 100)) {
								problems.push(format!("value committed by handle {} is missing after reopen", id));
								break
							}
						},
					Err(e) => problems.push(format!("final open failed: {:?}", e)),
				}
			},
			"procs" | "kill" => {
				let n = rng.range(5, 40);
				{
					let db = Db::open_or_create(&options(&dir, false)).unwrap();
					for i in 0..n {
						db.commit(vec![(0u8, key_of(i), Some(value_of(i, 300)))]).unwrap();
					}
				}
				let mut holder = spawn_kid(&dir, "hold", n);
				match holder.line(60).as_deref() {
					Some("ok") => ok_opens += 1,
					other => problems.push(format!("holder process could not open: {:?}", other)),
				}
				let _digest = holder.line(60);
				let before = dir_snapshot(&dir);
				// losers: child processes and in-process attempts, concurrently
				let kids: Vec<Kid> = (0..rng.range(1, 4)).map(|_| spawn_kid(&dir, if rng.chance(1, 2) { "try" } else { "try-open" }, 0)).collect();
				for _ in 0..rng.range(1, 4) {
					match Db::open_or_create(&options(&dir, rng.chance(1, 2))) {
						Err(parity_db::Error::Locked(_)) => locked += 1,
						Ok(_) => problems.push("in-process open succeeded while another process holds the handle".into()),
						Err(e) => problems.push(format!("in-process open failed with {:?} instead of Locked", e)),
					}
				}
				for k in kids {
					match k.line(60).as_deref() {
						Some("locked") => locked += 1,
						other => problems.push(format!("child open while held reported {:?}", other)),
					}
					k.finish();
				}
				let after = dir_snapshot(&dir);
				if before != after {
					let changed: Vec<&String> =
						after.keys().chain(before.keys()).filter(|k| before.get(*k) != after.get(*k)).collect();
					problems.push(format!("failed opens changed the directory: {:?}", changed));
				}
				if scenario == "kill" {
					let _ = holder.child.kill(); // SIGKILL
					let _ = holder.child.wait();
				} else {
					holder.release();
					match holder.line(60).as_deref() {
						Some("dropped") => {},
						other => problems.push(format!("holder did not report the drop: {:?}", other)),
					}
					holder.finish();
				}
				match Db::open(&options(&dir, rng.chance(1, 2))) {
					Ok(db) => {
						ok_opens += 1;
						for i in 0..n {
							if db.get(0, &key_of(i)).unwrap() != Some(value_of(i, 300)) {
								problems.push(format!("key {} wrong after the holder went away", i));
								break
							}
						}
					},
					Err(e) => problems.push(format!("open after {} of the holder failed: {:?}", if scenario == "kill" { "kill -9" } else { "drop" }, e)),
				}
			},
			_ => {
				// recovery race: several processes open the same crash image at once
				let n = rng.range(10, 40);
				let big = if thorough { 600_000 } else { 200_000 };
				let mut r2 = rng.fork();
				let mut probe = r2.clone();
				let img = make_crash_image(root, seed, &mut r2, n, big);
				// recompute the value lengths chosen by make_crash_image (same rng stream)
				let mut lens = BTreeMap::new();
				let _enacted = probe.range(0, n / 2);
				for i in 0..n {
					let len = if i % 5 == 0 { big } else { probe.range(0, 2000) as usize };
					lens.insert(i, len);
				}
				let logs = std::fs::read_dir(&img).unwrap().flatten().filter(|e| e.file_name().to_string_lossy().starts_with("log")).count();
				ctr.add("recovery.pending_log_files", logs as u64);
				let racers = rng.range(2, 5);
				let mut kids: Vec<Kid> = (0..racers).map(|_| spawn_kid(&img, "hold", n)).collect();
				let mut winner: Option<usize> = None;
				for (i, k) in kids.iter().enumerate() {
					match k.line(120).as_deref() {
						Some("ok") => {
							ok_opens += 1;
							if winner.is_some() {
								problems.push("two racing opens of one crash image both succeeded".into());
							}
							winner = Some(i);
						},
						Some("locked") => locked += 1,
						other => problems.push(format!("racing open reported {:?}", other)),
					}
				}
				let mut expect = 0xcbf2_9ce4_8422_2325u64;
				for i in 0..n {
					let v = value_of(i, value_len_for(i, big, &lens));
					fnv(&mut expect, &[1]);
					fnv(&mut expect, &(v.len() as u64).to_le_bytes());
					fnv(&mut expect, &v);
				}
				match winner {
					None => problems.push("no racing open succeeded".into()),
					Some(w) => match kids[w].line(120) {
						Some(l) if l == format!("digest {:016x}", expect) => {},
						other => problems.push(format!("recovered content differs from the committed content: {:?} expected {:016x}", other, expect)),
					},
				}
				for k in kids.drain(..) {
					k.finish();
				}
				match Db::open(&options(&img, false)) {
					Ok(db) => {
						ok_opens += 1;
						if content_digest(&db, n) != expect {
							problems.push("content after the race and a clean reopen differs from the committed content".into());
						}
					},
					Err(e) => problems.push(format!("open after the race failed: {:?}", e)),
				}
				let _ = std::fs::remove_dir_all(&img);
			},
		}
		for p in &problems {
			t.oracle_fail(prop, &format!("scenario={} {}", scenario, p));
		}
		t.op(&format!("c18 scenario {}", scenario), if problems.is_empty() { "ok" } else { "fail" });
		t.comment(&format!("ok_opens={} locked={}", ok_opens, locked));
		ctr.inc("cases");
		ctr.inc(&format!("scenario.{}", scenario));
		ctr.add("opens.ok", ok_opens);
		ctr.add("opens.locked", locked);
		if !problems.is_empty() {
			fails += 1;
		}
		t.end_case(locked > 0 && ok_opens > 0);
		let _ = std::fs::remove_dir_all(&dir);
	}
	fails
}
