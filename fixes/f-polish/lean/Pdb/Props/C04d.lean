/-
C04 (gap 4): the byte layout of a btree node (`BTreeTable::write_node_plan` /
`Node::from_encoded`).  Model: Pdb/Model/BTreeNode.lean (`encodeNode`, `decodeNode`, literal
transcriptions of the two Rust loops); proofs: Pdb/Proofs/C04Node.lean.

  `C04_node_roundtrip`        decode (encode n) = the normal form of n (separators, `k + 1` child slots)
  `C04_node_roundtrip_exact`  ... = n when n has exactly `k + 1` child slots (what the Rust holds)
  `C04_node_full_trailing`    bytes after a FULL node are ignored by the reader
  `C04_node_layout`           closed form `child[0] sep[0] child[1] ... sep[k-1] child[k]`
  `C04_node_encode_fuel`      the encoder's fuel is never exhausted (more fuel, same bytes)
  `C04_node_decode_total`     the decoder's fuel is never exhausted; every decoded node has
                              `k <= ORDER` separators with non-null value addresses and exactly
                              `k + 1` child slots; an entry shorter than 8 bytes is corrupt

Correspondence: `c04b node <hexbytes>` (harness/src/c04node.rs) runs `decodeNode` on the raw entry
bytes of nodes of the real tree and compares with the crate's own decoding, then runs `encodeNode`
on the decoded node and reports whether the bytes come back (`enc=same`, expected for every real
node: `C04_node_reencodes`); an independent Rust re-encoding of every dumped node must equal the
stored bytes.
-/
import Pdb.Proofs.C04Node

namespace Pdb.C04

/-- `Node::from_encoded (write_node_plan n)` = the separators of `n` and exactly
    `n.seps.length + 1` child slots (`RawNode.normal`: missing slots read 0, slots beyond are not
    written), for every node with at most `ORDER` separators, keys shorter than 2^32 bytes,
    non-null 64-bit value addresses and 64-bit child addresses. -/
theorem C04_node_roundtrip (n : RawNode)
    (hlen : n.seps.length ≤ ORDER)
    (hk : ∀ s ∈ n.seps, s.1.length < 2 ^ 32 ∧ 0 < s.2 ∧ s.2 < 2 ^ 64)
    (hc : ∀ c ∈ n.children, c < 2 ^ 64) :
    decodeNode (encodeNode n) = .ok n.normal :=
  node_roundtrip n hlen hk hc

/-- A node holding exactly `k + 1` child slots (the Rust invariant: a leaf has `k + 1` empty
    slots, an internal node `k + 1` children) is reproduced exactly. -/
theorem C04_node_roundtrip_exact (n : RawNode)
    (hlen : n.seps.length ≤ ORDER)
    (hch : n.children.length = n.seps.length + 1)
    (hk : ∀ s ∈ n.seps, s.1.length < 2 ^ 32 ∧ 0 < s.2 ∧ s.2 < 2 ^ 64)
    (hc : ∀ c ∈ n.children, c < 2 ^ 64) :
    decodeNode (encodeNode n) = .ok n := by
  rw [node_roundtrip n hlen hk hc, normal_eq_self n hch]

/-- What the driver line `c04b node` reports as `enc=same` holds for every entry the writer
    produces: re-encoding the decoded node gives the entry back. -/
theorem C04_node_reencodes (n : RawNode)
    (hlen : n.seps.length ≤ ORDER)
    (hch : n.children.length = n.seps.length + 1)
    (hk : ∀ s ∈ n.seps, s.1.length < 2 ^ 32 ∧ 0 < s.2 ∧ s.2 < 2 ^ 64)
    (hc : ∀ c ∈ n.children, c < 2 ^ 64) :
    reencodes (encodeNode n) (decodeNode (encodeNode n)) = some true := by
  rw [C04_node_roundtrip_exact n hlen hch hk hc]
  simp [reencodes]

/-- The reader stops after the `ORDER_CHILD`-th child index: whatever follows a full node in
    the entry is ignored. -/
theorem C04_node_full_trailing (n : RawNode) (tail : List Nat)
    (hfull : n.seps.length = ORDER)
    (hk : ∀ s ∈ n.seps, s.1.length < 2 ^ 32 ∧ 0 < s.2 ∧ s.2 < 2 ^ 64)
    (hc : ∀ c ∈ n.children, c < 2 ^ 64) :
    decodeNode (encodeNode n ++ tail) = .ok n.normal :=
  node_roundtrip_tail n (Nat.le_of_eq hfull) hk hc tail (fun h => absurd hfull (Nat.ne_of_lt h))

/-- Closed form of the layout: the first child index, then `separator, child index` per
    separator; `k + 1` child slots, nothing else (no count, no terminator, no padding). -/
theorem C04_node_layout (n : RawNode) (hlen : n.seps.length ≤ ORDER) :
    encodeNode n = writeChildIndex (n.slot 0) ++ layoutFrom n n.seps 0 ∧
    (∀ c, (writeChildIndex c).length = 8) :=
  ⟨encodeNode_layout n hlen, writeChildIndex_length⟩

/-- `ORDER_CHILD` iterations are all the encoding loop can make: more fuel, same bytes. -/
theorem C04_node_encode_fuel (n : RawNode) (F : Nat) (h : ORDER_CHILD ≤ F) :
    encodeLoop n F 0 0 = encodeNode n :=
  encodeNode_fuel n F h

/-- Decoding is total (`ok` or `Corruption`, the fuel of the model is never exhausted), yields at
    most `ORDER` separators, all with a non-null value address, and exactly one child slot more
    than separators (so at most `ORDER_CHILD`); an entry too short for the first child index is
    `Corruption`. -/
theorem C04_node_decode_total (enc : List Nat) :
    decodeNode enc ≠ .outOfFuel ∧
    (∀ m, decodeNode enc = .ok m →
      m.seps.length ≤ ORDER ∧ m.children.length = m.seps.length + 1 ∧
      m.children.length ≤ ORDER_CHILD ∧ ∀ s ∈ m.seps, 0 < s.2) ∧
    (enc.length < 8 → decodeNode enc = .corrupt) := by
  refine ⟨decodeNode_ne_outOfFuel enc, ?_, decodeNode_short enc⟩
  intro m hm
  have h := decodeNode_shape enc m hm
  refine ⟨h.1, h.2, ?_, decodeNode_seps_pos enc m hm⟩
  rw [h.2, orderChild_eq]; omega

/-! ## non-vacuity -/

/-- a leaf with 3 separators: a short key, a 255-byte key (escaped length), the empty key with
    the largest value address; 4 empty child slots -/
def exLeaf : RawNode :=
  { seps := [([1, 2], 5), (List.replicate 255 7, 99), ([], 2 ^ 64 - 1)], children := [0, 0, 0, 0] }

/-- a full internal node: 8 separators (one with a 254-byte key: the longest unescaped
    length), 9 children -/
def exFull : RawNode :=
  { seps := [([0], 11), ([1], 12), ([2], 13), (List.replicate 254 3, 14), ([4], 15), ([5, 5], 16),
             ([6], 17), ([255, 255], 2 ^ 63)],
    children := [101, 102, 103, 104, 105, 106, 107, 108, 2 ^ 64 - 1] }

-- the hypotheses of the theorems hold for the examples
example : decodeNode (encodeNode exLeaf) = .ok exLeaf :=
  C04_node_roundtrip_exact exLeaf (by decide) (by decide) (by decide +kernel) (by decide +kernel)
example : decodeNode (encodeNode exFull) = .ok exFull :=
  C04_node_roundtrip_exact exFull (by decide) (by decide) (by decide +kernel) (by decide +kernel)
example : decodeNode (encodeNode exFull ++ [1, 2, 3]) = .ok exFull.normal :=
  C04_node_full_trailing exFull [1, 2, 3] (by decide) (by decide +kernel) (by decide +kernel)

-- the same by evaluation of the executable model
example : decodeNode (encodeNode exLeaf) = .ok exLeaf := by decide +kernel
example : decodeNode (encodeNode exFull) = .ok exFull := by decide +kernel
example : (encodeNode exLeaf).length = 4 * 8 + (9 + 2) + (9 + 4 + 255) + 9 := by decide +kernel
example : (encodeNode exFull).length = 9 * 8 + 8 * 9 + (1 + 1 + 1 + 254 + 1 + 2 + 1 + 2) := by
  decide +kernel
-- the concrete bytes of a one-separator leaf: child 0, (value 3, length 1, key aa), child 0
example : encodeNode { seps := [([0xaa], 3)], children := [] } =
    [0, 0, 0, 0, 0, 0, 0, 0, 3, 0, 0, 0, 0, 0, 0, 0, 1, 0xaa, 0, 0, 0, 0, 0, 0, 0, 0] := by decide
-- child slots beyond `k + 1` are not written, missing ones are written as 0 (normal form)
example : decodeNode (encodeNode { seps := [([1], 3)], children := [7, 8, 9] }) =
    .ok { seps := [([1], 3)], children := [7, 8] } := by decide +kernel
example : decodeNode (encodeNode { seps := [([1], 3)], children := [7] }) =
    .ok { seps := [([1], 3)], children := [7, 0] } := by decide +kernel
-- a truncated entry is corrupt: inside a child index, inside a separator
example : decodeNode ((encodeNode exLeaf).take 7) = .corrupt := by decide +kernel
example : decodeNode ((encodeNode exLeaf).take 12) = .corrupt := by decide +kernel
example : decodeNode ((encodeNode exLeaf).take 19) = .corrupt := by decide +kernel
-- cut exactly after a child index: a shorter node (the end of the entry ends the node)
example : decodeNode ((encodeNode exLeaf).take 27) = .ok { seps := [([1, 2], 5)], children := [0, 0] } := by
  decide +kernel
-- the reader ends the node at a separator with a null value address (never written)
example : decodeNode (writeChildIndex 4 ++ writeSeparator [1] 0 ++ writeChildIndex 5) =
    .ok { seps := [], children := [4] } := by decide +kernel
-- bytes after a NON-full node are not ignored: they are read as the next separator
example : decodeNode (encodeNode exLeaf ++ [1, 2, 3]) = .corrupt := by decide +kernel
-- the driver line: decoder, then encoder on the decoded node (`enc=same` iff it returns the input)
example : nodeLine [hex (encodeNode { seps := [([0xaa], 3), ([], 4)], children := [7, 0, 9] })] =
    "2 aa 3 - 4 | 7 0 9 enc=same" := by decide +kernel
example : nodeLine [hex (encodeNode { seps := [([0xaa], 3)], children := [] })] = "1 aa 3 | enc=same" := by
  decide +kernel
-- entries the writer never produces decode to a node whose encoding differs: trailing bytes of a
-- full node, a separator with a null value address, a short key length in the escaped form
example : reencodes (encodeNode exFull) (decodeNode (encodeNode exFull)) = some true ∧
    reencodes (encodeNode exFull ++ [1, 2, 3]) (decodeNode (encodeNode exFull ++ [1, 2, 3])) = some false := by
  decide +kernel
example : nodeLine [hex (writeChildIndex 4 ++ writeSeparator [1] 0 ++ writeChildIndex 5)] = "0 | 4 enc=diff" := by
  decide +kernel
example : nodeLine [hex (writeChildIndex 0 ++ leBytes 8 3 ++ [0xff, 1, 0, 0, 0, 0xaa] ++ writeChildIndex 0)] =
    "1 aa 3 | enc=diff" := by decide +kernel
example : nodeLine ["00"] = "err:Corruption" := by decide +kernel
example : nodeLine ["0"] = "bad-op" := by decide +kernel

#print axioms C04_node_roundtrip
#print axioms C04_node_roundtrip_exact
#print axioms C04_node_reencodes
#print axioms C04_node_full_trailing
#print axioms C04_node_layout
#print axioms C04_node_encode_fuel
#print axioms C04_node_decode_total

end Pdb.C04
