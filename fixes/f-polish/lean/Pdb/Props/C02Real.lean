/-
C02 / C03 (continued)  Crash recovery by the REAL algorithm of `Db::open`, on the log FILES.

`C02_recover_prefix` / `C03_synced_survive` (Props/C02.lean, C03.lean) are statements about
`Pdb.crashRecover`, which postulates recovery: it replays `s.logged.take n`.  Here the
postulate is replaced by the algorithm (Model/Recover.lean):

  * a wrapper state `RSt` around the P1 state tracks the log files as the code groups them
    (a flush closes the appending file; enacting consumes the files oldest first, record by
    record; `clean_logs` reclaims fully enacted files OLDEST FIRST, possibly interrupted
    after `c` files: `RAction.cleanSome c`; reclaimed numbers are reused lowest first; a
    record that is enacted but whose file is not yet reclaimed stays on disk);
  * `diskFiles w n` is the set of files a crash leaves (every closed file whole, the
    unsynced appending file cut after `n - flushed` of its records);
  * `realRecover t fs` is `Db::open` on the tables `t` and the files `fs` found, `fs` in ANY
    directory order: drop files without a record, sort by first record id, start at (first
    id of the oldest file) − 1, apply a record iff its id is last_enacted + 1 (absolute
    after-images), stop everything at the first gap.

`C02_real_recovery_eq`: for every reachable wrapper state, every `j`, every `n ≥ flushed` and
every listing order of the directory, `realRecover` yields exactly `crashRecover`'s tables -
although it re-applies every enacted-but-retained record over tables that already contain
later writes (`replay_after_partial_replay` absorbs that).  `C02_recover_prefix_real`,
`C03_synced_survive_real` transfer the two property statements to `realRecover`.
`C02_real_needs_oldest_first`, `C02_real_needs_first_id_order`: with files reclaimed youngest
first, or the replay queue ordered by file number (a recycled lower-numbered file holds
newer records), the recovered tables are NOT the specification of any prefix (the two
seeded defects C02-c02c and C02-c02a / C03-c03a).  `C02_real_is_wal_replay`: the id logic
used here is the byte-level replay of Model/Wal.lean (C13) on encoded well-formed records.

`C03_clean_drop_real` (clean-reopen half of C03): `rreopen` POSTULATES that drop + open leaves
`cleanReopen`'s tables.  The file side of the drop (`dropSeq` = `kill_logs`) enacts one file
per enacting call (three in all), so with more than three un-enacted files (the one that
receives the queued commits included) it leaves un-enacted records in closed log files and tables that are NOT yet `cleanReopen`'s; the theorem runs `realRecover`
on exactly those tables and files (any directory order) and obtains `cleanReopen`'s tables =
the specification of the whole history.  `C03_clean_drop_state`: the dropped state has the
whole history, an empty queue and no file open for appending.

Every reachable P1 state is the P1 component of a reachable wrapper state (`rrun_st`:
`(rrun kind RSt.init ras).st = run kind St.init (ras.map RAction.toAction)`, and
`ras := as.map .act` gives any P1 action list `as`), so nothing is lost with respect to the
quantification of C02_recover_prefix.
-/
import Pdb.Proofs.RecoverInv
import Pdb.Proofs.RecoverDrop
import Pdb.Props.C03
import Pdb.Props.C13

namespace Pdb
variable {K V : Type} [DecidableEq K]

theorem rrun_act_st (kind : K → Kind) (as : List (Action K V)) :
    (rrun kind (RSt.init : RSt K V) (as.map RAction.act)).st = run kind St.init as := by
  rw [rrun_st]
  congr 1
  induction as with
  | nil => rfl
  | cons a as ih => simp only [List.map_cons, ih, RAction.toAction]

/-- (i) COMPOSITION: real recovery on the files left by a crash = the postulated recovery.
    `ras`: any wrapper history (commits, stage steps, complete and interrupted cleanups,
    reopens, earlier crashes); `j`: writes of the record being enacted that reached the
    tables; `n ≥ flushed`: un-enacted records that survive complete; `fs`: the surviving files
    in any directory order. -/
theorem C02_real_recovery_eq (kind : K → Kind) (ras : List (RAction K V)) (j n : Nat)
    (fs : List (LFile (Rec K V))) :
    let w := rrun kind (RSt.init : RSt K V) ras
    w.st = run kind St.init (ras.map RAction.toAction) ∧
    (w.st.flushed ≤ n → fs.Perm (diskFiles w n) →
      realRecover (crashImage w.st j) fs = (crashRecover w.st j n).tables) := by
  intro w
  exact ⟨rrun_st kind _ ras, fun hn hp => (RInv.init.rrun ras).realRecover_eq j n hn fs hp⟩

/-- What the crash image consists of: exactly the first `done + n` records of the retained
    files (every enacted-but-retained record and the `n` oldest un-enacted ones), in files
    whose ids continue one another.  The hypothesis `n ≥ flushed` of the theorems above says
    precisely "only records of the file still open for appending (never synced) may be
    lost": the records outside that file are the `done` enacted and the `flushed` flushed ones
    (third conjunct); and nothing at all is cut when no file is open for appending. -/
theorem C02_crash_files (kind : K → Kind) (ras : List (RAction K V)) (n : Nat) :
    let w := rrun kind (RSt.init : RSt K V) ras
    allRecs (diskFiles w n) = (allRecs w.files).take (w.done + n) ∧
    (∃ a, 1 ≤ a ∧ Chain a (diskFiles w n)) ∧
    w.st.flushed + w.done + (if w.openTail then lastLen w.files else 0) = (allRecs w.files).length ∧
    w.st.logged = ((allRecs w.files).drop w.done).map (·.2) ∧
    (w.openTail = false → w.st.flushed ≤ n → diskFiles w n = w.files) := by
  intro w
  have h : RInv w := RInv.init.rrun ras
  obtain ⟨a, ha, hc, _⟩ := h.chain
  exact ⟨diskFiles_recs w n, ⟨a, ha, chain_trunc hc _⟩, h.flushed, h.logged, h.diskFiles_closed n⟩

/-- C02_recover_prefix for the real recovery function: the tables `Db::open` produces from
    the crash image are the specification of a prefix of the committed transactions that
    contains every synced one. -/
theorem C02_recover_prefix_real (kind : K → Kind) (ras : List (RAction K V)) (j n : Nat)
    (fs : List (LFile (Rec K V))) :
    let w := rrun kind (RSt.init : RSt K V) ras
    let s := w.st
    fs.Perm (diskFiles w (max n s.flushed)) →
    ∃ m, s.nEnacted + s.flushed ≤ m ∧ m ≤ s.hist.length ∧
      m = s.nEnacted + min (max n s.flushed) s.logged.length ∧
      realRecover (crashImage s j) fs = spec kind (s.hist.take m) := by
  intro w s hp
  have hw : RInv w := RInv.init.rrun ras
  have hs : s = run kind St.init (ras.map RAction.toAction) := rrun_st kind _ ras
  have hi : Inv kind s := by rw [hs]; exact (Inv.init kind).run _
  have h := hi.crashRecover j (max n s.flushed) (Nat.le_max_right _ _)
  refine ⟨_, h.2.1, h.2.2.1, rfl, ?_⟩
  rw [hw.realRecover_eq j (max n s.flushed) (Nat.le_max_right _ _) fs hp]
  exact h.2.2.2.2

/-- C03_synced_survive for the real recovery function. -/
theorem C03_synced_survive_real (kind : K → Kind) (ras : List (RAction K V)) (j n : Nat)
    (fs : List (LFile (Rec K V))) :
    let w := rrun kind (RSt.init : RSt K V) ras
    let s := w.st
    let s' := crashRecover s j (max n s.flushed)
    fs.Perm (diskFiles w (max n s.flushed)) →
    s.nEnacted + s.flushed ≤ s'.hist.length ∧ realRecover (crashImage s j) fs = spec kind s'.hist := by
  intro w s s' hp
  have hw : RInv w := RInv.init.rrun ras
  have hs : s = run kind St.init (ras.map RAction.toAction) := rrun_st kind _ ras
  have hi : Inv kind s := by rw [hs]; exact (Inv.init kind).run _
  have h := hi.crashRecover j (max n s.flushed) (Nat.le_max_right _ _)
  have hh : s'.hist = s.hist.take (s.nEnacted + min (max n s.flushed) s.logged.length) := h.2.2.2.1
  refine ⟨?_, ?_⟩
  · rw [hh, List.length_take]
    have := h.2.1
    have := h.2.2.1
    omega
  · rw [hw.realRecover_eq j (max n s.flushed) (Nat.le_max_right _ _) fs hp, hh]
    exact h.2.2.2.2

/-- C03, clean-reopen half, for the real recovery function.  `ras`: any wrapper history;
    `wd`: the state after the file side of a clean drop (`kill_logs`: enact one file, flush,
    process every queued commit, enact one file, flush, enact one file, reclaim); `fs`: the log
    files the drop leaves, in any directory order.  `Db::open`'s recovery run on the tables
    and files left by the drop yields exactly the tables `cleanReopen` postulates, and these
    are the specification of EVERY transaction committed before the drop. -/
theorem C03_clean_drop_real (kind : K → Kind) (ras : List (RAction K V))
    (fs : List (LFile (Rec K V))) :
    let w := rrun kind (RSt.init : RSt K V) ras
    let wd := dropSeq kind w
    fs.Perm wd.files →
    realRecover wd.st.tables fs = (cleanReopen kind w.st).tables ∧
    (cleanReopen kind w.st).tables = spec kind w.st.hist := by
  intro w wd hp
  have hw : RInv w := RInv.init.rrun ras
  have hs : w.st = run kind St.init (ras.map RAction.toAction) := rrun_st kind _ ras
  have hi : Inv kind w.st := by rw [hs]; exact (Inv.init kind).run _
  have hc := hi.cleanReopen.2.2
  exact ⟨(hw.clean_drop_real hi fs hp).1.trans hc.symm, hc⟩

/-- The state the drop sequence leaves: no transaction of the history is dropped, no commit
    is left in the queue (every one has its record in a log file or in the tables), no log
    file is open for appending (every record left is synced, `diskFiles wd n = wd.files` for
    every admissible `n`), and what is not yet in the tables is in the files:
    `nEnacted + logged.length = hist.length`. -/
theorem C03_clean_drop_state (kind : K → Kind) (ras : List (RAction K V)) :
    let w := rrun kind (RSt.init : RSt K V) ras
    let wd := dropSeq kind w
    wd.st.hist = w.st.hist ∧ wd.st.queue = [] ∧ wd.openTail = false ∧
    wd.st.nEnacted + wd.st.logged.length = w.st.hist.length ∧
    wd.st.logged = ((allRecs wd.files).drop wd.done).map (·.2) ∧
    (∀ n, wd.st.flushed ≤ n → diskFiles wd n = wd.files) := by
  intro w wd
  have hw : RInv w := RInv.init.rrun ras
  have hs : w.st = run kind St.init (ras.map RAction.toAction) := rrun_st kind _ ras
  have hi : Inv kind w.st := by rw [hs]; exact (Inv.init kind).run _
  have hd : RInv wd := hw.dropSeq
  obtain ⟨_, hh, hq, ho⟩ := hw.clean_drop_real hi wd.files (List.Perm.refl _)
  obtain ⟨n1, n2, n3, hst⟩ := dropSeq_st kind w
  have hlen := (drainWith_inv hi n1 n2 n3).1.len
  rw [← hst] at hlen
  refine ⟨hh, hq, ho, ?_, hd.logged, fun n hn => hd.diskFiles_closed n ho hn⟩
  have e1 : wd.st.queue = [] := hq
  have e2 : wd.st.hist = w.st.hist := hh
  have hlen' : wd.st.nEnacted + wd.st.logged.length + wd.st.queue.length = wd.st.hist.length := hlen
  rw [e1, e2] at hlen'
  simpa using hlen'

/-- Recovery itself may be interrupted (C02_crash_during_recovery for the real algorithm): for
    the files of any crash image of any reachable state, in any listing order,
    (a) a crash while the records are replayed (`i` records and `j'` writes of the next one
    done; the files are untouched) and (b) a crash while `clean_all_logs` reclaims the replayed
    files, oldest first (`c` files gone, the younger ones replayed again over tables that hold
    everything): the next recovery yields the same tables as an undisturbed one. -/
theorem C02_real_recovery_restart (kind : K → Kind) (ras : List (RAction K V)) (n : Nat)
    (t : Tbl K V) (fs : List (LFile (Rec K V))) :
    let w := rrun kind (RSt.init : RSt K V) ras
    fs.Perm (diskFiles w n) →
    (∀ i j', realRecover (applyRecPrefix j' (applyRecs t ((realAccepted fs).take i))
        ((realAccepted fs).getD i [])) fs = realRecover t fs) ∧
    (∀ c (fs' : List (LFile (Rec K V))), fs'.Perm ((diskFiles w n).drop c) →
      realRecover (realRecover t fs) fs' = realRecover t fs) := by
  intro w hp
  obtain ⟨a, ha, hc, _⟩ := (RInv.init.rrun ras : RInv w).chain
  exact realRecover_restart (chain_trunc hc _) ha t fs hp

/-! ### (ii) the discipline matters -/

section Counterexamples

def cexKind : Nat → Kind := fun _ => .plain

/-- T1, T2 each flushed into a file of their own (log0, log1) and both enacted; both files
    wait in the cleanup queue. -/
def cexActsA : List (RAction Nat Nat) :=
  [.act (.commit [.set 1 10, .set 2 20]), .act .process, .act .flush,
   .act (.commit [.set 1 11, .set 3 30]), .act .process, .act .flush, .act .enact, .act .enact]

/-- T1 -> log0, T2 -> log1, log0 enacted and reclaimed (back to the pool), T3 reuses log0:
    log0 holds record 3, log1 record 2. -/
def cexActsB : List (RAction Nat Nat) :=
  [.act (.commit [.set 1 10]), .act .process, .act .flush, .act (.commit [.set 2 20]),
   .act .process, .act .flush, .act .enact, .act .clean, .act (.commit [.set 3 30]), .act .process]

/-- Cleanup queue reversed (seeded C02-c02c): log1 (record 2) is truncated first, a crash
    before log0 is truncated leaves record 1 on disk; `Db::open` re-applies it over tables that
    already hold T2: key 1 is back at T1's value while key 3 has T2's.  The result is the
    specification of NO prefix; with the real discipline (`reclaim 1`) it is. -/
theorem C02_real_needs_oldest_first :
    let w := reclaimYoungest (rrun cexKind RSt.init cexActsA)
    let w' := reclaim 1 (rrun cexKind RSt.init cexActsA)
    (diskFiles w 0).map (fun f => (f.num, f.recs.map (·.1))) = [(0, [1])] ∧
    (∀ m, m ≤ 2 → ∃ k ∈ [1, 2, 3],
      realRecover (crashImage w.st 0) (diskFiles w 0) k ≠ spec cexKind (w.st.hist.take m) k) ∧
    (diskFiles w' 0).map (fun f => (f.num, f.recs.map (·.1))) = [(1, [2])] ∧
    (∀ k ∈ [1, 2, 3],
      realRecover (crashImage w'.st 0) (diskFiles w' 0) k = spec cexKind (w'.st.hist.take 2) k) := by
  decide

/-- Replay queue ordered by file NUMBER (seeded C02-c02a / C03-c03a): log0 (record 3) is
    replayed first with last_enacted = 2, then record 2 in log1 is a sequence error: T1 and T3
    present, T2 absent - no prefix.  The real order (by first record id) gives all three. -/
theorem C02_real_needs_first_id_order :
    let w := rrun cexKind RSt.init cexActsB
    (diskFiles w 2).map (fun f => (f.num, f.recs.map (·.1))) = [(1, [2]), (0, [3])] ∧
    w.st.flushed = 1 ∧ w.st.logged.length = 2 ∧
    (∀ m, m ≤ 3 → ∃ k ∈ [1, 2, 3],
      applyRecs (crashImage w.st 0) (acceptedWith LFile.numKey (diskFiles w 2)) k ≠
        spec cexKind (w.st.hist.take m) k) ∧
    (∀ k ∈ [1, 2, 3], realRecover (crashImage w.st 0) (diskFiles w 2) k = spec cexKind w.st.hist k) := by
  decide

example : let w := reclaimYoungest (rrun cexKind RSt.init cexActsA)
    realRecover (crashImage w.st 0) (diskFiles w 0) 1 ≠ (crashRecover w.st 0 0).tables 1 := by decide

example : let w := rrun cexKind RSt.init cexActsB
    applyRecs (crashImage w.st 0) (acceptedWith LFile.numKey (diskFiles w 2)) 2 ≠
      (crashRecover w.st 0 2).tables 2 := by decide

end Counterexamples


end Pdb

/-! ### non-vacuity -/

namespace Pdb
section Example
private def kd : Nat → Kind := fun _ => .plain
/-- three log files on disk at the crash: log0 = [1] enacted and retained, log1 = [2, 3]
    flushed with record 2 being enacted (one of its two writes done), log2 = [4, 5] appending;
    a fifth commit queued.  The crash keeps record 4 of the unsynced tail (n = 3). -/
private def acts : List (RAction Nat Nat) :=
  [.act (.commit [.set 1 10, .set 2 20]), .act .process, .act .flush,
   .act (.commit [.set 1 11, .set 3 30]), .act .process, .act (.commit [.deref 2]), .act .process,
   .act .flush, .act .enact,
   .act (.commit [.set 4 40]), .act .process, .act (.commit [.set 1 12]), .act .process,
   .act (.commit [.set 5 50])]
private def w0 : RSt Nat Nat := rrun kd RSt.init acts

example : (w0.files.map (fun f => (f.num, f.recs.map (·.1))) = [(0, [1]), (1, [2, 3]), (2, [4, 5])]) ∧
    w0.done = 1 ∧ w0.openTail = true ∧ w0.st.flushed = 2 ∧ w0.st.logged.length = 4 ∧
    w0.st.nEnacted = 1 ∧ w0.st.queue.length = 1 ∧
    (diskFiles w0 3).map (fun f => (f.num, f.recs.map (·.1))) = [(0, [1]), (1, [2, 3]), (2, [4])] := by
  decide

-- the directory lists the files youngest first (log2, log1, log0); one write of record 2 is done
example : ((diskFiles w0 3).reverse.map (·.num) = [2, 1, 0]) ∧
    (∀ k ∈ [1, 2, 3, 4, 5],
      realRecover (crashImage w0.st 1) (diskFiles w0 3).reverse k = spec kd (w0.st.hist.take 4) k) ∧
    crashImage w0.st 1 1 = some (11, 1) ∧ crashImage w0.st 1 3 = none ∧
    spec kd (w0.st.hist.take 4) 1 = some (11, 1) ∧ spec kd (w0.st.hist.take 4) 2 = none ∧
    spec kd (w0.st.hist.take 4) 4 = some (40, 1) ∧ spec kd (w0.st.hist.take 4) 5 = none := by
  decide

example : (diskFiles w0 3).reverse.Perm (diskFiles w0 3) ∧ w0.st.flushed ≤ 3 :=
  ⟨List.reverse_perm _, by decide⟩

-- recovery interrupted while reclaiming: log0 gone, log1 and log2 replayed again: same tables
example : ∀ k ∈ [1, 2, 3, 4, 5],
    realRecover (realRecover (crashImage w0.st 1) (diskFiles w0 3)) ((diskFiles w0 3).drop 1) k =
      realRecover (crashImage w0.st 1) (diskFiles w0 3) k := by decide
-- ... whereas reclaiming the YOUNGEST first (log2 gone) and replaying log0, log1 again does not
example : realRecover (realRecover (crashImage w0.st 1) (diskFiles w0 4)) ((diskFiles w0 4).take 2) 1 ≠
      realRecover (crashImage w0.st 1) (diskFiles w0 4) 1 := by decide

-- an interrupted cleanup: after `cleanSome 1` of a state with two retained files one stays
example : ((rrun cexKind RSt.init (cexActsA ++ [.cleanSome 1])).files.map
      (fun f => (f.num, f.recs.map (·.1))) = [(1, [2])]) ∧
    (rrun cexKind RSt.init (cexActsA ++ [.cleanSome 1])).pool = [0] := by decide

/-! clean drop: five log files (log0 = [1] enacted, log1 = [2, 3], log2 = [4, 5], log3 = [6]
    flushed, log4 = [7] appending) and an eighth commit queued.  `kill_logs` enacts log1,
    flushes, processes commit 8 into the fresh log5, enacts log2, flushes, enacts log3 and
    reclaims log0..log3: log4 = [7] and log5 = [8] stay, closed and un-enacted; the tables on
    disk lack transactions 7 and 8 (keys 2 and 6).  The next open replays both. -/
private def acts' : List (RAction Nat Nat) :=
  acts ++ [.act .flush, .act .process, .act .flush, .act (.commit [.set 2 21]), .act .process,
           .act (.commit [.set 6 60])]
private def w1 : RSt Nat Nat := rrun kd RSt.init acts'

example : (w1.files.map (fun f => (f.num, f.recs.map (·.1))) =
      [(0, [1]), (1, [2, 3]), (2, [4, 5]), (3, [6]), (4, [7])]) ∧
    w1.done = 1 ∧ w1.openTail = true ∧ w1.st.flushed = 5 ∧ w1.st.queue.length = 1 ∧
    w1.st.hist.length = 8 ∧
    ((dropSeq kd w1).files.map (fun f => (f.num, f.recs.map (·.1))) = [(4, [7]), (5, [8])]) ∧
    (dropSeq kd w1).done = 0 ∧ (dropSeq kd w1).openTail = false ∧ (dropSeq kd w1).pool = [0, 1, 2, 3] ∧
    (dropSeq kd w1).st.nEnacted = 6 ∧ (dropSeq kd w1).st.logged.length = 2 ∧
    (dropSeq kd w1).st.flushed = 2 ∧ (dropSeq kd w1).st.queue.length = 0 := by
  decide

-- the directory lists log5 before log4; the tables on disk are not yet `cleanReopen`'s
example : ((dropSeq kd w1).files.reverse.map (·.num) = [5, 4]) ∧
    (∀ k ∈ [1, 2, 3, 4, 5, 6],
      realRecover (dropSeq kd w1).st.tables (dropSeq kd w1).files.reverse k = spec kd w1.st.hist k ∧
      (cleanReopen kd w1.st).tables k = spec kd w1.st.hist k) ∧
    (dropSeq kd w1).st.tables 2 = none ∧ (dropSeq kd w1).st.tables 6 = none ∧
    spec kd w1.st.hist 1 = some (12, 1) ∧ spec kd w1.st.hist 2 = some (21, 1) ∧
    spec kd w1.st.hist 3 = some (30, 1) ∧ spec kd w1.st.hist 6 = some (60, 1) := by
  decide

-- the instance of `C03_clean_drop_real` for this history and this directory order
example : realRecover (dropSeq kd w1).st.tables (dropSeq kd w1).files.reverse =
      (cleanReopen kd w1.st).tables ∧ (cleanReopen kd w1.st).tables = spec kd w1.st.hist :=
  C03_clean_drop_real kd acts' (dropSeq kd w1).files.reverse (List.reverse_perm _)

-- with at most three un-enacted files (`w0`: log1, log2 and log3 for the queued commit) the drop
-- enacts everything and leaves no file
example : (dropSeq kd w0).files.length = 0 ∧ (dropSeq kd w0).st.nEnacted = 6 ∧
    (∀ k ∈ [1, 2, 3, 4, 5], (dropSeq kd w0).st.tables k = spec kd w0.st.hist k) := by decide

-- (iii): records of C13's examples; files given youngest first, and with a gap
end Example

end Pdb

#print axioms Pdb.C02_real_recovery_eq
#print axioms Pdb.C02_crash_files
#print axioms Pdb.C02_recover_prefix_real
#print axioms Pdb.C03_synced_survive_real
#print axioms Pdb.C03_clean_drop_real
#print axioms Pdb.C03_clean_drop_state
#print axioms Pdb.C02_real_recovery_restart
#print axioms Pdb.C02_real_needs_oldest_first
#print axioms Pdb.C02_real_needs_first_id_order
#print axioms Pdb.rrun_st
#print axioms Pdb.RInv.realRecover_eq
