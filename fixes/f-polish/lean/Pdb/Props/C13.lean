/-
C13  Damaged or stale write-ahead logs are rejected, never half-applied; opening does not panic.

Property theorems over the byte-level model `Pdb.Model.Wal`.  The model is literal about
failure: every operation of the replay path that can panic is a branch to `.panic` taken when
its precondition fails, every `?` of the apply pass a branch to `.applyFailed`, and exhausted
fuel is the separate outcome `.outOfFuel` (see the header of Pdb/Model/Wal.lean for the table
of panic sites and guards).  `crc` is an arbitrary function of the bytes (A-crc); every
statement is for ALL byte strings, file sets and configurations with `Cfg.Sane` (no table
FILE with more than MAX_INDEX_BITS index bits: an assumption on the tables found at open,
not on the log), proved by induction.

All replay theorems are about `replayOpen`, i.e. with the start id that `Db::open` itself
derives from the first header of the oldest surviving log file (`OpenStart`).

Vocabulary (defined in Pdb/Model/Wal.lean and Pdb/Proofs/C13*.lean):
  WellFormed cfg r      the validators accept record `r` in configuration `cfg`
  cfgAfter cfg r        configuration after `r` was validated and applied
  recEffects cfg r      what the apply pass does with the actions of `r`, one `EAct` per action
  ValidChain cfg l rs   `rs` well formed one after the other, ids `l+1, l+2, ...`
  NoValidNext .. tail   `tail` does not start with a well-formed encoded record numbered `l+1`
  Explains              report-by-report description of a replay (see C13Replay.lean)
  IntactPrefix crc rs fs  the ordered files begin with the undamaged encodings of `rs`
  stateAt hist k T0     abstract tables after the first `k` committed records
-/
import Pdb.Proofs.C13Intact
import Pdb.Proofs.C13Order
import Pdb.Proofs.C13Fuel

namespace Pdb.Wal
open Pdb.Gen

/-! ### instances used by the non-vacuity examples -/

/-- One hash column, index at 16 bits, no ref-count table, no reindex pending. -/
def exCfg : Cfg := ⟨false, [⟨false, 16, none, []⟩]⟩

/-- hash column with ref-count table; btree column -/
def exCfg2 : Cfg := ⟨false, [⟨false, 16, some 16, []⟩, ⟨true, 0, none, []⟩]⟩

def exRec : Record :=
  ⟨5, [.insertIndex 16 3 5 (List.replicate 16 7), .insertValue 4 7 [3, 0, 1, 2, 3], .dropTable 16]⟩

/-- A checksum good enough to notice the damage used below: sum of the bytes. -/
def crcSum (bs : Bytes) : Nat := (bs.map (·.toNat)).sum

def exEntry (v : UInt8) : Bytes := [1, 0, v]
def exR1 : Record := ⟨1, [.insertValue 4 1 (exEntry 0xAA)]⟩     -- k1 := a
def exR2 : Record := ⟨2, [.insertValue 4 1 (exEntry 0xBB)]⟩     -- k1 := b
def exR3 : Record := ⟨3, [.insertValue 4 2 (exEntry 0xCC)]⟩     -- k2 := c
def exHist : List Record := [exR1, exR2, exR3]
/-- Record 2 with one payload byte changed and the original checksum. -/
def exR2damaged : Bytes :=
  encodeBody ⟨2, [.insertValue 4 1 (exEntry 0xBC)]⟩ ++ leBytes 4 (crcSum (encodeBody exR2))
def exDamagedLog : Bytes := encodeRecord crcSum exR1 ++ exR2damaged ++ encodeRecord crcSum exR3

example : exCfg.Sane ∧ exCfg2.Sane := by decide

/-! ## 0. where `Db::open` starts -/

/-- `Db::open` starts the record sequence at `s + 1`: `s + 1` is the id in the first header of
    the first file in replay order (the oldest surviving log file), whatever else that file
    holds; `s = 1` when no log file has a complete first header. -/
def OpenStart (files : List Bytes) (s : Nat) : Prop :=
  (((orderFiles files).head?.bind firstId).getD 2) - 1 = s

theorem C13_open_start (crc : Bytes → Nat) (cfg : Cfg) (files : List Bytes) :
    OpenStart files (initialLastEnacted files) ∧
    replayOpen crc cfg files = replay crc cfg (initialLastEnacted files) files :=
  ⟨(initialLastEnacted_eq files).symm, rfl⟩

example : OpenStart [encodeRecord crcSum exR3, [1, 2, 3], encodeRecord crcSum exR2] 1 := by
  unfold OpenStart; decide +kernel

/-! ## 1. parse ∘ encode -/

theorem C13_parse_encode (crc : Bytes → Nat) (cfg : Cfg) (lastEnacted : Nat) (r : Record)
    (rest : Bytes) (hs : cfg.Sane) (hwf : WellFormed cfg r) (hid : r.id = lastEnacted + 1) :
    parseRecord crc cfg lastEnacted (encodeRecord crc r ++ rest) =
      .ok r (recEffects cfg r) rest (cfgAfter cfg r) :=
  parseRecord_encode crc hs hwf hid rest

example : WellFormed exCfg exRec ∧ exRec.id = 4 + 1 := by decide +kernel
example : parseRecord crcSum exCfg 4 (encodeRecord crcSum exRec ++ [9, 9]) =
    .ok exRec [⟨exRec.actions[0], true⟩, ⟨exRec.actions[1], true⟩, ⟨exRec.actions[2], false⟩]
      [9, 9] exCfg := by decide +kernel

/-! ## 2. opening does not panic, whatever the bytes -/

/-- For ALL byte strings, file sets and start ids, in every sane configuration: no panic site
    of the replay path is reached (`.panic`: sites V1 .. V7, E1 .. E10 of the table in
    Pdb/Model/Wal.lean, E10 being the unchecked `TableFile::write_at` of `ValueTable::enact_plan`,
    whose only guard for a plain entry is the "Bad entry size" check of the VALIDATION pass), the
    apply pass never returns `Err` after the validation pass accepted a record (`.applyFailed`:
    `Db::open` would fail with part of the record applied), and the model never runs out of
    fuel (`.outOfFuel`).

    CAVEAT on `.applyFailed`.  The `Err`s the model knows are those that depend on the BYTES of
    the record alone (EOF / bad opcode / CRC in the second reading, a table that cannot be
    looked up).  RESOURCE failures of the apply pass are NOT modelled, and some of them are
    driven by the bytes of a record whose checksum is valid and which the validation pass
    accepts:
      * an INSERT_INDEX / INSERT_REF_COUNT naming a table with 40 .. 49 index bits makes
        `validate_plan` start a reindex up to that size; the first `enact_plan` into the new
        table does `set_len(file_size(bits))` + mmap (index.rs:606, ref_count.rs:395): 2^49
        chunks of 512 bytes; `set_len` / `mmap` fail (`Err(Io(..))`, `Db::open` fails after
        the earlier actions of the record were applied), and the empty tables of all
        intermediate sizes have been queued;
      * an INSERT_VALUE with a huge slot index makes `ValueTable::enact_plan` grow the file in
        steps of 256 KiB until it holds that slot (`while index >= capacity { grow }`,
        table.rs:1056; `growLoop` models the loop with fuel): disk full, or a loop of up to
        2^51 iterations (8192 slots of 32 bytes per step);
      * `for index in 0..total_chunks()` over a table of up to 2^49 chunks (column.rs:547/560).
    So "`.applyFailed` never happens" is to be read as: no `Err` for a reason the log bytes can
    cause OTHER than exhausting disk / address space / time.  (The harness has never produced
    such a record: the generators keep table ids at or below 20 bits and slot indices small.) -/
theorem C13_total (crc : Bytes → Nat) (cfg : Cfg) (hs : cfg.Sane) :
    (∀ (lastEnacted : Nat) (bytes : Bytes),
        parseRecord crc cfg lastEnacted bytes ≠ .panic ∧
        parseRecord crc cfg lastEnacted bytes ≠ .applyFailed ∧
        parseRecord crc cfg lastEnacted bytes ≠ .outOfFuel) ∧
    (∀ files : List Bytes, (replayOpen crc cfg files).panicked = false ∧
        (replayOpen crc cfg files).applyFailed = false ∧
        (replayOpen crc cfg files).outOfFuel = false) ∧
    (∀ (lastEnacted : Nat) (files : List Bytes),
        (replay crc cfg lastEnacted files).panicked = false ∧
        (replay crc cfg lastEnacted files).applyFailed = false ∧
        (replay crc cfg lastEnacted files).outOfFuel = false) := by
  have key : ∀ last files, (replay crc cfg last files).panicked = false ∧
      (replay crc cfg last files).applyFailed = false ∧
      (replay crc cfg last files).outOfFuel = false := by
    intro last files
    have h := (replaySorted_explains crc cfg last (orderFiles files) hs).no_abort
    unfold ReplayResult.panicked ReplayResult.applyFailed ReplayResult.outOfFuel replay
    refine ⟨?_, ?_, ?_⟩ <;>
    · rw [Bool.eq_false_iff]
      intro hany
      obtain ⟨rep, hr, hst⟩ := List.any_eq_true.mp hany
      have := h rep hr
      have hst' := of_decide_eq_true (by simpa using hst)
      rw [hst'] at this
      cases this
  exact ⟨fun last bytes => ⟨parseRecord_ne_panic crc cfg last bytes hs,
      parseRecord_ne_applyFailed crc cfg last bytes hs, parseRecord_fuel crc cfg last bytes⟩,
    fun files => key _ files, key⟩

/-- Fuel adequacy needs no assumption at all: one `enact_logs` call on `bytes` never uses up
    `bytes.length + 1` units of fuel, and no file or replay loop of `Db::open` ever runs out of
    fuel, in ANY configuration: `.outOfFuel` is an artefact of the model that is never seen. -/
theorem C13_fuel_adequate (crc : Bytes → Nat) (cfg : Cfg) :
    (∀ (lastEnacted : Nat) (bytes : Bytes),
      parseRecord crc cfg lastEnacted bytes ≠ .outOfFuel ∧
      validatePass crc cfg lastEnacted bytes ≠ .outOfFuel ∧
      enactPass crc cfg bytes ≠ .outOfFuel) ∧
    (∀ files : List Bytes, (replayOpen crc cfg files).outOfFuel = false) :=
  ⟨fun lastEnacted bytes => ⟨parseRecord_fuel crc cfg lastEnacted bytes,
      validatePass_fuel crc cfg lastEnacted bytes, enactPass_fuel crc cfg bytes⟩,
    replayOpen_fuel crc cfg⟩

-- garbage, a bad opcode, a truncated record: rejected, no panic
example : parseRecord crcSum exCfg 0 [0xde, 0xad] = .invalid .badHeader exCfg := by decide +kernel
example : parseRecord crcSum exCfg 0 ((encodeRecord crcSum exR1).take 20) =
    .invalid .validation exCfg := by decide +kernel
example : parseRecord crcSum exCfg 0 [1, 1, 0] = .endOfLog := by decide +kernel
-- `.panic` is a real outcome of the model: a table FILE with 64 index bits (not sane) and a
-- record naming it reach PANIC SITE V4 (`1u64 << 64`)
example : parseRecord crcSum ⟨false, [⟨false, 64, none, []⟩]⟩ 0
    (encodeRecord crcSum ⟨1, [.insertIndex 64 0 0 []]⟩) = .panic := by decide +kernel

/-- Site E10 spelled out (it is part of `C13_total` through the `.panic` branch of `enactValue`):
    the unchecked `TableFile::write_at` of `ValueTable::enact_plan` meets its precondition
    (`VFile.writeOk`: the file is mapped, at most `entry_size` bytes are written, slot `index` lies
    inside the file) for EVERY state `f` of the table file, provided the VALIDATION pass accepted
    the same bytes (`valueLen .. = .ok n`: for a plain entry the "Bad entry size" check,
    table.rs:1108) and the growth loop `while index >= capacity { grow }` ends (`growLoop .. = some
    f'`; how long it runs is a resource question, see the caveat at `C13_total`).  Conversely a
    length above the entry size fits no slot of any file: this is when `enactValue` answers
    `.panic`, and `enact_plan` itself has no check that would prevent it. -/
theorem C13_value_write_inside_slot (v4 : Bool) (tier index n fuel : Nat) (payload : Bytes)
    (f f' : VFile) :
    (valueLen v4 tier index payload = .ok n →
      growLoop (entrySize tier) index fuel f = some f' → f'.writeOk (entrySize tier) index n) ∧
    (entrySize tier < n → ¬ f.writeOk (entrySize tier) index n) :=
  ⟨writeAt_ok_of_validated, fun h => not_writeOk_of_too_long h f⟩

-- a 30-byte value for slot 9000 of the table with 32-byte entries, no file yet: validated with
-- length 32, two `grow` steps, then the write is inside slot 9000 of the mapped file
example : valueLen false 0 9000 ([30, 0] ++ List.replicate 30 7) = .ok 32 ∧
    growLoop (entrySize 0) 9000 5 ⟨false, 0⟩ = some ⟨true, 2 * GROW_SIZE_BYTES⟩ ∧
    entrySize 0 = 32 := by decide +kernel
example : (⟨true, 2 * GROW_SIZE_BYTES⟩ : VFile).writeOk (entrySize 0) 9000 32 :=
  (C13_value_write_inside_slot false 0 9000 32 5 ([30, 0] ++ List.replicate 30 7) ⟨false, 0⟩ _).1
    (by decide +kernel) (by decide +kernel)
-- ... and the apply pass ALONE (no validation before it) takes a 100-byte size field for that table
example : enactValue exCfg 0 9000 ⟨[], [100, 0] ++ List.replicate 100 7⟩ = .panic ∧
    validateValue exCfg 0 9000 ⟨[], [100, 0] ++ List.replicate 100 7⟩ = .err exCfg := by decide +kernel

/-! ## 3. only complete, valid, consecutively numbered records are applied -/

/-- Everything `Db::open` applies (a) is numbered `s+1, s+2, ...` without gap, also across log
    files, where `s + 1` is the id in the first header of the oldest surviving file
    (`OpenStart`), (b) ends at the reported `lastEnacted`, (c) stands whole in one of the log
    files: its body followed by the CRC of that body, and passed validation in the
    configuration then in force; (d) each visited file is literally
    `encode(accepted records) ++ unread tail`, and the effects recorded for it are the complete
    effects of those records. -/
theorem C13_only_valid_consecutive (crc : Bytes → Nat) (cfg : Cfg) (files : List Bytes) (s : Nat)
    (hs : cfg.Sane) (hstart : OpenStart files s) :
    let res := replayOpen crc cfg files
    res.applied.map (·.id) = List.range' (s + 1) res.applied.length ∧
    res.lastEnacted = s + res.applied.length ∧
    (∀ r ∈ res.applied, ∃ f ∈ files, ∃ pre post c,
        f = pre ++ (encodeBody r ++ leBytes 4 (crc (encodeBody r))) ++ post ∧ WellFormed c r) ∧
    (∀ i (hi : i < res.reports.length), ∃ hf : i < (orderFiles files).length,
        (orderFiles files)[i] = encodeRecords crc res.reports[i].applied ++ res.reports[i].tail ∧
        ∃ c l, ValidChain c l res.reports[i].applied ∧
          res.reports[i].effects = chainEffects c res.reports[i].applied) := by
  intro res
  have hs0 : initialLastEnacted files = s := by rw [initialLastEnacted_eq]; exact hstart
  have hex := replaySorted_explains crc cfg (initialLastEnacted files) (orderFiles files) hs
  rw [hs0] at hex
  have hres : res = replaySorted crc cfg s (orderFiles files) := by
    show replay crc cfg (initialLastEnacted files) files = _
    rw [hs0]; rfl
  rw [hres]
  obtain ⟨hids, hlast⟩ := hex.ids
  obtain ⟨hlen, hfiles⟩ := hex.files
  refine ⟨hids, hlast, ?_, ?_⟩
  · intro r hr
    obtain ⟨rep, hrep, hrr⟩ := List.mem_flatMap.mp hr
    obtain ⟨c, hwf⟩ := hex.wf rep hrep r hrr
    obtain ⟨i, hi, hrepi⟩ := List.getElem_of_mem hrep
    have hf : i < (orderFiles files).length := by omega
    have hfile := hfiles i hi hf
    rw [hrepi] at hfile
    obtain ⟨pre, post, e⟩ := encodeRecords_mem crc hrr
    refine ⟨(orderFiles files)[i], mem_orderFiles (List.getElem_mem hf), pre, post ++ rep.tail, c,
      ?_, hwf⟩
    rw [hfile, e]; simp [encodeRecord]
  · intro i hi
    have hf : i < (orderFiles files).length := by omega
    exact ⟨hf, hfiles i hi hf, hex.chains _ (List.getElem_mem hi)⟩

example : (replayOpen crcSum exCfg [encodeRecord crcSum exR1 ++ encodeRecord crcSum exR2]).applied =
    [exR1, exR2] := by decide +kernel
-- two files given in the wrong order, the second file continues the sequence
example : ((replayOpen crcSum exCfg [encodeRecord crcSum exR2, encodeRecord crcSum exR1]).applied,
    (replayOpen crcSum exCfg [encodeRecord crcSum exR2, encodeRecord crcSum exR1]).lastEnacted) =
    ([exR1, exR2], 2) := by decide +kernel

/-- How stale / out-of-sequence files are treated before any record is read: replay visits the
    files that hold at least a complete first header (9 bytes), each exactly once, in
    non-decreasing order of the id in that header; all other files are ignored (deleted). -/
theorem C13_file_order (files : List Bytes) :
    (orderFilesKeyed files).Perm (keyedFiles files) ∧
    (orderFilesKeyed files).Pairwise (fun a b => a.1 ≤ b.1) ∧
    orderFiles files = (orderFilesKeyed files).map (·.2) ∧
    (∀ k g, (k, g) ∈ orderFilesKeyed files → firstId g = some k) :=
  ⟨orderFilesKeyed_perm files, orderFilesKeyed_sorted files, rfl,
    fun _ _ h => orderFilesKeyed_key h⟩

example : orderFiles [encodeRecord crcSum exR3, [1, 2, 3], [], encodeRecord crcSum exR1] =
    [encodeRecord crcSum exR1, encodeRecord crcSum exR3] := by decide +kernel

/-! ## 4. nothing after the first invalid record -/

/-- `Explains` is the exact account: for every visited file, in replay order, the file is
    `encode(accepted) ++ tail`; `StopsAt` says the model rejected what starts at `tail` (for the
    configuration and id expected at that point), hence (`NoValidNext`) `tail` does not begin
    with a well-formed encoded record continuing the sequence: the accepted records are the
    MAXIMAL valid consecutive prefix of the file.  A stop that clears (`bad header`, sequence
    error, unexpected BEGIN, validation error) is the last report: no later file contributes.
    A read error (truncation, bad opcode, CRC mismatch) or the end of the file moves on to the
    next file, whose first record must then continue the same sequence.
    The second conjunct spells this out for the first file: the oldest surviving one, whose
    first header fixed the start `s + 1`. -/
theorem C13_nothing_after_first_invalid (crc : Bytes → Nat) (cfg : Cfg) (files : List Bytes)
    (s : Nat) (hs : cfg.Sane) (hstart : OpenStart files s) :
    let res := replayOpen crc cfg files
    Explains crc cfg s (orderFiles files) res.reports res.cfg res.lastEnacted ∧
    (∀ f fs, orderFiles files = f :: fs → (∃ k, firstId f = some k ∧ k - 1 = s) ∧
      ∃ rep reps, res.reports = rep :: reps ∧
        f = encodeRecords crc rep.applied ++ rep.tail ∧
        ValidChain cfg s rep.applied ∧
        NoValidNext crc (chainCfg cfg rep.applied) (s + rep.applied.length) rep.tail ∧
        (rep.stop.clears = true → reps = [])) ∧
    (∀ i (hi : i < res.reports.length), res.reports[i].stop.clears = true →
        i + 1 = res.reports.length) ∧
    ((∀ rep ∈ res.reports, rep.stop.clears = false) →
        res.reports.length = (orderFiles files).length) := by
  intro res
  have hs0 : initialLastEnacted files = s := by rw [initialLastEnacted_eq]; exact hstart
  have hex := replaySorted_explains crc cfg (initialLastEnacted files) (orderFiles files) hs
  rw [hs0] at hex
  have hres : res = replaySorted crc cfg s (orderFiles files) := by
    show replay crc cfg (initialLastEnacted files) files = _
    rw [hs0]; rfl
  rw [hres]
  refine ⟨hex, ?_, hex.clears_last.1, hex.clears_last.2⟩
  intro f fs hfs
  constructor
  · -- the head of the replay queue carries its key in its first header; the key fixes `s`
    unfold orderFiles at hfs
    cases hk : orderFilesKeyed files with
    | nil => rw [hk] at hfs; cases hfs
    | cons x l =>
      obtain ⟨k, g⟩ := x
      rw [hk] at hfs
      simp only [List.map_cons, List.cons.injEq] at hfs
      obtain ⟨rfl, _⟩ := hfs
      have hkey := orderFilesKeyed_key (files := files) (k := k) (g := g)
        (by rw [hk]; exact List.mem_cons_self)
      have hk1 : initialLastEnacted files = k - 1 := by simp [initialLastEnacted, hk]
      exact ⟨k, hkey, by omega⟩
  · have head' : ∀ {fs0 : List Bytes} {reps : List FileReport} {c : Cfg} {l : Nat},
        Explains crc cfg s fs0 reps c l → fs0 = f :: fs →
        ∃ rep reps', reps = rep :: reps' ∧ f = encodeRecords crc rep.applied ++ rep.tail ∧
          ValidChain cfg s rep.applied ∧
          NoValidNext crc (chainCfg cfg rep.applied) (s + rep.applied.length) rep.tail ∧
          (rep.stop.clears = true → reps' = []) := by
      intro fs0 reps c l h e; subst e; exact h.head hs
    exact head' hex hfs

-- record 2 damaged (CRC mismatch): record 3, although intact, is not applied
example : ((replayOpen crcSum exCfg [exDamagedLog]).applied,
    (replayOpen crcSum exCfg [exDamagedLog]).reports.map (·.stop)) =
    ([exR1], [.invalid .readError]) := by decide +kernel
-- validation error in file 1 clears the queue: the intact file 2 (records 2, 3) is not read
example : (replayOpen crcSum exCfg [encodeRecord crcSum exR1 ++ [3, 0xff, 0xff] ++ List.replicate 8 0,
      encodeRecord crcSum exR2 ++ encodeRecord crcSum exR3]).reports.map
      (fun rep => (rep.applied.length, rep.stop)) = [(1, .invalid .badHeader)] := by decide +kernel

/-! ## 5. whole or nothing -/

/-- (a) One `enact_logs` call that applies anything has had the validation pass accept the
    WHOLE record, CRC included, and then the apply pass -- reading the same bytes again, in
    the configuration the validation pass left -- went through ALL of it: one effect per
    action, in order, ending at the same byte; the `Err` exits of the apply pass
    (`reader.next()?`, every `enact_plan(..)?`, `drop_index(..)?`) are not taken.
    (b) If the validation pass does not return `ok`, the call returns that result and nothing
    is applied.  (c) Whenever the validation pass accepts, the apply pass succeeds
    (`validate_plan` ok implies `enact_plan` ok, action kind by action kind, in the
    configuration the preceding actions of the record left): no half-applied record.
    (d) For ANY table state and ANY per-action write function, the tables after `Db::open` are
    the fold of the write function over the recorded effects, which are the COMPLETE action
    lists of the applied records (each of which passed validation, theorem 3). -/
theorem C13_whole_or_nothing (crc : Bytes → Nat) (cfg : Cfg) (hs : cfg.Sane) :
    (∀ last bytes r effs rest cfg', parseRecord crc cfg last bytes = .ok r effs rest cfg' →
        ∃ cfgV, validatePass crc cfg last bytes = .ok r rest cfgV ∧
          enactPass crc cfgV bytes = .ok effs rest cfg' ∧
          effs = effectsOf cfgV r.actions ∧ effs.map (·.action) = r.actions ∧
          cfg' = applyPass cfgV r.actions) ∧
    (∀ last bytes, (∀ r rest c, validatePass crc cfg last bytes ≠ .ok r rest c) →
        (∀ r effs rest c, parseRecord crc cfg last bytes ≠ .ok r effs rest c) ∧
        (parseRecord crc cfg last bytes = .endOfLog ∨
          ∃ why c, parseRecord crc cfg last bytes = .invalid why c)) ∧
    (∀ last bytes r rest cfgV, validatePass crc cfg last bytes = .ok r rest cfgV →
        enactPass crc cfgV bytes = .ok (effectsOf cfgV r.actions) rest (applyPass cfgV r.actions)) ∧
    (∀ (σ : Type) (step : σ → EAct → σ) (T : σ) (files : List Bytes),
        replayOpenWith step crc cfg T files = (replayOpen crc cfg files).effects.foldl step T ∧
        (replayOpen crc cfg files).effects.map (·.action) =
          (replayOpen crc cfg files).applied.flatMap (·.actions)) := by
  refine ⟨?_, ?_, ?_, ?_⟩
  · intro last bytes r effs rest cfg' h
    have hspec := parseRecord_eq_spec crc cfg last bytes hs
    rw [hspec] at h
    unfold parseRecordSpec at h
    cases hv : validatePass crc cfg last bytes with
    | ok r' rest' cfgV =>
      rw [hv] at h
      simp only [ParseResult.ok.injEq] at h
      obtain ⟨rfl, rfl, rfl, rfl⟩ := h
      exact ⟨cfgV, rfl, enactPass_of_validatePass hs hv, rfl, effectsOf_actions _ _, rfl⟩
    | endOfLog => rw [hv] at h; cases h
    | invalid why c => rw [hv] at h; cases h
    | panic => rw [hv] at h; cases h
    | outOfFuel => rw [hv] at h; cases h
  · intro last bytes hne
    have hp := validatePass_ne_panic crc cfg last bytes hs
    have hf := validatePass_fuel crc cfg last bytes
    cases hv : validatePass crc cfg last bytes with
    | ok r' rest' cfgV => exact absurd hv (hne r' rest' cfgV)
    | endOfLog => simp [parseRecord, hv]
    | invalid why c => simp [parseRecord, hv]
    | panic => exact absurd hv hp
    | outOfFuel => exact absurd hv hf
  · intro last bytes r rest cfgV hv
    exact enactPass_of_validatePass hs hv
  · intro σ step T files
    exact ⟨replaySorted_tables step crc cfg (initialLastEnacted files) T (orderFiles files) hs,
      replaySorted_effects_actions crc cfg (initialLastEnacted files) (orderFiles files) hs⟩

-- a record whose last action is cut off: nothing of it reaches the tables
example : replayOpenWith stepTablesE crcSum exCfg (fun _ => [])
      [(encodeRecord crcSum exRec).take 60] (0, 4, 7, 0) = [] := by decide +kernel
example : replayOpenWith stepTablesE crcSum exCfg (fun _ => [])
      [encodeRecord crcSum exRec] (0, 4, 7, 0) = [3, 0, 1, 2, 3] := by decide +kernel

/-! ## 6. prefix of the committed transactions, not older than the tables -/

/-- Abstract tables after `Db::open` (abstraction A-skip, see Pdb/Proofs/C13Tables.lean). -/
def recoveredOpen (crc : Bytes → Nat) (cfg : Cfg) (files : List Bytes) (T : Tables) : Tables :=
  replayOpenWith stepTablesE crc cfg T files

theorem recoveredOpen_eq (crc : Bytes → Nat) (cfg : Cfg) (files : List Bytes) (T : Tables)
    (hs : cfg.Sane) :
    recoveredOpen crc cfg files T = applyRecords (replayOpen crc cfg files).applied T := by
  unfold recoveredOpen replayOpenWith
  rw [replaySorted_tables stepTablesE crc cfg (initialLastEnacted files) T (orderFiles files) hs,
    foldl_stepTablesE,
    replaySorted_effects_actions crc cfg (initialLastEnacted files) (orderFiles files) hs]
  rfl

/-- The setting of the prefix statement.  `hist`: the committed records, numbered 1..n.  The
    tables hold the state after the first `a` of them; whatever replay accepts is a genuine
    committed record (assumption A-crc in the only form needed). -/
structure PrefixSetting (crc : Bytes → Nat) (cfg : Cfg) (hist : List Record) (a : Nat)
    (files : List Bytes) : Prop where
  sane : cfg.Sane
  ids : hist.map (·.id) = List.range' 1 hist.length
  a_le : a ≤ hist.length
  genuine : ∀ r ∈ (replayOpen crc cfg files).applied, r ∈ hist

/-- The recovered state is the state after the first `k` committed records, some `k ≥ a`. -/
def PrefixNotOlder (crc : Bytes → Nat) (cfg : Cfg) (hist : List Record) (a : Nat) (T0 : Tables)
    (files : List Bytes) : Prop :=
  ∃ k, a ≤ k ∧ k ≤ hist.length ∧
    recoveredOpen crc cfg files (stateAt hist a T0) = stateAt hist k T0

/-- The log files were written when records `f..n` were logged (`f ≤ a+1`: records `f..a` are
    already in the tables but their log is not yet reclaimed), all of them well formed. -/
def Unreclaimed (cfg : Cfg) (hist : List Record) (f a : Nat) : Prop :=
  1 ≤ f ∧ f ≤ a + 1 ∧ ValidChain cfg (f - 1) ((hist.take a).drop (f - 1))

/-- Extra hypothesis whose failure is finding F3c: the oldest SURVIVING log file (the head of
    the replay queue) is the oldest file that held unreclaimed records, i.e. its first header
    still carries `f`.  (It fails when that file is deleted, cut below 9 bytes, or its first
    record id is damaged: `Db::open` then starts at the first id of a later file.) -/
def OldestSurvives (f : Nat) (files : List Bytes) : Prop :=
  ∀ g, (orderFiles files).head? = some g → firstId g = some f

/-- Extra hypothesis whose failure is finding F3b: no damage at or before an applied but
    unreclaimed record: the ordered files still begin with the intact encodings of records
    `f..a`. -/
def AppliedIntact (crc : Bytes → Nat) (hist : List Record) (f a : Nat) (files : List Bytes) : Prop :=
  IntactPrefix crc ((hist.take a).drop (f - 1)) (orderFiles files)

/-- FULL-STRENGTH statement (FALSE: `C13_prefix_counterexample`): whatever bytes the log files
    contain now, `Db::open` recovers a prefix of the committed records not older than the
    tables. -/
def C13_prefix_not_older : Prop :=
  ∀ (crc : Bytes → Nat) (cfg : Cfg) (hist : List Record) (f a : Nat) (T0 : Tables)
    (files : List Bytes),
    PrefixSetting crc cfg hist a files → Unreclaimed cfg hist f a →
    PrefixNotOlder crc cfg hist a T0 files

/-- The statement with only the F3c hypothesis (FALSE: `C13_prefix_counterexample_F3b`). -/
def C13_prefix_given_oldest_survives : Prop :=
  ∀ (crc : Bytes → Nat) (cfg : Cfg) (hist : List Record) (f a : Nat) (T0 : Tables)
    (files : List Bytes),
    PrefixSetting crc cfg hist a files → Unreclaimed cfg hist f a → OldestSurvives f files →
    PrefixNotOlder crc cfg hist a T0 files

/-- The statement with only the F3b hypothesis (FALSE: `C13_prefix_counterexample_F3c`). -/
def C13_prefix_given_applied_intact : Prop :=
  ∀ (crc : Bytes → Nat) (cfg : Cfg) (hist : List Record) (f a : Nat) (T0 : Tables)
    (files : List Bytes),
    PrefixSetting crc cfg hist a files → Unreclaimed cfg hist f a →
    AppliedIntact crc hist f a files → PrefixNotOlder crc cfg hist a T0 files

/-- The prefix statement holds under exactly the two extra hypotheses. -/
theorem C13_prefix_not_older_partial (crc : Bytes → Nat) (cfg : Cfg) (hist : List Record)
    (f a : Nat) (T0 : Tables) (files : List Bytes)
    (hset : PrefixSetting crc cfg hist a files) (hun : Unreclaimed cfg hist f a)
    (hstart : OldestSurvives f files) (hintact : AppliedIntact crc hist f a files) :
    PrefixNotOlder crc cfg hist a T0 files := by
  obtain ⟨hs, hh, ha, hgen⟩ := hset
  obtain ⟨hf1, hfa, hwf⟩ := hun
  unfold PrefixNotOlder
  rw [recoveredOpen_eq crc cfg files _ hs]
  -- no surviving file: nothing is replayed
  cases hq : orderFilesKeyed files with
  | nil =>
    have hof : orderFiles files = [] := by simp [orderFiles, hq]
    have happ : (replayOpen crc cfg files).applied = [] := by
      simp [replayOpen, replay, hof, replaySorted, replaySortedWith, ReplayResult.applied]
    exact ⟨a, Nat.le_refl a, ha, by rw [happ]; rfl⟩
  | cons x l =>
    obtain ⟨k0, g⟩ := x
    have hkey := orderFilesKeyed_key (files := files) (k := k0) (g := g)
      (by rw [hq]; exact List.mem_cons_self)
    have hhead : (orderFiles files).head? = some g := by simp [orderFiles, hq]
    have hk0 : k0 = f := by
      have := hstart g hhead
      rw [hkey] at this
      exact Option.some.inj this
    have hinit : initialLastEnacted files = f - 1 := by simp [initialLastEnacted, hq, hk0]
    have hopen : replayOpen crc cfg files = replaySorted crc cfg (f - 1) (orderFiles files) := by
      show replay crc cfg (initialLastEnacted files) files = _
      rw [hinit]; rfl
    rw [hopen] at hgen ⊢
    obtain ⟨more, happ⟩ := intact_applied crc hintact cfg (f - 1) hs hwf
    have hids := (replaySorted_explains crc cfg (f - 1) (orderFiles files) hs).ids.1
    have hids' : (replaySorted crc cfg (f - 1) (orderFiles files)).applied.map (·.id) =
        List.range' (f - 1 + 1) (replaySorted crc cfg (f - 1) (orderFiles files)).applied.length :=
      hids
    obtain ⟨hseg, hle⟩ := genuine_segment hh hids' hgen
    have hn : a - (f - 1) ≤ (replaySorted crc cfg (f - 1) (orderFiles files)).applied.length := by
      have : ((hist.take a).drop (f - 1)).length = a - (f - 1) := by
        rw [List.length_drop, List.length_take]; omega
      rw [happ, List.length_append, this]; omega
    generalize hlen : (replaySorted crc cfg (f - 1) (orderFiles files)).applied.length = n
      at hseg hle hn
    refine ⟨f - 1 + n, by omega, ?_, ?_⟩
    · by_cases hne : (replaySorted crc cfg (f - 1) (orderFiles files)).applied = []
      · have hz : n = 0 := by rw [← hlen, hne]; rfl
        omega
      · exact hle hne
    · rw [hseg]
      exact redo_segment hist T0 (lo := f - 1) (a := a) (m := f - 1 + n) (by omega) (by omega)

-- the hypotheses are satisfiable: record 3 damaged while the tables hold records 1..2
example : ∃ (crc : Bytes → Nat) (cfg : Cfg) (hist : List Record) (f a : Nat) (files : List Bytes),
    PrefixSetting crc cfg hist a files ∧ Unreclaimed cfg hist f a ∧ OldestSurvives f files ∧
    AppliedIntact crc hist f a files ∧
    (replayOpen crc cfg files).applied = [exR1, exR2] := by
  have happ : (replayOpen crcSum exCfg [encodeRecord crcSum exR1 ++ encodeRecord crcSum exR2 ++
      (encodeRecord crcSum exR3).take 20]).applied = [exR1, exR2] := by decide +kernel
  have e : orderFiles [encodeRecord crcSum exR1 ++ encodeRecord crcSum exR2 ++
      (encodeRecord crcSum exR3).take 20] =
      [encodeRecords crcSum [exR1, exR2] ++ (encodeRecord crcSum exR3).take 20] := by
    decide +kernel
  refine ⟨crcSum, exCfg, exHist, 1, 2,
    [encodeRecord crcSum exR1 ++ encodeRecord crcSum exR2 ++ (encodeRecord crcSum exR3).take 20],
    ⟨by decide, by decide, by decide, ?_⟩, ⟨by decide, by decide, ?_⟩, ?_, ?_, happ⟩
  · rw [happ]; decide
  · show ValidChain exCfg 0 [exR1, exR2]
    refine ⟨by decide, by decide +kernel, by decide, by decide +kernel, trivial⟩
  · intro g hg
    rw [e] at hg
    cases hg
    decide +kernel
  · show IntactPrefix crcSum [exR1, exR2] _
    rw [e]
    exact IntactPrefix.cut _ _ _

/-- Finding F3b: history k1:=a; k1:=b; k2:=c, all three records already in the tables and
    still in the log (the oldest file survives: `OldestSurvives` holds); one byte of record 2
    is damaged.  Replay re-applies record 1 only: the tables end as {k1=a, k2=c}, which is
    neither the state after 3 records nor any other prefix state. -/
theorem C13_prefix_counterexample_F3b : ¬ C13_prefix_given_oldest_survives := by
  intro h
  have happ : (replayOpen crcSum exCfg [exDamagedLog]).applied = [exR1] := by decide +kernel
  obtain ⟨k, hk1, hk2, heq⟩ := h crcSum exCfg exHist 1 3 (fun _ => []) [exDamagedLog]
    ⟨by decide, by decide, by decide, by rw [happ]; decide⟩
    ⟨by decide, by decide, by
      show ValidChain exCfg 0 [exR1, exR2, exR3]
      exact ⟨by decide, by decide +kernel, by decide, by decide +kernel, by decide,
        by decide +kernel, trivial⟩⟩
    (by
      intro g hg
      have e : orderFiles [exDamagedLog] = [exDamagedLog] := by decide +kernel
      rw [e] at hg
      cases hg
      decide +kernel)
  have hk : k = 3 := by
    have : exHist.length = 3 := rfl
    omega
  subst hk
  rw [recoveredOpen_eq _ _ _ _ (by decide), happ] at heq
  have h1 := congrFun heq (0, 4, 1, 0)
  revert h1
  decide +kernel

/-- Finding F3c: history k1:=a; k2:=c, nothing applied yet (`a = 0`, so `AppliedIntact` holds
    trivially), two log files; the file holding record 1 is deleted (or cut below 9 bytes, or
    one bit of its first id flips).  `Db::open` takes its start from the surviving file
    (first id 2) and applies record 2 over tables that miss record 1: {k2=c} is no prefix
    state. -/
theorem C13_prefix_counterexample_F3c : ¬ C13_prefix_given_applied_intact := by
  intro h
  have happ : (replayOpen crcSum exCfg [encodeRecord crcSum ⟨2, exR3.actions⟩]).applied =
      [⟨2, exR3.actions⟩] := by decide +kernel
  obtain ⟨k, hk1, hk2, heq⟩ := h crcSum exCfg [exR1, ⟨2, exR3.actions⟩] 1 0 (fun _ => [])
    [encodeRecord crcSum ⟨2, exR3.actions⟩]
    ⟨by decide, by decide, by decide, by rw [happ]; decide⟩
    ⟨by decide, by decide, trivial⟩
    (IntactPrefix.nil _)
  rw [recoveredOpen_eq _ _ _ _ (by decide), happ] at heq
  have h1 := congrFun heq (0, 4, 1, 0)
  have h2 := congrFun heq (0, 4, 2, 0)
  have hk : k = 0 ∨ k = 1 ∨ k = 2 := by
    have : ([exR1, (⟨2, exR3.actions⟩ : Record)]).length = 2 := rfl
    omega
  rcases hk with rfl | rfl | rfl
  · revert h2; decide +kernel
  · revert h2; decide +kernel
  · revert h1; decide +kernel

/-- Negation witness for the full statement (either finding). -/
theorem C13_prefix_counterexample : ¬ C13_prefix_not_older := by
  intro h
  exact C13_prefix_counterexample_F3b (fun crc cfg hist f a T0 files hset hun _ =>
    h crc cfg hist f a T0 files hset hun)

-- the recovered state of the F3b witness is not the state after ANY number of committed records
example : ∀ k, k ≤ 3 →
    recoveredOpen crcSum exCfg [exDamagedLog] (stateAt exHist 3 (fun _ => [])) ≠
      stateAt exHist k (fun _ => []) := by
  have happ : (replayOpen crcSum exCfg [exDamagedLog]).applied = [exR1] := by decide +kernel
  intro k hk heq
  rw [recoveredOpen_eq _ _ _ _ (by decide), happ] at heq
  have h1 := congrFun heq (0, 4, 1, 0)
  have h2 := congrFun heq (0, 4, 2, 0)
  have : k = 0 ∨ k = 1 ∨ k = 2 ∨ k = 3 := by omega
  rcases this with rfl | rfl | rfl | rfl
  · revert h1; decide +kernel
  · revert h2; decide +kernel
  · revert h1; decide +kernel
  · revert h1; decide +kernel

#print axioms C13_open_start
#print axioms C13_parse_encode
#print axioms C13_total
#print axioms C13_value_write_inside_slot
#print axioms C13_fuel_adequate
#print axioms C13_only_valid_consecutive
#print axioms C13_file_order
#print axioms C13_nothing_after_first_invalid
#print axioms C13_whole_or_nothing
#print axioms C13_prefix_not_older_partial
#print axioms C13_prefix_counterexample_F3b
#print axioms C13_prefix_counterexample_F3c
#print axioms C13_prefix_counterexample

end Pdb.Wal
