/-
C13, panic audit part 2: the apply pass (`enactLoop` / `enactPass`: second reading of the same
bytes, in the configuration the validation pass left, with the panic sites E1 .. E10 of
Pdb/Model/Wal.lean) after a successful validation pass.

  * `enactPass_of_validatePass`: it does not panic, does not fail, does not run out of fuel,
    reads exactly the same actions and its effects are `effectsOf` / `applyPass` of the parsed
    actions; hence `parseRecord_eq_spec`: `parseRecord = parseRecordSpec` in a `Sane`
    configuration.
  * the invariant of the simultaneous induction (`enactLoop_of_validateLoop`) is the order
    `Cfg.Le` ("later configuration": same columns / kinds / ref-count presence, and every index
    table of the later configuration either existed before or has more bits than the earlier
    current table).  With `cfg` = where the current action is validated, `cfgV` = end of the
    validation pass, `cfgE` = where the apply pass is at the same action, `Later cfg cfgV cfgE`
    is `Cfg.Le cfg cfgV` (`validateLoop_steps` + `VSteps.le`) and `Cfg.Le cfgV cfgE`
    (`applyCfg_le`, the drops).  The too-old INSERT_INDEX (accepted without bound check,
    `skip_plan`) is the one place where the monotonicity is needed.
  * `enactLoop_fuel`, `enactLoop_rest_lt`: fuel adequacy, progress.
  * `growLoop_post`, `writeAt_ok_of_validated`: what site E10 (`TableFile::write_at`) needs and who
    provides it.
  * `EnactEx`: every panic site of the apply pass is live without its guard (V6 is unreachable by
    the structure of the match, V7 because `index_bits` is a `u8`); a record exercising the branches.
-/
import Pdb.Proofs.C13Sane
import Pdb.Proofs.C13Spec

namespace Pdb.Wal
open Pdb.Gen

/-! ### the order "later configuration" -/

/-- Column `b` is a later state of column `a` (after more validations and/or drops): same kind
    of column, and every index table `b` has is one `a` had already or has more bits than
    `a`'s current table. -/
structure ColLe (a b : ColCfg) : Prop where
  btree : b.btree = a.btree
  rc : b.rcBits.isSome = a.rcBits.isSome
  bits : a.indexBits ≤ b.indexBits
  has : ∀ x, HasIndex b x → HasIndex a x ∨ a.indexBits < x

theorem ColLe.refl (a : ColCfg) : ColLe a a :=
  ⟨rfl, rfl, Nat.le_refl _, fun _ h => Or.inl h⟩

theorem ColLe.trans {a b c : ColCfg} (h1 : ColLe a b) (h2 : ColLe b c) : ColLe a c :=
  ⟨h2.btree.trans h1.btree, h2.rc.trans h1.rc, Nat.le_trans h1.bits h2.bits, fun x hx => by
    rcases h2.has x hx with h | h
    · exact h1.has x h
    · exact Or.inr (Nat.lt_of_le_of_lt h1.bits h)⟩

/-- `Later`: configuration `b` is a later state of `a`. -/
structure Cfg.Le (a b : Cfg) : Prop where
  v4 : b.v4 = a.v4
  len : b.cols.length = a.cols.length
  col : ∀ (c : Nat) (ca cb : ColCfg), a.cols[c]? = some ca → b.cols[c]? = some cb → ColLe ca cb

theorem exists_getElem?_of_length {α : Type} {l1 l2 : List α} (h : l2.length = l1.length)
    {c : Nat} {a : α} (hc : l1[c]? = some a) : ∃ b, l2[c]? = some b := by
  have hl : c < l1.length := (List.getElem?_eq_some_iff.1 hc).1
  exact ⟨l2[c]'(h ▸ hl), List.getElem?_eq_getElem _⟩

theorem Cfg.Le.refl (a : Cfg) : Cfg.Le a a :=
  ⟨rfl, rfl, fun _ ca cb h1 h2 => by rw [h1] at h2; cases h2; exact ColLe.refl _⟩

theorem Cfg.Le.trans {a b c : Cfg} (h1 : Cfg.Le a b) (h2 : Cfg.Le b c) : Cfg.Le a c :=
  ⟨h2.v4.trans h1.v4, h2.len.trans h1.len, fun i ca cc ha hc => by
    obtain ⟨cb, hb⟩ := exists_getElem?_of_length h1.len ha
    exact (h1.col i ca cb ha hb).trans (h2.col i cb cc hb hc)⟩

theorem Cfg.Le.get {a b : Cfg} (h : Cfg.Le a b) {c : Nat} {ca : ColCfg}
    (ha : a.cols[c]? = some ca) : ∃ cb, b.cols[c]? = some cb ∧ ColLe ca cb := by
  obtain ⟨cb, hb⟩ := exists_getElem?_of_length h.len ha
  exact ⟨cb, hb, h.col c ca cb ha hb⟩

theorem Cfg.Le.setCol {a : Cfg} {c : Nat} {ca cb : ColCfg} (ha : a.cols[c]? = some ca)
    (h : ColLe ca cb) : Cfg.Le a (a.setCol c cb) := by
  refine ⟨rfl, by simp [Cfg.setCol], ?_⟩
  intro c' ca' cb' ha' hb'
  rw [getElem?_setCol] at hb'
  split at hb'
  · rename_i hcc; subst hcc
    rw [ha] at ha'; cases ha'
    split at hb'
    · cases hb'; exact h
    · cases hb'
  · rw [ha'] at hb'; cases hb'; exact ColLe.refl _

theorem reindexCol_le (cc : ColCfg) {tb : Nat} (h : cc.indexBits ≤ tb) :
    ColLe cc (reindexCol cc tb) := by
  refine ⟨rfl, rfl, h, ?_⟩
  intro x hx
  rcases hx with hx | hx
  · simp only [reindexCol] at hx
    rcases Nat.lt_or_ge cc.indexBits x with h' | h'
    · exact Or.inr h'
    · exact Or.inl (Or.inl (by omega))
  · simp only [reindexCol, List.mem_append, List.mem_map, List.mem_range'_1] at hx
    rcases hx with hx | ⟨b, hb, hbx⟩
    · exact Or.inl (Or.inr hx)
    · cases hbx
      rcases Nat.lt_or_ge cc.indexBits x with h' | h'
      · exact Or.inr h'
      · exact Or.inl (Or.inl (by omega))

theorem reindexRcCol_le (cc : ColCfg) {rb0 : Nat} (hrb : cc.rcBits = some rb0) (rb tb : Nat) :
    ColLe cc (reindexRcCol cc rb tb) := by
  refine ⟨rfl, by simp [reindexRcCol, hrb], Nat.le_refl _, ?_⟩
  intro x hx
  rcases hx with hx | hx
  · exact Or.inl (Or.inl hx)
  · simp only [reindexRcCol, List.mem_append, List.mem_map] at hx
    rcases hx with hx | ⟨b, _, hbx⟩
    · exact Or.inl (Or.inr hx)
    · cases hbx

theorem VStep.le {a b : Cfg} (h : VStep a b) : Cfg.Le a b := by
  cases h with
  | refl => exact Cfg.Le.refl _
  | reindex c cc tb hc hle _ => exact Cfg.Le.setCol hc (reindexCol_le cc hle)
  | reindexRc c cc rb tb hc hrb _ _ => exact Cfg.Le.setCol hc (reindexRcCol_le cc hrb rb tb)

theorem VSteps.le {a b : Cfg} (h : VSteps a b) : Cfg.Le a b := by
  induction h with
  | refl => exact Cfg.Le.refl _
  | head st _ ih => exact st.le.trans ih

theorem dropFront_le (cfg : Cfg) (t : Nat) (isIndex : Bool) :
    Cfg.Le cfg (dropFront cfg t isIndex) := by
  unfold dropFront
  simp only []
  split
  · exact Cfg.Le.refl _
  · rename_i cc hc
    split
    · exact Cfg.Le.refl _
    · split
      · apply Cfg.Le.setCol hc
        refine ⟨rfl, rfl, Nat.le_refl _, ?_⟩
        intro x hx
        rcases hx with hx | hx
        · exact Or.inl (Or.inl hx)
        · exact Or.inl (Or.inr (List.mem_of_mem_tail hx))
      · exact Cfg.Le.refl _

theorem applyCfg_le (cfg : Cfg) (a : Action) : Cfg.Le cfg (applyCfg cfg a) := by
  cases a <;> simp only [applyCfg]
  · exact Cfg.Le.refl _
  · exact Cfg.Le.refl _
  · exact Cfg.Le.refl _
  · exact dropFront_le _ _ _
  · exact dropFront_le _ _ _


/-! ### one action of the apply pass, after its validation -/

/-- Site E5 (index): `file_size(b)` does not overflow for `b ≤ MAX_INDEX_BITS`. -/
theorem index_file_size_ok {b : Nat} (hb : b ≤ maxIndexBits) :
    ¬ U64 ≤ 2 ^ b * (INDEX_CHUNK_ENTRIES * INDEX_ENTRY_BYTES) + INDEX_META_SIZE := by
  rw [maxIndexBits_eq] at hb
  have h : 2 ^ b ≤ 2 ^ 49 := Nat.pow_le_pow_right (by decide) hb
  simp only [U64, INDEX_CHUNK_ENTRIES, INDEX_ENTRY_BYTES, INDEX_META_SIZE]
  omega

/-- Site E5 (ref count). -/
theorem rc_file_size_ok {b : Nat} (hb : b ≤ maxIndexBits) :
    ¬ U64 ≤ 2 ^ b * (RC_CHUNK_ENTRIES * RC_ENTRY_BYTES) + RC_META_SIZE := by
  rw [maxIndexBits_eq] at hb
  have h : 2 ^ b ≤ 2 ^ 49 := Nat.pow_le_pow_right (by decide) hb
  simp only [U64, RC_CHUNK_ENTRIES, RC_ENTRY_BYTES, RC_META_SIZE]
  omega

theorem validateIndex_ok_sane {cfg cfg' : Cfg} {t chunk : Nat} {rd rd'' : Reader} {a : Action}
    (hs : cfg.Sane) (h : validateIndex cfg t chunk rd = .ok a rd'' cfg') : cfg'.Sane := by
  have := validateIndex_good hs t chunk rd
  rw [h] at this; exact VStep.sane this hs

theorem validateRefCount_ok_sane {cfg cfg' : Cfg} {t chunk : Nat} {rd rd'' : Reader} {a : Action}
    (hs : cfg.Sane) (h : validateRefCount cfg t chunk rd = .ok a rd'' cfg') : cfg'.Sane := by
  have := validateRefCount_good hs t chunk rd
  rw [h] at this; exact VStep.sane this hs

theorem validateValue_ok_sane {cfg cfg' : Cfg} {t index : Nat} {rd rd'' : Reader} {a : Action}
    (hs : cfg.Sane) (h : validateValue cfg t index rd = .ok a rd'' cfg') : cfg'.Sane := by
  have := validateValue_good cfg t index rd
  rw [h] at this; exact VStep.sane this hs

/-- INSERT_INDEX: sites E1, E3, E5, E6 are not reached, the same bytes are read, the effect is
    the one `effectsOf` computes. -/
theorem enactIndex_step {cfg cfgE cfg' : Cfg} {t chunk : Nat} {rd rd'' : Reader} {a : Action}
    (hs : cfg.Sane) (hle : Cfg.Le cfg cfgE) (hsE : cfgE.Sane)
    (h : validateIndex cfg t chunk rd = .ok a rd'' cfg') :
    enactIndex cfgE t chunk rd = .ok ⟨a, isEnacted cfgE a⟩ rd'' (applyCfg cfgE a) := by
  rcases validateIndex_spec hs t chunk rd with ⟨_, _, e⟩ |
    ⟨cfg'', mb, rd1, es, rd2, st, e, h1, h2, cc, hc, hbt, hx⟩
  · rw [e] at h; cases h
  · rw [e] at h; cases h
    obtain ⟨ccE, hcE, hcle⟩ := hle.get hc
    have hbtE : ¬ ccE.btree = true := by rw [hcle.btree, hbt]; simp
    unfold enactIndex
    simp only [hcE, isEnacted, applyCfg, Option.bind_some]
    rw [if_neg hbtE]
    cases hl : lookupIndex (TableId.col t) ccE t with
    | some b =>
      obtain ⟨rfl, hb⟩ := lookupIndex_bits (hsE.get hcE) hl
      have hin : chunkInRange (TableId.index_bits t) chunk = true := by
        rcases hx with hx | ⟨hlt, hnone⟩
        · exact hx
        · exfalso
          obtain ⟨hhas, hnew⟩ := lookupIndex_some hl
          rcases hcle.has _ hhas with h' | h'
          · exact lookupIndex_none hnone _ h' hnew
          · omega
      simp only [if_neg (index_file_size_ok hb), hin, h1, h2, Bool.not_true, Bool.false_eq_true,
        if_false, Option.isSome_some]
    | none =>
      simp only [h1, h2, Option.isSome_none]

/-- INSERT_REF_COUNT: sites E1, E3, E4, E5, E6, E7. -/
theorem enactRefCount_step {cfg cfgE cfg' : Cfg} {t chunk : Nat} {rd rd'' : Reader} {a : Action}
    (hs : cfg.Sane) (hle : Cfg.Le cfg cfgE) (hsE : cfgE.Sane)
    (h : validateRefCount cfg t chunk rd = .ok a rd'' cfg') :
    enactRefCount cfgE t chunk rd = .ok ⟨a, isEnacted cfgE a⟩ rd'' (applyCfg cfgE a) := by
  rcases validateRefCount_spec hs t chunk rd with ⟨_, _, e⟩ |
    ⟨cfg'', mb, rd1, es, rd2, st, e, h1, hm, h2, cc, rb, hc, hbt, hrb, hin⟩
  · rw [e] at h; cases h
  · rw [e] at h; cases h
    obtain ⟨ccE, hcE, hcle⟩ := hle.get hc
    have hbtE : ¬ ccE.btree = true := by rw [hcle.btree, hbt]; simp
    have hrcE : ∃ rbE, ccE.rcBits = some rbE := by
      have := hcle.rc; rw [hrb] at this
      exact Option.isSome_iff_exists.1 this
    obtain ⟨rbE, hrbE⟩ := hrcE
    unfold enactRefCount
    simp only [hcE, isEnacted, applyCfg, Option.bind_some, hrbE]
    rw [if_neg hbtE]
    cases hl : lookupRefCount (TableId.col t) rbE ccE.queue t with
    | some b =>
      obtain ⟨rfl, hb⟩ := lookupRefCount_bits (hsE.get hcE) hrbE hl
      simp only [if_neg (rc_file_size_ok hb), hin, h1, h2, hm, Bool.not_true, Bool.false_eq_true,
        if_false, Option.isSome_some, ne_eq, not_true_eq_false]
    | none =>
      simp only [h1, h2, Option.isSome_none]

/-- INSERT_VALUE: sites E1, V1, E8, E10. -/
theorem enactValue_step {cfg cfgE cfg' : Cfg} {t index : Nat} {rd rd'' : Reader} {a : Action}
    (hle : Cfg.Le cfg cfgE) (h : validateValue cfg t index rd = .ok a rd'' cfg') :
    enactValue cfgE t index rd = .ok ⟨a, isEnacted cfgE a⟩ rd'' (applyCfg cfgE a) := by
  rcases validateValue_spec cfg t index rd with e | ⟨n, p, rd', e, hc, hv, hr⟩
  · rw [e] at h; cases h
  · rw [e] at h; cases h
    obtain ⟨cc, hc⟩ := Option.isSome_iff_exists.1 hc
    obtain ⟨ccE, hcE, _⟩ := hle.get hc
    unfold enactValue
    simp only [hcE, isEnacted, applyCfg]
    rw [if_neg (Nat.not_le.2 (sizeTier_lt t)), hle.v4, enactValueLen_of_valueLen hv]
    simp only [hr]
    -- site E10: the validated length fits the slot
    rw [if_neg (Nat.not_lt.2 (valueLen_le_entrySize hv))]

/-- Site E10, the part the loop `while index >= capacity { grow }` (table.rs:1056) establishes:
    when it ends the file is mapped and slot `index` lies inside it. -/
theorem growLoop_post {es index : Nat} (hes : 0 < es) : ∀ (fuel : Nat) (f f' : VFile),
    growLoop es index fuel f = some f' → f'.mapped = true ∧ (index + 1) * es ≤ f'.len := by
  intro fuel
  induction fuel with
  | zero => intro f f' h; cases h
  | succ fuel ih =>
    intro f f' h
    unfold growLoop at h
    split at h
    · exact ih _ _ h
    · rename_i hc
      cases h
      unfold VFile.capacity at hc
      split at hc
      · rename_i hm
        refine ⟨hm, ?_⟩
        have : index + 1 ≤ f.len / es := by omega
        exact (Nat.le_div_iff_mul_le hes).1 this
      · omega

/-- Site E10 as a whole: after a successful validation of the same bytes, the `write_at` of
    `ValueTable::enact_plan` meets its precondition in whatever state the table file was
    (`f`), provided the growth loop ends.  `VFile.writeOk` needs `n ≤ entry_size`, which nothing
    in `enact_plan` checks: it is `valueLen_le_entrySize`, i.e. table.rs:1108 of the validation
    pass. -/
theorem writeAt_ok_of_validated {v4 : Bool} {tier index n fuel : Nat} {payload : Bytes} {f f' : VFile}
    (hv : valueLen v4 tier index payload = .ok n)
    (hg : growLoop (entrySize tier) index fuel f = some f') :
    f'.writeOk (entrySize tier) index n := by
  have hes : 0 < entrySize tier := by
    have := (entrySize_min tier).1
    simp only [INDEX_SIZE] at this
    omega
  obtain ⟨h1, h2⟩ := growLoop_post hes fuel f f' hg
  exact ⟨h1, valueLen_le_entrySize hv, h2⟩

/-- ... and conversely the `.panic` branch E10 of `enactValue` is taken exactly when that
    precondition fails for EVERY file state: a length above the entry size fits no slot. -/
theorem not_writeOk_of_too_long {es index n : Nat} (h : es < n) (f : VFile) :
    ¬ f.writeOk es index n := fun hw => by have := hw.2.1; omega

/-- DROP_TABLE / DROP_REF_COUNT_TABLE: site E2. -/
theorem enactDrop_step {cfg cfgE : Cfg} {t : Nat} (isIndex : Bool) (rd : Reader)
    (hle : Cfg.Le cfg cfgE) (h : colExists cfg t = true) :
    enactDrop cfgE t isIndex rd =
      .ok ⟨if isIndex then .dropTable t else .dropRefCountTable t, dropsTable cfgE t isIndex⟩ rd
        (dropFront cfgE t isIndex) := by
  obtain ⟨cc, hc⟩ := Option.isSome_iff_exists.1 h
  obtain ⟨ccE, hcE, _⟩ := hle.get hc
  unfold enactDrop
  simp only [hcE]


/-! ### the apply loop after the validation loop -/

/-- bookkeeping of one loop iteration: the new action goes to the front of `news` -/
theorem loop_finish {acc actions news' : List Action} {a : Action} {eacc : List EAct}
    {cfgE : Cfg} {X : EPass} {rest : Bytes}
    (h1 : actions = (acc ++ [a]) ++ news')
    (h2 : X = .ok ((eacc ++ [⟨a, isEnacted cfgE a⟩]) ++ effectsOf (applyCfg cfgE a) news') rest
      (applyPass (applyCfg cfgE a) news')) :
    ∃ news, actions = acc ++ news ∧
      X = .ok (eacc ++ effectsOf cfgE news) rest (applyPass cfgE news) := by
  refine ⟨a :: news', ?_, ?_⟩
  · rw [h1, List.append_assoc]; rfl
  · rw [h2, List.append_assoc]; rfl

/-- Main induction.  `cfg`: the configuration in which the validation loop is about to
    validate the current action; `cfgV`: where the validation pass ends; `cfgE`: the
    configuration the apply pass has reached at the same action (`Later`: `cfg ≤ cfgV ≤ cfgE`,
    the first by `validateLoop_steps`). -/
theorem enactLoop_of_validateLoop (crc : Bytes → Nat) : ∀ (fuel : Nat) (cfg : Cfg) (rd : Reader)
    (acc actions : List Action) (rest : Bytes) (cfgV : Cfg),
    validateLoop crc fuel cfg rd acc = .ok actions rest cfgV → cfg.Sane →
    ∀ (cfgE : Cfg) (eacc : List EAct), Cfg.Le cfgV cfgE → cfgE.Sane →
      ∃ news, actions = acc ++ news ∧
        enactLoop crc fuel cfgE rd eacc =
          .ok (eacc ++ effectsOf cfgE news) rest (applyPass cfgE news) := by
  intro fuel
  induction fuel with
  | zero => intro cfg rd acc actions rest cfgV h; simp only [validateLoop] at h; cases h
  | succ fuel ih =>
    intro cfg rd acc actions rest cfgV h hs cfgE eacc hle hsE
    have hcE : Cfg.Le cfg cfgE := (validateLoop_steps hs h).le.trans hle
    unfold validateLoop at h
    unfold enactLoop
    generalize hn : next crc rd = nx at h ⊢
    cases nx with
    | ioErr => cases h
    | badOpcode => cases h
    | crcMismatch => cases h
    | begin id rd' => cases h
    | endRecord rd' =>
      simp only [LoopResult.ok.injEq] at h
      obtain ⟨rfl, rfl, rfl⟩ := h
      exact ⟨[], by simp, by simp [effectsOf, applyPass]⟩
    | insertIndex t i rd' =>
      simp only [] at h ⊢
      split at h
      · rename_i a rd'' cfg' e
        rw [enactIndex_step hs hcE hsE e]
        obtain ⟨news', h1, h2⟩ := ih cfg' rd'' (acc ++ [a]) actions rest cfgV h
          (validateIndex_ok_sane hs e) (applyCfg cfgE a) (eacc ++ [⟨a, isEnacted cfgE a⟩])
          (hle.trans (applyCfg_le cfgE a)) (applyCfg_sane hsE a)
        exact loop_finish h1 h2
      · cases h
      · cases h
    | insertValue t i rd' =>
      simp only [] at h ⊢
      split at h
      · rename_i a rd'' cfg' e
        rw [enactValue_step hcE e]
        obtain ⟨news', h1, h2⟩ := ih cfg' rd'' (acc ++ [a]) actions rest cfgV h
          (validateValue_ok_sane hs e) (applyCfg cfgE a) (eacc ++ [⟨a, isEnacted cfgE a⟩])
          (hle.trans (applyCfg_le cfgE a)) (applyCfg_sane hsE a)
        exact loop_finish h1 h2
      · cases h
      · cases h
    | insertRefCount t i rd' =>
      simp only [] at h ⊢
      split at h
      · rename_i a rd'' cfg' e
        rw [enactRefCount_step hs hcE hsE e]
        obtain ⟨news', h1, h2⟩ := ih cfg' rd'' (acc ++ [a]) actions rest cfgV h
          (validateRefCount_ok_sane hs e) (applyCfg cfgE a) (eacc ++ [⟨a, isEnacted cfgE a⟩])
          (hle.trans (applyCfg_le cfgE a)) (applyCfg_sane hsE a)
        exact loop_finish h1 h2
      · cases h
      · cases h
    | dropTable t rd' =>
      simp only [] at h ⊢
      split at h
      · rename_i e
        rw [enactDrop_step true rd' hcE e]
        obtain ⟨news', h1, h2⟩ := ih cfg rd' (acc ++ [.dropTable t]) actions rest cfgV h
          hs (applyCfg cfgE (.dropTable t))
          (eacc ++ [⟨.dropTable t, isEnacted cfgE (.dropTable t)⟩])
          (hle.trans (applyCfg_le cfgE _)) (applyCfg_sane hsE _)
        exact loop_finish h1 h2
      · cases h
    | dropRefCountTable t rd' =>
      simp only [] at h ⊢
      split at h
      · rename_i e
        rw [enactDrop_step false rd' hcE e]
        obtain ⟨news', h1, h2⟩ := ih cfg rd' (acc ++ [.dropRefCountTable t]) actions rest cfgV h
          hs (applyCfg cfgE (.dropRefCountTable t))
          (eacc ++ [⟨.dropRefCountTable t, isEnacted cfgE (.dropRefCountTable t)⟩])
          (hle.trans (applyCfg_le cfgE _)) (applyCfg_sane hsE _)
        exact loop_finish h1 h2
      · cases h

theorem enactPass_of_validatePass {crc : Bytes → Nat} {cfg cfgV : Cfg} {last : Nat}
    {bytes rest : Bytes} {r : Record}
    (hs : cfg.Sane) (h : validatePass crc cfg last bytes = .ok r rest cfgV) :
    enactPass crc cfgV bytes = .ok (effectsOf cfgV r.actions) rest (applyPass cfgV r.actions) := by
  obtain ⟨rd, hn, _, _, hl⟩ := validatePass_ok_inv h
  obtain ⟨news, h1, h2⟩ := enactLoop_of_validateLoop crc _ _ _ _ _ _ _ hl hs cfgV []
    (Cfg.Le.refl _) (validateLoop_sane_ok hs hl)
  unfold enactPass
  rw [hn]
  simp only [Next.reader?]
  rw [h2, h1]
  simp

theorem parseRecord_eq_spec (crc : Bytes → Nat) (cfg : Cfg) (last : Nat) (bytes : Bytes)
    (hs : cfg.Sane) : parseRecord crc cfg last bytes = parseRecordSpec crc cfg last bytes := by
  unfold parseRecord parseRecordSpec
  cases hv : validatePass crc cfg last bytes with
  | ok r rest cfgV =>
    simp only []
    rw [enactPass_of_validatePass hs hv]
    simp only []
    obtain ⟨rd, hn, _, hne, _⟩ := validatePass_ok_inv hv
    have hlt : r.id < U64 := (next_inv_begin hn).1
    have : r.id + 1 < U64 := by omega
    rw [if_pos this]
  | endOfLog => rfl
  | invalid why cfg' => rfl
  | panic => rfl
  | outOfFuel => rfl


/-! ### fuel adequacy of the apply loop -/

theorem read_rest_le {n : Nat} {rd rd' : Reader} {x : Bytes} (h : rd.read n = some (x, rd')) :
    rd'.rest.length ≤ rd.rest.length := by
  obtain ⟨_, hr, _⟩ := read_some h
  rw [hr, List.length_append]; omega

/-- An applied action does not give bytes back.  (Deliberately no `match` on the result here:
    unifying a matcher applied to `if U64 ≤ ..` makes `whnf` evaluate the comparison.) -/
def ERes.Shrinks (rd : Reader) (r : ERes) : Prop :=
  ∀ e rd' cfg', r = .ok e rd' cfg' → rd'.rest.length ≤ rd.rest.length

theorem enactIndex_shrinks (cfg : Cfg) (t chunk : Nat) (rd : Reader) :
    (enactIndex cfg t chunk rd).Shrinks rd := by
  intro e rd' cfg' he
  unfold enactIndex at he
  simp only [] at he
  repeat' (split at he)
  all_goals first
    | (cases he; done)
    | (cases he
       exact Nat.le_trans (read_rest_le (by assumption)) (read_rest_le (rd := rd) (by assumption)))

theorem enactRefCount_shrinks (cfg : Cfg) (t chunk : Nat) (rd : Reader) :
    (enactRefCount cfg t chunk rd).Shrinks rd := by
  intro e rd' cfg' he
  unfold enactRefCount at he
  simp only [] at he
  repeat' (split at he)
  all_goals first
    | (cases he; done)
    | (cases he
       exact Nat.le_trans (read_rest_le (by assumption)) (read_rest_le (rd := rd) (by assumption)))

theorem enactValue_shrinks (cfg : Cfg) (t index : Nat) (rd : Reader) :
    (enactValue cfg t index rd).Shrinks rd := by
  intro e rd' cfg' he
  unfold enactValue at he
  repeat' (split at he)
  all_goals first
    | (cases he; done)
    | (cases he; exact read_rest_le (by assumption))

theorem enactDrop_shrinks (cfg : Cfg) (t : Nat) (isIndex : Bool) (rd : Reader) :
    (enactDrop cfg t isIndex rd).Shrinks rd := by
  intro e rd' cfg' he
  unfold enactDrop at he
  split at he
  · cases he
  · cases he; exact Nat.le_refl _

/-- Every iteration consumes at least the opcode byte: `rd.rest.length + 1` units of fuel
    suffice. -/
theorem enactLoop_fuel (crc : Bytes → Nat) : ∀ (fuel : Nat) (cfg : Cfg) (rd : Reader)
    (acc : List EAct), rd.rest.length < fuel → enactLoop crc fuel cfg rd acc ≠ .outOfFuel := by
  intro fuel
  induction fuel with
  | zero => intro _ _ _ h; exact absurd h (Nat.not_lt_zero _)
  | succ fuel ih =>
    intro cfg rd acc hlt
    unfold enactLoop
    generalize hn : next crc rd = nx
    cases nx with
    | ioErr => intro h; cases h
    | badOpcode => intro h; cases h
    | crcMismatch => intro h; cases h
    | begin id rd' => intro h; cases h
    | endRecord rd' => intro h; cases h
    | insertIndex t i rd' =>
      simp only []
      have hr := congrArg List.length (next_inv_insertIndex hn).2.2.1
      simp only [List.length_append, length_leBytes] at hr
      have hsh := enactIndex_shrinks cfg t i rd'
      split
      · rename_i e rd'' cfg' he
        have : rd''.rest.length ≤ rd'.rest.length := hsh _ _ _ he
        exact ih _ _ _ (by omega)
      · intro h; cases h
      · intro h; cases h
    | insertValue t i rd' =>
      simp only []
      have hr := congrArg List.length (next_inv_insertValue hn).2.2.1
      simp only [List.length_append, length_leBytes] at hr
      have hsh := enactValue_shrinks cfg t i rd'
      split
      · rename_i e rd'' cfg' he
        have : rd''.rest.length ≤ rd'.rest.length := hsh _ _ _ he
        exact ih _ _ _ (by omega)
      · intro h; cases h
      · intro h; cases h
    | insertRefCount t i rd' =>
      simp only []
      have hr := congrArg List.length (next_inv_insertRefCount hn).2.2.1
      simp only [List.length_append, length_leBytes] at hr
      have hsh := enactRefCount_shrinks cfg t i rd'
      split
      · rename_i e rd'' cfg' he
        have : rd''.rest.length ≤ rd'.rest.length := hsh _ _ _ he
        exact ih _ _ _ (by omega)
      · intro h; cases h
      · intro h; cases h
    | dropTable t rd' =>
      simp only []
      have hr := congrArg List.length (next_inv_dropTable hn).2.1
      simp only [List.length_append, length_leBytes] at hr
      have hsh := enactDrop_shrinks cfg t true rd'
      split
      · rename_i e rd'' cfg' he
        have : rd''.rest.length ≤ rd'.rest.length := hsh _ _ _ he
        exact ih _ _ _ (by omega)
      · intro h; cases h
      · intro h; cases h
    | dropRefCountTable t rd' =>
      simp only []
      have hr := congrArg List.length (next_inv_dropRefCountTable hn).2.1
      simp only [List.length_append, length_leBytes] at hr
      have hsh := enactDrop_shrinks cfg t false rd'
      split
      · rename_i e rd'' cfg' he
        have : rd''.rest.length ≤ rd'.rest.length := hsh _ _ _ he
        exact ih _ _ _ (by omega)
      · intro h; cases h
      · intro h; cases h


/-- An accepted apply loop has consumed at least the `END_RECORD` opcode and the 4 CRC bytes. -/
theorem enactLoop_rest_lt (crc : Bytes → Nat) : ∀ (fuel : Nat) (cfg cfg' : Cfg) (rd : Reader)
    (acc effs : List EAct) (rest : Bytes),
    enactLoop crc fuel cfg rd acc = .ok effs rest cfg' → rest.length + 5 ≤ rd.rest.length := by
  intro fuel
  induction fuel with
  | zero => intro cfg cfg' rd acc effs rest h; simp only [enactLoop] at h; cases h
  | succ fuel ih =>
    intro cfg cfg' rd acc effs rest h
    unfold enactLoop at h
    generalize hn : next crc rd = nx at h
    cases nx with
    | ioErr => cases h
    | badOpcode => cases h
    | crcMismatch => cases h
    | begin id rd' => cases h
    | endRecord rd' =>
      simp only [EPass.ok.injEq] at h
      obtain ⟨_, rfl, _⟩ := h
      have hr := congrArg List.length (next_inv_end hn)
      simp only [List.length_append, length_leBytes] at hr
      omega
    | insertIndex t i rd' =>
      simp only [] at h
      have hr := congrArg List.length (next_inv_insertIndex hn).2.2.1
      simp only [List.length_append, length_leBytes] at hr
      split at h
      · rename_i e rd'' cfg'' he
        have := enactIndex_shrinks cfg t i rd' _ _ _ he
        have := ih _ _ _ _ _ _ h
        omega
      · cases h
      · cases h
    | insertValue t i rd' =>
      simp only [] at h
      have hr := congrArg List.length (next_inv_insertValue hn).2.2.1
      simp only [List.length_append, length_leBytes] at hr
      split at h
      · rename_i e rd'' cfg'' he
        have := enactValue_shrinks cfg t i rd' _ _ _ he
        have := ih _ _ _ _ _ _ h
        omega
      · cases h
      · cases h
    | insertRefCount t i rd' =>
      simp only [] at h
      have hr := congrArg List.length (next_inv_insertRefCount hn).2.2.1
      simp only [List.length_append, length_leBytes] at hr
      split at h
      · rename_i e rd'' cfg'' he
        have := enactRefCount_shrinks cfg t i rd' _ _ _ he
        have := ih _ _ _ _ _ _ h
        omega
      · cases h
      · cases h
    | dropTable t rd' =>
      simp only [] at h
      have hr := congrArg List.length (next_inv_dropTable hn).2.1
      simp only [List.length_append, length_leBytes] at hr
      split at h
      · rename_i e rd'' cfg'' he
        have := enactDrop_shrinks cfg t true rd' _ _ _ he
        have := ih _ _ _ _ _ _ h
        omega
      · cases h
      · cases h
    | dropRefCountTable t rd' =>
      simp only [] at h
      have hr := congrArg List.length (next_inv_dropRefCountTable hn).2.1
      simp only [List.length_append, length_leBytes] at hr
      split at h
      · rename_i e rd'' cfg'' he
        have := enactDrop_shrinks cfg t false rd' _ _ _ he
        have := ih _ _ _ _ _ _ h
        omega
      · cases h
      · cases h


/-! ### non-vacuity: every panic site is live when its guard (or `Sane`) is missing, and the
    hypotheses of the main theorem are satisfiable by a record that exercises the interesting
    branches -/

namespace EnactEx

/-- column 0: hash column, index table 16 bits, ref-count table 16 bits; column 1: btree. -/
def cfg0 : Cfg := ⟨false, [⟨false, 16, some 16, []⟩, ⟨true, 0, none, []⟩]⟩
/-- a hash column without ref-count table -/
def cfgNoRc : Cfg := ⟨false, [⟨false, 16, none, []⟩]⟩
/-- table files with too many index bits found at open: not `Sane` -/
def cfgInsane : Cfg := ⟨false, [⟨false, 55, some 64, []⟩]⟩

example : cfg0.Sane ∧ cfgNoRc.Sane ∧ ¬ cfgInsane.Sane := by decide
example : TableId.new 0 16 = 16 ∧ TableId.new 1 0 = 256 ∧ TableId.col 528 = 2 := by decide

/-- E7: mask bit 32 set; the validator rejects exactly this (`.err`). -/
example : enactRefCount cfg0 16 0 ⟨[], leBytes 8 (2 ^ 32)⟩ = .panic ∧
    validateRefCount cfg0 16 0 ⟨[], leBytes 8 (2 ^ 32)⟩ = .err cfg0 := by decide +kernel
/-- E6: chunk number `= total_chunks`. -/
example : enactIndex cfg0 16 (2 ^ 16) ⟨[], leBytes 8 0⟩ = .panic ∧
    validateIndex cfg0 16 (2 ^ 16) ⟨[], leBytes 8 0⟩ = .err cfg0 := by decide +kernel
example : enactRefCount cfg0 16 (2 ^ 16) ⟨[], leBytes 8 0⟩ = .panic ∧
    validateRefCount cfg0 16 (2 ^ 16) ⟨[], leBytes 8 0⟩ = .err cfg0 := by decide +kernel
/-- E8: size field 0x7fff, `SIZE_SIZE + len = 32769 > MAX_ENTRY_BUF_SIZE`. -/
example : enactValueLen false 0 1 [0xff, 0x7f] = .panic ∧ valueLen false 0 1 [0xff, 0x7f] = .err := by
  decide +kernel
example : enactValue cfg0 0 1 ⟨[], [0xff, 0x7f]⟩ = .panic ∧
    validateValue cfg0 0 1 ⟨[], [0xff, 0x7f]⟩ = .err cfg0 := by decide +kernel
/-- E10: table 0 has 32-byte entries; a size field of 100 passes E8 (102 <= MAX_ENTRY_BUF_SIZE) but
    the 102 bytes written at `index * 32` run over the three following slots.  The validator
    rejects exactly this ("Bad entry size"); with 30 it is accepted and enacted. -/
example : entrySize 0 = 32 ∧ enactValueLen false 0 1 [100, 0] = .ok 102 ∧
    enactValue cfg0 0 1 ⟨[], [100, 0] ++ List.replicate 100 7⟩ = .panic ∧
    validateValue cfg0 0 1 ⟨[], [100, 0] ++ List.replicate 100 7⟩ = .err cfg0 ∧
    enactValue cfg0 0 1 ⟨[], [30, 0] ++ List.replicate 30 7⟩ =
      .ok ⟨.insertValue 0 1 ([30, 0] ++ List.replicate 30 7), true⟩ ⟨[30, 0] ++ List.replicate 30 7, []⟩ cfg0 := by
  decide +kernel
/-- E10, the growth loop: a table without file (`map = None`), slot 9000 of 32-byte entries: two
    `grow` calls (2 * 256 KiB / 32 = 16384 slots), then mapped and the slot is inside the file. -/
example : growLoop 32 9000 5 ⟨false, 0⟩ = some ⟨true, 2 * GROW_SIZE_BYTES⟩ ∧
    (⟨true, 2 * GROW_SIZE_BYTES⟩ : VFile).capacity 32 = 16384 ∧
    growLoop 32 9000 5 ⟨true, 40⟩ = some ⟨true, 40 + 2 * GROW_SIZE_BYTES⟩ := by decide +kernel
/-- E1, E2: column 2 does not exist. -/
example : enactDrop cfg0 528 true ⟨[], []⟩ = .panic ∧ enactDrop cfg0 528 false ⟨[], []⟩ = .panic ∧
    colExists cfg0 528 = false := by decide +kernel
example : enactIndex cfg0 528 0 ⟨[], leBytes 8 0⟩ = .panic ∧
    enactRefCount cfg0 528 0 ⟨[], leBytes 8 0⟩ = .panic ∧
    enactValue cfg0 528 0 ⟨[], leBytes 16 0⟩ = .panic := by decide +kernel
/-- E3: INSERT_INDEX / INSERT_REF_COUNT for a btree column. -/
example : enactIndex cfg0 256 0 ⟨[], leBytes 8 0⟩ = .panic ∧
    enactRefCount cfg0 256 0 ⟨[], leBytes 8 0⟩ = .panic ∧
    validateIndex cfg0 256 0 ⟨[], leBytes 8 0⟩ = .err cfg0 := by decide +kernel
/-- E4: INSERT_REF_COUNT for a column without ref-count table. -/
example : enactRefCount cfgNoRc 16 0 ⟨[], leBytes 8 0⟩ = .panic ∧
    validateRefCount cfgNoRc 16 0 ⟨[], leBytes 8 0⟩ = .err cfgNoRc := by decide +kernel
/-- V4: `1u64 << 64`. -/
example : boundChk cfg0 64 0 = .panic := by decide +kernel
/-- V4, E5 without `Sane`: a 64-bit ref-count table / a 55-bit index table found at open. -/
example : checkRefCount cfgInsane 64 0 = .panic ∧
    enactIndex cfgInsane 55 0 ⟨[], leBytes 8 0⟩ = .panic := by decide +kernel

def crc0 : Bytes → Nat := fun _ => 0

/-- reindex to 18 bits during validation; drop of table 16; an insert into table 16 that was
    validated against the queued table and is skipped by the apply pass; a ref-count reindex;
    a value; a too-old index insert with a chunk number out of range (accepted unchecked,
    skipped); a drop that does not match the queue front. -/
def rec1 : Record :=
  ⟨2, [.insertIndex 18 5 3 (leBytes 16 7), .dropTable 16, .insertIndex 16 0 1 (leBytes 8 9),
    .insertRefCount 17 1 1 (leBytes 16 1), .insertValue 3 1 ([5, 0] ++ leBytes 5 77),
    .insertIndex 15 70000 0 [], .dropRefCountTable 16]⟩

def cfgV1 : Cfg :=
  ⟨false, [⟨false, 18, some 17, [.index 16, .index 17, .refCount 16]⟩, ⟨true, 0, none, []⟩]⟩

example : cfg0.Sane ∧
    validatePass crc0 cfg0 1 (encodeRecord crc0 rec1 ++ [1, 2, 3]) = .ok rec1 [1, 2, 3] cfgV1 := by
  decide +kernel

example : (effectsOf cfgV1 rec1.actions).map (·.enacted) =
      [true, true, false, true, true, false, false] ∧
    applyPass cfgV1 rec1.actions =
      ⟨false, [⟨false, 18, some 17, [.index 17, .refCount 16]⟩, ⟨true, 0, none, []⟩]⟩ := by
  decide +kernel

example : parseRecord crc0 cfg0 1 (encodeRecord crc0 rec1 ++ [1, 2, 3]) =
    .ok rec1 (effectsOf cfgV1 rec1.actions) [1, 2, 3] (applyPass cfgV1 rec1.actions) := by
  decide +kernel

/-- E9: the id `u64::MAX` is rejected by the sequence check. -/
example : parseRecord crc0 cfg0 (U64 - 2) (encodeRecord crc0 ⟨U64 - 1, []⟩) =
    .invalid .sequence cfg0 := by decide +kernel

end EnactEx

end Pdb.Wal

#print axioms Pdb.Wal.growLoop_post
#print axioms Pdb.Wal.writeAt_ok_of_validated
#print axioms Pdb.Wal.enactLoop_of_validateLoop
#print axioms Pdb.Wal.enactPass_of_validatePass
#print axioms Pdb.Wal.parseRecord_eq_spec
#print axioms Pdb.Wal.enactLoop_fuel
#print axioms Pdb.Wal.enactLoop_rest_lt
