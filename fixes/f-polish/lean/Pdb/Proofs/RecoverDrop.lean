/-
The CLEAN drop on the log FILES (Model/Recover.lean, `dropSeq`) followed by the real recovery
algorithm of `Db::open`.

`rreopen` (Model/Recover.lean) sets the P1 component to `cleanReopen kind w.st` (every queued
commit processed, every record enacted: `drain`).  The file side of the same drop, `dropSeq`,
enacts only ONE file per `renactFile` (three in all): whenever more than three un-enacted files
exist (the one receiving the queued commits included), records stay un-enacted in closed log files, and the tables on disk are NOT `cleanReopen`'s tables.
What closes the gap is the next `Db::open`: it replays the files left.  Here:

  * `dropSeq_st`: the P1 component of `dropSeq kind w` is `drainWith kind n1 n2 n3 w.st`, the
    stage steps of `drain` with the three enacting loops cut after `n1`, `n2`, `n3` records;
  * `drainWith_inv`: P1's invariant survives, the queue is empty, the history is untouched;
  * `dropSeq_openTail`: no file is left open for appending (nothing unsynced);
  * `RInv.dropSeq_files`: the crash image of the dropped state with every record surviving is
    exactly its file list;
  * `RInv.clean_drop_real`: real recovery on the tables and the files a clean drop leaves, in
    any directory order, yields the specification of the WHOLE committed history.
-/
import Pdb.Proofs.RecoverInv

set_option linter.unusedSectionVars false
namespace Pdb
variable {K V : Type} [DecidableEq K]

/-! ### the P1 component of the file-level stage steps -/

theorem renact_st (w : RSt K V) : (renact w).st = enactOne w.st := by
  unfold renact
  by_cases hfire : 0 < w.st.flushed ∧ 0 < w.st.logged.length
  · simp only [hfire, and_self, if_true]
  · simp only [hfire, if_false]; exact (enactOne_idle w.st hfire).symm

theorem rprocess_st (kind : K → Kind) (w : RSt K V) : (rprocess kind w).st = process kind w.st :=
  rstep_st kind w (.act .process)

theorem rflush_st (w : RSt K V) : (rflush w).st = flush w.st := rfl

theorem iter_renact_st (n : Nat) (w : RSt K V) : (iter renact n w).st = enactAll n w.st := by
  induction n generalizing w with
  | zero => rfl
  | succ n ih =>
    show (iter renact n (renact w)).st = enactAll n (enactOne w.st)
    rw [ih, renact_st]

theorem iter_rprocess_st (kind : K → Kind) (n : Nat) (w : RSt K V) :
    (iter (rprocess kind) n w).st = processAll kind n w.st := by
  induction n generalizing w with
  | zero => rfl
  | succ n ih =>
    show (iter (rprocess kind) n (rprocess kind w)).st = processAll kind n (process kind w.st)
    rw [ih, rprocess_st]

/-- `drain` with the three enacting loops cut after `n1`, `n2`, `n3` records. -/
def drainWith (kind : K → Kind) (n1 n2 n3 : Nat) (s : St K V) : St K V :=
  enactAll n3 (flush (enactAll n2
    (processAll kind (flush (enactAll n1 s)).queue.length (flush (enactAll n1 s)))))

/-- The P1 component of the file-level drop sequence: the stage steps of `drain`, each enacting
    loop stopping at the end of the file being read. -/
theorem dropSeq_st (kind : K → Kind) (w : RSt K V) :
    ∃ n1 n2 n3, (dropSeq kind w).st = drainWith kind n1 n2 n3 w.st := by
  refine ⟨leftInFile w.done w.files, ?_⟩
  unfold dropSeq renactFile drainWith
  simp only [reclaim_st, iter_renact_st, rflush_st, iter_rprocess_st]
  exact ⟨_, _, rfl⟩

theorem drainWith_inv {kind : K → Kind} {s : St K V} (h : Inv kind s) (n1 n2 n3 : Nat) :
    Inv kind (drainWith kind n1 n2 n3 s) ∧ (drainWith kind n1 n2 n3 s).queue = [] ∧
    (drainWith kind n1 n2 n3 s).hist = s.hist := by
  unfold drainWith
  have i2 : Inv kind (flush (enactAll n1 s)) := (h.enactAll n1).flush
  have q3 := processAll_queue kind _ (flush (enactAll n1 s)) (Nat.le_refl _)
  have i3 := i2.processAll (flush (enactAll n1 s)).queue.length
  have q4 := enactAll_queue n2
    (processAll kind (flush (enactAll n1 s)).queue.length (flush (enactAll n1 s)))
  have i5 := (i3.enactAll n2).flush
  have q6 := enactAll_queue n3 (flush (enactAll n2
    (processAll kind (flush (enactAll n1 s)).queue.length (flush (enactAll n1 s)))))
  refine ⟨i5.enactAll n3, ?_, ?_⟩
  · rw [q6.1]
    show (enactAll n2 _).queue = []
    rw [q4.1]; exact q3.1
  · rw [q6.2.1]
    show (enactAll n2 _).hist = s.hist
    rw [q4.2.1, q3.2]
    exact (enactAll_queue n1 s).2.1

/-! ### no file is left open -/

theorem renact_openTail (w : RSt K V) : (renact w).openTail = w.openTail := by
  unfold renact; split <;> rfl

theorem iter_renact_openTail (n : Nat) (w : RSt K V) : (iter renact n w).openTail = w.openTail := by
  induction n generalizing w with
  | zero => rfl
  | succ n ih =>
    show (iter renact n (renact w)).openTail = w.openTail
    rw [ih, renact_openTail]

theorem reclaim_openTail (c : Nat) (w : RSt K V) : (reclaim c w).openTail = w.openTail := by
  induction c generalizing w with
  | zero => rfl
  | succ c ih =>
    unfold reclaim
    cases hfiles : w.files with
    | nil => simp
    | cons f fs =>
      simp only
      by_cases hle : f.recs.length ≤ w.done
      · simp only [hle, if_true]; rw [ih]
      · simp only [hle, if_false]

/-- After the drop sequence no file is open for appending: every record left is synced. -/
theorem dropSeq_openTail (kind : K → Kind) (w : RSt K V) : (dropSeq kind w).openTail = false := by
  unfold dropSeq renactFile
  simp only [reclaim_openTail, iter_renact_openTail]
  rfl

/-! ### what the next open finds, and what it makes of it -/

theorem crashImage_zero (s : St K V) : crashImage s 0 = s.tables := by
  unfold crashImage
  cases s.flushed <;> cases s.logged <;> simp only [applyRecPrefix_zero_r]

/-- P1's `flushed ≤ logged.length`, from the file structure alone. -/
theorem RInv.flushed_le {w : RSt K V} (h : RInv w) : w.st.flushed ≤ w.st.logged.length := by
  have hf := h.flushed
  have hd := h.done_le
  rw [h.logged, List.length_map, List.length_drop]
  omega

/-- With every un-enacted record surviving, the "crash image" is the file list itself. -/
theorem RInv.diskFiles_all {w : RSt K V} (h : RInv w) : diskFiles w w.st.logged.length = w.files := by
  obtain ⟨a, _, hc, _⟩ := h.chain
  have hd := h.done_le
  unfold diskFiles
  apply truncFiles_all hc
  rw [h.logged, List.length_map, List.length_drop]
  omega

/-- CLEAN DROP + REAL OPEN.  `w`: a wrapper state with the file invariant whose P1 component
    satisfies P1's invariant (every reachable one).  The drop sequence leaves tables
    `(dropSeq kind w).st.tables` and closed log files `(dropSeq kind w).files`; `Db::open`'s
    recovery on them, the directory listed in any order `fs`, yields the specification of the
    whole history - nothing committed before the drop is lost, although the drop does not enact
    everything. -/
theorem RInv.clean_drop_real {kind : K → Kind} {w : RSt K V} (h : RInv w) (hi : Inv kind w.st)
    (fs : List (LFile (Rec K V))) (hp : fs.Perm (Pdb.dropSeq kind w).files) :
    realRecover (Pdb.dropSeq kind w).st.tables fs = spec kind w.st.hist ∧
    (Pdb.dropSeq kind w).st.hist = w.st.hist ∧ (Pdb.dropSeq kind w).st.queue = [] ∧
    (Pdb.dropSeq kind w).openTail = false := by
  have hd : RInv (Pdb.dropSeq kind w) := h.dropSeq
  obtain ⟨n1, n2, n3, hst⟩ := dropSeq_st kind w
  obtain ⟨id, hq, hh⟩ := drainWith_inv hi n1 n2 n3
  rw [← hst] at id hq hh
  refine ⟨?_, hh, hq, dropSeq_openTail kind w⟩
  have hcr := id.crashRecover 0 (Pdb.dropSeq kind w).st.logged.length hd.flushed_le
  have hlen := id.len
  rw [hq] at hlen
  simp only [List.length_nil, Nat.add_zero] at hlen
  have hm : (Pdb.dropSeq kind w).st.nEnacted +
      min (Pdb.dropSeq kind w).st.logged.length (Pdb.dropSeq kind w).st.logged.length =
      (Pdb.dropSeq kind w).st.hist.length := by omega
  have hrr := hd.realRecover_eq 0 (Pdb.dropSeq kind w).st.logged.length hd.flushed_le fs
    (by rw [hd.diskFiles_all]; exact hp)
  rw [crashImage_zero] at hrr
  rw [hrr, hcr.2.2.2.2, hm, List.take_length, hh]

end Pdb
