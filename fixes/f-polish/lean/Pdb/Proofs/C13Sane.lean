/-
C13, panic audit part 1: the table configuration stays `Sane` (no table with more than
`MAX_INDEX_BITS` index bits) through the validation and the apply pass, and under `Sane` the
validation pass never reaches one of its panic sites (V1 .. V7 in Pdb/Model/Wal.lean).

Also the vocabulary shared with `Pdb.Proofs.C13Enact`: inversion of the lookups, what an
accepted table-id check establishes (`checkIndex_spec`, `checkRefCount_spec`,
`validate*_spec`), how a check can change the configuration (`VStep`, `VSteps`).
-/
import Pdb.Proofs.C13NextInv
import Pdb.Proofs.GenBits

namespace Pdb.Wal
open Pdb.Gen

theorem maxIndexBits_eq : maxIndexBits = 49 := by decide

theorem sizes_bounds : ∀ s ∈ SIZES, 2 ≤ s ∧ s ≤ 32768 := by decide +kernel

theorem entrySize_bounds (tier : Nat) :
    SIZE_SIZE ≤ entrySize tier ∧ entrySize tier ≤ MAX_ENTRY_BUF_SIZE := by
  unfold entrySize
  split
  · rename_i s hs
    exact sizes_bounds s (List.mem_of_getElem? hs)
  · decide

theorem sizes_min : ∀ s ∈ SIZES, 2 * INDEX_SIZE ≤ s := by decide +kernel

/-- Site E10, constant part: a table header (`2 * INDEX_SIZE` = 16 bytes, written into slot 0) and
    a tombstone (`SIZE_SIZE + INDEX_SIZE` = 10 bytes) fit every entry size. -/
theorem entrySize_min (tier : Nat) :
    2 * INDEX_SIZE ≤ entrySize tier ∧ SIZE_SIZE + INDEX_SIZE ≤ entrySize tier := by
  have h : 2 * INDEX_SIZE ≤ entrySize tier := by
    unfold entrySize
    split
    · rename_i s hs
      exact sizes_min s (List.mem_of_getElem? hs)
    · decide
  refine ⟨h, ?_⟩
  simp only [INDEX_SIZE, SIZE_SIZE] at h ⊢
  omega

theorem sizeTier_lt (t : Nat) : sizeTier t < SIZE_TIERS := by
  unfold sizeTier TableId.index_bits wcast
  exact Nat.mod_lt _ (by decide)

theorem index_bits_lt (t : Nat) : TableId.index_bits t < 256 := sizeTier_lt t

theorem col_lt (t : Nat) : TableId.col t < 256 := by
  unfold TableId.col wcast
  exact Nat.mod_lt _ (by decide)

theorem colSane_iff (cc : ColCfg) : cc.sane = true ↔
    cc.indexBits ≤ maxIndexBits ∧ (∀ b, cc.rcBits = some b → b ≤ maxIndexBits) ∧
      ∀ q ∈ cc.queue, q.bits ≤ maxIndexBits := by
  obtain ⟨bt, ib, rc, q⟩ := cc
  cases rc <;> simp [ColCfg.sane, and_assoc]


theorem Cfg.Sane.get {cfg : Cfg} (h : cfg.Sane) {c : Nat} {cc : ColCfg}
    (hc : cfg.cols[c]? = some cc) : cc.sane = true := by
  unfold Cfg.Sane at h
  rw [List.all_eq_true] at h
  exact h cc (List.mem_of_getElem? hc)

theorem Cfg.Sane.setCol {cfg : Cfg} (h : cfg.Sane) (c : Nat) {cc : ColCfg}
    (hcc : cc.sane = true) : (cfg.setCol c cc).Sane := by
  unfold Cfg.Sane at h ⊢
  rw [List.all_eq_true] at h ⊢
  intro x hx
  simp only [Cfg.setCol] at hx
  rcases List.mem_or_eq_of_mem_set hx with hx | rfl
  · exact h x hx
  · exact hcc

theorem getElem?_setCol (cfg : Cfg) (c c' : Nat) (cc : ColCfg) :
    (cfg.setCol c cc).cols[c']? =
      if c = c' then (if c < cfg.cols.length then some cc else none) else cfg.cols[c']? := by
  simp only [Cfg.setCol, List.getElem?_set]

theorem getElem?_setCol_self {cfg : Cfg} {c : Nat} {cc0 : ColCfg} (h : cfg.cols[c]? = some cc0)
    (cc : ColCfg) : (cfg.setCol c cc).cols[c]? = some cc := by
  have hl : c < cfg.cols.length := by
    rcases Nat.lt_or_ge c cfg.cols.length with h' | h'
    · exact h'
    · rw [List.getElem?_eq_none h'] at h; cases h
  rw [getElem?_setCol]; simp [hl]

theorem findIndexQ_some {c t b : Nat} {q : List QEntry} (h : findIndexQ c t q = some b) :
    QEntry.index b ∈ q ∧ TableId.new c b = t := by
  induction q with
  | nil => cases h
  | cons e q ih =>
    cases e with
    | index b' =>
      simp only [findIndexQ] at h
      split at h
      · cases h; exact ⟨List.mem_cons_self, by assumption⟩
      · obtain ⟨h1, h2⟩ := ih h; exact ⟨List.mem_cons_of_mem _ h1, h2⟩
    | refCount b' =>
      simp only [findIndexQ] at h
      obtain ⟨h1, h2⟩ := ih h; exact ⟨List.mem_cons_of_mem _ h1, h2⟩

theorem findRefCountQ_some {c t b : Nat} {q : List QEntry} (h : findRefCountQ c t q = some b) :
    QEntry.refCount b ∈ q ∧ TableId.new c b = t := by
  induction q with
  | nil => cases h
  | cons e q ih =>
    cases e with
    | refCount b' =>
      simp only [findRefCountQ] at h
      split at h
      · cases h; exact ⟨List.mem_cons_self, by assumption⟩
      · obtain ⟨h1, h2⟩ := ih h; exact ⟨List.mem_cons_of_mem _ h1, h2⟩
    | index b' =>
      simp only [findRefCountQ] at h
      obtain ⟨h1, h2⟩ := ih h; exact ⟨List.mem_cons_of_mem _ h1, h2⟩

theorem findIndexQ_none {c t : Nat} {q : List QEntry} (h : findIndexQ c t q = none) :
    ∀ b, QEntry.index b ∈ q → TableId.new c b ≠ t := by
  induction q with
  | nil => intro b hb; cases hb
  | cons e q ih =>
    intro b hb
    cases e with
    | index b' =>
      simp only [findIndexQ] at h
      split at h
      · cases h
      · rename_i hne
        rcases List.mem_cons.1 hb with hb | hb
        · cases hb; exact hne
        · exact ih h b hb
    | refCount b' =>
      simp only [findIndexQ] at h
      rcases List.mem_cons.1 hb with hb | hb
      · cases hb
      · exact ih h b hb

/-- An index table with `b` bits exists in the column: current or queued. -/
def HasIndex (cc : ColCfg) (b : Nat) : Prop := b = cc.indexBits ∨ QEntry.index b ∈ cc.queue

theorem lookupIndex_some {c t b : Nat} {cc : ColCfg} (h : lookupIndex c cc t = some b) :
    HasIndex cc b ∧ TableId.new c b = t := by
  unfold lookupIndex at h
  split at h
  · cases h; exact ⟨Or.inl rfl, by assumption⟩
  · obtain ⟨h1, h2⟩ := findIndexQ_some h; exact ⟨Or.inr h1, h2⟩

theorem lookupIndex_none {c t : Nat} {cc : ColCfg} (h : lookupIndex c cc t = none) :
    ∀ b, HasIndex cc b → TableId.new c b ≠ t := by
  unfold lookupIndex at h
  split at h
  · cases h
  · rename_i hne
    intro b hb
    rcases hb with rfl | hb
    · exact hne
    · exact findIndexQ_none h b hb

theorem lookupRefCount_some {c rb t b : Nat} {q : List QEntry}
    (h : lookupRefCount c rb q t = some b) :
    (b = rb ∨ QEntry.refCount b ∈ q) ∧ TableId.new c b = t := by
  unfold lookupRefCount at h
  split at h
  · cases h; exact ⟨Or.inl rfl, by assumption⟩
  · obtain ⟨h1, h2⟩ := findRefCountQ_some h; exact ⟨Or.inr h1, h2⟩

theorem HasIndex.le {cc : ColCfg} {b : Nat} (hs : cc.sane = true) (h : HasIndex cc b) :
    b ≤ maxIndexBits := by
  obtain ⟨h1, _, h3⟩ := (colSane_iff cc).1 hs
  rcases h with rfl | h
  · exact h1
  · exact h3 _ h

/-- A table id found in a sane column of a `u8` column number has the bits its id says. -/
theorem bits_of_new {t b : Nat} (hb : b ≤ maxIndexBits) (h : TableId.new (TableId.col t) b = t) :
    b = TableId.index_bits t := by
  have hb' : b < 256 := by rw [maxIndexBits_eq] at hb; omega
  have := (tableId_roundtrip (TableId.col t) b (col_lt t) hb').2
  rw [h] at this; exact this.symm

theorem lookupIndex_bits {t b : Nat} {cc : ColCfg} (hs : cc.sane = true)
    (h : lookupIndex (TableId.col t) cc t = some b) :
    b = TableId.index_bits t ∧ b ≤ maxIndexBits := by
  obtain ⟨h1, h2⟩ := lookupIndex_some h
  exact ⟨bits_of_new (h1.le hs) h2, h1.le hs⟩

theorem lookupRefCount_bits {t b rb : Nat} {cc : ColCfg} (hs : cc.sane = true)
    (hrb : cc.rcBits = some rb)
    (h : lookupRefCount (TableId.col t) rb cc.queue t = some b) :
    b = TableId.index_bits t ∧ b ≤ maxIndexBits := by
  obtain ⟨h1, h2⟩ := lookupRefCount_some h
  obtain ⟨_, s2, s3⟩ := (colSane_iff cc).1 hs
  have hb : b ≤ maxIndexBits := by
    rcases h1 with rfl | h1
    · exact s2 _ hrb
    · exact s3 _ h1
  exact ⟨bits_of_new hb h2, hb⟩


/-! ### the table-id checks -/

theorem boundChk_cases (cfg : Cfg) {bits : Nat} (chunk : Nat) (hb : bits ≤ maxIndexBits) :
    (boundChk cfg bits chunk = .ok cfg ∧ chunkInRange bits chunk = true) ∨
    (boundChk cfg bits chunk = .err cfg ∧ chunkInRange bits chunk = false) := by
  unfold boundChk
  have : ¬ 64 ≤ bits := by rw [maxIndexBits_eq] at hb; omega
  rw [if_neg this]
  cases h : chunkInRange bits chunk <;> simp

/-- The column after "Missing table, starting reindex" up to `tb` index bits. -/
def reindexCol (cc : ColCfg) (tb : Nat) : ColCfg :=
  { cc with indexBits := tb
            queue := cc.queue ++ (List.range' cc.indexBits (tb - cc.indexBits)).map .index }

def reindexRcCol (cc : ColCfg) (rb tb : Nat) : ColCfg :=
  { cc with rcBits := some tb
            queue := cc.queue ++ (List.range' rb (tb - rb)).map .refCount }

/-- What one table-id check may do to the configuration. -/
inductive VStep (cfg : Cfg) : Cfg → Prop
  | refl : VStep cfg cfg
  | reindex (c : Nat) (cc : ColCfg) (tb : Nat) : cfg.cols[c]? = some cc → cc.indexBits ≤ tb →
      tb ≤ maxIndexBits → VStep cfg (cfg.setCol c (reindexCol cc tb))
  | reindexRc (c : Nat) (cc : ColCfg) (rb tb : Nat) : cfg.cols[c]? = some cc →
      cc.rcBits = some rb → rb ≤ tb → tb ≤ maxIndexBits →
      VStep cfg (cfg.setCol c (reindexRcCol cc rb tb))

theorem reindexCol_sane {cc : ColCfg} {tb : Nat} (hs : cc.sane = true) (htb : tb ≤ maxIndexBits) :
    (reindexCol cc tb).sane = true := by
  obtain ⟨s1, s2, s3⟩ := (colSane_iff cc).1 hs
  rw [colSane_iff]
  refine ⟨htb, s2, ?_⟩
  intro q hq
  simp only [reindexCol, List.mem_append, List.mem_map, List.mem_range'_1] at hq
  rcases hq with hq | ⟨b, hb, rfl⟩
  · exact s3 q hq
  · simp only [QEntry.bits]; omega

theorem reindexRcCol_sane {cc : ColCfg} {rb tb : Nat} (hs : cc.sane = true) (hrb : rb ≤ tb)
    (htb : tb ≤ maxIndexBits) : (reindexRcCol cc rb tb).sane = true := by
  obtain ⟨s1, s2, s3⟩ := (colSane_iff cc).1 hs
  rw [colSane_iff]
  refine ⟨s1, ?_, ?_⟩
  · intro b hb; simp only [reindexRcCol, Option.some.injEq] at hb; omega
  · intro q hq
    simp only [reindexRcCol, List.mem_append, List.mem_map, List.mem_range'_1] at hq
    rcases hq with hq | ⟨b, hb, rfl⟩
    · exact s3 q hq
    · simp only [QEntry.bits]; omega

theorem VStep.sane {cfg cfg' : Cfg} (h : VStep cfg cfg') (hs : cfg.Sane) : cfg'.Sane := by
  cases h with
  | refl => exact hs
  | reindex c cc tb hc hle hmax => exact hs.setCol c (reindexCol_sane (hs.get hc) hmax)
  | reindexRc c cc rb tb hc hrb hle hmax =>
    exact hs.setCol c (reindexRcCol_sane (hs.get hc) hle hmax)

/-- `checkIndex` in a sane configuration: never `.panic`; the configuration moves by a `VStep`;
    acceptance means the column is a hash column and either the chunk number is in range for
    the table the id names, or the id names a table older than everything the column has
    (`skip_plan`). -/
theorem checkIndex_spec {cfg : Cfg} (hs : cfg.Sane) (t chunk : Nat) :
    (∃ cfg', VStep cfg cfg' ∧ checkIndex cfg t chunk = .err cfg') ∨
    (∃ cfg', VStep cfg cfg' ∧ checkIndex cfg t chunk = .ok cfg' ∧
      ∃ cc, cfg.cols[TableId.col t]? = some cc ∧ cc.btree = false ∧
        (chunkInRange (TableId.index_bits t) chunk = true ∨
          (TableId.index_bits t < cc.indexBits ∧ lookupIndex (TableId.col t) cc t = none))) := by
  unfold checkIndex
  simp only []
  cases hc : cfg.cols[TableId.col t]? with
  | none => exact Or.inl ⟨cfg, .refl, rfl⟩
  | some cc =>
    simp only []
    by_cases hbt' : cc.btree = true
    · rw [if_pos hbt']; exact Or.inl ⟨cfg, .refl, rfl⟩
    · rw [if_neg hbt']
      have hbt : cc.btree = false := by simpa using hbt'
      cases hl : lookupIndex (TableId.col t) cc t with
      | some b =>
        simp only []
        obtain ⟨rfl, hb⟩ := lookupIndex_bits (hs.get hc) hl
        rcases boundChk_cases cfg chunk hb with ⟨e, hr⟩ | ⟨e, _⟩
        · exact Or.inr ⟨cfg, .refl, e, cc, rfl, hbt, Or.inl hr⟩
        · exact Or.inl ⟨cfg, .refl, e⟩
      | none =>
        simp only []
        split
        · rename_i hlt
          exact Or.inr ⟨cfg, .refl, rfl, cc, rfl, hbt, Or.inr ⟨hlt, hl⟩⟩
        · rename_i hge
          split
          · exact Or.inl ⟨cfg, .refl, rfl⟩
          · rename_i hmax
            have hmax' : TableId.index_bits t ≤ maxIndexBits := by omega
            -- site V7: `index_bits() + 1` stays below `u8::MAX` behind the `MAX_INDEX_BITS` guard
            rw [if_neg (show ¬ (cc.indexBits < TableId.index_bits t ∧ U8_MAX < TableId.index_bits t) from by
              rw [maxIndexBits_eq] at hmax'; simp only [U8_MAX]; omega)]
            have hstep : VStep cfg (cfg.setCol (TableId.col t) (reindexCol cc (TableId.index_bits t))) :=
              .reindex _ cc _ hc (by omega) hmax'
            rcases boundChk_cases (cfg.setCol (TableId.col t) (reindexCol cc (TableId.index_bits t)))
              chunk hmax' with ⟨e, hr⟩ | ⟨e, _⟩
            · exact Or.inr ⟨_, hstep, e, cc, rfl, hbt, Or.inl hr⟩
            · exact Or.inl ⟨_, hstep, e⟩

/-- `checkRefCount` in a sane configuration: never `.panic`; acceptance means a hash column with
    a ref-count table and a chunk number in range for the table the id names. -/
theorem checkRefCount_spec {cfg : Cfg} (hs : cfg.Sane) (t chunk : Nat) :
    (∃ cfg', VStep cfg cfg' ∧ checkRefCount cfg t chunk = .err cfg') ∨
    (∃ cfg', VStep cfg cfg' ∧ checkRefCount cfg t chunk = .ok cfg' ∧
      ∃ cc rb, cfg.cols[TableId.col t]? = some cc ∧ cc.btree = false ∧ cc.rcBits = some rb ∧
        chunkInRange (TableId.index_bits t) chunk = true) := by
  unfold checkRefCount
  simp only []
  cases hc : cfg.cols[TableId.col t]? with
  | none => exact Or.inl ⟨cfg, .refl, rfl⟩
  | some cc =>
    simp only []
    by_cases hbt' : cc.btree = true
    · rw [if_pos hbt']; exact Or.inl ⟨cfg, .refl, rfl⟩
    · rw [if_neg hbt']
      have hbt : cc.btree = false := by simpa using hbt'
      cases hrc : cc.rcBits with
      | none => exact Or.inl ⟨cfg, .refl, rfl⟩
      | some rb =>
        simp only []
        cases hl : lookupRefCount (TableId.col t) rb cc.queue t with
        | some b =>
          simp only []
          obtain ⟨rfl, hb⟩ := lookupRefCount_bits (hs.get hc) hrc hl
          rcases boundChk_cases cfg chunk hb with ⟨e, hr⟩ | ⟨e, _⟩
          · exact Or.inr ⟨cfg, .refl, e, cc, rb, rfl, hbt, hrc, hr⟩
          · exact Or.inl ⟨cfg, .refl, e⟩
        | none =>
          simp only []
          split
          · exact Or.inl ⟨cfg, .refl, rfl⟩
          · rename_i hge
            split
            · exact Or.inl ⟨cfg, .refl, rfl⟩
            · rename_i hmax
              have hmax' : TableId.index_bits t ≤ maxIndexBits := by omega
              -- site V7
              rw [if_neg (show ¬ (rb < TableId.index_bits t ∧ U8_MAX < TableId.index_bits t) from by
                rw [maxIndexBits_eq] at hmax'; simp only [U8_MAX]; omega)]
              have hstep : VStep cfg
                  (cfg.setCol (TableId.col t) (reindexRcCol cc rb (TableId.index_bits t))) :=
                .reindexRc _ cc rb _ hc hrc (by omega) hmax'
              rcases boundChk_cases
                (cfg.setCol (TableId.col t) (reindexRcCol cc rb (TableId.index_bits t)))
                chunk hmax' with ⟨e, hr⟩ | ⟨e, _⟩
              · exact Or.inr ⟨_, hstep, e, cc, rb, rfl, hbt, hrc, hr⟩
              · exact Or.inl ⟨_, hstep, e⟩


/-! ### the validators of one action -/

/-- Validation progress: a sequence of `VStep`s. -/
inductive VSteps : Cfg → Cfg → Prop
  | refl (a : Cfg) : VSteps a a
  | head {a b c : Cfg} : VStep a b → VSteps b c → VSteps a c

theorem VSteps.sane {a b : Cfg} (h : VSteps a b) (hs : a.Sane) : b.Sane := by
  induction h with
  | refl => exact hs
  | head st _ ih => exact ih (st.sane hs)

theorem validateIndex_spec {cfg : Cfg} (hs : cfg.Sane) (t chunk : Nat) (rd : Reader) :
    (∃ cfg', VStep cfg cfg' ∧ validateIndex cfg t chunk rd = .err cfg') ∨
    (∃ cfg' mb rd1 es rd2, VStep cfg cfg' ∧
      validateIndex cfg t chunk rd = .ok (.insertIndex t chunk (leVal mb) es) rd2 cfg' ∧
      rd.read 8 = some (mb, rd1) ∧
      rd1.read (popcount (leVal mb) * INDEX_ENTRY_BYTES) = some (es, rd2) ∧
      ∃ cc, cfg.cols[TableId.col t]? = some cc ∧ cc.btree = false ∧
        (chunkInRange (TableId.index_bits t) chunk = true ∨
          (TableId.index_bits t < cc.indexBits ∧ lookupIndex (TableId.col t) cc t = none))) := by
  rcases checkIndex_spec hs t chunk with ⟨cfg', st, e⟩ | ⟨cfg', st, e, hx⟩
  · exact Or.inl ⟨cfg', st, by simp only [validateIndex, e]⟩
  · unfold validateIndex
    rw [e]; simp only []
    cases h1 : rd.read 8 with
    | none => exact Or.inl ⟨cfg', st, rfl⟩
    | some p =>
      obtain ⟨mb, rd1⟩ := p
      simp only []
      cases h2 : rd1.read (popcount (leVal mb) * INDEX_ENTRY_BYTES) with
      | none => exact Or.inl ⟨cfg', st, rfl⟩
      | some p2 =>
        obtain ⟨es, rd2⟩ := p2
        exact Or.inr ⟨cfg', mb, rd1, es, rd2, st, rfl, rfl, h2, hx⟩

theorem validateRefCount_spec {cfg : Cfg} (hs : cfg.Sane) (t chunk : Nat) (rd : Reader) :
    (∃ cfg', VStep cfg cfg' ∧ validateRefCount cfg t chunk rd = .err cfg') ∨
    (∃ cfg' mb rd1 es rd2, VStep cfg cfg' ∧
      validateRefCount cfg t chunk rd = .ok (.insertRefCount t chunk (leVal mb) es) rd2 cfg' ∧
      rd.read 8 = some (mb, rd1) ∧ leVal mb >>> RC_CHUNK_ENTRIES = 0 ∧
      rd1.read (popcount (leVal mb) * RC_ENTRY_BYTES) = some (es, rd2) ∧
      ∃ cc rb, cfg.cols[TableId.col t]? = some cc ∧ cc.btree = false ∧ cc.rcBits = some rb ∧
        chunkInRange (TableId.index_bits t) chunk = true) := by
  rcases checkRefCount_spec hs t chunk with ⟨cfg', st, e⟩ | ⟨cfg', st, e, hx⟩
  · exact Or.inl ⟨cfg', st, by simp only [validateRefCount, e]⟩
  · unfold validateRefCount
    rw [e]; simp only []
    cases h1 : rd.read 8 with
    | none => exact Or.inl ⟨cfg', st, rfl⟩
    | some p =>
      obtain ⟨mb, rd1⟩ := p
      simp only []
      by_cases hm : leVal mb >>> RC_CHUNK_ENTRIES ≠ 0
      · rw [if_pos hm]; exact Or.inl ⟨cfg', st, rfl⟩
      · rw [if_neg hm]
        have hm' : leVal mb >>> RC_CHUNK_ENTRIES = 0 := Classical.not_not.1 hm
        cases h2 : rd1.read (popcount (leVal mb) * RC_ENTRY_BYTES) with
        | none => exact Or.inl ⟨cfg', st, rfl⟩
        | some p2 =>
          obtain ⟨es, rd2⟩ := p2
          exact Or.inr ⟨cfg', mb, rd1, es, rd2, st, rfl, rfl, hm', h2, hx⟩

/-- Sites V2, V3: every entry size fits the stack buffer `[u8; MAX_ENTRY_BUF_SIZE]`. -/
theorem valueLen_ne_panic (v4 : Bool) (tier index : Nat) (payload : Bytes) :
    valueLen v4 tier index payload ≠ .panic := by
  obtain ⟨h1, h2⟩ := entrySize_bounds tier
  unfold valueLen
  split
  · intro h; cases h
  · split
    · simp only []
      split
      · intro h; cases h
      · split
        · split
          · rename_i h; omega
          · intro h; cases h
        · split
          · intro h; cases h
          · split
            · omega
            · intro h; cases h
    · intro h; cases h

/-- Site E10: whatever length `validate_plan` accepts fits the slot.  For a plain entry this is
    the check table.rs:1108 and nothing else. -/
theorem valueLen_le_entrySize {v4 : Bool} {tier index n : Nat} {payload : Bytes}
    (h : valueLen v4 tier index payload = .ok n) : n ≤ entrySize tier := by
  obtain ⟨h1, h2⟩ := entrySize_min tier
  unfold valueLen at h
  split at h
  · cases h; exact h1
  · split at h
    · simp only [] at h
      split at h
      · cases h; exact h2
      · split at h
        · split at h
          · cases h
          · cases h; exact Nat.le_refl _
        · split at h
          · cases h
          · split at h
            · cases h
            · rename_i hg _
              cases h; omega
    · cases h

/-- Site E8: `enact_plan` computes the length `validate_plan` has accepted. -/
theorem enactValueLen_of_valueLen {v4 : Bool} {tier index n : Nat} {payload : Bytes}
    (h : valueLen v4 tier index payload = .ok n) : enactValueLen v4 tier index payload = .ok n := by
  obtain ⟨h1, h2⟩ := entrySize_bounds tier
  unfold valueLen at h
  unfold enactValueLen
  split
  · rename_i h0; rw [if_pos h0] at h; exact h
  · rename_i h0; rw [if_neg h0] at h
    split
    · simp only [] at h ⊢
      split
      · rename_i ht; rw [if_pos ht] at h; exact h
      · rename_i ht; rw [if_neg ht] at h
        split
        · rename_i hm; rw [if_pos hm] at h; exact h
        · rename_i hm; rw [if_neg hm] at h
          split at h
          · cases h
          · split at h
            · cases h
            · rename_i hb; rw [if_neg hb]; exact h
    · rename_i hp
      split at h
      · rename_i b0 b1 tl; exact absurd rfl (hp b0 b1 tl)
      · exact h

theorem validateValue_spec (cfg : Cfg) (t index : Nat) (rd : Reader) :
    validateValue cfg t index rd = .err cfg ∨
    (∃ n p rd', validateValue cfg t index rd = .ok (.insertValue t index p) rd' cfg ∧
      (cfg.cols[TableId.col t]?).isSome = true ∧
      valueLen cfg.v4 (sizeTier t) index rd.rest = .ok n ∧ rd.read n = some (p, rd')) := by
  unfold validateValue
  cases hc : cfg.cols[TableId.col t]? with
  | none => exact Or.inl rfl
  | some cc =>
    simp only []
    rw [if_neg (Nat.not_le.2 (sizeTier_lt t))]
    cases hv : valueLen cfg.v4 (sizeTier t) index rd.rest with
    | panic => exact absurd hv (valueLen_ne_panic _ _ _ _)
    | err => exact Or.inl rfl
    | ok n =>
      simp only []
      cases hr : rd.read n with
      | none => exact Or.inl rfl
      | some p =>
        obtain ⟨p, rd'⟩ := p
        exact Or.inr ⟨n, p, rd', rfl, rfl, rfl, hr⟩


/-! ### the validation loop -/

/-- No panic, and the configuration handed back satisfies `P`. -/
def VRes.Good (P : Cfg → Prop) : VRes → Prop
  | .ok _ _ c => P c
  | .err c => P c
  | .panic => False

def LoopResult.Good (P : Cfg → Prop) : LoopResult → Prop
  | .ok _ _ c => P c
  | .invalid _ c => P c
  | .panic => False
  | .outOfFuel => True

theorem LoopResult.Good.mono {P Q : Cfg → Prop} (hPQ : ∀ c, P c → Q c) {r : LoopResult}
    (h : r.Good P) : r.Good Q := by
  cases r <;> simp only [LoopResult.Good] at h ⊢
  · exact hPQ _ h
  · exact hPQ _ h

theorem validateIndex_good {cfg : Cfg} (hs : cfg.Sane) (t chunk : Nat) (rd : Reader) :
    (validateIndex cfg t chunk rd).Good (VStep cfg) := by
  rcases validateIndex_spec hs t chunk rd with ⟨cfg', st, e⟩ | ⟨cfg', _, _, _, _, st, e, _⟩
  · rw [e]; exact st
  · rw [e]; exact st

theorem validateRefCount_good {cfg : Cfg} (hs : cfg.Sane) (t chunk : Nat) (rd : Reader) :
    (validateRefCount cfg t chunk rd).Good (VStep cfg) := by
  rcases validateRefCount_spec hs t chunk rd with ⟨cfg', st, e⟩ | ⟨cfg', _, _, _, _, st, e, _⟩
  · rw [e]; exact st
  · rw [e]; exact st

theorem validateValue_good (cfg : Cfg) (t index : Nat) (rd : Reader) :
    (validateValue cfg t index rd).Good (VStep cfg) := by
  rcases validateValue_spec cfg t index rd with e | ⟨_, _, _, e, _⟩
  · rw [e]; exact .refl
  · rw [e]; exact .refl

/-- shared `.ok` tail of the three insert arms of `validateLoop` -/
theorem loop_arm_good {crc : Bytes → Nat} {fuel : Nat} {cfg cfg' : Cfg} {rd'' : Reader}
    {acc : List Action}
    (ih : ∀ (cfg : Cfg) (rd : Reader) (acc : List Action), cfg.Sane →
      (validateLoop crc fuel cfg rd acc).Good (VSteps cfg))
    (hs : cfg.Sane) (st : VStep cfg cfg') :
    (validateLoop crc fuel cfg' rd'' acc).Good (VSteps cfg) :=
  (ih cfg' rd'' acc (st.sane hs)).mono (fun _ hc => .head st hc)

theorem validateLoop_good (crc : Bytes → Nat) : ∀ (fuel : Nat) (cfg : Cfg) (rd : Reader)
    (acc : List Action), cfg.Sane → (validateLoop crc fuel cfg rd acc).Good (VSteps cfg) := by
  intro fuel
  induction fuel with
  | zero => intro cfg rd acc _; exact True.intro
  | succ fuel ih =>
    intro cfg rd acc hs
    unfold validateLoop
    split
    · exact VSteps.refl _
    · exact VSteps.refl _
    · exact VSteps.refl _
    · exact VSteps.refl _
    · exact VSteps.refl _
    · rename_i t i rd' hn
      have hv := validateIndex_good hs t i rd'
      split
      · rename_i a rd'' cfg' e; rw [e] at hv; exact loop_arm_good ih hs hv
      · rename_i cfg' e; rw [e] at hv; exact VSteps.head hv (.refl _)
      · rename_i e; rw [e] at hv; exact hv
    · rename_i t i rd' hn
      have hv := validateValue_good cfg t i rd'
      split
      · rename_i a rd'' cfg' e; rw [e] at hv; exact loop_arm_good ih hs hv
      · rename_i cfg' e; rw [e] at hv; exact VSteps.head hv (.refl _)
      · rename_i e; rw [e] at hv; exact hv
    · rename_i t i rd' hn
      have hv := validateRefCount_good hs t i rd'
      split
      · rename_i a rd'' cfg' e; rw [e] at hv; exact loop_arm_good ih hs hv
      · rename_i cfg' e; rw [e] at hv; exact VSteps.head hv (.refl _)
      · rename_i e; rw [e] at hv; exact hv
    · split
      · exact ih _ _ _ hs
      · exact VSteps.refl _
    · split
      · exact ih _ _ _ hs
      · exact VSteps.refl _

theorem validateLoop_steps {crc : Bytes → Nat} {fuel : Nat} {cfg cfgV : Cfg} {rd : Reader}
    {acc as : List Action} {rest : Bytes}
    (hs : cfg.Sane) (h : validateLoop crc fuel cfg rd acc = .ok as rest cfgV) : VSteps cfg cfgV := by
  have := validateLoop_good crc fuel cfg rd acc hs
  rw [h] at this; exact this

theorem validateLoop_sane_ok {crc : Bytes → Nat} {fuel : Nat} {cfg cfgV : Cfg} {rd : Reader}
    {acc as : List Action} {rest : Bytes}
    (hs : cfg.Sane) (h : validateLoop crc fuel cfg rd acc = .ok as rest cfgV) : cfgV.Sane :=
  (validateLoop_steps hs h).sane hs

theorem validateLoop_sane_invalid {crc : Bytes → Nat} {fuel : Nat} {cfg cfg' : Cfg} {rd : Reader}
    {acc : List Action} {why : Reason}
    (hs : cfg.Sane) (h : validateLoop crc fuel cfg rd acc = .invalid why cfg') : cfg'.Sane := by
  have := validateLoop_good crc fuel cfg rd acc hs
  rw [h] at this
  exact VSteps.sane this hs

theorem validateLoop_ne_panic (crc : Bytes → Nat) (fuel : Nat) (cfg : Cfg) (rd : Reader)
    (acc : List Action) (hs : cfg.Sane) : validateLoop crc fuel cfg rd acc ≠ .panic := by
  intro h
  have := validateLoop_good crc fuel cfg rd acc hs
  rw [h] at this
  exact this

/-! ### the validation pass -/

/-- `validatePass` accepted: the header, the id check, the loop. -/
theorem validatePass_ok_inv {crc : Bytes → Nat} {cfg cfgV : Cfg} {last : Nat} {bytes rest : Bytes}
    {r : Record} (h : validatePass crc cfg last bytes = .ok r rest cfgV) :
    ∃ rd, next crc ⟨[], bytes⟩ = .begin r.id rd ∧ r.id = last + 1 ∧ r.id ≠ U64 - 1 ∧
      validateLoop crc (bytes.length + 1) cfg rd [] = .ok r.actions rest cfgV := by
  unfold validatePass at h
  split at h
  · cases h
  · rename_i id rd hn
    split at h
    · cases h
    · rename_i hid
      split at h
      · rename_i actions rest' cfgV' hl
        cases h
        refine ⟨rd, hn, ?_, ?_, hl⟩
        · exact Classical.not_not.1 (fun hne => hid (Or.inl hne))
        · exact fun he => hid (Or.inr he)
      · cases h
      · cases h
      · cases h
  · cases h

theorem validatePass_sane_ok {crc : Bytes → Nat} {cfg cfgV : Cfg} {last : Nat} {bytes rest : Bytes}
    {r : Record} (hs : cfg.Sane) (h : validatePass crc cfg last bytes = .ok r rest cfgV) :
    cfgV.Sane := by
  obtain ⟨rd, _, _, _, hl⟩ := validatePass_ok_inv h
  exact validateLoop_sane_ok hs hl

theorem validatePass_sane_invalid {crc : Bytes → Nat} {cfg cfg' : Cfg} {last : Nat} {bytes : Bytes}
    {why : Reason} (hs : cfg.Sane) (h : validatePass crc cfg last bytes = .invalid why cfg') :
    cfg'.Sane := by
  unfold validatePass at h
  split at h
  · cases h
  · split at h
    · cases h; exact hs
    · split at h
      · cases h
      · rename_i hl; cases h; exact validateLoop_sane_invalid hs hl
      · cases h
      · cases h
  · cases h; exact hs

theorem validatePass_ne_panic (crc : Bytes → Nat) (cfg : Cfg) (last : Nat) (bytes : Bytes)
    (hs : cfg.Sane) : validatePass crc cfg last bytes ≠ .panic := by
  intro h
  unfold validatePass at h
  split at h
  · cases h
  · split at h
    · cases h
    · split at h
      · cases h
      · cases h
      · rename_i hl; exact validateLoop_ne_panic _ _ _ _ _ hs hl
      · cases h
  · cases h

/-! ### the apply pass on parsed actions keeps `Sane` -/

theorem dropFront_sane {cfg : Cfg} (h : cfg.Sane) (t : Nat) (isIndex : Bool) :
    (dropFront cfg t isIndex).Sane := by
  unfold dropFront
  simp only []
  split
  · exact h
  · rename_i cc hc
    split
    · exact h
    · split
      · apply h.setCol
        obtain ⟨s1, s2, s3⟩ := (colSane_iff cc).1 (h.get hc)
        rw [colSane_iff]
        exact ⟨s1, s2, fun q hq => s3 q (List.mem_of_mem_tail hq)⟩
      · exact h

theorem applyCfg_sane {cfg : Cfg} (h : cfg.Sane) (a : Action) : (applyCfg cfg a).Sane := by
  cases a <;> simp only [applyCfg]
  · exact h
  · exact h
  · exact h
  · exact dropFront_sane h _ _
  · exact dropFront_sane h _ _

theorem applyPass_sane {cfg : Cfg} (h : cfg.Sane) (as : List Action) : (applyPass cfg as).Sane := by
  induction as generalizing cfg with
  | nil => exact h
  | cons a as ih => exact ih (applyCfg_sane h a)

end Pdb.Wal

#print axioms Pdb.Wal.applyCfg_sane
#print axioms Pdb.Wal.applyPass_sane
#print axioms Pdb.Wal.validateLoop_sane_ok
#print axioms Pdb.Wal.validateLoop_sane_invalid
#print axioms Pdb.Wal.validateLoop_ne_panic
#print axioms Pdb.Wal.validatePass_sane_ok
#print axioms Pdb.Wal.validatePass_sane_invalid
#print axioms Pdb.Wal.validatePass_ne_panic
