/-
P3 / C13: byte-level model of the parity-db write-ahead log and of its replay at open.

This is a model of /repo at HEAD 485fed3 (which contains f7619e5 "damaged log records are
rejected with Corruption instead of panicking" and the fix "`drop_file` of a table whose file was
never created is `Ok`": without the latter the DROP_TABLE arm of the apply pass can return
`Err(Io(NotFound))`, see `enactDrop`).

OUTCOMES.  `.panic` means: the Rust panics at this point (slice / Vec index out of range,
`unwrap` on `None`, `panic!`, arithmetic overflow of a debug build) or -- for the raw pointer
writes into a memory map (E6, E10) -- writes outside the object it was meant for (undefined
behaviour / SIGBUS / silently overwritten neighbours, not a Rust panic).  Every such
operation on the replay path is a PANIC SITE in this file: an explicit branch to `.panic`
taken exactly when the operation's precondition fails.  What keeps the Rust from getting
there is a GUARD: a real check in the Rust that precedes the site (file:line given at the
guard).  `Pdb.Proofs.C13Sane` / `C13Enact` prove that the guards suffice: no `.panic` for any
bytes.  `.outOfFuel` is the model's own artefact (recursion on fuel) and is kept apart; fuel
adequacy (`bytes.length + 1` units suffice) is `validateLoop_fuel` / `enactLoop_fuel` /
`replayFile_fuel`.  `.applyFailed` means: the apply pass returned `Err` (the `?` in
db.rs:1290-1341), `Db::open` fails with PART of the record applied.

PANIC SITES and GUARDS (line numbers: /repo HEAD 485fed3; "const" = the bound is a constant of
the code, proved from the generated constants):

  site                                                        guard
  ----------------------------------------------------------  ------------------------------------------------
  V1 column.rs:1514 / btree/mod.rs:256 `tables.value[tier]`   const: tier is a u8, 256 tables (column.rs:382)
  V2 table.rs:1104 `buf[SIZE_SIZE..entry_size]`               const: MULTIPART_ENTRY_SIZE <= MAX_ENTRY_BUF_SIZE
  V3 table.rs:1114 `buf[SIZE_SIZE..SIZE_SIZE+len]`            table.rs:1108 `SIZE_SIZE + len > entry_size` -> Err
                                                              + const: every entry size <= MAX_ENTRY_BUF_SIZE
  V4 index.rs:144 / ref_count.rs:77 `1u64 << index_bits`      column.rs:1498 / :1535 `index_bits > MAX_INDEX_BITS`
     (via `total_chunks()` in index.rs:637, ref_count.rs:426)  -> Err, for tables created by the "missing table"
                                                              reindex; `Cfg.Sane` for the tables found at open
  V5 column.rs:102 `ref_count.as_ref().unwrap()` (:1520,      column.rs:1517 `ref_count.is_none()` -> Err
     :1521, :1530; :942-947 in trigger_ref_count_reindex)
  V6 column.rs:951 `old_table.unwrap()` (the replaced         column.rs:1517 (same arm; trigger_ref_count_reindex
     `tables.ref_count`, reindex started by validate_plan)     stores `Some(new_table)`: stays `Some` while recursing)
  V7 column.rs:684 / :947 `index_bits() + 1` on a u8          column.rs:1488 / :1530 (`<` current: skip / Err) and
     (trigger_reindex / trigger_ref_count_reindex, reached     :1498 / :1535 (`> MAX_INDEX_BITS` -> Err): the
     from validate_plan "Missing table, starting reindex")     recursion walks current .. index_bits(t) - 1 <= 48
                                                              (even without :1498: < index_bits(t) <= u8::MAX)
  E1 db.rs:1299/1303/1307 `self.columns[col]`                 db.rs:1225/1242/1259 `self.columns.get(col)` -> Err
  E2 db.rs:1316/1331 `self.columns[id.col()]`                 db.rs:1275/1282 `.get(..).is_none()` -> reject
  E3 btree/mod.rs:247 `panic!("Unexpected log action")`       btree/mod.rs:258 validate_plan -> Err
  E4 column.rs:102 unwrap via :1445 `get_ref_count()`         column.rs:1517 (validation pass)
  E5 index.rs:147 / ref_count.rs:80 `file_size` overflow      column.rs:1498 / :1535 + `Cfg.Sane`
  E6 index.rs:614-620 / ref_count.rs:403-409 `ptr.add(offset)` index.rs:637 / ref_count.rs:426 `index >=
     chunk outside the mapping (UB, not a panic)               total_chunks()` -> Err, on the SAME table id
  E7 ref_count.rs:418 `chunk[i*16..(i+1)*16]`, i >= 32        ref_count.rs:433 `mask >> CHUNK_ENTRIES != 0` -> Err
  E8 table.rs:1077/1082 `buf[..]` in enact_plan (no check)    table.rs:1108 (validation pass, same bytes)
  E9 log.rs:886 `record_id + 1`                               db.rs:1194 `record_id == u64::MAX` -> reject
  E10 file.rs:168-182 `TableFile::write_at` called from        mapped, slot inside the file: the loop table.rs:1056
     table.rs:1062/1073/1078/1084 (`map.as_ref().unwrap()`,    `while index >= capacity { grow }` (`growLoop`,
     `ptr.add(offset)`, `copy_from_slice`, no bounds check):   `growLoop_post`); bytes written <= entry_size:
     needs the file mapped and the `n` bytes inside slot       table.rs:1108 (VALIDATION pass, same bytes) for a
     `index`: n <= entry_size, (index+1)*entry_size <= len     plain entry, const for header (16) / tombstone (10)
                                                              / multipart part (= entry_size): `entrySize_min`
  (db.rs:1193 `last_enacted.checked_add(1)` and db.rs:223 `saturating_sub(1)` are themselves total.)

  E8 is weaker than E10 (`MAX_ENTRY_BUF_SIZE` >= every entry size): a change that weakens the check
  at table.rs:1108 up to the buffer size would not reach E8 but lets `enact_plan` overrun slots; it
  is E10 that makes such a change break `enactValue_step` / `C13_total`.

  Sites that cannot fail for a reason independent of the bytes (not modelled): the fixed-size
  `try_into().unwrap()` of `LogReader::next` (log.rs:272..324, 776) and `Header` (table.rs:167,
  173); `buf[0..size]`, size in {1,2,8} (log.rs:252); `chunk[i*8..(i+1)*8]`, i <= 63, 512-byte
  chunk (index.rs:629); `1 << i`, i = trailing_zeros of a non-zero u64 (index.rs:627, 645 ...);
  `reading.as_mut().unwrap()` (log.rs:252, 297, 332: `reading` is `Some` between
  `replay_next` and the end of `enact_logs`); `map.as_ref().unwrap()` of the index / ref-count
  `enact_plan` (index.rs:613, ref_count.rs:402: the file is created and mapped by the `if
  map.is_none()` block just above); `pop_front().unwrap()` (column.rs:2020, 2046: the
  test `front_mut().map_or(false, ..)` above it); `index * entry_size` (table.rs:1073, 1078,
  1084: `index < capacity = len / entry_size` by the loop at :1056); `&name[3..]` (log.rs:707
  after `starts_with("log")`).

Facts about the Rust that shape the model:
  * validation is NOT free of side effects: an INSERT_INDEX / INSERT_REF_COUNT naming a table
    with more index bits than the current one makes `validate_plan` call `trigger_reindex`
    (current table is queued, a new empty current table is created) -- before the CRC of the
    record has been checked.  So the configuration is threaded through the parser (`Cfg` in,
    `Cfg` out, also on failure).
  * an `Err` of `reader.next()` inside the validation loop (truncated opcode/header, bad
    opcode, CRC mismatch, truncated CRC) returns `Ok(false)` WITHOUT `clear_replay_logs`:
    replay goes on with the NEXT log file (`Reason.clears = false`).  Every other rejection
    clears the whole replay queue.
  * a truncated *first* opcode of a record (clean EOF or EOF inside the BEGIN header) is the
    normal end of a log file.
  * the apply pass reads the record a second time (`reader.reset()`); what `enact_plan` reads
    is decided by `enact_plan` itself (`enactValueLen`, no length check), and which table it
    writes is looked up in the configuration AS IT IS THEN: after all validations of the
    record and after the drops of the earlier actions (`enactLoop`).  An insert into a table
    that is neither current nor queued is skipped (`skip_plan`; `EAct.enacted = false`).

Rust anchors:
  encodeRecord      = LogChange::flush_to_file                      (src/log.rs)
  Reader, next      = LogReader::{read, next}  (running CRC = `consumed`)
  checkIndex        = HashColumn::validate_plan, InsertIndex arm    (src/column.rs)
                      + IndexTable::validate_plan bound             (src/index.rs)
  checkRefCount     = HashColumn::validate_plan, InsertRefCount arm + RefCountTable::validate_plan
  valueLen          = ValueTable::validate_plan; enactValueLen = ValueTable::enact_plan (src/table.rs)
  validateLoop      = the validation loop of DbInner::enact_logs(validation_mode = true)
  enactIndex / enactRefCount / enactValue / enactDrop = Column::enact_plan, drop_index, drop_ref_count
  enactLoop         = the apply loop of enact_logs (db.rs:1293-1341)
  parseRecord       = one call of enact_logs(true): Log::read_next, id sequence check,
                      validation pass (whole record incl. CRC), reader.reset(), apply pass, end_read
  replayFile        = `while self.enact_logs(true)? {}`
  orderFiles        = Log::open (open_log_file / read_first_record_id / sort_by_key)
  replaySorted      = DbInner::replay_all_logs (Log::replay_next loop)
  initialLastEnacted= DbInner::open: `log.replay_record_id().unwrap_or(2).saturating_sub(1)`
  replayOpen        = what `Db::open` does with the log files

NOT panics but resource exhaustion driven by the bytes of a record with a valid checksum (not
modelled; listed in the report): `while index >= capacity { grow }` (table.rs:1056, the file
grows to index * entry_size; the loop is modelled with fuel as `growLoop` to state what it
establishes for E10, but it is not part of the outcomes), `set_len(file_size(bits))` + mmap for
bits up to 49 (index.rs:606, ref_count.rs:395), `for index in 0..total_chunks()`
(column.rs:547/560).  A record with a valid checksum that drives one of these to failure makes
the apply pass return `Err(Io(..))`: an outcome `.applyFailed` the model does NOT predict
(see the caveat at `C13_total`).

Bytes are `List UInt8`.  CRC-32 is a parameter `crc : Bytes → Nat` (assumption A-crc: a
function of the bytes; only `crc b % 2^32` is used).  The driver instantiates it with the
standard reflected CRC-32 `crc32`.

Driver protocol (command `c13`, see `driverLine` at the end of the file):

  parse  <cfg> <last_enacted> <hex>            one log file
  replay <cfg> <last_enacted|auto> <hex> ...   several files, in directory order
  replaylast <cfg> <last_enacted|auto> <hex> ...   same replay, answer is only
                                               "last=" <n> " cfg=" <cfg>: what harness/src/c13.rs
                                               observes of `Db::open` (hooks `Db::verif_last_enacted`,
                                               `Db::verif_table_cfg`)
  replaytab <cfg> <last_enacted|auto> <hex> ... "/" <cell> ...
                                               replay over the given base content of the tables;
                                               answer "last=" <n> " cfg=" <cfg> " idx=" <k> ":" <crc>
                                               " val=" <k> ":" <crc> " xval=" <k>
      <cell> ::= "I" <table> "@" <chunk> "." <sub> "=" <16 hex>    index entry before replay
               | "V" <table> "@" <slot> "=" <hex of the whole slot>  value slot before replay (probe)
      idx: the non-zero entries of the index tables that exist after replay (current table and
           reindex queue of every hash column), sorted by (table id, chunk, sub): their number and
           the CRC-32 of the text `<table>@<chunk>.<sub>=<16 hex>;` ...
      val: the content after replay of the probed slots, in the order given: number of probes
           and CRC-32 of the concatenated slot contents (a write replaces a prefix of the slot)
      xval: number of value slots written by replay that are not among the probes

  <cfg>  ::= <v4> { "/" <col> }          v4 = 1 iff metadata.version <= 4, else 0
  <col>  ::= "b"                          btree column
           | "h," <indexBits> "," <rcBits|-> "," <queue>
  <queue>::= "" | <q> { "." <q> }         reindex queue, front first
  <q>    ::= "i" <bits> | "r" <bits>      queued index / ref-count table
  e.g.   0/h,16,-,/h,17,16,i16.r16/b
  <hex>  ::= lowercase or uppercase hex, "-" for the empty file

  answer ::= { <record> " " } "stop=" <stop> " last=" <n> " cfg=" <cfg>     (parse)
  answer ::= { <file answer without last/cfg> " | " } "last=" <n> " cfg=" <cfg>  (replay)
  <record> ::= <id> ":[" <act> { "," <act> } "]"
  <act>  ::= "I" <table> "@" <chunk> "#" <mask hex> "+" <len> "~" <crc32 of entries, hex>
           | "V" <table> "@" <index> "+" <len> "~" <crc32 of payload, hex>
           | "R" <table> "@" <chunk> "#" <mask hex> "+" <len> "~" <crc32 hex>
           | "D" <table> | "C" <table>
  <stop> ::= eof | bad-header | sequence | read-error | unexpected-begin | validation
           | apply-failed | panic | out-of-fuel
  malformed input: "bad-op"
-/
import Pdb.Gen.Consts
import Pdb.Gen.Bits

namespace Pdb.Wal
open Pdb.Gen

abbrev Bytes := List UInt8

/-! ## little endian -/

/-- `n.to_le_bytes()` for a `k`-byte integer. -/
def leBytes : Nat → Nat → Bytes
  | 0, _ => []
  | k + 1, n => UInt8.ofNat (n % 256) :: leBytes k (n / 256)

/-- `uN::from_le_bytes`. -/
def leVal : Bytes → Nat
  | [] => 0
  | b :: bs => b.toNat + 256 * leVal bs

/-- Number of set bits among the low 64 (`while mask != 0 { trailing_zeros; clear }`). -/
def popcount (mask : Nat) : Nat :=
  ((List.range 64).filter (fun i => mask.testBit i)).length

def U16 : Nat := 2 ^ 16
def U64 : Nat := 2 ^ 64
/-- `u8::MAX`: `TableId::index_bits()` is a `u8`. -/
def U8_MAX : Nat := 255

/-! ## configuration consulted by the validators -/

/-- Entry of `HashColumn::reindex.queue`. -/
inductive QEntry where
  | index (bits : Nat)
  | refCount (bits : Nat)
deriving DecidableEq, Repr

structure ColCfg where
  /-- `Column::Tree` (true) or `Column::Hash` (false). -/
  btree : Bool
  /-- `tables.index.id.index_bits()`. -/
  indexBits : Nat
  /-- `tables.ref_count.map(|t| t.id.index_bits())`. -/
  rcBits : Option Nat
  /-- `reindex.queue`, front first. -/
  queue : List QEntry
deriving DecidableEq, Repr

structure Cfg where
  /-- `db_version <= 4`: the V4 multipart markers are recognised. -/
  v4 : Bool
  cols : List ColCfg
deriving DecidableEq, Repr

def Cfg.setCol (cfg : Cfg) (c : Nat) (cc : ColCfg) : Cfg :=
  { cfg with cols := cfg.cols.set c cc }

/-- PATCH: `MAX_INDEX_BITS = ENTRY_BITS - CHUNK_ENTRIES_BITS - SIZE_TIERS_BITS - 1` (src/index.rs). -/
def maxIndexBits : Nat := INDEX_ENTRY_BITS - INDEX_CHUNK_ENTRIES_BITS - SIZE_TIERS_BITS - 1

def QEntry.bits : QEntry → Nat
  | .index b => b
  | .refCount b => b

/-- Every table of the column has at most `MAX_INDEX_BITS` index bits. -/
def ColCfg.sane (cc : ColCfg) : Bool :=
  decide (cc.indexBits ≤ maxIndexBits) && cc.rcBits.all (fun b => decide (b ≤ maxIndexBits)) &&
    cc.queue.all (fun q => decide (q.bits ≤ maxIndexBits))

/-- Assumption on the TABLE FILES found at open (not on the log): no index / ref-count table
    with more than `MAX_INDEX_BITS` (49) index bits.  The writer never creates one
    (`Entry::address_bits` would not fit), `validate_plan` refuses to (column.rs:1498, :1535);
    `Column::open` would accept files named up to 64 bits (column.rs:605). -/
def Cfg.Sane (cfg : Cfg) : Prop := cfg.cols.all ColCfg.sane = true

instance (cfg : Cfg) : Decidable cfg.Sane := by unfold Cfg.Sane; infer_instance

/-! ## records -/

inductive Action where
  /-- `INSERT_INDEX table chunk mask` + `popcount mask` entries of 8 bytes. -/
  | insertIndex (table chunk mask : Nat) (entries : Bytes)
  /-- `INSERT_VALUE table index` + the entry bytes (length derived from their first bytes). -/
  | insertValue (table index : Nat) (payload : Bytes)
  /-- `INSERT_REF_COUNT table chunk mask` + `popcount mask` entries of 16 bytes. -/
  | insertRefCount (table chunk mask : Nat) (entries : Bytes)
  | dropTable (table : Nat)
  | dropRefCountTable (table : Nat)
deriving DecidableEq, Repr

structure Record where
  id : Nat
  actions : List Action
deriving DecidableEq, Repr

/-! ## encoder: `LogChange::flush_to_file` -/

def encodeAction : Action → Bytes
  | .insertIndex t i m es =>
      leBytes 1 INSERT_INDEX ++ (leBytes 2 t ++ (leBytes 8 i ++ (leBytes 8 m ++ es)))
  | .insertValue t i p =>
      leBytes 1 INSERT_VALUE ++ (leBytes 2 t ++ (leBytes 8 i ++ p))
  | .insertRefCount t i m es =>
      leBytes 1 INSERT_REF_COUNT ++ (leBytes 2 t ++ (leBytes 8 i ++ (leBytes 8 m ++ es)))
  | .dropTable t => leBytes 1 DROP_TABLE ++ leBytes 2 t
  | .dropRefCountTable t => leBytes 1 DROP_REF_COUNT_TABLE ++ leBytes 2 t

def encodeActions : List Action → Bytes
  | [] => []
  | a :: as => encodeAction a ++ encodeActions as

/-- `BEGIN_RECORD id`: everything `Log::read_next` consumes. -/
def encodeHeader (id : Nat) : Bytes := leBytes 1 BEGIN_RECORD ++ leBytes 8 id

/-- All bytes covered by the checksum: header, actions, the `END_RECORD` opcode. -/
def encodeBody (r : Record) : Bytes :=
  encodeHeader r.id ++ (encodeActions r.actions ++ leBytes 1 END_RECORD)

def encodeRecord (crc : Bytes → Nat) (r : Record) : Bytes :=
  encodeBody r ++ leBytes 4 (crc (encodeBody r))

def encodeRecords (crc : Bytes → Nat) : List Record → Bytes
  | [] => []
  | r :: rs => encodeRecord crc r ++ encodeRecords crc rs

/-! ## `LogReader` -/

/-- `consumed`: bytes fed to the running CRC since the start of the record;
    `rest`: unread part of the file. -/
structure Reader where
  consumed : Bytes
  rest : Bytes
deriving DecidableEq, Repr

/-- `read_exact` of `n` bytes + `crc32.update`.  `none` = `Err(Io(UnexpectedEof))`. -/
def Reader.read (n : Nat) (rd : Reader) : Option (Bytes × Reader) :=
  if rd.rest.length < n then none
  else some (rd.rest.take n, ⟨rd.consumed ++ rd.rest.take n, rd.rest.drop n⟩)

/-- `read_exact` without CRC update (the stored checksum). -/
def Reader.readRaw (n : Nat) (rd : Reader) : Option (Bytes × Reader) :=
  if rd.rest.length < n then none
  else some (rd.rest.take n, ⟨rd.consumed, rd.rest.drop n⟩)

/-- Result of `LogReader::next`. -/
inductive Next where
  | ioErr                     -- Err(Io(UnexpectedEof))
  | badOpcode                 -- Err(Corruption("Bad log entry type"))
  | crcMismatch               -- Err(Corruption("Log record CRC-32 mismatch"))
  | begin (id : Nat) (rd : Reader)
  | insertIndex (t i : Nat) (rd : Reader)
  | insertValue (t i : Nat) (rd : Reader)
  | insertRefCount (t i : Nat) (rd : Reader)
  | dropTable (t : Nat) (rd : Reader)
  | dropRefCountTable (t : Nat) (rd : Reader)
  | endRecord (rd : Reader)
deriving DecidableEq, Repr

/-- `read_buf(2)` table id, `read_buf(8)` index. -/
def readTableIndex (rd : Reader) : Option (Nat × Nat × Reader) :=
  match rd.read 2 with
  | none => none
  | some (t, rd1) =>
    match rd1.read 8 with
    | none => none
    | some (i, rd2) => some (leVal t, leVal i, rd2)

def next (crc : Bytes → Nat) (rd : Reader) : Next :=
  match rd.read 1 with
  | none => .ioErr
  | some (op, rd1) =>
    let o := leVal op
    if o = BEGIN_RECORD then
      match rd1.read 8 with
      | none => .ioErr
      | some (b, rd2) => .begin (leVal b) rd2
    else if o = INSERT_INDEX then
      match readTableIndex rd1 with
      | none => .ioErr
      | some (t, i, rd2) => .insertIndex t i rd2
    else if o = INSERT_VALUE then
      match readTableIndex rd1 with
      | none => .ioErr
      | some (t, i, rd2) => .insertValue t i rd2
    else if o = INSERT_REF_COUNT then
      match readTableIndex rd1 with
      | none => .ioErr
      | some (t, i, rd2) => .insertRefCount t i rd2
    else if o = END_RECORD then
      match rd1.readRaw 4 with
      | none => .ioErr
      | some (c, rd2) =>
        if leVal c = crc rd1.consumed % 2 ^ 32 then .endRecord rd2 else .crcMismatch
    else if o = DROP_TABLE then
      match rd1.read 2 with
      | none => .ioErr
      | some (t, rd2) => .dropTable (leVal t) rd2
    else if o = DROP_REF_COUNT_TABLE then
      match rd1.read 2 with
      | none => .ioErr
      | some (t, rd2) => .dropRefCountTable (leVal t) rd2
    else .badOpcode

/-! ## validators (`validate_plan`) -/

/-- Outcome of a table-id check: the configuration may have changed (`trigger_reindex`)
    even when the check fails afterwards. -/
inductive Chk where
  | ok (cfg : Cfg)
  | err (cfg : Cfg)
  | panic
deriving DecidableEq, Repr

/-- `reindex.queue.iter().filter_map(Index).find(|r| r.id == table)`: bits of the first match. -/
def findIndexQ (c t : Nat) : List QEntry → Option Nat
  | [] => none
  | .index b :: q => if TableId.new c b = t then some b else findIndexQ c t q
  | .refCount _ :: q => findIndexQ c t q

def findRefCountQ (c t : Nat) : List QEntry → Option Nat
  | [] => none
  | .refCount b :: q => if TableId.new c b = t then some b else findRefCountQ c t q
  | .index _ :: q => findRefCountQ c t q

/-- The table lookup shared by `validate_plan` and `enact_plan` (column.rs:1479-1486 =
    :1420-1427): the current index table, else the first queued one with that id. -/
def lookupIndex (c : Nat) (cc : ColCfg) (t : Nat) : Option Nat :=
  if TableId.new c cc.indexBits = t then some cc.indexBits else findIndexQ c t cc.queue

/-- column.rs:1520-1527 = :1445-1452, for a column whose current ref-count table has `rb` bits. -/
def lookupRefCount (c rb : Nat) (queue : List QEntry) (t : Nat) : Option Nat :=
  if TableId.new c rb = t then some rb else findRefCountQ c t queue

/-- `index < self.id.total_chunks()`, `total_chunks = 1u64 << index_bits`; `RefCountTable` has
    the same `total_chunks`. -/
def chunkInRange (bits chunk : Nat) : Bool := decide (chunk < total_chunks bits)

/-- `IndexTable::validate_plan` / `RefCountTable::validate_plan`, first statement.
    GUARD index.rs:637, ref_count.rs:426: `index >= self.id.total_chunks()` is `Err`.
    PANIC SITE V4 index.rs:144, ref_count.rs:77: `1u64 << index_bits` overflows for
    `index_bits >= 64` (a debug build panics, a release build compares with the wrong bound). -/
def boundChk (cfg : Cfg) (bits chunk : Nat) : Chk :=
  if 64 ≤ bits then .panic
  else if chunkInRange bits chunk then .ok cfg else .err cfg

/-- `HashColumn::validate_plan(InsertIndex)` up to the table's own `validate_plan` bound.
    The recursion "Missing table, starting reindex" (`trigger_reindex` until the current id
    equals the record's id) is written in closed form: every step queues the current table
    and creates the next larger one, and stops exactly at `index_bits(t)` because the ids it
    walks through differ from `t` and are not in the queue.  (`index_bits() + 1` at
    column.rs:684 is PANIC SITE V7 below.) -/
def checkIndex (cfg : Cfg) (t chunk : Nat) : Chk :=
  let c := TableId.col t
  match cfg.cols[c]? with
  | none => .err cfg                                   -- GUARD (for E1) db.rs:1225 "Invalid column id"
  | some cc =>
    if cc.btree then .err cfg                          -- GUARD (for E3) btree/mod.rs:258 "Unexpected log action"
    else
      match lookupIndex c cc t with
      | some b => boundChk cfg b chunk
      | none =>
        let tb := TableId.index_bits t
        if tb < cc.indexBits then .ok cfg              -- write into a dropped index: `skip_plan` (fix f3abed6)
        else if tb > maxIndexBits then .err cfg        -- GUARD (for V4, V7, E5) column.rs:1498 "Bad log index id"
        -- PANIC SITE V7 column.rs:684 `tables.index.id.index_bits() + 1` on a `u8` (debug build: overflow
        -- panic; release build: wraps to 0): the recursion computes `b + 1` for every
        -- `b` in `cc.indexBits .. tb - 1`, so it overflows iff one of them is `u8::MAX`
        else if cc.indexBits < tb ∧ U8_MAX < tb then .panic
        else
          boundChk (cfg.setCol c
            { cc with indexBits := tb
                      queue := cc.queue ++ (List.range' cc.indexBits (tb - cc.indexBits)).map .index })
            tb chunk

/-- `HashColumn::validate_plan(InsertRefCount)`. -/
def checkRefCount (cfg : Cfg) (t chunk : Nat) : Chk :=
  let c := TableId.col t
  match cfg.cols[c]? with
  | none => .err cfg                                   -- GUARD db.rs:1259
  | some cc =>
    if cc.btree then .err cfg                          -- GUARD btree/mod.rs:258
    else
      match cc.rcBits with
      | none => .err cfg                               -- GUARD (for V5, V6, E4) column.rs:1517
      | some rb =>
        -- from here on `tables.ref_count` is `Some`: PANIC SITES V5 column.rs:102 (`get_ref_count()` at
        -- :1520, :1521, :1530 and :939-947 in `trigger_ref_count_reindex`) and V6 column.rs:951
        -- `old_table.unwrap()` (the old value of `tables.ref_count`, which `trigger_ref_count_reindex`
        -- replaces by `Some(new_table)`: it stays `Some` through the recursion) are not reachable
        match lookupRefCount c rb cc.queue t with
        | some b => boundChk cfg b chunk
        | none =>
          let tb := TableId.index_bits t
          if tb < rb then .err cfg                     -- "Unexpected log ref count id"
          else if tb > maxIndexBits then .err cfg      -- GUARD (for V4, V7, E5) column.rs:1535
          -- PANIC SITE V7 column.rs:947 `get_ref_count().id.index_bits() + 1` on a `u8`
          else if rb < tb ∧ U8_MAX < tb then .panic
          else
            boundChk (cfg.setCol c
              { cc with rcBits := some tb
                        queue := cc.queue ++ (List.range' rb (tb - rb)).map .refCount })
              tb chunk

/-- `ValueTableId::size_tier` = low byte (same layout as the index `TableId`). -/
def sizeTier (t : Nat) : Nat := TableId.index_bits t

/-- `SIZES.get(tier)`, `None => MULTIPART_ENTRY_SIZE` (`Column::open_table`, `ValueTable::open`). -/
def entrySize (tier : Nat) : Nat :=
  match SIZES[tier]? with
  | some s => s
  | none => MULTIPART_ENTRY_SIZE

def isMultipartTable (tier : Nat) : Bool := (SIZES[tier]?).isNone

/-- src/table.rs `MULTIPART_V4`, `MULTIHEAD_V4` (not exported by the translator). -/
def MULTIPART_V4 : List Nat := [255, 254]
def MULTIHEAD_V4 : List Nat := [255, 253]

/-- `Entry::is_multi`. -/
def isMulti (v4 : Bool) (m : List Nat) : Bool :=
  m == MULTIPART || (m == MULTIHEAD_COMPRESSED || m == MULTIHEAD) ||
    (v4 && (m == MULTIPART_V4 || m == MULTIHEAD_V4))

/-- Outcome of the length computation of one INSERT_VALUE. -/
inductive VLen where
  | ok (n : Nat)
  | err
  | panic
deriving DecidableEq, Repr

/-- `(size & !COMPRESSED_MASK)` of `Entry::read_size`. -/
def sizeField (b0 b1 : UInt8) : Nat := (b0.toNat + 256 * b1.toNat) &&& (65535 ^^^ COMPRESSED_MASK)

/-- Number of bytes `ValueTable::validate_plan` reads for one INSERT_VALUE, decided from the
    slot index and the first `SIZE_SIZE` bytes; `buf` is `[u8; MAX_ENTRY_BUF_SIZE]`.
    `.err`: EOF before the size bytes, or the GUARD. -/
def valueLen (v4 : Bool) (tier index : Nat) (payload : Bytes) : VLen :=
  if index = 0 then .ok (2 * INDEX_SIZE)               -- `Header([u8; 16])`
  else
    match payload with
    | b0 :: b1 :: _ =>
      let m := [b0.toNat, b1.toNat]
      if m = TOMBSTONE then .ok (SIZE_SIZE + INDEX_SIZE)
      else if isMultipartTable tier && isMulti v4 m then
        -- PANIC SITE V2 table.rs:1104 `&mut buf[SIZE_SIZE..entry_size]`
        if entrySize tier < SIZE_SIZE ∨ MAX_ENTRY_BUF_SIZE < entrySize tier then .panic
        else .ok (entrySize tier)
      else
        -- GUARD (for V3, E8, E10) table.rs:1108 "Bad entry size"
        if SIZE_SIZE + sizeField b0 b1 > entrySize tier then .err
        -- PANIC SITE V3 table.rs:1114 `&mut buf[SIZE_SIZE..SIZE_SIZE + len]`
        else if MAX_ENTRY_BUF_SIZE < SIZE_SIZE + sizeField b0 b1 then .panic
        else .ok (SIZE_SIZE + sizeField b0 b1)
    | _ => .err

/-- The same computation in `ValueTable::enact_plan` (table.rs:1059-1086): there is no length
    check in front of PANIC SITE E8 table.rs:1082 `&mut buf[SIZE_SIZE..SIZE_SIZE + len]`. -/
def enactValueLen (v4 : Bool) (tier index : Nat) (payload : Bytes) : VLen :=
  if index = 0 then .ok (2 * INDEX_SIZE)
  else
    match payload with
    | b0 :: b1 :: _ =>
      let m := [b0.toNat, b1.toNat]
      if m = TOMBSTONE then .ok (SIZE_SIZE + INDEX_SIZE)
      else if isMultipartTable tier && isMulti v4 m then
        if entrySize tier < SIZE_SIZE ∨ MAX_ENTRY_BUF_SIZE < entrySize tier then .panic   -- table.rs:1077
        else .ok (entrySize tier)
      else
        if MAX_ENTRY_BUF_SIZE < SIZE_SIZE + sizeField b0 b1 then .panic                   -- table.rs:1082
        else .ok (SIZE_SIZE + sizeField b0 b1)
    | _ => .err

/-- Result of validating one insert action. -/
inductive VRes where
  | ok (a : Action) (rd : Reader) (cfg : Cfg)
  | err (cfg : Cfg)
  | panic
deriving DecidableEq, Repr

def validateIndex (cfg : Cfg) (t chunk : Nat) (rd : Reader) : VRes :=
  match checkIndex cfg t chunk with
  | .panic => .panic
  | .err cfg' => .err cfg'
  | .ok cfg' =>
    match rd.read 8 with
    | none => .err cfg'
    | some (mb, rd1) =>
      match rd1.read (popcount (leVal mb) * INDEX_ENTRY_BYTES) with
      | none => .err cfg'
      | some (es, rd2) => .ok (.insertIndex t chunk (leVal mb) es) rd2 cfg'

def validateRefCount (cfg : Cfg) (t chunk : Nat) (rd : Reader) : VRes :=
  match checkRefCount cfg t chunk with
  | .panic => .panic
  | .err cfg' => .err cfg'
  | .ok cfg' =>
    match rd.read 8 with
    | none => .err cfg'
    | some (mb, rd1) =>
      -- GUARD (for E7) ref_count.rs:433 "Bad ref count mask": chunks have `RC_CHUNK_ENTRIES` = 32
      -- entries, the mask is a u64
      if leVal mb >>> RC_CHUNK_ENTRIES ≠ 0 then .err cfg'
      else
        match rd1.read (popcount (leVal mb) * RC_ENTRY_BYTES) with
        | none => .err cfg'
        | some (es, rd2) => .ok (.insertRefCount t chunk (leVal mb) es) rd2 cfg'

def validateValue (cfg : Cfg) (t index : Nat) (rd : Reader) : VRes :=
  match cfg.cols[TableId.col t]? with
  | none => .err cfg                                   -- GUARD (for E1) db.rs:1242
  | some _ =>
    -- PANIC SITE V1 column.rs:1514, btree/mod.rs:256 `tables.value[size_tier as usize]`
    if SIZE_TIERS ≤ sizeTier t then .panic
    else
      match valueLen cfg.v4 (sizeTier t) index rd.rest with
      | .panic => .panic
      | .err => .err cfg
      | .ok n =>
        match rd.read n with
        | none => .err cfg
        | some (p, rd') => .ok (.insertValue t index p) rd' cfg

/-- GUARD (for E2) db.rs:1275, :1282: `DropTable` / `DropRefCountTable` naming a column that
    does not exist is rejected in the validation pass. -/
def colExists (cfg : Cfg) (t : Nat) : Bool := (cfg.cols[TableId.col t]?).isSome

/-! ## the validation pass of one record: `enact_logs(validation_mode = true)`, db.rs:1190-1289 -/

inductive Reason where
  | badHeader         -- `read_next`: Corruption (first opcode is not BEGIN_RECORD / unknown)
  | sequence          -- "Log sequence error"
  | readError         -- `reader.next()` failed inside the validation loop
  | unexpectedBegin   -- "Unexpected log header"
  | validation        -- `validate_plan` failed (incl. EOF inside a payload) / bad column
deriving DecidableEq, Repr

/-- Does the rejection call `clear_replay_logs` (drop all remaining log files)? -/
def Reason.clears : Reason → Bool
  | .readError => false
  | _ => true

inductive LoopResult where
  | ok (actions : List Action) (rest : Bytes) (cfg : Cfg)
  | invalid (why : Reason) (cfg : Cfg)
  | panic
  | outOfFuel
deriving DecidableEq, Repr

/-- The validation loop.  One unit of fuel per action. -/
def validateLoop (crc : Bytes → Nat) : Nat → Cfg → Reader → List Action → LoopResult
  | 0, _, _, _ => .outOfFuel
  | fuel + 1, cfg, rd, acc =>
    match next crc rd with
    | .ioErr => .invalid .readError cfg
    | .badOpcode => .invalid .readError cfg
    | .crcMismatch => .invalid .readError cfg
    | .begin _ _ => .invalid .unexpectedBegin cfg
    | .endRecord rd' => .ok acc rd'.rest cfg
    | .insertIndex t i rd' =>
      match validateIndex cfg t i rd' with
      | .ok a rd'' cfg' => validateLoop crc fuel cfg' rd'' (acc ++ [a])
      | .err cfg' => .invalid .validation cfg'
      | .panic => .panic
    | .insertValue t i rd' =>
      match validateValue cfg t i rd' with
      | .ok a rd'' cfg' => validateLoop crc fuel cfg' rd'' (acc ++ [a])
      | .err cfg' => .invalid .validation cfg'
      | .panic => .panic
    | .insertRefCount t i rd' =>
      match validateRefCount cfg t i rd' with
      | .ok a rd'' cfg' => validateLoop crc fuel cfg' rd'' (acc ++ [a])
      | .err cfg' => .invalid .validation cfg'
      | .panic => .panic
    | .dropTable t rd' =>
      if colExists cfg t then validateLoop crc fuel cfg rd' (acc ++ [.dropTable t])
      else .invalid .validation cfg
    | .dropRefCountTable t rd' =>
      if colExists cfg t then validateLoop crc fuel cfg rd' (acc ++ [.dropRefCountTable t])
      else .invalid .validation cfg

/-- Result of the validation pass. -/
inductive VPass where
  /-- the whole record (CRC included) is acceptable; `cfg` after the validations -/
  | ok (r : Record) (rest : Bytes) (cfg : Cfg)
  /-- clean end of this log file (EOF before or inside the first opcode of a record) -/
  | endOfLog
  | invalid (why : Reason) (cfg : Cfg)
  | panic
  | outOfFuel
deriving DecidableEq, Repr

/-- `read_next`, sequence check, validation loop.  `lastEnacted < 2^64`.
    GUARD (for E9) db.rs:1193-1194: `Some(id) != last_enacted.checked_add(1) || id == u64::MAX`. -/
def validatePass (crc : Bytes → Nat) (cfg : Cfg) (lastEnacted : Nat) (bytes : Bytes) : VPass :=
  match next crc ⟨[], bytes⟩ with
  | .ioErr => .endOfLog
  | .begin id rd =>
    if id ≠ lastEnacted + 1 ∨ id = U64 - 1 then .invalid .sequence cfg
    else
      match validateLoop crc (bytes.length + 1) cfg rd [] with
      | .ok actions rest cfgV => .ok ⟨id, actions⟩ rest cfgV
      | .invalid why cfgV => .invalid why cfgV
      | .panic => .panic
      | .outOfFuel => .outOfFuel
  | _ => .invalid .badHeader cfg     -- "Bad log record structure" / bad opcode / CRC

/-! ## the apply pass of one record: db.rs:1290-1341 -/

/-- What the apply pass did with one action. -/
structure EAct where
  action : Action
  /-- inserts: `enact_plan` of a table (true) or `skip_plan` because the table is neither
      current nor queued any more (false); drops: the queue front was that table and has been
      removed (true) or "Dropping invalid index", nothing happens (false). -/
  enacted : Bool
deriving DecidableEq, Repr

/-- Result of applying one action. -/
inductive ERes where
  | ok (e : EAct) (rd : Reader) (cfg : Cfg)
  /-- an `Err` propagated by `?`: `Db::open` fails, earlier actions of the record stay applied -/
  | failed
  | panic
deriving DecidableEq, Repr

/-- `db.rs:1298-1301` + `HashColumn::enact_plan(InsertIndex)` + `IndexTable::enact_plan` /
    `skip_plan`. -/
def enactIndex (cfg : Cfg) (t chunk : Nat) (rd : Reader) : ERes :=
  let c := TableId.col t
  match cfg.cols[c]? with
  | none => .panic                                     -- PANIC SITE E1 db.rs:1299 `self.columns[col]`
  | some cc =>
    if cc.btree then .panic                            -- PANIC SITE E3 btree/mod.rs:247 `panic!`
    else
      match lookupIndex c cc t with
      | some b =>
        -- PANIC SITE E5 index.rs:606 `file_size(index_bits)` (evaluated when the table has no
        -- file yet; the model does not know, so: always): `(1u64 << b) * 64 * 8 + META_SIZE`
        if U64 ≤ 2 ^ b * (INDEX_CHUNK_ENTRIES * INDEX_ENTRY_BYTES) + INDEX_META_SIZE then .panic
        -- PANIC SITE E6 index.rs:614-620: chunk `index` has to lie inside the mapping of
        -- `file_size(b)` bytes, i.e. `index < total_chunks`
        else if !chunkInRange b chunk then .panic
        else
          match rd.read 8 with
          | none => .failed
          | some (mb, rd1) =>
            match rd1.read (popcount (leVal mb) * INDEX_ENTRY_BYTES) with
            | none => .failed
            | some (es, rd2) => .ok ⟨.insertIndex t chunk (leVal mb) es, true⟩ rd2 cfg
      | none =>
        match rd.read 8 with                           -- `IndexTable::skip_plan`
        | none => .failed
        | some (mb, rd1) =>
          match rd1.read (popcount (leVal mb) * INDEX_ENTRY_BYTES) with
          | none => .failed
          | some (es, rd2) => .ok ⟨.insertIndex t chunk (leVal mb) es, false⟩ rd2 cfg

/-- `db.rs:1306-1309` + `HashColumn::enact_plan(InsertRefCount)` + `RefCountTable::enact_plan`
    / `skip_plan`. -/
def enactRefCount (cfg : Cfg) (t chunk : Nat) (rd : Reader) : ERes :=
  let c := TableId.col t
  match cfg.cols[c]? with
  | none => .panic                                     -- PANIC SITE E1 db.rs:1307
  | some cc =>
    if cc.btree then .panic                            -- PANIC SITE E3 btree/mod.rs:247
    else
      match cc.rcBits with
      | none => .panic                                 -- PANIC SITE E4 column.rs:102 via :1445
      | some rb =>
        match lookupRefCount c rb cc.queue t with
        | some b =>
          -- PANIC SITE E5 ref_count.rs:395 `file_size`: `(1u64 << b) * 32 * 16`
          if U64 ≤ 2 ^ b * (RC_CHUNK_ENTRIES * RC_ENTRY_BYTES) + RC_META_SIZE then .panic
          else if !chunkInRange b chunk then .panic    -- PANIC SITE E6 ref_count.rs:403-409
          else
            match rd.read 8 with
            | none => .failed
            | some (mb, rd1) =>
              -- PANIC SITE E7 ref_count.rs:418 `&mut chunk[i * 16..(i + 1) * 16]` for a mask bit
              -- `i >= 32` (the chunk has 512 bytes); over-approximated: the lower entries may
              -- run into EOF first
              if leVal mb >>> RC_CHUNK_ENTRIES ≠ 0 then .panic
              else
                match rd1.read (popcount (leVal mb) * RC_ENTRY_BYTES) with
                | none => .failed
                | some (es, rd2) => .ok ⟨.insertRefCount t chunk (leVal mb) es, true⟩ rd2 cfg
        | none =>
          match rd.read 8 with                         -- `RefCountTable::skip_plan`
          | none => .failed
          | some (mb, rd1) =>
            match rd1.read (popcount (leVal mb) * RC_ENTRY_BYTES) with
            | none => .failed
            | some (es, rd2) => .ok ⟨.insertRefCount t chunk (leVal mb) es, false⟩ rd2 cfg

/-! ### the value-table file under `ValueTable::enact_plan` (site E10)

`enact_plan` writes through `TableFile::write_at` (file.rs:168-182): `map.as_ref().unwrap()`, then
a raw `ptr.add(offset)` + `copy_from_slice` of `buf.len()` bytes with NO bounds check.  Its
preconditions are (a) the file is mapped and (b) the bytes `offset .. offset + len` belong to the
slot being written: `offset = index * entry_size`, so `len ≤ entry_size`, and slot `index` lies
inside the file, `(index + 1) * entry_size ≤ file length ≤ map length`.  What establishes (a)
and the second half of (b) is the loop `while index >= capacity { grow }` (table.rs:1056-1058),
modelled literally below (`VFile`, `growLoop`; `Pdb.Proofs.C13Enact.growLoop_post`).  What
establishes `len ≤ entry_size` is NOTHING in `enact_plan`: only the check of the VALIDATION pass
(table.rs:1108 "Bad entry size") for plain entries, and constants for the other three shapes. -/

/-- `TableFile`: `map` is `Some` (`mapped`) and the length of the file; `capacity` is derived
    (`open`: `len / entry_size`, `grow`: `new_len / entry_size`).  `TableFile::open` leaves
    `map = None` exactly when the file does not exist, with `capacity = 0`. -/
structure VFile where
  mapped : Bool
  len : Nat
deriving DecidableEq, Repr

def VFile.capacity (f : VFile) (es : Nat) : Nat := if f.mapped then f.len / es else 0

/-- file.rs `GROW_SIZE_BYTES` (not exported by the translator). -/
def GROW_SIZE_BYTES : Nat := 256 * 1024

/-- `TableFile::grow` (file.rs:184-209) when its I/O succeeds. -/
def VFile.grow (f : VFile) : VFile :=
  if f.mapped then ⟨true, f.len + GROW_SIZE_BYTES⟩ else ⟨true, GROW_SIZE_BYTES⟩

/-- `while index >= self.file.capacity { self.file.grow(self.entry_size)? }` (table.rs:1056-1058);
    `none`: out of fuel.  (The number of iterations is driven by the slot index of a record with
    a valid checksum: resource exhaustion, not modelled, see the file header.) -/
def growLoop (es index : Nat) : Nat → VFile → Option VFile
  | 0, _ => none
  | fuel + 1, f => if f.capacity es ≤ index then growLoop es index fuel f.grow else some f

/-- The precondition of the `write_at` of `len` bytes into slot `index` of a table with entry size
    `es` whose file is `f`: mapped, and the bytes written belong to that slot, which lies inside
    the file. -/
def VFile.writeOk (f : VFile) (es index len : Nat) : Prop :=
  f.mapped = true ∧ len ≤ es ∧ (index + 1) * es ≤ f.len

/-- `db.rs:1302-1305` + `enact_plan(InsertValue)` (hash and btree columns alike) +
    `ValueTable::enact_plan`.  The file growth (`while index >= capacity`) is modelled apart
    (`growLoop`); its postcondition (`growLoop_post`) leaves exactly one condition of
    `VFile.writeOk` open, the one tested here. -/
def enactValue (cfg : Cfg) (t index : Nat) (rd : Reader) : ERes :=
  match cfg.cols[TableId.col t]? with
  | none => .panic                                     -- PANIC SITE E1 db.rs:1303
  | some _ =>
    if SIZE_TIERS ≤ sizeTier t then .panic             -- PANIC SITE V1 column.rs:1442, btree/mod.rs:245
    else
      match enactValueLen cfg.v4 (sizeTier t) index rd.rest with
      | .panic => .panic
      | .err => .failed
      | .ok n =>
        match rd.read n with
        | none => .failed
        | some (p, rd') =>
          -- PANIC SITE E10 file.rs:168-182 `TableFile::write_at(&buf[0..n], index * entry_size)`
          -- (called from table.rs:1062, :1073, :1078, :1084): `ptr.add(offset)` +
          -- `copy_from_slice` of `n` bytes, unchecked: with `n > entry_size` the write runs
          -- over the following slots and, for the last slot, past the end of the file (UB /
          -- SIGBUS, not a Rust panic).  No check in `enact_plan`.
          if entrySize (sizeTier t) < n then .panic
          else .ok ⟨.insertValue t index p, true⟩ rd' cfg

/-- Is the queue front that table?  (`drop_index` column.rs:2012-2018, `drop_ref_count`
    :2038-2044). -/
def frontIs (cc : ColCfg) (c t : Nat) (isIndex : Bool) : Bool :=
  match cc.queue with
  | .index b :: _ => isIndex && decide (TableId.new c b = t)
  | .refCount b :: _ => !isIndex && decide (TableId.new c b = t)
  | [] => false

/-- `HashColumn::drop_index` / `drop_ref_count`: pop the queue front if it is that table. -/
def dropFront (cfg : Cfg) (t : Nat) (isIndex : Bool) : Cfg :=
  let c := TableId.col t
  match cfg.cols[c]? with
  | none => cfg
  | some cc =>
    if cc.btree then cfg
    else if frontIs cc c t isIndex then cfg.setCol c { cc with queue := cc.queue.tail } else cfg

/-- Did `dropFront` remove a table? -/
def dropsTable (cfg : Cfg) (t : Nat) (isIndex : Bool) : Bool :=
  match cfg.cols[TableId.col t]? with
  | none => false
  | some cc => !cc.btree && frontIs cc (TableId.col t) t isIndex

/-- `db.rs:1310-1339`.  With the fix "`drop_file` of a table that was never created" (in HEAD) `drop_file`
    cannot fail for a reason that depends on the bytes (unpatched: `remove_file` of a table
    queued by `trigger_reindex` and never written returns `Err(Io(NotFound))`). -/
def enactDrop (cfg : Cfg) (t : Nat) (isIndex : Bool) (rd : Reader) : ERes :=
  match cfg.cols[TableId.col t]? with
  | none => .panic                                     -- PANIC SITE E2 db.rs:1316, :1331
  | some _ =>
    .ok ⟨if isIndex then .dropTable t else .dropRefCountTable t, dropsTable cfg t isIndex⟩ rd
      (dropFront cfg t isIndex)

inductive EPass where
  | ok (effects : List EAct) (rest : Bytes) (cfg : Cfg)
  | failed
  | panic
  | outOfFuel
deriving DecidableEq, Repr

/-- The apply loop.  One unit of fuel per action. -/
def enactLoop (crc : Bytes → Nat) : Nat → Cfg → Reader → List EAct → EPass
  | 0, _, _, _ => .outOfFuel
  | fuel + 1, cfg, rd, acc =>
    match next crc rd with
    | .ioErr => .failed                                -- `reader.next()?` db.rs:1294
    | .badOpcode => .failed
    | .crcMismatch => .failed
    | .begin _ _ => .failed                            -- db.rs:1296 "Bad log record"
    | .endRecord rd' => .ok acc rd'.rest cfg
    | .insertIndex t i rd' =>
      match enactIndex cfg t i rd' with
      | .ok e rd'' cfg' => enactLoop crc fuel cfg' rd'' (acc ++ [e])
      | .failed => .failed
      | .panic => .panic
    | .insertValue t i rd' =>
      match enactValue cfg t i rd' with
      | .ok e rd'' cfg' => enactLoop crc fuel cfg' rd'' (acc ++ [e])
      | .failed => .failed
      | .panic => .panic
    | .insertRefCount t i rd' =>
      match enactRefCount cfg t i rd' with
      | .ok e rd'' cfg' => enactLoop crc fuel cfg' rd'' (acc ++ [e])
      | .failed => .failed
      | .panic => .panic
    | .dropTable t rd' =>
      match enactDrop cfg t true rd' with
      | .ok e rd'' cfg' => enactLoop crc fuel cfg' rd'' (acc ++ [e])
      | .failed => .failed
      | .panic => .panic
    | .dropRefCountTable t rd' =>
      match enactDrop cfg t false rd' with
      | .ok e rd'' cfg' => enactLoop crc fuel cfg' rd'' (acc ++ [e])
      | .failed => .failed
      | .panic => .panic

/-- The reader after whatever `reader.next()` returned `Ok` for. -/
def Next.reader? : Next → Option Reader
  | .ioErr => none
  | .badOpcode => none
  | .crcMismatch => none
  | .begin _ rd => some rd
  | .insertIndex _ _ rd => some rd
  | .insertValue _ _ rd => some rd
  | .insertRefCount _ _ rd => some rd
  | .dropTable _ rd => some rd
  | .dropRefCountTable _ rd => some rd
  | .endRecord rd => some rd

/-- `reader.reset()?; reader.next()?;` (db.rs:1290-1291: the header again, whatever it is) and
    the apply loop, in the configuration `cfgV` the validation pass left. -/
def enactPass (crc : Bytes → Nat) (cfgV : Cfg) (bytes : Bytes) : EPass :=
  match (next crc ⟨[], bytes⟩).reader? with
  | none => .failed
  | some rd => enactLoop crc (bytes.length + 1) cfgV rd []

/-! ### the apply pass on parsed actions (specification side; `Pdb.Proofs.C13Enact` proves that
    the byte-level `enactLoop` does exactly this after a successful validation pass) -/

/-- Configuration effect of one action: only the drops change it. -/
def applyCfg (cfg : Cfg) : Action → Cfg
  | .dropTable t => dropFront cfg t true
  | .dropRefCountTable t => dropFront cfg t false
  | _ => cfg

def applyPass (cfg : Cfg) (actions : List Action) : Cfg := actions.foldl applyCfg cfg

/-- Is the action enacted (as opposed to skipped / ignored) in configuration `cfg`? -/
def isEnacted (cfg : Cfg) : Action → Bool
  | .insertIndex t _ _ _ =>
    ((cfg.cols[TableId.col t]?).bind (fun cc => lookupIndex (TableId.col t) cc t)).isSome
  | .insertRefCount t _ _ _ =>
    ((cfg.cols[TableId.col t]?).bind (fun cc =>
      cc.rcBits.bind (fun rb => lookupRefCount (TableId.col t) rb cc.queue t))).isSome
  | .insertValue _ _ _ => true
  | .dropTable t => dropsTable cfg t true
  | .dropRefCountTable t => dropsTable cfg t false

/-- The effects of the apply pass, each action in the configuration the earlier ones left. -/
def effectsOf : Cfg → List Action → List EAct
  | _, [] => []
  | cfg, a :: as => ⟨a, isEnacted cfg a⟩ :: effectsOf (applyCfg cfg a) as

/-! ## one record: `enact_logs(validation_mode = true)` -/

inductive ParseResult where
  /-- record validated as a whole (incl. CRC) and then applied; `cfg` after the apply pass -/
  | ok (r : Record) (effects : List EAct) (rest : Bytes) (cfg : Cfg)
  /-- clean end of this log file -/
  | endOfLog
  | invalid (why : Reason) (cfg : Cfg)
  /-- the apply pass returned `Err`: `Db::open` fails after applying part of the record -/
  | applyFailed
  | panic
  | outOfFuel
deriving DecidableEq, Repr

/-- One `enact_logs(true)` call.  The apply pass starts only when the validation pass has
    accepted the whole record.  PANIC SITE E9 log.rs:886 `end_read`: `record_id + 1`. -/
def parseRecord (crc : Bytes → Nat) (cfg : Cfg) (lastEnacted : Nat) (bytes : Bytes) : ParseResult :=
  match validatePass crc cfg lastEnacted bytes with
  | .ok r _ cfgV =>
    match enactPass crc cfgV bytes with
    | .ok effects rest cfg' => if r.id + 1 < U64 then .ok r effects rest cfg' else .panic
    | .failed => .applyFailed
    | .panic => .panic
    | .outOfFuel => .outOfFuel
  | .endOfLog => .endOfLog
  | .invalid why cfg' => .invalid why cfg'
  | .panic => .panic
  | .outOfFuel => .outOfFuel

/-! ## a log file, all log files -/

inductive Stop where
  | endOfLog
  | invalid (why : Reason)
  | applyFailed
  | panic
  | outOfFuel
deriving DecidableEq, Repr

/-- `clear_replay_logs` was called: the remaining files are not read. -/
def Stop.clears : Stop → Bool
  | .invalid why => why.clears
  | _ => false

/-- `Db::open` does not get past this file (error return or panic). -/
def Stop.aborts : Stop → Bool
  | .applyFailed => true
  | .panic => true
  | .outOfFuel => true
  | _ => false

/-- What happened to one log file. -/
structure FileReport where
  /-- records enacted from this file, in order -/
  applied : List Record
  /-- what the apply passes did, action by action -/
  effects : List EAct
  /-- unread remainder: starts at the first record that was not accepted -/
  tail : Bytes
  stop : Stop
deriving DecidableEq, Repr

/-- Table state `σ` with an arbitrary per-action write function `step`: the model touches it
    only by folding `step` over the effects of an accepted record. -/
structure RState (σ : Type) where
  cfg : Cfg
  lastEnacted : Nat
  tables : σ

/-- `while self.enact_logs(true)? {}` on the file currently being read. -/
def replayFileWith {σ : Type} (step : σ → EAct → σ) (crc : Bytes → Nat) :
    Nat → RState σ → Bytes → List Record → List EAct → RState σ × FileReport
  | 0, st, bytes, acc, eacc => (st, ⟨acc, eacc, bytes, .outOfFuel⟩)
  | fuel + 1, st, bytes, acc, eacc =>
    match parseRecord crc st.cfg st.lastEnacted bytes with
    | .ok r effects rest cfg' =>
      replayFileWith step crc fuel ⟨cfg', r.id, effects.foldl step st.tables⟩ rest (acc ++ [r])
        (eacc ++ effects)
    | .endOfLog => (st, ⟨acc, eacc, bytes, .endOfLog⟩)
    | .invalid why cfg' => ({ st with cfg := cfg' }, ⟨acc, eacc, bytes, .invalid why⟩)
    | .applyFailed => (st, ⟨acc, eacc, bytes, .applyFailed⟩)
    | .panic => (st, ⟨acc, eacc, bytes, .panic⟩)
    | .outOfFuel => (st, ⟨acc, eacc, bytes, .outOfFuel⟩)

/-- `replay_all_logs` over the replay queue (already ordered). -/
def replaySortedWith {σ : Type} (step : σ → EAct → σ) (crc : Bytes → Nat) :
    RState σ → List Bytes → RState σ × List FileReport
  | st, [] => (st, [])
  | st, f :: fs =>
    let (st1, rep) := replayFileWith step crc (f.length + 1) st f [] []
    -- clear_replay_logs: remaining files dropped; error / panic: `Db::open` is over
    if rep.stop.clears || rep.stop.aborts then (st1, [rep])
    else
      let (st2, reps) := replaySortedWith step crc st1 fs
      (st2, rep :: reps)

/-- `Log::read_first_record_id`: bytes 1..9 of the file, whatever byte 0 is;
    `None` for empty files and files shorter than 9 bytes (removed by `Log::open`). -/
def firstId (f : Bytes) : Option Nat :=
  if f.length < 9 then none else some (leVal ((f.drop 1).take 8))

/-- Stable insertion by first record id (`sort_by_key` is stable): `f` precedes, in directory
    order, every file already in the list, so it goes before the first key `≥ k`. -/
def insertFile (k : Nat) (f : Bytes) : List (Nat × Bytes) → List (Nat × Bytes)
  | [] => [(k, f)]
  | (k', f') :: l => if k ≤ k' then (k, f) :: (k', f') :: l else (k', f') :: insertFile k f l

/-- `Log::open`: the replay queue, given the files in directory order. -/
def orderFilesKeyed : List Bytes → List (Nat × Bytes)
  | [] => []
  | f :: fs =>
    match firstId f with
    | none => orderFilesKeyed fs
    | some k => insertFile k f (orderFilesKeyed fs)

def orderFiles (files : List Bytes) : List Bytes := (orderFilesKeyed files).map (·.2)

/-- `DbInner::open`: `log.replay_record_id().unwrap_or(2).saturating_sub(1)`. -/
def initialLastEnacted (files : List Bytes) : Nat :=
  match orderFilesKeyed files with
  | [] => 2 - 1
  | (k, _) :: _ => k - 1

structure ReplayResult where
  reports : List FileReport
  lastEnacted : Nat
  cfg : Cfg
deriving DecidableEq, Repr

def ReplayResult.applied (r : ReplayResult) : List Record := r.reports.flatMap (·.applied)

def ReplayResult.effects (r : ReplayResult) : List EAct := r.reports.flatMap (·.effects)

/-- Did replay end with `clear_replay_logs` because of a rejected record? -/
def ReplayResult.cleared (r : ReplayResult) : Bool := r.reports.any (·.stop.clears)

/-- The Rust would panic (or leave a mapping) somewhere during this replay. -/
def ReplayResult.panicked (r : ReplayResult) : Bool := r.reports.any (·.stop == .panic)

/-- The model ran out of fuel somewhere (artefact of the model, never of the Rust). -/
def ReplayResult.outOfFuel (r : ReplayResult) : Bool := r.reports.any (·.stop == .outOfFuel)

/-- An apply pass returned `Err`: `Db::open` fails with part of a record applied. -/
def ReplayResult.applyFailed (r : ReplayResult) : Bool := r.reports.any (·.stop == .applyFailed)

def replaySorted (crc : Bytes → Nat) (cfg : Cfg) (lastEnacted : Nat) (files : List Bytes) :
    ReplayResult :=
  let (st, reps) := replaySortedWith (σ := Unit) (fun _ _ => ()) crc ⟨cfg, lastEnacted, ()⟩ files
  ⟨reps, st.lastEnacted, st.cfg⟩

/-- `Log::open` + `replay_all_logs` with `last_enacted` given. -/
def replay (crc : Bytes → Nat) (cfg : Cfg) (lastEnacted : Nat) (files : List Bytes) : ReplayResult :=
  replaySorted crc cfg lastEnacted (orderFiles files)

/-- `Db::open`: `last_enacted` derived from the oldest log file. -/
def replayOpen (crc : Bytes → Nat) (cfg : Cfg) (files : List Bytes) : ReplayResult :=
  replay crc cfg (initialLastEnacted files) files

/-- The tables after `Db::open`, for a table state `T` and a write function `step`. -/
def replayOpenWith {σ : Type} (step : σ → EAct → σ) (crc : Bytes → Nat) (cfg : Cfg) (T : σ)
    (files : List Bytes) : σ :=
  (replaySortedWith step crc ⟨cfg, initialLastEnacted files, T⟩ (orderFiles files)).1.tables

/-! ## well-formed records (specification side of the codec theorems) -/

/-- Abstract validation of one action against the configuration: table ids valid for `cfg`,
    field widths, payload lengths consistent with what the parser derives.  Returns the
    configuration after the validation (it may have triggered a reindex). -/
def validAction (cfg : Cfg) : Action → Option Cfg
  | .insertIndex t i m es =>
    if t < U16 ∧ i < U64 ∧ m < U64 ∧ es.length = popcount m * INDEX_ENTRY_BYTES then
      match checkIndex cfg t i with
      | .ok cfg' => some cfg'
      | _ => none
    else none
  | .insertValue t i p =>
    if t < U16 ∧ i < U64 ∧ (cfg.cols[TableId.col t]?).isSome ∧
        valueLen cfg.v4 (sizeTier t) i p = .ok p.length then some cfg
    else none
  | .insertRefCount t i m es =>
    if t < U16 ∧ i < U64 ∧ m < U64 ∧ m >>> RC_CHUNK_ENTRIES = 0 ∧
        es.length = popcount m * RC_ENTRY_BYTES then
      match checkRefCount cfg t i with
      | .ok cfg' => some cfg'
      | _ => none
    else none
  | .dropTable t => if t < U16 ∧ colExists cfg t then some cfg else none
  | .dropRefCountTable t => if t < U16 ∧ colExists cfg t then some cfg else none

/-- Validation of the whole action list, threading the configuration. -/
def validActions : Cfg → List Action → Option Cfg
  | cfg, [] => some cfg
  | cfg, a :: as =>
    match validAction cfg a with
    | some cfg' => validActions cfg' as
    | none => none

/-- A record the validators accept in configuration `cfg`. -/
def WellFormed (cfg : Cfg) (r : Record) : Prop :=
  r.id < U64 - 1 ∧ (validActions cfg r.actions).isSome

instance (cfg : Cfg) (r : Record) : Decidable (WellFormed cfg r) := by
  unfold WellFormed; infer_instance

/-- Configuration after `r` has been validated and applied. -/
def cfgAfter (cfg : Cfg) (r : Record) : Cfg :=
  match validActions cfg r.actions with
  | some cfgV => applyPass cfgV r.actions
  | none => cfg

/-- What the apply pass of `r` does, action by action (validated in `cfg`). -/
def recEffects (cfg : Cfg) (r : Record) : List EAct :=
  match validActions cfg r.actions with
  | some cfgV => effectsOf cfgV r.actions
  | none => []

/-! ## table contents: locations and after-images (used by the driver and by
    `Pdb.Proofs.C13Tables`) -/

/-- (kind, table id, slot / chunk, sub-entry): kind 0 = value slot, 1 = index entry,
    2 = ref-count entry. -/
abbrev Loc := Nat × Nat × Nat × Nat

/-- Positions of the set bits among the low 64, ascending (`trailing_zeros` order). -/
def setBits (mask : Nat) : List Nat := (List.range 64).filter (fun i => mask.testBit i)

/-- Cut into pieces of `n` bytes (one unit of fuel per piece). -/
def pieces (n : Nat) : Nat → Bytes → List Bytes
  | 0, _ => []
  | k + 1, bs => bs.take n :: pieces n k (bs.drop n)

/-- The after-images an action writes. -/
def Action.writes : Action → List (Loc × Bytes)
  | .insertValue t i p => [((0, t, i, 0), p)]
  | .insertIndex t c m es =>
    ((setBits m).zip (pieces INDEX_ENTRY_BYTES (popcount m) es)).map fun be => ((1, t, c, be.1), be.2)
  | .insertRefCount t c m es =>
    ((setBits m).zip (pieces RC_ENTRY_BYTES (popcount m) es)).map fun be => ((2, t, c, be.1), be.2)
  | .dropTable _ => []
  | .dropRefCountTable _ => []

/-! ## driver -/

/-- Standard reflected CRC-32 (poly 0xEDB88320, init/xorout 0xFFFFFFFF) = `crc32fast`. -/
def crc32Step (c : UInt32) (b : UInt8) : UInt32 :=
  let c := c ^^^ b.toUInt32
  let f := fun (c : UInt32) => if c &&& 1 = 1 then (c >>> 1) ^^^ 0xEDB88320 else c >>> 1
  f (f (f (f (f (f (f (f c)))))))

def crc32 (bs : Bytes) : Nat := ((bs.foldl crc32Step 0xFFFFFFFF) ^^^ 0xFFFFFFFF).toNat

def hexDigit (c : Char) : Option Nat :=
  if '0' ≤ c ∧ c ≤ '9' then some (c.toNat - '0'.toNat)
  else if 'a' ≤ c ∧ c ≤ 'f' then some (c.toNat - 'a'.toNat + 10)
  else if 'A' ≤ c ∧ c ≤ 'F' then some (c.toNat - 'A'.toNat + 10)
  else none

def parseHexChars : List Char → Option Bytes
  | [] => some []
  | [_] => none
  | a :: b :: cs =>
    match hexDigit a, hexDigit b, parseHexChars cs with
    | some x, some y, some r => some (UInt8.ofNat (16 * x + y) :: r)
    | _, _, _ => none

def parseHex (s : String) : Option Bytes :=
  if s = "-" then some [] else parseHexChars s.toList

def hexNat (n : Nat) : String := String.ofList (Nat.toDigits 16 n)

def parseQEntry (s : String) : Option QEntry :=
  match s.toList with
  | 'i' :: ds => (String.ofList ds).toNat?.map .index
  | 'r' :: ds => (String.ofList ds).toNat?.map .refCount
  | _ => none

def parseQueue (s : String) : Option (List QEntry) :=
  if s = "" then some [] else (s.splitOn ".").mapM parseQEntry

def parseCol (s : String) : Option ColCfg :=
  match s.splitOn "," with
  | ["b"] => some ⟨true, 0, none, []⟩
  | ["h", ib, rc, q] =>
    match ib.toNat?, (if rc = "-" then some none else rc.toNat?.map some), parseQueue q with
    | some ib, some rc, some q => some ⟨false, ib, rc, q⟩
    | _, _, _ => none
  | _ => none

def parseCfg (s : String) : Option Cfg :=
  match s.splitOn "/" with
  | v :: cols =>
    match (if v = "0" then some false else if v = "1" then some true else none), cols.mapM parseCol with
    | some v4, some cs => some ⟨v4, cs⟩
    | _, _ => none
  | [] => none

def renderQEntry : QEntry → String
  | .index b => s!"i{b}"
  | .refCount b => s!"r{b}"

def renderCol (c : ColCfg) : String :=
  if c.btree then "b"
  else
    let rc := match c.rcBits with | none => "-" | some b => toString b
    s!"h,{c.indexBits},{rc},{".".intercalate (c.queue.map renderQEntry)}"

def renderCfg (c : Cfg) : String :=
  "/".intercalate ((if c.v4 then "1" else "0") :: c.cols.map renderCol)

def renderAction : Action → String
  | .insertIndex t i m es => s!"I{t}@{i}#{hexNat m}+{es.length}~{hexNat (crc32 es)}"
  | .insertValue t i p => s!"V{t}@{i}+{p.length}~{hexNat (crc32 p)}"
  | .insertRefCount t i m es => s!"R{t}@{i}#{hexNat m}+{es.length}~{hexNat (crc32 es)}"
  | .dropTable t => s!"D{t}"
  | .dropRefCountTable t => s!"C{t}"

def renderRecord (r : Record) : String :=
  s!"{r.id}:[{",".intercalate (r.actions.map renderAction)}]"

def renderStop : Stop → String
  | .endOfLog => "eof"
  | .invalid .badHeader => "bad-header"
  | .invalid .sequence => "sequence"
  | .invalid .readError => "read-error"
  | .invalid .unexpectedBegin => "unexpected-begin"
  | .invalid .validation => "validation"
  | .applyFailed => "apply-failed"
  | .panic => "panic"
  | .outOfFuel => "out-of-fuel"

def renderReport (rep : FileReport) : String :=
  String.join (rep.applied.map (fun r => renderRecord r ++ " ")) ++ "stop=" ++ renderStop rep.stop

/-! ### concrete table contents for `replaytab` -/

/-- Cells of the tables the driver tracks: location ↦ content (absent = all zero). -/
abbrev DTab := List (Loc × Bytes)

def DTab.get (T : DTab) (l : Loc) : Option Bytes := (T.find? (fun c => c.1 == l)).map (·.2)

def DTab.set (T : DTab) (l : Loc) (v : Bytes) : DTab :=
  (l, v) :: T.filter (fun c => !(c.1 == l))

/-- A value entry replaces a prefix of the slot, an index / ref-count entry the whole entry. -/
def DTab.write (T : DTab) (w : Loc × Bytes) : DTab :=
  if w.1.1 = 0 then
    T.set w.1 (w.2 ++ ((T.get w.1).getD []).drop w.2.length)
  else T.set w.1 w.2

/-- `enact_plan` / `skip_plan` / `drop_index` / `drop_ref_count` on the cells. -/
def stepD (T : DTab) (e : EAct) : DTab :=
  if !e.enacted then T
  else
    match e.action with
    | .dropTable t => T.filter (fun c => !(c.1.1 == 1 && c.1.2.1 == t))
    | .dropRefCountTable t => T.filter (fun c => !(c.1.1 == 2 && c.1.2.1 == t))
    | a => a.writes.foldl DTab.write T

/-- Index tables that exist in the configuration: current table and queued ones. -/
def liveIndexTables (cfg : Cfg) : List Nat :=
  (cfg.cols.zipIdx).flatMap fun (cc, c) =>
    if cc.btree then []
    else TableId.new c cc.indexBits ::
      cc.queue.filterMap (fun q => match q with | .index b => some (TableId.new c b) | .refCount _ => none)

def hexByte (b : UInt8) : String :=
  let d := fun (n : Nat) => (Nat.toDigits 16 n).headD '0'
  String.ofList [d (b.toNat / 16), d (b.toNat % 16)]

def hexBytes (bs : Bytes) : String := String.join (bs.map hexByte)

def locLe (a b : Loc) : Bool :=
  a.2.1 < b.2.1 || (a.2.1 == b.2.1 && (a.2.2.1 < b.2.2.1 || (a.2.2.1 == b.2.2.1 && a.2.2.2 ≤ b.2.2.2)))

/-- `idx=<count>:<crc>` over the non-zero entries of the live index tables. -/
def idxDigest (cfg : Cfg) (T : DTab) : String :=
  let live := liveIndexTables cfg
  let cells := T.filter (fun c => c.1.1 == 1 && live.contains c.1.2.1 && c.2.any (· ≠ 0))
  let sorted := cells.mergeSort (fun a b => locLe a.1 b.1)
  let text := String.join (sorted.map fun c => s!"{c.1.2.1}@{c.1.2.2.1}.{c.1.2.2.2}={hexBytes c.2};")
  s!"idx={sorted.length}:{hexNat (crc32 text.toUTF8.toList)}"

def parseCell (s : String) : Option (Loc × Bytes) :=
  match s.toList with
  | 'I' :: rest =>
    match (String.ofList rest).splitOn "=" with
    | [l, v] =>
      match l.splitOn "@" with
      | [t, cs] =>
        match cs.splitOn "." with
        | [c, sub] =>
          match t.toNat?, c.toNat?, sub.toNat?, parseHex v with
          | some t, some c, some sub, some v => some ((1, t, c, sub), v)
          | _, _, _, _ => none
        | _ => none
      | _ => none
    | _ => none
  | 'V' :: rest =>
    match (String.ofList rest).splitOn "=" with
    | [l, v] =>
      match l.splitOn "@" with
      | [t, i] =>
        match t.toNat?, i.toNat?, parseHex v with
        | some t, some i, some v => some ((0, t, i, 0), v)
        | _, _, _ => none
      | _ => none
    | _ => none
  | _ => none

def driverLine (args : List String) : String :=
  match args with
  | ["parse", cfg, last, hex] =>
    match parseCfg cfg, last.toNat?, parseHex hex with
    | some cfg, some last, some bytes =>
      let (st, rep) := replayFileWith (σ := Unit) (fun _ _ => ()) crc32 (bytes.length + 1)
        ⟨cfg, last, ()⟩ bytes [] []
      s!"{renderReport rep} last={st.lastEnacted} cfg={renderCfg st.cfg}"
    | _, _, _ => "bad-op"
  | "replay" :: cfg :: last :: hexes =>
    match parseCfg cfg, hexes.mapM parseHex with
    | some cfg, some files =>
      match (if last = "auto" then some (initialLastEnacted files) else last.toNat?) with
      | some last =>
        let res := replay crc32 cfg last files
        String.join (res.reports.map (fun rep => renderReport rep ++ " | ")) ++
          s!"last={res.lastEnacted} cfg={renderCfg res.cfg}"
      | none => "bad-op"
    | _, _ => "bad-op"
  | "replaylast" :: cfg :: last :: hexes =>
    -- what the harness can observe of the real `Db::open`
    match parseCfg cfg, hexes.mapM parseHex with
    | some cfg, some files =>
      match (if last = "auto" then some (initialLastEnacted files) else last.toNat?) with
      | some last =>
        let res := replay crc32 cfg last files
        s!"last={res.lastEnacted} cfg={renderCfg res.cfg}"
      | none => "bad-op"
    | _, _ => "bad-op"
  | "replaytab" :: cfg :: last :: rest =>
    let hexes := rest.takeWhile (· ≠ "/")
    let cellArgs := (rest.dropWhile (· ≠ "/")).drop 1
    match parseCfg cfg, hexes.mapM parseHex, cellArgs.mapM parseCell with
    | some cfg, some files, some cells =>
      match (if last = "auto" then some (initialLastEnacted files) else last.toNat?) with
      | some last =>
        let probes := (cells.filter (fun c => c.1.1 == 0)).map (·.1)
        let (st, _) := replaySortedWith stepD crc32 ⟨cfg, last, cells.reverse⟩ (orderFiles files)
        let T := st.tables
        let vals := probes.flatMap (fun l => (T.get l).getD [])
        let extra := (T.filter (fun c => c.1.1 == 0 && !probes.contains c.1)).length
        s!"last={st.lastEnacted} cfg={renderCfg st.cfg} {idxDigest st.cfg T} " ++
          s!"val={probes.length}:{hexNat (crc32 vals)} xval={extra}"
      | none => "bad-op"
    | _, _, _ => "bad-op"
  | _ => "bad-op"

end Pdb.Wal
