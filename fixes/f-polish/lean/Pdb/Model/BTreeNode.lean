/-
C04 (gap 4): byte layout of a btree NODE (the value-table entry that holds one node).

Rust anchors
  src/btree/mod.rs  `BTreeTable::write_node_plan` (the encoding loop),
                    `Entry::{write_child_index, read_child_index, write_separator,
                    read_separator}`, `ORDER = 8`, `ORDER_CHILD = ORDER + 1`,
  src/btree/node.rs `Node::from_encoded` (the decoding loop), `Node::fetch_child`,
  src/btree/btree.rs `BTree::fetch_root` (both call `from_encoded` on the bytes returned by
                    `BTreeTable::get_encoded_entry`).

Layout (what the two loops below produce / accept), `k` = number of separators (`k <= ORDER`):

    child[0] sep[0] child[1] sep[1] ... sep[k-1] child[k]

  * `child[i]`: 8 bytes, u64 little endian, the value-table address of child `i`, 0 = no child
    (`NULL_ADDRESS`); a LEAF therefore still carries `k + 1` zero child slots;
  * `sep[i]`: `write_separator` = value address u64 LE, key length (one byte `< 255`, or `0xFF` +
    u32 LE), key bytes (`writeSeparator` in Model/BTree.lean);
  * always exactly `k + 1` child slots: the writer stops after the child slot that follows the
    last separator, either because the next separator slot is empty (`k < ORDER`) or because
    that child was the `ORDER_CHILD`-th (`k = ORDER`, full node); no terminator, no padding, no
    count field: the END OF THE ENTRY ends a non-full node (`read_separator` returns `None` at
    the end of the entry);
  * the reader additionally ends the node at a separator whose value address is 0 (it is
    consumed and dropped), and it never looks at bytes after the `ORDER_CHILD`-th child index
    (trailing bytes of a full node are ignored); the writer produces neither.

Modelling decisions
  * `RawNode`: the in-memory `Node` without its dirty flags.  The Rust arrays
    `separators : [Separator; ORDER]` (`Option<SeparatorInner>`) and `children : [Child;
    ORDER_CHILD]` (`Option<Address>`) are LISTS UP TO THE FIRST EMPTY SLOT: slot `i` of the
    separator array is `n.seps[i]?` (`none` = empty slot, in particular every slot from
    `n.seps.length` on), slot `i` of the child array is `n.slot i = n.children.getD i 0`
    (0 = `None`, in particular every slot from `n.children.length` on).  The convention "the
    first empty separator slot ends the node" is therefore: `n.seps[i]? = none` ends the loop.
    Separators stored after an empty slot cannot be represented; the Rust writer never reaches
    them either (the loop `break`s), and the tree dump reports them as `stray_separators`
    (checked to be 0 by the harness).
  * `encodeLoop` / `decodeLoop` carry the two Rust counters `i_children`, `i_separator`
    literally and recurse on a fuel argument (`ORDER_CHILD` iterations are enough, the loop
    leaves when `i_children == ORDER_CHILD`).  Fuel exhaustion is the explicit outcome
    `DecNode.outOfFuel` for the decoder (proved unreachable: `decodeNode_ne_outOfFuel`) and ends
    the output for the encoder (proved irrelevant: `encodeLoop_fuel`, Proofs/C04Node.lean).
  * Decoding appends to the lists instead of assigning array slots: `children ++ [c]` is
    `node.children[i_children] = c` because `children.length = i_children` throughout, same for
    the separators.  The decoded `RawNode.children` are ALL child slots that were read (zeros
    included): `k + 1` of them.
  * Errors: every failure of `from_encoded` is `Error::Corruption` (`DecNode.corrupt`).

Driver: `c04b node <hexbytes>` (stateless), see `nodeLine`: the DECODER is run on the bytes and
the ENCODER on the decoded node; `enc=same` iff `encodeNode (decoded) = <the input bytes>`.
That is expected exactly for the bytes the crate's writer produces (`C04_node_roundtrip_exact`
read from right to left: a node with `k + 1` child slots is the decoding of its own encoding,
and `decodeNode` is not injective, so `same` singles out the canonical entry among all that decode
to this node): a non-full node that ends at the end of the entry, a full node without trailing
bytes, no separator with a null value address, every key length below 255 in the one-byte form.
The harness expects `enc=same` for EVERY real node and computes same / diff for its mutated
entries with its own reference encoder.
-/
import Pdb.Model.BTree

namespace Pdb.C04

def ORDER_CHILD : Nat := Gen.BTREE_ORDER_CHILD

/-- In-memory node: separators `(key, value address)` up to the first empty slot, child slots
    (value-table address of the child node, 0 = none). -/
structure RawNode where
  seps : List (Key × Nat)
  children : List Nat
deriving DecidableEq, Repr

/-- `node.children[i].entry_index` as a raw address (`None` = 0 = `NULL_ADDRESS`) -/
def RawNode.slot (n : RawNode) (i : Nat) : Nat := n.children.getD i 0

/-- `Entry::write_child_index` (appended bytes) -/
def writeChildIndex (index : Nat) : List Nat := leBytes 8 index

/-- `Entry::read_child_index` on the unread part of the entry: `none` = `Error::Corruption("Entry
    too small for Index")`, else the raw index (0 = `None`) and the rest. -/
def readChildIndex (enc : List Nat) : Option (Nat × List Nat) :=
  if enc.length < 8 then none else some (fromLe (enc.take 8), enc.drop 8)

/-- The `loop` of `BTreeTable::write_node_plan`; returns the bytes appended to the entry from
    this iteration on. -/
def encodeLoop (n : RawNode) : Nat → Nat → Nat → List Nat
  | 0, _, _ => []
  | fuel + 1, iChildren, iSeparator =>
    -- if let Some(index) = children[i_children].entry_index { write_child_index(index) }
    -- else { write_child_index(NULL_ADDRESS) }
    let e := writeChildIndex (n.slot iChildren)
    let iChildren := iChildren + 1
    if iChildren = ORDER_CHILD then e
    else
      match n.seps[iSeparator]? with
      | some sep => e ++ writeSeparator sep.1 sep.2 ++ encodeLoop n fuel iChildren (iSeparator + 1)
      | none => e

/-- `write_node_plan`: the entry bytes of a node (`Entry::empty()` then the loop). -/
def encodeNode (n : RawNode) : List Nat := encodeLoop n ORDER_CHILD 0 0

inductive DecNode where
  | ok (n : RawNode)
  | corrupt                 -- `Error::Corruption`
  | outOfFuel               -- model artefact, unreachable (`decodeNode_ne_outOfFuel`)
deriving DecidableEq, Repr

/-- The `loop` of `Node::from_encoded` on the unread part `enc` of the entry. -/
def decodeLoop : Nat → List Nat → Nat → Nat → List (Key × Nat) → List Nat → DecNode
  | 0, _, _, _, _, _ => .outOfFuel
  | fuel + 1, enc, iChildren, iSeparator, seps, children =>
    match readChildIndex enc with
    | none => .corrupt
    | some (c, enc) =>
      -- node.children[i_children].entry_index = Some(c)   (c = 0: the slot stays None)
      let children := children ++ [c]
      let iChildren := iChildren + 1
      if iChildren = ORDER_CHILD then .ok ⟨seps, children⟩
      else
        match readSeparator enc with
        | .corrupt => .corrupt
        | .none => .ok ⟨seps, children⟩
        | .some key value rest =>
          -- node.separators[i_separator].separator = Some(sep)
          decodeLoop fuel rest iChildren (iSeparator + 1) (seps ++ [(key, value)]) children

/-- `Node::from_encoded` -/
def decodeNode (enc : List Nat) : DecNode := decodeLoop ORDER_CHILD enc 0 0 [] []

/-- What `from_encoded ∘ write_node_plan` yields: the separators (up to the first empty slot) and
    exactly `seps.length + 1` child slots (missing ones are 0, further ones are not written). -/
def RawNode.normal (n : RawNode) : RawNode :=
  { seps := n.seps, children := (List.range (n.seps.length + 1)).map n.slot }

/-- Closed form of the layout after the first child index: `sep[i] child[i+1]` for every
    separator (specification of `encodeNode`, `C04_node_layout`). -/
def layoutFrom (n : RawNode) : List (Key × Nat) → Nat → List Nat
  | [], _ => []
  | s :: rest, i =>
    writeSeparator s.1 s.2 ++ writeChildIndex (n.slot (i + 1)) ++ layoutFrom n rest (i + 1)

/-- `child[0] sep[0] child[1] ... sep[k-1] child[k]` -/
def nodeLayout (n : RawNode) : List Nat := writeChildIndex (n.slot 0) ++ layoutFrom n n.seps 0

/-! ## driver: `c04b node <hexbytes>` -/

/-- drop the trailing zero slots -/
def trimZeros (l : List Nat) : List Nat := (l.reverse.dropWhile (· == 0)).reverse

/-- `<nsep> <keyhex> <valueaddr> ... | <child0> <child1> ...` (children without the trailing zero
    slots; a leaf prints nothing after the bar). -/
def showRawNode (n : RawNode) : String :=
  toString n.seps.length ++
    String.join (n.seps.map (fun s => " " ++ hex s.1 ++ " " ++ toString s.2)) ++ " |" ++
    String.join ((trimZeros n.children).map (fun c => " " ++ toString c))

def showDecNode : DecNode → String
  | .ok n => showRawNode n
  | .corrupt => "err:Corruption"
  | .outOfFuel => "err:model-out-of-fuel"

/-- Is the entry `enc` the one `write_node_plan` produces for the node it decodes to? -/
def reencodes (enc : List Nat) : DecNode → Option Bool
  | .ok n => some (encodeNode n == enc)
  | _ => none

/-- `c04b node <hexbytes>`: `Node::from_encoded` on the given entry bytes, then
    `write_node_plan` on the result: `<node> enc=same|diff`, or the error. -/
def nodeLine (args : List String) : String :=
  match args with
  | [h] =>
    match unhex h with
    | some enc =>
      let d := decodeNode enc
      showDecNode d ++
        (match reencodes enc d with
         | some true => " enc=same"
         | some false => " enc=diff"
         | none => "")
    | none => "bad-op"
  | _ => "bad-op"

end Pdb.C04
