/-
P1R: the log FILES a P1 state leaves on disk, and the real recovery algorithm run on them.

P1 (Model/Pipeline.lean) postulates recovery: `crashRecover s j n` replays `s.logged.take n`.
This file adds what P1 leaves out:

  * `LFile`: a log file = its number (`log<num>`) and its complete records with their ids;
  * the recovery algorithm of `Db::open` as a function on a set of log files, generic in the
    record type (so that it can be instantiated with P1's logical records AND with the byte
    level records of Model/Wal.lean, see Proofs/RecoverWal.lean):
      `orderKeyed`   = `Log::open`: files without a first record id are dropped, the others are
                       stably sorted by the id of their first record (`sort_by_key`);
      `startId`      = `DbInner::open`: `replay_record_id().unwrap_or(2).saturating_sub(1)`;
      `acceptRecs`   = `while enact_logs(true)? {}` on one file: a record is applied iff its id
                       is `last_enacted + 1`; otherwise "Log sequence error": `clear_replay_logs`
                       (`cleared = true`, every remaining file is dropped);
      `acceptFiles`  = `replay_all_logs` (the end of a file moves on to the next file);
      `realAccepted` = the records `Db::open` applies, in order; `realRecover` applies them
                       (absolute after-images, `applyRec`) to the tables found on disk;
  * `RSt`: a WRAPPER around `Pdb.St` (which stays untouched) with the ghost file structure:
      `files`    every log file that has not been reclaimed, oldest first
                 (= cleanup_queue ++ reading ++ read_queue ++ appending of `Log`),
      `openTail` whether the youngest of them is still the appending file (`flush_one` closes it),
      `done`     how many records of `files` are already enacted (a prefix of their
                 concatenation: `enact_logs` consumes one file after the other, oldest first),
      `base`     ghost: the tables as they were before the first record of `files` was enacted,
      `nextRec`  `Log::next_record_id`, `pool` `Log::log_pool` (sorted file numbers, reused
                 lowest first), `nextNum` `Log::next_log_id`;
    `rstep` moves wrapper and P1 state together; `reclaim c` is `Log::clean_logs`: the `c` OLDEST
    fully enacted files are truncated and returned to the pool (`RAction.cleanSome c` = a crash
    in the middle of a cleanup batch; `.act .clean` reclaims every fully enacted file);
  * `diskFiles w n`: the files found after a crash in which `n` un-enacted records survive
    complete (the unsynced tail of the appending file cut after them);
  * two DEFECTIVE disciplines used by the counterexamples of Props/C02Real.lean:
    `reclaimYoungest` (cleanup queue reversed, seeded defect C02-c02c) and
    `acceptedWith LFile.numKey` (replay ordered by file number, seeded defects C02-c02a/C03-c03a).

Not modelled: torn records (a cut inside a record leaves bytes that are no complete record;
such a tail ends the reading of its file like EOF or clears the queue, and it is always the
tail of the youngest file, so nothing follows it; see Proofs/RecoverWal.lean for what is
proved about it), `MAX_LOG_POOL_SIZE` (more than 16 pooled files are deleted), reindex records
(P1 has none), `u64::MAX` as a record id.

Driver (command word `p1r`, `State` + `step` at the end of the file): the wrapper is fed every
`p1 ...` op line (same words as the `p1` command, no output of its own) plus
  p1r clean                    an implicit `clean_logs` of the harness (before enact / drop)
  p1r files <num>:<ids|-> ...  the non-empty log files (>= 9 bytes) of a crash image in
                               file-NUMBER order, each with the ids of its complete records.
                               Answer: `ok prefix=<m>` iff the observed files are a crash image
                               of the model state (`diskFiles (reclaim c w) n` for some c, n with
                               flushed <= n <= logged); m = the transaction up to which real
                               recovery (`realAccepted` on the OBSERVED files, listed in
                               file-number order) accepts records (= nEnacted + n by
                               `C02_real_recovery_eq`); otherwise `err:...`.
-/
import Pdb.Model.Pipeline

namespace Pdb

/-! ## log files, replay order, acceptance (generic in the record type) -/

structure LFile (ρ : Type) where
  num : Nat
  recs : List (Nat × ρ)

section Generic
variable {ρ : Type}

/-- `Log::read_first_record_id`: `none` for a file without a record (removed by `Log::open`). -/
def LFile.firstId (f : LFile ρ) : Option Nat := f.recs.head?.map (·.1)

/-- DEFECT key (seeded C02-c02a): the file number instead of the first record id. -/
def LFile.numKey (f : LFile ρ) : Option Nat := f.recs.head?.map (fun _ => f.num)

/-- Stable insertion by key (`sort_by_key` is stable): `x` precedes, in directory order, every
    entry already in the list, so it goes before the first key `≥ k`.  (Same function as
    `Wal.insertFile`.) -/
def insertKeyed {α : Type} (k : Nat) (x : α) : List (Nat × α) → List (Nat × α)
  | [] => [(k, x)]
  | (k', x') :: l => if k ≤ k' then (k, x) :: (k', x') :: l else (k', x') :: insertKeyed k x l

/-- `Log::open`: the replay queue, given the files in directory order.  (Same function as
    `Wal.orderFilesKeyed`.) -/
def orderKeyed {α : Type} (key : α → Option Nat) : List α → List (Nat × α)
  | [] => []
  | f :: fs =>
    match key f with
    | none => orderKeyed key fs
    | some k => insertKeyed k f (orderKeyed key fs)

structure AccRes (ρ : Type) where
  recs : List ρ
  last : Nat
  cleared : Bool

/-- `while enact_logs(true)? {}` on one file with well-formed records: accept while the id is
    `last_enacted + 1`; a gap is a "Log sequence error" and clears the replay queue. -/
def acceptRecs (last : Nat) : List (Nat × ρ) → AccRes ρ
  | [] => ⟨[], last, false⟩
  | (id, r) :: rest =>
    if id = last + 1 then
      let res := acceptRecs id rest
      ⟨r :: res.recs, res.last, res.cleared⟩
    else ⟨[], last, true⟩

/-- `replay_all_logs` over the ordered replay queue. -/
def acceptFiles (last : Nat) : List (List (Nat × ρ)) → List ρ
  | [] => []
  | f :: fs =>
    if (acceptRecs last f).cleared then (acceptRecs last f).recs
    else (acceptRecs last f).recs ++ acceptFiles (acceptRecs last f).last fs

def replayOrder (key : LFile ρ → Option Nat) (files : List (LFile ρ)) : List (LFile ρ) :=
  (orderKeyed key files).map (·.2)

/-- `DbInner::open`: `log.replay_record_id().unwrap_or(2).saturating_sub(1)` where
    `replay_record_id` is the first record id of the FRONT of the replay queue. -/
def startId (q : List (LFile ρ)) : Nat := ((q.head?.bind LFile.firstId).getD 2) - 1

/-- The records `Db::open` applies, in order, when the replay queue is sorted by `key`. -/
def acceptedWith (key : LFile ρ → Option Nat) (files : List (LFile ρ)) : List ρ :=
  acceptFiles (startId (replayOrder key files)) ((replayOrder key files).map (·.recs))

/-- The real algorithm: replay queue sorted by the id of the first record of each file. -/
def realAccepted (files : List (LFile ρ)) : List ρ := acceptedWith LFile.firstId files

def allRecs (files : List (LFile ρ)) : List (Nat × ρ) := files.flatMap (·.recs)

/-- The first `m` records of the concatenation of `files`, file structure kept: every file
    that fits is whole, the one that does not is cut, nothing follows a cut file. -/
def truncFiles : Nat → List (LFile ρ) → List (LFile ρ)
  | _, [] => []
  | m, f :: fs =>
    if m = 0 then []
    else if f.recs.length ≤ m then f :: truncFiles (m - f.recs.length) fs
    else [{ f with recs := f.recs.take m }]

/-- Append a record to the youngest file (`end_record` on the appending file). -/
def snocRec : List (LFile ρ) → Nat × ρ → List (LFile ρ)
  | [], _ => []
  | f :: [], x => [{ f with recs := f.recs ++ [x] }]
  | f :: g :: fs, x => f :: snocRec (g :: fs) x

/-- Number of leading files that lie entirely within the first `d` records. -/
def fullPrefix : Nat → List (LFile ρ) → Nat
  | _, [] => 0
  | d, f :: fs => if f.recs.length ≤ d then fullPrefix (d - f.recs.length) fs + 1 else 0

/-- Records of the file holding record number `d` that come at or after `d`. -/
def leftInFile : Nat → List (LFile ρ) → Nat
  | _, [] => 0
  | d, f :: fs => if d < f.recs.length then f.recs.length - d else leftInFile (d - f.recs.length) fs

end Generic

/-- `pool.make_contiguous().sort_by_key(id)`: the pool is kept sorted. -/
def insertNat (n : Nat) : List Nat → List Nat
  | [] => [n]
  | m :: ms => if n ≤ m then n :: m :: ms else m :: insertNat n ms

/-- `end_record` with no appending file: lowest pooled number, else a fresh one. -/
def takeNum (pool : List Nat) (nextNum : Nat) : Nat × List Nat × Nat :=
  match pool with
  | p :: ps => (p, ps, nextNum)
  | [] => (nextNum, [], nextNum + 1)

/-! ## P1 instance: real recovery of tables -/

section P1
variable {K V : Type} [DecidableEq K]

/-- What `Db::open` leaves in the tables `t` found on disk, given the log files found. -/
def realRecover (t : Tbl K V) (files : List (LFile (Rec K V))) : Tbl K V :=
  applyRecs t (realAccepted files)

/-- The tables found on disk after a crash of `s`: `j` writes of the record being enacted are
    done (the `t0` of `crashRecover`). -/
def crashImage (s : St K V) (j : Nat) : Tbl K V :=
  match s.flushed, s.logged with
  | _ + 1, r :: _ => applyRecPrefix j s.tables r
  | _, _ => s.tables

/-! ## the wrapper state -/

structure RSt (K V : Type) where
  st : St K V
  files : List (LFile (Rec K V))
  openTail : Bool
  done : Nat
  base : Tbl K V
  nextRec : Nat
  pool : List Nat
  nextNum : Nat

def RSt.init : RSt K V :=
  { st := St.init, files := [], openTail := false, done := 0, base := fun _ => none,
    nextRec := 1, pool := [], nextNum := 0 }

/-- `process_commits` for one commit: P1's `process`, and the planned record goes to the
    appending file (opened from the pool or freshly numbered if there is none). -/
def rprocess (kind : K → Kind) (w : RSt K V) : RSt K V :=
  match w.st.queue with
  | [] => w
  | c :: _ =>
    if w.openTail then
      { w with st := process kind w.st,
               files := snocRec w.files (w.nextRec, planRec kind (view w.st) c.ops),
               nextRec := w.nextRec + 1 }
    else
      { w with st := process kind w.st,
               files := w.files ++ [⟨(takeNum w.pool w.nextNum).1,
                                     [(w.nextRec, planRec kind (view w.st) c.ops)]⟩],
               openTail := true,
               nextRec := w.nextRec + 1,
               pool := (takeNum w.pool w.nextNum).2.1,
               nextNum := (takeNum w.pool w.nextNum).2.2 }

/-- `flush_logs(0)`: the appending file is closed (synced) and queued for reading. -/
def rflush (w : RSt K V) : RSt K V := { w with st := flush w.st, openTail := false }

/-- `enact_logs` for one record (exactly when P1's `enactOne` fires). -/
def renact (w : RSt K V) : RSt K V :=
  if 0 < w.st.flushed ∧ 0 < w.st.logged.length then
    { w with st := enactOne w.st, done := w.done + 1 }
  else w

/-- `Log::clean_logs(c)`: the `c` oldest fully enacted files are truncated, OLDEST FIRST, and
    their numbers return to the pool. -/
def reclaim : Nat → RSt K V → RSt K V
  | 0, w => w
  | c + 1, w =>
    match w.files with
    | [] => w
    | f :: fs =>
      if f.recs.length ≤ w.done then
        reclaim c { w with files := fs, done := w.done - f.recs.length,
                           base := applyRecs w.base (f.recs.map (·.2)),
                           pool := insertNat f.num w.pool }
      else w

/-- DEFECT (seeded C02-c02c, cleanup queue reversed): the YOUNGEST fully enacted file is
    reclaimed while older ones stay. -/
def reclaimYoungest (w : RSt K V) : RSt K V :=
  if fullPrefix w.done w.files = 0 then w
  else
    { w with files := w.files.eraseIdx (fullPrefix w.done w.files - 1),
             done := w.done - ((w.files.drop (fullPrefix w.done w.files - 1)).head?.map
                                (·.recs.length)).getD 0,
             pool := insertNat (((w.files.drop (fullPrefix w.done w.files - 1)).head?.map
                                (·.num)).getD 0) w.pool }

/-- The log files found after a crash: `n` of the un-enacted records survive complete. -/
def diskFiles (w : RSt K V) (n : Nat) : List (LFile (Rec K V)) := truncFiles (w.done + n) w.files

def iter {α : Type} (f : α → α) : Nat → α → α
  | 0, a => a
  | n + 1, a => iter f n (f a)

/-- One call of the stepping `Db::enact_logs` / one `while enact_logs(false)? {}` loop: the rest
    of the file being read. -/
def renactFile (w : RSt K V) : RSt K V := iter renact (leftInFile w.done w.files) w

/-- The file side of `kill_logs` on a clean drop: enact one file, flush, process every queued
    commit, enact one file, flush, enact one file, reclaim.  What is left is replayed by the
    next open. -/
def dropSeq (kind : K → Kind) (w : RSt K V) : RSt K V :=
  let w := renactFile w
  let w := rflush w
  let w := iter (rprocess kind) w.st.queue.length w
  let w := renactFile w
  let w := rflush w
  let w := renactFile w
  reclaim w.files.length w

def maxNum {ρ : Type} (files : List (LFile ρ)) : Nat := files.foldl (fun m f => max m f.num) 0

/-- State of `Log` after `Db::open` has replayed and deleted the log files `left`. -/
def afterOpen (st : St K V) (left : List (LFile (Rec K V))) (nextRecIfReplayed : Nat) : RSt K V :=
  { st := st, files := [], openTail := false, done := 0, base := st.tables,
    nextRec := if left.isEmpty then 1 else nextRecIfReplayed,
    pool := [],
    nextNum := if left.isEmpty then 0 else maxNum left + 1 }

/-- Drop + open.  P1 state: `cleanReopen`. -/
def rreopen (kind : K → Kind) (w : RSt K V) : RSt K V :=
  afterOpen (cleanReopen kind w.st) (dropSeq kind w).files (dropSeq kind w).nextRec

/-- Crash + open.  P1 state: `crashRecover`.  The id of the next record is one more than the
    last id replay accepted. -/
def rcrash (w : RSt K V) (j n : Nat) : RSt K V :=
  afterOpen (crashRecover w.st j n) (diskFiles w n)
    (startId (replayOrder LFile.firstId (diskFiles w n)) + (realAccepted (diskFiles w n)).length + 1)

inductive RAction (K V : Type) where
  | act (a : Action K V)
  /-- `clean_logs` interrupted after `c` files -/
  | cleanSome (c : Nat)

def RAction.toAction : RAction K V → Action K V
  | .act a => a
  | .cleanSome _ => .clean

def rstep (kind : K → Kind) (w : RSt K V) : RAction K V → RSt K V
  | .act (.commit tx) => { w with st := (commit kind w.st tx).1 }
  | .act .process => rprocess kind w
  | .act .flush => rflush w
  | .act .enact => renact w
  | .act .clean => reclaim w.files.length w
  | .cleanSome c => reclaim c w
  | .act .reindex => w
  | .act .reopen => rreopen kind w
  | .act (.crash j n) => rcrash w j (max n w.st.flushed)

def rrun (kind : K → Kind) (w : RSt K V) (as : List (RAction K V)) : RSt K V :=
  as.foldl (rstep kind) w

end P1

/-! ## driver -/

namespace RecoverDriver

abbrev DK := String
abbrev DV := String

structure DState where
  kinds : Array Kind
  w : RSt DK DV
  /-- a line the wrapper cannot follow was seen (fault injection of c16): no file tracking -/
  lost : Bool
  /-- the crash image accepted by the last `files` line: (c, n, next file number) -/
  pending : Option (Nat × Nat × Nat)

abbrev State := Option DState

def colOf (k : DK) : Nat := ((k.splitOn ":").headD "").toNat!

def DState.kind (d : DState) (k : DK) : Kind := d.kinds.getD (colOf k) .plain

def parseKind : String → Option Kind
  | "plain" => some .plain
  | "preimage" => some .preimage
  | "rc" => some .rc
  | _ => none

def parseOp (w : String) : Option (Op DK DV) :=
  match w.splitOn ":" with
  | [c, "set", k, v] => some (.set (c ++ ":" ++ k) v)
  | [c, "del", k] => some (.deref (c ++ ":" ++ k))
  | [c, "ref", k] => some (.ref (c ++ ":" ++ k))
  | _ => none

/-- `<num>:<id>,<id>,...` or `<num>:-` -/
def parseFile (tok : String) : Option (Nat × List Nat) :=
  match tok.splitOn ":" with
  | [n, ids] =>
    match n.toNat? with
    | none => none
    | some n =>
      if ids = "-" then some (n, [])
      else ((ids.splitOn ",").mapM String.toNat?).map (fun l => (n, l))
  | _ => none

def shape {ρ : Type} (files : List (LFile ρ)) : List (Nat × List Nat) :=
  files.map (fun f => (f.num, f.recs.map (·.1)))

def insertByNum (x : Nat × List Nat) : List (Nat × List Nat) → List (Nat × List Nat)
  | [] => [x]
  | y :: ys => if x.1 ≤ y.1 then x :: y :: ys else y :: insertByNum x ys

def sortByNum (l : List (Nat × List Nat)) : List (Nat × List Nat) := l.foldr insertByNum []

def showShape (l : List (Nat × List Nat)) : String :=
  " ".intercalate (l.map (fun (n, ids) =>
    s!"{n}:" ++ (if ids.isEmpty then "-" else ",".intercalate (ids.map toString))))

/-- Search the crash cut `(c, n)` whose file set is the observed one. -/
def findCut (w : RSt DK DV) (obs : List (Nat × List Nat)) : Option (Nat × Nat) :=
  let cs := List.range (fullPrefix w.done w.files + 1)
  let ns := (List.range (w.st.logged.length + 1)).filter (fun n => w.st.flushed ≤ n)
  (cs.flatMap (fun c => ns.map (fun n => (c, n)))).find? (fun (c, n) =>
    sortByNum (shape (diskFiles (reclaim c w) n)) == obs)

/-- The observed files with the model's records looked up by id (`none`: unknown id). -/
def obsFiles (w : RSt DK DV) (obs : List (Nat × List Nat)) : Option (List (LFile (Rec DK DV))) :=
  obs.mapM (fun (num, ids) =>
    (ids.mapM (fun id => ((allRecs w.files).find? (fun x => x.1 == id)))).map (fun rs => ⟨num, rs⟩))

/-- The harness's composite `enactall`: one file per call of the stepping API, `clean_logs`
    first whenever three fully read files are waiting. -/
def enactAllFiles : Nat → RSt DK DV → RSt DK DV
  | 0, w => w
  | fuel + 1, w =>
    let w := if 3 ≤ fullPrefix w.done w.files then reclaim w.files.length w else w
    let w := renactFile w
    if 0 < w.st.flushed then enactAllFiles fuel w else w

def stepP1 (d : DState) (ws : List String) : DState :=
  let kind := d.kind
  let w := d.w
  match ws with
  | "commit" :: ops =>
    match ops.mapM parseOp with
    | none => d
    | some tx => { d with w := rstep kind w (.act (.commit tx)) }
  | ["process"] => { d with w := rstep kind w (.act .process) }
  | ["flush"] => { d with w := rstep kind w (.act .flush) }
  | ["enact"] => { d with w := rstep kind w (.act .enact) }
  | ["enactall"] => { d with w := enactAllFiles (w.st.logged.length + 1) w }
  | ["clean"] => { d with w := rstep kind w (.act .clean) }
  | ["reindex"] => d
  | ["reopen"] => { d with w := rstep kind w (.act .reopen), pending := none }
  | ["crashto", m] =>
    match m.toNat? with
    | none => d
    | some m =>
      let n := m - w.st.nEnacted
      if w.st.nEnacted + w.st.flushed ≤ m ∧ m ≤ w.st.nEnacted + w.st.logged.length then
        match d.pending with
        | some (c, n', nn) =>
          if n' = n then
            let w' := rcrash (reclaim c w) 0 n
            { d with w := { w' with nextNum := max w'.nextNum nn }, pending := none }
          else { d with w := rcrash w 0 n, pending := none, lost := true }
        | none => { d with w := rcrash w 0 n, pending := none }
      else d
  | ["get", _, _] => d
  | ["size", _, _] => d
  | ["stages"] => d
  | _ => { d with lost := true }

def stepFiles (d : DState) (toks : List String) : DState × String :=
  if d.lost then (d, "err:untracked")
  else
    match toks.mapM parseFile with
    | none => (d, "bad-op")
    | some obsAll =>
      let w := d.w
      let obs := obsAll.filter (fun x => !x.2.isEmpty)
      let nn := obsAll.foldl (fun m x => max m (x.1 + 1)) 0
      match findCut w obs with
      | none =>
        (d, s!"err:files-not-a-crash-image model={showShape (sortByNum (shape (diskFiles w w.st.logged.length)))} done={w.done} flushed={w.st.flushed}")
      | some (c, n) =>
        match obsFiles w obs with
        | none => (d, "err:unknown-record-id")
        | some fs =>
          let wc := reclaim c w
          -- Real recovery on the OBSERVED files (file-number order = directory order): the prefix
          -- answered is the one `realAccepted` reaches, `acc - wc.done` un-enacted records.  By
          -- `C02_real_recovery_eq` / `RInv.realRecover_eq` this is `n` for every reachable state
          -- (`realAccepted` accepts exactly the `wc.done + n` records of the crash image), so the
          -- former branch `err:recovery-accepts` could never be taken and is gone; computing the
          -- answer from `acc` keeps the real algorithm (replay order by first record id, NOT by
          -- file number: they differ on images counted as `p1r.files.inverted` by the harness) in
          -- the loop: a wrong replay order in this model would answer another prefix.
          let acc := (realAccepted fs).length
          ({ d with pending := some (c, n, nn) }, s!"ok prefix={w.st.nEnacted + (acc - wc.done)}")

def step (s : State) (ws : List String) : State × String :=
  match ws with
  | "init" :: kinds =>
    match kinds.mapM parseKind with
    | some ks => (some { kinds := ks.toArray, w := RSt.init, lost := false, pending := none }, "ok")
    | none => (s, "bad-op")
  | _ =>
    match s with
    | none => (s, "bad-op")
    | some d =>
      match ws with
      | ["clean"] => (some { d with w := reclaim d.w.files.length d.w }, "ok")
      | "files" :: toks => let (d', o) := stepFiles d toks; (some d', o)
      | ["state"] =>
        (s, s!"files={showShape (shape d.w.files)} open={d.w.openTail} done={d.w.done} nextRec={d.w.nextRec} nextNum={d.w.nextNum} pool={d.w.pool} lost={d.lost}")
      | _ => (s, "bad-op")

/-- Called by the driver for every `p1 <words>` line (no output). -/
def feed (s : State) (ws : List String) : State :=
  match ws with
  | "init" :: kinds =>
    match kinds.mapM parseKind with
    | some ks => some { kinds := ks.toArray, w := RSt.init, lost := false, pending := none }
    | none => s
  | _ =>
    match s with
    | none => none
    | some d => some (stepP1 d ws)

end RecoverDriver

end Pdb
