//! C04 (gap 4): byte layout of btree nodes. For every node of a tree dump the raw entry bytes
//! (`NodeDump::encoded`, what `Node::from_encoded` was given) are compared with an independent
//! re-encoding of the decoded node (oracle), and the bytes of the nodes are sent to the Lean
//! model (`c04b node <hexbytes>`): its DECODER (`Pdb.C04.decodeNode`) must render the fields the
//! crate decoded, and its ENCODER (`Pdb.C04.encodeNode`) run on the decoded node must give the
//! stored bytes back: the answer ends in `enc=same`, which is expected for EVERY real node (the
//! decoder alone is not injective: trailing bytes of a full node, a null-value separator, a
//! non-canonical key length all decode to a node that some other entry encodes).
//! ALL nodes of a small dump (at most `SMALL_DUMP_NODES` nodes and `SMALL_DUMP_BYTES` bytes) are
//! sent, `budget` nodes (root first, best scoring next) of a larger one.
//!
//! Malformed stream: one mutated copy of a chosen node per dump (truncations, a nulled value
//! address, trailing bytes, a changed key length) is decoded by the crate itself
//! (`parity_db::verif::node_codec` = `Node::from_encoded` on arbitrary bytes) and by the model;
//! `enc=same|diff` for these is computed with the reference encoder below.
//!
//! Layout (reference encoder `reencode` below, written from the format description, not from
//! the Lean model): `child[0] sep[0] child[1] ... sep[k-1] child[k]`, `child` = u64 LE value
//! table address (0 = none), `sep` = value address u64 LE, key length (`< 255`: one byte, else
//! `0xFF` + u32 LE), key bytes. Exactly `k + 1` child slots, nothing after the last one.

use crate::util::{hex, Counters, Trace};
use parity_db::verif::{NodeDump, TreeDump};

const ORDER: usize = 8;
/// nodes with a longer encoding are sent to the model only occasionally
const SOFT_LIMIT: usize = 4096;
/// ... and never above this size (one trace line = 2 hex characters per byte)
const HARD_LIMIT: usize = 160 * 1024;
/// a dump with at most this many nodes ...
const SMALL_DUMP_NODES: usize = 64;
/// ... and at most this many entry bytes in total is sent to the model completely
const SMALL_DUMP_BYTES: usize = 32 * 1024;

/// Independent reference encoder of a decoded node.
fn reencode(seps: &[(Vec<u8>, u64)], children: &[u64]) -> Vec<u8> {
	let child = |i: usize| -> u64 { children.get(i).copied().unwrap_or(0) };
	let mut out = Vec::new();
	out.extend_from_slice(&child(0).to_le_bytes());
	for (i, (key, addr)) in seps.iter().enumerate() {
		out.extend_from_slice(&addr.to_le_bytes());
		if key.len() >= 255 {
			out.push(0xff);
			out.extend_from_slice(&(key.len() as u32).to_le_bytes());
		} else {
			out.push(key.len() as u8);
		}
		out.extend_from_slice(key);
		out.extend_from_slice(&child(i + 1).to_le_bytes());
	}
	out
}

/// `<nsep> <keyhex> <valueaddr> ... | <child0> <child1> ...` (children without trailing zero slots)
fn canonical(seps: &[(Vec<u8>, u64)], children: &[u64]) -> String {
	let mut s = format!("{}", seps.len());
	for (k, a) in seps {
		s.push_str(&format!(" {} {}", hex(k), a));
	}
	s.push_str(" |");
	let mut last = children.len();
	while last > 0 && children[last - 1] == 0 {
		last -= 1;
	}
	for a in &children[..last] {
		s.push_str(&format!(" {}", a));
	}
	s
}

/// One malformed (or at least non-canonical) variant of the entry bytes of `n`.
fn mutate(n: &NodeDump, h: u64) -> (&'static str, Vec<u8>) {
	let kids: Vec<u64> = n.children.iter().map(|c| c.0).collect();
	let k = n.separators.len();
	let mut b = n.encoded.clone();
	let j = if k > 0 { ((h >> 8) % k as u64) as usize } else { 0 };
	// offset of separator j = length of the encoding of the first j separators
	let sep_off = reencode(&n.separators[..j], &kids).len();
	match h % 7 {
		0 => {
			b.truncate(((h >> 16) % (b.len() as u64).max(1)) as usize);
			("cut_random", b)
		},
		1 => {
			// exactly after the child index that precedes separator j: a shorter node
			b.truncate(sep_off);
			("cut_after_child", b)
		},
		2 if k > 0 => {
			for x in &mut b[sep_off..sep_off + 8] {
				*x = 0;
			}
			("null_value", b)
		},
		3 => {
			let extra = 1 + (h >> 16) % 16;
			for i in 0..extra {
				b.push((h >> (i % 8 * 8)) as u8 | 1);
			}
			("trailing_junk", b)
		},
		4 => {
			let extra = 8 + (h >> 16) % 12;
			b.resize(b.len() + extra as usize, 0);
			("trailing_zeros", b)
		},
		5 if k > 0 => {
			b[sep_off + 8] = 0xff;
			("length_escape", b)
		},
		6 if k > 0 => {
			b[sep_off + 8] = b[sep_off + 8].wrapping_add(1 + ((h >> 16) % 3) as u8);
			("length_changed", b)
		},
		_ => {
			b.truncate(((h >> 16) % 8) as usize);
			("cut_first_index", b)
		},
	}
}

fn fnv(seed: u64, x: u64) -> u64 {
	let mut h: u64 = 0xcbf29ce484222325 ^ seed.wrapping_mul(0x9e3779b97f4a7c15);
	for b in x.to_le_bytes() {
		h = (h ^ b as u64).wrapping_mul(0x100000001b3);
	}
	h ^ (h >> 29)
}

struct Cand<'a> {
	node: &'a NodeDump,
	level: u32,
	score: u64,
}

fn walk<'a>(
	n: &'a NodeDump,
	level: u32,
	depth: u32,
	salt: u64,
	cands: &mut Vec<Cand<'a>>,
	problems: &mut Vec<String>,
	ctr: &mut Counters,
) {
	ctr.inc("node.oracle.checked");
	let k = n.separators.len();
	let kids: Vec<u64> = n.children.iter().map(|c| c.0).collect();
	// --- oracle: the stored bytes are exactly the reference encoding of the decoded node
	if k > ORDER {
		problems.push(format!("node {}: {} separators", n.address, k));
	}
	if n.stray_separators != 0 {
		problems.push(format!("node {}: {} separators after an empty slot", n.address, n.stray_separators));
	}
	if n.separators.iter().any(|s| s.1 == 0) {
		problems.push(format!("node {}: separator with a null value address", n.address));
	}
	if kids.len() != ORDER + 1 {
		problems.push(format!("node {}: dump has {} child slots", n.address, kids.len()));
	}
	if kids.iter().skip(k + 1).any(|a| *a != 0) {
		problems.push(format!("node {}: child slot set beyond separator count {} + 1", n.address, k));
	}
	let internal = level < depth;
	if internal && kids.iter().take(k + 1).any(|a| *a == 0) {
		problems.push(format!("node {} (level {} of depth {}): null child among the first {}", n.address, level, depth, k + 1));
	}
	if !internal && kids.iter().any(|a| *a != 0) {
		problems.push(format!("leaf {}: child slot set", n.address));
	}
	let re = reencode(&n.separators, &kids);
	if re != n.encoded {
		let common = re.iter().zip(n.encoded.iter()).take_while(|(a, b)| a == b).count();
		problems.push(format!(
			"node {}: stored entry ({} bytes) differs from the re-encoding of the decoded node ({} bytes, {} separators) at offset {}; stored tail {} / expected tail {}",
			n.address,
			n.encoded.len(),
			re.len(),
			k,
			common,
			hex(&n.encoded[common..n.encoded.len().min(common + 24)]),
			hex(&re[common..re.len().min(common + 24)])
		));
		if n.encoded.len() > re.len() && n.encoded[..re.len()] == re[..] {
			ctr.inc("node.oracle.trailing_bytes");
		}
	}
	// --- candidate for the model line
	let escaped = n.separators.iter().any(|s| s.0.len() >= 255);
	let boundary = n.separators.iter().any(|s| s.0.len() == 254 || s.0.len() == 255);
	let empty_key = n.separators.iter().any(|s| s.0.is_empty());
	let mut score = fnv(salt, n.address) % 8;
	if level == 0 {
		score += 100;
	}
	if k == ORDER {
		score += 8;
	}
	if escaped {
		score += 6;
	}
	if boundary {
		score += 3;
	}
	if empty_key {
		score += 3;
	}
	if internal {
		score += 2;
	}
	cands.push(Cand { node: n, level, score });
	for (_, c) in &n.children {
		if let Some(c) = c {
			walk(c, level + 1, depth, salt, cands, problems, ctr);
		}
	}
}

/// Walks the dump: oracle on EVERY node (returned problems), model lines for up to `budget`
/// nodes (the root first, then the best scoring nodes, one per level before a level repeats).
pub fn node_lines(d: &TreeDump, t: &mut Trace, ctr: &mut Counters, budget: usize) -> Vec<String> {
	let mut problems = vec![];
	let root = match &d.root_node {
		Some(r) => r,
		None => return problems,
	};
	ctr.inc("node.dumps");
	// rotates the tie-break so that successive dumps of a slowly changing tree pick other nodes
	let salt = ctr.0.get("node.dumps").copied().unwrap_or(0);
	let mut cands = vec![];
	walk(root, 0, d.depth, salt, &mut cands, &mut problems, ctr);
	cands.sort_by(|a, b| b.score.cmp(&a.score).then(a.node.address.cmp(&b.node.address)));
	let total_bytes: usize = cands.iter().map(|c| c.node.encoded.len()).sum();
	let small = cands.len() <= SMALL_DUMP_NODES && total_bytes <= SMALL_DUMP_BYTES;
	let budget = if small { cands.len().max(budget) } else { budget };
	ctr.inc(if small { "node.dumps.sent_completely" } else { "node.dumps.sampled" });
	ctr.add("node.in_dumps", cands.len() as u64);
	let mut chosen: Vec<usize> = vec![];
	let mut levels_used: Vec<u32> = vec![];
	for pass in 0..2 {
		for (i, c) in cands.iter().enumerate() {
			if chosen.len() >= budget {
				break
			}
			if chosen.contains(&i) {
				continue
			}
			if pass == 0 && !small && levels_used.contains(&c.level) {
				continue
			}
			let len = c.node.encoded.len();
			if len > HARD_LIMIT {
				ctr.inc("node.skipped.over_hard_limit");
				continue
			}
			if len > SOFT_LIMIT && fnv(salt ^ 0x6e6f6465, c.node.address) % 8 != 0 {
				ctr.inc("node.skipped.over_4k");
				continue
			}
			chosen.push(i);
			levels_used.push(c.level);
		}
	}
	let mut last_chosen: Option<&NodeDump> = None; // smallest chosen node
	for i in chosen {
		let c = &cands[i];
		let n = c.node;
		let k = n.separators.len();
		ctr.inc("node.lines");
		ctr.add("node.bytes", n.encoded.len() as u64);
		ctr.inc(&format!("node.level.{}", c.level.min(3)));
		ctr.inc(&format!("node.nsep.{}", k));
		if k == ORDER {
			ctr.inc("node.full");
		}
		if c.level < d.depth {
			ctr.inc("node.internal");
		} else {
			ctr.inc("node.leaf");
		}
		if n.separators.iter().any(|s| s.0.len() >= 255) {
			ctr.inc("node.escaped_key");
		}
		if n.separators.iter().any(|s| s.0.len() == 254) {
			ctr.inc("node.key254");
		}
		if n.separators.iter().any(|s| s.0.is_empty()) {
			ctr.inc("node.empty_key");
		}
		if n.encoded.len() > SOFT_LIMIT {
			ctr.inc("node.over_4k");
		}
		let kids: Vec<u64> = n.children.iter().map(|c| c.0).collect();
		// a real node: the model's encoder must reproduce the stored bytes from the decoded node
		t.op(&format!("c04b node {}", hex(&n.encoded)), &format!("{} enc=same", canonical(&n.separators, &kids)));
		// the smallest chosen node is the one mutated below
		if last_chosen.map_or(true, |m| n.encoded.len() < m.encoded.len()) {
			last_chosen = Some(n);
		}
	}
	// malformed stream: the crate's own `Node::from_encoded` against the model on a mutated entry
	if let Some(n) = last_chosen {
		if n.encoded.len() <= SOFT_LIMIT {
			let (kind, bytes) = mutate(n, fnv(salt ^ 0x6d757461, n.address));
			let expected = match parity_db::verif::node_codec(&bytes) {
				Ok((seps, kids)) => {
					ctr.inc("node.mal.decoded");
					if seps.len() != n.separators.len() {
						ctr.inc("node.mal.decoded_shorter");
					}
					let same = reencode(&seps, &kids) == bytes;
					ctr.inc(if same { "node.mal.enc_same" } else { "node.mal.enc_diff" });
					format!("{} enc={}", canonical(&seps, &kids), if same { "same" } else { "diff" })
				},
				Err(e) => {
					ctr.inc("node.mal.err");
					format!("err:{}", crate::util::err_kind(&e))
				},
			};
			ctr.inc(&format!("node.mal.{}", kind));
			ctr.add("node.bytes", bytes.len() as u64);
			t.op(&format!("c04b node {}", hex(&bytes)), &expected);
		}
	}
	problems
}
